"""Walk live ``construct`` objects of /repo into a plain JSON-able IR.

The IR is the *only* thing the Lean translator prints; it contains no semantics beyond
what the construct objects declare.  Unknown classes / expression forms raise
``Untranslatable`` -- a broken tie, never a silent default.

IR nodes (dicts with key "k"):
  {"k":"struct","fields":[[name,node],...]}
  {"k":"uint","n":bytes}                     big-endian unsigned (FormatField >B >H >L >Q)
  {"k":"aint","n":expr}  {"k":"afloat","n":expr}  {"k":"acomplex","n":expr}
  {"k":"pstr","n":expr}                      repo PaddedString (strip)
  {"k":"bytes","n":expr}                     StripNullBytes(Bytes(n))
  {"k":"array","count":expr,"elem":node}
  {"k":"factor","e":float-repr,"sub":node}
  {"k":"meta","attrs":{...},"sub":node}
  {"k":"enum","table":[[code,name],...],"sub":node}
  {"k":"flag","n":bytes}
  {"k":"ydms","sub":node}   {"k":"ydus","sub":node,"ref":expr}
  {"k":"tell"}  {"k":"seek","at":expr}  {"k":"computed","e":expr}
expr:
  {"x":"const","v":int} | {"x":"path","p":[names...]} | {"x":"add|sub|mul","l":expr,"r":expr}
"""
import operator

import construct as C
from construct import expr as CE


class Untranslatable(Exception):
    pass


def walk_expr(e):
    if isinstance(e, bool):
        raise Untranslatable(f"bool expr {e!r}")
    if isinstance(e, int):
        return {"x": "const", "v": e}
    if isinstance(e, CE.BinExpr):
        ops = {operator.add: "add", operator.sub: "sub", operator.mul: "mul"}
        if e.op not in ops:
            raise Untranslatable(f"operator {e.op!r} in {e!r}")
        return {"x": ops[e.op], "l": walk_expr(e.lhs), "r": walk_expr(e.rhs)}
    if isinstance(e, CE.Path):
        names = []
        cur = e
        while cur is not None:
            f = cur._Path__field
            if f is not None:
                names.append(f)
            cur = cur._Path__parent
        return {"x": "path", "p": list(reversed(names))}
    raise Untranslatable(f"expression {e!r} of type {type(e).__name__}")


_FMT = {">B": 1, ">H": 2, ">L": 4, ">Q": 8}


def walk(con):
    # imports of repo adapter classes happen lazily so this module can be imported without the repo
    from ceos_alos2 import datatypes as D
    from ceos_alos2.sar_image.enums import Flag

    t = type(con)
    if t is C.Renamed:
        return walk(con.subcon)
    if t is C.Struct:
        fields = []
        for sc in con.subcons:
            if type(sc) is not C.Renamed and sc.name is None:
                raise Untranslatable(f"anonymous struct member {sc!r}")
            fields.append([sc.name, walk(sc)])
        return {"k": "struct", "fields": fields}
    if t is C.FormatField:
        if con.fmtstr not in _FMT:
            raise Untranslatable(f"format {con.fmtstr}")
        return {"k": "uint", "n": _FMT[con.fmtstr]}
    if t is C.Array:
        return {"k": "array", "count": walk_expr(con.count), "elem": walk(con.subcon)}
    if t is C.Tell.__class__ or con is C.Tell:
        return {"k": "tell"}
    if t is C.Seek:
        if con.whence != 0:
            raise Untranslatable("Seek whence != 0")
        return {"k": "seek", "at": walk_expr(con.at)}
    if t is C.Computed:
        return {"k": "computed", "e": walk_expr(con.func)}
    if t is C.Enum:
        table = sorted((int(k), str(v)) for k, v in con.decmapping.items()) if all(
            isinstance(k, int) for k in con.decmapping
        ) else [[k, str(v)] for k, v in con.decmapping.items()]
        return {"k": "enum", "table": [list(x) for x in table], "sub": walk(con.subcon)}
    if t is Flag:
        sub = walk(con.subcon)
        if sub["k"] != "uint":
            raise Untranslatable("Flag over non-uint")
        return {"k": "flag", "n": sub["n"]}
    if t in (D.AsciiInteger, D.AsciiFloat, D.PaddedString):
        n = _padded_len(con.subcon)
        return {"k": {D.AsciiInteger: "aint", D.AsciiFloat: "afloat", D.PaddedString: "pstr"}[t], "n": n}
    if t is D.AsciiComplex:
        sub = walk(con.subcon)
        ok = (
            sub["k"] == "struct"
            and [f[0] for f in sub["fields"]] == ["real", "imaginary"]
            and all(f[1]["k"] == "afloat" for f in sub["fields"])
            and sub["fields"][0][1]["n"] == sub["fields"][1][1]["n"]
            and sub["fields"][0][1]["n"]["x"] == "const"
        )
        if not ok:
            raise Untranslatable("AsciiComplex shape")
        return {"k": "acomplex", "n": {"x": "const", "v": 2 * sub["fields"][0][1]["n"]["v"]}}
    if t is D.Factor:
        return {"k": "factor", "e": repr(float(con.factor)), "sub": walk(con.subcon)}
    if t is D.Metadata:
        return {"k": "meta", "attrs": dict(con.attrs), "sub": walk(con.subcon)}
    if t is D.StripNullBytes:
        sc = con.subcon
        if type(sc) is not C.Bytes:
            raise Untranslatable("StripNullBytes over non-Bytes")
        return {"k": "bytes", "n": walk_expr(sc.length)}
    if t is D.DatetimeYdms:
        sub = walk(con.subcon)
        if sub["k"] != "struct" or [f[0] for f in sub["fields"]] != ["year", "day_of_year", "milliseconds"]:
            raise Untranslatable("DatetimeYdms shape")
        return {"k": "ydms", "sub": sub}
    if t is D.DatetimeYdus:
        return {"k": "ydus", "sub": walk(con.subcon), "ref": walk_expr(con.reference_date)}
    raise Untranslatable(f"construct class {t.__module__}.{t.__name__}")


def _padded_len(string_encoded):
    if type(string_encoded) is not C.StringEncoded or string_encoded.encoding != "ascii":
        raise Untranslatable(f"not an ascii PaddedString: {string_encoded!r}")
    fs = string_encoded.subcon
    if type(fs) is not C.FixedSized:
        raise Untranslatable("PaddedString without FixedSized")
    ns = fs.subcon
    if type(ns) is not C.NullStripped or ns.pad != b"\x00" or ns.subcon is not C.GreedyBytes:
        raise Untranslatable("PaddedString inner shape")
    return walk_expr(fs.length)


def records():
    """name -> live construct object, for every record the reader uses."""
    from ceos_alos2.common import record_preamble
    from ceos_alos2.sar_image.file_descriptor import file_descriptor_record as image_fd
    from ceos_alos2.sar_image.processed_data import processed_data_record
    from ceos_alos2.sar_image.signal_data import signal_data_record
    from ceos_alos2.sar_leader.structure import sar_leader_record
    from ceos_alos2.sar_trailer.file_descriptor import file_descriptor_record as trailer_fd
    from ceos_alos2.volume_directory.structure import volume_directory_record

    return {
        "record_preamble": record_preamble,
        "image_file_descriptor": image_fd,
        "signal_data_record": signal_data_record,
        "processed_data_record": processed_data_record,
        "sar_leader_record": sar_leader_record,
        "volume_directory_record": volume_directory_record,
        "trailer_file_descriptor": trailer_fd,
    }


def walk_all():
    return {name: walk(con) for name, con in records().items()}


if __name__ == "__main__":
    import json
    import sys

    json.dump(walk_all(), sys.stdout, indent=1, ensure_ascii=False)

#!/bin/bash
# usage: try_mutant.sh <patch.diff> <tier> <prop> [<prop>...]   — apply a seeded change to /repo, run checks, undo.
patch="$1"; tier="$2"; shift 2
if ! git -C /repo diff --quiet; then echo "/repo is dirty"; exit 3; fi
git -C /repo apply "$patch" || { echo "patch does not apply"; exit 3; }
# evidence written while a seeded change is applied must not replace the evidence of the unchanged tree
evbak=$(mktemp -d); cp -a /verif/evidence/. "$evbak"/
trap 'git -C /repo checkout -- . ; git -C /repo clean -fdq; /venv/bin/python /verif/tools/translate.py >/dev/null; cp -a "$evbak"/. /verif/evidence/; rm -rf "$evbak"' EXIT
for p in "$@"; do
  /venv/bin/python /verif/run.py check "$p" --tier "$tier" 2>&1 | grep -E "^VIOLATION|^KNOWN|^C[0-9]+ |BROKEN" | cut -c1-400
  echo "exit=$? ($p)"
done

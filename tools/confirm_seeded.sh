#!/bin/bash
# usage: confirm_seeded.sh <name> <dir with patch.diff demo.py>  — confirm a seeded change in a scratch worktree of /repo
name="$1"; src="$2"; wt=/tmp/sw/$name
rm -rf "$wt"; mkdir -p /tmp/sw
git -C /repo worktree add --detach "$wt" HEAD -q || exit 3
cd "$wt"; export PYTHONPATH="$wt"
timeout 600 /venv/bin/python "$src/demo.py" >/tmp/sw/$name.clean.log 2>&1; clean=$?
git apply "$src/patch.diff" || { echo "$name: patch does not apply"; cd /; git -C /repo worktree remove --force "$wt"; exit 3; }
timeout 600 /venv/bin/python "$src/demo.py" >/tmp/sw/$name.patched.log 2>&1; patched=$?
/venv/bin/python -m pytest -q -p no:cacheprovider --timeout=900 --junitxml=/tmp/sw/$name.junit.xml >/tmp/sw/$name.pytest.log 2>&1
/venv/bin/python - "$name" <<'PY'
import json, sys, xml.etree.ElementTree as ET
name = sys.argv[1]
base = set(json.load(open("/root/.vp/BASELINE.json"))["stable_pass"])
passed = set()
for tc in ET.parse(f"/tmp/sw/{name}.junit.xml").iter("testcase"):
    if not any(ch.tag in ("failure", "error", "skipped") for ch in tc):
        passed.add(f"{tc.get('classname')}::{tc.get('name')}")
print(f"{name}: baseline tests still passing {len(base & passed)}/{len(base)}")
PY
echo "$name: demo clean exit=$clean patched exit=$patched"
cd /; git -C /repo worktree remove --force "$wt"

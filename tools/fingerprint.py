#!/usr/bin/env python3
"""Source fingerprints: an AST hash (comments, docstrings and formatting do not count) of every module of /repo/ceos_alos2.

`spec/source_fingerprints.json` is frozen at the tree the models were last validated against (thorough correspondences).
A check compares the current tree with it: when a file anchored by the property differs, the quick tier runs that
property's correspondences with the thorough parameters (under a time budget).  A differing fingerprint is never an alarm by
itself — it only deepens the validation of the model against the code that is there now.

usage: fingerprint.py            print the current fingerprints
       fingerprint.py --freeze   rewrite spec/source_fingerprints.json
"""
import ast
import hashlib
import json
import os
import sys

VERIF = os.path.dirname(os.path.dirname(os.path.abspath(__file__)))
REPO = os.environ.get("VERIF_REPO", "/repo")   # development only: an isolated checkout to try seeded changes in
REPO_PKG = os.path.join(REPO, "ceos_alos2")
FROZEN = os.path.join(VERIF, "spec", "source_fingerprints.json")


def _strip_docstrings(tree):
    for node in ast.walk(tree):
        if isinstance(node, (ast.Module, ast.FunctionDef, ast.AsyncFunctionDef, ast.ClassDef)):
            b = node.body
            if b and isinstance(b[0], ast.Expr) and isinstance(getattr(b[0], "value", None), ast.Constant) and isinstance(b[0].value.value, str):
                node.body = b[1:] or [ast.Pass()]
    return tree


def file_hash(path):
    try:
        src = open(path, encoding="utf-8").read()
        tree = _strip_docstrings(ast.parse(src))
        return hashlib.sha256(ast.dump(tree, include_attributes=False).encode()).hexdigest()[:16]
    except SyntaxError:
        return "syntax-error"


def current():
    out = {}
    for dp, dn, files in os.walk(REPO_PKG):
        dn[:] = [d for d in dn if d not in ("tests", "__pycache__")]
        for f in sorted(files):
            if f.endswith(".py"):
                p = os.path.join(dp, f)
                out[os.path.relpath(p, REPO)] = file_hash(p)
    return out


def changed_files():
    """files whose AST differs from the frozen fingerprints (added / removed files included)"""
    try:
        frozen = json.load(open(FROZEN))["files"]
    except (OSError, ValueError, KeyError):
        return None
    cur = current()
    return sorted(k for k in set(frozen) | set(cur) if frozen.get(k) != cur.get(k))


if __name__ == "__main__":
    if "--freeze" in sys.argv:
        import subprocess
        head = subprocess.run(["git", "-C", REPO, "rev-parse", "HEAD"], capture_output=True, text=True).stdout.strip()
        dirty = subprocess.run(["git", "-C", REPO, "status", "--porcelain"], capture_output=True, text=True).stdout.strip()
        if dirty:
            sys.exit("refusing to freeze: /repo has uncommitted changes")
        json.dump({"repo_head": head, "files": current()}, open(FROZEN, "w"), indent=1, sort_keys=True)
        print("frozen", len(current()), "files at", head[:12])
    else:
        print(json.dumps({"changed": changed_files(), "files": len(current())}, indent=1))

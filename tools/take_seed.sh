#!/bin/bash
# usage: take_seed.sh Cxx  — copy /tmp/mut2/Cxx/_seed to /verif/seeded/Cxxb and confirm it in a scratch worktree
p="$1"; src=/tmp/mut2/$p/_seed; dst=/verif/seeded/${p}b
[ -f "$src/patch.diff" ] || { echo "no patch for $p"; exit 3; }
mkdir -p "$dst"; cp "$src/patch.diff" "$src/demo.py" "$src/notes.md" "$dst/" 2>/dev/null
/verif/tools/confirm_seeded.sh ${p}b "$dst"

#!/bin/bash
# usage: take_seed.sh Cxx [srcdir=/tmp/mut2] [suffix=b] — copy <srcdir>/Cxx/_seed to /verif/seeded/Cxx<suffix> and confirm it in a scratch worktree
p="$1"; base="${2:-/tmp/mut2}"; suf="${3:-b}"; src=$base/$p/_seed; dst=/verif/seeded/${p}${suf}
[ -f "$src/patch.diff" ] || { echo "no patch for $p"; exit 3; }
mkdir -p "$dst"; cp "$src/patch.diff" "$src/demo.py" "$src/notes.md" "$dst/" 2>/dev/null
/verif/tools/confirm_seeded.sh ${p}${suf} "$dst"

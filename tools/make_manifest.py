#!/usr/bin/env python3
"""Regenerate /verif/MANIFEST.json from the table below (kept in one place so it stays valid)."""
import json
import os

VERIF = os.path.dirname(os.path.dirname(os.path.abspath(__file__)))

CLAIMED = {
    "C01": ("Lean theorems reader_pixel_fidelity (end to end on the models: image file bytes -> layout-based reader -> lazy array -> samples, every records_per_chunk) / record_addresses (every parse of a line-record layout regenerated from the source: record_start = pos, data.start = pos + 192/544, data.stop = pos + record_length) / layout_ranges (the chunk loop of read_metadata through the layout interpreter gives [720+iL+P, 720+(i+1)L) for every records_per_chunk) / wf_ranges / pixel_fidelity / prefix_lengths / sample_sizes (all geometries, all positive rpc) over hand models of io.py+array.py, tied by translator (layouts, 720, tables) and seeded correspondence; end-to-end oracle on 4 filesystems",
            "numpy's byte reinterpretation and fsspec I/O are contracts (tested); model tied by differential testing", "7 C01"),
    "C02": ("Lean theorems reader_getitem_eq_np (the array the reader builds from an image file: every basic selection equals NumPy indexing of the file's own samples) and getitem_eq_np: model of Array.__getitem__ = NumPy basic indexing of the loaded image for every image, rpc and basic key; BASIC support re-read from source; correspondence over the full slice cube; isel/vectorised oracle vs in-memory twin",
            "xarray's indexer decomposition is third-party (tested end-to-end; two xarray-internal failures are recorded as known findings)", "7 C02"),
    "C06": ("Lean theorems reader_data_rpc_independent (one image file opened by the layout-based reader with two chunk sizes: every basic selection on the two lazy arrays agrees) / product_rpc_independent (whole-product model: root attributes, summary, /metadata and the set and order of image groups do not depend on the chunk size) / image_rpc_independent (layout-based reader: two successful opens of a well-framed image with any two chunk sizes return the same header, line records, image group and array metadata up to the chunk size) / record_window (translation invariance of the layout interpreter on the line-record layouts) / metadata_rpc_independent / data_rpc_independent / preferred_chunksize; pairwise bit-exact tree comparison oracle",
            "float division in math.ceil exact below 2**53", "7 C06"),
    "C11": ("Lean theorems reader_read_bounds (the request for each group of the array the reader builds from an image file spans exactly that group's lines, inside the file) and theorems on the I/O trace component of the model (one seek+read per touched chunk, confined to the chunk and the file; open pass = prefix of ceil(n/rpc) sequential reads); event-sequence correspondence against a tracing file object; instrumented-filesystem oracle",
            "xarray may widen selections before the backend is called; bound checked against the selection's line span", "7 C11"),
    "C05": ("Lean theorems attitude / data_quality / facility_1_4 / volume_directory / trailer / leader / static_records on the record layouts regenerated from /repo (incl. their this-expressions): a successful parse consumes exactly the declared bytes for every count and length; layout correspondence; all-N oracle with field-by-field comparison after each variable record",
            "the interpreter's meaning of construct classes is tied by differential testing; trailer_images / trailer_samples: the trailer reader decodes image i from the bytes between the running sums of the declared lengths (model tied by the trailer correspondence); numpy's frombuffer/reshape are contracts", "7 C05"),
    "C07": ("Lean theorems product_cache_transparent (whole-product cache-first model of io.open, one pair of index files per image, tied by H12: any benign index files, any options - the tree is the uncached tree at the call's chunk size) and read_valid / cache_is_used / no_cache_consulted over a state machine on the TEXT of the two index files, parametric in json.loads (two contracts), using the codec round trip; correspondence of codec, json and the cache-first open on real files, and of the reader's image group as the codec sees it (bridge, H11); oracle over producer x location x filesystem x rpc(write) x rpc(read)",
            "EnvOK is discharged for the groups of the layout-based reader (concrete_read_valid / cache_transparent_for_every_image / concrete_env_ok, bridge_total, through the bridge model tied by H9 + H11) up to the json and float-repr contracts and instants >= 1970; non-local filesystems are a recorded known finding", "7 C07"),
    "C08": ("Lean theorem decode_encode: decodeDoc r (encodeDoc g) = g.withRpc r for every group in a decidable codec domain (structural induction; incl. calendar/text round trip of datetime references), reader_group_round_trip / reader_group_cacheable (every group the layout-based reader builds from an image file with >= 1 line record lies in that domain and round-trips), tuple_tag, document_is_json; text-exact correspondence with caching.encode/decode on generated hierarchies and on the groups the reader builds from synthesised image files (bridge, H11)",
            "json float/int round trip and ndarray.tolist/np.array are contracts; zero-size rank>=2 arrays are a recorded known finding", "7 C08"),
    "C09": ("Lean theorems product_open_after_crashes (whole product: interrupted index writes for any image at either location, then any open) and prefix_not_json (no proper non-empty prefix of a dumped JSON container is balanced), open_after_crash (every state of arbitrary prefixes at both locations), concrete_open_after_crash (the same for the concrete environment of every image file that opens: no assumption about the groups), repair; every-prefix oracle on real documents, SIGKILL runs in the thorough tier",
            "that an interrupted write leaves a prefix is OS behaviour (sampled); json.loads rejecting unbalanced text is a contract (tested on every prefix)", "7 C09"),
    "C10": ("Lean theorems product_history_independent (whole-product model: any history of opens with any options, CLI runs, deletions and interrupted writes on any image file - every open returned the uncached tree of its own chunk size; induction over the history), product_writes, and history_independent: for every operation sequence (induction, no length bound) every open returns the uncached group of its own rpc; inv_step; writes; real-file histories vs the flow model and vs fresh uncached opens, directory hashes, option-dict deep copies",
            "caller-dict aliasing is only observed by the harness", "7 C10"),
    "C03": ("Lean theorems image_group / image_array (the image group as open_image builds it - descriptor, chunked line records, rebased offsets, transform_metadata - is the documented group for every file content and every records_per_chunk), line_metadata_11/15 (for ANY number n>=1 of line records, every file content: the image group is the frozen documented group, induction over n), header_attrs (present exactly when non-blank, all 32 combinations), field_positions (golden offsets/widths/scale factors/units), line_times; layout + transformer correspondence; field-by-field end-to-end oracle",
            "numpy dtype inference / datetime64 override and IEEE scaling are third-party (scaling checked exactly by the harness)", "7 C03"),
    "C04": ("Lean theorem metadata: for EVERY leader file that parses, transform_metadata (record selection, the seven record pipelines, renames, attitude time fix-up) yields the frozen documented /metadata tree evaluated on the parsed record (any number of map-projection records, any attitude/facility lengths, any number n>=1 of attitude points and 1..16 channels); per-record theorems dataset_summary / radiometric_data / transformations / platform_position / map_projection (per designator class) / attitude (all n) / data_quality_summary; field_positions (golden offsets/widths/conversions of the fixed-size records), framing, numeric_text; layouts, pipeline configuration and step order regenerated from source; transformer correspondence (11 pipelines incl. whole leaders); field-by-field end-to-end oracle",
            "float()/IEEE scaling, strptime/timedelta of the first-point time and numpy timedelta arithmetic are contracts (evaluated exactly by the harness)", "7 C04"),
    "C12": ("Lean theorems image_group_numpy_typed (every image file that opens: each member of the image group is the lazy pixel array or a 1-d non-empty NumPy array of a real dtype with declared shape = element count; bridge_total + bridged_members_typed, NumPy dtype inference modelled and tied by H11) / documented_trees_well_typed / image_group_well_typed (any n) / metadata_well_typed + leader_trees_well_typed (the whole documented /metadata tree, any counts and designator class) / typing_is_shape_only, declared_shape (from pixel_fidelity), real_dtypes (re-read from source); oracle over dtype/shape/nbytes/repr/attribute types/selection shapes",
            "numpy's dtype inference of python lists is third-party", "7 C12"),
    "C13": ("Lean theorems product_factors / codec_view_is_product / codec_view_error (the whole-product model factors through its head and one open per image; the codec-view product of the cache-first model has the same root attributes, summary, /metadata and image names in the same order), group_name_has_no_slash (character-level capture soundness of the regex matcher), imagery_children (no image dropped or swapped when names are distinct), name_collision, group_names_injective, roles_independent_of_line_order (permutation invariance), metadata_children (for every leader file: /metadata has exactly the record groups present in the leader, map_projection iff the file holds such a record), product_tree (model of the whole io.open: every successful open is assembled from exactly the documented pieces - summary, root attributes, /metadata, one image group per image file in summary order), coordinates_promoted (name-level model of to_dataset / decode_coords, tied by correspondence), root_children; whole-product correspondence (intact and damaged products) against the real io.open; oracle over 1-8 images x polarisation x scan x summary line order, uncached and through a freshly created cache: node paths and order, per-group pixel identity with the right file, attributes",
            "DataTree.from_dict / set_coords are xarray's", "7 C13"),
    "C14": ("Lean theorems line_sound / line_complete (exact line grammar incl. lazy matching, values with = and quotes), errors_exact, crlf, perm_invariant on the regex regenerated from CPython's own AST; summary correspondence; whole-product oracle with permuted/CRLF/corrupted summaries",
            "the backtracking matcher model is tied to CPython's re by correspondence", "7 C14"),
    "C15": ("Lean theorems product_id_total (3600 ids) / product_id_sound, scene_id_total / scene_id_sound, valid_dates, scan_info_exact, group_name_injective, documented_tables: regex classes and code tables regenerated from the source agree; matcher soundness w.r.t. a declarative regex semantics; decoder correspondence on the full cross product",
            "strptime %y%m%d century pivot is a contract", "7 C15"),
    "C16": ("Lean theorems root_attrs (for EVERY volume directory that parses, any number of file pointers: root attributes = frozen documented list evaluated on the record), field_positions, framing, padded_text, pipeline_shape; correspondence; oracle",
            "strptime on non-canonical digit strings not modelled", "7 C16"),
    "C17": ("Lean theorems line_time / line_time_us / civil_dates / every_day_is_a_date / text_instant for all years 2014-2049 (29 Feb, day 366, last ms) and attitude_one_day_late (negation witness for the attitude clause: known finding); time-decoder correspondence; same-instant oracle",
            "the property's attitude clause is false for the code (recorded known finding, test suite pins it); timedelta/strptime are contracts", "7 C17"),
    "C19": ("Lean theorems noninterference (every interleaving, any number of loads), finished_equals_solo, no_deadlock, completes over an interleaving model whose per-load program is the getitem trace; source facts (private handle, per-variable lock) re-read from the AST; deterministic-scheduler oracle enumerating interleavings of real threads",
            "real schedules / GIL / lock implementation only enumerated at filesystem yield points", "7 C19"),
    "C20": ("Lean theorems blank_int/float/text, no_derived_attribute, padding_inert + padding_inert_leader_records (dataset summary, radiometric, facility-5, platform-position, map-projection records: records agreeing on live-field bytes give equal output), padding_inert_counted_records (attitude, data quality: only the count and the entries present matter; unused slots, trailing blanks, preamble are inert), padding_inert_volume_directory (file-pointer records are inert), live_fields_only(2), field_locality (13 fixed-size layouts), padding_inert_line_records (any number of line records of either kind) and padding_inert_image_file (whole image files through the layout-based reader, every records_per_chunk); oracle: nullable fields blanked individually and in subsets, padding rewritten with random content; byte influence map (changed output leaves per changed input byte vs the layout + provenance prediction; quick: sampled positions, thorough: every position of two products)",
            "bool(-1)=True for blank flag columns is exempt by the property's wording; the influence map is an oracle (a search), the theorems carry the universal claim", "7 C20"),
    "C18": ("Lean theorems head_error_with_caches (no index file can make a product with a failing summary / volume directory / leader step open, and none is touched), missing_files (whole-product model: summary error, then volume directory / leader / image files in order, first missing one is FileNotFoundError) / trailer_never_read / records_within_file / cut_file_never_complete (layout-based reader: returned records lie inside the file, a cut file never yields its declared number of records, for every records_per_chunk), truncated_image (addressing model, arbitrary bytes: short file => error or fewer than n records), complete_image, missing_summary; whole-product correspondence on damaged products (error classes of truncated / removed / corrupted files); truncation/missing-file oracle over every record boundary +-1 x rpc",
            "xarray.Dataset's dimension check and promptness are not proved (measured)", "7 C18"),
}


def main():
    props = [json.loads(l) for l in open(os.path.join(VERIF, "properties.jsonl"))]
    pending = json.load(open(os.path.join(VERIF, "tools", "pending.json"))) if os.path.exists(os.path.join(VERIF, "tools", "pending.json")) else {}
    m = {
        "version": 1,
        "setup_cmd": "/venv/bin/python /verif/run.py setup",
        "hooks": {"guard": "XARRAY_CEOS_ALOS2_VERIF",
                  "enable": "no source hooks are needed: tracing filesystem, scheduler and crash injection live in /verif/harness (fsspec protocol registry, subprocesses)",
                  "baseline_off_cmd": "/venv/bin/python /verif/tools/run_baseline.py",
                  "source_commits": [], "add_only": True},
        "engines": [{"name": "lean4-proof+correspondence", "path": "run.py", "serves_properties": sorted(CLAIMED),
                     "kind_free_text": "Lean 4 theorems over executable models (lean/Alos2), models tied to /repo by a translator (tools/translate.py -> lean/Alos2/Gen) and a seeded correspondence harness (harness/), plus an end-to-end oracle as failing-input search"}],
        "checks": [],
        "not_applicable": [],
        "notes": "Genuine defects repaired in /repo by 'fix:' commits and defects recorded instead are listed in known_findings.json; see DESIGN.md section 9.",
    }
    for p in props:
        pid = p["id"]
        if pid in CLAIMED:
            text, note, ref = CLAIMED[pid]
            m["checks"].append({
                "property_id": pid,
                "quick_cmd": f"/venv/bin/python /verif/run.py check {pid} --tier quick",
                "thorough_cmd": f"/venv/bin/python /verif/run.py check {pid} --tier thorough",
                "evidence_file": f"/verif/evidence/{pid}.json",
                "replay_cmd_template": f"/venv/bin/python /verif/run.py replay {pid} {{path}}",
                "engine": "lean4-proof+correspondence",
                "level_claimed": {"category": "proof", "text": text, "design_ref": "DESIGN.md section " + ref},
                "level_note": note + "; trusted base: Lean kernel, axioms propext/Classical.choice/Quot.sound, translator, correspondence harness, frozen spec",
                "technique": "Lean 4 machine-checked proof over an executable model + translator/correspondence tie",
            })
        else:
            m["not_applicable"].append({"property_id": pid, "reason": pending.get(pid, "check under construction (not yet registered)")})
    with open(os.path.join(VERIF, "MANIFEST.json"), "w") as f:
        json.dump(m, f, indent=1)
    print(len(m["checks"]), "checks;", len(m["not_applicable"]), "not applicable")


if __name__ == "__main__":
    main()

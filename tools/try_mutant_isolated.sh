#!/bin/bash
# usage: try_mutant_isolated.sh <patch.diff> <tier> <prop> [<prop>...]
# Like try_mutant.sh, but in an ISOLATED copy: a scratch worktree of /repo (found through PYTHONPATH) and a copy of /verif
# (with its Lean build), so that neither /repo nor /verif is touched — seeded changes can be tried while other runs use them.
patch="$1"; tier="$2"; shift 2
base=$(mktemp -d /tmp/mt.XXXXXX)
git -C /repo worktree add --detach "$base/repo" HEAD -q || exit 3
trap 'git -C /repo worktree remove --force "$base/repo" 2>/dev/null; rm -rf "$base"' EXIT
git -C "$base/repo" apply "$patch" || { echo "patch does not apply"; exit 3; }
rsync -a --exclude replays --exclude .git /verif/ "$base/verif/"
for p in "$@"; do
  PYTHONPATH="$base/repo" VERIF_REPO="$base/repo" /venv/bin/python "$base/verif/run.py" check "$p" --tier "$tier" 2>&1 \
    | grep -E "^VIOLATION|^KNOWN|^C[0-9]+ |BROKEN" | sed "s#$base/verif#/verif#g" | cut -c1-400
  echo "done ($p)"
  mkdir -p /verif/replays; cp "$base"/verif/replays/*.json /verif/replays/ 2>/dev/null
done

#!/venv/bin/python
"""ONE-OFF tool (not run by any check): derive spec/provenance.json — which output leaf of `open_alos2` is which
input field under which conversion — by opening several randomly synthesised products with the *reference* tree
(the pinned commit plus the reviewed `fix:` commits) and intersecting, for every output leaf, the set of input fields
whose documented reading reproduces it.  The result is data, reviewed by hand (names / units / group paths against the
record layouts) and then frozen; checks only ever read the JSON.
"""
import json
import os
import re
import sys

import numpy as np

VERIF = os.path.dirname(os.path.dirname(os.path.abspath(__file__)))
sys.path.insert(0, os.path.join(VERIF, "harness"))

import common  # noqa: E402,F401
import expect  # noqa: E402
import products  # noqa: E402

OPTIONAL_HEADER_ATTRS = {"interleaving_id", "valid_range", "number_of_burst_data", "number_of_lines_per_burst",
                         "number_of_overlap_lines_with_adjacent_bursts"}


def open_tree(prod):
    import ceos_alos2
    path, clean = products.place(prod, "memory")
    try:
        t = ceos_alos2.open_alos2(path, backend_options={"use_cache": False})
        t.load()
        return t
    finally:
        clean()


def scalar_candidates(x, leaves, scope):
    out = set()
    for path, leaf in leaves.items():
        if not path.startswith(scope) or path.endswith("@meta"):
            continue
        for c in expect.CONVS:
            try:
                if c == "iso17" and not isinstance(leaf.val, str):
                    continue
                if c == "ns" and leaf.kind not in ("ydms", "ydus"):
                    continue
                if c == "bool" and isinstance(leaf.val, (str, bytes, float, complex)):
                    continue
                if c == "id" and leaf.kind in ("ydms", "ydus"):
                    continue
                if expect.values_equal(expect.conv_apply(c, leaf.val, leaf), x):
                    out.add((path, c))
            except Exception:  # noqa: BLE001
                pass
    return out


def to_py(x):
    if isinstance(x, np.ndarray):
        return [to_py(e) for e in x.tolist()] if x.dtype.kind not in "M" else [np.datetime64(int(v), "ns") for v in x.astype("datetime64[ns]").astype("int64").ravel()] if x.ndim == 1 else x
    if isinstance(x, np.generic) and not isinstance(x, np.datetime64):
        return x.item()
    return x


def elements(data):
    """yield (index tuple, scalar) of a nested list / scalar"""
    if isinstance(data, (list, tuple)):
        for i, e in enumerate(data):
            for idx, s in elements(e):
                yield (i,) + idx, s
    else:
        yield (), data


def resolve_scalar(values, leaves_list, scope_list, name_hint=None, special_try=None, index_hint=()):
    """values: the same output leaf in every run.  returns a src dict or None"""
    cands = None
    for x, leaves, scope in zip(values, leaves_list, scope_list):
        c = scalar_candidates(x, leaves, scope)
        c = {(p[len(scope):], cv) for p, cv in c}
        cands = c if cands is None else (cands & c)
    if cands and len(cands) == 1:
        p, cv = next(iter(cands))
        return {"f": "{scope}" + p, **({"c": cv} if cv != "id" else {})}
    if cands and len(cands) > 1 and name_hint:
        named = {pc for pc in cands if re.sub(r"\[\d+\]", "", pc[0]).split(":")[-1].split(".")[-1] == name_hint}
        if len(named) == 1:
            p, cv = next(iter(named))
            return {"f": "{scope}" + p, **({"c": cv} if cv != "id" else {})}
        if named:
            cands = named
        if index_hint:
            ix = {pc for pc in cands if all(f"[{i}]" in pc[0] for i in index_hint)}
            if len(ix) == 1:
                p, cv = next(iter(ix))
                return {"f": "{scope}" + p, **({"c": cv} if cv != "id" else {})}
            if ix:
                cands = ix
    if cands and len(cands) > 1:
        # prefer identity conversions, then the shortest path; report ambiguity
        best = sorted(cands, key=lambda pc: (pc[1] != "id", len(pc[0]), pc[0]))
        return {"f": "{scope}" + best[0][0], **({"c": best[0][1]} if best[0][1] != "id" else {}), "_ambiguous": [list(b) for b in best[:4]]}
    if all(expect.values_equal(values[0], v) for v in values[1:]):
        v = values[0]
        if not isinstance(v, np.datetime64):
            return {"const": v}
    if special_try:
        for spec in special_try:
            try:
                if all(expect.values_equal(expect.special(spec["special"], lv, sc + spec.get("prefix_rel", ""), spec.get("idx")), x)
                       for x, lv, sc in zip(values, leaves_list, scope_list)):
                    return {"special": spec["special"], "prefix": "{scope}" + spec.get("prefix_rel", ""), **({"index": spec["index"]} if "index" in spec else {})}
            except Exception:  # noqa: BLE001
                pass
    return None


def build_src(datas, leaves_list, scope_list, dims, dyn_dims, path_hint, name_hint=None):
    """datas: the variable's data (nested lists) in every run"""
    idxs = [i for i, _ in elements(datas[0])]
    per_elem = {}
    for idx in idxs:
        vals = []
        for d in datas:
            cur = d
            for i in idx:
                cur = cur[i]
            vals.append(cur)
        st = None
        if name_hint == "time" and len(idx) == 1:
            st = [{"special": "attitude_time_code", "idx": idx[0], "index": "i0"}]
        if name_hint == "datetime_of_first_point":
            st = [{"special": "first_point", "prefix_rel": "platform_position."}]
        per_elem[idx] = resolve_scalar(vals, leaves_list, scope_list, name_hint=name_hint, special_try=st, index_hint=idx)
    if not dims:
        return per_elem[()]

    def nest(prefix, depth):
        if depth == len(dims):
            return per_elem[prefix]
        n = len([1 for i in idxs if i[:depth] == prefix and len(i) > depth and True]) and max(i[depth] for i in idxs if i[:depth] == prefix) + 1
        items = [nest(prefix + (k,), depth + 1) for k in range(n)]
        dim = dims[depth]
        # try to generalise over the index
        if all(it is not None and "f" in it for it in items) and len({it.get("c") for it in items}) == 1:
            f0 = items[0]["f"]
            for m in re.finditer(r"\[0\]", f0):
                templ = f0[:m.start()] + "[{" + "i%d" % depth + "}]" + f0[m.end():]
                if all(templ.replace("{i%d}" % depth, str(k)) == items[k]["f"] for k in range(n)):
                    src = {"f": templ, **({"c": items[0]["c"]} if "c" in items[0] else {})}
                    return {"each": dim, "var": "i%d" % depth, "src": src, **({} if dim in dyn_dims else {"n": n})}
        if dim in dyn_dims:
            if all(it is not None and "special" in it for it in items):
                return {"each": dim, "var": "i%d" % depth, "src": items[0]}
            print(f"  !! cannot generalise dynamic dim {dim} at {path_hint}: {items[:2]}")
        return {"list": items}
    return nest((), 0)


def freeze_nodes(trees, prods, node_paths, scope_fn, dyn_dims, rename=lambda p: p, img=None):
    out = {}
    leaves_list = [expect.input_leaves(p) for p in prods]
    for path in node_paths:
        scope_list = [scope_fn(p) for p in prods]
        dss = [(t[path] if path != "/" else t).to_dataset(inherit=False) for t in trees]
        node = {"attrs": {}, "vars": {}, "coords": sorted(dss[0].coords)}
        for name in dss[0].attrs:
            vals = [to_py(ds.attrs[name]) for ds in dss]
            if isinstance(vals[0], (list, tuple)):
                srcs = []
                for idx, _ in elements(vals[0]):
                    ev = []
                    for v in vals:
                        cur = v
                        for i in idx:
                            cur = cur[i]
                        ev.append(cur)
                    srcs.append(resolve_scalar(ev, leaves_list, scope_list, name_hint=name))
                src = {"tuple" if isinstance(vals[0], tuple) else "list": srcs}
            else:
                st = [{"special": "first_point", "prefix_rel": "platform_position."}] if name == "datetime_of_first_point" else None
                src = resolve_scalar(vals, leaves_list, scope_list, name_hint=name, special_try=st)
            if src is None:
                src = {"_unresolved": [repr(v) for v in vals[:2]]}
            if img is not None and name in OPTIONAL_HEADER_ATTRS:
                f = src.get("f") or [s for s in src.get("list", []) if s and "f" in s][0]["f"]
                src = {**src, "optional_on": f}
            node["attrs"][name] = src
        for name in dss[0].variables:
            if name == "data":
                continue
            var0 = dss[0].variables[name]
            datas = []
            for ds in dss:
                v = ds.variables[name].values
                if v.dtype.kind == "M":
                    flat = [np.datetime64(int(x), "ns") for x in v.astype("datetime64[ns]").astype("int64").ravel()]
                    datas.append(flat if v.ndim == 1 else flat[0])
                else:
                    datas.append(v.tolist())
            src = build_src(datas, leaves_list, scope_list, list(var0.dims), dyn_dims, f"{path}/{name}", name_hint=name)
            if src is None:
                src = {"_unresolved": repr(datas[0])[:80]}
            vattrs = {}
            for an in var0.attrs:
                avs = [ds.variables[name].attrs[an] for ds in dss]
                vattrs[an] = {"const": avs[0]}
            node["vars"][name] = {"dims": list(var0.dims), "src": src, "attrs": vattrs}
        out[rename(path)] = node
    return out


def subst_scope(obj, scope_token):
    s = json.dumps(obj, default=str)
    return json.loads(s.replace("{scope}", scope_token))


def main():
    seeds = [11, 22, 33, 44]
    prov = {}
    # ---- root + leader (no map projection) on level 1.1 products
    prods = [products.build({"seed": s, "level": "1.1", "images": [("HH", None)], "n_lines": 3, "n_pixels": 2,
                             "n_att": 3, "n_chan": 2, "mapproj": None}) for s in seeds]
    trees = [open_tree(p) for p in prods]
    root = freeze_nodes(trees, prods, ["/"], lambda p: "VOL:", set())
    root["/"]["attrs"]["reference_document"] = {"const": trees[0].attrs["reference_document"]}
    prov["root"] = subst_scope(root, "VOL:")
    leader_paths = [n.path for n in trees[0]["metadata"].subtree]
    led = freeze_nodes(trees, prods, leader_paths, lambda p: "LED:", {"points", "channel"})
    prov["leader"] = subst_scope(led, "LED:")
    # ---- map projection variants
    prov["map_projection"] = {}
    for mp in ("UTM", "UPS", "LCC", "MER"):
        prods = [products.build({"seed": s, "level": "1.5", "images": [("HH", None)], "n_lines": 3, "n_pixels": 2,
                                 "n_att": 2, "n_chan": 2, "mapproj": mp}) for s in seeds]
        trees = [open_tree(p) for p in prods]
        paths = [n.path for n in trees[0]["metadata/map_projection"].subtree]
        prov["map_projection"][mp] = subst_scope(freeze_nodes(trees, prods, paths, lambda p: "LED:", set()), "LED:")
    # ---- image groups
    for level in ("1.1", "1.5"):
        prods = [products.build({"seed": s, "level": level, "images": [("HV", None)], "n_lines": 3, "n_pixels": 2}) for s in seeds]
        trees = [open_tree(p) for p in prods]
        nodes = freeze_nodes(trees, prods, ["/imagery/HV"], lambda p: "IMG0:", {"rows"},
                             rename=lambda p: "/imagery/{group}", img=0)
        s = json.dumps(nodes, default=str).replace("{scope}", "IMG{img}:")
        prov[f"image_{level}"] = json.loads(s)
    # ---- review overrides (ambiguities the value matching cannot settle; decided by reading the record layouts)
    prov["leader"]["/metadata/platform_position"]["attrs"]["leap_second"] = {"f": "LED:platform_position.occurrence_flag_of_a_leap_second", "c": "bool"}
    prov["leader"]["/metadata/transformations"]["attrs"]["prf_switching"] = {"f": "LED:facility_related_data_5.prf_switching_flag", "c": "bool"}
    for key in ("image_1.1", "image_1.5"):
        vr = prov[key]["/imagery/{group}"]["attrs"]["valid_range"]
        vr["list"][0] = {"const": 0}
        vr["optional_on"] = vr["list"][1]["f"]

    def strip(o):
        if isinstance(o, dict):
            o.pop("_ambiguous", None)
            for v in o.values():
                strip(v)
        elif isinstance(o, list):
            for v in o:
                strip(v)
    strip(prov)
    text = json.dumps(prov, indent=1, ensure_ascii=False, default=str)
    with open(os.path.join(VERIF, "spec", "provenance.json"), "w", encoding="utf-8") as f:
        f.write(text)
    print("unresolved:", text.count("_unresolved"), "ambiguous:", text.count("_ambiguous"))


if __name__ == "__main__":
    main()

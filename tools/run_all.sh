#!/bin/bash
# usage: run_all.sh <tier> [ids...] — run the registered checks one after another, print a summary line per property
tier="${1:-quick}"; shift
ids="$@"; [ -z "$ids" ] && ids="C01 C02 C03 C04 C05 C06 C07 C08 C09 C10 C11 C12 C13 C14 C15 C16 C17 C18 C19 C20"
for p in $ids; do
  s=$(date +%s)
  out=$(/venv/bin/python "$(dirname "$0")/../run.py" check $p --tier $tier 2>&1); rc=$?
  echo "$out" | grep -E "^VIOLATION|^KNOWN|^C[0-9]+ |BROKEN|Traceback|TIMEOUT" | cut -c1-300
  echo "exit=$rc ($p) $(( $(date +%s) - s ))s"
done

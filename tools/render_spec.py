#!/usr/bin/env python3
"""Render the frozen specification (spec/provenance.json, spec/layouts.json) as Lean terms
(lean/Alos2/Spec/*.lean, tracked).  Run by hand after the spec is (re)frozen; checks only build the result."""
import json
import os
import re
import sys

VERIF = os.path.dirname(os.path.dirname(os.path.abspath(__file__)))
sys.path.insert(0, os.path.join(VERIF, "tools"))
from translate import lean_str  # noqa: E402

DOTTED = ["level1.0"]


def split_path(p):
    for i, d in enumerate(DOTTED):
        p = p.replace(d, f"\u0000{i}")
    parts = []
    for seg in p.split("."):
        m = re.match(r"^([^\[]*)((\[[^\]]*\])*)$", seg)
        name, idx = m.group(1), m.group(2)
        if name:
            parts.append(name)
        parts += re.findall(r"\[[^\]]*\]", idx)
    out = []
    for s in parts:
        for i, d in enumerate(DOTTED):
            s = s.replace(f"\u0000{i}", d)
        out.append(s)
    return out


def lean_path(parts):
    return "[" + ", ".join(lean_seg(x) for x in parts) + "]"


def lean_seg(x):
    """a path segment; `[{i0}]` is the index of the enclosing `each` (rendered as a Lean expression in `i`)"""
    if x == "[{i0}]":
        return '("[" ++ toString i ++ "]")'
    return lean_str(x)


CONV = {"bool": "bool", "iso17": "normalize_datetime"}


def sym(src, strip):
    """a provenance source of a scalar -> Lean `PVal Sym` term"""
    if "const" in src:
        v = src["const"]
        if isinstance(v, bool):
            raise ValueError("bool const")
        if isinstance(v, int):
            return f"(.cint {v})" if v >= 0 else f"(.cint ({v}))"
        return f"(.cstr {lean_str(str(v))})"
    if "list" in src:
        return "(.list [" + ", ".join(sym(s, strip) for s in src["list"]) + "])"
    if "tuple" in src:
        return "(.tup [" + ", ".join(sym(s, strip) for s in src["tuple"]) + "])"
    if "special" in src:
        if src["special"] == "first_point":      # transform_composite_datetime(date text, seconds of day)
            pre = split_path((src["prefix"] + "datetime_of_first_point")[len(strip):])
            return (f"(.leaf (.app2 \"composite_datetime\" (.path {lean_path(pre + ['date'])}) "
                    f"(.path {lean_path(pre + ['seconds_of_day'])})))")
        if src["special"] == "attitude_time_code":  # transform_time(day of year, millisecond of day) of point i (a timedelta; the year is added by fix_attitude_time)
            pre = ["data_points", "[{i0}]", "time"]
            return (f"(.leaf (.app2 \"attitude_time\" (.path {lean_path(pre + ['day_of_year'])}) "
                    f"(.path {lean_path(pre + ['millisecond_of_day'])})))")
        raise ValueError(src)
    if "each" in src and "n" not in src:  # one entry per element of a counted array: a function of the count `n`
        return f"(.list ((List.range n).map (fun i => {sym(src['src'], strip)})))"
    if "each" in src:
        n = src["n"]
        items = []
        for i in range(n):
            s = json.loads(json.dumps(src["src"]).replace("{" + src["var"] + "}", str(i)))
            items.append(sym(s, strip))
        return "(.list [" + ", ".join(items) + "])"
    if "f" in src:
        p = src["f"]
        assert p.startswith(strip), (p, strip)
        t = f"(.path {lean_path(split_path(p[len(strip):]))})"
        if src.get("c", "id") != "id":
            t = f"(.app {lean_str(CONV[src['c']])} {t})"
        return f"(.leaf {t})"
    raise ValueError(src)


def kvs(d, strip):
    return "[" + ", ".join(f"({lean_str(k)}, {sym(v, strip)})" for k, v in sorted(d.items())) + "]"


def grp(nodes, root, strip, coords_attr=False):
    """nested Grp Sym from flat nodes under `root`; `coords_attr`: the group-level `coordinates` bookkeeping attribute
    (removed again when the tree is converted to xarray) is part of the transformer output"""
    node = nodes[root]
    if coords_attr and node["coords"]:
        node = dict(node)
        node["attrs"] = dict(node["attrs"], coordinates={"list": [{"const": c} for c in node["coords"]]})
    vars_ = []
    for name, v in sorted(node["vars"].items()):
        dims = "[" + ", ".join(lean_str(d) for d in v["dims"]) + "]"
        vars_.append(f"({lean_str(name)}, ⟨{dims}, {sym(v['src'], strip)}, {kvs(v['attrs'], strip)}⟩)")
    children = sorted(p for p in nodes if p.startswith(root + "/") and "/" not in p[len(root) + 1:])
    groups = [f"({lean_str(c[len(root) + 1:])}, {grp(nodes, c, strip, coords_attr)})" for c in children]
    return f"Grp.mk [{', '.join(vars_)}]\n    [{', '.join(groups)}]\n    {kvs(node['attrs'], strip)}"


# ---------------------------------------------------------------------------------------------
# golden field tables (from the frozen layouts)


def tag(n):
    k = n["k"]
    if k == "uint":
        return f"uint{n['n']}"
    if k == "flag":
        return f"flag{n['n']}"
    if k in ("aint", "afloat", "acomplex", "pstr", "bytes", "ydms", "ydus", "tell", "seek", "computed"):
        return k
    if k == "factor":
        return f"factor({n['e']})/" + tag(n["sub"])
    if k == "meta":
        return "meta(" + ";".join(f"{a}={v}" for a, v in n["attrs"].items()) + ")/" + tag(n["sub"])
    if k == "enum":
        return "enum(" + ";".join(f"{c}={nm}" for c, nm in n["table"]) + ")/" + tag(n["sub"])
    return "?"


def is_leaf_level(n):
    k = n["k"]
    if k in ("factor", "meta", "enum"):
        return is_leaf_level(n["sub"])
    return k not in ("struct", "array")


def size_of(n):
    k = n["k"]
    if k in ("uint", "flag"):
        return n["n"]
    if k in ("aint", "afloat", "pstr", "bytes"):
        return n["n"]["v"]
    if k == "acomplex":
        return n["n"]["v"] // 2 * 2
    if k in ("factor", "meta", "enum", "ydms", "ydus"):
        return size_of(n["sub"])
    if k == "struct":
        return sum(size_of(c) for _, c in n["fields"])
    if k == "array":
        return n["count"]["v"] * size_of(n["elem"])
    return 0


def leaf_table(n, path, off, acc):
    k = n["k"]
    if k == "struct":
        for name, c in n["fields"]:
            p = path + [name]
            acc[:] = [e for e in acc if e[0][:len(p)] != p]
            off = leaf_table(c, p, off, acc)
        return off
    if k == "array":
        for i in range(n["count"]["v"]):
            off = leaf_table(n["elem"], path + [f"[{i}]"], off, acc)
        return off
    if k == "meta" and not is_leaf_level(n["sub"]):
        return leaf_table(n["sub"], path, off, acc)
    w = size_of(n)
    acc.append((path, off, w, tag(n)))
    return off + w


def live(path):
    def keep(k):
        if not (k.startswith("spare") or k.startswith("blanks")):
            return True
        r = k.removeprefix("spare").removeprefix("blanks")
        return bool(r) and not r.isdigit()
    return all(keep(k) for k in path)


def render_layouts():
    lay = json.load(open(os.path.join(VERIF, "spec", "layouts.json"), encoding="utf-8"))
    leader = dict(lay["sar_leader_record"]["fields"])
    vol = dict(lay["volume_directory_record"]["fields"])
    recs = {
        "recordPreamble": lay["record_preamble"], "imageFileDescriptor": lay["image_file_descriptor"],
        "signalDataRecord": lay["signal_data_record"], "processedDataRecord": lay["processed_data_record"],
        "leaderFileDescriptor": leader["file_descriptor"], "datasetSummaryRecord": leader["dataset_summary"],
        "mapProjectionRecord": leader["map_projection"]["elem"], "platformPositionRecord": leader["platform_position"],
        "radiometricDataRecord": leader["radiometric_data"], "facilityRelatedData5Record": leader["facility_related_data_5"],
        "volumeDescriptor": vol["volume_descriptor"], "filePointerRecord": vol["file_descriptors"]["elem"], "textRecord": vol["text_record"],
    }
    L = ["/- Rendered from the frozen spec/layouts.json by tools/render_spec.py — the golden field tables:",
         "   (path, offset, width, conversion tag) of every live field of every fixed-size record, and the record sizes. -/",
         "namespace Alos2.Spec", ""]
    for name, ir in recs.items():
        acc = []
        end = leaf_table(ir, [], 0, acc)
        rows = [f"({lean_path(p)}, {o}, {w}, {lean_str(t)})" for p, o, w, t in acc if live(p)]
        L.append(f"def {name}Fields : List (List String × Nat × Nat × String) × Nat :=\n  ([" + ",\n    ".join(rows) + f"], {end})\n")
    L += ["end Alos2.Spec", ""]
    with open(os.path.join(sys.argv[1] if len(sys.argv) > 1 else os.path.join(VERIF, "lean"), "Alos2", "Spec", "Layouts.lean"), "w", encoding="utf-8") as f:
        f.write("\n".join(L))


def main():
    render_layouts()
    prov = json.load(open(os.path.join(VERIF, "spec", "provenance.json"), encoding="utf-8"))
    L = ["/- Rendered from the frozen spec/provenance.json by tools/render_spec.py — the documented output tree:",
         "   for every output leaf, WHICH record field it is (path from the record root) and which leaf function is applied.",
         "   Variables, groups and attributes are listed in sorted order (order inside a group is not observable). -/",
         "import Alos2.Model.Sym", "", "namespace Alos2.Spec", ""]
    root_attrs = {k: v for k, v in prov["root"]["/"]["attrs"].items() if k != "reference_document"}
    L.append("/-- root attributes contributed by the volume directory (paths from the volume directory record root) -/")
    L.append(f"def rootAttrs : KVs Sym :=\n  {kvs(root_attrs, 'VOL:')}\n")
    led = prov["leader"]
    for name, root, strip in (("datasetSummary", "/metadata/dataset_summary", "LED:dataset_summary."),
                              ("radiometricData", "/metadata/radiometric_data", "LED:radiometric_data."),
                              ("transformations", "/metadata/transformations", "LED:facility_related_data_5.")):
        L.append(f"def {name} : Grp Sym :=\n  {grp(led, root, strip)}\n")
    L.append("/-- platform position (28 state vectors; the first-point time is the composite of date text and seconds of day) -/")
    L.append(f"def platformPosition : Grp Sym :=\n  {grp(led, '/metadata/platform_position', 'LED:platform_position.')}\n")
    mp = prov["map_projection"]
    assert json.dumps(mp["LCC"], sort_keys=True) == json.dumps(mp["MER"], sort_keys=True)
    other = {k: v for k, v in mp["UTM"].items() if not k.startswith("/metadata/map_projection/projection")}
    for name, nodes in (("UTM", mp["UTM"]), ("UPS", mp["UPS"]), ("NAT", mp["LCC"]), ("Other", other)):
        L.append(f"def mapProjection{name} : Grp Sym :=\n  {grp(nodes, '/metadata/map_projection', 'LED:map_projection[0].')}\n")
    L.append("""/-- the documented map-projection group per designator class (LCC and MER share the national-system section;
    a designator outside the table keeps no projection section; one without '-' is an error) -/
def mapProjection : Desig → Option (Grp Sym)
  | .utm => some mapProjectionUTM
  | .ups => some mapProjectionUPS
  | .nat => some mapProjectionNAT
  | .other => some mapProjectionOther
  | .bad => none
""")
    L.append("/-- attitude group for `n` points (times as timedeltas from 1 January; `fix_attitude_time` adds the year) -/")
    L.append(f"def attitude (n : Nat) : Grp Sym :=\n  {grp(led, '/metadata/attitude', 'LED:attitude.', coords_attr=True)}\n")
    L.append("/-- data-quality summary for `n` channels -/")
    L.append(f"def dataQualitySummary (n : Nat) : Grp Sym :=\n  {grp(led, '/metadata/data_quality_summary', 'LED:data_quality_summary.')}\n")
    for level, key in (("1.1", "image_1.1"), ("1.5", "image_1.5")):
        node = prov[key]["/imagery/{group}"]
        tag = level.replace(".", "")
        # header attributes (all optional ones present)
        hdr = {k: v for k, v in node["attrs"].items() if "optional_on" in v}
        hdr2 = {}
        for k, v in hdr.items():
            v = dict(v)
            v.pop("optional_on")
            hdr2[k] = v
        if level == "1.5":
            L.append("/-- header attributes when every optional header field is filled (paths from the image descriptor root) -/")
            L.append(f"def headerAttrs : KVs Sym :=\n  {kvs(hdr2, 'IMG{img}:hdr:')}\n")
            opt = {k: v["optional_on"][len("IMG{img}:hdr:"):] for k, v in hdr.items()}
            L.append("/-- the header field whose blankness decides the presence of each optional attribute -/")
            L.append("def headerOptionalOn : List (String × List String) := [" + ", ".join(
                f"({lean_str(k)}, {lean_path(split_path(p))})" for k, p in sorted(opt.items())) + "]\n")
        # per-line variables: (name, field path inside one line record, attrs) and constants (name, path)
        lv, la = [], []
        for name, v in sorted(node["vars"].items()):
            src = v["src"]
            assert "each" in src and src["each"] == "rows", (name, src)
            p = src["src"]["f"]
            m = re.match(r"^IMG\{img\}:line\[\{i0\}\]:(.*)$", p)
            at = "[" + ", ".join(f"({lean_str(k)}, (.cstr {lean_str(str(a['const']))}))" for k, a in sorted(v["attrs"].items())) + "]"
            lv.append(f"({lean_str(name)}, {lean_path(split_path(m.group(1)))}, {at})")
        for name, v in sorted(node["attrs"].items()):
            if "optional_on" in v:
                continue
            m = re.match(r"^IMG\{img\}:line\[0\]:(.*)$", v["f"])
            la.append(f"({lean_str(name)}, {lean_path(split_path(m.group(1)))})")
        L.append(f"/-- level {level}: per-line variables (name, field path inside a line record, attributes) -/")
        L.append(f"def lineVars{tag} : List (String × List String × KVs Sym) :=\n  [" + ",\n   ".join(lv) + "]\n")
        L.append(f"/-- level {level}: per-file constants taken from the first line record (name, field path) -/")
        L.append(f"def lineAttrs{tag} : List (String × List String) :=\n  [" + ", ".join(la) + "]\n")
    L.append("""/-- the documented image group for `n` line records: every variable has one entry per line, in file order,
    holding that line's field; the per-file constants come from line 0 -/
def lineTree (vars : List (String × List String × KVs Sym)) (attrs : List (String × List String)) (n : Nat) : Grp Sym :=
  .mk (vars.map (fun (name, p, ats) =>
        (name, ⟨["rows"], .list ((List.range n).map (fun i => .leaf (.path (("[" ++ toString i ++ "]") :: p)))), ats⟩)))
      []
      (attrs.map (fun (name, p) => (name, .leaf (.path ("[0]" :: p)))))
""")
    L.append("""/-- `fix_attitude_time`: every attitude timedelta becomes a datetime by adding 1 January of the year of the first orbit point -/
def fixSym (first : Sym) : Sym → Sym
  | .app2 "attitude_time" a b => .app2 "fix_attitude_time" first (.app2 "attitude_time" a b)
  | s => s

/-- the first orbit point (paths from the leader record root) -/
def firstPoint : Sym :=
  .app2 "composite_datetime" (.path ["platform_position", "datetime_of_first_point", "date"])
    (.path ["platform_position", "datetime_of_first_point", "seconds_of_day"])

/-- the documented `/metadata` group of a leader file (paths from the leader record root): one group per record kept,
    the map-projection group exactly when the leader holds a map-projection record (`hasMap`; its tree depends on the class
    `d` of the designator), `na` attitude points, `nc` data-quality channels; `none` when a record is not decodable
    (designator without '-') -/
def metadata (hasMap : Bool) (d : Desig) (na nc : Nat) : Option (Grp Sym) :=
  let mp : Option (List (String × Grp Sym)) :=
    if hasMap then (mapProjection d).map (fun g => [("map_projection", g.map (preS ["map_projection", "[0]"]))]) else some []
  mp.map (fun mpg => Grp.mk []
    ([("attitude", ((attitude na).map (preS ["attitude"])).map (fixSym firstPoint)),
      ("data_quality_summary", (dataQualitySummary nc).map (preS ["data_quality_summary"])),
      ("dataset_summary", datasetSummary.map (preS ["dataset_summary"]))] ++ mpg ++
     [("platform_position", platformPosition.map (preS ["platform_position"])),
      ("radiometric_data", radiometricData.map (preS ["radiometric_data"])),
      ("transformations", transformations.map (preS ["facility_related_data_5"]))])
    [])
""")
    L += ["end Alos2.Spec", ""]
    out = os.path.join(sys.argv[1] if len(sys.argv) > 1 else os.path.join(VERIF, "lean"), "Alos2", "Spec", "Trees.lean")
    os.makedirs(os.path.dirname(out), exist_ok=True)
    with open(out, "w", encoding="utf-8") as f:
        f.write("\n".join(L))
    print("written", out)


if __name__ == "__main__":
    main()

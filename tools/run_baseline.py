#!/usr/bin/env python3
"""Run the repository's pinned test suite (guard OFF) and compare with /root/.vp/BASELINE.json."""
import json
import os
import subprocess
import sys
import tempfile
import xml.etree.ElementTree as ET

base = json.load(open("/root/.vp/BASELINE.json"))
env = dict(os.environ)
env.pop("XARRAY_CEOS_ALOS2_VERIF", None)
with tempfile.TemporaryDirectory() as d:
    out = os.path.join(d, "junit.xml")
    cmd = base["cmd"].replace("<file>", out)
    p = subprocess.run(cmd, shell=True, env=env, capture_output=True, text=True)
    tree = ET.parse(out)
passed = set()
for tc in tree.iter("testcase"):
    if not any(ch.tag in ("failure", "error", "skipped") for ch in tc):
        passed.add(f"{tc.get('classname')}::{tc.get('name')}")
want = set(base["stable_pass"])
missing = sorted(want - passed)
print(f"baseline: {len(want)} expected passing, {len(want & passed)} pass now, {len(missing)} missing")
for m in missing[:20]:
    print("  MISSING", m)
sys.exit(1 if missing else 0)

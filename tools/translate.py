"""Translator (T): regenerate lean/Alos2/Gen/*.lean from /repo's *current working tree*.

Everything printed here is data in the source (construct layouts, code tables, regular expressions,
literal configuration, scalar constants).  An unknown construct / expression / role raises — a broken
tie, never a silent default.
"""
import ast
import hashlib
import inspect
import json
import os
import sys

HERE = os.path.dirname(os.path.abspath(__file__))
sys.path.insert(0, HERE)


def lean_str(s):
    out = ['"']
    for ch in s:
        if ch == '"':
            out.append('\\"')
        elif ch == "\\":
            out.append("\\\\")
        elif ch == "\n":
            out.append("\\n")
        elif ord(ch) < 32:
            out.append("\\x%02x" % ord(ch))
        else:
            out.append(ch)
    out.append('"')
    return "".join(out)


def write_if_changed(path, text):
    old = None
    if os.path.exists(path):
        with open(path, encoding="utf-8") as f:
            old = f.read()
    if old != text:
        with open(path, "w", encoding="utf-8") as f:
            f.write(text)


# ------------------------------------------------------------------------------------------------
# T4: scalar constants


def consts():
    import ceos_alos2.array as A
    import ceos_alos2.sar_image.io as IO
    import ceos_alos2.sar_image.metadata as M
    import ceos_alos2.xarray as X
    import walk

    out = {}
    # 720 in read_file_descriptor / chunk_offsets
    src = ast.parse(inspect.getsource(IO))
    nums = {}
    for fn in ast.walk(src):
        if isinstance(fn, ast.FunctionDef) and fn.name in ("read_file_descriptor", "read_metadata"):
            nums[fn.name] = sorted({n.value for n in ast.walk(fn) if isinstance(n, ast.Constant) and isinstance(n.value, int) and n.value > 1})
    if nums.get("read_file_descriptor") != [720] or 720 not in nums.get("read_metadata", []):
        raise walk.Untranslatable(f"header size constants: {nums}")
    out["headerSize"] = 720
    # record types -> prefix length of the record layout
    rts = []
    for code, con in sorted(IO.record_types.items()):
        ir = walk.walk(con)
        rts.append((code, static_size(ir)))
    out["recordTypes"] = rts
    out["rawDtypes"] = sorted((k, v.itemsize) for k, v in A.raw_dtypes.items())
    out["dtypes"] = sorted((k, str(v), v.itemsize) for k, v in M.dtypes.items())
    # IndexingSupport declared by the wrapper
    wsrc = ast.parse(inspect.getsource(X.LazilyIndexedWrapper))
    sup = [n.attr for n in ast.walk(wsrc) if isinstance(n, ast.Attribute) and isinstance(n.value, ast.Attribute) and n.value.attr == "IndexingSupport"]
    if len(sup) != 1:
        raise walk.Untranslatable(f"IndexingSupport: {sup}")
    out["indexingSupport"] = sup[0]

    # ---- concurrency facts (C19): the handle is opened inside __getitem__ and never stored; one lock per variable
    gi = ast.parse(inspect.getsource(A.Array.__getitem__).lstrip()) if False else ast.parse(__import__("textwrap").dedent(inspect.getsource(A.Array.__getitem__)))
    opens = [ast.unparse(it.context_expr) for w in ast.walk(gi) if isinstance(w, ast.With) for it in w.items
             if "open" in ast.unparse(it.context_expr)]
    all_opens = [ast.unparse(c) for c in ast.walk(gi) if isinstance(c, ast.Call) and isinstance(c.func, ast.Attribute) and c.func.attr == "open"]
    self_assigns = [ast.unparse(t) for n in ast.walk(gi) if isinstance(n, (ast.Assign, ast.AugAssign, ast.AnnAssign))
                    for t in (n.targets if isinstance(n, ast.Assign) else [n.target]) if ast.unparse(t).startswith("self.")]
    cls = ast.parse(inspect.getsource(A.Array))
    other_opens = [f.name for f in ast.walk(cls) if isinstance(f, ast.FunctionDef) and f.name != "__getitem__"
                   and any(isinstance(c, ast.Call) and isinstance(c.func, ast.Attribute) and c.func.attr == "open" for c in ast.walk(f))]
    out["getitemWithOpens"] = opens
    out["getitemAllOpens"] = all_opens
    out["getitemSelfAssigns"] = self_assigns
    out["arrayOtherOpens"] = other_opens
    raw = ast.parse(__import__("textwrap").dedent(inspect.getsource(X.LazilyIndexedWrapper._raw_indexing_method))).body[0]
    out["rawIndexingBody"] = [ast.unparse(st) for st in raw.body]
    tv = ast.parse(inspect.getsource(X.to_variable)).body[0]
    out["lockCreation"] = [ast.unparse(n) for n in ast.walk(tv) if isinstance(n, ast.Assign) and "Lock" in ast.unparse(n.value)]
    init = ast.parse(__import__("textwrap").dedent(inspect.getsource(X.LazilyIndexedWrapper.__init__))).body[0]
    out["wrapperDtype"] = [ast.unparse(n.value) for n in ast.walk(init) if isinstance(n, ast.Assign) and ast.unparse(n.targets[0]) == "self.dtype"]

    # ---- cache flow facts (C07/C09/C10)
    import ceos_alos2.sar_image as SI
    import ceos_alos2.sar_image.caching as CA
    oi = ast.parse(inspect.getsource(SI.open_image)).body[0]
    out["openImageExcept"] = [ast.unparse(h.type) for n in ast.walk(oi) if isinstance(n, ast.Try) for h in n.handlers]
    out["cachingErrorBases"] = [b.__name__ for b in CA.CachingError.__mro__[1:3]]
    rc = ast.parse(inspect.getsource(CA.read_cache)).body[0]
    out["readCacheOrder"] = [ast.unparse(n.test) for n in rc.body if isinstance(n, ast.If)]
    dc = ast.parse(inspect.getsource(CA.decode)).body[0]
    out["decodeExcept"] = [ast.unparse(h.type) + " -> " + ast.unparse(h.body[-1]) for n in ast.walk(dc) if isinstance(n, ast.Try) for h in n.handlers]
    import ceos_alos2.io as IOM
    sig = inspect.signature(IOM.open)
    out["openDefaults"] = [f"{k}={v.default!r}" for k, v in sig.parameters.items() if v.default is not inspect.Parameter.empty]
    return out


def static_size(ir):
    """size in bytes of a layout whose Tell/Seek/Computed members take no space and which has no dynamic part"""
    import walk

    k = ir["k"]
    if k == "struct":
        return sum(static_size(f[1]) for f in ir["fields"])
    if k in ("uint", "flag"):
        return ir["n"]
    if k in ("aint", "afloat", "acomplex", "pstr", "bytes"):
        if ir["n"]["x"] != "const":
            raise walk.Untranslatable("dynamic length in a static layout")
        return ir["n"]["v"]
    if k in ("factor", "meta", "enum", "ydms", "ydus"):
        return static_size(ir["sub"])
    if k == "array":
        if ir["count"]["x"] != "const":
            raise walk.Untranslatable("dynamic count in a static layout")
        return ir["count"]["v"] * static_size(ir["elem"])
    if k in ("tell", "seek", "computed"):
        return 0
    raise walk.Untranslatable(k)


def render_consts(c):
    L = ["/- GENERATED by tools/translate.py from /repo — do not edit. -/", "namespace Alos2.Gen", ""]
    L.append(f"def headerSize : Nat := {c['headerSize']}")
    L.append("/-- (record type code, prefix length of its layout) from `sar_image/io.py::record_types` -/")
    L.append("def recordTypes : List (Nat × Nat) := [" + ", ".join(f"({a}, {b})" for a, b in c["recordTypes"]) + "]")
    L.append("/-- (type code, bytes per sample) from `array.py::raw_dtypes` -/")
    L.append("def rawDtypes : List (String × Nat) := [" + ", ".join(f"({lean_str(a)}, {b})" for a, b in c["rawDtypes"]) + "]")
    L.append("/-- (type code, numpy dtype, itemsize) from `sar_image/metadata.py::dtypes` -/")
    L.append("def dtypes : List (String × String × Nat) := [" + ", ".join(f"({lean_str(a)}, {lean_str(b)}, {n})" for a, b, n in c["dtypes"]) + "]")
    L.append("/-- `IndexingSupport.<X>` declared by `LazilyIndexedWrapper.__getitem__` -/")
    L.append(f"def indexingSupport : String := {lean_str(c['indexingSupport'])}")
    for key in ("getitemWithOpens", "getitemAllOpens", "getitemSelfAssigns", "arrayOtherOpens", "rawIndexingBody", "lockCreation", "wrapperDtype",
                "openImageExcept", "cachingErrorBases", "readCacheOrder", "decodeExcept", "openDefaults"):
        L.append(f"def {key} : List String := [" + ", ".join(lean_str(x) for x in c[key]) + "]")
    L += ["", "end Alos2.Gen", ""]
    return "\n".join(L)


def main(outdir):
    os.makedirs(outdir, exist_ok=True)
    info = {}
    text = render_consts(consts())
    write_if_changed(os.path.join(outdir, "Consts.lean"), text)
    info["Consts"] = hashlib.sha256(text.encode()).hexdigest()[:12]
    import translate_layouts
    info.update(translate_layouts.main(outdir))
    import translate_config
    info.update(translate_config.main(outdir))
    import translate_tables
    info.update(translate_tables.main(outdir))
    return info


if __name__ == "__main__":
    print(json.dumps(main(sys.argv[1] if len(sys.argv) > 1 else os.path.join(os.path.dirname(HERE), "lean", "Alos2", "Gen"))))

/-
Record transformers, part 2 — hand-written model of the remaining SAR-leader pipelines:

  sar_leader/platform_position.py   transform_platform_position (transform_positions, transform_composite_datetime, move_items)
  sar_leader/map_projection.py      transform_map_projection (filter_map_projection, transform_general_info,
                                    transform_ellipsoid_parameters, transform_projection, transform_corner_points,
                                    transform_conversion_coefficients)
  sar_leader/attitude.py            transform_attitude (transform_nested, transform_time, transform_section, prepend_dim, copy_items)

Same conventions as `Model/Transform.lean`: literal configuration (ignore lists, renames, which function handles
which key) is read from the regenerated `Gen/Config.lean`; functions applied to single keys are interpreted by NAME;
anything not understood is `none` (a broken tie, never a guess).  The only places where these pipelines look at a
value read from the file are three more leaf functions, collected in `LeafFns2`.
-/
import Alos2.Model.Transform

namespace Alos2

open Gen.Config

/-- how `filter_map_projection` classifies the designator text -/
inductive Desig where
  | utm | ups | nat      -- "utm-…", "ups-…", "lcc-…" / "mer-…" (case-insensitive, text before the first '-')
  | other                -- contains a '-', prefix not in the table: every projection section is dropped
  | bad                  -- no '-' at all: the tuple unpacking raises ValueError
  deriving DecidableEq, Repr, Inhabited

/-- the additional leaf functions of the pipelines modelled here -/
structure LeafFns2 (α : Type) extends LeafFns α where
  compositeDatetime : α → α → α      -- `transform_composite_datetime`: date text, seconds of day ↦ ISO text
  attitudeTime : α → α → α           -- `transform_time`: day of year, millisecond of day ↦ timedelta64[ns]
  desig : α → Desig                  -- classification of `map_projection_designator`

variable {α : Type}

/-! ### platform position -/

/-- `merge_with(list, *dicts)` on a list of dict values -/
def mergeDicts (xs : List (PVal α)) : KVs α := mergeWithList (asDicts xs)

/-- `compose_left(separate_attrs, curry(cons, [dim]), tuple)`: the variable triple `([dim], values, attrs)` -/
def toDimVar (dim : String) (v : PVal α) : PVal α :=
  let (vals, attrs) := separateAttrs v
  .tup [.list [.cstr dim], vals, attrs]

/-- `transform_positions` -/
def transformPositions (v : PVal α) : PVal α :=
  match v with
  | .list elements =>
    .dict ((mergeDicts elements).map (fun kv => (kv.1, match kv.2 with
      | .list inner => .dict ((mergeDicts inner).map (fun c => (c.1, toDimVar "positions" c.2)))
      | o => o)))
  | o => o

/-- `transform_composite_datetime` on `{date, day_of_year, seconds_of_day}` -/
def transformCompositeDatetime (lf : LeafFns2 α) (v : PVal α) : Option (PVal α) :=
  match v with
  | .dict kvs =>
    match kvGet kvs "date", kvGet kvs "seconds_of_day" with
    | some (.leaf d), some (.leaf s) => some (.leaf (lf.compositeDatetime d s))
    | _, _ => none
  | _ => none

/-- `move_items({("orbital_elements", "type"): ["orbital_elements_designator"]}, mapping)`:
    `assoc_in` puts the value at the end of the (copied) inner dict — or overwrites in place —, then the source key is popped -/
def moveDesignator (kvs : KVs α) : Option (KVs α) :=
  match kvGet kvs "orbital_elements_designator" with
  | none => some kvs
  | some v =>
    let inner : Option (KVs α) := match kvGet kvs "orbital_elements" with
      | some (.dict d) => some d
      | none => some []
      | _ => none
    inner.map (fun d => (kvSet kvs "orbital_elements" (.dict (kvSet d "type" v))).filter (fun kv => kv.1 ≠ "orbital_elements_designator"))

def expectedPlatformSteps : List String :=
  ["curry(dissoc, ignored)", "curry(remove_spares)", "curry(apply_to_items, transformers)",
   "curry(rename, translations=translations)",
   "curry(move_items, {('orbital_elements', 'type'): ['orbital_elements_designator']})", "curry(as_group)"]

def transformPlatformPosition (lf : LeafFns2 α) (v : PVal α) : Option (Grp α) :=
  match v with
  | .dict kvs =>
    if platform_position__transform_platform_position.transformers ≠
        [("datetime_of_first_point", "transform_composite_datetime"), ("positions", "transform_positions"),
         ("occurrence_flag_of_a_leap_second", "bool")] then none else
    match removeSpares (.dict (dissoc platform_position__transform_platform_position.ignored kvs)) with
    | .dict cleaned => do
      let applied ← cleaned.mapM (fun kv =>
        if kv.1 = "datetime_of_first_point" then (transformCompositeDatetime lf kv.2).map (fun r => (kv.1, r))
        else if kv.1 = "positions" then some (kv.1, transformPositions kv.2)
        else if kv.1 = "occurrence_flag_of_a_leap_second" then some (kv.1, onLeaf lf.toBool kv.2)
        else some kv)
      let moved ← moveDesignator (rename platform_position__transform_platform_position.translations applied)
      pure (asGroup (.dict moved))
    | _ => none
  | _ => none

/-! ### map projection -/

def allProjections : List String := ["utm_projection", "ups_projection", "national_system_projection"]

def Desig.section : Desig → Option String
  | .utm => some "utm_projection"
  | .ups => some "ups_projection"
  | .nat => some "national_system_projection"
  | _ => none

/-- `filter_map_projection` (`none` = ValueError) -/
def filterMapProjection (lf : LeafFns2 α) (kvs : KVs α) : Option (KVs α) :=
  match kvGet kvs "map_projection_designator" with
  | none => some kvs
  | some (.leaf a) =>
    match lf.desig a with
    | .bad => none
    | d =>
      let keep := d.section
      let toDrop := "map_projection_designator" :: allProjections.filter (fun k => some k ≠ keep)
      some (rename (match keep with | some k => [(k, "projection")] | none => []) (dissoc toDrop kvs))
  | some _ => none

/-- the local `separate_attrs` of `transform_corner_points`: `(["corner"], values, first attrs)` -/
def cornerVar (v : PVal α) : PVal α :=
  match v with
  | .list (.tup (v0 :: a0 :: r0) :: rest) =>
    let all := PVal.tup (v0 :: a0 :: r0) :: rest
    .tup [.list [.cstr "corner"], .list (all.map (fun x => match x with
      | .tup (w :: _) => w
      | o => o)), a0]
  | o => o

def cornerKeys : List String := ["top_left_corner", "top_right_corner", "bottom_right_corner", "bottom_left_corner"]

def cornerNames : PVal α :=
  .tup [.list [.cstr "corner"], .list [.cstr "top_left", .cstr "top_right", .cstr "bottom_right", .cstr "bottom_left"], .dict []]

/-- `combine_corners` (`none` = KeyError: a corner is missing) -/
def combineCorners (v : PVal α) : Option (PVal α) :=
  match v with
  | .dict kvs => do
    let items ← cornerKeys.mapM (kvGet kvs)
    pure (.dict ((mergeDicts items).map (fun kv => (kv.1, cornerVar kv.2))))
  | _ => none

/-- `transform_corner_points` -/
def transformCornerPoints (v : PVal α) : Option (PVal α) :=
  match v with
  | .dict kvs => do
    let combined ← (dissoc ["terrain_heights_relative_to_ellipsoid"] kvs).mapM (fun kv => (combineCorners kv.2).map (fun r => (kv.1, r)))
    pure (.dict (combined.map (fun kv =>
      if kv.1 = "projected" ∨ kv.1 = "geographic" then
        (kv.1, match kv.2 with
          | .dict inner => .dict (kvUnion [("corner", cornerNames)] inner)
          | o => o)
      else kv)))
  | _ => none

/-- `transform_coeffs` on a `Metadata` pair `(dict of coefficients, attrs)` -/
def transformCoeffs (v : PVal α) : Option (PVal α) :=
  match v with
  | .tup [.dict raw, attrs] =>
    some (.tup [.dict [("names", .tup [.cstr "names", .list (raw.map (fun kv => .cstr kv.1)), .dict []]),
                       ("coefficients", .tup [.cstr "names", .list (raw.map Prod.snd), .dict []])], attrs])
  | _ => none

/-- `transform_conversion_coefficients` -/
def transformConversionCoefficients (v : PVal α) : Option (PVal α) :=
  match v with
  | .dict kvs => do
    let tr ← kvs.mapM (fun kv => (transformCoeffs kv.2).map (fun r => (kv.1, r)))
    pure (.dict (rename [("map_projection_to_pixels", "projected_to_image"), ("pixels_to_map_projection", "image_to_projected")] tr))
  | _ => none

def mapProjectionFn : String → Option (PVal α → Option (PVal α))
  | "transform_general_info" => some (fun v => some (onDict (rename [("number_of_pixels_per_line", "n_columns"), ("number_of_lines", "n_rows")]) v))
  | "transform_ellipsoid_parameters" => some (fun v => some (onDict (dissoc ["datum_shift_parameters", "scale_factor"]) v))
  | "transform_projection" => some (fun v => some (onDict (dissoc ["map_origin", "standard_parallel2", "central_meridian"]) v))
  | "transform_corner_points" => some transformCornerPoints
  | "transform_conversion_coefficients" => some transformConversionCoefficients
  | _ => none

def expectedMapProjectionSteps : List String :=
  ["curry(remove_spares)", "curry(dissoc, ignored)", "curry(filter_map_projection)", "curry(apply_to_items, transformers)",
   "curry(rename, translations=translations)", "curry(as_group)"]

/-- `apply_to_items` with partial functions: a failing function fails the pipeline -/
def applyToItemsOpt (funcs : List (String × (PVal α → Option (PVal α)))) (kvs : KVs α) : Option (KVs α) :=
  kvs.mapM (fun kv => match funcs.find? (fun f => f.1 = kv.1) with
    | some f => (f.2 kv.2).map (fun r => (kv.1, r))
    | none => some kv)

def transformMapProjection (lf : LeafFns2 α) (v : PVal α) : Option (Grp α) :=
  match removeSpares v with
  | .dict kvs => do
    let fs ← map_projection__transform_map_projection.transformers.mapM (fun kv => (mapProjectionFn kv.2).map (fun f => (kv.1, f)))
    let filtered ← filterMapProjection lf (dissoc map_projection__transform_map_projection.ignored kvs)
    let applied ← applyToItemsOpt fs filtered
    pure (asGroup (.dict (rename map_projection__transform_map_projection.translations applied)))
  | _ => none

/-! ### attitude -/

/-- `transform_time` on `{day_of_year: [...], millisecond_of_day: [...]}` (numpy broadcasting on equal-length columns) -/
def transformTime (lf : LeafFns2 α) (v : PVal α) : Option (PVal α) :=
  match v with
  | .dict kvs =>
    match kvGet kvs "day_of_year", kvGet kvs "millisecond_of_day" with
    | some (.list ds), some (.list ms) =>
      if ds.length ≠ ms.length ∨ kvs.length ≠ 2 then none else
      ((List.zip ds ms).mapM (fun (dm : PVal α × PVal α) => match dm with
        | (PVal.leaf d, PVal.leaf m) => some (PVal.leaf (lf.attitudeTime d m))
        | _ => none)).map PVal.list
    | _, _ => none
  | _ => none

/-- `transform_section` -/
def transformAttSection (lf : LeafFns2 α) (v : PVal α) : PVal α :=
  match v with
  | .dict kvs => .dict (kvs.map (fun kv =>
      if kv.1 = "pitch" ∨ kv.1 = "roll" ∨ kv.1 = "yaw" then
        let (vals, attrs) := separateAttrs kv.2
        (kv.1, .tup [vals, attrs])
      else if kv.1 = "pitch_error" ∨ kv.1 = "roll_error" ∨ kv.1 = "yaw_error" then
        (kv.1, match kv.2 with
          | .list xs => .list (xs.map (onLeaf lf.toBool))
          | o => o)
      else kv))
  | o => o

/-- `prepend_dim(dim, var)` below the top level: tuples get the dim in front, everything else becomes `(dim, value, {})` -/
def prependDim1 (dim : String) (v : PVal α) : PVal α :=
  match v with
  | .tup xs => .tup (.cstr dim :: xs)
  | o => .tup [.cstr dim, o, .dict []]

def prependDim (dim : String) (v : PVal α) : PVal α :=
  match v with
  | .dict kvs => .dict (kvs.map (fun kv => (kv.1, match kv.2 with
      | .dict inner => .dict (inner.map (fun c => (c.1, prependDim1 dim c.2)))
      | o => prependDim1 dim o)))
  | o => prependDim1 dim o

/-- `copy_items({("attitude","time"): ["time"], ("rates","time"): ["time"]})` then `dissoc(["time"])` -/
def copyTime (kvs : KVs α) : Option (KVs α) :=
  match kvGet kvs "time" with
  | none => some (dissoc ["time"] kvs)
  | some t =>
    let put (kvs : KVs α) (sec : String) : Option (KVs α) :=
      match kvGet kvs sec with
      | some (.dict d) => some (kvSet kvs sec (.dict (kvSet d "time" t)))
      | none => some (kvSet kvs sec (.dict [("time", t)]))
      | _ => none
    ((put kvs "attitude").bind (fun k => put k "rates")).map (dissoc ["time"])

def expectedAttitudeSteps : List String :=
  ["curry(get, 'data_points')", "curry(transform_nested)", "curry(apply_to_items, transformers)", "curry(prepend_dim, 'points')",
   "curry(copy_items, {('attitude', 'time'): ['time'], ('rates', 'time'): ['time']})", "curry(dissoc, ['time'])",
   "curry(valmap, lambda x: (x, {'coordinates': ['time']}))", "curry(as_group)"]

def transformAttitude (lf : LeafFns2 α) (v : PVal α) : Option (Grp α) :=
  match v with
  | .dict kvs =>
    if attitude__transform_attitude.transformers ≠
        [("time", "transform_time"), ("attitude", "transform_section"), ("rates", "transform_section")] then none else
    match kvGet kvs "data_points" with
    | some (.list (.dict p0 :: rest)) =>
      match transformNested (.list (.dict p0 :: rest)) with
      | .dict cols => do
        let applied ← cols.mapM (fun kv =>
          if kv.1 = "time" then (transformTime lf kv.2).map (fun r => (kv.1, r))
          else if kv.1 = "attitude" ∨ kv.1 = "rates" then some (kv.1, transformAttSection lf kv.2)
          else some kv)
        match prependDim "points" (.dict applied) with
        | .dict dimmed => do
          let copied ← copyTime dimmed
          pure (asGroup (.dict (copied.map (fun kv => (kv.1, .tup [kv.2, .dict [("coordinates", .list [.cstr "time"])]])))))
        | _ => none
      | _ => none
    | _ => none
  | _ => none

/-! ### the new leaf functions on real leaves -/

/-- text before the first '-' (lower-cased), or `none` when there is no '-' -/
def designatorPrefix (s : String) : Option String :=
  let cs := s.toList
  if cs.contains '-' then some (String.ofList (lower (cs.takeWhile (· ≠ '-')))) else none

def desigOfString (s : String) : Desig :=
  match designatorPrefix s with
  | none => .bad
  | some "utm" => .utm
  | some "ups" => .ups
  | some "lcc" => .nat
  | some "mer" => .nat
  | some _ => .other

def compositeMarker : String := "!composite:"

def realLeafFns2 : LeafFns2 Leaf where
  toLeafFns := realLeafFns
  compositeDatetime := fun d s => match d, s with
    | .str date, .float tok => .str (compositeMarker ++ date ++ "|" ++ tok)   -- evaluated by the harness: strptime + timedelta are contracts (C17 models the instant)
    | _, _ => .str (invalidMarker ++ "composite")
  attitudeTime := fun d m => match d, m with
    | .int days, .int ms => .int (days * 86400000000000 + ms * 1000000)       -- timedelta64[ns] as integer nanoseconds
    | _, _ => .str (invalidMarker ++ "attitude_time")
  desig := fun a => match a with
    | .str s => desigOfString s
    | _ => .bad

end Alos2

/-
Record transformers — hand-written model of the `transform_*` / `extract_*` pipelines of
`volume_directory/metadata.py`, `sar_image/metadata.py` and `sar_leader/*.py`, built from the generic
combinators of `Model/Dict.lean` and the literal configuration regenerated from the source
(`Gen/Config.lean`: ignore lists, renames, key sets, which function is applied to which key, step order).

Functions the source applies to single keys are interpreted by NAME (or, for lambdas, by their normalised
source text): an unknown name is not interpreted (`none`), which breaks the theorems that use the pipeline —
a broken tie, never a guess.
-/
import Alos2.Model.Dict
import Alos2.Gen.Config

namespace Alos2

open Gen.Config

variable {α : Type}

def onDict (f : KVs α → KVs α) : PVal α → PVal α
  | .dict kvs => .dict (f kvs)
  | other => other

/-! ### volume directory (root attributes) -/

/-- key-wise functions named in `postprocessors` / `transformers` dictionaries that act on a single leaf -/
def leafFnByName (lf : LeafFns α) : String → Option (PVal α → PVal α)
  | "normalize_datetime" => some (onLeaf lf.isoDatetime)
  | "bool" => some (onLeaf lf.toBool)
  | _ => none

def interpAll (interp : String → Option (PVal α → PVal α)) (tbl : List (String × String)) :
    Option (List (String × (PVal α → PVal α))) :=
  tbl.mapM (fun kv => (interp kv.2).map (fun f => (kv.1, f)))

def transformVolumeDescriptor (lf : LeafFns α) (kvs : KVs α) : Option (KVs α) := do
  let fs ← interpAll (leafFnByName lf) volume_directory__transform_volume_descriptor.postprocessors
  pure (applyToItems fs (rename volume_directory__transform_volume_descriptor.translations
    (dissoc volume_directory__transform_volume_descriptor.ignored kvs)))

def transformText (kvs : KVs α) : KVs α :=
  rename volume_directory__transform_text.translations (dissoc volume_directory__transform_text.ignored kvs)

/-- `transform_record`: the root attributes contributed by the volume directory -/
def transformVolumeRecord (lf : LeafFns α) (v : PVal α) : Option (KVs α) :=
  match v with
  | .dict kvs =>
    let kept := dissoc volume_directory__transform_record.ignored kvs
    let step (kv : String × PVal α) : Option (String × PVal α) :=
      match (volume_directory__transform_record.transformers.find? (fun t => t.1 = kv.1)).map Prod.snd, kv.2 with
      | some "transform_volume_descriptor", .dict inner => (transformVolumeDescriptor lf inner).map (fun r => (kv.1, .dict r))
      | some "transform_text", .dict inner => some (kv.1, .dict (transformText inner))
      | none, w => some (kv.1, w)
      | _, _ => none
    (kept.mapM step).map removeNestingLayer
  | _ => none

/-! ### image file descriptor: header attributes -/

/-- the lambdas of `extract_attrs.transformers`, by normalised source text -/
def headerLambda (lf : LeafFns α) : String → Option (PVal α → PVal α)
  | "lambda v: v if v != '' else []" => some (fun v => match v with
      | .leaf a => if lf.isEmptyStr a then .list [] else .leaf a
      | o => o)
  | "lambda v: [0, v] if v != -1 and (not math.isnan(v)) else []" => some (fun v => match v with
      | .leaf a => if !lf.isMinusOne a && !lf.isNan a then .list [.cint 0, .leaf a] else .list []
      | o => o)
  | "lambda v: v if v != -1 else []" => some (fun v => match v with
      | .leaf a => if lf.isMinusOne a then .list [] else .leaf a
      | o => o)
  | _ => none

/-- `valfilter(lambda v: not isinstance(v, list) or v)` -/
def dropEmptyLists (kvs : KVs α) : KVs α :=
  kvs.filter (fun kv => match kv.2 with
    | .list [] => false
    | _ => true)

def extractAttrs (lf : LeafFns α) (header : PVal α) : Option (KVs α) :=
  match header with
  | .dict kvs => do
    let fs ← interpAll (headerLambda lf) sar_image__extract_attrs.transformers
    pure (dropEmptyLists (rename sar_image__extract_attrs.translations (applyToItems fs
      (keepKeys sar_image__extract_attrs.known_attrs (removeNestingLayer (dissoc sar_image__extract_attrs.ignored kvs))))))
  | _ => none

/-! ### per-line metadata -/

/-- `flatten_nested` (repaired code): a list of dicts becomes one list per component, named `<key>_<component>` -/
def flattenNestedAux : Nat → KVs α → KVs α
  | 0, kvs => kvs
  | fuel + 1, kvs =>
    kvFromItems (kvs.flatMap (fun kv => match kv.2 with
      | .list (.dict d0 :: rest) =>
        flattenNestedAux fuel ((mergeWithList (asDicts (.dict d0 :: rest))).map (fun m => (kv.1 ++ "_" ++ m.1, m.2)))
      | _ => [kv]))

def flattenNested (kvs : KVs α) : KVs α := flattenNestedAux 8 kvs

/-- `valmap(compose_left(separate_attrs, curry(cons, "rows"), tuple))` -/
def toRowsVar (v : PVal α) : PVal α :=
  let (vals, attrs) := separateAttrs v
  .tup [.cstr "rows", vals, attrs]

/-- `deduplicate_attrs(known, mapping)`: variables first, then the known keys reduced to their first value -/
def deduplicateAttrs (known : List String) (kvs : KVs α) : KVs α :=
  let vars := kvs.filter (fun kv => !known.contains kv.1)
  let attrs := kvs.filter (fun kv => known.contains kv.1)
  kvUnion vars (attrs.map (fun kv => (kv.1, match kv.2 with
    | .tup (_ :: .list (x :: _) :: _) => x
    | other => other)))

def transformLineMetadata (records : List (PVal α)) : Grp α :=
  let merged := mergeWithList (asDicts records)
  let cleaned := match removeSpares (.dict merged) with
    | .dict kvs => kvs
    | _ => []
  let kept := dissoc sar_image__transform_line_metadata.ignored cleaned
  let flat := flattenNested kept
  let vars := flat.map (fun kv => (kv.1, toRowsVar kv.2))
  let dedup := deduplicateAttrs sar_image__transform_line_metadata.known_attrs vars
  asGroup (.dict (rename sar_image__transform_line_metadata.translations dedup))

/-! ### leader records -/

def transformDatasetSummary (lf : LeafFns α) (v : PVal α) : Option (Grp α) :=
  match removeSpares v with
  | .dict kvs => do
    let fs ← interpAll (leafFnByName lf) dataset_summary__transform_dataset_summary.transformers
    pure (asGroup (.dict (rename dataset_summary__transform_dataset_summary.translations
      (applyToItems fs (dissoc dataset_summary__transform_dataset_summary.ignored kvs)))))
  | _ => none

/-- `partition(2, values)` -/
def pairsOf : List (PVal α) → List (PVal α)
  | a :: b :: rest => .list [a, b] :: pairsOf rest
  | _ => []

/-- `transform_matrices` -/
def transformMatrices (v : PVal α) : PVal α :=
  let (mapping, attrs) := match v with
    | .tup [.dict m, a] => (m, a)
    | .dict m => (m, .dict [])
    | _ => ([], .dict [])
  let mats : KVs α := mapping.map (fun kv => (kv.1, match kv.2 with
    | .dict inner => .tup [.list [.cstr "i", .cstr "j"], .list (pairsOf (inner.map Prod.snd)), .dict []]
    | o => o))
  let withI := kvSet mats "i" (.tup [.cstr "i", .list [.cstr "horizontal", .cstr "vertical"], .dict [("long_name", .cstr "reception polarization")]])
  let withJ := kvSet withI "j" (.tup [.cstr "j", .list [.cstr "horizontal", .cstr "vertical"], .dict [("long_name", .cstr "transmission polarization")]])
  .tup [.dict withJ, attrs]

def transformRadiometricData (v : PVal α) : Option (Grp α) :=
  match v with
  | .dict kvs =>
    match removeSpares (.dict (dissoc radiometric_data__transform_radiometric_data.ignored kvs)) with
    | .dict cleaned =>
      if radiometric_data__transform_radiometric_data.transformers = [("distortion_matrix", "transform_matrices")] then
        some (asGroup (.dict (applyToItems [("distortion_matrix", transformMatrices)] cleaned)))
      else none
    | _ => none
  | _ => none

/-- `transform_relative(mapping, key)` -/
def transformRelative (key : String) (v : PVal α) : PVal α :=
  match v with
  | .dict kvs =>
    match transformNested ((kvGet kvs key).getD (.dict [])) with
    | .dict cols => .dict (cols.map (fun kv =>
        let (vals, attrs) := separateAttrs kv.2
        (kv.1, .tup [.cstr "channel", vals, attrs])))
    | o => o
  | o => o

def transformDataQualitySummary (v : PVal α) : Option (Grp α) :=
  match removeSpares v with
  | .dict kvs =>
    if data_quality_summary__transform_data_quality_summary.transformers.map Prod.fst =
        ["relative_radiometric_quality", "relative_geometric_quality"] then
      some (asGroup (.dict (applyToItems
        [("relative_radiometric_quality", transformRelative "nominal_relative_radiometric_calibration_uncertainty"),
         ("relative_geometric_quality", transformRelative "relative_misregistration_error")]
        (dissoc data_quality_summary__transform_data_quality_summary.ignored kvs))))
    else none
  | _ => none

/-- `transform_group(mapping, dim)` -/
def transformGroupDim (dim : String) (v : PVal α) : PVal α :=
  match v with
  | .tup [.dict m, attrs] =>
    .tup [.dict (m.map (fun kv => (kv.1, match kv.2 with
      | .list xs => .tup [.cstr dim, .list xs, .dict []]
      | o => .tup [.tup [], o, .dict []]))), attrs]
  | o => o

def record5Fn (lf : LeafFns α) : String → Option (PVal α → PVal α)
  | "bool" => some (onLeaf lf.toBool)
  | "curry(transform_group, dim='mid_precision_coeffs')" => some (transformGroupDim "mid_precision_coeffs")
  | "curry(transform_group, dim='high_precision_coeffs')" => some (transformGroupDim "high_precision_coeffs")
  | _ => none

def transformRecord5 (lf : LeafFns α) (v : PVal α) : Option (Grp α) :=
  match removeSpares v with
  | .dict kvs => do
    let fs ← interpAll (record5Fn lf) facility_related_data__transform_record5.transformers
    pure (asGroup (.dict (rename facility_related_data__transform_record5.translations
      (applyToItems fs (dissoc facility_related_data__transform_record5.ignored kvs)))))
  | _ => none

/-! ### the leaf functions on real leaves -/

def twoDigits (cs : List Char) : Option Nat :=
  match cs with
  | [a, b] => if isDigit a && isDigit b then some (digitsToNat [a, b]) else none
  | _ => none

def isLeapYear (y : Nat) : Bool := y % 4 == 0 && (y % 100 != 0 || y % 400 == 0)

def daysInMonth (y m : Nat) : Nat :=
  if m = 2 then (if isLeapYear y then 29 else 28) else if m = 4 ∨ m = 6 ∨ m = 9 ∨ m = 11 then 30 else 31

/-- `datetime.strptime(s, "%Y%m%d%H%M%S%f").isoformat()` on the canonical shape: 14 digits + 1..6 fraction digits -/
def isoOfDigits (s : String) : Option String :=
  let cs := s.toList
  if cs.length < 15 ∨ cs.length > 20 ∨ !cs.all isDigit then none else
  let y := digitsToNat (cs.take 4)
  match twoDigits ((cs.drop 4).take 2), twoDigits ((cs.drop 6).take 2), twoDigits ((cs.drop 8).take 2),
        twoDigits ((cs.drop 10).take 2), twoDigits ((cs.drop 12).take 2) with
  | some mo, some d, some hh, some mm, some ss =>
    if y < 1 ∨ mo < 1 ∨ mo > 12 ∨ d < 1 ∨ d > daysInMonth y mo ∨ hh > 23 ∨ mm > 59 ∨ ss > 59 then none else
    let frac := cs.drop 14
    let us := digitsToNat (frac ++ List.replicate (6 - frac.length) '0')
    let pad (n w : Nat) : String := String.ofList (List.replicate (w - (toString n).length) '0') ++ toString n
    let base := pad y 4 ++ "-" ++ pad mo 2 ++ "-" ++ pad d 2 ++ "T" ++ pad hh 2 ++ ":" ++ pad mm 2 ++ ":" ++ pad ss 2
    some (if us = 0 then base else base ++ "." ++ pad us 6)
  | _, _, _, _, _ => none

def invalidMarker : String := "!invalid:"

def realLeafFns : LeafFns Leaf where
  toBool := fun l => match l with
    | .int v => .bool (v ≠ 0)
    | .str s => .bool (s ≠ "")
    | o => o
  isoDatetime := fun l => match l with
    | .str s => match isoOfDigits s with
      | some r => .str r
      | none => .str (invalidMarker ++ s)
    | o => o
  isEmptyStr := fun l => match l with
    | .str s => s = ""
    | _ => false
  isMinusOne := fun l => match l with
    | .int v => v = -1
    | _ => false
  isNan := fun l => match l with
    | .float t => (lower (match t.toList with | '-' :: r => r | '+' :: r => r | r => r)) = "nan".toList
    | _ => false

end Alos2

/-
Symbolic provenance: every leaf of a parsed record is named by its *path* (member names and array indices
from the record root); a transformer output whose leaves are `Sym` terms says, for every output leaf, WHICH
field of the record it is and which leaf function was applied to it — for all file contents at once.
-/
import Alos2.Model.Transform
import Alos2.Model.Transform2
import Alos2.Model.Leader

namespace Alos2

/-! ### functorial action on transformer outputs -/

def GVar.map {α β : Type} (f : α → β) (v : GVar α) : GVar β := ⟨v.dims, v.data.map f, PVal.mapKvs f v.attrs⟩

mutual
def Grp.map {α β : Type} (f : α → β) : Grp α → Grp β
  | .mk vars groups attrs => .mk (vars.map (fun kv => (kv.1, kv.2.map f))) (Grp.mapGroups f groups) (PVal.mapKvs f attrs)
def Grp.mapGroups {α β : Type} (f : α → β) : List (String × Grp α) → List (String × Grp β)
  | [] => []
  | (k, g) :: rest => (k, Grp.map f g) :: Grp.mapGroups f rest
end

/-! ### order-insensitive normal form (member order inside a group is not observable in the tree) -/

def insertByKey {γ : Type} (x : String × γ) : List (String × γ) → List (String × γ)
  | [] => [x]
  | y :: ys => if x.1 ≤ y.1 then x :: y :: ys else y :: insertByKey x ys

/-- stable insertion sort by key -/
def sortByKey {γ : Type} (l : List (String × γ)) : List (String × γ) := l.foldr insertByKey []

def GVar.sortKeys {α : Type} (v : GVar α) : GVar α := ⟨v.dims, v.data, sortByKey v.attrs⟩

mutual
def Grp.sortKeys {α : Type} : Grp α → Grp α
  | .mk vars groups attrs => .mk (sortByKey (vars.map (fun kv => (kv.1, kv.2.sortKeys)))) (sortByKey (Grp.sortGroups groups)) (sortByKey attrs)
def Grp.sortGroups {α : Type} : List (String × Grp α) → List (String × Grp α)
  | [] => []
  | (k, g) :: rest => (k, Grp.sortKeys g) :: Grp.sortGroups rest
end

/-! ### well-typedness of transformer outputs -/

mutual
/-- data of a variable: a leaf / constant scalar, or a (nested) list of those — never a dict or a tuple -/
def PVal.leafy {α : Type} : PVal α → Bool
  | .leaf _ => true
  | .cstr _ => true
  | .cint _ => true
  | .list xs => PVal.leafyList xs
  | _ => false
def PVal.leafyList {α : Type} : List (PVal α) → Bool
  | [] => true
  | x :: xs => PVal.leafy x && PVal.leafyList xs
end

mutual
/-- an attribute value: a scalar / string or a (nested) list or tuple of those — never a dict -/
def PVal.plainAttr {α : Type} : PVal α → Bool
  | .leaf _ => true
  | .cstr _ => true
  | .cint _ => true
  | .list xs => PVal.plainAttrList xs
  | .tup xs => PVal.plainAttrList xs
  | .dict _ => false
def PVal.plainAttrList {α : Type} : List (PVal α) → Bool
  | [] => true
  | x :: xs => PVal.plainAttr x && PVal.plainAttrList xs
end

def GVar.wellTyped {α : Type} (v : GVar α) : Bool := v.data.leafy && v.attrs.all (fun kv => kv.2.plainAttr)

mutual
def Grp.wellTyped {α : Type} : Grp α → Bool
  | .mk vars groups attrs => vars.all (fun kv => kv.2.wellTyped) && Grp.wellTypedGroups groups && attrs.all (fun kv => kv.2.plainAttr)
def Grp.wellTypedGroups {α : Type} : List (String × Grp α) → Bool
  | [] => true
  | (_, g) :: rest => Grp.wellTyped g && Grp.wellTypedGroups rest
end

mutual
/-- all leaves of a value -/
def PVal.leaves {α : Type} : PVal α → List α
  | .leaf a => [a]
  | .list xs => PVal.leavesList xs
  | .tup xs => PVal.leavesList xs
  | .dict kvs => PVal.leavesKvs kvs
  | _ => []
def PVal.leavesList {α : Type} : List (PVal α) → List α
  | [] => []
  | x :: xs => PVal.leaves x ++ PVal.leavesList xs
def PVal.leavesKvs {α : Type} : List (String × PVal α) → List α
  | [] => []
  | (_, v) :: rest => PVal.leaves v ++ PVal.leavesKvs rest
end

def GVar.leaves {α : Type} (v : GVar α) : List α := v.data.leaves ++ PVal.leavesKvs v.attrs

mutual
def Grp.leaves {α : Type} : Grp α → List α
  | .mk vars groups attrs => vars.flatMap (fun kv => kv.2.leaves) ++ Grp.leavesGroups groups ++ PVal.leavesKvs attrs
def Grp.leavesGroups {α : Type} : List (String × Grp α) → List α
  | [] => []
  | (_, g) :: rest => Grp.leaves g ++ Grp.leavesGroups rest
end

/-- a leaf map `f` is compatible with two families of leaf functions -/
structure Compat {α β : Type} (f : α → β) (lf : LeafFns α) (lf' : LeafFns β) : Prop where
  toBool : ∀ a, f (lf.toBool a) = lf'.toBool (f a)
  isoDatetime : ∀ a, f (lf.isoDatetime a) = lf'.isoDatetime (f a)
  isEmptyStr : ∀ a, lf'.isEmptyStr (f a) = lf.isEmptyStr a
  isMinusOne : ∀ a, lf'.isMinusOne (f a) = lf.isMinusOne a
  isNan : ∀ a, lf'.isNan (f a) = lf.isNan a

/-- provenance of an output leaf -/
inductive Sym where
  | path (p : List String)          -- the record field at this path (indices as "[i]")
  | app (fn : String) (a : Sym)     -- a named leaf function applied to it
  | app2 (fn : String) (a b : Sym)  -- a named two-argument leaf function (composite datetime, attitude time)
  deriving Repr, DecidableEq, Inhabited

/-- leaf functions on symbolic leaves; the value-dependent tests are answered by an oracle `ρ`
    (which optional fields are "missing"), made explicit in the theorems that use them -/
def symLeafFns (ρ : String → Sym → Bool) : LeafFns Sym where
  toBool := Sym.app "bool"
  isoDatetime := Sym.app "normalize_datetime"
  isEmptyStr := ρ "isEmptyStr"
  isMinusOne := ρ "isMinusOne"
  isNan := ρ "isNan"

/-- the leaf functions of `Model/Transform2.lean` on symbolic leaves; the classification of the map-projection
    designator is answered by an oracle `δ`, made explicit in the theorems -/
def symLeafFns2 (ρ : String → Sym → Bool) (δ : Sym → Desig) : LeafFns2 Sym where
  toLeafFns := symLeafFns ρ
  compositeDatetime := Sym.app2 "composite_datetime"
  attitudeTime := Sym.app2 "attitude_time"
  desig := δ

/-- a leaf map compatible with the extended leaf functions -/
structure Compat2 {α β : Type} (f : α → β) (lf : LeafFns2 α) (lf' : LeafFns2 β) : Prop
    extends Compat f lf.toLeafFns lf'.toLeafFns where
  compositeDatetime : ∀ a b, f (lf.compositeDatetime a b) = lf'.compositeDatetime (f a) (f b)
  attitudeTime : ∀ a b, f (lf.attitudeTime a b) = lf'.attitudeTime (f a) (f b)
  desig : ∀ a, lf'.desig (f a) = lf.desig a

/-- `ρ` that answers "no" to every test (all optional fields present) -/
def allPresent : String → Sym → Bool := fun _ _ => false

/-- `ρ` that answers "yes" exactly for the listed paths -/
def missingAt (ps : List (List String)) : String → Sym → Bool := fun test s =>
  match s with
  | .path p => ps.contains p && (test = "isEmptyStr" || test = "isMinusOne")
  | _ => false

mutual
/-- replace every leaf of a parsed value by its path -/
def Val.pathSkel : Val → List String → PVal Sym
  | .leaf _, p => .leaf (.path p)
  | .list xs, p => .list (pathSkelList xs p 0)
  | .dict kvs, p => .dict (pathSkelKvs kvs p)
  | .tup v attrs, p => .tup [v.pathSkel p, .dict (attrs.map (fun (k, a) => (k, .cstr a)))]
def pathSkelList : List Val → List String → Nat → List (PVal Sym)
  | [], _, _ => []
  | x :: xs, p, i => x.pathSkel (p ++ ["[" ++ toString i ++ "]"]) :: pathSkelList xs p (i + 1)
def pathSkelKvs : List (String × Val) → List String → List (String × PVal Sym)
  | [], _ => []
  | (k, v) :: rest, p => (k, v.pathSkel (p ++ [k])) :: pathSkelKvs rest p
end

/-- follow a path (member names, "[i]" indices; a `Metadata` pair is transparent) to a leaf -/
def Val.leafAt : Val → List String → Option Leaf
  | .leaf l, [] => some l
  | .tup v _, p => v.leafAt p
  | .dict kvs, k :: rest =>
    match kvs.find? (fun kv => kv.1 = k) with
    | some kv => kv.2.leafAt rest
    | none => none
  | .list xs, k :: rest =>
    match (xs.zipIdx.find? (fun vi => "[" ++ toString vi.2 ++ "]" = k)) with
    | some vi => vi.1.leafAt rest
    | none => none
  | _, _ => none

/-- evaluate a symbolic leaf on a parsed record -/
def Sym.eval (v : Val) : Sym → Leaf
  | .path p => (v.leafAt p).getD default
  | .app "bool" a => realLeafFns.toBool (a.eval v)
  | .app "normalize_datetime" a => realLeafFns.isoDatetime (a.eval v)
  | .app _ a => a.eval v
  | .app2 "composite_datetime" a b => realLeafFns2.compositeDatetime (a.eval v) (b.eval v)
  | .app2 "attitude_time" a b => realLeafFns2.attitudeTime (a.eval v) (b.eval v)
  | .app2 "fix_attitude_time" a b => realLeafFns3.fixTime (a.eval v) (b.eval v)
  | .app2 _ a _ => a.eval v

mutual
/-- the path skeleton a *layout* prescribes (static layouts: literal counts) -/
def Con.skel : Con → List String → Option (PVal Sym)
  | .struct fs, p => (Con.skelFields fs p []).map PVal.dict
  | .array (.const n) elem, p =>
    if n < 0 then none else
    (List.range n.toNat).mapM (fun i => Con.skel elem (p ++ ["[" ++ toString i ++ "]"])) |>.map PVal.list
  | .wmeta attrs sub, p => (Con.skel sub p).map (fun s => .tup [s, .dict (attrs.map (fun (k, a) => (k, .cstr a)))])
  | .factor _ sub, p => Con.skel sub p
  | .enum _ sub, p => Con.skel sub p
  | .ydms _, p => some (.leaf (.path p))
  | .ydus _ _, p => some (.leaf (.path p))
  | .array _ _, _ => none
  | _, p => some (.leaf (.path p))
/-- fields of a struct; a repeated member name overwrites the earlier value in place (Python dict) -/
def Con.skelFields : List (String × Con) → List String → List (String × PVal Sym) → Option (List (String × PVal Sym))
  | [], _, acc => some acc
  | (name, c) :: rest, p, acc =>
    match Con.skel c (p ++ [name]) with
    | none => none
    | some s => Con.skelFields rest p (kvSet acc name s)
end

/-- prefix every path of a symbolic leaf -/
def preS (p : List String) : Sym → Sym
  | .path q => .path (p ++ q)
  | .app f a => .app f (preS p a)
  | .app2 f a b => .app2 f (preS p a) (preS p b)

/-- leaf functions of `Model/Leader.lean` on symbolic leaves -/
def symLeafFns3 (ρ : String → Sym → Bool) (δ : Sym → Desig) : LeafFns3 Sym where
  toLeafFns2 := symLeafFns2 ρ δ
  fixTime := Sym.app2 "fix_attitude_time"

structure Compat3 {α β : Type} (f : α → β) (lf : LeafFns3 α) (lf' : LeafFns3 β) : Prop
    extends Compat2 f lf.toLeafFns2 lf'.toLeafFns2 where
  fixTime : ∀ a b, f (lf.fixTime a b) = lf'.fixTime (f a) (f b)

/-- the record paths a symbolic leaf mentions -/
def Sym.paths : Sym → List (List String)
  | .path p => [p]
  | .app _ a => a.paths
  | .app2 _ a b => a.paths ++ b.paths

end Alos2

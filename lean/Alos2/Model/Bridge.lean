/-
The bridge between the two models of an image group: the group `open_image` builds WITHOUT a cache (`Model/Product.lean`:
`ImageGroup`, leaves as the record layouts read them) seen as the object the cache codec works on (`Model/CacheCodec.lean`:
`CGroup`, NumPy arrays and JSON-able attribute values) — i.e. a model of what `encode_hierarchy` sees:

  * `Variable.data` of a per-line variable is a Python list (or, for the two time stamps, a `datetime64[ns]` array);
    `encode_array` takes `np.asarray(list)` — `columnArray` models NumPy's dtype inference for a list of equal-kind scalars;
  * attribute values are the leaves themselves (ints, floats, texts, booleans, lists of those);
  * the lazy `data` variable is the `backend_array` description;
  * the group's path is the group name, its url is `None` (`as_group`), sub-groups: none.

Floating-point tokens: the JSON document carries `repr(x)` of a float; `x` may be `float(text)`, `float(text) * factor` or
`int * factor`.  The arithmetic and `repr` are CPython's: they enter as the parameter `FloatRepr` (in the driver: markers the
harness evaluates with CPython; in the theorems: any functions whose results are float literals).

Tie: (H11) `caching.encode(open_image(..., use_cache=False))` of the real code vs `encodeDoc (bridge …)` on synthesised
image files.
-/
import Alos2.Model.Product
import Alos2.Model.CacheCodec

namespace Alos2

structure FloatRepr where
  ofTok : String → String                 -- repr(float(text))
  mulTok : String → String → String       -- repr(float(text) * float(factor))
  mulInt : Int → String → String          -- repr(v * float(factor))

/-- every token is a float literal (`PyVal.WF` of a `.float`) -/
def FloatRepr.OK (fr : FloatRepr) : Prop :=
  (∀ t, (PyVal.float (fr.ofTok t)).WF = true) ∧ (∀ t f, (PyVal.float (fr.mulTok t f)).WF = true) ∧
  (∀ v f, (PyVal.float (fr.mulInt v f)).WF = true)

def inInt64 (v : Int) : Bool := -9223372036854775808 ≤ v && v ≤ 9223372036854775807

/-- a leaf as an attribute value / list element (`None` for what `json.dumps` cannot serialise or NumPy would not keep) -/
def leafPy (fr : FloatRepr) : Leaf → Option PyVal
  | .int v => some (.int v)
  | .float t => some (.float (fr.ofTok t))
  | .scaledF t f => some (.float (fr.mulTok t f))
  | .scaledI v f => some (.float (fr.mulInt v f))
  | .str s => some (.str s)
  | .bool b => some (.bool b)
  | .datetime _ => none
  | .bytes _ => none
  | .complex _ _ => none

/-- attribute values: leaves, literal texts / ints, lists, dicts (tuples stay tuples) -/
def pvalPy (fr : FloatRepr) : PVal Leaf → Option PyVal
  | .leaf l => leafPy fr l
  | .cstr s => some (.str s)
  | .cint i => some (.int i)
  | .list xs => (pvalPy.list fr xs).map PyVal.list
  | .tup xs => (pvalPy.list fr xs).map PyVal.tuple
  | .dict kvs => (pvalPy.kvs fr kvs).map PyVal.dict
where
  list (fr : FloatRepr) : List (PVal Leaf) → Option (List PyVal)
    | [] => some []
    | x :: xs => do
      let a ← pvalPy fr x
      let r ← list fr xs
      pure (a :: r)
  kvs (fr : FloatRepr) : List (String × PVal Leaf) → Option (List (String × PyVal))
    | [] => some []
    | (k, v) :: rest => do
      let a ← pvalPy fr v
      let r ← kvs fr rest
      pure ((k, a) :: r)

inductive ColKind where
  | int | float | str | bool | datetime
  deriving DecidableEq, Repr

def colKind : Leaf → Option ColKind
  | .int _ => some .int
  | .float _ => some .float
  | .scaledF _ _ => some .float
  | .scaledI _ _ => some .float
  | .str _ => some .str
  | .bool _ => some .bool
  | .datetime _ => some .datetime
  | _ => none

def leafOf : PVal Leaf → Option Leaf
  | .leaf l => some l
  | _ => none

/-- `np.asarray(column)` for a non-empty list of scalars of one kind (what the per-line variables hold):
    ints → `int64` (all must fit), floats → `float64`, texts → `<U{longest, at least 1}`, booleans → `bool`,
    instants (the two time stamps, converted by `apply_overrides`) → `datetime64[ns]` -/
def columnArray (fr : FloatRepr) (col : PVal Leaf) : Option NdArray :=
  match col with
  | .list xs => do
    let ls ← xs.mapM leafOf
    let k ← match ls with
      | [] => none
      | l :: _ => colKind l
    if !ls.all (fun l => colKind l = some k) then none else
    match k with
    | .int =>
      if ls.all (fun l => match l with | .int v => inInt64 v | _ => false) then
        some ⟨"int64", [ls.length], ls.map (fun l => match l with | .int v => .int v | _ => .none)⟩
      else none
    | .float => do
      let vs ← ls.mapM (leafPy fr)
      pure ⟨"float64", [ls.length], vs⟩
    | .str =>
      let ss := ls.map (fun l => match l with | .str s => s | _ => "")
      some ⟨"<U" ++ toString (max 1 (ss.foldl (fun m s => max m s.length) 0)), [ls.length], ss.map PyVal.str⟩
    | .bool => some ⟨"bool", [ls.length], ls.map (fun l => match l with | .bool b => .bool b | _ => .none)⟩
    | .datetime =>
      if ls.all (fun l => match l with | .datetime ns => inInt64 ns && ns ≠ natValue | _ => false) then
        some ⟨"datetime64[ns]", [ls.length], ls.map (fun l => match l with | .datetime ns => .int ns | _ => .none)⟩
      else none
  | _ => none

def gvarC (fr : FloatRepr) (v : GVar Leaf) : Option CVar := do
  let a ← columnArray fr v.data
  let attrs ← pvalPy.kvs fr v.attrs
  pure { dims := .list (v.dims.map PyVal.str), data := .nd a, attrs := attrs }

def varsC (fr : FloatRepr) : List (String × GVar Leaf) → Option (List (String × CNode))
  | [] => some []
  | (k, v) :: rest => do
    let c ← gvarC fr v
    let r ← varsC fr rest
    pure ((k, .var c) :: r)

def pairPy (p : Int × Int) : PyVal := .tuple [.int p.1, .int p.2]

/-- the lazy array as `encode_array` sees it (`root` = `fs.path` of the image's `DirFileSystem`, `url` = the file name) -/
def backendC (root name : String) (a : ArrayMeta) : BackendArray :=
  { root := root, url := name, shape := pairPy a.shape, dtype := a.dtype,
    byteRanges := .list (a.byteRanges.map pairPy), typeCode := a.typeCode, rpc := a.rpc }

/-- the group `open_image(..., use_cache=False)` returns, as the cache codec sees it -/
def bridge (fr : FloatRepr) (root name gname : String) (g : ImageGroup) : Option CGroup :=
  match g.group with
  | .mk vars groups attrs =>
    if !groups.isEmpty then none else do
    let vs ← varsC fr vars
    let ats ← pvalPy.kvs fr attrs
    let dataVar : CVar := { dims := .list [.str "rows", .str "columns"], data := .backend (backendC root name g.array), attrs := [] }
    -- `group["data"] = Variable(...)`: a new member goes last, an existing one would be overwritten in place
    let members := if vs.any (fun kv => kv.1 = "data") then vs.map (fun kv => if kv.1 = "data" then (kv.1, CNode.var dataVar) else kv)
                   else vs ++ [("data", .var dataVar)]
    pure (.mk gname .none members ats)

/-- `caching.encode(open_image(mapper, name, use_cache=False, records_per_chunk=rpc))` before `json.dumps` -/
def encodeImage (fr : FloatRepr) (root : String) (file : Bytes) (name : String) (rpc : Nat) : Except Err PyVal := do
  let (gname, g) ← openImageFile file name rpc
  match bridge fr root name gname g with
  | some cg => pure (encodeDoc cg)
  | none => throw .other

end Alos2

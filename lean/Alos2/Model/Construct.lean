/-
Layout interpreter — the meaning given to the record layouts the translator prints (`Gen/Layouts.lean`).
Hand-written model of the part of `construct` the repository uses, together with the repository's
own adapters (`ceos_alos2/datatypes.py`, `sar_image/enums.py::Flag`) and `utils.to_dict` — tie (H1).

  construct / repo                         Lean
  Struct / Renamed                          Con.struct (ordered fields; context level per struct, `_` = parent)
  FormatField >B >H >L >Q                   Con.uint n
  AsciiInteger / AsciiFloat / AsciiComplex  Con.aint / afloat / acomplex  (strip; blank → -1 / nan; int()/float() grammar)
  PaddedString (repo)                       Con.pstr       (NUL-rstrip, ascii decode, str.strip)
  StripNullBytes(Bytes(n))                  Con.bytes
  Array(count, subcon)                      Con.array
  Factor / Metadata / Enum / Flag           Con.factor / wmeta / enum / flag
  DatetimeYdms / DatetimeYdus               Con.ydms / ydus
  Tell / Seek / Computed                    Con.tell / seek / computed
  this.a.b, this._.x, + - *                 Expr

Floats never become `Float`: an ASCII float is its stripped text token (validated against the
grammar of Python's `float()`); a `Factor` keeps the token and the factor text.  The harness checks
`float(token) [* factor]` against the real value exactly.
-/
import Alos2.Base.Bytes

namespace Alos2

inductive Expr where
  | const (v : Int)
  | path (p : List String)
  | add (l r : Expr)
  | sub (l r : Expr)
  | mul (l r : Expr)
  deriving Repr, DecidableEq, Inhabited

inductive Con where
  | struct (fields : List (String × Con))
  | uint (n : Nat)
  | aint (n : Expr)
  | afloat (n : Expr)
  | acomplex (n : Expr)
  | pstr (n : Expr)
  | bytes (n : Expr)
  | array (count : Expr) (elem : Con)
  | factor (f : String) (sub : Con)
  | wmeta (attrs : List (String × String)) (sub : Con)
  | enum (table : List (String × String)) (sub : Con)
  | flag (n : Nat)
  | ydms (sub : Con)
  | ydus (sub : Con) (ref : Expr)
  | tell
  | seek (at_ : Expr)
  | computed (e : Expr)
  deriving Repr, Inhabited

/-- leaves of parsed records -/
inductive Leaf where
  | int (v : Int)
  | float (tok : String)                      -- stripped text accepted by `float()`; "nan" for a blank field
  | complex (re im : String)
  | str (s : String)
  | bytes (b : Bytes)
  | bool (b : Bool)
  | scaledF (tok : String) (factor : String)  -- float(tok) * factor
  | scaledI (v : Int) (factor : String)       -- v * factor
  | datetime (ns : Int)                       -- ns since 1970-01-01T00:00:00
  deriving Repr, DecidableEq, Inhabited

/-- value trees: what `to_dict(record.parse(bytes))` returns -/
inductive Val where
  | leaf (l : Leaf)
  | list (xs : List Val)
  | dict (kvs : List (String × Val))
  | tup (v : Val) (attrs : List (String × String))   -- `Metadata`: (value, attrs)
  deriving Repr, Inhabited

/-! ### Python text semantics -/

def isPyWhitespace (c : Char) : Bool :=
  c = ' ' || c = '\t' || c = '\n' || c = '\r' || c.toNat = 0x0b || c.toNat = 0x0c ||
  (0x1c ≤ c.toNat && c.toNat ≤ 0x1f)

/-- `str.strip()` on ASCII text -/
def pyStrip (s : List Char) : List Char :=
  ((s.dropWhile isPyWhitespace).reverse.dropWhile isPyWhitespace).reverse

def isDigit (c : Char) : Bool := '0' ≤ c && c ≤ '9'

/-- `digit (_? digit)*`: returns the digits (underscores removed) if the whole list matches -/
def digitPart : List Char → Option (List Char)
  | [] => none
  | c :: rest =>
    if !isDigit c then none else
    let rec go : List Char → List Char → Option (List Char)
      | acc, [] => some acc.reverse
      | acc, '_' :: d :: more => if isDigit d then go (d :: acc) more else none
      | acc, d :: more => if isDigit d then go (d :: acc) more else none
    go [c] rest

def digitsToNat (ds : List Char) : Nat := ds.foldl (fun acc c => acc * 10 + (c.toNat - '0'.toNat)) 0

/-- Python `int(s)` for already stripped, non-empty ASCII text -/
def pyInt (s : List Char) : Option Int :=
  let (neg, body) := match s with
    | '-' :: r => (true, r)
    | '+' :: r => (false, r)
    | r => (false, r)
  match digitPart body with
  | none => none
  | some ds => some (if neg then -(digitsToNat ds : Int) else (digitsToNat ds : Int))

def lower (s : List Char) : List Char := s.map Char.toLower

/-- does the (stripped, non-empty) text belong to the language of Python's `float()`? -/
def pyFloatOk (s : List Char) : Bool :=
  let body := match s with
    | '-' :: r => r
    | '+' :: r => r
    | r => r
  let lb := lower body
  if lb = "inf".toList || lb = "infinity".toList || lb = "nan".toList then true else
  -- split mantissa / exponent at the first e/E
  let mant := body.takeWhile (fun c => c ≠ 'e' && c ≠ 'E')
  let rest := body.dropWhile (fun c => c ≠ 'e' && c ≠ 'E')
  let expOk := match rest with
    | [] => true
    | _ :: e =>
      let e' := match e with
        | '-' :: r => r
        | '+' :: r => r
        | r => r
      (digitPart e').isSome
  let ip := mant.takeWhile (· ≠ '.')
  let fp := mant.dropWhile (· ≠ '.')
  let mantOk := match fp with
    | [] => (digitPart ip).isSome
    | _ :: frac =>
      if ip.isEmpty then (digitPart frac).isSome
      else (digitPart ip).isSome && (frac.isEmpty || (digitPart frac).isSome)
  mantOk && expOk

/-! ### parsing context (`this`) -/

/-- one level per enclosing `Struct`, innermost first; fields in reverse parse order -/
abbrev Ctx := List (List (String × Val))

def lookupField (lvl : List (String × Val)) (name : String) : Option Val :=
  (lvl.find? (fun kv => kv.1 = name)).map Prod.snd

def Val.get? : Val → String → Option Val
  | .dict kvs, name => (kvs.find? (fun kv => kv.1 = name)).map Prod.snd
  | _, _ => none

/-- resolve `this.<path>` (`_` = parent context) -/
def resolve : Ctx → List String → Option Val
  | _ :: outer, "_" :: rest => resolve outer rest
  | lvl :: _, name :: rest =>
    match lookupField lvl name with
    | none => none
    | some v => rest.foldlM (fun (v : Val) n => v.get? n) v
  | _, _ => none

def Val.toInt? : Val → Option Int
  | .leaf (.int v) => some v
  | .tup v _ => v.toInt?
  | _ => none

def Expr.eval (ctx : Ctx) : Expr → Option Int
  | .const v => some v
  | .path p => (resolve ctx p).bind Val.toInt?
  | .add l r => do pure ((← l.eval ctx) + (← r.eval ctx))
  | .sub l r => do pure ((← l.eval ctx) - (← r.eval ctx))
  | .mul l r => do pure ((← l.eval ctx) * (← r.eval ctx))

/-! ### calendar (proleptic Gregorian; days from civil, Hinnant) -/

def daysFromCivil (y : Int) (m d : Nat) : Int :=
  let y' := if m ≤ 2 then y - 1 else y
  let era := (if y' ≥ 0 then y' else y' - 399) / 400
  let yoe := y' - era * 400
  let mp : Int := if m > 2 then (m : Int) - 3 else (m : Int) + 9
  let doy := (153 * mp + 2) / 5 + (d : Int) - 1
  let doe := yoe * 365 + yoe / 4 - yoe / 100 + doy
  era * 146097 + doe - 719468

def nsPerDay : Int := 86400 * 1000000000

/-- first instant (ns) not representable by `datetime` (year 10000) and the first representable one (year 1) -/
def maxNs : Int := daysFromCivil 10000 1 1 * nsPerDay
def minNs : Int := daysFromCivil 1 1 1 * nsPerDay

/-! ### the interpreter -/

def readBytes (bs : Bytes) (pos n : Nat) : Except Err Bytes :=
  if pos + n ≤ bs.length then .ok (slice bs pos (pos + n)) else .error .stream

/-- `PaddedString_(n, "ascii")`: strip trailing NULs, decode ASCII -/
def decodeAscii (raw : Bytes) : Except Err (List Char) :=
  let stripped := (raw.reverse.dropWhile (· = 0)).reverse
  if stripped.any (fun b => b.toNat ≥ 128) then .error .strerr
  else .ok (stripped.map (fun b => Char.ofNat b.toNat))

def evalLen (ctx : Ctx) (e : Expr) : Except Err Nat :=
  match e.eval ctx with
  | none => .error .key
  | some v => if v < 0 then .error .other else .ok v.toNat

def parseAInt (raw : Bytes) : Except Err Leaf := do
  let s := pyStrip (← decodeAscii raw)
  if s.isEmpty then pure (.int (-1))
  else match pyInt s with
    | some v => pure (.int v)
    | none => throw .value

def parseAFloat (raw : Bytes) : Except Err String := do
  let s := pyStrip (← decodeAscii raw)
  if s.isEmpty then pure "nan"
  else if pyFloatOk s then pure (String.ofList s) else throw .value

/-- fold helper for arrays: parse `n` elements one after the other -/
def parseMany (p : Nat → Except Err (Val × Nat)) : Nat → Nat → Except Err (List Val × Nat)
  | 0, pos => .ok ([], pos)
  | n + 1, pos => do
    let (v, pos') ← p pos
    let (vs, pos'') ← parseMany p n pos'
    pure (v :: vs, pos'')

def applyFactor (f : String) : Val → Except Err Val
  | .leaf (.int v) => .ok (.leaf (.scaledI v f))
  | .leaf (.float t) => .ok (.leaf (.scaledF t f))
  | _ => .error .other

def enumLookup (table : List (String × String)) : Val → Except Err Val
  | .leaf (.int v) =>
    match table.find? (fun p => p.1 = toString v) with
    | some p => .ok (.leaf (.str p.2))
    | none => .ok (.leaf (.int v))
  | .leaf (.str s) =>
    match table.find? (fun p => p.1 = s) with
    | some p => .ok (.leaf (.str p.2))
    | none =>
      -- `EnumInteger(obj)` = `int(obj)` on a str (int() strips whitespace itself; s is stripped already)
      if s.isEmpty then .error .value else
      match pyInt s.toList with
      | some v => .ok (.leaf (.int v))
      | none => .error .value
  | _ => .error .other

def mkYdms (v : Val) : Except Err Val :=
  match v.get? "year", v.get? "day_of_year", v.get? "milliseconds" with
  | some (.leaf (.int y)), some (.leaf (.int d)), some (.leaf (.int ms)) =>
    if y > 2147483647 then .error .other      -- OverflowError: does not fit a C int
    else if y < 1 ∨ y > 9999 then .error .value
    else
      let ns := (daysFromCivil y 1 1 + (d - 1)) * nsPerDay + ms * 1000000
      if ns < minNs ∨ ns ≥ maxNs then .error .other else .ok (.leaf (.datetime ns))
  | _, _, _ => .error .other

def mkYdus (ref : Option Val) (v : Val) : Except Err Val :=
  match ref, v with
  | some (.leaf (.datetime r)), .leaf (.int us) =>
    let day := (r / nsPerDay) * nsPerDay
    let ns := day + us * 1000
    if ns ≥ maxNs then .error .other else .ok (.leaf (.datetime ns))
  | _, _ => .error .other

/-- Python dict assignment: a repeated member name overwrites the value but keeps its first position -/
def setField (lvl : List (String × Val)) (name : String) (v : Val) : List (String × Val) :=
  if lvl.any (fun kv => kv.1 = name) then lvl.map (fun kv => if kv.1 = name then (name, v) else kv)
  else (name, v) :: lvl

mutual
def parse : Con → Ctx → Bytes → Nat → Except Err (Val × Nat)
  | .struct fs, ctx, bs, pos => parseFields fs ([] :: ctx) bs pos
  | .uint n, _, bs, pos => do
    let raw ← readBytes bs pos n
    pure (.leaf (.int (beNat raw)), pos + n)
  | .aint e, ctx, bs, pos => do
    let n ← evalLen ctx e
    let raw ← readBytes bs pos n
    pure (.leaf (← parseAInt raw), pos + n)
  | .afloat e, ctx, bs, pos => do
    let n ← evalLen ctx e
    let raw ← readBytes bs pos n
    pure (.leaf (.float (← parseAFloat raw)), pos + n)
  | .acomplex e, ctx, bs, pos => do
    let n ← evalLen ctx e
    let h := n / 2
    let raw1 ← readBytes bs pos h
    let re ← parseAFloat raw1
    let raw2 ← readBytes bs (pos + h) h
    let im ← parseAFloat raw2
    pure (.leaf (.complex re im), pos + h + h)
  | .pstr e, ctx, bs, pos => do
    let n ← evalLen ctx e
    let raw ← readBytes bs pos n
    let s ← decodeAscii raw
    pure (.leaf (.str (String.ofList (pyStrip s))), pos + n)
  | .bytes e, ctx, bs, pos => do
    let n ← evalLen ctx e
    let raw ← readBytes bs pos n
    let stripped := ((raw.dropWhile (· = 0)).reverse.dropWhile (· = 0)).reverse
    pure (.leaf (.bytes stripped), pos + n)
  | .array count elem, ctx, bs, pos => do
    let n ← evalLen ctx count
    let (vs, pos') ← parseMany (fun p => parse elem ctx bs p) n pos
    pure (.list vs, pos')
  | .factor f sub, ctx, bs, pos => do
    let (v, pos') ← parse sub ctx bs pos
    pure (← applyFactor f v, pos')
  | .wmeta attrs sub, ctx, bs, pos => do
    let (v, pos') ← parse sub ctx bs pos
    pure (.tup v attrs, pos')
  | .enum table sub, ctx, bs, pos => do
    let (v, pos') ← parse sub ctx bs pos
    pure (← enumLookup table v, pos')
  | .flag n, _, bs, pos => do
    let raw ← readBytes bs pos n
    pure (.leaf (.bool (beNat raw ≠ 0)), pos + n)
  | .ydms sub, ctx, bs, pos => do
    let (v, pos') ← parse sub ctx bs pos
    pure (← mkYdms v, pos')
  | .ydus sub ref, ctx, bs, pos => do
    let (v, pos') ← parse sub ctx bs pos
    let r := match ref with
      | .path p => resolve ctx p
      | _ => none
    pure (← mkYdus r v, pos')
  | .tell, _, _, pos => pure (.leaf (.int pos), pos)
  | .seek e, ctx, _, _ => do
    let n ← evalLen ctx e
    pure (.leaf (.int n), n)
  | .computed e, ctx, _, pos =>
    match e.eval ctx with
    | some v => pure (.leaf (.int v), pos)
    | none => throw .key

def parseFields : List (String × Con) → Ctx → Bytes → Nat → Except Err (Val × Nat)
  | [], ctx, _, pos => .ok (.dict (ctx.headD []).reverse, pos)
  | (name, c) :: rest, ctx, bs, pos => do
    let (v, pos') ← parse c ctx bs pos
    let ctx' := match ctx with
      | lvl :: outer => setField lvl name v :: outer
      | [] => [[(name, v)]]
    parseFields rest ctx' bs pos'
end

/-! ### sizes of layouts without dynamic parts -/

mutual
/-- number of bytes read by a layout whose lengths and counts are all literals; `Tell` and `Computed` take no
    space; `seekOk` says whether a `Seek` member is tolerated (counted as 0 bytes: used for the prefix length of
    line records, whose last member seeks to the end of the record) -/
def Con.sizeWith (seekOk : Bool) : Con → Option Nat
  | .struct fs => Con.sizeFields seekOk fs
  | .uint n => some n
  | .flag n => some n
  | .aint (.const v) => if v < 0 then none else some v.toNat
  | .afloat (.const v) => if v < 0 then none else some v.toNat
  | .pstr (.const v) => if v < 0 then none else some v.toNat
  | .bytes (.const v) => if v < 0 then none else some v.toNat
  | .acomplex (.const v) => if v < 0 then none else some (v.toNat / 2 + v.toNat / 2)
  | .array (.const v) elem => if v < 0 then none else (Con.sizeWith seekOk elem).map (fun k => v.toNat * k)
  | .factor _ sub => Con.sizeWith seekOk sub
  | .wmeta _ sub => Con.sizeWith seekOk sub
  | .enum _ sub => Con.sizeWith seekOk sub
  | .ydms sub => Con.sizeWith seekOk sub
  | .ydus sub _ => Con.sizeWith seekOk sub
  | .tell => some 0
  | .computed _ => some 0
  | .seek _ => if seekOk then some 0 else none
  | _ => none

def Con.sizeFields (seekOk : Bool) : List (String × Con) → Option Nat
  | [] => some 0
  | (_, c) :: rest =>
    match Con.sizeWith seekOk c, Con.sizeFields seekOk rest with
    | some a, some b => some (a + b)
    | _, _ => none
end

/-- exact size of a static layout (no `Seek`) -/
def Con.staticSize (c : Con) : Option Nat := Con.sizeWith false c

/-- prefix length of a line-record layout (static members; the closing `Seek` counted as 0) -/
def Con.prefixSize (c : Con) : Option Nat := Con.sizeWith true c

/-- follow a path of member names inside a parsed value -/
def Val.getPath (v : Val) : List String → Option Val
  | [] => some v
  | n :: rest => match v.get? n with
    | some w => w.getPath rest
    | none => none

/-- `record.parse(data)` of a top-level record -/
def parseRecord (c : Con) (bs : Bytes) : Except Err Val := (parse c [] bs 0).map Prod.fst

end Alos2

/-
`summary.txt` — hand-written model of `summary.py` (`parse_line`, `parse_summary`, `categorize_filenames`,
the section transformers, `transform_summary`) on the regular expression and tables regenerated from the source — tie (H6).

Values are kept as typed tokens: `int` (Python `int()` of the text), `float` (the text accepted by `float()`), text,
tuples of ints and lists of texts.
-/
import Alos2.Model.Decoders
import Alos2.Model.Construct

namespace Alos2

/-- characters at which `str.splitlines()` breaks -/
def isLineBreak (c : Char) : Bool :=
  c = '\n' || c = '\r' || c.toNat = 0x0b || c.toNat = 0x0c || c.toNat = 0x1c || c.toNat = 0x1d || c.toNat = 0x1e ||
  c.toNat = 0x85 || c.toNat = 0x2028 || c.toNat = 0x2029

/-- `str.splitlines()` (`\r\n` is one break; no trailing empty line) -/
def splitLines (s : List Char) : List (List Char) :=
  let rec go : List Char → List Char → List (List Char)
    | [], cur => if cur.isEmpty then [] else [cur.reverse]
    | '\r' :: '\n' :: rest, cur => cur.reverse :: go rest []
    | c :: rest, cur => if isLineBreak c then cur.reverse :: go rest [] else go rest (c :: cur)
  go s []

/-- `parse_line`: `(section, keyword, value)` -/
def parseLine (line : List Char) : Option (String × String × String) :=
  match Gen.entryRe.fullmatch line with
  | none => none
  | some gs =>
    match groupText gs (groupIdx Gen.entryReGroups "section"), groupText gs (groupIdx Gen.entryReGroups "keyword"),
          groupText gs (groupIdx Gen.entryReGroups "value") with
    | some a, some b, some c => some (String.ofList a, String.ofList b, String.ofList c)
    | _, _, _ => none

abbrev Section := List (String × String)

def assocSet {β : Type} (l : List (String × β)) (k : String) (v : β) : List (String × β) :=
  if l.any (fun kv => kv.1 = k) then l.map (fun kv => if kv.1 = k then (k, v) else kv) else l ++ [(k, v)]

def lowerStr (s : String) : String := String.ofList (s.toList.map Char.toLower)

/-- `parse_summary`: sections (lower-cased, first-seen order) with their entries (later duplicates overwrite);
    or the 0-based numbers of ALL malformed lines -/
def parseSummary (content : List Char) : Except (List Nat) (List (String × Section)) :=
  let lines := splitLines content
  let parsed := lines.map parseLine
  let bad := (parsed.zipIdx.filter (fun p => p.1.isNone)).map Prod.snd
  if !bad.isEmpty then .error bad
  else
    .ok ((parsed.filterMap id).foldl (fun acc (sec, key, val) =>
      let s := lowerStr sec
      let cur := ((acc.find? (fun kv => kv.1 = s)).map Prod.snd).getD []
      assocSet acc s (assocSet cur key val)) [])

/-! ### section transformers -/

inductive SVal where
  | text (s : String)
  | int (i : Int)
  | float (tok : String)
  | ints (xs : List Int)            -- a tuple of ints
  | texts (xs : List String)        -- a list of texts
  deriving Repr, DecidableEq

def pyIntStr (s : String) : Except Err Int :=
  match pyInt (pyStrip s.toList) with
  | some v => .ok v
  | none => .error .value

def pyFloatStr (s : String) : Except Err String :=
  let t := pyStrip s.toList
  if !t.isEmpty && pyFloatOk t then .ok (String.ofList t) else .error .value

/-- `str.split()`: maximal runs of non-whitespace -/
def splitWs (s : List Char) : List (List Char) :=
  let rec go : List Char → List Char → List (List Char)
    | [], cur => if cur.isEmpty then [] else [cur.reverse]
    | c :: rest, cur => if isPyWhitespace c then (if cur.isEmpty then go rest [] else cur.reverse :: go rest []) else go rest (c :: cur)
  go s []

/-- `to_isoformat`: "YYYYMMDD hh:mm:ss.fff" → "YYYY-MM-DDThh:mm:ss.fff" (`s.split()` must give exactly two parts) -/
def toIsoformat (s : String) : Except Err String :=
  let parts := splitWs s.toList
  match parts with
  | [d, t] => .ok (String.ofList (d.take 4) ++ "-" ++ String.ofList ((d.drop 4).take 2) ++ "-" ++ String.ofList (d.drop 6) ++ "T" ++ String.ofList t)
  | _ => .error .value

def reformatDate (s : String) : String :=
  let d := s.toList
  String.ofList (d.take 4) ++ "-" ++ String.ofList ((d.drop 4).take 2) ++ "-" ++ String.ofList (d.drop 6)

abbrev Attrs := List (String × SVal)

/-- a section group: attributes plus named sub-groups -/
structure SGroup where
  attrs : Attrs
  groups : List (String × Attrs) := []
  deriving Repr, DecidableEq

def decodedToAttrs (d : Decoded) (ints : List String) : Except Err Attrs :=
  d.mapM (fun (k, v) => match v with
    | some t => if ints.contains k then (pyIntStr t).map (fun i => (k, SVal.int i)) else .ok (k, SVal.text t)
    | none => .ok (k, SVal.text ""))

def containsSub (s sub : String) : Bool := (s.splitOn sub).length > 1

def transformSection (sec : String) (entries : Section) : Except Err SGroup :=
  match sec with
  | "odi" => .ok ⟨entries.map (fun kv => (kv.1, .text kv.2)), []⟩
  | "rad" => .ok ⟨entries.map (fun kv => (kv.1, .text kv.2)), []⟩
  | "ach" => .ok ⟨entries.map (fun kv => (kv.1, .text (if kv.2.isEmpty then "N/A" else kv.2))), []⟩
  | "scs" => do
    let parts ← entries.mapM (fun (k, v) =>
      if k = "SceneID" then do
        let d ← decodeSceneId v
        decodedToAttrs d ["scene_frame", "orbit_accumulation"]
      else if k = "SceneShift" then (pyIntStr v).map (fun i => [(k, SVal.int i)])
      else pure [(k, SVal.text v)])
    -- `remove_nesting_layer`: the decoded scene id is spliced in place; later duplicates overwrite
    pure ⟨parts.flatten.foldl (fun acc kv => assocSet acc kv.1 kv.2) [], []⟩
  | "pds" => do
    let parts ← entries.mapM (fun (k, v) =>
      if k = "ProductID" then do
        let d ← decodeProductId v
        decodedToAttrs d []
      else if k = "ResamplingMethod" then (tableLookup Gen.resamplingMethods v).map (fun t => [(k, SVal.text t)])
      else if k = "UTM_ZoneNo" then (pyIntStr v).map (fun i => [(k, SVal.int i)])
      else if k = "MapDirection" ∨ k = "OrbitDataPrecision" ∨ k = "AttitudeDataPrecision" then pure [(k, SVal.text v)]
      else (pyFloatStr v).map (fun t => [(k, SVal.float t)]))
    pure ⟨parts.flatten.foldl (fun acc kv => assocSet acc kv.1 kv.2) [], []⟩
  | "img" => do
    let attrs ← entries.mapM (fun (k, v) =>
      if containsSub k "DateTime" then (toIsoformat v).map (fun t => (k, SVal.text t))
      else (pyFloatStr v).map (fun t => (k, SVal.float t)))
    pure ⟨attrs, []⟩
  | "lbi" => do
    let attrs ← entries.mapM (fun (k, v) =>
      if k = "ObservationDate" then pure (k, SVal.text (reformatDate v))
      else if k = "ProcessFacility" then (tableLookup Gen.processingFacilities v).map (fun t => (k, SVal.text t))
      else pure (k, SVal.text v))
    pure ⟨attrs, []⟩
  | "pdi" => do
    let files := entries.filter (fun kv => containsSub kv.1 "ProductFileName")
    let shapes := entries.filter (fun kv => !containsSub kv.1 "ProductFileName" && (kv.1.startsWith "NoOfPixels" || kv.1.startsWith "NoOfLines"))
    let other := entries.filter (fun kv => !containsSub kv.1 "ProductFileName" && !(kv.1.startsWith "NoOfPixels" || kv.1.startsWith "NoOfLines"))
    let otherR : Except Err Attrs := other.mapM (fun (k, v) =>
      if k = "BitPixel" then (pyIntStr v).map (fun i => (k, SVal.int i))
      else if k = "ProductDataSize" then (pyFloatStr v).map (fun t => (k, SVal.float t))
      else pure (k, SVal.text v))
    -- `categorize_filenames` (repaired code): roles by the numbered key, not by line order
    let filesR : Except Err (List (String × Attrs)) :=
      if files.isEmpty then .ok [] else
      let names := ((files.filter (fun kv => !kv.1.startsWith "Cnt")).mergeSort (fun a b => a.1 ≤ b.1)).map Prod.snd
      match names with
      | vol :: led :: rest =>
        match rest.reverse with
        | trl :: imgsRev =>
          .ok [("data_files", [("volume_directory", .text vol), ("sar_leader", .text led),
                               ("sar_imagery", .texts imgsRev.reverse), ("sar_trailer", .text trl)])]
        | [] => .error .value
      | _ => .error .value
    let shapesR : Except Err (List (String × Attrs)) :=
      if shapes.isEmpty then .ok [] else
      -- `groupby(lambda it: second(it[0]), ...)`: a key without '_' has no second part — `second` raises StopIteration
      if shapes.any (fun (kv : String × String) => (kv.1.splitOn "_").length < 2) then .error .other else
      -- keys `NoOfPixels_<i>` / `NoOfLines_<i>` grouped by index (first-seen order): `(pixels, lines)`
      let idxs := shapes.foldl (fun (acc : List String) (kv : String × String) => let i := ((kv.1.splitOn "_").getD 1 ""); if acc.contains i then acc else acc ++ [i]) ([] : List String)
      (idxs.mapM (fun (i : String) => do
        let get (name : String) : Except Err Int :=
          match shapes.find? (fun (kv : String × String) => kv.1.splitOn "_" = [name, i]) with
          | some kv => pyIntStr kv.2
          | none => .error .key
        pure (i, SVal.ints [← get "NoOfPixels", ← get "NoOfLines"]))).map (fun tuples => [("shapes", tuples)])
    -- `apply_to_items(transformers, categorized)`: the categories are transformed in the order of their first occurrence in
    -- the section (dict order of `groupby`), so that is also the order in which a malformed category raises
    let kindOf (kv : String × String) : String :=
      if containsSub kv.1 "ProductFileName" then "data_files"
      else if kv.1.startsWith "NoOfPixels" || kv.1.startsWith "NoOfLines" then "shapes" else "other"
    let allKinds := (entries.map kindOf).foldl (fun acc k => if acc.contains k then acc else acc ++ [k]) ([] : List String)
    for k in allKinds do
      if k = "data_files" then let _ ← filesR
      else if k = "shapes" then let _ ← shapesR
      else let _ ← otherR
    let attrs ← otherR
    let groups := (← filesR) ++ (← shapesR)
    let order := allKinds.filter (· ≠ "other")
    pure ⟨attrs, order.filterMap (fun k => (groups.find? (fun g => g.1 = k)))⟩
  | _ => .error .key

/-- `transform_summary`: section code → (group name, group), for the documented sections -/
def transformSummary (sections : List (String × Section)) : Except Err (List (String × SGroup)) := do
  let gs ← sections.mapM (fun ((sec, entries) : String × Section) =>
    match Gen.sectionNames.find? (fun kv => kv.1 = sec) with
    | some kv => (transformSection sec entries).map (fun g => (kv.2, g))
    | none => (Except.error Err.key : Except Err (String × SGroup)))
  pure (gs.foldl (fun (acc : List (String × SGroup)) kv => assocSet acc kv.1 kv.2) [])

end Alos2

/-
Identifier decoding — hand-written model of `decoders.py` (`decode_scene_id`, `decode_product_id`,
`decode_scan_info`, `decode_filename`, `lookup`) and of `sar_image/__init__.py::filename_to_groupname`, on the
regular expressions and code tables regenerated from the source (`Gen/Tables.lean`) — tie (H6).

`datetime.strptime(yymmdd, "%y%m%d")` is a contract: six digits are read as YY MM DD, an invalid month or day
raises `ValueError`, and two-digit years 69–99 are 19YY, 00–68 are 20YY (POSIX pivot).
-/
import Alos2.Base.Bytes
import Alos2.Base.Rx
import Alos2.Gen.Tables

namespace Alos2

abbrev Decoded := List (String × Option String)

def tableLookup (tbl : List (String × String)) (code : String) : Except Err String :=
  match tbl.find? (fun kv => kv.1 = code) with
  | some kv => .ok kv.2
  | none => .error .value

/-- 1969..2068 contains one century year, 2000, which is a leap year -/
def isLeapYY (yy : Nat) : Bool := yy % 4 == 0

def daysInMonthYY (yy m : Nat) : Nat :=
  if m = 2 then (if isLeapYY yy then 29 else 28) else if m = 4 ∨ m = 6 ∨ m = 9 ∨ m = 11 then 30 else 31

def pad2 (n : Nat) : String := if n < 10 then "0" ++ toString n else toString n

/-- century pivot of `%y`: two-digit years ≥ 69 are 19YY -/
def centuryPivot : Nat := 69

/-- `datetime.strptime(s, "%y%m%d")` on six digits, rendered as an ISO date -/
def parseYYMMDD (s : List Char) : Except Err String :=
  match s with
  | [a, b, c, d, e, f] =>
    if ![a, b, c, d, e, f].all Char.isDigit then .error .value else
    let n (x y : Char) : Nat := (x.toNat - 48) * 10 + (y.toNat - 48)
    let yy := n a b
    let mm := n c d
    let dd := n e f
    if mm < 1 ∨ mm > 12 ∨ dd < 1 ∨ dd > daysInMonthYY yy mm then .error .value
    else .ok ((if yy ≥ centuryPivot then "19" else "20") ++ pad2 yy ++ "-" ++ pad2 mm ++ "-" ++ pad2 dd)
  | _ => .error .value

/-- the entry of `translations` for a regex group, interpreted by its source text -/
def translate (group : String) (txt : String) : Except Err String :=
  match (Gen.translations.find? (fun kv => kv.1 = group)).map Prod.snd with
  | some "curry(lookup, observation_modes)" => tableLookup Gen.observationModes txt
  | some "curry(lookup, observation_directions)" => tableLookup Gen.observationDirections txt
  | some "curry(lookup, processing_levels)" => tableLookup Gen.processingLevels txt
  | some "curry(lookup, processing_options)" => tableLookup Gen.processingOptions txt
  | some "curry(lookup, map_projections)" => tableLookup Gen.mapProjections txt
  | some "curry(lookup, orbit_directions)" => tableLookup Gen.orbitDirections txt
  | some "curry(lookup, processing_methods)" => tableLookup Gen.processingMethods txt
  | some "parse_date" => parseYYMMDD txt.toList
  | some "passthrough" => .ok txt
  | _ => .error .key

/-- `{name: translations[name](value) for name, value in match.groupdict().items()}` -/
def translateGroups (names : List (String × Nat)) (gs : Groups) : Except Err Decoded :=
  names.mapM (fun (name, idx) =>
    match groupText gs idx with
    | some txt => (translate name (String.ofList txt)).map (fun v => (name, some v))
    | none => .error .other)

def usesFullmatch (fn : String) : Bool :=
  match (Gen.regexCalls.find? (fun kv => kv.1 = fn)).map Prod.snd with
  | some call => call.endsWith ".fullmatch"
  | none => false

def runRegex (fn : String) (r : Rx) (s : List Char) : Option Groups :=
  if usesFullmatch fn then r.fullmatch s else r.matchPrefix s

def decodeSceneId (s : String) : Except Err Decoded :=
  match runRegex "decode_scene_id" Gen.sceneIdRe s.toList with
  | none => .error .value
  | some gs => match translateGroups Gen.sceneIdReGroups gs with
    | .ok d => .ok d
    | .error _ => .error .value

def decodeProductId (s : String) : Except Err Decoded :=
  match runRegex "decode_product_id" Gen.productIdRe s.toList with
  | none => .error .value
  | some gs => match translateGroups Gen.productIdReGroups gs with
    | .ok d => .ok d
    | .error _ => .error .value

def decodeScanInfo (s : Option String) : Except Err Decoded :=
  match s with
  | none => .ok []
  | some s =>
    match runRegex "decode_scan_info" Gen.scanInfoRe s.toList with
    | none => .error .value
    | some gs => translateGroups Gen.scanInfoReGroups gs

def groupIdx (names : List (String × Nat)) (n : String) : Nat := ((names.find? (fun kv => kv.1 = n)).map Prod.snd).getD 0

/-- `decode_filename`: scalars (file type, polarisation) first, then the merged component dictionaries -/
def decodeFilename (s : String) : Except Err Decoded :=
  match runRegex "decode_filename" Gen.fnameRe s.toList with
  | none => .error .value
  | some gs => do
    let txt (n : String) : Option String := (groupText gs (groupIdx Gen.fnameReGroups n)).map String.ofList
    let scene ← decodeSceneId ((txt "scene_id").getD "")
    let prod ← decodeProductId ((txt "product_id").getD "")
    let scan ← decodeScanInfo (txt "scan_info")
    pure ([("filetype", txt "filetype"), ("polarization", txt "polarization")] ++ scene ++ prod ++ scan)

/-- `filename_to_groupname`: polarisation and (for ScanSAR) `scan<n>`, joined by `_` -/
def groupName (s : String) : Except Err String := do
  let d ← decodeFilename s
  let pol := ((d.find? (fun kv => kv.1 = "polarization")).bind Prod.snd)
  let scan := ((d.find? (fun kv => kv.1 = "scan_number")).bind Prod.snd).map (fun n => "scan" ++ n)
  pure (String.intercalate "_" ([pol, scan].filterMap (fun x => match x with
    | some t => if t.isEmpty then none else some t
    | none => none)))

end Alos2

/-
Concurrent loads — a model of several threads loading selections through `LazilyIndexedWrapper._raw_indexing_method`
(`with self.lock: return self.array[key]`) and `Array.__getitem__` (`with self.fs.open(...) as f: seek/read…`) — tie:
the I/O program of one load is the trace of `getitem` (`Model/Array.lean`, correspondence H3) wrapped in the
per-variable lock; the facts that the handle is opened inside `__getitem__` and never stored, and that the lock is
per variable and wraps only the array access, are re-read from the source AST by the translator (`Gen/Consts.lean`).

Files are immutable; every `open` creates a PRIVATE handle (its position belongs to the thread).
-/
import Alos2.Model.Array

namespace Alos2

inductive TOp where
  | acquire (l : Nat)
  | release (l : Nat)
  | io (e : IOEvent)
  deriving Repr, DecidableEq

/-- per-thread state: program counter, private handle position, the chunks read so far -/
structure TState where
  pc : Nat := 0
  pos : Nat := 0
  out : List Bytes := []
  deriving Repr, DecidableEq

structure Thread where
  file : Bytes           -- the (immutable) file this load reads
  prog : List TOp
  st : TState := {}
  deriving Repr

/-- the program of one load: the lock of the variable around the I/O trace of `getitem` -/
def loadProgram (lock : Nat) (trace : List IOEvent) : List TOp :=
  [.acquire lock] ++ trace.map .io ++ [.release lock]

/-- effect of one I/O event on the private handle -/
def ioStep (file : Bytes) (s : TState) : IOEvent → TState
  | .open_ => { s with pc := s.pc + 1, pos := 0 }
  | .seek o => { s with pc := s.pc + 1, pos := o }
  | .read k => { s with pc := s.pc + 1, pos := s.pos + (slice file s.pos (s.pos + k)).length, out := s.out ++ [slice file s.pos (s.pos + k)] }
  | .close => { s with pc := s.pc + 1 }

structure Sys where
  threads : List Thread
  owner : List (Nat × Nat) := []     -- (lock, index of the thread holding it)
  deriving Repr

def Thread.finished (t : Thread) : Bool := t.st.pc ≥ t.prog.length

def lockOwner (s : Sys) (l : Nat) : Option Nat := (s.owner.find? (fun p => p.1 = l)).map Prod.snd

/-- can thread `i` take a step? (only an `acquire` of a lock held by someone else blocks) -/
def enabled (s : Sys) (i : Nat) : Bool :=
  match s.threads[i]? with
  | none => false
  | some t =>
    match t.prog[t.st.pc]? with
    | none => false
    | some (.acquire l) => match lockOwner s l with
      | some j => j == i
      | none => true
    | some _ => true

/-- one step of thread `i` (no-op when it is blocked or finished) -/
def stepSys (s : Sys) (i : Nat) : Sys :=
  if !enabled s i then s else
  match s.threads[i]? with
  | none => s
  | some t =>
    match t.prog[t.st.pc]? with
    | none => s
    | some (.acquire l) => { threads := s.threads.set i { t with st := { t.st with pc := t.st.pc + 1 } }, owner := (l, i) :: s.owner.filter (fun p => p.1 ≠ l) }
    | some (.release l) => { threads := s.threads.set i { t with st := { t.st with pc := t.st.pc + 1 } }, owner := s.owner.filter (fun p => p.1 ≠ l) }
    | some (.io e) => { s with threads := s.threads.set i { t with st := ioStep t.file t.st e } }

def runSched (s : Sys) : List Nat → Sys
  | [] => s
  | i :: rest => runSched (stepSys s i) rest

/-- the thread run alone to completion: its outputs -/
def soloOut (file : Bytes) (prog : List TOp) : List Bytes :=
  (prog.foldl (fun (s : TState) op => match op with
    | .io e => ioStep file s e
    | _ => { s with pc := s.pc + 1 }) {}).out

end Alos2

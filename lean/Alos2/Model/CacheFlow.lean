/-
Cache-first open of one image — hand-written model of `sar_image/__init__.py::open_image`,
`sar_image/caching/__init__.py::{read_cache, create_cache, decode}` and `sar_image/cli.py::create_cache` — tie (H4).

The state is the *text* of the two index files an image can have (user cache dir = "local", next to the image =
"adjacent").  `json.loads` is a parameter (`Env.loads`) constrained in the theorems by two contracts only:
it inverts `json.dumps` on tuple-free values, and it rejects text whose brackets/strings are not balanced.
-/
import Alos2.Model.CacheCodec

namespace Alos2

structure Env where
  /-- `open_image(use_cache=False)` at a given `records_per_chunk`: the uncached group -/
  U : Nat → CGroup
  /-- `json.loads` -/
  loads : List Char → Except Err PyVal

structure CState where
  loc : Option (List Char) := none
  adj : Option (List Char) := none
  deriving Repr, DecidableEq

/-- the document `create_cache` / the CLI write for a group -/
def docText (g : CGroup) : List Char := dump (encodeDoc g)

/-- `caching.decode(text, rpc)`; an undecodable document is a `CachingError` (repaired code) -/
def decodeText (E : Env) (text : List Char) (rpc : Nat) : Except Err CGroup :=
  match E.loads text with
  | .error _ => .error .caching
  | .ok d => decodeDoc rpc d

/-- `read_cache`: the user cache dir is consulted first, then the file next to the image -/
def readCache (E : Env) (s : CState) (rpc : Nat) : Except Err CGroup :=
  match s.loc with
  | some t => decodeText E t rpc
  | none =>
    match s.adj with
    | some t => decodeText E t rpc
    | none => .error .caching

/-- where the returned group came from (observable through the files read) -/
inductive Source where
  | cacheLocal | cacheAdjacent | parsed
  deriving Repr, DecidableEq

structure OpenResult where
  result : Except Err CGroup
  source : Option Source
  state : CState

/-- `open_image(mapper, path, use_cache, create_cache, records_per_chunk)` -/
def openImage (E : Env) (s : CState) (use create : Bool) (rpc : Nat) : OpenResult :=
  let fallback : OpenResult :=
    let g := E.U rpc
    ⟨.ok g, some .parsed, if create then { s with loc := some (docText g) } else s⟩
  if use then
    match readCache E s rpc with
    | .ok g => ⟨.ok g, some (if s.loc.isSome then .cacheLocal else .cacheAdjacent), s⟩
    | .error .caching => fallback
    | .error e => ⟨.error e, none, s⟩
  else fallback

inductive Op where
  | open_ (use create : Bool) (rpc : Nat)
  | cli (rpc : Nat)                   -- `ceos-alos2-create-cache` writing next to the image
  | delLocal
  | delAdjacent
  | crashLocal (rpc k : Nat)          -- a cache write into the user cache dir interrupted after `k` characters
  | crashAdjacent (rpc k : Nat)       -- the same next to the image
  deriving Repr, DecidableEq

/-- one step of a history; `open_` steps produce an output -/
def step (E : Env) (s : CState) : Op → Option (Nat × Except Err CGroup) × CState
  | .open_ use create rpc => let r := openImage E s use create rpc; (some (rpc, r.result), r.state)
  | .cli rpc => (none, { s with adj := some (docText (E.U rpc)) })
  | .delLocal => (none, { s with loc := none })
  | .delAdjacent => (none, { s with adj := none })
  | .crashLocal rpc k => (none, { s with loc := some ((docText (E.U rpc)).take k) })
  | .crashAdjacent rpc k => (none, { s with adj := some ((docText (E.U rpc)).take k) })

/-- run a history from a state, collecting the outputs of the opens -/
def run (E : Env) : CState → List Op → List (Nat × Except Err CGroup) × CState
  | s, [] => ([], s)
  | s, op :: ops =>
    let (o, s') := step E s op
    let (os, s'') := run E s' ops
    (match o with
      | some x => x :: os
      | none => os, s'')

end Alos2

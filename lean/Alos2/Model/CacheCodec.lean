/-
The JSON index cache codec — hand-written model of `sar_image/caching/encoders.py`, `decoders.py`,
`caching/__init__.py::{encode, decode}` and of `hierarchy.Group.__post_init__` / `_adjust_item` — tie (H4).

  Python                                   Lean
  encode_hierarchy / _group / _variable     encodeGroup / encodeNode / encodeVar
  encode_array (+ _datetime / _timedelta)   encodeArray
  preprocess (tuple tagging)                preprocess
  json.dumps / json.loads                   `dump` (Model/Json.lean); loads ∘ dumps = id is a contract
  postprocess (object_hook)                 postprocess
  decode_hierarchy / _group / _variable     decodeGroup / decodeNode / decodeVar
  decode_array (+ _datetime)                decodeArray
  Group.__post_init__ / _adjust_item        adjustGroup
-/
import Alos2.Model.Json

namespace Alos2

/-- in-memory numpy array: dtype string (`str(dtype)`), shape, elements in row-major order.
    datetime64 / timedelta64 elements are `int`s in the unit of the dtype; NaT is `natValue`. -/
structure NdArray where
  dtype : String
  shape : List Nat
  flat : List PyVal
  deriving Repr

/-- the lazy image array (`array.Array`) -/
structure BackendArray where
  root : String
  url : String
  shape : PyVal
  dtype : String
  byteRanges : PyVal
  typeCode : String
  rpc : Nat
  deriving Repr

inductive ArrData where
  | nd (a : NdArray)
  | backend (b : BackendArray)
  deriving Repr

structure CVar where
  dims : PyVal
  data : ArrData
  attrs : List (String × PyVal)
  deriving Repr

mutual
inductive CNode where
  | var (v : CVar)
  | group (g : CGroup)
inductive CGroup where
  | mk (path : String) (url : PyVal) (data : List (String × CNode)) (attrs : List (String × PyVal))
end

instance : Inhabited CGroup := ⟨.mk "/" .none [] []⟩
instance : Inhabited CNode := ⟨.group default⟩

def natValue : Int := -9223372036854775808

/-! ### numpy list conversions -/

/-- `ndarray.tolist()` -/
def nest : List Nat → List PyVal → PyVal
  | [], flat => flat.headD .none
  | [_], flat => .list flat
  | n :: rest, flat =>
    let step := rest.foldl (· * ·) 1
    .list ((List.range n).map (fun i => nest rest ((flat.drop (i * step)).take step)))

/-- shape and elements of `np.array(nested)` (uniform nesting assumed; an empty list has shape `[0]`) -/
def unnest : Nat → PyVal → List Nat × List PyVal
  | 0, v => ([], [v])
  | fuel + 1, .list xs =>
    match xs with
    | [] => ([0], [])
    | x :: _ =>
      let subs := xs.map (unnest fuel)
      (xs.length :: (unnest fuel x).1, subs.flatMap Prod.snd)
  | _, v => ([], [v])

/-- numpy dtype kind from `str(dtype)` -/
def dtypeKind (dt : String) : Char :=
  if dt.startsWith "datetime64" then 'M'
  else if dt.startsWith "timedelta64" then 'm'
  else if dt.startsWith "<U" ∨ dt.startsWith ">U" ∨ dt.startsWith "|U" then 'U'
  else if dt.startsWith "uint" then 'u'
  else if dt.startsWith "int" then 'i'
  else if dt.startsWith "float" then 'f'
  else if dt.startsWith "complex" then 'c'
  else if dt = "bool" then 'b'
  else 'O'

/-- `np.datetime_data(dtype)[0]`: the unit between the brackets -/
def dtypeUnit (dt : String) : String :=
  String.ofList (((dt.toList.dropWhile (· ≠ '[')).drop 1).takeWhile (· ≠ ']'))

/-! ### `str(np.datetime64(v, unit))` and back, for the units s / ms / us / ns (proleptic Gregorian, Hinnant) -/

def unitPerSecond (unit : String) : Option Nat :=
  match unit with
  | "s" => some 1
  | "ms" => some 1000
  | "us" => some 1000000
  | "ns" => some 1000000000
  | _ => none

def civilFromDays (z0 : Int) : Int × Nat × Nat :=
  let z := z0 + 719468
  let era := (if z ≥ 0 then z else z - 146096) / 146097
  let doe := z - era * 146097
  let yoe := (doe - doe / 1460 + doe / 36524 - doe / 146096) / 365
  let y := yoe + era * 400
  let doy := doe - (365 * yoe + yoe / 4 - yoe / 100)
  let mp := (5 * doy + 2) / 153
  let d := doy - (153 * mp + 2) / 5 + 1
  let m := if mp < 10 then mp + 3 else mp - 9
  (if m ≤ 2 then y + 1 else y, m.toNat, d.toNat)

def daysFromCivil' (y : Int) (m d : Nat) : Int :=
  let y' := if m ≤ 2 then y - 1 else y
  let era := (if y' ≥ 0 then y' else y' - 399) / 400
  let yoe := y' - era * 400
  let mp : Int := if m > 2 then (m : Int) - 3 else (m : Int) + 9
  let doy := (153 * mp + 2) / 5 + (d : Int) - 1
  let doe := yoe * 365 + yoe / 4 - yoe / 100 + doy
  era * 146097 + doe - 719468

def padNat (n w : Nat) : String := String.ofList (List.replicate (w - (toString n).length) '0') ++ toString n

/-- `str(np.datetime64(v, unit))` -/
def refToken (unit : String) (v : Int) : String :=
  match unitPerSecond unit with
  | none => toString v ++ "@" ++ unit
  | some ps =>
    let perDay : Int := 86400 * ps
    let days := v / perDay
    let tod := (v - days * perDay).toNat
    let (y, m, d) := civilFromDays days
    let secs := tod / ps
    let frac := tod % ps
    let base := padNat y.toNat 4 ++ "-" ++ padNat m 2 ++ "-" ++ padNat d 2 ++ "T" ++
      padNat (secs / 3600) 2 ++ ":" ++ padNat (secs / 60 % 60) 2 ++ ":" ++ padNat (secs % 60) 2
    if ps = 1 then base else base ++ "." ++ padNat frac ((toString ps).length - 1)

def digitsNat (cs : List Char) : Option Nat :=
  if cs.isEmpty ∨ !cs.all Char.isDigit then none else some (cs.foldl (fun a c => a * 10 + (c.toNat - 48)) 0)

/-- `np.array(text, dtype="datetime64[unit]")` for the text `refToken` prints -/
def parseRefToken (unit : String) (s : String) : Option Int :=
  match unitPerSecond unit with
  | none =>
    let cs := s.toList.takeWhile (· ≠ '@')
    match cs with
    | '-' :: ds => (digitsNat ds).map (fun n => -(n : Int))
    | ds => (digitsNat ds).map (fun n => (n : Int))
  | some ps =>
    let cs := s.toList
    match digitsNat (cs.take 4), digitsNat ((cs.drop 5).take 2), digitsNat ((cs.drop 8).take 2),
          digitsNat ((cs.drop 11).take 2), digitsNat ((cs.drop 14).take 2), digitsNat ((cs.drop 17).take 2) with
    | some y, some m, some d, some hh, some mm, some ss =>
      let fracDigits := (cs.drop 20)
      let frac := if ps = 1 then some 0 else digitsNat fracDigits
      match frac with
      | some f => some ((daysFromCivil' y m d * 86400 + (hh * 3600 + mm * 60 + ss : Nat)) * ps + f)
      | none => none
    | _, _, _, _, _, _ => none

def pyInt? : PyVal → Option Int
  | .int i => some i
  | _ => none

/-! ### encoding -/

def encodeArray : ArrData → PyVal
  | .backend b => .dict [("__type__", .str "backend_array"), ("root", .str b.root), ("url", .str b.url),
      ("shape", b.shape), ("dtype", .str b.dtype), ("byte_ranges", b.byteRanges), ("type_code", .str b.typeCode)]
  | .nd a =>
    match dtypeKind a.dtype with
    | 'm' => .dict [("__type__", .str "array"), ("dtype", .str a.dtype), ("data", nest a.shape a.flat),
        ("encoding", .dict [("units", .str (dtypeUnit a.dtype))])]
    | 'M' =>
      let unit := dtypeUnit a.dtype
      let valid := a.flat.filterMap (fun x => match pyInt? x with
        | some v => if v = natValue then none else some v
        | none => none)
      let ref := valid.headD 0
      let offs := a.flat.map (fun x => match pyInt? x with
        | some v => if v = natValue then PyVal.int natValue else .int (v - ref)
        | none => x)
      .dict [("__type__", .str "array"), ("dtype", .str a.dtype), ("data", nest a.shape offs),
        ("encoding", .dict [("reference", .str (refToken unit ref)), ("units", .str unit)])]
    | _ => .dict [("__type__", .str "array"), ("dtype", .str a.dtype), ("data", nest a.shape a.flat), ("encoding", .dict [])]

def encodeVar (v : CVar) : PyVal :=
  .dict [("__type__", .str "variable"), ("dims", v.dims), ("data", encodeArray v.data), ("attrs", .dict v.attrs)]

mutual
def encodeNode : CNode → PyVal
  | .var v => encodeVar v
  | .group g => encodeGroup g
def encodeGroup : CGroup → PyVal
  | .mk path url data attrs =>
    .dict [("__type__", .str "group"), ("url", url), ("data", .dict (encodeItems data)), ("path", .str path), ("attrs", .dict attrs)]
def encodeItems : List (String × CNode) → List (String × PyVal)
  | [] => []
  | (k, n) :: rest => (k, encodeNode n) :: encodeItems rest
end

mutual
/-- `preprocess`: tag tuples so that JSON lists and tuples stay distinct -/
def preprocess : PyVal → PyVal
  | .dict kvs => .dict (preprocessKvs kvs)
  | .list xs => .list (preprocessList xs)
  | .tuple xs => .dict [("__type__", .str "tuple"), ("data", .list (preprocessList xs))]
  | v => v
def preprocessList : List PyVal → List PyVal
  | [] => []
  | x :: xs => preprocess x :: preprocessList xs
def preprocessKvs : List (String × PyVal) → List (String × PyVal)
  | [] => []
  | (k, v) :: rest => (k, preprocess v) :: preprocessKvs rest
end

def pyGet (kvs : List (String × PyVal)) (k : String) : Option PyVal := (kvs.find? (fun kv => kv.1 = k)).map Prod.snd

mutual
/-- `json.loads(..., object_hook=postprocess)`: the hook is applied to every dict, innermost first -/
def postprocess : PyVal → PyVal
  | .dict kvs =>
    let kvs' := postprocessKvs kvs
    match pyGet kvs' "__type__", pyGet kvs' "data" with
    | some (.str "tuple"), some (.list xs) => .tuple xs
    | _, _ => .dict kvs'
  | .list xs => .list (postprocessList xs)
  | .tuple xs => .tuple (postprocessList xs)
  | v => v
def postprocessList : List PyVal → List PyVal
  | [] => []
  | x :: xs => postprocess x :: postprocessList xs
def postprocessKvs : List (String × PyVal) → List (String × PyVal)
  | [] => []
  | (k, v) :: rest => (k, postprocess v) :: postprocessKvs rest
end

/-! ### `Group.__post_init__` / `_adjust_item` -/

def posixJoin (a b : String) : String :=
  if b.startsWith "/" then b else if a = "" ∨ a.endsWith "/" then a ++ b else a ++ "/" ++ b

mutual
/-- `_adjust_item` applied to every member: sub-groups get `path = join(parent.path, name)`, inherit the url if they have none -/
def adjustItems (ppath : String) (purl : PyVal) : List (String × CNode) → List (String × CNode)
  | [] => []
  | (k, .var v) :: rest => (k, .var v) :: adjustItems ppath purl rest
  | (k, .group (.mk _ url data attrs)) :: rest =>
    let path' := posixJoin ppath k
    let url' := match url with
      | .none => purl
      | u => u
    (k, .group (.mk path' url' (adjustItems path' url' data) attrs)) :: adjustItems ppath purl rest
end

/-- `Group(path, url, data, attrs)` as the constructor leaves it -/
def mkGroup (path : PyVal) (url : PyVal) (data : List (String × CNode)) (attrs : List (String × PyVal)) : CGroup :=
  let p := match path with
    | .str s => s
    | _ => "/"
  .mk p url (adjustItems p url data) attrs

/-! ### decoding -/

def decodeArray (rpc : Nat) (enc : PyVal) : Except Err ArrData :=
  match enc with
  | .dict kvs =>
    match pyGet kvs "__type__" with
    | some (.str "array") =>
      match pyGet kvs "dtype", pyGet kvs "data" with
      | some (.str dt), some data =>
        let (shape, flat) := unnest 8 data
        if dtypeKind dt = 'M' then
          match pyGet kvs "encoding" with
          | some (.dict enc') =>
            match pyGet enc' "reference", pyGet enc' "units" with
            | some (.str r), some (.str _) =>
              match parseRefToken (dtypeUnit dt) r with
              | some ref => .ok (.nd ⟨dt, shape, flat.map (fun x => match pyInt? x with
                  | some o => if o = natValue then PyVal.int natValue else .int (ref + o)
                  | none => x)⟩)
              | none => .error .value
            | _, _ => .error .key
          | _ => .error .key
        else .ok (.nd ⟨dt, shape, flat⟩)
      | _, _ => .error .key
    | _ =>
      match pyGet kvs "root", pyGet kvs "type_code", pyGet kvs "url", pyGet kvs "shape", pyGet kvs "dtype", pyGet kvs "byte_ranges" with
      | some (.str root), some (.str tc), some (.str url), some shape, some (.str dt), some br =>
        .ok (.backend ⟨root, url, shape, dt, br, tc, rpc⟩)
      | _, _, _, _, _, _ => .error .key
  | _ => .error .attr

def decodeVar (rpc : Nat) (kvs : List (String × PyVal)) : Except Err CVar :=
  match pyGet kvs "data", pyGet kvs "dims", pyGet kvs "attrs" with
  | some d, some dims, some (.dict attrs) => do
    let a ← decodeArray rpc d
    pure ⟨dims, a, attrs⟩
  | _, _, _ => .error .key

mutual
/-- `decode_hierarchy` on a member of a group's `data`; `fuel` bounds the nesting depth of groups -/
def decodeNode (rpc : Nat) : Nat → PyVal → Except Err CNode
  | 0, _ => .error .other
  | fuel + 1, .dict kvs =>
    match pyGet kvs "__type__" with
    | some (.str "variable") => (decodeVar rpc kvs).map CNode.var
    | some (.str "group") =>
      match pyGet kvs "data", pyGet kvs "path", pyGet kvs "url", pyGet kvs "attrs" with
      | some (.dict items), some path, some url, some (.dict attrs) => do
        let data ← decodeItems rpc fuel items
        pure (.group (mkGroup path url data attrs))
      | _, _, _, _ => .error .key
    | _ => .error .other
  | _ + 1, _ => .error .attr
def decodeItems (rpc : Nat) : Nat → List (String × PyVal) → Except Err (List (String × CNode))
  | _, [] => .ok []
  | fuel, (k, v) :: rest => do
    let n ← decodeNode rpc fuel v
    let ns ← decodeItems rpc fuel rest
    pure ((k, n) :: ns)
end

/-- nesting depth accepted by `decodeDoc` (the reader produces depth 1) -/
def decodeFuel : Nat := 64

/-- nesting depth of the groups in the codec domain (one less: `decodeNode` spends one unit on the variables too) -/
def domainFuel : Nat := 63

/-- `caching.decode` after `json.loads`: the document must be a group -/
def decodeDoc (rpc : Nat) (doc : PyVal) : Except Err CGroup :=
  match decodeNode rpc decodeFuel (postprocess doc) with
  | .ok (.group g) => .ok g
  | .ok (.var _) => .error .other
  | .error e => .error e

/-- `caching.encode` before `json.dumps` -/
def encodeDoc (g : CGroup) : PyVal := preprocess (encodeGroup g)

/-- the same group with the image arrays' `records_per_chunk` replaced -/
def withRpcData (rpc : Nat) : ArrData → ArrData
  | .backend b => .backend { b with rpc := rpc }
  | d => d

mutual
def CNode.withRpc (rpc : Nat) : CNode → CNode
  | .var v => .var { v with data := withRpcData rpc v.data }
  | .group g => .group (g.withRpc rpc)
def CGroup.withRpc (rpc : Nat) : CGroup → CGroup
  | .mk p u data attrs => .mk p u (withRpcItems rpc data) attrs
def withRpcItems (rpc : Nat) : List (String × CNode) → List (String × CNode)
  | [] => []
  | (k, n) :: rest => (k, n.withRpc rpc) :: withRpcItems rpc rest
end

/-! ### the domain of the codec -/

def PyVal.isNone : PyVal → Bool
  | .none => true
  | _ => false

def PyVal.isScalar : PyVal → Bool
  | .list _ => false
  | .tuple _ => false
  | .dict _ => false
  | _ => true

/-- an in-memory array the codec reproduces: element count matches the shape, no zero-length axis except for
    1-d arrays, scalar elements, rank ≤ 7; datetime elements are ints whose offsets from the reference do not
    collide with the NaT pattern, in one of the units s/ms/us/ns whose reference text is a proper calendar date -/
def NdArray.InDomain (a : NdArray) : Bool :=
  a.flat.length = a.shape.foldl (· * ·) 1 && a.shape.length ≤ 7 &&
  (a.shape.all (· ≠ 0) || a.shape = [0]) && a.flat.all PyVal.isScalar &&
  (if dtypeKind a.dtype = 'M' then
     (unitPerSecond (dtypeUnit a.dtype)).isSome &&
     a.flat.all (fun x => match x with | .int _ => true | _ => false) &&
     (let valid := a.flat.filterMap (fun x => match pyInt? x with
        | some v => if v = natValue then none else some v
        | none => none)
      let ref := valid.headD 0
      0 ≤ ref && ref < 253402300800 * ((unitPerSecond (dtypeUnit a.dtype)).getD 1) &&
      valid.all (fun v => v - ref ≠ natValue))
   else true)

def ArrData.InDomain : ArrData → Bool
  | .nd a => a.InDomain
  | .backend b => b.shape.NoReservedTag && b.byteRanges.NoReservedTag

def attrsOk (attrs : List (String × PyVal)) : Bool := (PyVal.dict attrs).NoReservedTag

mutual
/-- groups the codec reproduces: members have distinct names, sub-group paths / urls are the ones the
    constructor assigns, arrays and attributes are in the domain, nesting depth below `fuel` -/
def CGroup.InDomain : Nat → CGroup → Bool
  | 0, _ => false
  | fuel + 1, .mk path url data attrs =>
    attrsOk attrs && url.NoReservedTag && (data.map Prod.fst).Nodup && itemsInDomain fuel path url data
def itemsInDomain : Nat → String → PyVal → List (String × CNode) → Bool
  | _, _, _, [] => true
  | fuel, ppath, purl, (_, .var v) :: rest =>
    v.dims.NoReservedTag && v.data.InDomain && attrsOk v.attrs && itemsInDomain fuel ppath purl rest
  | fuel, ppath, purl, (k, .group (.mk path url data attrs)) :: rest =>
    path = posixJoin ppath k && (!url.isNone || purl.isNone) &&
    CGroup.InDomain fuel (.mk path url data attrs) && itemsInDomain fuel ppath purl rest
end

end Alos2

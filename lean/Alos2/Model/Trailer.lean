/-
`sar_trailer/__init__.py` + `sar_trailer/image_data.py` — hand-written model of `read_sar_trailer`: the 720-byte trailer
descriptor (layout regenerated from the source), then the low-resolution images laid end to end; image i occupies the
bytes between the running sums of the declared record lengths (`itertools.accumulate`), reinterpreted as big-endian
signed integers of the declared sample size and reshaped to (pixels, lines).
-/
import Alos2.Model.Construct
import Alos2.Gen.Layouts

namespace Alos2

/-- `list(itertools.accumulate(sizes, initial=0))` zipped with its tail: the byte window of every image -/
def trailerWindows : Nat → List Nat → List (Nat × Nat)
  | _, [] => []
  | acc, s :: rest => (acc, acc + s) :: trailerWindows (acc + s) rest

/-- big-endian two's-complement integer -/
def beInt (bs : Bytes) : Int :=
  let u := beNat bs
  if bs.length > 0 ∧ 2 * u ≥ 256 ^ bs.length then (u : Int) - (256 ^ bs.length : Nat) else u

/-- `np.frombuffer(content, ">i{nb}").reshape((px, ln))`:
    an unknown sample size is a TypeError (`other`), a buffer that is not a whole number of samples or does not have
    px·ln samples is a ValueError; the result is the row-major list of px rows of ln samples -/
def parseImageData (content : Bytes) (px ln nb : Int) : Except Err (List (List Int)) :=
  if nb ≠ 1 ∧ nb ≠ 2 ∧ nb ≠ 4 ∧ nb ≠ 8 then .error .other else
  let nbn := nb.toNat
  if content.length % nbn ≠ 0 then .error .value else
  let samples := (chunksOf nbn content).map beInt
  if px < 0 ∨ ln < 0 then .error .value else
  if px.toNat * ln.toNat ≠ samples.length then .error .value else
  .ok (if ln.toNat = 0 then List.replicate px.toNat [] else chunksOf ln.toNat samples)

def intField (v : Val) (k : String) : Except Err Int :=
  match v.get? k with
  | some (.leaf (.int i)) => .ok i
  | _ => .error .key

/-- `read_sar_trailer` on the bytes of the whole file: (number of images declared, the images) -/
def readTrailer (file : Bytes) : Except Err (List (List (List Int))) := do
  let header ← parseRecord Gen.trailerFileDescriptor (file.take 720)
  let data := file.drop 720
  let entries ← match header.get? "low_resolution_image_sizes" with
    | some (.list es) => pure es
    | _ => throw .key
  let sizes ← entries.mapM (fun e => intField e "record_length")
  -- `accumulate` works on Python ints: a negative declared length moves the running sum backwards; slices with a
  -- negative bound count from the end — outside the model: reject (the harness generates non-negative lengths)
  if sizes.any (· < 0) then throw .other
  let wins := trailerWindows 0 (sizes.map Int.toNat)
  (entries.zip wins).mapM (fun (e, (a, b)) => do
    let px ← intField e "number_of_pixels"
    let ln ← intField e "number_of_lines"
    let nb ← intField e "number_of_bytes_per_one_sample"
    parseImageData (slice data a b) px ln nb)

end Alos2

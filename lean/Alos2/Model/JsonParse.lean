/-
A concrete `json.loads` for the driver (executable correspondence of the cache flow).  The theorems never
use it: they are parametric in `Env.loads`, constrained by contracts only.
-/
import Alos2.Model.Json

namespace Alos2

def hexVal? (c : Char) : Option Nat :=
  if c.isDigit then some (c.toNat - 48)
  else if 'a' ≤ c ∧ c ≤ 'f' then some (c.toNat - 87)
  else if 'A' ≤ c ∧ c ≤ 'F' then some (c.toNat - 55)
  else none

def hex4? : List Char → Option Nat
  | [a, b, c, d] => do pure ((← hexVal? a) * 4096 + (← hexVal? b) * 256 + (← hexVal? c) * 16 + (← hexVal? d))
  | _ => none

def skipWs : List Char → List Char
  | c :: rest => if c = ' ' ∨ c = '\n' ∨ c = '\r' ∨ c = '\t' then skipWs rest else c :: rest
  | [] => []

/-- after the opening quote: the string and the rest -/
def parseStrBody : Nat → List Char → List Char → Option (String × List Char)
  | 0, _, _ => none
  | _ + 1, _, [] => none
  | fuel + 1, acc, c :: rest =>
    if c = '"' then some (String.ofList acc.reverse, rest)
    else if c = '\\' then
      match rest with
      | 'n' :: r => parseStrBody fuel ('\n' :: acc) r
      | 'r' :: r => parseStrBody fuel ('\r' :: acc) r
      | 't' :: r => parseStrBody fuel ('\t' :: acc) r
      | 'b' :: r => parseStrBody fuel (Char.ofNat 8 :: acc) r
      | 'f' :: r => parseStrBody fuel (Char.ofNat 12 :: acc) r
      | '"' :: r => parseStrBody fuel ('"' :: acc) r
      | '\\' :: r => parseStrBody fuel ('\\' :: acc) r
      | '/' :: r => parseStrBody fuel ('/' :: acc) r
      | 'u' :: r =>
        match hex4? (r.take 4) with
        | none => none
        | some hi =>
          let r' := r.drop 4
          if 0xD800 ≤ hi ∧ hi < 0xDC00 then
            match r' with
            | '\\' :: 'u' :: r2 =>
              match hex4? (r2.take 4) with
              | some lo => if 0xDC00 ≤ lo ∧ lo < 0xE000 then
                  parseStrBody fuel (Char.ofNat (0x10000 + (hi - 0xD800) * 1024 + (lo - 0xDC00)) :: acc) (r2.drop 4)
                else parseStrBody fuel (Char.ofNat hi :: acc) r'
              | none => none
            | _ => parseStrBody fuel (Char.ofNat hi :: acc) r'
          else parseStrBody fuel (Char.ofNat hi :: acc) r'
      | _ => none
    else if c.toNat < 32 then none
    else parseStrBody fuel (c :: acc) rest

def isNumChar (c : Char) : Bool := c.isDigit || c = '-' || c = '+' || c = '.' || c = 'e' || c = 'E'

def validNumber (tok : List Char) : Bool :=
  let body := match tok with
    | '-' :: r => r
    | r => r
  let ip := body.takeWhile Char.isDigit
  let r1 := body.dropWhile Char.isDigit
  let okInt := !ip.isEmpty && (ip.length = 1 || ip.head? ≠ some '0')
  let (okFrac, r2) := match r1 with
    | '.' :: r => let fr := r.takeWhile Char.isDigit; (!fr.isEmpty, r.dropWhile Char.isDigit)
    | r => (true, r)
  let okExp := match r2 with
    | [] => true
    | e :: r => (e = 'e' || e = 'E') &&
      (let r' := match r with
        | '+' :: x => x
        | '-' :: x => x
        | x => x
       !r'.isEmpty && r'.all Char.isDigit)
  okInt && okFrac && okExp

mutual
def parseValue : Nat → List Char → Option (PyVal × List Char)
  | 0, _ => none
  | fuel + 1, cs =>
    match skipWs cs with
    | '{' :: rest =>
      match skipWs rest with
      | '}' :: r => some (.dict [], r)
      | r => parseMembers fuel [] r
    | '[' :: rest =>
      match skipWs rest with
      | ']' :: r => some (.list [], r)
      | r => parseElems fuel [] r
    | '"' :: rest => (parseStrBody rest.length [] rest).map (fun (s, r) => (.str s, r))
    | 't' :: 'r' :: 'u' :: 'e' :: r => some (.bool true, r)
    | 'f' :: 'a' :: 'l' :: 's' :: 'e' :: r => some (.bool false, r)
    | 'n' :: 'u' :: 'l' :: 'l' :: r => some (.none, r)
    | 'N' :: 'a' :: 'N' :: r => some (.float "NaN", r)
    | 'I' :: 'n' :: 'f' :: 'i' :: 'n' :: 'i' :: 't' :: 'y' :: r => some (.float "Infinity", r)
    | '-' :: 'I' :: 'n' :: 'f' :: 'i' :: 'n' :: 'i' :: 't' :: 'y' :: r => some (.float "-Infinity", r)
    | cs' =>
      let tok := cs'.takeWhile isNumChar
      if !validNumber tok then none
      else if tok.any (fun c => c = '.' || c = 'e' || c = 'E') then some (.float (String.ofList tok), cs'.drop tok.length)
      else some (.int (match tok with
        | '-' :: ds => -((String.ofList ds).toNat! : Int)
        | ds => ((String.ofList ds).toNat! : Int)), cs'.drop tok.length)
def parseElems : Nat → List PyVal → List Char → Option (PyVal × List Char)
  | 0, _, _ => none
  | fuel + 1, acc, cs =>
    match parseValue fuel cs with
    | none => none
    | some (v, rest) =>
      match skipWs rest with
      | ',' :: r => parseElems fuel (v :: acc) r
      | ']' :: r => some (.list (v :: acc).reverse, r)
      | _ => none
def parseMembers : Nat → List (String × PyVal) → List Char → Option (PyVal × List Char)
  | 0, _, _ => none
  | fuel + 1, acc, cs =>
    match skipWs cs with
    | '"' :: rest =>
      match parseStrBody rest.length [] rest with
      | none => none
      | some (k, r1) =>
        match skipWs r1 with
        | ':' :: r2 =>
          match parseValue fuel r2 with
          | none => none
          | some (v, r3) =>
            -- a repeated key overwrites the earlier value (Python dict)
            let acc' := if acc.any (fun kv => kv.1 = k) then acc.map (fun kv => if kv.1 = k then (k, v) else kv) else (k, v) :: acc
            match skipWs r3 with
            | ',' :: r => parseMembers fuel acc' r
            | '}' :: r => some (.dict acc'.reverse, r)
            | _ => none
        | _ => none
    | _ => none
end

/-- `json.loads(text)` (no object hook) -/
def jsonLoads (text : List Char) : Except Err PyVal :=
  match parseValue (text.length + 1) text with
  | some (v, rest) => if (skipWs rest).isEmpty then .ok v else .error .json
  | none => .error .json

end Alos2

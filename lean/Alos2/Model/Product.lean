/-
Opening a whole product — hand-written model of `ceos_alos2/io.py::open` and `sar_image/__init__.py::open_image`
(the uncached path) with `sar_image/io.py::read_metadata` and `sar_image/metadata.py::transform_metadata`, built from
the pieces modelled elsewhere:

  summary.txt              parseSummary / transformSummary / fileRoles          (Model/Summary, Model/Assemble)
  volume directory         parse Gen.volumeDirectoryRecord, transformVolumeRecord  (root attributes)
  SAR leader               parse Gen.sarLeaderRecord, transformLeaderMetadata      (/metadata)
  every image file         descriptor, line records chunk by chunk through the LAYOUT interpreter, offsets rebased,
                           header attributes + per-line metadata + byte ranges / shape / dtype of the lazy array
  root                     children summary / metadata / imagery (keyed by group name), root attributes

A product directory is a list of (file name, bytes).  Missing files are the errors the source maps them to.
-/
import Alos2.Model.Leader
import Alos2.Model.Assemble
import Alos2.Gen.Consts
import Alos2.Gen.Layouts
import Alos2.Model.ImageIO

namespace Alos2

abbrev Files := List (String × Bytes)

def Files.get (fs : Files) (name : String) : Option Bytes := (fs.find? (fun f => f.1 = name)).map Prod.snd

/-- what `open_image` hands to `Array(...)` -/
structure ArrayMeta where
  typeCode : String
  shape : Int × Int
  dtype : String
  byteRanges : List (Int × Int)
  rpc : Nat
  deriving Repr, DecidableEq

structure ImageGroup where
  group : Grp Leaf          -- per-line variables, per-file constants, header attributes, `coordinates`
  array : ArrayMeta         -- the `data` variable (dims rows, columns)

structure Product where
  rootAttrs : KVs Leaf
  summary : List (String × SGroup)
  metadata : Grp Leaf
  imagery : List (String × ImageGroup)    -- in dict order (`{group.name: group ...}`)

def referenceDocument : String := "https://www.eorc.jaxa.jp/ALOS-2/en/doc/fdata/PALSAR-2_xx_Format_CEOS_E_f.pdf"

/-! ### one image file -/

def intAt (v : Val) (p : List String) : Except Err Int :=
  match v.getPath p with
  | some (.leaf (.int i)) => .ok i
  | _ => .error .key

/-- add `off` to an integer member of a record dict -/
def bumpField (off : Int) (name : String) : Val → Val
  | .dict kvs => .dict (kvs.map (fun kv => if kv.1 = name then (kv.1, match kv.2 with
      | .leaf (.int i) => .leaf (.int (i + off))
      | o => o) else kv))
  | o => o

/-- `_adjust_offset(record, offset)` -/
def adjustOffset (off : Int) (r : Val) : Val :=
  match bumpField off "record_start" r with
  | .dict kvs => .dict (kvs.map (fun kv => if kv.1 = "data" then (kv.1, bumpField off "stop" (bumpField off "start" kv.2)) else kv))
  | o => o

def recordLayout (code : Nat) : Option Con :=
  if code = 10 then some Gen.signalDataRecord else if code = 11 then some Gen.processedDataRecord else none

/-- `parse_chunk(content, element_size)` through the layout interpreter -/
def parseChunkRecords (content : Bytes) (L : Int) : Except Err (List Val) :=
  if L = 0 then .error .other else     -- ZeroDivisionError
  -- Python floor division / multiplication on ints: for L < 0 the size check fails unless the content is empty
  let nEl : Int := (content.length : Int).fdiv L
  if nEl * L ≠ content.length then .error .value else
  match parse Gen.recordPreamble [] (content.take 12) 0 with
  | .error e => .error e
  | .ok (pre, _) =>
    match pre.get? "record_type" with
    | some (.leaf (.int code)) =>
      match (if code < 0 then none else recordLayout code.toNat) with
      | none => .error .value
      | some layout =>
        match parse (.array (.const nEl) layout) [] content 0 with
        | .ok (.list recs, _) => .ok recs
        | .ok _ => .error .other
        | .error e => .error e
    | _ => .error .key

/-- the sequential chunk loop of `read_metadata` (a short read returns what is left) -/
def readChunks (file : Bytes) (L : Int) : Nat → List Nat → List Int → Except Err (List Val)
  | _, [], _ => .ok []
  | pos, s :: ss, offs => do
    let want : Int := (s : Int) * L
    let content := if want < 0 then slice file pos file.length else slice file pos (pos + want.toNat)   -- `f.read(-k)` reads everything
    let recs ← parseChunkRecords content L
    let adj := recs.map (adjustOffset (offs.headD 0))
    let rest ← readChunks file L (pos + content.length) ss offs.tail
    pure (adj ++ rest)

/-- `read_metadata(f, records_per_chunk)` -/
def readImageRecords (file : Bytes) (rpc : Nat) : Except Err (Val × List Val) := do
  let header ← parseRecord Gen.imageFileDescriptor (file.take 720)
  let n ← intAt header ["number_of_sar_data_records"]
  let L ← intAt header ["sar_data_record_length"]
  if rpc = 0 then throw .other
  let sizes := if n ≤ 0 then [] else chunkSizes n.toNat rpc
  let offs : List Int := (chunkOffsets sizes 1).map (fun (o : Nat) => ((o : Int) - 720) * L + 720)
  let recs ← readChunks file L 720 sizes offs
  pure (header, recs)

/-- `sar_image.metadata.transform_metadata(header, metadata)` -/
def transformImageMetadata (rpc : Nat) (header : Val) (records : List Val) : Except Err ImageGroup := do
  let ranges ← records.mapM (fun r => do
    let a ← intAt r ["data", "start"]
    let b ← intAt r ["data", "stop"]
    pure (a, b))
  let typeCode ← match header.getPath ["prefix_suffix_data_locators", "sar_data_format_type_code"] with
    | some (.leaf (.str s)) => pure s
    | _ => throw Err.key
  let nl ← intAt header ["sar_related_data_in_the_record", "number_of_lines_per_dataset"]
  let np ← intAt header ["sar_related_data_in_the_record", "number_of_data_groups_per_line"]
  let dtype ← match Gen.dtypes.find? (fun d => d.1 = typeCode) with
    | some d => pure d.2.1
    | none => throw Err.value
  let hattrs ← match extractAttrs realLeafFns header.toPVal with
    | some a => pure a
    | none => throw Err.other
  match transformLineMetadata (Val.toPVal.toPVals records) with
  | .mk vars groups attrs =>
    let coords : PVal Leaf := .list (vars.map (fun kv => .cstr kv.1))
    pure { group := .mk vars groups (kvUnion attrs (kvUnion hattrs [("coordinates", coords)])),
           array := { typeCode := typeCode, shape := (nl, np), dtype := dtype, byteRanges := ranges, rpc := rpc } }

/-- `open_image` without caches: (group name, image group) -/
def openImageFile (file : Bytes) (name : String) (rpc : Nat) : Except Err (String × ImageGroup) := do
  let (header, recs) ← readImageRecords file rpc
  let g ← transformImageMetadata rpc header recs
  let gname ← groupName name
  pure (gname, g)

/-! ### the product -/

/-- `ceos_alos2.io.open(path, use_cache=False, records_per_chunk=rpc)` on a product directory -/
def openProduct (fs : Files) (rpc : Nat) : Except Err Product := do
  let stext ← match fs.get "summary.txt" with
    | some b => pure b
    | none => throw Err.os
  let chars ← match String.fromUTF8? (ByteArray.mk stext.toArray) with
    | some s => pure s.toList
    | none => throw Err.value            -- UnicodeDecodeError is a ValueError
  let sections ← match parseSummary chars with
    | .ok s => pure s
    | .error _ => throw Err.group
  let summary ← transformSummary sections
  let pdi ← match sections.find? (fun s => s.1 = "pdi") with
    | some s => pure s.2
    | none => throw Err.key
  let (vol, led, imgs, _trl) ← fileRoles pdi
  let vbytes ← match fs.get vol with
    | some b => pure b
    | none => throw Err.fnf
  let vrec ← parseRecord Gen.volumeDirectoryRecord vbytes
  let vattrs ← match transformVolumeRecord realLeafFns vrec.toPVal with
    | some a => pure a
    | none => throw Err.other
  let lbytes ← match fs.get led with
    | some b => pure b
    | none => throw Err.fnf
  let lrec ← parseRecord Gen.sarLeaderRecord lbytes
  let metadata ← match transformLeaderMetadata realLeafFns3 lrec.toPVal with
    | some g => pure g
    | none => throw Err.value
  let groups ← imgs.mapM (fun name => match fs.get name with
    | some b => openImageFile b name rpc
    | none => throw Err.fnf)
  pure { rootAttrs := kvUnion vattrs [("reference_document", .cstr referenceDocument)],
         summary := summary, metadata := metadata,
         imagery := groups.foldl (fun acc kv => assocSet acc kv.1 kv.2) [] }

end Alos2

/-
Time handling — hand-written model of the five places where the reader builds a time value — tie (H7):

  datatypes.DatetimeYdms / DatetimeYdus          line time (ms) and µs line time        (`mkYdms`, `mkYdus` in Model/Construct)
  transformers.normalize_datetime                 scene-centre / creation text           (`isoOfDigits` in Model/Transform)
  platform_position.transform_composite_datetime  first orbit point: date text + seconds of day
  attitude.transform_time + metadata.fix_attitude_time   attitude points: 1 January of the platform-position year + DAYS + ms

All instants are integer nanoseconds since 1970-01-01T00:00:00 (proleptic Gregorian).
-/
import Alos2.Model.Transform

namespace Alos2

/-- THE convention of the property: day-of-year 1 is 1 January -/
def instantNs (year : Int) (doy : Nat) (nsOfDay : Nat) : Int :=
  (daysFromCivil year 1 1 + ((doy : Int) - 1)) * nsPerDay + nsOfDay

def yearLen (y : Nat) : Nat := if isLeapYear y then 366 else 365

/-- day of year of a civil date -/
def doyOf (y mo d : Nat) : Nat := ((List.range (mo - 1)).map (fun i => daysInMonth y (i + 1))).sum + d

/-- line time: `DatetimeYdms` -/
def lineTimeNs (year doy ms : Nat) : Except Err Int :=
  match mkYdms (.dict [("year", .leaf (.int year)), ("day_of_year", .leaf (.int doy)), ("milliseconds", .leaf (.int ms))]) with
  | .ok (.leaf (.datetime ns)) => .ok ns
  | .ok _ => .error .other
  | .error e => .error e

/-- µs line time: `DatetimeYdus` rebased on the date of the line time -/
def lineTimeUsNs (year doy ms us : Nat) : Except Err Int := do
  let ref ← lineTimeNs year doy ms
  match mkYdus (some (.leaf (.datetime ref))) (.leaf (.int us)) with
  | .ok (.leaf (.datetime ns)) => .ok ns
  | .ok _ => .error .other
  | .error e => .error e

/-- the instant a normalised text `YYYY-MM-DDThh:mm:ss[.ffffff]` denotes -/
def isoTextNs (iso : String) : Option Int :=
  let cs := iso.toList
  match digitsNat (cs.take 4), digitsNat ((cs.drop 5).take 2), digitsNat ((cs.drop 8).take 2),
        digitsNat ((cs.drop 11).take 2), digitsNat ((cs.drop 14).take 2), digitsNat ((cs.drop 17).take 2) with
  | some y, some mo, some d, some hh, some mm, some ss =>
    let frac := cs.drop 20
    let us : Option Nat := if frac.isEmpty then some 0 else (digitsNat frac).map (fun f => f * 10 ^ (6 - frac.length))
    us.map (fun u => (daysFromCivil y mo d) * nsPerDay + ((hh * 3600 + mm * 60 + ss : Nat) : Int) * 1000000000 + (u : Int) * 1000)
  | _, _, _, _, _, _ => none
where
  digitsNat (cs : List Char) : Option Nat :=
    if cs.isEmpty ∨ !cs.all Char.isDigit then none else some (cs.foldl (fun a c => a * 10 + (c.toNat - 48)) 0)

/-- scene-centre / creation time: `normalize_datetime` of the digit text, as an instant -/
def digitsTextNs (digits : String) : Option Int := (isoOfDigits digits).bind isoTextNs

/-- first orbit point: `"YYYY MM DD"` (any blanks) + seconds of day given as a decimal token with at most 6 fraction
    digits (`timedelta(seconds=float)` rounds to the microsecond: exact for such tokens — contract) -/
def firstPointNs (y mo d : Nat) (secWhole : Nat) (secFracDigits : List Char) : Option Int :=
  if secFracDigits.length > 6 ∨ !secFracDigits.all Char.isDigit then none else
  let us : Nat := secFracDigits.foldl (fun a c => a * 10 + (c.toNat - 48)) 0 * 10 ^ (6 - secFracDigits.length)
  some ((daysFromCivil y mo d) * nsPerDay + (secWhole : Int) * 1000000000 + (us : Int) * 1000)

/-- attitude point time AS THE CODE COMPUTES IT: 1 January of the reference year + `day_of_year` DAYS + ms -/
def attitudeNs (refYear : Int) (doy ms : Nat) : Int :=
  daysFromCivil refYear 1 1 * nsPerDay + (doy : Int) * nsPerDay + (ms : Int) * 1000000

end Alos2

/-
Field tables: for a layout with literal counts and lengths, the position of every leaf — (path, offset, width,
leaf layout) — computed on syntax.  Compared with the frozen golden tables (`Spec/Layouts.lean`) and used to
state which bytes of a record an output leaf can depend on.
-/
import Alos2.Model.Sym

namespace Alos2

/-- is this a leaf-level layout (a primitive, possibly under `Factor` / `Metadata` / `Enum` / `Ydms` wrappers)? -/
def Con.isLeafLevel : Con → Bool
  | .uint _ | .flag _ | .aint _ | .afloat _ | .acomplex _ | .pstr _ | .bytes _ => true
  | .factor _ sub | .wmeta _ sub | .enum _ sub => sub.isLeafLevel
  | .ydms _ => true
  | .ydus _ _ => true
  | .tell | .seek _ | .computed _ => true
  | _ => false

/-- does the leaf depend on the parsing context (the µs time stamp is rebased on another field)? -/
def Con.usesContext : Con → Bool
  | .ydus _ _ => true
  | .tell | .seek _ | .computed _ => true      -- position / context dependent, zero width
  | .factor _ sub | .wmeta _ sub | .enum _ sub => sub.usesContext
  | _ => false

abbrev LeafEntry := List String × Nat × Nat × Con

mutual
/-- leaves of a static layout starting at `off`, with the end offset -/
def Con.leafTable : Con → List String → Nat → Option (List LeafEntry × Nat)
  | .struct fs, p, off => Con.leafTableFields fs p off []
  | .array (.const n) elem, p, off => if n < 0 then none else Con.leafTableArray elem p n.toNat 0 off []
  | .wmeta attrs sub, p, off =>
    if sub.isLeafLevel then (Con.sizeWith true (.wmeta attrs sub)).map (fun w => ([(p, off, w, .wmeta attrs sub)], off + w))
    else Con.leafTable sub p off
  | c, p, off => if c.isLeafLevel then (Con.sizeWith true c).map (fun w => ([(p, off, w, c)], off + w)) else none
def Con.leafTableFields : List (String × Con) → List String → Nat → List LeafEntry → Option (List LeafEntry × Nat)
  | [], _, off, acc => some (acc, off)
  | (name, c) :: rest, p, off, acc =>
    match Con.leafTable c (p ++ [name]) off with
    | none => none
    | some (es, off') =>
      -- a repeated member name replaces the earlier member's leaves (Python dict semantics)
      let acc' := acc.filter (fun e => !((p ++ [name]).isPrefixOf e.1))
      Con.leafTableFields rest p off' (acc' ++ es)
def Con.leafTableArray (elem : Con) (p : List String) : Nat → Nat → Nat → List LeafEntry → Option (List LeafEntry × Nat)
  | 0, _, off, acc => some (acc, off)
  | k + 1, i, off, acc =>
    match Con.leafTable elem (p ++ ["[" ++ toString i ++ "]"]) off with
    | none => none
    | some (es, off') => Con.leafTableArray elem p k (i + 1) off' (acc ++ es)
end

/-- a printable tag of a leaf layout: primitive kind plus wrappers (scale factor, attributes, code table) -/
def Con.tag : Con → String
  | .uint n => "uint" ++ toString n
  | .flag n => "flag" ++ toString n
  | .aint _ => "aint"
  | .afloat _ => "afloat"
  | .acomplex _ => "acomplex"
  | .pstr _ => "pstr"
  | .bytes _ => "bytes"
  | .factor f sub => "factor(" ++ f ++ ")/" ++ sub.tag
  | .wmeta attrs sub => "meta(" ++ String.intercalate ";" (attrs.map (fun kv => kv.1 ++ "=" ++ kv.2)) ++ ")/" ++ sub.tag
  | .enum tbl sub => "enum(" ++ String.intercalate ";" (tbl.map (fun kv => kv.1 ++ "=" ++ kv.2)) ++ ")/" ++ sub.tag
  | .ydms _ => "ydms"
  | .ydus _ _ => "ydus"
  | .tell => "tell"
  | .seek _ => "seek"
  | .computed _ => "computed"
  | _ => "?"

/-- spare / blank members are padding: their names may change freely -/
def livePath (p : List String) : Bool := p.all keepKey

/-- the comparable form of a field table: live leaves only, as (path, offset, width, tag) -/
def Con.fieldTable (c : Con) : Option (List (List String × Nat × Nat × String) × Nat) :=
  (Con.leafTable c [] 0).map (fun r => ((r.1.filter (fun e => livePath e.1)).map (fun e => (e.1, e.2.1, e.2.2.1, e.2.2.2.tag)), r.2))

/-- follow a path to a sub-value (member names, "[i]" indices; `Metadata` pairs are transparent) -/
def Val.subAt : Val → List String → Option Val
  | v, [] => some v
  | .tup v _, p => v.subAt p
  | .dict kvs, k :: rest =>
    match kvs.find? (fun kv => kv.1 = k) with
    | some kv => kv.2.subAt rest
    | none => none
  | .list xs, k :: rest =>
    match xs.zipIdx.find? (fun vi => "[" ++ toString vi.2 ++ "]" = k) with
    | some vi => vi.1.subAt rest
    | none => none
  | _, _ => none

end Alos2

/-
The CACHE-FIRST open of a WHOLE product — hand-written model of `ceos_alos2/io.py::open` with `use_cache` / `create_cache`,
i.e. the composition of the whole-product model (`Model/Product.lean`), the bridge from the reader's image group to the object
the cache codec works on (`Model/Bridge.lean`) and the cache-first open of one image (`Model/CacheFlow.lean`) — tie (H12,
`harness/corr_product_cached.py`).

`io.open` reads summary, volume directory and leader first (no cache is involved), then opens the image files one after the other
(`list(map(open_image, names))` is eager): an image is taken from its index file if `use_cache` and one decodes — the image file
itself is then never opened —, otherwise it is parsed, and its index is written into the user cache directory when `create_cache`.
An exception at image i ends the call; index files already written for the images before it stay on disk.

The state is one `CState` (text of the index file in the user cache directory / next to the image) per image file name.
-/
import Alos2.Model.Product
import Alos2.Model.Bridge
import Alos2.Model.CacheFlow

namespace Alos2

/-- a product as the caller sees it when the image groups are the codec's objects -/
structure ProductC where
  rootAttrs : KVs Leaf
  summary : List (String × SGroup)
  metadata : Grp Leaf
  imagery : List (String × CGroup)      -- in dict order (`{group.name: group ...}`)

/-- index files per image file name -/
abbrev Caches := List (String × CState)

def Caches.get (c : Caches) (name : String) : CState := ((c.find? (fun kv => kv.1 = name)).map Prod.snd).getD {}

def Caches.set (c : Caches) (name : String) (s : CState) : Caches := assocSet c name s

/-- `Group.name`: the last component of the path -/
def CGroup.name : CGroup → String
  | .mk path _ _ _ =>
    if path = "/" || !(path.toList.contains '/') then path
    else String.ofList ((path.toList.reverse.takeWhile (fun c => c ≠ '/')).reverse)

/-- what `io.open` computes before it turns to the image files: root attributes, summary, `/metadata`, the image file names
    (the head of `openProduct`, literally) -/
def openProductHead (fs : Files) : Except Err (KVs Leaf × List (String × SGroup) × Grp Leaf × List String) := do
  let stext ← match fs.get "summary.txt" with
    | some b => pure b
    | none => throw Err.os
  let chars ← match String.fromUTF8? (ByteArray.mk stext.toArray) with
    | some s => pure s.toList
    | none => throw Err.value
  let sections ← match parseSummary chars with
    | .ok s => pure s
    | .error _ => throw Err.group
  let summary ← transformSummary sections
  let pdi ← match sections.find? (fun s => s.1 = "pdi") with
    | some s => pure s.2
    | none => throw Err.key
  let (vol, led, imgs, _trl) ← fileRoles pdi
  let vbytes ← match fs.get vol with
    | some b => pure b
    | none => throw Err.fnf
  let vrec ← parseRecord Gen.volumeDirectoryRecord vbytes
  let vattrs ← match transformVolumeRecord realLeafFns vrec.toPVal with
    | some a => pure a
    | none => throw Err.other
  let lbytes ← match fs.get led with
    | some b => pure b
    | none => throw Err.fnf
  let lrec ← parseRecord Gen.sarLeaderRecord lbytes
  let metadata ← match transformLeaderMetadata realLeafFns3 lrec.toPVal with
    | some g => pure g
    | none => throw Err.value
  pure (kvUnion vattrs [("reference_document", .cstr referenceDocument)], summary, metadata, imgs)

/-- `open_image(mapper, name, use_cache=False, records_per_chunk=rpc)` as the cache codec sees its result -/
def uncachedC (fr : FloatRepr) (root : String) (fs : Files) (name : String) (rpc : Nat) : Except Err CGroup :=
  match fs.get name with
  | none => throw Err.fnf
  | some b => do
    let (gname, g) ← openImageFile b name rpc
    match bridge fr root name gname g with
    | some cg => pure cg
    | none => throw Err.other

/-- `open_image` with an uncached open that may fail (`CacheFlow.openImage` is the special case of one that never does):
    result and the image's index files afterwards -/
def openImageP (loads : List Char → Except Err PyVal) (U : Nat → Except Err CGroup) (s : CState) (use create : Bool) (rpc : Nat) :
    Except Err CGroup × CState :=
  let fallback : Except Err CGroup × CState :=
    match U rpc with
    | .ok g => (.ok g, if create then { s with loc := some (docText g) } else s)
    | .error e => (.error e, s)
  if use then
    match readCache { U := fun _ => default, loads := loads } s rpc with
    | .ok g => (.ok g, s)
    | .error .caching => fallback
    | .error e => (.error e, s)
  else fallback

/-- the image files in the order of the summary; the first failure ends the call, the index files written so far stay -/
def openImagesCached (fr : FloatRepr) (loads : List Char → Except Err PyVal) (root : String) (fs : Files) (use create : Bool)
    (rpc : Nat) : List String → Caches → Except Err (List CGroup) × Caches
  | [], c => (.ok [], c)
  | name :: rest, c =>
    match openImageP loads (uncachedC fr root fs name) (c.get name) use create rpc with
    | (.error e, _) => (.error e, c)
    | (.ok g, s) =>
      match openImagesCached fr loads root fs use create rpc rest (c.set name s) with
      | (.ok gs, c') => (.ok (g :: gs), c')
      | (.error e, c') => (.error e, c')

/-- `ceos_alos2.io.open(path, use_cache=use, create_cache=create, records_per_chunk=rpc)`: the tree and the index files afterwards -/
def openProductCached (fr : FloatRepr) (loads : List Char → Except Err PyVal) (root : String) (fs : Files) (c : Caches)
    (use create : Bool) (rpc : Nat) : Except Err ProductC × Caches :=
  match openProductHead fs with
  | .error e => (.error e, c)
  | .ok (rootAttrs, summary, metadata, imgs) =>
    match openImagesCached fr loads root fs use create rpc imgs c with
    | (.error e, c') => (.error e, c')
    | (.ok gs, c') =>
      (.ok { rootAttrs := rootAttrs, summary := summary, metadata := metadata,
             imagery := gs.foldl (fun acc g => assocSet acc g.name g) [] }, c')

/-- the uncached open of the product, image groups as the codec's objects: no index file is read or written -/
def openProductC (fr : FloatRepr) (root : String) (fs : Files) (rpc : Nat) : Except Err ProductC :=
  (openProductCached fr (fun _ => .error .other) root fs [] false false rpc).1

/-- operations on a product: opens with any options, the CLI writing next to image `name`, deletions, interrupted writes -/
inductive POp where
  | open_ (use create : Bool) (rpc : Nat)
  | cli (name : String) (rpc : Nat)
  | delLocal (name : String)
  | delAdjacent (name : String)
  | crashLocal (name : String) (rpc k : Nat)
  | crashAdjacent (name : String) (rpc k : Nat)

/-- one step; the CLI and the interrupted writes act only when the image can be opened (otherwise the CLI raises before writing) -/
def pstep (fr : FloatRepr) (loads : List Char → Except Err PyVal) (root : String) (fs : Files) (c : Caches) :
    POp → Option (Nat × Except Err ProductC) × Caches
  | .open_ use create rpc =>
    let r := openProductCached fr loads root fs c use create rpc
    (some (rpc, r.1), r.2)
  | .cli name rpc =>
    match uncachedC fr root fs name rpc with
    | .ok g => (none, c.set name { c.get name with adj := some (docText g) })
    | .error _ => (none, c)
  | .delLocal name => (none, c.set name { c.get name with loc := none })
  | .delAdjacent name => (none, c.set name { c.get name with adj := none })
  | .crashLocal name rpc k =>
    match uncachedC fr root fs name rpc with
    | .ok g => (none, c.set name { c.get name with loc := some ((docText g).take k) })
    | .error _ => (none, c)
  | .crashAdjacent name rpc k =>
    match uncachedC fr root fs name rpc with
    | .ok g => (none, c.set name { c.get name with adj := some ((docText g).take k) })
    | .error _ => (none, c)

/-- a history: the outputs of its opens, and the index files at its end -/
def prun (fr : FloatRepr) (loads : List Char → Except Err PyVal) (root : String) (fs : Files) :
    Caches → List POp → List (Nat × Except Err ProductC) × Caches
  | c, [] => ([], c)
  | c, op :: ops =>
    let (o, c') := pstep fr loads root fs c op
    let (os, c'') := prun fr loads root fs c' ops
    (match o with
      | some x => x :: os
      | none => os, c'')

end Alos2

/-
Python values as they appear in attributes and cache documents, and `json.dumps` with CPython's default
settings (`separators=(", ", ": ")`, `ensure_ascii=True`) — tie (H4).

Floats are kept as the token `repr(float)` prints (`NaN`, `Infinity`, `-Infinity` for the non-finite ones):
that `json.loads(json.dumps(x)) == x` for floats is CPython's shortest-repr contract, tested not proved.
-/
import Alos2.Base.Bytes

namespace Alos2

inductive PyVal where
  | none
  | bool (b : Bool)
  | int (i : Int)
  | float (tok : String)
  | str (s : String)
  | list (xs : List PyVal)
  | tuple (xs : List PyVal)
  | dict (kvs : List (String × PyVal))
  deriving Repr, Inhabited

def hexDigitC (n : Nat) : Char := if n < 10 then Char.ofNat (48 + n) else Char.ofNat (87 + n)

def hex4 (n : Nat) : List Char :=
  [hexDigitC (n / 4096 % 16), hexDigitC (n / 256 % 16), hexDigitC (n / 16 % 16), hexDigitC (n % 16)]

/-- one character inside a JSON string, `ensure_ascii=True` -/
def escapeChar (c : Char) : List Char :=
  if c = '"' then ['\\', '"']
  else if c = '\\' then ['\\', '\\']
  else if c = '\n' then ['\\', 'n']
  else if c = '\r' then ['\\', 'r']
  else if c = '\t' then ['\\', 't']
  else if c.toNat = 8 then ['\\', 'b']
  else if c.toNat = 12 then ['\\', 'f']
  else if c.toNat < 32 ∨ c.toNat ≥ 127 then
    if c.toNat < 0x10000 then ['\\', 'u'] ++ hex4 c.toNat
    else
      let v := c.toNat - 0x10000
      ['\\', 'u'] ++ hex4 (0xD800 + v / 1024) ++ ['\\', 'u'] ++ hex4 (0xDC00 + v % 1024)
  else [c]

def dumpStr (s : String) : List Char := ['"'] ++ s.toList.flatMap escapeChar ++ ['"']

def intersperse2 (sep : List Char) : List (List Char) → List Char
  | [] => []
  | [x] => x
  | x :: rest => x ++ sep ++ intersperse2 sep rest

mutual
/-- `json.dumps(v)` -/
def dump : PyVal → List Char
  | .none => "null".toList
  | .bool true => "true".toList
  | .bool false => "false".toList
  | .int i => (toString i).toList
  | .float t => t.toList
  | .str s => dumpStr s
  | .list xs => ['['] ++ intersperse2 [',', ' '] (dumpList xs) ++ [']']
  | .tuple xs => ['['] ++ intersperse2 [',', ' '] (dumpList xs) ++ [']']
  | .dict kvs => ['{'] ++ intersperse2 [',', ' '] (dumpKvs kvs) ++ ['}']
def dumpList : List PyVal → List (List Char)
  | [] => []
  | x :: xs => dump x :: dumpList xs
def dumpKvs : List (String × PyVal) → List (List Char)
  | [] => []
  | (k, v) :: rest => (dumpStr k ++ [':', ' '] ++ dump v) :: dumpKvs rest
end

/-! ### well-formedness predicates on values -/

/-- characters `repr(float)` can print -/
def floatChar (c : Char) : Bool := c.isDigit || c = '.' || c = '-' || c = '+' || c = 'e' || c = 'E' || c = 'N' || c = 'a' || c = 'I' || c = 'n' || c = 'f' || c = 'i' || c = 't' || c = 'y'

mutual
/-- float tokens contain only characters a float literal can contain (no quotes or brackets) and are non-empty -/
def PyVal.WF : PyVal → Bool
  | .float t => !t.toList.isEmpty && t.toList.all floatChar
  | .list xs => wfList xs
  | .tuple xs => wfList xs
  | .dict kvs => wfKvs kvs
  | _ => true
def wfList : List PyVal → Bool
  | [] => true
  | x :: xs => x.WF && wfList xs
def wfKvs : List (String × PyVal) → Bool
  | [] => true
  | (_, v) :: rest => v.WF && wfKvs rest
end

mutual
/-- no tuples anywhere (what `json.loads` can return) -/
def PyVal.TupleFree : PyVal → Bool
  | .tuple _ => false
  | .list xs => tupleFreeList xs
  | .dict kvs => tupleFreeKvs kvs
  | _ => true
def tupleFreeList : List PyVal → Bool
  | [] => true
  | x :: xs => x.TupleFree && tupleFreeList xs
def tupleFreeKvs : List (String × PyVal) → Bool
  | [] => true
  | (_, v) :: rest => v.TupleFree && tupleFreeKvs rest
end

mutual
/-- no dictionary uses the reserved tuple tag `{"__type__": "tuple", ...}` and keys are unique -/
def PyVal.NoReservedTag : PyVal → Bool
  | .dict kvs => !(kvs.any (fun kv => kv.1 = "__type__" && (match kv.2 with | .str "tuple" => true | _ => false)))
      && (kvs.map Prod.fst).Nodup && noTagKvs kvs
  | .list xs => noTagList xs
  | .tuple xs => noTagList xs
  | _ => true
def noTagList : List PyVal → Bool
  | [] => true
  | x :: xs => x.NoReservedTag && noTagList xs
def noTagKvs : List (String × PyVal) → Bool
  | [] => true
  | (_, v) :: rest => v.NoReservedTag && noTagKvs rest
end

def PyVal.isContainer : PyVal → Bool
  | .dict _ => true
  | .list _ => true
  | .tuple _ => true
  | _ => false

/-! ### the bracket / string scanner every JSON parser implements -/

structure ScanState where
  depth : Nat := 0
  inStr : Bool := false
  esc : Bool := false
  underflow : Bool := false     -- a closing bracket without an opening one was seen
  deriving Repr, DecidableEq

def scanStep (s : ScanState) (c : Char) : ScanState :=
  if s.inStr then
    if s.esc then { s with esc := false }
    else if c = '\\' then { s with esc := true }
    else if c = '"' then { s with inStr := false }
    else s
  else if c = '"' then { s with inStr := true }
  else if c = '{' ∨ c = '[' then { s with depth := s.depth + 1 }
  else if c = '}' ∨ c = ']' then
    (if s.depth = 0 then { s with underflow := true } else { s with depth := s.depth - 1 })
  else s

def scan (cs : List Char) : ScanState := cs.foldl scanStep {}

/-- a complete JSON document leaves the scanner balanced and outside any string -/
def Balanced (cs : List Char) : Prop := (scan cs).depth = 0 ∧ (scan cs).inStr = false ∧ (scan cs).underflow = false

end Alos2

/-
`ceos_alos2/xarray.py` — the name-level part of `to_dataset` / `decode_coords`: which variables of a group become
coordinates, which stay data variables, which attributes remain.  (`xr.Dataset`, `set_coords`, `DataTree.from_dict` are
xarray's; the model records their contract: `set_coords(names)` moves exactly the named variables, names that are not
variables are an error.)
-/
import Alos2.Model.Dict

namespace Alos2

structure DatasetNames (α : Type) where
  dataVars : List String
  coords : List String
  attrs : KVs α

/-- the names listed by the `coordinates` bookkeeping attribute (`ds.attrs.pop("coordinates", [])`) -/
def coordinateNames {α : Type} (attrs : KVs α) : List String :=
  match kvGet attrs "coordinates" with
  | some (.list xs) => xs.filterMap (fun x => match x with
      | .cstr s => some s
      | _ => none)
  | _ => []

/-- `to_dataset(group)` at the level of names: `none` = a listed name is not a variable (xarray raises) -/
def toDatasetNames {α : Type} (vars : List String) (attrs : KVs α) : Option (DatasetNames α) :=
  let coords := coordinateNames attrs
  if coords.all (fun c => vars.contains c) then
    some { dataVars := vars.filter (fun v => !coords.contains v), coords := vars.filter (fun v => coords.contains v),
           attrs := attrs.filter (fun kv => kv.1 ≠ "coordinates") }
  else none

end Alos2

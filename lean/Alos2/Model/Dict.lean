/-
Dictionary combinators and record transformers — tie (H2).

Hand-written model of `ceos_alos2/dicttoolz.py`, `utils.py` (`rename`, `remove_nesting_layer`),
`transformers.py` (`remove_spares`, `separate_attrs`, `transform_nested`, `as_group`, `as_variable`,
`item_type`) and the `toolz` calls they use (`keyfilter`, `valmap`, `merge_with(list)`, `keymap`).

Everything is polymorphic in the leaf type `α`: the transformers never look inside a value read from a
file, except through the few leaf functions collected in `LeafFns`.  That is what the naturality theorems
(`Proofs/Natural.lean`) exploit.
-/
import Alos2.Model.Construct

namespace Alos2

/-- value trees with constants (names, units, literals that do not come from the file) -/
inductive PVal (α : Type) where
  | leaf (a : α)
  | cstr (s : String)
  | cint (i : Int)
  | list (xs : List (PVal α))
  | dict (kvs : List (String × PVal α))
  | tup (xs : List (PVal α))
  deriving Repr, Inhabited

namespace PVal

variable {α β : Type}

mutual
def map (f : α → β) : PVal α → PVal β
  | .leaf a => .leaf (f a)
  | .cstr s => .cstr s
  | .cint i => .cint i
  | .list xs => .list (mapList f xs)
  | .dict kvs => .dict (mapKvs f kvs)
  | .tup xs => .tup (mapList f xs)
def mapList (f : α → β) : List (PVal α) → List (PVal β)
  | [] => []
  | x :: xs => map f x :: mapList f xs
def mapKvs (f : α → β) : List (String × PVal α) → List (String × PVal β)
  | [] => []
  | (k, v) :: rest => (k, map f v) :: mapKvs f rest
end

def isDict : PVal α → Bool
  | .dict _ => true
  | _ => false

def isList : PVal α → Bool
  | .list _ => true
  | _ => false

def isTup : PVal α → Bool
  | .tup _ => true
  | _ => false

end PVal

/-- parsed records as `PVal Leaf` (a `Metadata` pair becomes the 2-tuple `(value, attrs)`) -/
def Val.toPVal : Val → PVal Leaf
  | .leaf l => .leaf l
  | .list xs => .list (toPVals xs)
  | .dict kvs => .dict (toPKvs kvs)
  | .tup v attrs => .tup [v.toPVal, .dict (attrs.map (fun (k, a) => (k, .cstr a)))]
where
  toPVals : List Val → List (PVal Leaf)
    | [] => []
    | x :: xs => x.toPVal :: toPVals xs
  toPKvs : List (String × Val) → List (String × PVal Leaf)
    | [] => []
    | (k, v) :: rest => (k, v.toPVal) :: toPKvs rest

/-! ### association lists with Python `dict` semantics -/

abbrev KVs (α : Type) := List (String × PVal α)

def kvGet {α : Type} (kvs : KVs α) (k : String) : Option (PVal α) := (kvs.find? (fun kv => kv.1 = k)).map Prod.snd

/-- `d[k] = v`: overwrite in place or append -/
def kvSet {α : Type} (kvs : KVs α) (k : String) (v : PVal α) : KVs α :=
  if kvs.any (fun kv => kv.1 = k) then kvs.map (fun kv => if kv.1 = k then (k, v) else kv) else kvs ++ [(k, v)]

/-- `dict(items)`: later duplicates overwrite earlier values, first position kept -/
def kvFromItems {α : Type} (items : KVs α) : KVs α := items.foldl (fun acc kv => kvSet acc kv.1 kv.2) []

/-- `a | b` -/
def kvUnion {α : Type} (a b : KVs α) : KVs α := b.foldl (fun acc kv => kvSet acc kv.1 kv.2) a

/-! ### generic combinators -/

/-- `dicttoolz.dissoc(keys, d)` -/
def dissoc {α : Type} (keys : List String) (kvs : KVs α) : KVs α := kvs.filter (fun kv => !keys.contains kv.1)

/-- `keyfilter(lambda k: k in keys, d)` -/
def keepKeys {α : Type} (keys : List String) (kvs : KVs α) : KVs α := kvs.filter (fun kv => keys.contains kv.1)

/-- `utils.rename(mapping, translations)` (`keymap`; colliding keys overwrite) -/
def rename {α : Type} (tr : List (String × String)) (kvs : KVs α) : KVs α :=
  kvFromItems (kvs.map (fun kv => (((tr.find? (fun t => t.1 = kv.1)).map Prod.snd).getD kv.1, kv.2)))

/-- `apply_to_items(funcs, mapping)` with the identity default -/
def applyToItems {α : Type} (funcs : List (String × (PVal α → PVal α))) (kvs : KVs α) : KVs α :=
  kvs.map (fun kv => (kv.1, match funcs.find? (fun f => f.1 = kv.1) with
    | some f => f.2 kv.2
    | none => kv.2))

/-- `utils.remove_nesting_layer` -/
def removeNestingLayer {α : Type} (kvs : KVs α) : KVs α :=
  kvFromItems (kvs.flatMap (fun kv => match kv.2 with
    | .dict inner => inner
    | _ => [kv]))

def allDigits (s : List Char) : Bool := s.all isDigit

def dropPrefix (p s : List Char) : List Char := if p.isPrefixOf s then s.drop p.length else s

/-- the key predicate of `remove_spares`: keep the key? -/
def keepKey (k : String) : Bool :=
  let cs := k.toList
  if !("spare".toList.isPrefixOf cs || "blanks".toList.isPrefixOf cs) then true
  else
    let r := dropPrefix "blanks".toList (dropPrefix "spare".toList cs)
    !r.isEmpty && !allDigits r

mutual
/-- `transformers.remove_spares` (recursive through dicts and lists, not through tuples) -/
def removeSpares {α : Type} : PVal α → PVal α
  | .list xs => .list (removeSparesList xs)
  | .dict kvs => .dict (removeSparesKvs kvs)
  | v => v
def removeSparesList {α : Type} : List (PVal α) → List (PVal α)
  | [] => []
  | x :: xs => removeSpares x :: removeSparesList xs
def removeSparesKvs {α : Type} : KVs α → KVs α
  | [] => []
  | (k, v) :: rest => if keepKey k then (k, removeSpares v) :: removeSparesKvs rest else removeSparesKvs rest
end

/-- keys of a list of dicts in first-seen order -/
def unionKeys {α : Type} (ds : List (KVs α)) : List String :=
  ds.foldl (fun acc d => d.foldl (fun acc kv => if acc.contains kv.1 then acc else acc ++ [kv.1]) acc) []

/-- `toolz.merge_with(list, *dicts)` -/
def mergeWithList {α : Type} (ds : List (KVs α)) : KVs α :=
  (unionKeys ds).map (fun k => (k, .list (ds.filterMap (fun d => kvGet d k))))

def asDicts {α : Type} (xs : List (PVal α)) : List (KVs α) :=
  xs.filterMap (fun x => match x with
    | .dict kvs => some kvs
    | _ => none)

/-- `transformers.separate_attrs` → `(values, attrs)` -/
def separateAttrs {α : Type} (data : PVal α) : PVal α × PVal α :=
  match data with
  | .list (.tup (v0 :: a0 :: r0) :: rest) =>
    let all := PVal.tup (v0 :: a0 :: r0) :: rest
    let firsts := all.map (fun x => match x with
      | .tup (v :: _) => v
      | other => other)
    (.list firsts, a0)
  | other => (other, .dict [])

/-- the inner `_transform` of `transform_nested` -/
def transformNested1 {α : Type} (v : PVal α) : PVal α :=
  match v with
  | .list (.dict d0 :: rest) => .dict (mergeWithList (asDicts (.dict d0 :: rest)))
  | other => other

/-- `transformers.transform_nested` -/
def transformNested {α : Type} (v : PVal α) : PVal α :=
  match transformNested1 v with
  | .dict kvs => .dict (kvs.map (fun kv => (kv.1, transformNested1 kv.2)))
  | other => other

/-! ### groups and variables -/

structure GVar (α : Type) where
  dims : List String
  data : PVal α
  attrs : KVs α
  deriving Repr

/-- `hierarchy.Group` after `as_group`: variables first, then sub-groups (`variables | groups`) -/
inductive Grp (α : Type) where
  | mk (vars : List (String × GVar α)) (groups : List (String × Grp α)) (attrs : KVs α)
  deriving Repr

def dimsOf {α : Type} : PVal α → List String
  | .cstr s => [s]
  | .list xs => xs.filterMap (fun x => match x with
      | .cstr s => some s
      | _ => none)
  | .tup xs => xs.filterMap (fun x => match x with
      | .cstr s => some s
      | _ => none)
  | _ => []

def attrsOf {α : Type} : PVal α → KVs α
  | .dict kvs => kvs
  | _ => []

/-- `transformers.as_variable` -/
def asVariable {α : Type} : PVal α → GVar α
  | .tup [data, attrs] => ⟨[], data, attrsOf attrs⟩
  | .list [data, attrs] => ⟨[], data, attrsOf attrs⟩
  | .tup (dims :: data :: attrs :: _) => ⟨dimsOf dims, data, attrsOf attrs⟩
  | .list (dims :: data :: attrs :: _) => ⟨dimsOf dims, data, attrsOf attrs⟩
  | other => ⟨[], other, []⟩

inductive ItemType where
  | variable | group | attribute
  deriving DecidableEq, Repr

/-- `transformers.item_type` (on the value) -/
def itemType {α : Type} : PVal α → ItemType
  | .tup (.dict _ :: _) => .group
  | .tup _ => .variable
  | .list _ => .variable
  | .dict _ => .group
  | _ => .attribute

def varsOf {α : Type} (kvs : KVs α) : List (String × GVar α) :=
  (kvs.filter (fun kv => itemType kv.2 = .variable)).map (fun kv => (kv.1, asVariable kv.2))

mutual
/-- `transformers.as_group` -/
def asGroup {α : Type} : PVal α → Grp α
  | .tup (.dict kvs :: extra :: _) =>
    .mk (varsOf kvs) (asGroups kvs) (kvUnion (kvs.filter (fun kv => itemType kv.2 = .attribute)) (attrsOf extra))
  | .dict kvs => .mk (varsOf kvs) (asGroups kvs) (kvs.filter (fun kv => itemType kv.2 = .attribute))
  | _ => .mk [] [] []
def asGroups {α : Type} : KVs α → List (String × Grp α)
  | [] => []
  | (k, v) :: rest => if itemType v = .group then (k, asGroup v) :: asGroups rest else asGroups rest
end

/-! ### leaf functions (the only places where a transformer looks at a value read from the file) -/

structure LeafFns (α : Type) where
  toBool : α → α                 -- `bool(v)`
  isoDatetime : α → α            -- `normalize_datetime(v)`
  isEmptyStr : α → Bool          -- `v == ""`
  isMinusOne : α → Bool          -- `v == -1`
  isNan : α → Bool               -- `math.isnan(v)`

def onLeaf {α : Type} (f : α → α) : PVal α → PVal α
  | .leaf a => .leaf (f a)
  | other => other

end Alos2

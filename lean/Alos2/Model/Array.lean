/-
Hand-written executable model of `ceos_alos2/array.py` (the lazy 2-d image array) — tie (H3).

Python                                   Lean
  normalize_chunksize                      normalizeChunksize
  compute_chunk_ranges / _offsets          chunkRanges
  compute_selected_ranges                  selectRows (+ Python slice / negative-int semantics)
  groupby_chunks (toolz.groupby)           groupByChunk (first-occurrence key order)
  merge_chunk_info / relocate_ranges       tasks
  read_chunk / extract_ranges / parse_data readChunk / extractRange / samples
  Array.__getitem__                        getitem   (data *and* the I/O trace)
-/
import Alos2.Base.Bytes

namespace Alos2

/-- `normalize_chunksize` for a positive integer `records_per_chunk`. -/
def normalizeChunksize (rpc n : Nat) : Nat := if rpc > n then n else rpc

/-! ### Python indexing semantics -/

/-- One basic indexer as xarray hands it to a `BASIC` backend. -/
inductive Idx where
  | int (i : Int)
  | slice (start stop step : Option Int)
  deriving Repr, DecidableEq

/-- CPython `PySlice_AdjustIndices` for one bound. `neg` = (step < 0). -/
def adjustBound (n : Int) (neg : Bool) (v : Int) : Int :=
  if v < 0 then
    (if v + n < 0 then (if neg then -1 else 0) else v + n)
  else if v ≥ n then (if neg then n - 1 else n)
  else v

/-- the elements of `range(start, stop, step)` -/
def rangeList (start stop step : Int) : List Int :=
  if step > 0 then
    if start < stop then (List.range (((stop - start - 1) / step + 1).toNat)).map (fun (i : Nat) => start + (i : Int) * step)
    else []
  else if step < 0 then
    if stop < start then (List.range (((start - stop - 1) / (-step) + 1).toNat)).map (fun (i : Nat) => start + (i : Int) * step)
    else []
  else []

/-- `list(range(n)[slice(start, stop, step)])`; `ValueError` for a zero step. -/
def sliceIndices (n : Nat) (start stop step : Option Int) : Except Err (List Nat) :=
  let st := step.getD 1
  if st = 0 then .error .value else
  let neg := decide (st < 0)
  let s := match start with
    | none => if neg then (n : Int) - 1 else 0
    | some v => adjustBound n neg v
  let e := match stop with
    | none => if neg then -1 else (n : Int)
    | some v => adjustBound n neg v
  .ok ((rangeList s e st).map Int.toNat)

/-- the list of selected positions along an axis of length `n`;
    the `Bool` says whether the axis is dropped (integer indexer). -/
def selectAxis (n : Nat) : Idx → Except Err (List Nat × Bool)
  | .int i =>
      if 0 ≤ i ∧ i < n then .ok ([i.toNat], true)
      else if i < 0 ∧ -(n : Int) ≤ i then .ok ([(i + n).toNat], true)
      else .error .index
  | .slice a b c => (sliceIndices n a b c).map (fun l => (l, false))

/-! ### chunk bookkeeping -/

abbrev Range := Nat × Nat

def minList : List Nat → Nat
  | [] => 0
  | x :: xs => xs.foldl min x

def maxList : List Nat → Nat
  | [] => 0
  | x :: xs => xs.foldl max x

/-- `compute_chunk_ranges`: per chunk `(min start, max stop)`. -/
def chunkRanges (ranges : List Range) (rpc : Nat) : List Range :=
  (chunksOf rpc ranges).map (fun rs => (minList (rs.map Prod.fst), maxList (rs.map Prod.snd)))

/-- keep the first occurrence of every key -/
def dedupKeys : List Nat → List Nat
  | [] => []
  | k :: ks => k :: (dedupKeys ks).filter (· ≠ k)

/-- `toolz.groupby(lambda it: it[0] // chunksize, selected)` as an insertion-ordered dict -/
def groupByChunk (rpc : Nat) (sel : List (Nat × Range)) : List (Nat × List Range) :=
  (dedupKeys (sel.map (fun it => it.1 / rpc))).map
    (fun k => (k, (sel.filter (fun it => it.1 / rpc = k)).map Prod.snd))

/-! ### I/O -/

inductive IOEvent where
  | open_ | seek (o : Nat) | read (k : Nat) | close
  deriving Repr, DecidableEq

/-- `f.seek(offset); f.read(size)` on an immutable file (short reads at EOF) -/
def readChunk (file : Bytes) (offset size : Nat) : Bytes := slice file offset (offset + size)

/-- `content[start:stop]` after relocation by the chunk offset (Python: negative → would wrap; the
    offsets are minima of the starts, so relocated bounds are non-negative — stated in the proofs) -/
def extractRange (chunk : Bytes) (offset : Nat) (r : Range) : Bytes := slice chunk (r.1 - offset) (r.2 - offset)

/-- `np.frombuffer(part, dtype)`: split into samples of `bpp` bytes; `ValueError` unless exact. -/
def samples (bpp : Nat) (part : Bytes) : Except Err (List Bytes) :=
  if bpp = 0 then .error .value
  else if part.length % bpp ≠ 0 then .error .value
  else .ok (chunksOf bpp part)

/-- result arrays (samples stay bit patterns) -/
inductive Arr (α : Type) where
  | d2 (ncols : Nat) (rows : List (List α))
  | d1 (xs : List α)
  | d0 (x : α)
  deriving Repr, DecidableEq

structure Image where
  file : Bytes
  ranges : List Range          -- `byte_ranges`, one per line
  ncols : Nat                  -- `shape[1]`
  bpp : Nat                    -- bytes per sample (8 for C*8, 2 for IU2)
  rpc : Nat                    -- `records_per_chunk` after `normalize_chunksize`

/-- numpy basic indexing of the stacked rows with `(row_indexer, col_indexer)`,
    `row_indexer` being `0` (integer row key) or `slice(None)`. -/
def indexColumns {α : Type} [Inhabited α] (rows : List (List α)) (ncols : Nat) (dropRow : Bool) (k1 : Idx) :
    Except Err (Arr α) := do
  let (cols, dropCol) ← selectAxis ncols k1
  let pick (row : List α) : List α := cols.map (fun j => row.getD j default)
  match dropRow, dropCol with
  | false, false => pure (.d2 cols.length (rows.map pick))
  | false, true => pure (.d1 (rows.map (fun r => r.getD (cols.headD 0) default)))
  | true, false => pure (.d1 (pick (rows.headD [])))
  | true, true => pure (.d0 ((rows.headD []).getD (cols.headD 0) default))

/-- `np.stack(rows)`: all rows must have the same length -/
def stackOk {α : Type} (rows : List (List α)) : Bool :=
  match rows with
  | [] => true
  | r :: rs => rs.all (fun x => x.length == r.length)

/-- `Array.__getitem__((k0, k1))`: data and I/O trace. -/
def getitem (img : Image) (k0 k1 : Idx) : Except Err (Arr Bytes) × List IOEvent :=
  match selectAxis img.ranges.length k0 with
  | .error e => (.error e, [])
  | .ok (rowsSel, dropRow) =>
    let sel : List (Nat × Range) := rowsSel.map (fun i => (i, img.ranges.getD i (0, 0)))
    let grouped := groupByChunk img.rpc sel
    let offs := chunkRanges img.ranges img.rpc
    -- tasks: (offset, size, ranges)
    let tasks := grouped.map (fun (c, rs) => let cr := offs.getD c (0, 0); (cr.1, cr.2 - cr.1, rs))
    let trace := [IOEvent.open_] ++ tasks.flatMap (fun (o, s, _) => [IOEvent.seek o, IOEvent.read s]) ++ [IOEvent.close]
    let parts : List Bytes := tasks.flatMap (fun (o, s, rs) => rs.map (extractRange (readChunk img.file o s) o))
    let res : Except Err (Arr Bytes) := do
      let rows ← parts.mapM (samples img.bpp)
      if !stackOk rows then throw .value
      -- an empty selection yields an empty `(0, ncols)` array
      let width := match rows with | [] => img.ncols | r :: _ => r.length
      indexColumns rows width dropRow k1
    (res, trace)

/-! ### the reference: the fully loaded image and NumPy basic indexing on it -/

/-- row `i` of the file: the samples stored in `[start_i, stop_i)` -/
def loadAll (img : Image) : Except Err (List (List Bytes)) :=
  img.ranges.mapM (fun r => samples img.bpp (slice img.file r.1 r.2))

/-- NumPy basic indexing `full[k0, k1]` on an in-memory `n × ncols` array. -/
def npIndex {α : Type} [Inhabited α] (full : List (List α)) (ncols : Nat) (k0 k1 : Idx) : Except Err (Arr α) := do
  let (rowsSel, dropRow) ← selectAxis full.length k0
  let rows := rowsSel.map (fun i => full.getD i [])
  indexColumns rows ncols dropRow k1

end Alos2

/-
Hand-written executable model of `ceos_alos2/sar_image/io.py` (the metadata pass over an image
file) — tie (H3).  The 720-byte descriptor and the line-record prefix are parsed by the layout
interpreter (`Model/Construct.lean`); here only what addresses bytes matters: the declared record
count `n`, the declared record length `L`, the prefix length `P` of the record layout, and the
`record_length` / `record_type` fields of each record preamble.

Python                         Lean
  chunksizes / n_chunks          chunkSizes        (`math.ceil(n / rpc)`: exact below 2^53 — contract)
  chunk_offsets                  chunkOffsets
  parse_chunk                    parseChunk        (size check, record type check, `Tell`/`Seek` walk)
  adjust_offsets                 (inside readMetadata)
  read_metadata                  readMetadata      (sequential short reads; data *and* trace)
-/
import Alos2.Base.Bytes
import Alos2.Model.Array

namespace Alos2

/-- size of the fixed descriptor read at the start of an image file -/
def headerSize : Nat := 720

def chunkSizes (n rpc : Nat) : List Nat :=
  (List.range ((n + rpc - 1) / rpc)).map (fun i => if rpc * (i + 1) ≤ n then rpc else n - rpc * i)

/-- `itertools.accumulate(chunksizes, initial=0)` scaled by the record size, plus the header -/
def chunkOffsets (sizes : List Nat) (L : Nat) : List Nat :=
  let rec go (acc : Nat) : List Nat → List Nat
    | [] => [acc * L + headerSize]
    | s :: ss => (acc * L + headerSize) :: go (acc + s) ss
  go 0 sizes

/-- the record walk inside one chunk: `count` records starting at stream position `pos`;
    each yields `(record_start, data.start, data.stop)`; `data.stop = record_start + record_length`
    is also where the next record starts (`Seek`). -/
def walkRecords (content : Bytes) (P : Nat) : Nat → Nat → Except Err (List (Nat × Nat × Nat))
  | 0, _ => .ok []
  | count + 1, pos =>
    if pos + P > content.length then .error .stream
    else
      let rl := beNat (slice content (pos + 8) (pos + 12))
      match walkRecords content P count (pos + rl) with
      | .error e => .error e
      | .ok rest => .ok ((pos, pos + P, pos + rl) :: rest)

/-- prefix length of the record layout selected by the record type code (`record_types`) -/
structure RecordTypes where
  table : List (Nat × Nat)   -- (record type code, prefix length)

def RecordTypes.prefixLen (t : RecordTypes) (code : Nat) : Option Nat :=
  (t.table.find? (fun p => p.1 = code)).map Prod.snd

/-- `parse_chunk(content, element_size)` -/
def parseChunk (t : RecordTypes) (content : Bytes) (L : Nat) : Except Err (List (Nat × Nat × Nat)) :=
  if L = 0 then .error .other   -- ZeroDivisionError
  else
    let nEl := content.length / L
    if nEl * L ≠ content.length then .error .value
    else if content.length < 12 then .error .stream
    else
      let code := (content.getD 5 0).toNat
      match t.prefixLen code with
      | none => .error .value
      | some P => walkRecords content P nEl 0

/-- `read_metadata(f, records_per_chunk)` after the descriptor has been parsed to `(n, L)`:
    returns the byte ranges (`data.start`, `data.stop`, rebased to file offsets), the record starts,
    and the sizes of the read requests issued (all sequential from offset 720). -/
def readMetadata (t : RecordTypes) (file : Bytes) (n L rpc : Nat) :
    Except Err (List (Nat × Nat × Nat)) × List Nat :=
  let sizes := chunkSizes n rpc
  let offs := chunkOffsets sizes L
  let rec go (pos : Nat) : List Nat → List Nat → Except Err (List (Nat × Nat × Nat)) × List Nat
    | [], _ => (.ok [], [])
    | s :: ss, os =>
      let want := s * L
      let content := slice file pos (pos + want)
      match parseChunk t content L with
      | .error e => (.error e, [want])
      | .ok recs =>
        let off := os.headD 0
        let adj := recs.map (fun (a, b, c) => (a + off, b + off, c + off))
        match go (pos + content.length) ss os.tail with
        | (.error e, tr) => (.error e, want :: tr)
        | (.ok rest, tr) => (.ok (adj ++ rest), want :: tr)
  if rpc = 0 then (.error .other, []) else go headerSize sizes offs

end Alos2

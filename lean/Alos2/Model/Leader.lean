/-
`sar_leader/metadata.py` — hand-written model of `transform_metadata` (which leader records become groups under
`/metadata`, under which names) and of `fix_attitude_time` (the attitude timedeltas become datetimes by adding
1 January of the year of the platform-position first point).

The record pipelines are those of `Model/Transform.lean` / `Model/Transform2.lean`; the literal configuration (ignored
records, which function handles which record, renames, step order) is read from the regenerated `Gen/Config.lean`.
-/
import Alos2.Model.Transform2

namespace Alos2

open Gen.Config

/-- one more leaf function: `reference_date + time.data` of `fix_attitude_time` -/
structure LeafFns3 (α : Type) extends LeafFns2 α where
  fixTime : α → α → α      -- first-point ISO text, timedelta ↦ datetime64[ns]

variable {α : Type}

/-- Python truthiness of the values met at the top level of the leader mapping (`valfilter(bool)`) -/
def truthy : PVal α → Bool
  | .list [] => false
  | .dict [] => false
  | .tup [] => false
  | _ => true

/-- the record transformers by the text of the entry in `transformers` -/
def leaderFn (lf : LeafFns3 α) : String → Option (PVal α → Option (Grp α))
  | "transform_dataset_summary" => some (transformDatasetSummary lf.toLeafFns)
  | "compose_left(first, transform_map_projection)" => some (fun v => match v with
      | .list (x :: _) => transformMapProjection lf.toLeafFns2 x
      | _ => none)
  | "transform_platform_position" => some (transformPlatformPosition lf.toLeafFns2)
  | "transform_attitude" => some (transformAttitude lf.toLeafFns2)
  | "transform_radiometric_data" => some transformRadiometricData
  | "transform_data_quality_summary" => some transformDataQualitySummary
  | "transform_record5" => some (transformRecord5 lf.toLeafFns)
  | _ => none

def grpAttrs : Grp α → KVs α
  | .mk _ _ a => a

def grpVars : Grp α → List (String × GVar α)
  | .mk v _ _ => v

def grpGroups : Grp α → List (String × Grp α)
  | .mk _ g _ => g

/-- `fix_attitude_time` on the dict of record groups (`none` = KeyError) -/
def fixAttitudeTime (lf : LeafFns3 α) (groups : List (String × Grp α)) : Option (List (String × Grp α)) :=
  match groups.find? (fun g => g.1 = "platform_position"), groups.find? (fun g => g.1 = "attitude") with
  | some pp, some att =>
    match kvGet (grpAttrs pp.2) "datetime_of_first_point" with
    | some (.leaf first) => do
      let subs ← (grpGroups att.2).mapM (fun sg =>
        match (grpVars sg.2).find? (fun kv => kv.1 = "time") with
        | none => none
        | some _ => some (sg.1, Grp.mk
            ((grpVars sg.2).map (fun kv => if kv.1 = "time" then
                (kv.1, { kv.2 with data := match kv.2.data with
                  | .list xs => .list (xs.map (onLeaf (lf.fixTime first)))
                  | o => onLeaf (lf.fixTime first) o })
              else kv))
            (grpGroups sg.2) (grpAttrs sg.2)))
      pure (groups.map (fun g => if g.1 = "attitude" then (g.1, Grp.mk (grpVars att.2) subs (grpAttrs att.2)) else g))
    | _ => none
  | _, _ => some groups

def expectedLeaderSteps : List String :=
  ["curry(dissoc, ignored)", "curry(valfilter, bool)", "curry(apply_to_items, transformers)",
   "curry(rename, translations=translations)", "compose_left(*postprocessors)"]

/-- `transform_metadata`: the `/metadata` group -/
def transformLeaderMetadata (lf : LeafFns3 α) (v : PVal α) : Option (Grp α) :=
  match v with
  | .dict kvs => do
    let fs ← sar_leader__transform_metadata.transformers.mapM (fun kv => (leaderFn lf kv.2).map (fun f => (kv.1, f)))
    let kept := (dissoc sar_leader__transform_metadata.ignored kvs).filter (fun kv => truthy kv.2)
    let groups ← kept.mapM (fun kv => match fs.find? (fun f => f.1 = kv.1) with
      | some f => (f.2 kv.2).map (fun g => (kv.1, g))
      | none => none)   -- a record without a transformer would stay a plain dict inside a Group: not interpreted
    let tr := sar_leader__transform_metadata.translations
    let renamed := groups.map (fun g => (((tr.find? (fun t => t.1 = g.1)).map Prod.snd).getD g.1, g.2))
    let fixed ← fixAttitudeTime lf renamed
    pure (.mk [] fixed [])
  | _ => none

/-! ### the leaf function on real leaves -/

def fixTimeMarker : String := "!fixtime:"

/-- `np.array(f"{first[:4]}-01-01", "datetime64[ns]") + timedelta`: the year is that of the first-point ISO text, i.e. of
    date + seconds of day (a leap-second stamp on 31 December carries into the next year) — `strptime` / `timedelta` are
    contracts, so the leaf keeps both operands and the harness evaluates it with CPython's own datetime arithmetic -/
def realLeafFns3 : LeafFns3 Leaf where
  toLeafFns2 := realLeafFns2
  fixTime := fun first td => match first, td with
    | .str s, .int ns => .str (fixTimeMarker ++ s ++ "#" ++ toString ns)
    | _, _ => .str (invalidMarker ++ "fix_attitude_time")

end Alos2

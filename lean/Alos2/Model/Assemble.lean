/-
Tree assembly — hand-written model of `io.open` (root children, `/imagery` as a dict keyed by group name) and of
`xarray.to_datatree` / `Group.subtree` (node paths in pre-order) — tie (H5).
-/
import Alos2.Model.Summary

namespace Alos2

/-- `{group.name: group for group in imagery_groups}`: a later image with the same group name REPLACES the earlier one -/
def imageryChildren (files : List String) : Except Err (List (String × String)) := do
  let named ← files.mapM (fun f => (groupName f).map (fun g => (g, f)))
  pure (named.foldl (fun acc kv => assocSet acc kv.1 kv.2) [])

/-- the children of the root, in order -/
def rootChildren : List String := ["summary", "metadata", "imagery"]

/-- file roles from the product-information section of a parsed summary (`categorize_filenames`, repaired code) -/
def fileRoles (entries : Section) : Except Err (String × String × List String × String) :=
  let names := ((entries.filter (fun kv => containsSub kv.1 "ProductFileName" && !kv.1.startsWith "Cnt")).mergeSort (fun a b => a.1 ≤ b.1)).map Prod.snd
  match names with
  | vol :: led :: rest =>
    match rest.reverse with
    | trl :: imgsRev => .ok (vol, led, imgsRev.reverse, trl)
    | [] => .error .value
  | _ => .error .value

end Alos2

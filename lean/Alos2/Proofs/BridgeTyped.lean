/-
C12 for the image groups, through the bridge: every member of a bridged image group is a variable whose data is either the lazy
pixel array (only `data`) or a one-dimensional, non-empty NumPy array of a REAL dtype — `int64`, `float64`, `bool`,
`datetime64[ns]` or a fixed-width text dtype `<U…` — whose declared shape is its number of elements: no object arrays, no
`(value, attrs)` pairs, no dicts.
-/
import Alos2.Proofs.BridgeTotal

namespace Alos2

def realDtype (dt : String) : Bool :=
  dt = "int64" || dt = "float64" || dt = "bool" || dt = "datetime64[ns]" || dt.startsWith "<U"

namespace BridgeTy
open BridgeP

theorem realDtype_U (s : String) : realDtype ("<U" ++ s) = true := by
  have h3 : ("<U" ++ s).startsWith "<U" = true := by
    rw [startsWith_iff, String.toList_append]
    exact List.prefix_append _ _
  unfold realDtype
  simp [h3]

theorem columnArray_pos (fr : FloatRepr) (col : PVal Leaf) (a : NdArray) (h : columnArray fr col = some a) :
    0 < a.flat.length := by
  unfold columnArray at h
  split at h
  · rw [obind_some] at h
    obtain ⟨ls, hls, h⟩ := h
    cases ls with
    | nil => simp at h
    | cons l0 rest =>
      simp only [obind_some] at h
      obtain ⟨k, hk, h⟩ := h
      split at h
      · simp at h
      · split at h
        · split at h
          · simp only [Option.some.injEq] at h
            subst h
            simp
          · simp at h
        · simp only [obind_some, Option.pure_def, Option.some.injEq] at h
          obtain ⟨vs, hvs, rfl⟩ := h
          obtain ⟨hl, _⟩ := mapM_opt _ _ _ hvs
          show 0 < vs.length
          rw [hl]; simp
        · simp only [Option.some.injEq] at h
          subst h
          simp
        · simp only [Option.some.injEq] at h
          subst h
          simp
        · split at h
          · simp only [Option.some.injEq] at h
            subst h
            simp
          · simp at h
  · simp at h

theorem members_mem_key (root name : String) (a : ArrayMeta) (vs : List (String × CNode)) (m : String × CNode)
    (h : m ∈ members root name a vs) : m ∈ vs ∨ (m.1 = "data" ∧ m.2 = .var (dataVarC root name a)) := by
  unfold members at h
  split at h
  · simp only [List.mem_map] at h
    obtain ⟨kv, hkv, rfl⟩ := h
    split
    next hk => exact Or.inr ⟨hk, rfl⟩
    · exact Or.inl hkv
  · rcases List.mem_append.1 h with h | h
    · exact Or.inl h
    · simp at h; subst h; exact Or.inr ⟨rfl, rfl⟩

end BridgeTy

theorem bridged_members_typed (fr : FloatRepr) (root name gname : String) (g : ImageGroup)
    (path : String) (url : PyVal) (members : List (String × CNode)) (attrs : List (String × PyVal))
    (h : bridge fr root name gname g = some (.mk path url members attrs)) :
    ∀ k n, (k, n) ∈ members → ∃ v, n = .var v ∧
      ((k = "data" ∧ ∃ b, v.data = .backend b) ∨
       (∃ a, v.data = .nd a ∧ a.shape = [a.flat.length] ∧ 0 < a.flat.length ∧ realDtype a.dtype = true)) := by
  obtain ⟨vars, attrs0, vs, ats, _, hv, _, hcg⟩ := BridgeP.bridge_inv fr root name gname g _ h
  injection hcg with _ _ hm _
  subst hm
  intro k n hkn
  rcases BridgeTy.members_mem_key root name g.array vs (k, n) hkn with hmem | ⟨hk, hn⟩
  · obtain ⟨kv, _, c, he, hc⟩ := (BridgeP.varsC_mem fr vars vs hv).2 (k, n) hmem
    obtain ⟨a, attrs1, ha, _, rfl⟩ := BridgeP.gvarC_inv fr kv.2 c hc
    have hn : n = CNode.var _ := congrArg Prod.snd he
    refine ⟨_, hn, Or.inr ⟨a, rfl, ?_, BridgeTy.columnArray_pos fr _ a ha, ?_⟩⟩
    · exact (BridgeP.columnArray_inv fr _ a ha).shape
    · rcases (BridgeP.columnArray_inv fr _ a ha).kind with hd | hd | ⟨s, hd⟩ | hd | ⟨hd, _⟩
      · rw [hd]; decide
      · rw [hd]; decide
      · rw [hd]; exact BridgeTy.realDtype_U s
      · rw [hd]; decide
      · rw [hd]; decide
  · exact ⟨_, hn, Or.inl ⟨hk, _, rfl⟩⟩

end Alos2


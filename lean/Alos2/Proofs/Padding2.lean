/-
Padding inertness (C20) for the records whose layout depends on counts declared in the file, and for the volume directory:
the group built from the record depends only on the bytes of its live areas — the declared count and the entries actually
present — whatever the trailing blanks (of whatever declared length), the unused table slots, the preamble or, in the volume
directory, the file-pointer records contain.
-/
import Alos2.Proofs.Provenance3
import Alos2.Proofs.Typing2

namespace Alos2

namespace Padding2
open Layout

theorem parse_eq_of_window (c : Con) (k : Nat) (hs : Con.sizeWith false c = some k) (hn : c.noCtx = true)
    {ctx ctx' : Ctx} {bs bs' : Bytes} {pos : Nat} {v v' : Val} {e e' : Nat}
    (hw : slice bs pos (pos + k) = slice bs' pos (pos + k))
    (h : parse c ctx bs pos = .ok (v, e)) (h' : parse c ctx' bs' pos = .ok (v', e')) : v = v' :=
  Fields.leafEq_joint.1 c ctx bs pos ctx' bs' k v v' e e' hs hn hw h h'

/-- an array with a literal count of static, context-free elements depends only on the bytes of its window -/
theorem array_eq_of_window (elem : Con) (a : Nat) (hs : Con.sizeWith false elem = some a) (hn : elem.noCtx = true)
    (n : Nat) {ctx ctx' : Ctx} {bs bs' : Bytes} {pos : Nat} {v v' : Val} {e e' : Nat}
    (hw : slice bs pos (pos + n * a) = slice bs' pos (pos + n * a))
    (h : parse (.array (.const n) elem) ctx bs pos = .ok (v, e))
    (h' : parse (.array (.const n) elem) ctx' bs' pos = .ok (v', e')) : v = v' := by
  refine parse_eq_of_window (.array (.const n) elem) (n * a) ?_ ?_ hw h h'
  · simp [Con.sizeWith, hs]
  · simpa [Con.noCtx] using hn

theorem transformAttitude_congr {α : Type} (lf : LeafFns2 α) (kvs kvs' : KVs α)
    (h : kvGet kvs "data_points" = kvGet kvs' "data_points") :
    transformAttitude lf (.dict kvs) = transformAttitude lf (.dict kvs') := by
  unfold transformAttitude
  simp only [h]


theorem keepKey_blanks : keepKey "blanks" = false := by decide
theorem keepKey_names :
    keepKey "preamble" = true ∧ keepKey "record_number" = true ∧ keepKey "sar_channel_id" = true ∧
    keepKey "date_of_the_last_calibration_update" = true ∧ keepKey "number_of_channels" = true ∧
    keepKey "absolute_radiometric_data_quality" = true ∧ keepKey "relative_radiometric_quality" = true ∧
    keepKey "absolute_geometric_quality" = true ∧ keepKey "relative_geometric_quality" = true ∧
    keepKey "nominal_relative_radiometric_calibration_uncertainty" = true ∧
    keepKey "relative_misregistration_error" = true := by decide

theorem dqs_congr {α : Type} (P P' r s d c q A B B' G C D D' : PVal α) :
    transformDataQualitySummary (.dict [("preamble", P), ("record_number", r), ("sar_channel_id", s),
      ("date_of_the_last_calibration_update", d), ("number_of_channels", c),
      ("absolute_radiometric_data_quality", q),
      ("relative_radiometric_quality", .dict [("nominal_relative_radiometric_calibration_uncertainty", A), ("blanks", B)]),
      ("absolute_geometric_quality", G),
      ("relative_geometric_quality", .dict [("relative_misregistration_error", C), ("blanks", D)])]) =
    transformDataQualitySummary (.dict [("preamble", P'), ("record_number", r), ("sar_channel_id", s),
      ("date_of_the_last_calibration_update", d), ("number_of_channels", c),
      ("absolute_radiometric_data_quality", q),
      ("relative_radiometric_quality", .dict [("nominal_relative_radiometric_calibration_uncertainty", A), ("blanks", B')]),
      ("absolute_geometric_quality", G),
      ("relative_geometric_quality", .dict [("relative_misregistration_error", C), ("blanks", D')])]) := by
  obtain ⟨k1, k2, k3, k4, k5, k6, k7, k8, k9, k10, k11⟩ := keepKey_names
  unfold transformDataQualitySummary
  simp only [removeSpares, removeSparesKvs, keepKey_blanks, k1, k2, k3, k4, k5, k6, k7, k8, k9, k10, k11, if_true,
    Bool.false_eq_true, if_false, dissoc, Gen.Config.data_quality_summary__transform_data_quality_summary.ignored]
  simp [List.filter]

end Padding2

open Layout Padding2

/-- attitude record: only the count field and the n points matter (bytes [pos+12, pos+16+120·n)) -/
theorem attitude_padding_inert (ctx ctx' : Ctx) (bs bs' : Bytes) (pos : Nat) (v v' : Val) (e e' : Nat) (n : Nat)
    (h : parse Gen.attitudeRecord ctx bs pos = .ok (v, e)) (h' : parse Gen.attitudeRecord ctx' bs' pos = .ok (v', e'))
    (hn : v.getPath ["number_of_points"] = some (.leaf (.int n)))
    (hw : slice bs (pos + 12) (pos + 16 + 120 * n) = slice bs' (pos + 12) (pos + 16 + 120 * n)) :
    transformAttitude realLeafFns2 v.toPVal = transformAttitude realLeafFns2 v'.toPVal := by
  unfold Gen.attitudeRecord at h h'
  rw [parse] at h h'
  layout_step h with vp p1 h1
  layout_step h with vn p2 h2
  layout_step h with va p3 h3
  layout_step h with vb p4 h4
  layout_step h' with vp' p1' h1'
  layout_step h' with vn' p2' h2'
  layout_step h' with va' p3' h3'
  layout_step h' with vb' p4' h4'
  rw [parseFields] at h h'
  obtain ⟨rfl, _⟩ := static_joint.1 _ _ _ _ 12 _ _ (by decide) h1
  obtain ⟨rfl, _⟩ := static_joint.1 _ _ _ _ 12 _ _ (by decide) h1'
  have en : vn = vn' := parse_eq_of_window _ 4 (by decide) (by decide)
    (slice_sub hw (by omega) (by omega)) h2 h2'
  subst en
  obtain ⟨rfl, _⟩ := static_joint.1 _ _ _ _ 4 _ _ (by decide) h2
  obtain ⟨rfl, _⟩ := static_joint.1 _ _ _ _ 4 _ _ (by decide) h2'
  obtain ⟨w, m, _, _, rfl⟩ := parse_aint_inv h2
  obtain ⟨n1, hn1, h3c⟩ := Prov3.parse_array_const h3
  obtain ⟨n2, hn2, h3c'⟩ := Prov3.parse_array_const h3'
  simp [Expr.eval, resolve, lookupField_setField, Val.toInt?] at hn1 hn2
  simp [setField] at h h'
  obtain ⟨hv, _⟩ := h
  obtain ⟨hv', _⟩ := h'
  subst hv; subst hv'
  rw [getPath_cons (w := .leaf (.int m)) _ (by simp [Val.get?])] at hn
  simp [Val.getPath] at hn
  clear h1 h1' h2 h2' h4 h4' h3 h3'
  have e1 : n1 = n := by omega
  have e2 : n2 = n := by omega
  subst n1; subst n2
  have ea : va = va' := by
    refine array_eq_of_window _ 120 (by decide) (by decide) n ?_ h3c h3c'
    exact slice_sub hw (by omega) (by omega)
  subst ea
  simp only [Val.toPVal, Val.toPVal.toPKvs]
  apply transformAttitude_congr
  simp [kvGet]

/-- data-quality summary: the fixed fields and the first n entries of the two tables matter
    (bytes [pos+12, pos+222+32·n) and [pos+734, pos+830+32·n)); the unused slots and the trailing blanks do not -/
theorem data_quality_padding_inert (ctx ctx' : Ctx) (bs bs' : Bytes) (pos : Nat) (v v' : Val) (e e' : Nat) (n : Nat)
    (h : parse Gen.dataQualitySummaryRecord ctx bs pos = .ok (v, e)) (h' : parse Gen.dataQualitySummaryRecord ctx' bs' pos = .ok (v', e'))
    (hn : v.getPath ["number_of_channels"] = some (.leaf (.int n)))
    (hw1 : slice bs (pos + 12) (pos + 222 + 32 * n) = slice bs' (pos + 12) (pos + 222 + 32 * n))
    (hw2 : slice bs (pos + 734) (pos + 830 + 32 * n) = slice bs' (pos + 734) (pos + 830 + 32 * n)) :
    transformDataQualitySummary v.toPVal = transformDataQualitySummary v'.toPVal := by
  unfold Gen.dataQualitySummaryRecord at h h'
  rw [parse] at h h'
  layout_step h with v1 p1 h1
  layout_step h with v2 p2 h2
  layout_step h with v3 p3 h3
  layout_step h with v4 p4 h4
  layout_step h with v5 p5 h5
  layout_step h with v6 p6 h6
  layout_step h with v7 p7 h7
  layout_step h with v8 p8 h8
  layout_step h with v9 p9 h9
  layout_step h' with v1' p1' h1'
  layout_step h' with v2' p2' h2'
  layout_step h' with v3' p3' h3'
  layout_step h' with v4' p4' h4'
  layout_step h' with v5' p5' h5'
  layout_step h' with v6' p6' h6'
  layout_step h' with v7' p7' h7'
  layout_step h' with v8' p8' h8'
  layout_step h' with v9' p9' h9'
  rw [parseFields] at h h'
  obtain ⟨rfl, _⟩ := static_joint.1 _ _ _ _ 12 _ _ (by decide) h1
  obtain ⟨rfl, _⟩ := static_joint.1 _ _ _ _ 12 _ _ (by decide) h1'
  have e2 : v2 = v2' := parse_eq_of_window _ 4 (by decide) (by decide) (slice_sub hw1 (by omega) (by omega)) h2 h2'
  subst e2
  obtain ⟨rfl, _⟩ := static_joint.1 _ _ _ _ 4 _ _ (by decide) h2
  obtain ⟨rfl, _⟩ := static_joint.1 _ _ _ _ 4 _ _ (by decide) h2'
  have e3 : v3 = v3' := parse_eq_of_window _ 4 (by decide) (by decide) (slice_sub hw1 (by omega) (by omega)) h3 h3'
  subst e3
  obtain ⟨rfl, _⟩ := static_joint.1 _ _ _ _ 4 _ _ (by decide) h3
  obtain ⟨rfl, _⟩ := static_joint.1 _ _ _ _ 4 _ _ (by decide) h3'
  have e4 : v4 = v4' := parse_eq_of_window _ 6 (by decide) (by decide) (slice_sub hw1 (by omega) (by omega)) h4 h4'
  subst e4
  obtain ⟨rfl, _⟩ := static_joint.1 _ _ _ _ 6 _ _ (by decide) h4
  obtain ⟨rfl, _⟩ := static_joint.1 _ _ _ _ 6 _ _ (by decide) h4'
  have e5 : v5 = v5' := parse_eq_of_window _ 4 (by decide) (by decide) (slice_sub hw1 (by omega) (by omega)) h5 h5'
  subst e5
  obtain ⟨rfl, _⟩ := static_joint.1 _ _ _ _ 4 _ _ (by decide) h5
  obtain ⟨rfl, _⟩ := static_joint.1 _ _ _ _ 4 _ _ (by decide) h5'
  obtain ⟨w, m, _, _, rfl⟩ := parse_aint_inv h5
  have e6 : v6 = v6' := parse_eq_of_window _ 192 (by decide) (by decide) (slice_sub hw1 (by omega) (by omega)) h6 h6'
  subst e6
  obtain ⟨rfl, _⟩ := static_joint.1 _ _ _ _ 192 _ _ (by decide) h6
  obtain ⟨rfl, _⟩ := static_joint.1 _ _ _ _ 192 _ _ (by decide) h6'
  clear h1 h1' h2 h2' h3 h3' h4 h4' h5 h5' h6 h6'
  rw [parse] at h7 h7' h9 h9'
  layout_step h7 with va q1 h71
  layout_step h7 with vb q2 h72
  rw [parseFields] at h7
  layout_step h7' with va' q1' h71'
  layout_step h7' with vb' q2' h72'
  rw [parseFields] at h7'
  layout_step h9 with vc q3 h91
  layout_step h9 with vd q4 h92
  rw [parseFields] at h9
  layout_step h9' with vc' q3' h91'
  layout_step h9' with vd' q4' h92'
  rw [parseFields] at h9'
  obtain ⟨n1, hn1, h71c⟩ := Prov3.parse_array_const h71
  obtain ⟨n1', hn1', h71c'⟩ := Prov3.parse_array_const h71'
  obtain ⟨na, hna, rfl⟩ := parse_array_inv h71 32 (by decide)
  obtain ⟨na', hna', rfl⟩ := parse_array_inv h71' 32 (by decide)
  obtain ⟨b1, hb1, rfl⟩ := parse_pstr_inv h72
  obtain ⟨b1', hb1', rfl⟩ := parse_pstr_inv h72'
  obtain ⟨n2, hn2, h91c⟩ := Prov3.parse_array_const h91
  obtain ⟨n2', hn2', h91c'⟩ := Prov3.parse_array_const h91'
  simp [Expr.eval, resolve, lookupField_setField, Val.toInt?] at hn1 hn1' hb1 hb1' hna hna' hn2 hn2'
  simp [setField] at h7 h7' h9 h9' h h'
  obtain ⟨hv7, hp7⟩ := h7
  obtain ⟨hv7', hp7'⟩ := h7'
  obtain ⟨hv9, _⟩ := h9
  obtain ⟨hv9', _⟩ := h9'
  obtain ⟨hv, _⟩ := h
  obtain ⟨hv', _⟩ := h'
  subst hv; subst hv'
  rw [getPath_cons (w := .leaf (.int m)) _ (by simp [Val.get?])] at hn
  simp [Val.getPath] at hn
  clear h71 h71' h72 h72' h91 h91' h92 h92'
  have : n1 = n := by omega
  subst this
  have : n1' = n1 := by omega
  subst this
  have : na = n1' := by omega
  subst this
  have : na' = na := by omega
  subst this
  have : n2 = na' := by omega
  subst this
  have : n2' = n2 := by omega
  subst this
  subst hp7; subst hp7'
  have ea : va = va' := array_eq_of_window _ 32 (by decide) (by decide) _ (slice_sub hw1 (by omega) (by omega)) h71c h71c'
  subst ea
  have hp : pos + 12 + 4 + 4 + 6 + 4 + 192 + n2' * 32 + b1 = pos + 734 := by omega
  have hp' : pos + 12 + 4 + 4 + 6 + 4 + 192 + n2' * 32 + b1' = pos + 734 := by omega
  rw [hp] at h8
  rw [hp'] at h8'
  have e8 : v8 = v8' := parse_eq_of_window _ 96 (by decide) (by decide) (slice_sub hw2 (by omega) (by omega)) h8 h8'
  subst e8
  obtain ⟨rfl, _⟩ := static_joint.1 _ _ _ _ 96 _ _ (by decide) h8
  obtain ⟨rfl, _⟩ := static_joint.1 _ _ _ _ 96 _ _ (by decide) h8'
  have ec : vc = vc' := array_eq_of_window _ 32 (by decide) (by decide) _ (slice_sub hw2 (by omega) (by omega)) h91c h91c'
  subst ec
  subst hv7; subst hv7'; subst hv9; subst hv9'
  simp only [Val.toPVal, Val.toPVal.toPKvs]
  apply dqs_congr

/-- volume directory: the root attributes depend only on the volume descriptor (first 360 bytes) and the text record (the
    last 360 bytes); the k file-pointer records in between are inert -/
theorem volume_directory_padding_inert (ctx ctx' : Ctx) (bs bs' : Bytes) (pos : Nat) (v v' : Val) (e e' : Nat) (k : Nat)
    (h : parse Gen.volumeDirectoryRecord ctx bs pos = .ok (v, e)) (h' : parse Gen.volumeDirectoryRecord ctx' bs' pos = .ok (v', e'))
    (hk : v.getPath ["volume_descriptor", "number_of_file_pointer_records"] = some (.leaf (.int k)))
    (hw1 : slice bs pos (pos + 360) = slice bs' pos (pos + 360))
    (hw2 : slice bs (pos + 360 * (k + 1)) (pos + 360 * (k + 2)) = slice bs' (pos + 360 * (k + 1)) (pos + 360 * (k + 2))) :
    transformVolumeRecord realLeafFns v.toPVal = transformVolumeRecord realLeafFns v'.toPVal := by
  unfold Gen.volumeDirectoryRecord at h h'
  rw [parse] at h h'
  layout_step h with v1 p1 h1
  layout_step h with v2 p2 h2
  layout_step h with v3 p3 h3
  layout_step h' with v1' p1' h1'
  layout_step h' with v2' p2' h2'
  layout_step h' with v3' p3' h3'
  rw [parseFields] at h h'
  have e1 : v1 = v1' := parse_eq_of_window _ 360 (by decide) (by decide) hw1 h1 h1'
  subst e1
  obtain ⟨kk, hkk⟩ := struct_get_aint h1 "number_of_file_pointer_records" _ rfl
  obtain ⟨rfl, _⟩ := static_joint.1 _ _ _ _ 360 _ _ (by decide) h1
  obtain ⟨rfl, _⟩ := static_joint.1 _ _ _ _ 360 _ _ (by decide) h1'
  obtain ⟨n, hn, rfl⟩ := parse_array_inv h2 360 (by decide)
  obtain ⟨n', hn', rfl⟩ := parse_array_inv h2' 360 (by decide)
  simp [Expr.eval, resolve, lookupField_setField, hkk, Val.toInt?] at hn hn'
  simp [setField] at h h'
  obtain ⟨hv, _⟩ := h
  obtain ⟨hv', _⟩ := h'
  subst hv; subst hv'
  rw [getPath_cons (w := v1) _ (by simp [Val.get?]), getPath_cons _ hkk] at hk
  simp [Val.getPath] at hk
  clear h1 h1'
  have en : n = k := by omega
  have en' : n' = k := by omega
  subst n; subst n'
  have e3 : v3 = v3' := by
    refine parse_eq_of_window _ 360 (by decide) (by decide) ?_ h3 h3'
    exact slice_sub hw2 (by omega) (by omega)
  subst e3
  simp only [Val.toPVal, Val.toPVal.toPKvs]
  rw [Prov.transformVolumeRecord_drop, Prov.transformVolumeRecord_drop]

end Alos2

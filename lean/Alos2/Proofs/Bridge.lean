/-
The image groups the READER produces are inside the domain of the CACHE CODEC — the tie between the two halves of the model
(C07 / C08 / C10): `Proofs/Flow.lean` proves cache transparency for an abstract environment `E` under the assumptions `EnvOK E`
(`stable`, `domain`, `wf` about the uncached groups `E.U r`); here these assumptions are DISCHARGED for the groups that
`open_image` (the layout-based reader of `Model/Product.lean`) builds from an image file, seen through `bridge`.
-/
import Alos2.Model.Bridge
import Alos2.Proofs.Flow
import Alos2.Proofs.ImageOpen
import Alos2.Proofs.RpcIndep
import Alos2.Proofs.Codec
import Alos2.Proofs.Typing

namespace Alos2

/-- every instant of the group's variables is at or after the epoch (the codec writes the first one as a calendar text) -/
def leafDateOK : PVal Leaf → Bool
  | .leaf (.datetime ns) => decide (0 ≤ ns)
  | .list xs => leafDateOK.list xs
  | _ => true
where
  list : List (PVal Leaf) → Bool
    | [] => true
    | x :: xs => leafDateOK x && list xs

def DatesOK (g : ImageGroup) : Bool :=
  match g.group with
  | .mk vars _ _ => vars.all (fun kv => leafDateOK kv.2.data)

namespace BridgeP


/-! ### Option plumbing -/

theorem obind_some {α β : Type} {x : Option α} {f : α → Option β} {b : β} :
    (x >>= f) = some b ↔ ∃ a, x = some a ∧ f a = some b := by
  cases x <;> simp

theorem mapM_opt {A B : Type} (f : A → Option B) : ∀ (l : List A) (r : List B), l.mapM f = some r →
    r.length = l.length ∧ ∀ y ∈ r, ∃ x ∈ l, f x = some y := by
  intro l
  induction l with
  | nil => intro r h; simp at h; subst h; simp
  | cons a l ih =>
    intro r h
    rw [List.mapM_cons] at h
    simp only [obind_some, Option.pure_def, Option.some.injEq] at h
    obtain ⟨b, hb, r', hr', rfl⟩ := h
    obtain ⟨hl, hm⟩ := ih r' hr'
    refine ⟨by simp [hl], ?_⟩
    intro y hy
    rcases List.mem_cons.1 hy with rfl | hy
    · exact ⟨a, by simp, hb⟩
    · obtain ⟨x, hx, hfx⟩ := hm y hy
      exact ⟨x, by simp [hx], hfx⟩

/-! ### the data member -/

def dataVarC (root name : String) (a : ArrayMeta) : CVar :=
  { dims := .list [.str "rows", .str "columns"], data := .backend (backendC root name a), attrs := [] }

def members (root name : String) (a : ArrayMeta) (vs : List (String × CNode)) : List (String × CNode) :=
  if vs.any (fun kv => kv.1 = "data") then vs.map (fun kv => if kv.1 = "data" then (kv.1, CNode.var (dataVarC root name a)) else kv)
  else vs ++ [("data", .var (dataVarC root name a))]

theorem bridge_eq (fr : FloatRepr) (root name gname : String) (g : ImageGroup) (vars : List (String × GVar Leaf))
    (attrs : KVs Leaf) (hg : g.group = .mk vars [] attrs) :
    bridge fr root name gname g =
      (varsC fr vars).bind (fun vs => (pvalPy.kvs fr attrs).bind (fun ats =>
        some (.mk gname .none (members root name g.array vs) ats))) := by
  unfold bridge
  rw [hg]
  rfl

theorem bridge_inv (fr : FloatRepr) (root name gname : String) (g : ImageGroup) (cg : CGroup)
    (h : bridge fr root name gname g = some cg) :
    ∃ vars attrs vs ats, g.group = .mk vars [] attrs ∧ varsC fr vars = some vs ∧ pvalPy.kvs fr attrs = some ats ∧
      cg = .mk gname .none (members root name g.array vs) ats := by
  cases hg : g.group with
  | mk vars groups attrs =>
    cases groups with
    | nil =>
      rw [bridge_eq fr root name gname g vars attrs hg] at h
      cases hv : varsC fr vars with
      | none => rw [hv] at h; simp at h
      | some vs =>
        cases ha : pvalPy.kvs fr attrs with
        | none => rw [hv, ha] at h; simp at h
        | some ats =>
          rw [hv, ha] at h
          simp only [Option.bind_some, Option.some.injEq] at h
          exact ⟨vars, attrs, vs, ats, rfl, hv, ha, h.symm⟩
    | cons x xs =>
      unfold bridge at h
      rw [hg] at h
      simp at h

/-! ### members coming from `varsC` -/

theorem varsC_mem (fr : FloatRepr) : ∀ (vars : List (String × GVar Leaf)) (vs : List (String × CNode)),
    varsC fr vars = some vs →
    vs.map Prod.fst = vars.map Prod.fst ∧
    ∀ m ∈ vs, ∃ kv ∈ vars, ∃ c, m = (kv.1, CNode.var c) ∧ gvarC fr kv.2 = some c := by
  intro vars
  induction vars with
  | nil => intro vs h; simp [varsC] at h; subst h; simp
  | cons kv rest ih =>
    intro vs h
    obtain ⟨k, v⟩ := kv
    rw [varsC] at h
    simp only [obind_some, Option.pure_def, Option.some.injEq] at h
    obtain ⟨c, hc, r, hr, rfl⟩ := h
    obtain ⟨h1, h2⟩ := ih r hr
    refine ⟨by simp [h1], ?_⟩
    intro m hm
    rcases List.mem_cons.1 hm with rfl | hm
    · exact ⟨(k, v), by simp, c, rfl, hc⟩
    · obtain ⟨kv, hkv, c', e1, e2⟩ := h2 m hm
      exact ⟨kv, by simp [hkv], c', e1, e2⟩

theorem gvarC_inv (fr : FloatRepr) (v : GVar Leaf) (c : CVar) (h : gvarC fr v = some c) :
    ∃ a attrs, columnArray fr v.data = some a ∧ pvalPy.kvs fr v.attrs = some attrs ∧
      c = { dims := .list (v.dims.map PyVal.str), data := .nd a, attrs := attrs } := by
  unfold gvarC at h
  simp only [obind_some, Option.pure_def, Option.some.injEq] at h
  obtain ⟨a, ha, attrs, hat, rfl⟩ := h
  exact ⟨a, attrs, ha, hat, rfl⟩

/-! ### `withRpc` -/

theorem withRpcItems_eq (r : Nat) (l : List (String × CNode)) :
    withRpcItems r l = l.map (fun kv => (kv.1, kv.2.withRpc r)) := by
  induction l with
  | nil => rfl
  | cons kv rest ih => obtain ⟨k, n⟩ := kv; simp [withRpcItems, ih]

theorem withRpcData_idem (r r' : Nat) (d : ArrData) : withRpcData r' (withRpcData r d) = withRpcData r' d := by
  cases d <;> rfl

mutual
theorem node_ww (r r' : Nat) : ∀ n : CNode, (n.withRpc r).withRpc r' = n.withRpc r'
  | .var v => by simp only [CNode.withRpc, withRpcData_idem]
  | .group g => by simp only [CNode.withRpc]; rw [group_ww r r' g]
theorem group_ww (r r' : Nat) : ∀ g : CGroup, (g.withRpc r).withRpc r' = g.withRpc r'
  | .mk p u d a => by simp only [CGroup.withRpc]; rw [items_ww r r' d]
theorem items_ww (r r' : Nat) : ∀ l : List (String × CNode), withRpcItems r' (withRpcItems r l) = withRpcItems r' l
  | [] => rfl
  | (k, n) :: rest => by simp only [withRpcItems]; rw [node_ww r r' n, items_ww r r' rest]
end

theorem members_withRpc (fr : FloatRepr) (root name : String) (a : ArrayMeta) (r' : Nat)
    (vars : List (String × GVar Leaf)) (vs : List (String × CNode)) (hv : varsC fr vars = some vs) :
    withRpcItems r' (members root name a vs) = members root name { a with rpc := r' } vs := by
  have hfix : ∀ m ∈ vs, m.2.withRpc r' = m.2 := by
    intro m hm
    obtain ⟨kv, _, c, rfl, hc⟩ := (varsC_mem fr vars vs hv).2 m hm
    obtain ⟨a', attrs, _, _, rfl⟩ := gvarC_inv fr kv.2 c hc
    rfl
  rw [withRpcItems_eq]
  unfold members
  split
  · rw [List.map_map]
    apply List.map_congr_left
    intro m hm
    simp only [Function.comp]
    split
    · rfl
    · rw [hfix m hm]
  · rw [List.map_append]
    congr 1
    · conv => rhs; rw [← List.map_id vs]
      apply List.map_congr_left
      intro m hm
      simp [hfix m hm]


theorem mapM_leafOf : ∀ (xs : List (PVal Leaf)) (ls : List Leaf), xs.mapM leafOf = some ls → xs = ls.map PVal.leaf := by
  intro xs
  induction xs with
  | nil => intro ls h; simp at h; subst h; rfl
  | cons x xs ih =>
    intro ls h
    rw [List.mapM_cons] at h
    simp only [obind_some, Option.pure_def, Option.some.injEq] at h
    obtain ⟨l, hl, r, hr, rfl⟩ := h
    rw [List.map_cons, ← ih r hr]
    cases x <;> simp [leafOf] at hl
    subst hl; rfl

theorem all_datetime (P : Int → Bool) : ∀ (ls : List Leaf), (∀ l ∈ ls, ∃ d, l = .datetime d ∧ P d = true) →
    ∃ ds : List Int, ls = ds.map Leaf.datetime ∧ ∀ d ∈ ds, P d = true := by
  intro ls
  induction ls with
  | nil => intro _; exact ⟨[], rfl, by simp⟩
  | cons l ls ih =>
    intro h
    obtain ⟨d, rfl, hd⟩ := h l (by simp)
    obtain ⟨ds, rfl, hds⟩ := ih (fun l hl => h l (by simp [hl]))
    refine ⟨d :: ds, rfl, ?_⟩
    intro x hx
    rcases List.mem_cons.1 hx with rfl | hx
    · exact hd
    · exact hds x hx

/-- what a column array is made of -/
structure ColFacts (fr : FloatRepr) (col : PVal Leaf) (a : NdArray) : Prop where
  shape : a.shape = [a.flat.length]
  elems : ∀ x ∈ a.flat, x = .none ∨ ∃ l, leafPy fr l = some x
  kind : a.dtype = "int64" ∨ a.dtype = "float64" ∨ (∃ s, a.dtype = "<U" ++ s) ∨ a.dtype = "bool" ∨
    (a.dtype = "datetime64[ns]" ∧ ∃ ds : List Int, ds ≠ [] ∧ col = .list ((ds.map Leaf.datetime).map PVal.leaf) ∧
      a.flat = ds.map PyVal.int ∧ ∀ d ∈ ds, inInt64 d = true ∧ d ≠ natValue)

theorem columnArray_inv (fr : FloatRepr) (col : PVal Leaf) (a : NdArray) (h : columnArray fr col = some a) :
    ColFacts fr col a := by
  unfold columnArray at h
  split at h
  · rw [obind_some] at h
    obtain ⟨ls, hls, h⟩ := h
    have hxs := mapM_leafOf _ _ hls
    cases ls with
    | nil => simp at h
    | cons l0 rest =>
      simp only [obind_some] at h
      obtain ⟨k, hk, h⟩ := h
      split at h
      · simp at h
      · split at h
        · split at h
          · simp only [Option.some.injEq] at h
            subst h
            refine ⟨by simp, ?_, Or.inl rfl⟩
            intro x hx
            simp only [List.mem_map] at hx
            obtain ⟨l, _, rfl⟩ := hx
            cases l <;> first | exact Or.inl rfl | exact Or.inr ⟨.int _, rfl⟩
          · simp at h
        · simp only [obind_some, Option.pure_def, Option.some.injEq] at h
          obtain ⟨vs, hvs, rfl⟩ := h
          obtain ⟨hl, hm⟩ := mapM_opt _ _ _ hvs
          refine ⟨by simp [hl], ?_, Or.inr (Or.inl rfl)⟩
          intro x hx
          obtain ⟨l, _, hl⟩ := hm x hx
          exact Or.inr ⟨l, hl⟩
        · simp only [Option.some.injEq] at h
          subst h
          refine ⟨by simp, ?_, Or.inr (Or.inr (Or.inl ⟨_, rfl⟩))⟩
          intro x hx
          simp only [List.mem_map] at hx
          obtain ⟨s, _, rfl⟩ := hx
          exact Or.inr ⟨.str s, rfl⟩
        · simp only [Option.some.injEq] at h
          subst h
          refine ⟨by simp, ?_, Or.inr (Or.inr (Or.inr (Or.inl rfl)))⟩
          intro x hx
          simp only [List.mem_map] at hx
          obtain ⟨l, _, rfl⟩ := hx
          cases l <;> first | exact Or.inl rfl | exact Or.inr ⟨.bool _, rfl⟩
        · split at h
          next hall =>
            simp only [Option.some.injEq] at h
            subst h
            rw [List.all_eq_true] at hall
            obtain ⟨ds, hds, hP⟩ := all_datetime (fun ns => inInt64 ns && decide (ns ≠ natValue)) (l0 :: rest) (by
              intro l hl
              have := hall l hl
              cases l <;> simp at this
              exact ⟨_, rfl, by simpa using this⟩)
            have hflat : List.map (fun l => match l with | Leaf.datetime ns => PyVal.int ns | _ => PyVal.none) (l0 :: rest)
                = ds.map PyVal.int := by
              rw [hds, List.map_map]; rfl
            refine ⟨by simp, ?_, Or.inr (Or.inr (Or.inr (Or.inr ⟨rfl, ds, ?_, ?_, hflat, ?_⟩)))⟩
            · intro x hx
              simp only [List.mem_map] at hx
              obtain ⟨l, _, rfl⟩ := hx
              cases l <;> first | exact Or.inl rfl | exact Or.inr ⟨.int _, rfl⟩
            · intro hnil; subst hnil; simp at hds
            · rw [hxs, hds]
            · intro d hd
              simpa using hP d hd
          · simp at h
  · simp at h

theorem leafPy_scalar (fr : FloatRepr) (l : Leaf) (x : PyVal) (h : leafPy fr l = some x) : x.isScalar = true := by
  cases l <;> simp [leafPy] at h <;> subst h <;> rfl

theorem leafPy_wf (fr : FloatRepr) (hfr : fr.OK) (l : Leaf) (x : PyVal) (h : leafPy fr l = some x) : x.WF = true := by
  cases l <;> simp [leafPy] at h <;> subst h
  · rfl
  · exact hfr.1 _
  · rfl
  · rfl
  · exact hfr.2.1 _ _
  · exact hfr.2.2 _ _


theorem wfList_iff (xs : List PyVal) : wfList xs = true ↔ ∀ x ∈ xs, x.WF = true := by
  induction xs with
  | nil => simp [wfList]
  | cons x xs ih => simp [wfList, ih]

theorem wfKvs_iff (kvs : List (String × PyVal)) : wfKvs kvs = true ↔ ∀ kv ∈ kvs, kv.2.WF = true := by
  induction kvs with
  | nil => simp [wfKvs]
  | cons kv kvs ih => obtain ⟨k, v⟩ := kv; simp [wfKvs, ih]

mutual
theorem pvalPy_wf (fr : FloatRepr) (hfr : fr.OK) : ∀ (v : PVal Leaf) (p : PyVal), pvalPy fr v = some p → p.WF = true
  | .leaf l, p, h => by rw [pvalPy] at h; exact leafPy_wf fr hfr l p h
  | .cstr s, p, h => by rw [pvalPy] at h; cases h; rfl
  | .cint i, p, h => by rw [pvalPy] at h; cases h; rfl
  | .list xs, p, h => by
    rw [pvalPy, Option.map_eq_some_iff] at h
    obtain ⟨r, hr, rfl⟩ := h
    rw [PyVal.WF]; exact pvalPyList_wf fr hfr xs r hr
  | .tup xs, p, h => by
    rw [pvalPy, Option.map_eq_some_iff] at h
    obtain ⟨r, hr, rfl⟩ := h
    rw [PyVal.WF]; exact pvalPyList_wf fr hfr xs r hr
  | .dict kvs, p, h => by
    rw [pvalPy, Option.map_eq_some_iff] at h
    obtain ⟨r, hr, rfl⟩ := h
    rw [PyVal.WF]; exact pvalPyKvs_wf fr hfr kvs r hr
theorem pvalPyList_wf (fr : FloatRepr) (hfr : fr.OK) : ∀ (xs : List (PVal Leaf)) (r : List PyVal),
    pvalPy.list fr xs = some r → wfList r = true
  | [], r, h => by rw [pvalPy.list] at h; cases h; rfl
  | x :: xs, r, h => by
    rw [pvalPy.list] at h
    simp only [obind_some, Option.pure_def, Option.some.injEq] at h
    obtain ⟨a, ha, r', hr', rfl⟩ := h
    rw [wfList, pvalPy_wf fr hfr x a ha, pvalPyList_wf fr hfr xs r' hr']; rfl
theorem pvalPyKvs_wf (fr : FloatRepr) (hfr : fr.OK) : ∀ (kvs : List (String × PVal Leaf)) (r : List (String × PyVal)),
    pvalPy.kvs fr kvs = some r → wfKvs r = true
  | [], r, h => by rw [pvalPy.kvs] at h; cases h; rfl
  | (k, v) :: rest, r, h => by
    rw [pvalPy.kvs] at h
    simp only [obind_some, Option.pure_def, Option.some.injEq] at h
    obtain ⟨a, ha, r', hr', rfl⟩ := h
    rw [wfKvs, pvalPy_wf fr hfr v a ha, pvalPyKvs_wf fr hfr rest r' hr']; rfl
end

theorem encodeArray_nd_wf (a : NdArray) (n : Nat) (hs : a.shape = [n]) (hf : ∀ x ∈ a.flat, x.WF = true) :
    (encodeArray (.nd a)).WF = true := by
  have hflat : (nest a.shape a.flat).WF = true := by
    rw [hs, nest, PyVal.WF, wfList_iff]; exact hf
  rw [encodeArray]
  split
  · simp [PyVal.WF, wfKvs, hflat]
  · simp only [PyVal.WF, wfKvs, Bool.and_true, Bool.true_and]
    rw [hs, nest, PyVal.WF, wfList_iff]
    intro x hx
    simp only [List.mem_map] at hx
    obtain ⟨y, hy, rfl⟩ := hx
    split
    · split <;> rfl
    · exact hf y hy
  · simp [PyVal.WF, wfKvs, hflat]


theorem members_mem (root name : String) (a : ArrayMeta) (vs : List (String × CNode)) (m : String × CNode)
    (h : m ∈ members root name a vs) : m ∈ vs ∨ m.2 = .var (dataVarC root name a) := by
  unfold members at h
  split at h
  · simp only [List.mem_map] at h
    obtain ⟨kv, hkv, rfl⟩ := h
    split
    · exact Or.inr rfl
    · exact Or.inl hkv
  · rcases List.mem_append.1 h with h | h
    · exact Or.inl h
    · simp at h; subst h; exact Or.inr rfl

theorem encodeItems_wf : ∀ (items : List (String × CNode)), (∀ m ∈ items, (encodeNode m.2).WF = true) →
    wfKvs (encodeItems items) = true
  | [], _ => by rw [encodeItems]; rfl
  | (k, n) :: rest, h => by
    rw [encodeItems, wfKvs, h (k, n) (by simp), encodeItems_wf rest (fun m hm => h m (by simp [hm]))]; rfl

theorem pairPy_wf (p : Int × Int) : (pairPy p).WF = true := by simp [pairPy, PyVal.WF, wfList]

theorem dataVar_wf (root name : String) (a : ArrayMeta) : (encodeVar (dataVarC root name a)).WF = true := by
  have h : wfList (a.byteRanges.map pairPy) = true := by
    rw [wfList_iff]; intro x hx
    simp only [List.mem_map] at hx
    obtain ⟨p, _, rfl⟩ := hx
    exact pairPy_wf p
  simp [encodeVar, dataVarC, encodeArray, backendC, PyVal.WF, wfKvs, wfList, pairPy_wf, h]

theorem strs_wf (l : List String) : wfList (l.map PyVal.str) = true := by
  rw [wfList_iff]; intro x hx
  simp only [List.mem_map] at hx
  obtain ⟨p, _, rfl⟩ := hx
  rfl



/-! ### the column arrays are in the codec domain -/

theorem startsWith_iff (s pat : String) : s.startsWith pat = true ↔ pat.toList <+: s.toList := by
  unfold String.startsWith
  rw [String.Slice.startsWith_string_iff, String.copy_toSlice]

theorem dtypeKind_U (s : String) : dtypeKind ("<U" ++ s) = 'U' := by
  have h1 : ("<U" ++ s).startsWith "datetime64" = false := by
    rw [Bool.eq_false_iff]; intro h
    rw [startsWith_iff, String.toList_append] at h
    obtain ⟨t, ht⟩ := h
    have := congrArg List.head? ht
    simp at this
  have h2 : ("<U" ++ s).startsWith "timedelta64" = false := by
    rw [Bool.eq_false_iff]; intro h
    rw [startsWith_iff, String.toList_append] at h
    obtain ⟨t, ht⟩ := h
    have := congrArg List.head? ht
    simp at this
  have h3 : ("<U" ++ s).startsWith "<U" = true := by
    rw [startsWith_iff, String.toList_append]
    exact List.prefix_append _ _
  unfold dtypeKind
  simp [h1, h2, h3]

theorem nd_inDomain_nonM (a : NdArray) (hs : a.shape = [a.flat.length]) (hsc : ∀ x ∈ a.flat, x.isScalar = true)
    (hk : dtypeKind a.dtype ≠ 'M') : a.InDomain = true := by
  unfold NdArray.InDomain
  rw [if_neg hk, hs]
  have : a.flat.all PyVal.isScalar = true := List.all_eq_true.2 hsc
  simp [this]

theorem dates_nonneg : ∀ (ds : List Int), leafDateOK.list ((ds.map Leaf.datetime).map PVal.leaf) = true → ∀ d ∈ ds, 0 ≤ d := by
  intro ds
  induction ds with
  | nil => intro _ d hd; simp at hd
  | cons x xs ih =>
    intro h d hd
    simp only [List.map_cons, leafDateOK.list, leafDateOK, Bool.and_eq_true, decide_eq_true_eq] at h
    rcases List.mem_cons.1 hd with rfl | hd
    · exact h.1
    · exact ih h.2 d hd

theorem valid_ints (G : PyVal → Option Int) : ∀ (ds : List Int), (∀ d ∈ ds, G (.int d) = some d) →
    (ds.map PyVal.int).filterMap G = ds := by
  intro ds
  induction ds with
  | nil => intro _; rfl
  | cons x xs ih =>
    intro h
    simp only [List.map_cons, List.filterMap_cons, h x (by simp)]
    rw [ih (fun d hd => h d (by simp [hd]))]

theorem all_map_int (P : PyVal → Bool) (ds : List Int) (hP : ∀ d, P (.int d) = true) : (ds.map PyVal.int).all P = true := by
  rw [List.all_eq_true]
  intro x hx
  simp only [List.mem_map] at hx
  obtain ⟨d, _, rfl⟩ := hx
  exact hP d

theorem nd_inDomain_dates (a : NdArray) (ds : List Int) (hne : ds ≠ []) (hdt : a.dtype = "datetime64[ns]")
    (hs : a.shape = [a.flat.length]) (hf : a.flat = ds.map PyVal.int)
    (h64 : ∀ d ∈ ds, inInt64 d = true ∧ d ≠ natValue) (h0 : ∀ d ∈ ds, 0 ≤ d) : a.InDomain = true := by
  unfold NdArray.InDomain
  have hk : dtypeKind "datetime64[ns]" = 'M' := by decide +kernel
  have hu : dtypeUnit "datetime64[ns]" = "ns" := by decide +kernel
  have hps : unitPerSecond "ns" = some 1000000000 := by decide +kernel
  rw [hs, hdt, hk, if_pos rfl, hu, hps, hf, valid_ints _ ds (fun d hd => by simp [pyInt?, (h64 d hd).2])]
  cases ds with
  | nil => exact absurd rfl hne
  | cons r rest =>
    have hr0 := h0 r (by simp)
    have hr64 := (h64 r (by simp)).1
    simp only [inInt64, Bool.and_eq_true, decide_eq_true_eq] at hr64
    rw [all_map_int, all_map_int]
    rotate_left
    · intro d; rfl
    · intro d; rfl
    simp
    refine ⟨⟨hr0, by omega⟩, by simp [natValue], ?_⟩
    intro x hx
    have hx0 := h0 x (by simp [hx])
    simp only [natValue]
    omega

theorem columnArray_inDomain (fr : FloatRepr) (col : PVal Leaf) (a : NdArray) (h : ColFacts fr col a)
    (hd : leafDateOK col = true) : a.InDomain = true := by
  have hsc : ∀ x ∈ a.flat, x.isScalar = true := by
    intro x hx
    rcases h.elems x hx with rfl | ⟨l, hl⟩
    · rfl
    · exact leafPy_scalar fr l x hl
  rcases h.kind with hk | hk | ⟨s, hk⟩ | hk | ⟨hk, ds, hne, hcol, hf, h64⟩
  · exact nd_inDomain_nonM a h.shape hsc (by rw [hk]; decide +kernel)
  · exact nd_inDomain_nonM a h.shape hsc (by rw [hk]; decide +kernel)
  · exact nd_inDomain_nonM a h.shape hsc (by rw [hk, dtypeKind_U]; decide)
  · exact nd_inDomain_nonM a h.shape hsc (by rw [hk]; decide +kernel)
  · refine nd_inDomain_dates a ds hne hk h.shape hf h64 ?_
    rw [hcol, leafDateOK] at hd
    exact dates_nonneg ds hd


/-! ### attribute dictionaries: distinct keys, no reserved key, no dict value -/

def AttrsClean {α : Type} (kvs : KVs α) : Prop :=
  (kvs.map Prod.fst).Nodup ∧ ∀ kv ∈ kvs, kv.1 ≠ "__type__" ∧ kv.2.plainAttr = true

def GrpClean {α : Type} : Grp α → Prop
  | .mk vars _ attrs => (vars.map Prod.fst).Nodup ∧ (∀ kv ∈ vars, AttrsClean kv.2.attrs) ∧ AttrsClean attrs

theorem insertByKey_perm {γ : Type} (x : String × γ) (l : List (String × γ)) : (insertByKey x l).Perm (x :: l) := by
  induction l with
  | nil => exact List.Perm.refl _
  | cons y ys ih =>
    rw [insertByKey]
    split
    · exact List.Perm.refl _
    · exact ((List.Perm.cons y ih).trans (List.Perm.swap x y ys))

theorem sortByKey_perm {γ : Type} (l : List (String × γ)) : (sortByKey l).Perm l := by
  induction l with
  | nil => exact List.Perm.refl _
  | cons x xs ih =>
    rw [sortByKey, List.foldr_cons]
    exact (insertByKey_perm x _).trans (List.Perm.cons x ih)

theorem attrsClean_perm {α : Type} (a b : KVs α) (hp : a.Perm b) (h : AttrsClean a) : AttrsClean b :=
  ⟨(hp.map Prod.fst).nodup_iff.1 h.1, fun kv hkv => h.2 kv (hp.mem_iff.2 hkv)⟩

theorem grpClean_of_sortKeys {α : Type} (g : Grp α) (h : GrpClean g.sortKeys) : GrpClean g := by
  obtain ⟨vars, groups, attrs⟩ := g
  rw [Grp.sortKeys] at h
  obtain ⟨h1, h2, h3⟩ := h
  have hp := sortByKey_perm (vars.map (fun kv => (kv.1, kv.2.sortKeys)))
  refine ⟨?_, ?_, attrsClean_perm _ _ (sortByKey_perm attrs) h3⟩
  · have := (hp.map Prod.fst).nodup_iff.1 h1
    rwa [List.map_map] at this
  · intro kv hkv
    have hm : (kv.1, kv.2.sortKeys) ∈ sortByKey (vars.map (fun kv => (kv.1, kv.2.sortKeys))) :=
      hp.mem_iff.2 (List.mem_map.2 ⟨kv, hkv, rfl⟩)
    have := h2 _ hm
    exact attrsClean_perm _ _ (sortByKey_perm kv.2.attrs) this

theorem attrsClean_mapKvs {α β : Type} (f : α → β) (kvs : KVs α) (h : AttrsClean kvs) : AttrsClean (PVal.mapKvs f kvs) := by
  rw [Natural.mapKvs_eq]
  refine ⟨by rw [List.map_map]; exact h.1, ?_⟩
  intro kv hkv
  obtain ⟨kv0, hkv0, rfl⟩ := List.mem_map.1 hkv
  exact ⟨(h.2 kv0 hkv0).1, by rw [Typing.plainAttr_map]; exact (h.2 kv0 hkv0).2⟩

/-- Boolean checker for the closed spec lists -/
def attrsCleanB {α : Type} (kvs : KVs α) : Bool :=
  decide ((kvs.map Prod.fst).Nodup) && kvs.all (fun kv => kv.1 != "__type__" && kv.2.plainAttr)

theorem attrsCleanB_sound {α : Type} (kvs : KVs α) (h : attrsCleanB kvs = true) : AttrsClean kvs := by
  simp only [attrsCleanB, Bool.and_eq_true, decide_eq_true_eq, List.all_eq_true, bne_iff_ne] at h
  exact ⟨h.1, fun kv hkv => h.2 kv hkv⟩

def lineSpecB (vars0 : List (String × List String × KVs Sym)) (attrs0 : List (String × List String)) : Bool :=
  decide ((vars0.map Prod.fst).Nodup) && vars0.all (fun x => attrsCleanB x.2.2) &&
  decide ((attrs0.map Prod.fst).Nodup) && attrs0.all (fun x => x.1 != "__type__")

theorem lineTree_clean (vars0 : List (String × List String × KVs Sym)) (attrs0 : List (String × List String))
    (hB : lineSpecB vars0 attrs0 = true) (n : Nat) (f : Sym → Leaf) :
    GrpClean ((Spec.lineTree vars0 attrs0 n).map f) := by
  simp only [lineSpecB, Bool.and_eq_true, decide_eq_true_eq, List.all_eq_true, bne_iff_ne] at hB
  obtain ⟨⟨⟨h1, h2⟩, h3⟩, h4⟩ := hB
  rw [Spec.lineTree, Grp.map]
  refine ⟨?_, ?_, ?_⟩
  · rw [List.map_map, List.map_map]
    exact h1
  · intro kv hkv
    rw [List.map_map] at hkv
    obtain ⟨x, hx, rfl⟩ := List.mem_map.1 hkv
    obtain ⟨nm, p, ats⟩ := x
    exact attrsClean_mapKvs f ats (attrsCleanB_sound _ (h2 _ hx))
  · rw [Natural.mapKvs_eq, List.map_map]
    refine ⟨by rw [List.map_map]; exact h3, ?_⟩
    intro kv hkv
    obtain ⟨x, hx, rfl⟩ := List.mem_map.1 hkv
    obtain ⟨nm, p⟩ := x
    exact ⟨h4 _ hx, rfl⟩

theorem spec15 : lineSpecB Spec.lineVars15 Spec.lineAttrs15 = true := by decide +kernel
theorem spec11 : lineSpecB Spec.lineVars11 Spec.lineAttrs11 = true := by decide +kernel
theorem specHeader : Spec.headerAttrs.all (fun kv => kv.1 != "__type__" && kv.2.plainAttr) = true := by decide +kernel

/-! ### `kvSet` / `kvUnion` keep a dictionary clean -/

theorem kvSet_clean {α : Type} (kvs : KVs α) (k : String) (v : PVal α) (h : AttrsClean kvs)
    (hk : k ≠ "__type__") (hv : v.plainAttr = true) : AttrsClean (kvSet kvs k v) := by
  unfold kvSet
  split
  · refine ⟨?_, ?_⟩
    · have : (kvs.map (fun kv => if kv.1 = k then (k, v) else kv)).map Prod.fst = kvs.map Prod.fst := by
        rw [List.map_map]
        apply List.map_congr_left
        intro kv _
        simp only [Function.comp]
        split
        · rename_i e; exact e.symm
        · rfl
      rw [this]; exact h.1
    · intro kv hkv
      obtain ⟨kv0, hkv0, rfl⟩ := List.mem_map.1 hkv
      split
      · exact ⟨hk, hv⟩
      · exact h.2 kv0 hkv0
  next hany =>
    refine ⟨?_, ?_⟩
    · rw [List.map_append, List.map_cons, List.map_nil]
      apply List.nodup_append.2
      refine ⟨h.1, by simp, ?_⟩
      intro a ha b hb
      simp only [List.mem_singleton] at hb
      subst hb
      intro e
      subst e
      apply hany
      obtain ⟨kv, hkv, rfl⟩ := List.mem_map.1 ha
      exact List.any_eq_true.2 ⟨kv, hkv, by simp⟩
    · intro kv hkv
      rcases List.mem_append.1 hkv with hkv | hkv
      · exact h.2 kv hkv
      · simp only [List.mem_singleton] at hkv
        subst hkv
        exact ⟨hk, hv⟩

theorem kvUnion_clean {α : Type} (b : KVs α) : ∀ (a : KVs α), AttrsClean a →
    (∀ kv ∈ b, kv.1 ≠ "__type__" ∧ kv.2.plainAttr = true) → AttrsClean (kvUnion a b) := by
  induction b with
  | nil => intro a ha _; exact ha
  | cons x xs ih =>
    intro a ha hb
    unfold kvUnion
    rw [List.foldl_cons]
    exact ih _ (kvSet_clean a x.1 x.2 ha (hb x (by simp)).1 (hb x (by simp)).2) (fun kv hkv => hb kv (by simp [hkv]))

theorem plainAttrList_cstr {α : Type} (l : List String) : PVal.plainAttrList (l.map (fun s => (PVal.cstr s : PVal α))) = true := by
  induction l with
  | nil => rfl
  | cons x xs ih => rw [List.map_cons, PVal.plainAttrList, ih]; rfl


/-! ### converted attribute dictionaries are clean for the codec -/

theorem pvalPyKvs_mem (fr : FloatRepr) : ∀ (kvs : List (String × PVal Leaf)) (r : List (String × PyVal)),
    pvalPy.kvs fr kvs = some r →
    r.map Prod.fst = kvs.map Prod.fst ∧ ∀ a ∈ r, ∃ kv ∈ kvs, a.1 = kv.1 ∧ pvalPy fr kv.2 = some a.2
  | [], r, h => by rw [pvalPy.kvs] at h; cases h; simp
  | (k, v) :: rest, r, h => by
    rw [pvalPy.kvs] at h
    simp only [obind_some, Option.pure_def, Option.some.injEq] at h
    obtain ⟨a, ha, r', hr', rfl⟩ := h
    obtain ⟨h1, h2⟩ := pvalPyKvs_mem fr rest r' hr'
    refine ⟨by simp [h1], ?_⟩
    intro x hx
    rcases List.mem_cons.1 hx with rfl | hx
    · exact ⟨(k, v), by simp, rfl, ha⟩
    · obtain ⟨kv, hkv, e1, e2⟩ := h2 x hx
      exact ⟨kv, by simp [hkv], e1, e2⟩

mutual
theorem pvalPy_noTag (fr : FloatRepr) : ∀ (v : PVal Leaf) (p : PyVal), pvalPy fr v = some p → v.plainAttr = true →
    p.NoReservedTag = true
  | .leaf l, p, h, _ => by rw [pvalPy] at h; exact scalar_noTag p (leafPy_scalar fr l p h)
  | .cstr s, p, h, _ => by rw [pvalPy] at h; cases h; rfl
  | .cint i, p, h, _ => by rw [pvalPy] at h; cases h; rfl
  | .list xs, p, h, hp => by
    rw [pvalPy, Option.map_eq_some_iff] at h
    obtain ⟨r, hr, rfl⟩ := h
    rw [PVal.plainAttr] at hp
    rw [PyVal.NoReservedTag]; exact pvalPyList_noTag fr xs r hr hp
  | .tup xs, p, h, hp => by
    rw [pvalPy, Option.map_eq_some_iff] at h
    obtain ⟨r, hr, rfl⟩ := h
    rw [PVal.plainAttr] at hp
    rw [PyVal.NoReservedTag]; exact pvalPyList_noTag fr xs r hr hp
  | .dict kvs, p, h, hp => by rw [PVal.plainAttr] at hp; cases hp
theorem pvalPyList_noTag (fr : FloatRepr) : ∀ (xs : List (PVal Leaf)) (r : List PyVal),
    pvalPy.list fr xs = some r → PVal.plainAttrList xs = true → noTagList r = true
  | [], r, h, _ => by rw [pvalPy.list] at h; cases h; rfl
  | x :: xs, r, h, hp => by
    rw [pvalPy.list] at h
    simp only [obind_some, Option.pure_def, Option.some.injEq] at h
    obtain ⟨a, ha, r', hr', rfl⟩ := h
    rw [PVal.plainAttrList, Bool.and_eq_true] at hp
    rw [noTagList, pvalPy_noTag fr x a ha hp.1, pvalPyList_noTag fr xs r' hr' hp.2]; rfl
end

theorem noTagKvs_iff (kvs : List (String × PyVal)) : noTagKvs kvs = true ↔ ∀ kv ∈ kvs, kv.2.NoReservedTag = true := by
  induction kvs with
  | nil => simp [noTagKvs]
  | cons kv kvs ih => obtain ⟨k, v⟩ := kv; simp [noTagKvs, ih]

theorem attrsOk_of_clean (fr : FloatRepr) (kvs : KVs Leaf) (ats : List (String × PyVal))
    (h : pvalPy.kvs fr kvs = some ats) (hc : AttrsClean kvs) : attrsOk ats = true := by
  obtain ⟨hkeys, hmem⟩ := pvalPyKvs_mem fr kvs ats h
  unfold attrsOk
  rw [PyVal.NoReservedTag]
  simp only [Bool.and_eq_true, Bool.not_eq_true', decide_eq_true_eq]
  refine ⟨⟨?_, by rw [hkeys]; exact hc.1⟩, ?_⟩
  · rw [List.any_eq_false]
    intro a ha
    obtain ⟨kv, hkv, e1, _⟩ := hmem a ha
    have := (hc.2 kv hkv).1
    rw [← e1] at this
    simp [this]
  · rw [noTagKvs_iff]
    intro a ha
    obtain ⟨kv, hkv, _, e2⟩ := hmem a ha
    exact pvalPy_noTag fr kv.2 a.2 e2 (hc.2 kv hkv).2

/-! ### assembling the group -/

theorem itemsInDomain_vars (fuel : Nat) (pp : String) (pu : PyVal) : ∀ (items : List (String × CNode)),
    (∀ m ∈ items, ∃ c, m.2 = .var c ∧ c.dims.NoReservedTag = true ∧ c.data.InDomain = true ∧ attrsOk c.attrs = true) →
    itemsInDomain fuel pp pu items = true
  | [], _ => by rw [itemsInDomain]
  | (k, n) :: rest, h => by
    obtain ⟨c, hc, h1, h2, h3⟩ := h (k, n) (by simp)
    simp only at hc
    subst hc
    rw [itemsInDomain, h1, h2, h3, itemsInDomain_vars fuel pp pu rest (fun m hm => h m (by simp [hm]))]
    rfl

theorem members_keys (root name : String) (a : ArrayMeta) (vs : List (String × CNode)) (h : (vs.map Prod.fst).Nodup) :
    ((members root name a vs).map Prod.fst).Nodup := by
  unfold members
  split
  · have : (vs.map (fun kv => if kv.1 = "data" then (kv.1, CNode.var (dataVarC root name a)) else kv)).map Prod.fst
        = vs.map Prod.fst := by
      rw [List.map_map]
      apply List.map_congr_left
      intro kv _
      simp only [Function.comp]
      split <;> rfl
    rw [this]; exact h
  next hany =>
    rw [List.map_append, List.map_cons, List.map_nil]
    apply List.nodup_append.2
    refine ⟨h, by simp, ?_⟩
    intro x hx b hb
    simp only [List.mem_singleton] at hb
    subst hb
    intro e
    subst e
    apply hany
    obtain ⟨kv, hkv, hk⟩ := List.mem_map.1 hx
    exact List.any_eq_true.2 ⟨kv, hkv, by simp [hk]⟩

theorem strs_noTag (l : List String) : (PyVal.list (l.map PyVal.str)).NoReservedTag = true := by
  rw [PyVal.NoReservedTag, noTagList_iff]
  intro x hx
  obtain ⟨s, _, rfl⟩ := List.mem_map.1 hx
  rfl

theorem pairPy_noTag (p : Int × Int) : (pairPy p).NoReservedTag = true := by
  simp [pairPy, PyVal.NoReservedTag, noTagList]

theorem dataVar_ok (root name : String) (a : ArrayMeta) :
    (dataVarC root name a).dims.NoReservedTag = true ∧ (dataVarC root name a).data.InDomain = true ∧
    attrsOk (dataVarC root name a).attrs = true := by
  refine ⟨strs_noTag ["rows", "columns"], ?_, ?_⟩
  · simp only [dataVarC, ArrData.InDomain, backendC, Bool.and_eq_true]
    refine ⟨pairPy_noTag _, ?_⟩
    rw [PyVal.NoReservedTag, noTagList_iff]
    intro x hx
    obtain ⟨p, _, rfl⟩ := List.mem_map.1 hx
    exact pairPy_noTag p
  · simp [dataVarC, attrsOk, PyVal.NoReservedTag, noTagKvs]

/-- the codec domain, from the structural facts about the reader's group -/
theorem bridge_in_domain (fr : FloatRepr) (root name gname : String) (g : ImageGroup) (cg : CGroup)
    (hc : GrpClean g.group) (hd : DatesOK g = true) (hb : bridge fr root name gname g = some cg) :
    cg.InDomain domainFuel = true := by
  obtain ⟨vars, attrs, vs, ats, hg, hv, ha, rfl⟩ := bridge_inv fr root name gname g cg hb
  rw [hg] at hc
  obtain ⟨hc1, hc2, hc3⟩ := hc
  have hdv : ∀ kv ∈ vars, leafDateOK kv.2.data = true := by
    unfold DatesOK at hd
    rw [hg] at hd
    simp only [List.all_eq_true] at hd
    exact hd
  obtain ⟨hkeys, hmem⟩ := varsC_mem fr vars vs hv
  show CGroup.InDomain (62 + 1) _ = true
  rw [CGroup.InDomain, attrsOk_of_clean fr attrs ats ha hc3]
  have hnd : ((members root name g.array vs).map Prod.fst).Nodup := members_keys _ _ _ _ (by rw [hkeys]; exact hc1)
  have hitems : itemsInDomain 62 gname .none (members root name g.array vs) = true := by
    apply itemsInDomain_vars
    intro m hm
    rcases members_mem _ _ _ _ _ hm with hm | hm
    · obtain ⟨kv, hkv, c, rfl, hcv⟩ := hmem m hm
      obtain ⟨a, cattrs, hcol, hcat, rfl⟩ := gvarC_inv fr kv.2 c hcv
      refine ⟨_, rfl, strs_noTag _, ?_, attrsOk_of_clean fr _ _ hcat (hc2 kv hkv)⟩
      exact columnArray_inDomain fr _ a (columnArray_inv fr _ a hcol) (hdv kv hkv)
    · exact ⟨_, hm, dataVar_ok root name g.array⟩
  rw [hitems]
  simp [PyVal.NoReservedTag, hnd]

theorem attrsClean_filter {α : Type} (p : String × PVal α → Bool) (kvs : KVs α) (h : AttrsClean kvs) :
    AttrsClean (kvs.filter p) :=
  ⟨(List.filter_sublist.map Prod.fst).nodup h.1, fun kv hkv => h.2 kv (List.mem_filter.1 hkv).1⟩

theorem specHeaderB : attrsCleanB Spec.headerAttrs = true := by decide +kernel

/-- the group `open_image` builds is clean -/
theorem open_group_clean (vars0 : List (String × List String × KVs Sym)) (attrs0 : List (String × List String))
    (hB : lineSpecB vars0 attrs0 = true) (g : ImageGroup) (header : Val) (recs : List Val)
    (h : ∃ (vars : List (String × GVar Leaf)) (attrs : KVs Leaf) (hattrs : KVs Leaf),
      g.group = .mk vars [] (kvUnion attrs (kvUnion hattrs [("coordinates", .list (vars.map (fun kv => .cstr kv.1)))])) ∧
      (Grp.mk vars [] attrs).sortKeys = (Spec.lineTree vars0 attrs0 recs.length).map (Sym.eval (.list recs)) ∧
      sortByKey hattrs = (PVal.mapKvs (Sym.eval header) Spec.headerAttrs).filter (fun kv => headerAttrPresent header kv.1)) :
    GrpClean g.group := by
  obtain ⟨vars, attrs, hattrs, hg, hs, hh⟩ := h
  have hc : GrpClean (Grp.mk vars [] attrs) := grpClean_of_sortKeys _ (by rw [hs]; exact lineTree_clean vars0 attrs0 hB _ _)
  have hha : AttrsClean hattrs := by
    apply attrsClean_perm _ _ (sortByKey_perm hattrs)
    rw [hh]
    exact attrsClean_filter _ _ (attrsClean_mapKvs _ _ (attrsCleanB_sound _ specHeaderB))
  have hcoord : AttrsClean (kvUnion hattrs [("coordinates", .list (vars.map (fun kv => .cstr kv.1)))]) := by
    apply kvUnion_clean _ _ hha
    intro kv hkv
    simp only [List.mem_singleton] at hkv
    subst hkv
    refine ⟨show "coordinates" ≠ "__type__" by decide, ?_⟩
    show PVal.plainAttr (PVal.list _) = true
    rw [PVal.plainAttr]
    have := plainAttrList_cstr (α := Leaf) (vars.map Prod.fst)
    rwa [List.map_map] at this
  rw [hg]
  exact ⟨hc.1, hc.2.1, kvUnion_clean _ _ hc.2.2 hcoord.2⟩

end BridgeP

/-- `withRpc` on the bridged group is the bridge of the group with another chunk size -/
theorem bridge_withRpc (fr : FloatRepr) (root name gname : String) (g : ImageGroup) (cg : CGroup) (r' : Nat)
    (h : bridge fr root name gname g = some cg) :
    bridge fr root name gname { g with array := { g.array with rpc := r' } } = some (cg.withRpc r') := by
  obtain ⟨vars, attrs, vs, ats, hg, hv, ha, rfl⟩ := BridgeP.bridge_inv fr root name gname g cg h
  rw [BridgeP.bridge_eq fr root name gname { g with array := { g.array with rpc := r' } } vars attrs hg, hv, ha]
  simp only [Option.bind_some, CGroup.withRpc, BridgeP.members_withRpc fr root name g.array r' vars vs hv]

/-- float tokens of a bridged group are float literals (given that CPython's `repr` prints float literals) -/
theorem bridge_wf (fr : FloatRepr) (hfr : fr.OK) (root name gname : String) (g : ImageGroup) (cg : CGroup)
    (h : bridge fr root name gname g = some cg) : (encodeGroup cg).WF = true := by
  obtain ⟨vars, attrs, vs, ats, hg, hv, ha, rfl⟩ := BridgeP.bridge_inv fr root name gname g cg h
  have hats := BridgeP.pvalPyKvs_wf fr hfr attrs ats ha
  have hitems : wfKvs (encodeItems (BridgeP.members root name g.array vs)) = true := by
    apply BridgeP.encodeItems_wf
    intro m hm
    rcases BridgeP.members_mem _ _ _ _ _ hm with hm | hm
    · obtain ⟨kv, _, c, rfl, hc⟩ := (BridgeP.varsC_mem fr vars vs hv).2 m hm
      obtain ⟨a, cattrs, hcol, hcat, rfl⟩ := BridgeP.gvarC_inv fr kv.2 c hc
      have hcf := BridgeP.columnArray_inv fr _ a hcol
      have harr : (encodeArray (.nd a)).WF = true := by
        apply BridgeP.encodeArray_nd_wf a _ hcf.shape
        intro x hx
        rcases hcf.elems x hx with rfl | ⟨l, hl⟩
        · rfl
        · exact BridgeP.leafPy_wf fr hfr l x hl
      simp [encodeNode, encodeVar, PyVal.WF, wfKvs, BridgeP.strs_wf, harr, BridgeP.pvalPyKvs_wf fr hfr _ _ hcat]
    · rw [hm, encodeNode]
      exact BridgeP.dataVar_wf root name g.array
  simp [encodeGroup, PyVal.WF, wfKvs, hats, hitems]

/-- the structural facts about the reader's group that put its bridge into the codec domain -/
theorem BridgeP.open_image_group_clean (file : Bytes) (name : String) (rpc : Nat) (gname : String) (g : ImageGroup)
    (h : openImageFile file name rpc = .ok (gname, g))
    (header : Val) (recs : List Val) (hr : readImageRecords file rpc = .ok (header, recs)) (hn : 0 < recs.length)
    (hk : (∀ r ∈ recs, IsLineRecord Gen.processedDataRecord r) ∨ (∀ r ∈ recs, IsLineRecord Gen.signalDataRecord r)) :
    BridgeP.GrpClean g.group := by
  rcases hk with hk | hk
  · exact BridgeP.open_group_clean _ _ BridgeP.spec15 g header recs
      (openImageFile_group_15 file name rpc gname g h header recs hr hn hk)
  · exact BridgeP.open_group_clean _ _ BridgeP.spec11 g header recs
      (openImageFile_group_11 file name rpc gname g h header recs hr hn hk)

/-- THE READER'S GROUPS ARE IN THE CODEC DOMAIN: whenever `open_image` (no cache) succeeds on a file with at least one line
    record, all of one kind, and the group can be bridged (its columns are NumPy-convertible) and its instants are at or after
    the epoch, the group is in the domain on which `decode (encode g) = g` is proved (C08 `decode_encode`) -/
theorem open_image_in_domain (fr : FloatRepr) (root : String) (file : Bytes) (name : String) (rpc : Nat)
    (gname : String) (g : ImageGroup) (cg : CGroup)
    (h : openImageFile file name rpc = .ok (gname, g)) (hb : bridge fr root name gname g = some cg)
    (header : Val) (recs : List Val) (hr : readImageRecords file rpc = .ok (header, recs)) (hn : 0 < recs.length)
    (hk : (∀ r ∈ recs, IsLineRecord Gen.processedDataRecord r) ∨ (∀ r ∈ recs, IsLineRecord Gen.signalDataRecord r))
    (hd : DatesOK g = true) :
    cg.InDomain domainFuel = true := by
  exact BridgeP.bridge_in_domain fr root name gname g cg
    (BridgeP.open_image_group_clean file name rpc gname g h header recs hr hn hk) hd hb

/-- chunk-size stability of the bridged reader groups (the `stable` clause of `EnvOK`), from C06 `image_rpc_independent` -/
theorem open_image_bridge_stable (fr : FloatRepr) (root : String) (file : Bytes) (name : String) (rpc1 rpc2 : Nat)
    (n1 n2 : String) (g1 g2 : ImageGroup) (cg1 : CGroup)
    (h1 : openImageFile file name rpc1 = .ok (n1, g1)) (h2 : openImageFile file name rpc2 = .ok (n2, g2))
    (hb : bridge fr root name n1 g1 = some cg1)
    (hd1 hd2 : Val) (recs1 recs2 : List Val)
    (hr1 : readImageRecords file rpc1 = .ok (hd1, recs1)) (hr2 : readImageRecords file rpc2 = .ok (hd2, recs2))
    (L : Nat) (hL : 0 < L) (hdrL : intAt hd1 ["sar_data_record_length"] = .ok (L : Int))
    (t : Nat) (ht : t = 10 ∨ t = 11)
    (hrl1 : ∀ r ∈ recs1, intAt r ["preamble", "record_length"] = .ok (L : Int))
    (hty1 : ∀ r ∈ recs1, intAt r ["preamble", "record_type"] = .ok (t : Int))
    (hrl2 : ∀ r ∈ recs2, intAt r ["preamble", "record_length"] = .ok (L : Int))
    (hty2 : ∀ r ∈ recs2, intAt r ["preamble", "record_type"] = .ok (t : Int)) :
    bridge fr root name n2 g2 = some (cg1.withRpc rpc2) := by
  obtain ⟨hn, hg, ha⟩ := openImageFile_rpc_independent file name rpc1 rpc2 n1 n2 g1 g2 h1 h2 hd1 hd2 recs1 recs2 hr1 hr2
    L hL hdrL t ht hrl1 hty1 hrl2 hty2
  obtain ⟨_, _, _, _, _, hrpc, _⟩ := openImageFile_array file name rpc2 n2 g2 h2
  have e : g2 = { g1 with array := { g1.array with rpc := rpc2 } } := by
    obtain ⟨grp2, arr2⟩ := g2
    obtain ⟨grp1, arr1⟩ := g1
    simp only at hg ha hrpc
    subst hg ha hrpc
    rfl
  rw [e, ← hn]
  exact bridge_withRpc fr root name n1 g1 cg1 rpc2 hb

/-- THE CONCRETE ENVIRONMENT: for an image file that opens (at chunk size 1, say) into a bridgeable group with instants at or
    after the epoch, the environment whose uncached group at chunk size `r` is that group with `records_per_chunk := r`
    satisfies ALL assumptions of the cache-flow theorems (given the two `json` contracts and the `repr` contract) — so
    C07 `read_valid` / `cache_is_used`, C09 and C10 hold for it with no assumption left about the groups -/
theorem concrete_env_ok (fr : FloatRepr) (hfr : fr.OK) (loads : List Char → Except Err PyVal)
    (hJ1 : ∀ d : PyVal, d.TupleFree = true → d.WF = true → loads (dump d) = .ok d)
    (hJ2 : ∀ t : List Char, (¬ Balanced t ∨ t = []) → ∃ e, loads t = .error e)
    (root : String) (file : Bytes) (name : String) (gname : String) (g : ImageGroup) (cg : CGroup)
    (h : openImageFile file name 1 = .ok (gname, g)) (hb : bridge fr root name gname g = some cg)
    (header : Val) (recs : List Val) (hr : readImageRecords file 1 = .ok (header, recs)) (hn : 0 < recs.length)
    (hk : (∀ r ∈ recs, IsLineRecord Gen.processedDataRecord r) ∨ (∀ r ∈ recs, IsLineRecord Gen.signalDataRecord r))
    (hd : DatesOK g = true) :
    EnvOK { U := fun r => cg.withRpc r, loads := loads } := by
  have hclean := BridgeP.open_image_group_clean file name 1 gname g h header recs hr hn hk
  have hbr : ∀ r, bridge fr root name gname { g with array := { g.array with rpc := r } } = some (cg.withRpc r) :=
    fun r => bridge_withRpc fr root name gname g cg r hb
  refine ⟨?_, ?_, ?_, hJ1, hJ2⟩
  · intro r r'
    exact BridgeP.group_ww r r' cg
  · intro r
    exact BridgeP.bridge_in_domain fr root name gname { g with array := { g.array with rpc := r } } (cg.withRpc r) hclean hd (hbr r)
  · intro r
    exact bridge_wf fr hfr root name gname { g with array := { g.array with rpc := r } } (cg.withRpc r) (hbr r)

end Alos2

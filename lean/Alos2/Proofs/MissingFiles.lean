/-
C18 on the whole-product model (`Model/Product.lean`, tied to the real `io.open` by H9): which file is consulted when, what a
missing one turns into, and that the trailer is never read.

`openProduct` factors through `summaryRoles` (summary.txt → the transformed summary and the file roles): after that it reads
the volume directory, the leader and the image files IN THIS ORDER and nothing else.
-/
import Alos2.Proofs.ProductOpen

namespace Alos2

/-- the first steps of `openProduct`: read, decode, parse and transform `summary.txt`, assign the file roles -/
def summaryRoles (fs : Files) : Except Err (List (String × SGroup) × (String × String × List String × String)) := do
  let stext ← match fs.get "summary.txt" with
    | some b => pure b
    | none => throw Err.os
  let chars ← match String.fromUTF8? (ByteArray.mk stext.toArray) with
    | some s => pure s.toList
    | none => throw Err.value
  let sections ← match parseSummary chars with
    | .ok s => pure s
    | .error _ => throw Err.group
  let summary ← transformSummary sections
  let pdi ← match sections.find? (fun s => s.1 = "pdi") with
    | some s => pure s.2
    | none => throw Err.key
  let roles ← fileRoles pdi
  pure (summary, roles)

namespace MissingF

def imgStep (fs : Files) (rpc : Nat) (name : String) : Except Err (String × ImageGroup) :=
  match fs.get name with
  | some b => openImageFile b name rpc
  | none => throw Err.fnf

def afterLeader (fs : Files) (rpc : Nat) (summary : List (String × SGroup)) (vattrs : KVs Leaf) (metadata : Grp Leaf)
    (imgs : List String) : Except Err Product := do
  let groups ← imgs.mapM (imgStep fs rpc)
  pure { rootAttrs := kvUnion vattrs [("reference_document", .cstr referenceDocument)],
         summary := summary, metadata := metadata,
         imagery := groups.foldl (fun acc kv => assocSet acc kv.1 kv.2) [] }

def afterVolume (fs : Files) (rpc : Nat) (summary : List (String × SGroup)) (vattrs : KVs Leaf)
    (led : String) (imgs : List String) : Except Err Product := do
  let lbytes ← match fs.get led with
    | some b => pure b
    | none => throw Err.fnf
  let lrec ← parseRecord Gen.sarLeaderRecord lbytes
  let metadata ← match transformLeaderMetadata realLeafFns3 lrec.toPVal with
    | some g => pure g
    | none => throw Err.value
  afterLeader fs rpc summary vattrs metadata imgs

def rest (fs : Files) (rpc : Nat) (summary : List (String × SGroup)) (vol led : String) (imgs : List String) :
    Except Err Product := do
  let vbytes ← match fs.get vol with
    | some b => pure b
    | none => throw Err.fnf
  let vrec ← parseRecord Gen.volumeDirectoryRecord vbytes
  let vattrs ← match transformVolumeRecord realLeafFns vrec.toPVal with
    | some a => pure a
    | none => throw Err.other
  afterVolume fs rpc summary vattrs led imgs

theorem pb {α β : Type} (a : α) (f : α → Except Err β) :
    ((pure a : Except Err α) >>= f) = f a := rfl

theorem okb {α β : Type} (a : α) (f : α → Except Err β) :
    ((Except.ok a : Except Err α) >>= f) = f a := rfl

theorem factor (fs : Files) (rpc : Nat) :
    openProduct fs rpc = (summaryRoles fs >>= fun r => rest fs rpc r.1 r.2.1 r.2.2.1 r.2.2.2.1) := by
  unfold openProduct summaryRoles
  cases fs.get "summary.txt" with
  | none => rfl
  | some stext =>
    dsimp only [pb]
    cases String.fromUTF8? (ByteArray.mk stext.toArray) with
    | none => rfl
    | some s =>
      dsimp only [pb]
      cases parseSummary s.toList with
      | error e => rfl
      | ok sections =>
        dsimp only [pb]
        cases transformSummary sections with
        | error e => rfl
        | ok summary =>
          dsimp only [pb, okb]
          cases sections.find? (fun s => s.1 = "pdi") with
          | none => rfl
          | some pdi =>
            dsimp only [pb, okb]
            cases fileRoles pdi.2 with
            | error e => rfl
            | ok roles => rfl

theorem mapM_fnf {β : Type} (f : String → Except Err β) (before : List String) (name : String) (after : List String)
    (hb : ∀ n ∈ before, ∃ g, f n = .ok g) (hm : f name = .error .fnf) :
    (before ++ name :: after).mapM f = .error .fnf := by
  induction before with
  | nil =>
    rw [List.nil_append, List.mapM_cons, hm]; rfl
  | cons a l ih =>
    obtain ⟨g, hg⟩ := hb a (by simp)
    rw [List.cons_append, List.mapM_cons, hg, ih (fun n hn => hb n (by simp [hn]))]; rfl

theorem mapM_congr' {β : Type} (f g : String → Except Err β) (l : List String)
    (h : ∀ n ∈ l, f n = g n) : l.mapM f = l.mapM g := by
  induction l with
  | nil => rfl
  | cons a l ih =>
    rw [List.mapM_cons, List.mapM_cons, h a (by simp), ih (fun n hn => h n (by simp [hn]))]

theorem rest_volume_ok (fs : Files) (rpc : Nat) (sm : List (String × SGroup)) (vol led : String) (imgs : List String)
    (vb : Bytes) (hv : fs.get vol = some vb) (vrec : Val) (hvp : parseRecord Gen.volumeDirectoryRecord vb = .ok vrec)
    (va : KVs Leaf) (hva : transformVolumeRecord realLeafFns vrec.toPVal = some va) :
    rest fs rpc sm vol led imgs = afterVolume fs rpc sm va led imgs := by
  unfold rest
  rw [hv]; dsimp only [pb]
  rw [hvp]; dsimp only [okb]
  rw [hva]

theorem afterVolume_leader_ok (fs : Files) (rpc : Nat) (sm : List (String × SGroup)) (va : KVs Leaf) (led : String)
    (imgs : List String)
    (lb : Bytes) (hl : fs.get led = some lb) (lrec : Val) (hlp : parseRecord Gen.sarLeaderRecord lb = .ok lrec)
    (md : Grp Leaf) (hmd : transformLeaderMetadata realLeafFns3 lrec.toPVal = some md) :
    afterVolume fs rpc sm va led imgs = afterLeader fs rpc sm va md imgs := by
  unfold afterVolume
  rw [hl]; dsimp only [pb]
  rw [hlp]; dsimp only [okb]
  rw [hmd]

theorem summaryRoles_congr (fs fs' : Files) (h : fs'.get "summary.txt" = fs.get "summary.txt") :
    summaryRoles fs' = summaryRoles fs := by
  unfold summaryRoles
  rw [h]

theorem rest_congr (fs fs' : Files) (rpc : Nat) (sm : List (String × SGroup)) (vol led : String) (imgs : List String)
    (hvol : fs'.get vol = fs.get vol) (hled : fs'.get led = fs.get led) (himgs : ∀ n ∈ imgs, fs'.get n = fs.get n) :
    rest fs' rpc sm vol led imgs = rest fs rpc sm vol led imgs := by
  have hm : imgs.mapM (imgStep fs' rpc) = imgs.mapM (imgStep fs rpc) :=
    mapM_congr' _ _ _ (fun n hn => by unfold imgStep; rw [himgs n hn])
  unfold rest afterVolume afterLeader
  rw [hvol, hled, hm]

end MissingF

/-- a failing summary step is the product's error -/
theorem openProduct_summary_error (fs : Files) (rpc : Nat) (e : Err) (h : summaryRoles fs = .error e) :
    openProduct fs rpc = .error e := by
  rw [MissingF.factor, h]; rfl

/-- the volume directory is the first file read after the summary: missing ⇒ FileNotFoundError -/
theorem openProduct_missing_volume (fs : Files) (rpc : Nat) (sm : List (String × SGroup)) (vol led trl : String) (imgs : List String)
    (h : summaryRoles fs = .ok (sm, (vol, led, imgs, trl))) (hm : fs.get vol = none) :
    openProduct fs rpc = .error .fnf := by
  rw [MissingF.factor, h]
  show MissingF.rest fs rpc sm vol led imgs = _
  unfold MissingF.rest
  rw [hm]; rfl

/-- then the leader: with a volume directory that parses and transforms, a missing leader ⇒ FileNotFoundError -/
theorem openProduct_missing_leader (fs : Files) (rpc : Nat) (sm : List (String × SGroup)) (vol led trl : String) (imgs : List String)
    (h : summaryRoles fs = .ok (sm, (vol, led, imgs, trl)))
    (vb : Bytes) (hv : fs.get vol = some vb) (vrec : Val) (hvp : parseRecord Gen.volumeDirectoryRecord vb = .ok vrec)
    (va : KVs Leaf) (hva : transformVolumeRecord realLeafFns vrec.toPVal = some va)
    (hm : fs.get led = none) :
    openProduct fs rpc = .error .fnf := by
  rw [MissingF.factor, h]
  show MissingF.rest fs rpc sm vol led imgs = _
  rw [MissingF.rest_volume_ok fs rpc sm vol led imgs vb hv vrec hvp va hva]
  unfold MissingF.afterVolume
  rw [hm]; rfl

/-- then the image files in the order of the summary: if volume directory and leader are fine, the images before `name` open and
    `name` is missing ⇒ FileNotFoundError -/
theorem openProduct_missing_image (fs : Files) (rpc : Nat) (sm : List (String × SGroup)) (vol led trl : String) (imgs : List String)
    (h : summaryRoles fs = .ok (sm, (vol, led, imgs, trl)))
    (vb : Bytes) (hv : fs.get vol = some vb) (vrec : Val) (hvp : parseRecord Gen.volumeDirectoryRecord vb = .ok vrec)
    (va : KVs Leaf) (hva : transformVolumeRecord realLeafFns vrec.toPVal = some va)
    (lb : Bytes) (hl : fs.get led = some lb) (lrec : Val) (hlp : parseRecord Gen.sarLeaderRecord lb = .ok lrec)
    (md : Grp Leaf) (hmd : transformLeaderMetadata realLeafFns3 lrec.toPVal = some md)
    (before : List String) (name : String) (after : List String) (himgs : imgs = before ++ name :: after)
    (hb : ∀ n ∈ before, ∃ b g, fs.get n = some b ∧ openImageFile b n rpc = .ok g)
    (hm : fs.get name = none) :
    openProduct fs rpc = .error .fnf := by
  rw [MissingF.factor, h]
  show MissingF.rest fs rpc sm vol led imgs = _
  rw [MissingF.rest_volume_ok fs rpc sm vol led imgs vb hv vrec hvp va hva,
    MissingF.afterVolume_leader_ok fs rpc sm va led imgs lb hl lrec hlp md hmd]
  unfold MissingF.afterLeader
  have hmap : imgs.mapM (MissingF.imgStep fs rpc) = .error .fnf := by
    rw [himgs]
    apply MissingF.mapM_fnf
    · intro n hn
      obtain ⟨b, g, h1, h2⟩ := hb n hn
      exact ⟨g, by unfold MissingF.imgStep; rw [h1]; exact h2⟩
    · unfold MissingF.imgStep; rw [hm]; rfl
  rw [hmap]; rfl

/-- THE TRAILER IS NEVER READ: two product directories that agree on every file except the one the summary gives the trailer
    role (and that file is none of the others) open to the same result — present, absent, truncated or garbage -/
theorem openProduct_trailer_never_read (fs fs' : Files) (rpc : Nat) (sm : List (String × SGroup)) (vol led trl : String)
    (imgs : List String)
    (h : summaryRoles fs = .ok (sm, (vol, led, imgs, trl)))
    (hsame : ∀ n, n ≠ trl → fs.get n = fs'.get n)
    (hdistinct : trl ≠ "summary.txt" ∧ trl ≠ vol ∧ trl ≠ led ∧ trl ∉ imgs) :
    openProduct fs' rpc = openProduct fs rpc := by
  obtain ⟨h1, h2, h3, h4⟩ := hdistinct
  rw [MissingF.factor, MissingF.factor,
    MissingF.summaryRoles_congr fs fs' (hsame _ (Ne.symm h1)).symm, h]
  show MissingF.rest fs' rpc sm vol led imgs = MissingF.rest fs rpc sm vol led imgs
  exact MissingF.rest_congr fs fs' rpc sm vol led imgs (hsame _ (Ne.symm h2)).symm (hsame _ (Ne.symm h3)).symm
    (fun n hn => (hsame n (fun e => h4 (e ▸ hn))).symm)
end Alos2

/-
Helper lemmas for the metadata pass over an image file (`Model/ImageIO.lean`).
-/
import Alos2.Model.ImageIO

namespace Alos2

/-! ### `chunkSizes` -/

private theorem ceil_mul_ge (n rpc : Nat) (h : 0 < rpc) : n ≤ rpc * ((n + rpc - 1) / rpc) := by
  have h1 := Nat.div_add_mod (n + rpc - 1) rpc
  have h2 := Nat.mod_lt (n + rpc - 1) h
  omega

private theorem lt_ceil_imp (n rpc i : Nat) (h : 0 < rpc) (hi : i < (n + rpc - 1) / rpc) :
    rpc * i < n := by
  have h1 : (i + 1) * rpc ≤ n + rpc - 1 := (Nat.le_div_iff_mul_le h).1 hi
  rw [Nat.add_mul, Nat.mul_comm i rpc] at h1
  omega

private theorem chunkSizes_sum_aux (n rpc : Nat) (h : 0 < rpc) :
    ∀ k, k ≤ (n + rpc - 1) / rpc →
      ((List.range k).map (fun i => if rpc * (i + 1) ≤ n then rpc else n - rpc * i)).sum
        = min (rpc * k) n := by
  intro k
  induction k with
  | zero => intro _; simp
  | succ k ih =>
    intro hk
    have hlt := lt_ceil_imp n rpc k h (by omega)
    rw [List.range_succ, List.map_append, List.sum_append, ih (by omega)]
    simp only [List.map_cons, List.map_nil, List.sum_cons, List.sum_nil, Nat.mul_add, Nat.mul_one]
    split <;> omega

theorem chunkSizes_sum (n rpc : Nat) (h : 0 < rpc) : (chunkSizes n rpc).sum = n := by
  unfold chunkSizes
  rw [chunkSizes_sum_aux n rpc h _ (Nat.le_refl _)]
  have := ceil_mul_ge n rpc h
  omega

theorem chunkSizes_length (n rpc : Nat) (h : 0 < rpc) : (chunkSizes n rpc).length = (n + rpc - 1) / rpc := by
  simp [chunkSizes]

theorem chunkSizes_bounds (n rpc : Nat) (h : 0 < rpc) : ∀ s ∈ chunkSizes n rpc, 0 < s ∧ s ≤ rpc := by
  intro s hs
  unfold chunkSizes at hs
  rw [List.mem_map] at hs
  obtain ⟨i, hi, rfl⟩ := hs
  rw [List.mem_range] at hi
  have hlt := lt_ceil_imp n rpc i h hi
  simp only [Nat.mul_add, Nat.mul_one]
  split <;> omega

/-! ### slices of slices -/

private theorem length_slice {α : Type} (l : List α) (a b : Nat) :
    (slice l a b).length = min (b - a) (l.length - a) := by
  simp [slice]

private theorem slice_slice {α : Type} (l : List α) (p m a b : Nat) (hb : b ≤ m) :
    slice (slice l p (p + m)) a b = slice l (p + a) (p + b) := by
  unfold slice
  rw [List.drop_take, List.take_take, List.drop_drop]
  congr 1
  omega

private theorem getD_slice {α : Type} (l : List α) (p m i : Nat) (d : α) (hi : i < m) :
    (slice l p (p + m)).getD i d = l.getD (p + i) d := by
  unfold slice
  simp only [List.getD_eq_getElem?_getD, List.getElem?_take, List.getElem?_drop]
  rw [if_pos (by omega)]

/-! ### `walkRecords` / `parseChunk` without well-formedness -/

private theorem walkRecords_length (content : Bytes) (P : Nat) :
    ∀ count pos rs, walkRecords content P count pos = .ok rs → rs.length = count := by
  intro count
  induction count with
  | zero => intro pos rs h; simp [walkRecords] at h; subst h; rfl
  | succ c ih =>
    intro pos rs h
    unfold walkRecords at h
    split at h
    · cases h
    · simp only at h
      split at h
      · cases h
      · rename_i rest hrest
        cases h
        simp [ih _ _ hrest]

private theorem parseChunk_length (t : RecordTypes) (content : Bytes) (L : Nat) (rs : List (Nat × Nat × Nat))
    (h : parseChunk t content L = .ok rs) : rs.length * L = content.length ∧ 12 ≤ content.length := by
  unfold parseChunk at h
  split at h
  · cases h
  · simp only at h
    split at h
    · cases h
    · split at h
      · cases h
      · split at h
        · cases h
        · have := walkRecords_length _ _ _ _ _ h
          rw [this]
          omega

/-! ### `readMetadata.go` without well-formedness -/

private theorem go_count (t : RecordTypes) (file : Bytes) (L : Nat) :
    ∀ sizes pos offs rs, (readMetadata.go t file L pos sizes offs).1 = .ok rs →
      rs.length * L ≤ file.length - pos := by
  intro sizes
  induction sizes with
  | nil => intro pos offs rs h; simp [readMetadata.go] at h; subst h; simp
  | cons s ss ih =>
    intro pos offs rs h
    unfold readMetadata.go at h
    simp only at h
    split at h
    · cases h
    · rename_i recs hrecs
      have hp := parseChunk_length _ _ _ _ hrecs
      rw [length_slice] at hp
      split at h
      · cases h
      · rename_i rest tr hrest
        have hr := ih _ _ rest (by rw [hrest])
        simp only [Except.ok.injEq] at h
        subst h
        rw [length_slice] at hr
        simp only [List.length_append, List.length_map, Nat.add_mul]
        omega

private theorem go_prefix (t : RecordTypes) (file : Bytes) (L : Nat) :
    ∀ sizes pos offs, (readMetadata.go t file L pos sizes offs).2 <+: sizes.map (· * L) := by
  intro sizes
  induction sizes with
  | nil => intro pos offs; simp [readMetadata.go]
  | cons s ss ih =>
    intro pos offs
    unfold readMetadata.go
    simp only
    split
    · simp [List.prefix_cons_iff]
    · have hr := ih (pos + (slice file pos (pos + s * L)).length) offs.tail
      split
      · rename_i e tr hrest
        rw [hrest] at hr
        simpa [List.cons_prefix_cons] using hr
      · rename_i rest tr hrest
        rw [hrest] at hr
        simpa [List.cons_prefix_cons] using hr

/-- Whatever the bytes are: the records returned all come from bytes actually present in the file. -/
theorem readMetadata_count (t : RecordTypes) (file : Bytes) (n L rpc : Nat) (rs : List (Nat × Nat × Nat))
    (h : (readMetadata t file n L rpc).1 = .ok rs) : rs.length * L ≤ file.length - headerSize := by
  unfold readMetadata at h
  simp only at h
  split at h
  · cases h
  · exact go_count t file L _ _ _ rs h

/-- the read requests issued are always a prefix of the planned sequential requests -/
theorem readMetadata_reads_prefix (t : RecordTypes) (file : Bytes) (n L rpc : Nat) (hrpc : 0 < rpc) :
    (readMetadata t file n L rpc).2 <+: (chunkSizes n rpc).map (· * L) := by
  unfold readMetadata
  simp only
  rw [if_neg (by omega)]
  exact go_prefix t file L _ _ _

/-! ### well-formed files -/

/-- A well-formed image file: after the 720-byte descriptor come `n` records of `L` bytes whose preambles
    declare record type `code` (with a known layout of prefix length `P`) and record length `L`;
    anything may follow. -/
structure WellFormedImage (t : RecordTypes) (file : Bytes) (n L P code : Nat) : Prop where
  plen : t.prefixLen code = some P
  hP : 12 ≤ P
  hL : P ≤ L
  size : headerSize + n * L ≤ file.length
  rl : ∀ i, i < n → beNat (slice file (headerSize + i * L + 8) (headerSize + i * L + 12)) = L
  ty : ∀ i, i < n → (file.getD (headerSize + i * L + 5) 0).toNat = code

private theorem chunk_length (file : Bytes) (n L a s : Nat)
    (hsize : headerSize + n * L ≤ file.length) (has : a + s ≤ n) :
    (slice file (headerSize + a * L) (headerSize + a * L + s * L)).length = s * L := by
  rw [length_slice]
  have : (a + s) * L ≤ n * L := Nat.mul_le_mul_right L has
  rw [Nat.add_mul] at this
  omega

private theorem walkRecords_wf (t : RecordTypes) (file : Bytes) (n L P code a s : Nat)
    (hw : WellFormedImage t file n L P code) (has : a + s ≤ n) :
    ∀ c j, j + c ≤ s →
      walkRecords (slice file (headerSize + a * L) (headerSize + a * L + s * L)) P c (j * L)
        = .ok ((List.range c).map (fun i => ((j + i) * L, (j + i) * L + P, (j + i + 1) * L))) := by
  intro c
  induction c with
  | zero => intro j _; simp [walkRecords]
  | succ c ih =>
    intro j hj
    unfold walkRecords
    have hlen := chunk_length file n L a s hw.size has
    have h1 : (j + 1) * L ≤ s * L := Nat.mul_le_mul_right L (by omega)
    rw [Nat.add_mul, Nat.one_mul] at h1
    have hP := hw.hP
    have hL := hw.hL
    rw [if_neg (by rw [hlen]; omega)]
    simp only
    rw [slice_slice _ _ _ _ _ (by omega)]
    have hrl := hw.rl (a + j) (by omega)
    rw [Nat.add_mul] at hrl
    have e1 : headerSize + a * L + (j * L + 8) = headerSize + (a * L + j * L) + 8 := by omega
    have e2 : headerSize + a * L + (j * L + 12) = headerSize + (a * L + j * L) + 12 := by omega
    rw [e1, e2, hrl]
    have e3 : j * L + L = (j + 1) * L := by rw [Nat.add_mul, Nat.one_mul]
    rw [e3, ih (j + 1) (by omega)]
    simp only [List.range_succ_eq_map, List.map_cons, List.map_map, Nat.add_zero]
    congr 2
    apply List.map_congr_left
    intro i _
    simp only [Function.comp, Nat.succ_eq_add_one]
    have e4 : j + 1 + i = j + (i + 1) := by omega
    rw [e4]

private theorem parseChunk_wf (t : RecordTypes) (file : Bytes) (n L P code a s : Nat)
    (hw : WellFormedImage t file n L P code) (has : a + s ≤ n) (hs : 0 < s) :
    parseChunk t (slice file (headerSize + a * L) (headerSize + a * L + s * L)) L
      = .ok ((List.range s).map (fun i => (i * L, i * L + P, (i + 1) * L))) := by
  have hlen := chunk_length file n L a s hw.size has
  have hP := hw.hP
  have hL := hw.hL
  have hsL : L ≤ s * L := Nat.le_mul_of_pos_left L hs
  unfold parseChunk
  rw [if_neg (by omega)]
  simp only [hlen]
  rw [Nat.mul_div_cancel _ (by omega : 0 < L)]
  rw [if_neg (by simp), if_neg (by omega)]
  rw [getD_slice _ _ _ _ _ (by omega)]
  rw [hw.ty a (by omega), hw.plen]
  simp only
  have := walkRecords_wf t file n L P code a s hw has s 0 (by omega)
  rw [Nat.zero_mul] at this
  rw [this]
  simp only [Nat.zero_add]

private theorem go_wf (t : RecordTypes) (file : Bytes) (n L P code : Nat)
    (hw : WellFormedImage t file n L P code) :
    ∀ sizes a, (∀ s ∈ sizes, 0 < s) → a + sizes.sum ≤ n →
      readMetadata.go t file L (headerSize + a * L) sizes (chunkOffsets.go L a sizes)
        = (.ok ((List.range sizes.sum).map
              (fun j => (headerSize + (a + j) * L, headerSize + (a + j) * L + P,
                         headerSize + (a + j + 1) * L))),
           sizes.map (· * L)) := by
  intro sizes
  induction sizes with
  | nil => intro a _ _; simp [readMetadata.go]
  | cons s ss ih =>
    intro a hpos hsum
    rw [List.sum_cons] at hsum
    have hs : 0 < s := hpos s (by simp)
    unfold readMetadata.go
    simp only
    rw [parseChunk_wf t file n L P code a s hw (by omega) hs]
    simp only
    rw [chunk_length file n L a s hw.size (by omega)]
    have e1 : headerSize + a * L + s * L = headerSize + (a + s) * L := by
      rw [Nat.add_mul]; omega
    have e2 : (chunkOffsets.go L a (s :: ss)).tail = chunkOffsets.go L (a + s) ss := by
      simp [chunkOffsets.go]
    have e3 : (chunkOffsets.go L a (s :: ss)).headD 0 = a * L + headerSize := by
      simp [chunkOffsets.go]
    rw [e1, e2, e3, ih (a + s) (fun x hx => hpos x (by simp [hx])) (by omega)]
    simp only [List.sum_cons, List.map_cons, List.range_add, List.map_append, List.map_map]
    congr 2
    congr 1
    · apply List.map_congr_left
      intro i _
      simp only [Function.comp, Nat.add_mul, Nat.one_mul]
      refine Prod.ext ?_ (Prod.ext ?_ ?_) <;> simp only <;> omega
    · apply List.map_congr_left
      intro i _
      simp only [Function.comp, Nat.add_assoc]

/-- On a well-formed file the metadata pass returns, for every positive `records_per_chunk`,
    exactly the record starts / sample starts / record ends the file declares, and issues the
    read requests `chunkSizes n rpc` (in records) — the result does not depend on `rpc`. -/
theorem readMetadata_wf (t : RecordTypes) (file : Bytes) (n L P code rpc : Nat)
    (hw : WellFormedImage t file n L P code) (hrpc : 0 < rpc) :
    readMetadata t file n L rpc =
      (.ok ((List.range n).map (fun i => (headerSize + i * L, headerSize + i * L + P, headerSize + (i + 1) * L))),
       (chunkSizes n rpc).map (· * L)) := by
  unfold readMetadata
  simp only
  rw [if_neg (by omega)]
  unfold chunkOffsets
  have h := go_wf t file n L P code hw (chunkSizes n rpc) 0
    (fun s hs => (chunkSizes_bounds n rpc hrpc s hs).1) (by rw [chunkSizes_sum n rpc hrpc]; omega)
  rw [Nat.zero_mul, Nat.add_zero] at h
  rw [h, chunkSizes_sum n rpc hrpc]
  simp only [Nat.zero_add]

end Alos2

/-
`records_per_chunk` never changes what is read (C06), on the LAYOUT-based model of the image reader: for a well-framed
image (every line record's preamble declares the header's record length L and the same record type), two successful opens with
any two positive chunk sizes return the same header, the same line records (values AND rebased addresses), hence the same
image group and the same array metadata except the chunk size itself.
-/
import Alos2.Proofs.LineAddr
import Alos2.Proofs.ImageOpen
import Alos2.Proofs.ImageIO

namespace Alos2
namespace RpcIndep
open Layout LineAddr

/-! ### `mapKey` algebra -/

theorem mapKey_nil (n : String) (f : Val → Val) : mapKey n f [] = [] := rfl

theorem mapKey_cons (n : String) (f : Val → Val) (a : String × Val) (l : List (String × Val)) :
    mapKey n f (a :: l) = (if a.1 = n then (a.1, f a.2) else a) :: mapKey n f l := rfl

theorem mapKey_reverse (n : String) (f : Val → Val) (l : List (String × Val)) :
    mapKey n f l.reverse = (mapKey n f l).reverse := by
  unfold mapKey; rw [List.map_reverse]

theorem any_mapKey (n : String) (f : Val → Val) (l : List (String × Val)) (name : String) :
    (mapKey n f l).any (fun kv => kv.1 = name) = l.any (fun kv => kv.1 = name) := by
  induction l with
  | nil => rfl
  | cons a l ih =>
    rw [mapKey_cons, List.any_cons, List.any_cons, ih]
    congr 1
    split <;> rfl

theorem mapKey_id (n : String) (l : List (String × Val)) : mapKey n id l = l := by
  induction l with
  | nil => rfl
  | cons a l ih => rw [mapKey_cons, ih]; split <;> rfl

theorem mapKey_mapKey (n : String) (f g : Val → Val) (l : List (String × Val)) :
    mapKey n f (mapKey n g l) = mapKey n (fun x => f (g x)) l := by
  induction l with
  | nil => rfl
  | cons a l ih =>
    rw [mapKey_cons, mapKey_cons, mapKey_cons, ih]
    by_cases h : a.1 = n <;> simp [h]

theorem mapKey_comm (n m : String) (f g : Val → Val) (l : List (String × Val)) (hnm : ¬ n = m) :
    mapKey n f (mapKey m g l) = mapKey m g (mapKey n f l) := by
  induction l with
  | nil => rfl
  | cons a l ih =>
    rw [mapKey_cons, mapKey_cons, mapKey_cons, mapKey_cons, ih]
    obtain ⟨k, x⟩ := a
    have hmn : ¬ m = n := fun h => hnm h.symm
    by_cases h1 : k = n
    · subst h1
      simp [hnm]
    · by_cases h2 : k = m
      · subst h2; simp [hmn]
      · simp [h1, h2]

theorem mapKey_congr (n : String) (f g : Val → Val) (l : List (String × Val)) (h : ∀ x, f x = g x) :
    mapKey n f l = mapKey n g l := by
  have : f = g := funext h
  rw [this]

theorem mapKey_absent (n : String) (f : Val → Val) (l : List (String × Val))
    (h : l.any (fun kv => kv.1 = n) = false) : mapKey n f l = l := by
  induction l with
  | nil => rfl
  | cons a l ih =>
    simp only [List.any_cons, Bool.or_eq_false_iff, decide_eq_false_iff_not] at h
    rw [mapKey_cons, if_neg h.1, ih h.2]

theorem mapKey_map_ne (n : String) (f : Val → Val) (l : List (String × Val)) (name : String) (v : Val)
    (h : ¬ name = n) :
    mapKey n f (l.map (fun kv => if kv.1 = name then (name, v) else kv)) =
      (mapKey n f l).map (fun kv => if kv.1 = name then (name, v) else kv) := by
  induction l with
  | nil => rfl
  | cons a l ih =>
    rw [List.map_cons, mapKey_cons, mapKey_cons, List.map_cons, ih]
    congr 1
    obtain ⟨k, x⟩ := a
    by_cases h1 : k = name
    · subst h1
      simp [h]
    · by_cases h3 : k = n
      · subst h3; simp [h1]
      · simp [h1, h3]

theorem mapKey_setField_ne (n : String) (f : Val → Val) (l : List (String × Val)) (name : String) (v : Val)
    (h : ¬ name = n) : mapKey n f (setField l name v) = setField (mapKey n f l) name v := by
  unfold setField
  rw [any_mapKey]
  split
  · exact mapKey_map_ne n f l name v h
  · rw [mapKey_cons]
    simp only [if_neg h]

theorem mapKey_map_same (n : String) (f : Val → Val) (l : List (String × Val)) (v : Val) :
    mapKey n f (l.map (fun kv => if kv.1 = n then (n, v) else kv)) =
      l.map (fun kv => if kv.1 = n then (n, f v) else kv) := by
  induction l with
  | nil => rfl
  | cons a l ih =>
    rw [List.map_cons, mapKey_cons, List.map_cons, ih]
    congr 1
    obtain ⟨k, x⟩ := a
    by_cases h1 : k = n
    · subst h1; simp
    · simp [h1]

theorem mapKey_setField_same (n : String) (f : Val → Val) (l : List (String × Val)) (v : Val) :
    mapKey n f (setField l n v) = setField l n (f v) := by
  unfold setField
  split
  · exact mapKey_map_same n f l v
  · rename_i hex
    rw [mapKey_cons]
    simp only [if_pos]
    rw [mapKey_absent _ _ _ (Bool.eq_false_iff.mpr hex)]

theorem lookupField_mapKey_ne (n : String) (f : Val → Val) (l : List (String × Val)) (name : String)
    (h : ¬ name = n) : lookupField (mapKey n f l) name = lookupField l name := by
  have := get_mapKey n f l name
  rw [if_neg h] at this
  exact this

theorem lookupField_mapKey_eq (n : String) (f : Val → Val) (l : List (String × Val)) :
    lookupField (mapKey n f l) n = (lookupField l n).map f := by
  have := get_mapKey n f l n
  rw [if_pos rfl] at this
  exact this

def mapKeyV (n : String) (f : Val → Val) : Val → Val
  | .dict kvs => .dict (mapKey n f kvs)
  | o => o

theorem mapKeyV_id (n : String) (v : Val) : mapKeyV n id v = v := by
  cases v <;> simp [mapKeyV, mapKey_id]


/-! ### translation of windows -/

theorem slice_shift_sub {α : Type} {l l' : List α} {a a' k : Nat} (h : slice l a (a + k) = slice l' a' (a' + k))
    (i j : Nat) (hj : j ≤ k) : slice l (a + i) (a + j) = slice l' (a' + i) (a' + j) := by
  apply List.ext_getElem?
  intro x
  rw [slice_getElem?, slice_getElem?]
  rw [show a + j - (a + i) = j - i by omega, show a' + j - (a' + i) = j - i by omega]
  split
  · have := congrArg (fun y => y[i + x]?) h
    simp only [slice_getElem?] at this
    rw [if_pos (by omega), if_pos (by omega)] at this
    rw [Nat.add_assoc, Nat.add_assoc]
    exact this
  · rfl

theorem readBytes_shift {bs bs' : Bytes} {pos pos' k i n : Nat} {raw : Bytes}
    (hsame : slice bs pos (pos + k) = slice bs' pos' (pos' + k)) (hlen' : pos' + k ≤ bs'.length)
    (hn : i + n ≤ k) (h : readBytes bs (pos + i) n = .ok raw) : readBytes bs' (pos' + i) n = .ok raw := by
  obtain ⟨-, rfl⟩ := readBytes_ok h
  unfold readBytes
  rw [if_pos (by omega)]
  congr 1
  rw [Nat.add_assoc, Nat.add_assoc]
  exact (slice_shift_sub hsame i (i + n) hn).symm

theorem readBytes_shift0 {bs bs' : Bytes} {pos pos' n : Nat} {raw : Bytes}
    (hsame : slice bs pos (pos + n) = slice bs' pos' (pos' + n)) (hlen' : pos' + n ≤ bs'.length)
    (h : readBytes bs pos n = .ok raw) : readBytes bs' pos' n = .ok raw := by
  have := readBytes_shift (i := 0) hsame hlen' (by omega) h
  simpa using this

/-! ### constructs whose parse does not depend on the stream position, on the outer context, or on the member `nm`
    of the current level -/

mutual
def conOK (nm : String) : Con → Bool
  | .struct fs => fieldsOK nm fs
  | .uint _ => true
  | .flag _ => true
  | .bytes (.const _) => true
  | .factor _ sub => conOK nm sub
  | .wmeta _ sub => conOK nm sub
  | .enum _ sub => conOK nm sub
  | .ydms sub => conOK nm sub
  | .ydus sub (.path (n :: _)) => conOK nm sub && (n != "_" && n != nm)
  | _ => false
def fieldsOK (nm : String) : List (String × Con) → Bool
  | [] => true
  | (name, c) :: rest => name != nm && (conOK nm c && fieldsOK nm rest)
end

theorem resolve_head (lvl lvl' : List (String × Val)) (outer outer' : Ctx) (n : String) (rest : List String)
    (hn : ¬ n = "_") (hl : lookupField lvl' n = lookupField lvl n) :
    resolve (lvl' :: outer') (n :: rest) = resolve (lvl :: outer) (n :: rest) := by
  rw [resolve.eq_2 _ _ _ _ hn, resolve.eq_2 _ _ _ _ hn, hl]

theorem shift_joint :
    (∀ (c : Con) (ctx : Ctx) (bs : Bytes) (pos : Nat),
      ∀ (nm : String) (lvl lvl' : List (String × Val)) (outer outer' : Ctx) (bs' : Bytes) (pos' k : Nat) (v : Val) (p : Nat),
        ctx = lvl :: outer → (∀ name, ¬ name = nm → lookupField lvl' name = lookupField lvl name) →
        conOK nm c = true → Con.sizeWith false c = some k →
        slice bs pos (pos + k) = slice bs' pos' (pos' + k) → pos' + k ≤ bs'.length →
        parse c ctx bs pos = .ok (v, p) → parse c (lvl' :: outer') bs' pos' = .ok (v, pos' + k)) ∧
    (∀ (fs : List (String × Con)) (ctx : Ctx) (bs : Bytes) (pos : Nat),
      ∀ (nm : String) (g : Val → Val) (lvl : List (String × Val)) (outer outer' : Ctx) (bs' : Bytes) (pos' k : Nat)
        (v : Val) (p : Nat),
        ctx = lvl :: outer → fieldsOK nm fs = true → Con.sizeFields false fs = some k →
        slice bs pos (pos + k) = slice bs' pos' (pos' + k) → pos' + k ≤ bs'.length →
        parseFields fs ctx bs pos = .ok (v, p) →
        parseFields fs (mapKey nm g lvl :: outer') bs' pos' = .ok (mapKeyV nm g v, pos' + k)) := by
  apply parse.mutual_induct
  case case1 =>
    intro fs ctx bs pos ih nm lvl lvl' outer outer' bs' pos' k v p hctx hag hok hs hsame hl' h
    rw [conOK] at hok; rw [Con.sizeWith] at hs; rw [parse] at h ⊢
    have := ih nm id [] ctx (lvl' :: outer') bs' pos' k v p rfl hok hs hsame hl' h
    rw [mapKey_nil, mapKeyV_id] at this
    exact this
  case case2 =>
    intro n ctx bs pos nm lvl lvl' outer outer' bs' pos' k v p hctx hag hok hs hsame hl' h
    rw [Con.sizeWith] at hs; rw [parse] at h ⊢
    simp at hs; subst hs
    simp only [bind_ok, pure_ok] at h ⊢
    obtain ⟨raw, h1, h2⟩ := h
    simp at h2
    exact ⟨raw, readBytes_shift0 hsame hl' h1, by simp [h2.1]⟩
  case case3 => intro e ctx bs pos nm lvl lvl' outer outer' bs' pos' k v p hctx hag hok; simp [conOK] at hok
  case case4 => intro e ctx bs pos nm lvl lvl' outer outer' bs' pos' k v p hctx hag hok; simp [conOK] at hok
  case case5 => intro e ctx bs pos nm lvl lvl' outer outer' bs' pos' k v p hctx hag hok; simp [conOK] at hok
  case case6 => intro e ctx bs pos nm lvl lvl' outer outer' bs' pos' k v p hctx hag hok; simp [conOK] at hok
  case case7 =>
    intro e ctx bs pos nm lvl lvl' outer outer' bs' pos' k v p hctx hag hok hs hsame hl' h
    cases e <;> simp [Con.sizeWith] at hs
    obtain ⟨hv, rfl⟩ := hs
    rw [parse] at h ⊢
    rw [evalLen_const_eq _ hv] at h ⊢
    simp only [bind_ok, pure_ok] at h ⊢
    obtain ⟨n, h0, raw, h1, h2⟩ := h
    simp at h0; subst h0
    simp at h2
    exact ⟨_, rfl, raw, readBytes_shift0 hsame hl' h1, by simp [h2.1]⟩
  case case8 => intro count elem ctx bs pos ih nm lvl lvl' outer outer' bs' pos' k v p hctx hag hok; simp [conOK] at hok
  case case9 =>
    intro f sub ctx bs pos ih nm lvl lvl' outer outer' bs' pos' k v p hctx hag hok hs hsame hl' h
    rw [conOK] at hok; rw [Con.sizeWith] at hs; rw [parse] at h ⊢
    simp only [bind_ok, pure_ok] at h ⊢
    obtain ⟨⟨v1, p1⟩, h1, w, hw, h2⟩ := h
    simp at h2
    exact ⟨_, ih nm lvl lvl' outer outer' bs' pos' k v1 p1 hctx hag hok hs hsame hl' h1, w, hw, by simp [h2.1]⟩
  case case10 =>
    intro attrs sub ctx bs pos ih nm lvl lvl' outer outer' bs' pos' k v p hctx hag hok hs hsame hl' h
    rw [conOK] at hok; rw [Con.sizeWith] at hs; rw [parse] at h ⊢
    simp only [bind_ok, pure_ok] at h ⊢
    obtain ⟨⟨v1, p1⟩, h1, h2⟩ := h
    simp at h2
    exact ⟨_, ih nm lvl lvl' outer outer' bs' pos' k v1 p1 hctx hag hok hs hsame hl' h1, by simp [h2.1]⟩
  case case11 =>
    intro table sub ctx bs pos ih nm lvl lvl' outer outer' bs' pos' k v p hctx hag hok hs hsame hl' h
    rw [conOK] at hok; rw [Con.sizeWith] at hs; rw [parse] at h ⊢
    simp only [bind_ok, pure_ok] at h ⊢
    obtain ⟨⟨v1, p1⟩, h1, w, hw, h2⟩ := h
    simp at h2
    exact ⟨_, ih nm lvl lvl' outer outer' bs' pos' k v1 p1 hctx hag hok hs hsame hl' h1, w, hw, by simp [h2.1]⟩
  case case12 =>
    intro n ctx bs pos nm lvl lvl' outer outer' bs' pos' k v p hctx hag hok hs hsame hl' h
    rw [Con.sizeWith] at hs; rw [parse] at h ⊢
    simp at hs; subst hs
    simp only [bind_ok, pure_ok] at h ⊢
    obtain ⟨raw, h1, h2⟩ := h
    simp at h2
    exact ⟨raw, readBytes_shift0 hsame hl' h1, by simp [h2.1]⟩
  case case13 =>
    intro sub ctx bs pos ih nm lvl lvl' outer outer' bs' pos' k v p hctx hag hok hs hsame hl' h
    rw [conOK] at hok; rw [Con.sizeWith] at hs; rw [parse] at h ⊢
    simp only [bind_ok, pure_ok] at h ⊢
    obtain ⟨⟨v1, p1⟩, h1, w, hw, h2⟩ := h
    simp at h2
    exact ⟨_, ih nm lvl lvl' outer outer' bs' pos' k v1 p1 hctx hag hok hs hsame hl' h1, w, hw, by simp [h2.1]⟩
  case case14 =>
    intro sub ref ctx bs pos ih nm lvl lvl' outer outer' bs' pos' k v p hctx hag hok hs hsame hl' h
    rw [Con.sizeWith] at hs
    cases ref with
    | const _ => simp [conOK] at hok
    | add _ _ => simp [conOK] at hok
    | sub _ _ => simp [conOK] at hok
    | mul _ _ => simp [conOK] at hok
    | path pth =>
      cases pth with
      | nil => simp [conOK] at hok
      | cons n rest =>
        simp [conOK] at hok
        obtain ⟨hok, hn1, hn2⟩ := hok
        subst hctx
        simp only [parse, bind_ok, pure_ok] at h ⊢
        obtain ⟨⟨v1, p1⟩, h1, w, hw, h2⟩ := h
        simp at h2
        refine ⟨_, ih nm lvl lvl' outer outer' bs' pos' k v1 p1 rfl hag hok hs hsame hl' h1, w, ?_, by simp [h2.1]⟩
        simp only
        rw [resolve_head lvl lvl' outer outer' n rest hn1 (hag n hn2)]
        exact hw
  case case15 => intro ctx bs pos nm lvl lvl' outer outer' bs' pos' k v p hctx hag hok; simp [conOK] at hok
  case case16 => intro e ctx bs pos nm lvl lvl' outer outer' bs' pos' k v p hctx hag hok; simp [conOK] at hok
  case case17 => intro e ctx bs pos v0 he nm lvl lvl' outer outer' bs' pos' k v p hctx hag hok; simp [conOK] at hok
  case case18 => intro e ctx bs pos he nm lvl lvl' outer outer' bs' pos' k v p hctx hag hok; simp [conOK] at hok
  case case19 =>
    intro ctx bs pos nm g lvl outer outer' bs' pos' k v p hctx hok hs hsame hl' h
    subst hctx
    rw [Con.sizeFields] at hs; rw [parseFields] at h ⊢
    simp at h hs
    subst hs
    obtain ⟨rfl, rfl⟩ := h
    simp [mapKeyV, mapKey_reverse]
  case case20 =>
    intro name c rest ctx bs pos ih1 ih2 nm g lvl outer outer' bs' pos' k v p hctx hok hs hsame hl' h
    subst hctx
    rw [fieldsOK] at hok
    simp only [Bool.and_eq_true, bne_iff_ne, ne_eq] at hok
    obtain ⟨hname, hokc, hokr⟩ := hok
    rw [Con.sizeFields] at hs
    split at hs
    · rename_i a b ha hb
      simp at hs; subst hs
      rw [parseFields] at h ⊢
      simp only [bind_ok] at h ⊢
      obtain ⟨⟨v1, p1⟩, h1, h2⟩ := h
      obtain ⟨rfl, _⟩ := static_joint.1 c _ _ _ a _ _ ha h1
      have e1 := ih1 nm lvl (mapKey nm g lvl) outer outer' bs' pos' a v1 _ rfl
        (fun nme hne => lookupField_mapKey_ne nm g lvl nme hne) hokc ha
        (by have := slice_shift_sub hsame 0 a (by omega); simpa using this) (by omega) h1
      refine ⟨_, e1, ?_⟩
      have e2 := ih2 v1 (pos + a) nm g (setField lvl name v1) outer outer' bs' (pos' + a) b v p rfl hokr hb
        (by have := slice_shift_sub hsame a (a + b) (by omega)
            rw [← Nat.add_assoc, ← Nat.add_assoc] at this; exact this) (by omega) h2
      rw [mapKey_setField_ne nm g lvl name v1 hname, Nat.add_assoc] at e2
      exact e2
    · simp at hs


/-- a run of position-independent members at the front of a struct, on two streams -/
theorem run_shift (nm : String) (g : Val → Val) (rest : List (String × Con)) (bs bs' : Bytes) (outer outer' : Ctx) :
    ∀ (fs : List (String × Con)) (k : Nat) (lvl : List (String × Val)) (pos pos' : Nat) (r : Val × Nat),
      fieldsOK nm fs = true → Con.sizeFields false fs = some k →
      slice bs pos (pos + k) = slice bs' pos' (pos' + k) → pos' + k ≤ bs'.length →
      parseFields (fs ++ rest) (lvl :: outer) bs pos = .ok r → KeysNodup lvl →
      ∃ lvl1, parseFields rest (lvl1 :: outer) bs (pos + k) = .ok r ∧ KeysNodup lvl1 ∧
        parseFields (fs ++ rest) (mapKey nm g lvl :: outer') bs' pos' =
          parseFields rest (mapKey nm g lvl1 :: outer') bs' (pos' + k) ∧
        (0 < k → pos + k ≤ bs.length) ∧
        ∀ name, name ∉ fs.map Prod.fst → lookupField lvl1 name = lookupField lvl name := by
  intro fs
  induction fs with
  | nil =>
    intro k lvl pos pos' r _ hs _ _ h hnd
    simp [Con.sizeFields] at hs
    subst hs
    exact ⟨lvl, h, hnd, rfl, by omega, fun _ _ => rfl⟩
  | cons f fs ih =>
    intro k lvl pos pos' r hok hs hsame hl' h hnd
    obtain ⟨name, c⟩ := f
    rw [fieldsOK] at hok
    simp only [Bool.and_eq_true, bne_iff_ne, ne_eq] at hok
    obtain ⟨hname, hokc, hokr⟩ := hok
    rw [List.cons_append] at h ⊢
    obtain ⟨v1, p1, h1, h2⟩ := parseFields_cons_ok h
    rw [Con.sizeFields] at hs
    split at hs
    · rename_i a b ha hb
      simp at hs; subst hs
      obtain ⟨rfl, hb1⟩ := static_joint.1 c _ _ _ a _ _ ha h1
      have e1 := shift_joint.1 c _ bs pos nm lvl (mapKey nm g lvl) outer outer' bs' pos' a v1 _ rfl
        (fun nme hne => lookupField_mapKey_ne nm g lvl nme hne) hokc ha
        (by have := slice_shift_sub hsame 0 a (by omega); simpa using this) (by omega) h1
      obtain ⟨lvl1, i1, i0, i2, i3, i4⟩ := ih b (setField lvl name v1) (pos + a) (pos' + a) r hokr hb
        (by have := slice_shift_sub hsame a (a + b) (by omega)
            rw [← Nat.add_assoc, ← Nat.add_assoc] at this; exact this) (by omega) h2
        (KeysNodup_setField name v1 hnd)
      refine ⟨lvl1, by rw [← Nat.add_assoc]; exact i1, i0, ?_, ?_, ?_⟩
      · rw [parseFields, e1]
        simp only [bind, Except.bind]
        rw [← mapKey_setField_ne nm g lvl name v1 hname, i2, Nat.add_assoc]
      · intro hk
        rcases Nat.eq_zero_or_pos b with hb0 | hb0
        · subst hb0; have := hb1 (by omega); omega
        · have := i3 hb0; omega
      · intro nme hnm
        simp only [List.map_cons, List.mem_cons, not_or] at hnm
        rw [i4 nme hnm.2, lookupField_setField, if_neg hnm.1]
    · simp at hs

/-- the value of the closing `data` member -/
def dataVal (q start rl : Nat) : Val :=
  .dict [("start", .leaf (.int q)), ("size", .leaf (.int ((rl : Int) - ((q : Int) - (start : Int))))),
    ("stop", .leaf (.int ((start + rl : Nat) : Int)))]

theorem data_value {lvl : List (String × Val)} {outer : Ctx} {bs : Bytes} {q : Nat} {start rl : Nat} {vp : Val}
    (h1 : lookupField lvl "record_start" = some (.leaf (.int (start : Nat))))
    (h2 : lookupField lvl "preamble" = some vp)
    (h3 : vp.get? "record_length" = some (.leaf (.int (rl : Nat)))) :
    parse dataCon (lvl :: outer) bs q = .ok (dataVal q start rl, start + rl) := by
  unfold dataCon dataVal
  simp [parse, parseFields, setField, Expr.eval, resolve, h1, h2, h3, Val.toInt?, evalLen,
    bind, Except.bind, pure, Except.pure]
  have hnn : ¬ ((start : Int) + (rl : Int) < 0) := by omega
  have htn : ((start : Int) + (rl : Int)).toNat = start + rl := by omega
  simp [lookupField, Val.toInt?, hnn, htn]


theorem fieldsOK_not_mem (nm : String) (fs : List (String × Con)) (h : fieldsOK nm fs = true) :
    nm ∉ fs.map Prod.fst := by
  induction fs with
  | nil => simp
  | cons f fs ih =>
    obtain ⟨name, c⟩ := f
    rw [fieldsOK] at h
    simp only [Bool.and_eq_true, bne_iff_ne, ne_eq] at h
    simp only [List.map_cons, List.mem_cons, not_or]
    exact ⟨fun hh => h.1 hh.symm, ih h.2.2⟩

theorem bumpLeaf_comp (a b c : Int) (h : b + a = c) (x : Val) : bumpLeaf a (bumpLeaf b x) = bumpLeaf c x := by
  cases x with
  | leaf l =>
    cases l with
    | int i => simp only [bumpLeaf]; congr 2; omega
    | _ => rfl
  | _ => rfl

/-- shape of a line-record layout: `Tell`, position-independent members of total size `P`, the `data` member -/
def lineCon (mid : List (String × Con)) : Con := .struct (("record_start", .tell) :: (mid ++ [("data", dataCon)]))

theorem dataAdj_val (q start rl : Nat) (P : Nat) (hq : q = start + P) :
    bumpField (-(start : Int)) "stop" (bumpField (-(start : Int)) "start" (dataVal q start rl)) =
      .dict [("start", .leaf (.int P)), ("size", .leaf (.int ((rl : Int) - (P : Int)))), ("stop", .leaf (.int rl))] := by
  subst hq
  simp only [dataVal, bumpField, List.map_cons, List.map_nil]
  simp
  refine ⟨by omega, by omega, by omega⟩

theorem adjust_final (lvl1 : List (String × Val)) (pos pos' P rl : Nat) :
    adjustOffset (-(pos : Int)) (.dict (setField lvl1 "data" (dataVal (pos + P) pos rl)).reverse) =
      adjustOffset (-(pos' : Int)) (.dict (setField (mapKey "record_start" (bumpLeaf ((pos' : Int) - (pos : Int))) lvl1) "data"
        (dataVal (pos' + P) pos' rl)).reverse) := by
  rw [adjustOffset_dict, adjustOffset_dict]
  congr 1
  rw [mapKey_reverse, mapKey_reverse, mapKey_reverse, mapKey_reverse]
  congr 1
  rw [mapKey_setField_ne _ _ _ _ _ (by decide), mapKey_setField_same,
    mapKey_setField_ne _ _ _ _ _ (by decide), mapKey_setField_same, mapKey_mapKey,
    dataAdj_val _ _ _ P rfl, dataAdj_val _ _ _ P rfl]
  congr 1
  exact (mapKey_congr _ _ _ _ (bumpLeaf_comp _ _ _ (by omega))).symm

theorem run_bound (rest : List (String × Con)) (bs : Bytes) (outer : Ctx) :
    ∀ (fs : List (String × Con)) (k : Nat) (lvl : List (String × Val)) (pos : Nat) (r : Val × Nat),
      Con.sizeFields false fs = some k → parseFields (fs ++ rest) (lvl :: outer) bs pos = .ok r → 0 < k →
      pos + k ≤ bs.length := by
  intro fs
  induction fs with
  | nil => intro k lvl pos r hs; simp [Con.sizeFields] at hs; omega
  | cons f fs ih =>
    intro k lvl pos r hs h hk
    obtain ⟨name, c⟩ := f
    rw [List.cons_append] at h
    obtain ⟨v1, p1, h1, h2⟩ := parseFields_cons_ok h
    rw [Con.sizeFields] at hs
    split at hs
    · rename_i a b ha hb
      simp at hs; subst hs
      obtain ⟨rfl, hb1⟩ := static_joint.1 c _ _ _ a _ _ ha h1
      rcases Nat.eq_zero_or_pos b with hb0 | hb0
      · subst hb0; have := hb1 (by omega); omega
      · have := ih b _ _ _ hb h2 hb0; omega
    · simp at hs

theorem lineCon_bound (mid : List (String × Con)) (P : Nat) (hsz : Con.sizeFields false mid = some P) (hP : 0 < P)
    (ctx : Ctx) (bs : Bytes) (pos : Nat) (v : Val) (e : Nat) (h : parse (lineCon mid) ctx bs pos = .ok (v, e)) :
    pos + P ≤ bs.length := by
  unfold lineCon at h
  rw [parse] at h
  obtain ⟨v1, p1, h1, h2⟩ := parseFields_cons_ok h
  obtain ⟨rfl, rfl⟩ := parse_tell_inv h1
  exact run_bound _ _ _ mid P _ _ _ hsz h2 hP

theorem window_generic (mid : List (String × Con)) (P : Nat) (hok : fieldsOK "record_start" mid = true)
    (hsz : Con.sizeFields false mid = some P) (hP : 0 < P) (haddr : Addr (lineCon mid) P)
    (ctx ctx' : Ctx) (bs bs' : Bytes) (pos pos' : Nat) (v v' : Val) (e e' : Nat)
    (h : parse (lineCon mid) ctx bs pos = .ok (v, e)) (h' : parse (lineCon mid) ctx' bs' pos' = .ok (v', e'))
    (hw : slice bs pos (pos + P) = slice bs' pos' (pos' + P)) :
    adjustOffset (-(pos : Int)) v = adjustOffset (-(pos' : Int)) v' := by
  have hb' := lineCon_bound mid P hsz hP _ _ _ _ _ h'
  obtain ⟨rl, vp, -, a1, -, a3, -⟩ := haddr _ _ _ _ _ h
  unfold lineCon at h h'
  rw [parse] at h h'
  obtain ⟨v1, p1, h1, h2⟩ := parseFields_cons_ok h
  obtain ⟨v1', p1', h1', h2'⟩ := parseFields_cons_ok h'
  obtain ⟨hv1, hp1⟩ := parse_tell_inv h1
  obtain ⟨hv1', hp1'⟩ := parse_tell_inv h1'
  rw [hv1, hp1] at h2
  rw [hv1', hp1'] at h2'
  have hl0 : setField [] "record_start" (Val.leaf (.int (pos' : Int))) =
      mapKey "record_start" (bumpLeaf ((pos' : Int) - (pos : Int))) (setField [] "record_start" (Val.leaf (.int (pos : Int)))) := by
    simp only [setField, mapKey, bumpLeaf, List.any_nil, List.map_nil]
    simp
    omega
  rw [hl0] at h2'
  have hnd0 : KeysNodup (setField [] "record_start" (Val.leaf (.int (pos : Int)))) := KeysNodup_setField _ _ KeysNodup_nil
  obtain ⟨lvl1, t1, hnd1, t2, -, keep⟩ := run_shift "record_start" (bumpLeaf ((pos' : Int) - (pos : Int)))
    [("data", dataCon)] bs bs' _ (ctx') mid P _ pos pos' _ hok hsz hw hb' h2 hnd0
  rw [t2] at h2'
  have k1 : lookupField lvl1 "record_start" = some (.leaf (.int (pos : Nat))) := by
    rw [keep _ (fieldsOK_not_mem _ _ hok), lookupField_setField, if_pos rfl]
  have k2 : lookupField lvl1 "preamble" = some vp := by
    rw [← parseFields_get_persist t1 hnd1 "preamble" (by decide)]; exact a1
  have k1' : lookupField (mapKey "record_start" (bumpLeaf ((pos' : Int) - (pos : Int))) lvl1) "record_start" =
      some (.leaf (.int (pos' : Nat))) := by
    rw [lookupField_mapKey_eq, k1]
    simp only [Option.map_some, bumpLeaf]
    congr 3; omega
  have k2' : lookupField (mapKey "record_start" (bumpLeaf ((pos' : Int) - (pos : Int))) lvl1) "preamble" = some vp := by
    rw [lookupField_mapKey_ne _ _ _ _ (by decide), k2]
  obtain ⟨vd, pd, hd, t1⟩ := parseFields_cons_ok t1
  obtain ⟨vd', pd', hd', h2'⟩ := parseFields_cons_ok h2'
  rw [data_value k1 k2 a3] at hd
  rw [data_value k1' k2' a3] at hd'
  simp only [Except.ok.injEq, Prod.mk.injEq] at hd hd'
  obtain ⟨rfl, rfl⟩ := hd
  obtain ⟨rfl, rfl⟩ := hd'
  rw [parseFields] at t1 h2'
  simp only [Except.ok.injEq, Prod.mk.injEq, List.headD_cons] at t1 h2'
  obtain ⟨rfl, -⟩ := t1
  obtain ⟨rfl, -⟩ := h2'
  exact adjust_final lvl1 pos pos' P rl


/-! ### the two line-record layouts -/

def signalMid : List (String × Con) :=
  match Gen.signalDataRecord with
  | .struct fs => (fs.drop 1).take 49
  | _ => []

def processedMid : List (String × Con) :=
  match Gen.processedDataRecord with
  | .struct fs => (fs.drop 1).take 41
  | _ => []

theorem signal_eq : Gen.signalDataRecord = lineCon signalMid := rfl
theorem processed_eq : Gen.processedDataRecord = lineCon processedMid := rfl

theorem signal_ok : fieldsOK "record_start" signalMid = true := by decide +kernel
theorem processed_ok : fieldsOK "record_start" processedMid = true := by decide +kernel
theorem signal_size : Con.sizeFields false signalMid = some 544 := by decide +kernel
theorem processed_size : Con.sizeFields false processedMid = some 192 := by decide +kernel

end RpcIndep

open RpcIndep

/-- a line record, once its addresses are rebased to zero, depends only on the bytes of its own prefix window
    (P = 544 for the signal-data layout, 192 for the processed-data layout) -/
theorem signal_record_window (ctx ctx' : Ctx) (bs bs' : Bytes) (pos pos' : Nat) (v v' : Val) (e e' : Nat)
    (h : parse Gen.signalDataRecord ctx bs pos = .ok (v, e)) (h' : parse Gen.signalDataRecord ctx' bs' pos' = .ok (v', e'))
    (hw : slice bs pos (pos + 544) = slice bs' pos' (pos' + 544)) :
    adjustOffset (-(pos : Int)) v = adjustOffset (-(pos' : Int)) v' := by
  rw [signal_eq] at h h'
  exact window_generic signalMid 544 signal_ok signal_size (by omega) (signal_eq ▸ LineAddr.signal_addr)
    ctx ctx' bs bs' pos pos' v v' e e' h h' hw

theorem processed_record_window (ctx ctx' : Ctx) (bs bs' : Bytes) (pos pos' : Nat) (v v' : Val) (e e' : Nat)
    (h : parse Gen.processedDataRecord ctx bs pos = .ok (v, e)) (h' : parse Gen.processedDataRecord ctx' bs' pos' = .ok (v', e'))
    (hw : slice bs pos (pos + 192) = slice bs' pos' (pos' + 192)) :
    adjustOffset (-(pos : Int)) v = adjustOffset (-(pos' : Int)) v' := by
  rw [processed_eq] at h h'
  exact window_generic processedMid 192 processed_ok processed_size (by omega) (processed_eq ▸ LineAddr.processed_addr)
    ctx ctx' bs bs' pos pos' v v' e e' h h' hw

namespace RpcIndep
open Layout LineAddr

/-! ### rebasing composes -/

theorem bumpField_comp (a b c : Int) (h : b + a = c) (name : String) (d : Val) :
    bumpField a name (bumpField b name d) = bumpField c name d := by
  cases d with
  | dict kvs =>
    rw [bumpField_dict, bumpField_dict, bumpField_dict, mapKey_mapKey]
    congr 1
    exact mapKey_congr _ _ _ _ (bumpLeaf_comp a b c h)
  | _ => rfl

theorem bumpField_comm (a b : Int) (n m : String) (hnm : ¬ n = m) (d : Val) :
    bumpField a n (bumpField b m d) = bumpField b m (bumpField a n d) := by
  cases d with
  | dict kvs =>
    rw [bumpField_dict, bumpField_dict, bumpField_dict, bumpField_dict, mapKey_comm _ _ _ _ _ hnm]
  | _ => rfl

theorem adjustOffset_add (a b c : Int) (h : b + a = c) (v : Val) :
    adjustOffset a (adjustOffset b v) = adjustOffset c v := by
  cases v with
  | dict kvs =>
    rw [adjustOffset_dict, adjustOffset_dict, adjustOffset_dict,
      mapKey_comm "record_start" "data" _ _ _ (by decide), mapKey_mapKey, mapKey_mapKey]
    congr 1
    rw [mapKey_congr _ _ _ _ (bumpLeaf_comp a b c h)]
    apply mapKey_congr
    intro d
    rw [bumpField_comm a b "start" "stop" (by decide), bumpField_comp a b c h, bumpField_comp a b c h]
  | _ => rfl

/-! ### slices of slices -/

theorem slice_slice' {α : Type} (l : List α) (a b c d : Nat) (hd : d ≤ (slice l a b).length) :
    slice (slice l a b) c d = slice l (a + c) (a + d) := by
  rw [length_slice'] at hd
  apply List.ext_getElem?
  intro x
  rw [slice_getElem?, slice_getElem?, slice_getElem?]
  rw [show a + d - (a + c) = d - c by omega]
  split
  · rw [if_pos (by omega), Nat.add_assoc]
  · rfl

/-! ### the two line layouts, uniformly -/

def IsLine (layout : Con) (P : Nat) : Prop :=
  (layout = Gen.signalDataRecord ∧ P = 544) ∨ (layout = Gen.processedDataRecord ∧ P = 192)

theorem IsLine.unique {l l' : Con} {P : Nat} (h : IsLine l P) (h' : IsLine l' P) : l = l' := by
  rcases h with ⟨rfl, rfl⟩ | ⟨rfl, rfl⟩ <;> rcases h' with ⟨rfl, h2⟩ | ⟨rfl, h2⟩ <;> first | rfl | omega

theorem IsLine.addr {l : Con} {P : Nat} (h : IsLine l P) : Addr l P := by
  rcases h with ⟨rfl, rfl⟩ | ⟨rfl, rfl⟩
  · exact signal_addr
  · exact processed_addr

theorem IsLine.bound {l : Con} {P : Nat} (h : IsLine l P) (ctx : Ctx) (bs : Bytes) (pos : Nat) (v : Val) (e : Nat)
    (hp : parse l ctx bs pos = .ok (v, e)) : pos + P ≤ bs.length := by
  rcases h with ⟨rfl, rfl⟩ | ⟨rfl, rfl⟩
  · rw [signal_eq] at hp
    exact lineCon_bound _ _ signal_size (by omega) _ _ _ _ _ hp
  · rw [processed_eq] at hp
    exact lineCon_bound _ _ processed_size (by omega) _ _ _ _ _ hp

end RpcIndep

theorem RpcIndep.IsLine.win {l : Con} {P : Nat} (hl : RpcIndep.IsLine l P) (ctx ctx' : Ctx) (bs bs' : Bytes)
    (pos pos' : Nat) (v v' : Val) (e e' : Nat)
    (h : parse l ctx bs pos = .ok (v, e)) (h' : parse l ctx' bs' pos' = .ok (v', e'))
    (hw : slice bs pos (pos + P) = slice bs' pos' (pos' + P)) :
    adjustOffset (-(pos : Int)) v = adjustOffset (-(pos' : Int)) v' := by
  rcases hl with ⟨rfl, rfl⟩ | ⟨rfl, rfl⟩
  · exact signal_record_window ctx ctx' bs bs' pos pos' v v' e e' h h' hw
  · exact processed_record_window ctx ctx' bs bs' pos pos' v v' e e' h h' hw

namespace RpcIndep
open Layout LineAddr

/-- record `i` of the file, described independently of the chunking: some parse of the line layout over a window holding
    the file bytes of record `i`, rebased to the file position 720 + i·L -/
def IsRec (file : Bytes) (L t i : Nat) (r : Val) : Prop :=
  ∃ (layout : Con) (bs : Bytes) (pos : Nat) (v : Val) (e : Nat), IsLine layout (prefixOf t) ∧
    parse layout [] bs pos = .ok (v, e) ∧
    slice bs pos (pos + prefixOf t) = slice file (720 + i * L) (720 + i * L + prefixOf t) ∧
    r = adjustOffset (((720 + i * L : Nat) : Int) - (pos : Int)) v

theorem IsRec.unique {file : Bytes} {L t i : Nat} {r r' : Val} (h : IsRec file L t i r) (h' : IsRec file L t i r') :
    r = r' := by
  obtain ⟨l, bs, pos, v, e, hl, hp, hw, rfl⟩ := h
  obtain ⟨l', bs', pos', v', e', hl', hp', hw', rfl⟩ := h'
  have := hl.unique hl'
  subst this
  have hwin := hl.win [] [] bs bs' pos pos' v v' e e' hp hp' (hw.trans hw'.symm)
  rw [← adjustOffset_add (((720 + i * L : Nat) : Int)) (-(pos : Int)) _ (by omega) v,
    ← adjustOffset_add (((720 + i * L : Nat) : Int)) (-(pos' : Int)) _ (by omega) v', hwin]

/-- where each record of a chunk was parsed -/
theorem chunk_where (content : Bytes) (L : Nat) (hL : 0 < L) (recs0 : List Val)
    (h : parseChunkRecords content (L : Int) = .ok recs0)
    (hrl : ∀ r ∈ recs0, intAt r ["preamble", "record_length"] = .ok (L : Int))
    (t : Nat) (hty : ∀ r ∈ recs0, intAt r ["preamble", "record_type"] = .ok (t : Int)) :
    recs0.length * L = content.length ∧ ∀ (m : Nat) (v : Val), recs0[m]? = some v →
      ∃ layout e, IsLine layout (prefixOf t) ∧ parse layout [] content (m * L) = .ok (v, e) := by
  obtain ⟨c1, c2⟩ := chunk_ranges content L hL recs0 h hrl t hty
  refine ⟨c1, ?_⟩
  intro m v hm
  obtain ⟨d1, d2, -⟩ := c2 m v hm
  obtain ⟨layout, hlay, hall⟩ := ImgOpen.parseChunk_ok _ _ _ h
  obtain ⟨p, q, hp⟩ := hall v (List.mem_of_getElem? hm)
  rcases hlay with rfl | rfl
  · obtain ⟨rl, vp, -, -, -, -, e4, e5, -, -⟩ := signal_addr _ _ _ _ _ hp
    rw [d1] at e4; rw [d2] at e5
    simp only [Option.some.injEq, Val.leaf.injEq, Leaf.int.injEq] at e4 e5
    have hpm : p = m * L := by omega
    subst hpm
    exact ⟨_, q, Or.inl ⟨rfl, by omega⟩, hp⟩
  · obtain ⟨rl, vp, -, -, -, -, e4, e5, -, -⟩ := processed_addr _ _ _ _ _ hp
    rw [d1] at e4; rw [d2] at e5
    simp only [Option.some.injEq, Val.leaf.injEq, Leaf.int.injEq] at e4 e5
    have hpm : p = m * L := by omega
    subst hpm
    exact ⟨_, q, Or.inr ⟨rfl, by omega⟩, hp⟩

/-- the chunk loop: which record each element is, and how many there are -/
theorem readChunks_canon (file : Bytes) (L : Nat) (hL : 0 < L) (t : Nat) :
    ∀ (sizes : List Nat) (k : Nat) (recs : List Val),
      readChunks file (L : Int) (720 + k * L) sizes
        ((chunkOffsets.go 1 k sizes).map (fun (o : Nat) => ((o : Int) - 720) * (L : Int) + 720)) = .ok recs →
      (∀ r ∈ recs, intAt r ["preamble", "record_length"] = .ok (L : Int)) →
      (∀ r ∈ recs, intAt r ["preamble", "record_type"] = .ok (t : Int)) →
      (∀ (i : Nat) (r : Val), recs[i]? = some r → IsRec file L t (k + i) r) ∧
      recs.length ≤ sizes.sum ∧
      (recs.length < sizes.sum → file.length = 720 + k * L + recs.length * L) ∧
      (0 < recs.length → 720 + k * L + recs.length * L ≤ file.length) := by
  intro sizes
  induction sizes with
  | nil =>
    intro k recs h _ _
    simp [readChunks] at h
    subst h
    simp
  | cons s ss ih =>
    intro k recs h hrl hty
    rw [readChunks] at h
    simp only [bind_ok, pure_ok] at h
    have hw : ¬ ((s : Int) * (L : Int) < 0) := by
      have := Int.mul_nonneg (Int.natCast_nonneg s) (Int.natCast_nonneg L)
      omega
    simp only [if_neg hw] at h
    have htn : ((s : Int) * (L : Int)).toNat = s * L := by
      rw [← Int.natCast_mul]; exact Int.toNat_natCast _
    rw [htn] at h
    obtain ⟨recs0, hc, rest, hr, hrecs⟩ := h
    have hgo : chunkOffsets.go 1 k (s :: ss) = (k * 1 + headerSize) :: chunkOffsets.go 1 (k + s) ss := by
      rw [chunkOffsets.go]
    rw [hgo] at hr hrecs
    simp only [List.map_cons, List.tail_cons, List.headD_cons] at hr hrecs
    rw [rebase_eq] at hrecs
    subst hrecs
    generalize hcont : slice file (720 + k * L) (720 + k * L + s * L) = content at hc hr
    have hrl0 : ∀ r ∈ recs0, intAt r ["preamble", "record_length"] = .ok (L : Int) := fun r hr' => by
      have := hrl (adjustOffset _ r) (List.mem_append_left _ (List.mem_map_of_mem hr'))
      rwa [intAt_adjust_preamble] at this
    have hty0 : ∀ r ∈ recs0, intAt r ["preamble", "record_type"] = .ok (t : Int) := fun r hr' => by
      have := hty (adjustOffset _ r) (List.mem_append_left _ (List.mem_map_of_mem hr'))
      rwa [intAt_adjust_preamble] at this
    obtain ⟨c1, c2⟩ := chunk_where content L hL recs0 hc hrl0 t hty0
    have hclen : content.length = min (s * L) (file.length - (720 + k * L)) := by
      rw [← hcont, length_slice']; congr 1; omega
    have hcpos : 0 < content.length := by
      rcases Nat.eq_zero_or_pos content.length with h0 | h0
      · have := List.eq_nil_of_length_eq_zero h0
        subst this
        obtain ⟨e, he⟩ := parseChunkRecords_nil (L : Int)
        rw [he] at hc; cases hc
      · exact h0
    -- the elements of this chunk
    have hfirst : ∀ (i : Nat) (v : Val), recs0[i]? = some v →
        IsRec file L t (k + i) (adjustOffset ((720 + k * L : Nat) : Int) v) := by
      intro i v hv
      obtain ⟨layout, e, hlay, hp⟩ := c2 i v hv
      have hb := hlay.bound _ _ _ _ _ hp
      refine ⟨layout, content, i * L, v, e, hlay, hp, ?_, ?_⟩
      · rw [← hcont, slice_slice' _ _ _ _ _ (by rw [hcont]; exact hb)]
        simp only [Nat.add_mul]
        congr 1 <;> omega
      · congr 1
        simp only [Nat.add_mul]
        omega
    by_cases hf : content.length = s * L
    · -- a full chunk
      have hs : recs0.length = s := Nat.eq_of_mul_eq_mul_right hL (by omega)
      have hpos : 720 + k * L + content.length = 720 + (k + s) * L := by rw [hf, Nat.add_mul]; omega
      rw [hpos] at hr
      obtain ⟨j1, j2, j3, j4⟩ := ih (k + s) rest hr (fun r hr' => hrl r (List.mem_append_right _ hr'))
        (fun r hr' => hty r (List.mem_append_right _ hr'))
      have hsl : 720 + k * L + s * L ≤ file.length := by omega
      simp only [Nat.add_mul] at j3 j4
      refine ⟨?_, ?_, ?_, ?_⟩
      · intro i r hi
        by_cases hi' : i < recs0.length
        · rw [List.getElem?_append_left (by simpa using hi'), List.getElem?_map] at hi
          obtain ⟨v, hv, rfl⟩ := Option.map_eq_some_iff.mp hi
          exact hfirst i v hv
        · have hge : recs0.length ≤ i := by omega
          rw [List.getElem?_append_right (by simpa using hge)] at hi
          simp only [List.length_map] at hi
          have := j1 (i - recs0.length) r hi
          have hidx : k + s + (i - recs0.length) = k + i := by omega
          rw [hidx] at this
          exact this
      · simp only [List.length_append, List.length_map, List.sum_cons]; omega
      · simp only [List.length_append, List.length_map, List.sum_cons, Nat.add_mul]
        intro hlt
        rw [hs]
        have := j3 (by omega)
        omega
      · simp only [List.length_append, List.length_map, Nat.add_mul]
        intro _
        rw [hs]
        rcases Nat.eq_zero_or_pos rest.length with h0 | h0
        · rw [h0]; omega
        · have := j4 h0; omega
    · -- a short chunk: the file ends here, nothing follows
      have hend : file.length = 720 + k * L + content.length := by omega
      have hrest : rest = [] := by
        cases ss with
        | nil => simp [readChunks] at hr; exact hr
        | cons s' ss' =>
          exfalso
          rw [readChunks] at hr
          simp only [bind_ok] at hr
          obtain ⟨recs1, hc1, -⟩ := hr
          obtain ⟨e, he⟩ := parseChunkRecords_nil (L : Int)
          split at hc1 <;> (rw [slice_ge _ _ _ (by omega), he] at hc1; cases hc1)
      subst hrest
      have hlt : recs0.length * L < s * L := by omega
      have hlt' : recs0.length < s := Nat.lt_of_mul_lt_mul_right hlt
      refine ⟨?_, ?_, ?_, ?_⟩
      · intro i r hi
        rw [List.append_nil, List.getElem?_map] at hi
        obtain ⟨v, hv, rfl⟩ := Option.map_eq_some_iff.mp hi
        exact hfirst i v hv
      · simp only [List.append_nil, List.length_map, List.sum_cons]; omega
      · simp only [List.append_nil, List.length_map]; intro _; omega
      · simp only [List.append_nil, List.length_map]; intro _; omega

end RpcIndep

open RpcIndep Layout LineAddr in
theorem readImageRecords_rpc_independent (file : Bytes) (rpc1 rpc2 : Nat)
    (hd1 hd2 : Val) (recs1 recs2 : List Val)
    (h1 : readImageRecords file rpc1 = .ok (hd1, recs1)) (h2 : readImageRecords file rpc2 = .ok (hd2, recs2))
    (L : Nat) (hL : 0 < L) (hdrL : intAt hd1 ["sar_data_record_length"] = .ok (L : Int))
    (t : Nat) (ht : t = 10 ∨ t = 11)
    (hrl1 : ∀ r ∈ recs1, intAt r ["preamble", "record_length"] = .ok (L : Int))
    (hty1 : ∀ r ∈ recs1, intAt r ["preamble", "record_type"] = .ok (t : Int))
    (hrl2 : ∀ r ∈ recs2, intAt r ["preamble", "record_length"] = .ok (L : Int))
    (hty2 : ∀ r ∈ recs2, intAt r ["preamble", "record_type"] = .ok (t : Int)) :
    hd1 = hd2 ∧ recs1 = recs2 := by
  have _ := ht
  unfold readImageRecords at h1 h2
  simp only [bind_ok] at h1 h2
  obtain ⟨hd, e1, n, en, L', eL, h1⟩ := h1
  obtain ⟨hd', e1', n', en', L'', eL', h2⟩ := h2
  rw [e1] at e1'
  cases e1'
  rw [en] at en'; cases en'
  rw [eL] at eL'; cases eL'
  split at h1
  · simp only [bind_ok] at h1
    obtain ⟨_, h1, -⟩ := h1
    cases h1
  rename_i hrpc1
  split at h2
  · simp only [bind_ok] at h2
    obtain ⟨_, h2, -⟩ := h2
    cases h2
  rename_i hrpc2
  simp only [bind_ok, pure_ok] at h1 h2
  obtain ⟨r1, h1, heq1⟩ := h1
  obtain ⟨r2, h2, heq2⟩ := h2
  simp only [Prod.mk.injEq] at heq1 heq2
  obtain ⟨rfl, rfl⟩ := heq1
  obtain ⟨rfl, rfl⟩ := heq2
  rw [hdrL] at eL
  cases eL
  refine ⟨rfl, ?_⟩
  have h0 : ∀ rpc, chunkOffsets (if n ≤ 0 then [] else chunkSizes n.toNat rpc) 1 =
      chunkOffsets.go 1 0 (if n ≤ 0 then [] else chunkSizes n.toNat rpc) := fun _ => rfl
  rw [h0, show (720 : Nat) = 720 + 0 * L by omega] at h1 h2
  obtain ⟨a1, a2, a3, a4⟩ := readChunks_canon file L hL t _ 0 r1 h1 hrl1 hty1
  obtain ⟨b1, b2, b3, b4⟩ := readChunks_canon file L hL t _ 0 r2 h2 hrl2 hty2
  have hsum : ∀ rpc, ¬ rpc = 0 → (if n ≤ 0 then [] else chunkSizes n.toNat rpc).sum = n.toNat := by
    intro rpc hrpc
    split
    · simp; omega
    · exact chunkSizes_sum _ _ (by omega)
  rw [hsum _ hrpc1] at a2 a3
  rw [hsum _ hrpc2] at b2 b3
  have hlen : r1.length = r2.length := by
    rcases Nat.lt_trichotomy r1.length r2.length with hlt | heq | hgt
    · exfalso
      have e1 := a3 (by omega)
      have e2 := b4 (by omega)
      have : r1.length * L < r2.length * L := Nat.mul_lt_mul_of_pos_right hlt hL
      omega
    · exact heq
    · exfalso
      have e1 := b3 (by omega)
      have e2 := a4 (by omega)
      have : r2.length * L < r1.length * L := Nat.mul_lt_mul_of_pos_right hgt hL
      omega
  apply List.ext_getElem?
  intro i
  by_cases hi : i < r1.length
  · have hi2 : i < r2.length := by omega
    rw [List.getElem?_eq_getElem hi, List.getElem?_eq_getElem hi2]
    congr 1
    have x1 := a1 i _ (List.getElem?_eq_getElem hi)
    have x2 := b1 i _ (List.getElem?_eq_getElem hi2)
    exact x1.unique x2
  · rw [List.getElem?_eq_none (by omega), List.getElem?_eq_none (by omega)]

/-- C06 for one image: same group, same array metadata up to the chunk size -/
theorem openImageFile_rpc_independent (file : Bytes) (name : String) (rpc1 rpc2 : Nat)
    (n1 n2 : String) (g1 g2 : ImageGroup)
    (h1 : openImageFile file name rpc1 = .ok (n1, g1)) (h2 : openImageFile file name rpc2 = .ok (n2, g2))
    (hd1 hd2 : Val) (recs1 recs2 : List Val)
    (hr1 : readImageRecords file rpc1 = .ok (hd1, recs1)) (hr2 : readImageRecords file rpc2 = .ok (hd2, recs2))
    (L : Nat) (hL : 0 < L) (hdrL : intAt hd1 ["sar_data_record_length"] = .ok (L : Int))
    (t : Nat) (ht : t = 10 ∨ t = 11)
    (hrl1 : ∀ r ∈ recs1, intAt r ["preamble", "record_length"] = .ok (L : Int))
    (hty1 : ∀ r ∈ recs1, intAt r ["preamble", "record_type"] = .ok (t : Int))
    (hrl2 : ∀ r ∈ recs2, intAt r ["preamble", "record_length"] = .ok (L : Int))
    (hty2 : ∀ r ∈ recs2, intAt r ["preamble", "record_type"] = .ok (t : Int)) :
    n1 = n2 ∧ g1.group = g2.group ∧ g1.array = { g2.array with rpc := rpc1 } := by
  obtain ⟨rfl, rfl⟩ := readImageRecords_rpc_independent file rpc1 rpc2 hd1 hd2 recs1 recs2 hr1 hr2 L hL hdrL t ht
    hrl1 hty1 hrl2 hty2
  obtain ⟨hdA, recsA, eA, tA, nA⟩ := ImgOpen.open_inv _ _ _ _ _ h1
  obtain ⟨hdB, recsB, eB, tB, nB⟩ := ImgOpen.open_inv _ _ _ _ _ h2
  rw [hr1] at eA; rw [hr2] at eB
  cases eA; cases eB
  rw [nA] at nB
  cases nB
  obtain ⟨ranges, typeCode, nl, np, dtype, hattrs, x1, x2, x3, x4, x5, x6, x7, vars, groups, attrs, x8, x9⟩ :=
    ImgOpen.transform_inv _ _ _ _ tA
  obtain ⟨ranges', typeCode', nl', np', dtype', hattrs', y1, y2, y3, y4, y5, y6, y7, vars', groups', attrs', y8, y9⟩ :=
    ImgOpen.transform_inv _ _ _ _ tB
  rw [x1] at y1; cases y1
  rw [x2] at y2; cases y2
  rw [x3] at y3; cases y3
  rw [x4] at y4; cases y4
  rw [x5] at y5; cases y5
  rw [x6] at y6; cases y6
  rw [x8] at y8; cases y8
  refine ⟨rfl, by rw [x9, y9], ?_⟩
  rw [x7, y7]

end Alos2

/-
Opening one image file (`Model/Product.lean`: `readImageRecords`, `transformImageMetadata`, `openImageFile`):
whatever the file contains, when the open succeeds
* every line record of the result is a value parsed by one of the two line-record layouts, with only its three address
  fields (`record_start`, `data.start`, `data.stop`) rebased by the chunk offset;
* the byte ranges / shape / type code / dtype handed to the lazy array are exactly those fields and the header's;
* the image group is the documented one: for n ≥ 1 records all parsed by the SAME layout, the per-line variables hold one
  entry per record in file order (`Spec.lineTree`), the per-file constants come from the first record, the optional header
  attributes are present exactly when their header field is non-blank, and `coordinates` lists the variables.
-/
import Alos2.Model.Product
import Alos2.Proofs.Lines
import Alos2.Proofs.Provenance

namespace Alos2

/-- a record produced by the reader: some parse of a line-record layout, addresses rebased -/
def IsLineRecord (layout : Con) (r : Val) : Prop :=
  ∃ (ctx : Ctx) (bs : Bytes) (pos : Nat) (v : Val) (pos' : Nat) (off : Int),
    parse layout ctx bs pos = .ok (v, pos') ∧ r = adjustOffset off v

namespace ImgOpen

open Natural

/-! ### `adjustOffset` keeps the shape of a record -/

/-- same path skeleton, same key-uniqueness -/
def Same (v w : Val) : Prop := (∀ p, v.pathSkel p = w.pathSkel p) ∧ v.UniqueKeys = w.UniqueKeys

theorem Same.rfl' (v : Val) : Same v v := ⟨fun _ => rfl, rfl⟩

theorem Same.trans' {a b c : Val} (h1 : Same a b) (h2 : Same b c) : Same a c :=
  ⟨fun p => (h1.1 p).trans (h2.1 p), h1.2.trans h2.2⟩

theorem uniqueKeysKvs_map (f : String × Val → String × Val) (kvs : List (String × Val))
    (hf : ∀ kv ∈ kvs, (f kv).2.UniqueKeys = kv.2.UniqueKeys) :
    uniqueKeysKvs (kvs.map f) = uniqueKeysKvs kvs := by
  induction kvs with
  | nil => rfl
  | cons a l ih =>
    obtain ⟨k, v⟩ := a
    have h1 := hf (k, v) (by simp)
    have h2 := ih (fun kv hkv => hf kv (by simp [hkv]))
    rw [List.map_cons]
    cases hfa : f (k, v) with
    | mk k' v' =>
      rw [hfa] at h1
      simp only [uniqueKeysKvs, h1, h2]

theorem same_dict_map (f : String × Val → String × Val) (kvs : List (String × Val))
    (hk : ∀ kv, (f kv).1 = kv.1) (hs : ∀ kv, Same (f kv).2 kv.2) :
    Same (.dict (kvs.map f)) (.dict kvs) := by
  constructor
  · intro p
    rw [Val.pathSkel, Val.pathSkel, Shape.pathSkelKvs_eq_map, Shape.pathSkelKvs_eq_map, List.map_map]
    congr 1
    apply List.map_congr_left
    intro kv _
    simp only [Function.comp, hk kv, (hs kv).1]
  · rw [Val.UniqueKeys, Val.UniqueKeys, List.map_map, uniqueKeysKvs_map f kvs (fun kv _ => (hs kv).2)]
    have : (Prod.fst ∘ f) = Prod.fst := funext (fun kv => hk kv)
    rw [this]

theorem same_bumpLeaf (off : Int) (v : Val) :
    Same (match v with
      | .leaf (.int i) => .leaf (.int (i + off))
      | o => o) v := by
  split
  · constructor
    · intro p; rw [Val.pathSkel, Val.pathSkel]
    · rw [Val.UniqueKeys, Val.UniqueKeys]
  · exact Same.rfl' _

theorem same_bumpField (off : Int) (name : String) (v : Val) : Same (bumpField off name v) v := by
  unfold bumpField
  split
  · apply same_dict_map
    · intro kv; split <;> rfl
    · intro kv
      split
      · exact same_bumpLeaf off kv.2
      · exact Same.rfl' _
  · exact Same.rfl' _

theorem same_adjustOffset (off : Int) (v : Val) : Same (adjustOffset off v) v := by
  unfold adjustOffset
  split
  next kvs hb =>
    refine Same.trans' ?_ (hb ▸ same_bumpField off "record_start" v)
    apply same_dict_map
    · intro kv; split <;> rfl
    · intro kv
      split
      · exact Same.trans' (same_bumpField _ _ _) (same_bumpField _ _ _)
      · exact Same.rfl' _
  next o hb => exact same_bumpField off "record_start" v

/-! ### the per-line group of a list of separately parsed (and rebased) records -/

theorem lines_of_records (rec : Con) (vars : List (String × List String × KVs Sym)) (attrs : List (String × List String))
    (hc : Lines.lineCheck rec vars attrs = true) (recs : List Val) (hn : 0 < recs.length)
    (h : ∀ r ∈ recs, IsLineRecord rec r) :
    (transformLineMetadata (Val.toPVal.toPVals recs)).sortKeys =
      (Spec.lineTree vars attrs recs.length).map (Sym.eval (.list recs)) := by
  obtain ⟨S, hS, hsym⟩ := Lines.lines_symbolic rec vars attrs hc recs.length hn
  have hshape : ∀ r ∈ recs, ∀ q s, Con.skel rec q = some s → r.pathSkel q = s := by
    intro r hr q s hq
    obtain ⟨ctx, bs, pos, v, pos', off, hp, rfl⟩ := h r hr
    rw [(same_adjustOffset off v).1 q]
    exact parse_shape rec q s hq ctx bs pos v pos' hp
  have hu : ∀ r ∈ recs, r.UniqueKeys = true := by
    intro r hr
    obtain ⟨ctx, bs, pos, v, pos', off, hp, rfl⟩ := h r hr
    rw [(same_adjustOffset off v).2]
    exact parse_uniqueKeys rec ctx bs pos v pos' hp
  have hsk : (Val.list recs).pathSkel [] =
      .list ((List.range recs.length).map (fun i => S.map (Lines.gI i))) := by
    rw [Val.pathSkel]
    congr 1
    apply Shape.pathSkelList_range' rec [] recs 0 _ hshape
    rw [← List.range_eq_range']
    have : (fun (i : Nat) => Con.skel rec ([] ++ ["[" ++ toString i ++ "]"])) = (fun i => some (S.map (Lines.gI i))) := by
      funext i
      have := (Lines.skel_prefix_joint ["[" ++ toString i ++ "]"]).1 rec []
      rw [List.append_nil] at this
      rw [List.nil_append, this, hS]
      rfl
    rw [this, Lines.mapM_some_map]
  have heq := toPVal_eq_skel_eval (.list recs) (by
    rw [Val.UniqueKeys, Shape.uniqueKeysList_iff]; exact hu)
  rw [hsk] at heq
  have e1 : (Val.list recs).toPVal = .list (Val.toPVal.toPVals recs) := by rw [Val.toPVal]
  have e2 : ∀ (f : Sym → Leaf) (ss : List (PVal Sym)), (PVal.list ss).map f = .list (PVal.mapList f ss) := by
    intro f ss; rw [PVal.map]
  rw [e1, e2] at heq
  have heq := PVal.list.inj heq
  rw [heq, transformLineMetadata_natural, Prov.sortKeys_map, hsym]

/-! ### the per-line pipeline does not look at the address fields -/

section Agree

variable {α : Type}

/-- pointwise relation of two lists -/
inductive All2 {A B : Type} (R : A → B → Prop) : List A → List B → Prop where
  | nil : All2 R [] []
  | cons {a b l l'} : R a b → All2 R l l' → All2 R (a :: l) (b :: l')

/-- same keys in the same order, equal values outside the key set `K` -/
def AgreeOff (K : List String) (a b : KVs α) : Prop :=
  a.map Prod.fst = b.map Prod.fst ∧ ∀ k, k ∉ K → kvGet a k = kvGet b k

theorem keysFold_eq (d : KVs α) (acc : List String) :
    d.foldl (fun acc kv => if acc.contains kv.1 then acc else acc ++ [kv.1]) acc =
      (d.map Prod.fst).foldl (fun acc k => if acc.contains k then acc else acc ++ [k]) acc := by
  rw [List.foldl_map]

theorem unionKeys_agree (K : List String) (ds ds' : List (KVs α)) (h : All2 (AgreeOff K) ds ds') :
    unionKeys ds = unionKeys ds' := by
  have key : ∀ acc : List String,
      ds.foldl (fun acc d => d.foldl (fun acc kv => if acc.contains kv.1 then acc else acc ++ [kv.1]) acc) acc =
      ds'.foldl (fun acc d => d.foldl (fun acc kv => if acc.contains kv.1 then acc else acc ++ [kv.1]) acc) acc := by
    induction h with
    | nil => intro acc; rfl
    | cons hab _ ih =>
      intro acc
      simp only [List.foldl_cons]
      rw [keysFold_eq, keysFold_eq, hab.1]
      exact ih _
  exact key []

theorem filterMap_agree (K : List String) (k : String) (hk : k ∉ K) (ds ds' : List (KVs α))
    (h : All2 (AgreeOff K) ds ds') :
    ds.filterMap (fun d => kvGet d k) = ds'.filterMap (fun d => kvGet d k) := by
  induction h with
  | nil => rfl
  | cons hab _ ih =>
    simp only [List.filterMap_cons, hab.2 k hk, ih]

theorem clean_congr (ign : List String) (keys : List String) (f g : String → PVal α)
    (h : ∀ k, k ∉ ign → f k = g k) :
    dissoc ign (removeSparesKvs (keys.map (fun k => (k, f k)))) =
      dissoc ign (removeSparesKvs (keys.map (fun k => (k, g k)))) := by
  induction keys with
  | nil => rfl
  | cons k rest ih =>
    simp only [List.map_cons, removeSparesKvs]
    by_cases hkeep : keepKey k = true
    · simp only [hkeep, if_true]
      unfold dissoc at ih ⊢
      by_cases hin : k ∈ ign
      · have : ign.contains k = true := by simpa using hin
        simp only [List.filter_cons, this, Bool.not_true, Bool.false_eq_true, if_false]
        exact ih
      · have : ign.contains k = false := by simpa using hin
        simp only [List.filter_cons, this, Bool.not_false, if_true, h k hin, ih]
    · simp only [hkeep]
      exact ih

theorem tlm_congr (xs ys : List (PVal α))
    (h : dissoc Gen.Config.sar_image__transform_line_metadata.ignored (removeSparesKvs (mergeWithList (asDicts xs))) =
      dissoc Gen.Config.sar_image__transform_line_metadata.ignored (removeSparesKvs (mergeWithList (asDicts ys)))) :
    transformLineMetadata xs = transformLineMetadata ys := by
  unfold transformLineMetadata
  simp only [removeSpares]
  rw [h]

theorem tlm_agree (K : List String) (hK : ∀ k ∈ K, k ∈ Gen.Config.sar_image__transform_line_metadata.ignored)
    (xs ys : List (PVal α)) (h : All2 (AgreeOff K) (asDicts xs) (asDicts ys)) :
    transformLineMetadata xs = transformLineMetadata ys := by
  apply tlm_congr
  unfold mergeWithList
  rw [unionKeys_agree K _ _ h]
  apply clean_congr
  intro k hk
  have hk' : k ∉ K := fun hm => hk (hK k hm)
  rw [filterMap_agree K k hk' _ _ h]

theorem agree_map {A : Type} (K : List String) (F G : A → String × PVal α) (l : List A)
    (h1 : ∀ a, (F a).1 = (G a).1) (h2 : ∀ a, (G a).1 ∉ K → F a = G a) :
    AgreeOff K (l.map F) (l.map G) := by
  constructor
  · rw [List.map_map, List.map_map]
    apply List.map_congr_left
    intro a _
    exact h1 a
  · intro k hk
    unfold kvGet
    induction l with
    | nil => rfl
    | cons a rest ih =>
      simp only [List.map_cons, List.find?_cons]
      by_cases hka : (G a).1 = k
      · have : F a = G a := h2 a (hka ▸ hk)
        simp [this, hka]
      · have hka' : ¬ (F a).1 = k := by rw [h1 a]; exact hka
        simp only [hka, hka', decide_false]
        exact ih

end Agree

theorem toPKvs_eq (kvs : List (String × Val)) :
    Val.toPVal.toPKvs kvs = kvs.map (fun kv => (kv.1, kv.2.toPVal)) := by
  induction kvs with
  | nil => rfl
  | cons a l ih => obtain ⟨k, v⟩ := a; rw [Val.toPVal.toPKvs, ih]; rfl

theorem ite_fst {γ : Type} (c : Prop) [Decidable c] (kv : String × γ) (a : γ) :
    (if c then (kv.1, a) else kv).1 = kv.1 := by
  split <;> rfl

/-- the keys whose values `adjustOffset` touches -/
def adjKeys : List String := ["record_start", "data"]

theorem adjust_agree (off : Int) (kvs kvs' : List (String × Val)) (h : adjustOffset off (.dict kvs) = .dict kvs') :
    AgreeOff adjKeys (Val.toPVal.toPKvs kvs') (Val.toPVal.toPKvs kvs) := by
  simp only [adjustOffset, bumpField, List.map_map, Val.dict.injEq] at h
  subst h
  rw [toPKvs_eq, toPKvs_eq, List.map_map]
  apply agree_map
  · intro kv
    by_cases h1 : kv.1 = "record_start" <;> by_cases h2 : kv.1 = "data" <;> simp [h1, h2]
  · intro kv hk
    simp only [adjKeys, List.mem_cons, List.not_mem_nil, or_false, not_or] at hk
    simp only [Function.comp, hk.1, hk.2, if_false]

theorem adjust_nondict (off : Int) (r : Val) (h : ∀ kvs, r ≠ .dict kvs) : adjustOffset off r = r := by
  cases r with
  | dict kvs => exact absurd rfl (h kvs)
  | leaf l => rfl
  | list xs => rfl
  | tup v a => rfl

theorem asDicts_adjust (rs : List Val) : ∀ (offs : List Int), offs.length = rs.length →
    All2 (AgreeOff adjKeys)
      (asDicts (Val.toPVal.toPVals ((rs.zip offs).map (fun ro => adjustOffset ro.2 ro.1))))
      (asDicts (Val.toPVal.toPVals rs)) := by
  induction rs with
  | nil => intro offs _; simp only [List.zip_nil_left, List.map_nil, Val.toPVal.toPVals, asDicts, List.filterMap_nil]; exact All2.nil
  | cons r rest ih =>
    intro offs hl
    cases offs with
    | nil => simp at hl
    | cons o offs' =>
      have ih' := ih offs' (by simpa using hl)
      simp only [List.zip_cons_cons, List.map_cons, Val.toPVal.toPVals]
      cases r with
      | dict kvs =>
        cases hadj : adjustOffset o (.dict kvs) with
        | dict kvs' =>
          have := adjust_agree o kvs kvs' hadj
          simp only [asDicts, List.filterMap_cons, Val.toPVal] at ih' ⊢
          exact All2.cons this ih'
        | leaf l => simp [adjustOffset, bumpField] at hadj
        | list xs => simp [adjustOffset, bumpField] at hadj
        | tup v a => simp [adjustOffset, bumpField] at hadj
      | leaf l =>
        rw [adjust_nondict o _ (by intro kvs hh; cases hh)]
        simp only [asDicts, List.filterMap_cons, Val.toPVal] at ih' ⊢
        exact ih'
      | list xs =>
        rw [adjust_nondict o _ (by intro kvs hh; cases hh)]
        simp only [asDicts, List.filterMap_cons, Val.toPVal] at ih' ⊢
        exact ih'
      | tup v a =>
        rw [adjust_nondict o _ (by intro kvs hh; cases hh)]
        simp only [asDicts, List.filterMap_cons, Val.toPVal] at ih' ⊢
        exact ih'

/-! ### the chunk loop -/

theorem array_elems (count : Expr) (c : Con) (ctx : Ctx) (bs : Bytes) (pos : Nat) (xs : List Val) (pos' : Nat)
    (h : parse (.array count c) ctx bs pos = .ok (.list xs, pos')) :
    ∀ x ∈ xs, ∃ p q, parse c ctx bs p = .ok (x, q) := by
  rw [parse] at h
  simp only [Shape.bind_ok, Shape.pure_ok] at h
  obtain ⟨m, _, ⟨vs, p1⟩, h1, h2⟩ := h
  simp only [Prod.mk.injEq, Val.list.injEq] at h2
  obtain ⟨rfl, rfl⟩ := h2
  exact (Shape.parseMany_ok (fun p => parse c ctx bs p) (fun x => ∃ p q, parse c ctx bs p = .ok (x, q))
    (fun p v q hh => ⟨p, q, hh⟩) m pos vs p1 h1).2

theorem parseChunk_ok (content : Bytes) (L : Int) (recs : List Val) (h : parseChunkRecords content L = .ok recs) :
    ∃ layout, (layout = Gen.signalDataRecord ∨ layout = Gen.processedDataRecord) ∧
      ∀ x ∈ recs, ∃ p q, parse layout [] content p = .ok (x, q) := by
  unfold parseChunkRecords at h
  split at h
  · simp at h
  · dsimp only at h
    split at h
    · simp at h
    · split at h
      · simp at h
      · split at h
        · split at h
          · simp at h
          next layout hl =>
            refine ⟨layout, ?_, ?_⟩
            · split at hl
              · simp at hl
              · unfold recordLayout at hl
                split at hl
                · left; simpa using hl.symm
                · split at hl
                  · right; simpa using hl.symm
                  · simp at hl
            · split at h
              next rs p' hp =>
                simp only [Except.ok.injEq] at h
                subst h
                exact array_elems _ _ _ _ _ _ _ hp
              · simp at h
              · simp at h
        · simp at h

/-! ### unfolding the open -/

theorem open_inv (file : Bytes) (name : String) (rpc : Nat) (gname : String) (g : ImageGroup)
    (h : openImageFile file name rpc = .ok (gname, g)) :
    ∃ header recs, readImageRecords file rpc = .ok (header, recs) ∧
      transformImageMetadata rpc header recs = .ok g ∧ groupName name = .ok gname := by
  unfold openImageFile at h
  simp only [Shape.bind_ok, Shape.pure_ok] at h
  obtain ⟨⟨header, recs⟩, h1, g', h2, gn, h3, h4⟩ := h
  simp only [Prod.mk.injEq] at h4
  obtain ⟨rfl, rfl⟩ := h4
  exact ⟨header, recs, h1, h2, h3⟩

theorem read_inv (file : Bytes) (rpc : Nat) (header : Val) (recs : List Val)
    (h : readImageRecords file rpc = .ok (header, recs)) :
    parseRecord Gen.imageFileDescriptor (file.take 720) = .ok header ∧
      ∃ L pos sizes offs, readChunks file L pos sizes offs = .ok recs := by
  unfold readImageRecords at h
  simp only [Shape.bind_ok] at h
  obtain ⟨hd, h1, n, _, L, _, h4⟩ := h
  split at h4
  · simp [bind, Except.bind] at h4
  · simp only [Shape.bind_ok, Shape.pure_ok] at h4
    obtain ⟨rs, h5, h6⟩ := h4
    simp only [Prod.mk.injEq] at h6
    obtain ⟨rfl, rfl⟩ := h6
    exact ⟨h1, _, _, _, _, h5⟩

theorem transform_inv (rpc : Nat) (header : Val) (recs : List Val) (g : ImageGroup)
    (h : transformImageMetadata rpc header recs = .ok g) :
    ∃ (ranges : List (Int × Int)) (typeCode : String) (nl np : Int) (dtype : String) (hattrs : KVs Leaf),
      recs.mapM (fun r => do
        let a ← intAt r ["data", "start"]
        let b ← intAt r ["data", "stop"]
        pure (a, b)) = .ok ranges ∧
      header.getPath ["prefix_suffix_data_locators", "sar_data_format_type_code"] = some (.leaf (.str typeCode)) ∧
      intAt header ["sar_related_data_in_the_record", "number_of_lines_per_dataset"] = .ok nl ∧
      intAt header ["sar_related_data_in_the_record", "number_of_data_groups_per_line"] = .ok np ∧
      (Gen.dtypes.find? (fun d => d.1 = typeCode)).map (fun d => d.2.1) = some dtype ∧
      extractAttrs realLeafFns header.toPVal = some hattrs ∧
      g.array = { typeCode := typeCode, shape := (nl, np), dtype := dtype, byteRanges := ranges, rpc := rpc } ∧
      ∃ vars groups attrs, transformLineMetadata (Val.toPVal.toPVals recs) = .mk vars groups attrs ∧
        g.group = .mk vars groups (kvUnion attrs (kvUnion hattrs [("coordinates", .list (vars.map (fun kv => .cstr kv.1)))])) := by
  unfold transformImageMetadata at h
  simp only [Shape.bind_ok] at h
  obtain ⟨ranges, h1, h⟩ := h
  split at h
  next s hs =>
    simp only [pure_bind, Shape.bind_ok] at h
    obtain ⟨nl, h3, np, h4, h⟩ := h
    split at h
    next d hd =>
      split at h
      next a ha =>
        cases ht : transformLineMetadata (Val.toPVal.toPVals recs) with
        | mk vars groups attrs =>
          rw [ht] at h
          simp only [Shape.pure_ok] at h
          subst h
          exact ⟨ranges, s, nl, np, d.2.1, a, h1, hs, h3, h4, by rw [hd]; rfl, ha, rfl, vars, groups, attrs, rfl, rfl⟩
      · simp [throw, throwThe, MonadExceptOf.throw, bind, Except.bind] at h
    · simp [throw, throwThe, MonadExceptOf.throw, bind, Except.bind] at h
  · simp [throw, throwThe, MonadExceptOf.throw, bind, Except.bind] at h

theorem insertByKey_ne_nil {γ : Type} (x : String × γ) (l : List (String × γ)) : insertByKey x l ≠ [] := by
  cases l with
  | nil => simp [insertByKey]
  | cons y ys => rw [insertByKey]; split <;> simp

theorem sortByKey_eq_nil {γ : Type} (l : List (String × γ)) (h : sortByKey l = []) : l = [] := by
  cases l with
  | nil => rfl
  | cons x xs =>
    rw [sortByKey, List.foldr_cons] at h
    exact absurd h (insertByKey_ne_nil _ _)

theorem sortGroups_eq_nil {α : Type} (gs : List (String × Grp α)) (h : Grp.sortGroups gs = []) : gs = [] := by
  cases gs with
  | nil => rfl
  | cons x xs => obtain ⟨k, g⟩ := x; rw [Grp.sortGroups] at h; cases h

/-- the group part, for either level -/
theorem open_group (rec : Con) (vars0 : List (String × List String × KVs Sym)) (attrs0 : List (String × List String))
    (hc : Lines.lineCheck rec vars0 attrs0 = true)
    (file : Bytes) (name : String) (rpc : Nat) (gname : String) (g : ImageGroup)
    (h : openImageFile file name rpc = .ok (gname, g)) (header : Val) (recs : List Val)
    (hr : readImageRecords file rpc = .ok (header, recs)) (hn : 0 < recs.length)
    (hall : ∀ r ∈ recs, IsLineRecord rec r) :
    ∃ (vars : List (String × GVar Leaf)) (attrs : KVs Leaf) (hattrs : KVs Leaf),
      g.group = .mk vars [] (kvUnion attrs (kvUnion hattrs [("coordinates", .list (vars.map (fun kv => .cstr kv.1)))])) ∧
      (Grp.mk vars [] attrs).sortKeys =
        (Spec.lineTree vars0 attrs0 recs.length).map (Sym.eval (.list recs)) ∧
      sortByKey hattrs = (PVal.mapKvs (Sym.eval header) Spec.headerAttrs).filter (fun kv => headerAttrPresent header kv.1) := by
  obtain ⟨header', recs', hr', ht, _⟩ := open_inv _ _ _ _ _ h
  rw [hr] at hr'
  simp only [Except.ok.injEq, Prod.mk.injEq] at hr'
  obtain ⟨rfl, rfl⟩ := hr'
  obtain ⟨_, _, _, _, _, hattrs, _, _, _, _, _, hh, _, vars, groups, attrs, hlm, hg⟩ := transform_inv _ _ _ _ ht
  have hsort := lines_of_records rec vars0 attrs0 hc recs hn hall
  rw [hlm] at hsort
  have hgroups : groups = [] := by
    have := hsort
    unfold Spec.lineTree at this
    rw [Grp.sortKeys, Grp.map] at this
    injection this with _ h2 _
    rw [Grp.mapGroups] at h2
    exact sortGroups_eq_nil _ (sortByKey_eq_nil _ h2)
  subst hgroups
  refine ⟨vars, attrs, hattrs, hg, hsort, ?_⟩
  obtain ⟨hp, _⟩ := read_inv _ _ _ _ hr
  unfold parseRecord at hp
  cases hparse : parse Gen.imageFileDescriptor [] (List.take 720 file) 0 with
  | error e => rw [hparse] at hp; simp [Except.map] at hp
  | ok vp =>
    obtain ⟨v, p'⟩ := vp
    rw [hparse] at hp
    simp only [Except.map, Except.ok.injEq] at hp
    subst hp
    have := header_attrs_provenance [] _ 0 v p' hparse
    rw [hh] at this
    simpa using this

end ImgOpen

/-- the per-line pipeline ignores the three address fields: rebasing them does not change the group -/
theorem transformLineMetadata_adjust (rs : List Val) (offs : List Int) (h : offs.length = rs.length) :
    transformLineMetadata (Val.toPVal.toPVals ((rs.zip offs).map (fun ro => adjustOffset ro.2 ro.1))) =
      transformLineMetadata (Val.toPVal.toPVals rs) :=
  ImgOpen.tlm_agree ImgOpen.adjKeys (by decide) _ _ (ImgOpen.asDicts_adjust rs offs h)

/-- `Lines.line_metadata_provenance_15/11` for a LIST of separately parsed (and rebased) records instead of one array parse -/
theorem line_metadata_of_records_15 (recs : List Val) (hn : 0 < recs.length)
    (h : ∀ r ∈ recs, IsLineRecord Gen.processedDataRecord r) :
    (transformLineMetadata (Val.toPVal.toPVals recs)).sortKeys =
      (Spec.lineTree Spec.lineVars15 Spec.lineAttrs15 recs.length).map (Sym.eval (.list recs)) :=
  ImgOpen.lines_of_records _ _ _ Lines.check15 recs hn h

theorem line_metadata_of_records_11 (recs : List Val) (hn : 0 < recs.length)
    (h : ∀ r ∈ recs, IsLineRecord Gen.signalDataRecord r) :
    (transformLineMetadata (Val.toPVal.toPVals recs)).sortKeys =
      (Spec.lineTree Spec.lineVars11 Spec.lineAttrs11 recs.length).map (Sym.eval (.list recs)) :=
  ImgOpen.lines_of_records _ _ _ Lines.check11 recs hn h

/-- every record returned by the chunk loop is a rebased parse of one of the two line layouts -/
theorem readChunks_records (file : Bytes) (L : Int) (pos : Nat) (sizes : List Nat) (offs : List Int) (recs : List Val)
    (h : readChunks file L pos sizes offs = .ok recs) :
    ∀ r ∈ recs, IsLineRecord Gen.signalDataRecord r ∨ IsLineRecord Gen.processedDataRecord r := by
  induction sizes generalizing pos offs recs with
  | nil =>
    rw [readChunks] at h
    simp only [Except.ok.injEq] at h
    subst h
    intro r hr
    simp at hr
  | cons s ss ih =>
    rw [readChunks] at h
    simp only [Shape.bind_ok, Shape.pure_ok] at h
    obtain ⟨recs0, h0, rest, h1, rfl⟩ := h
    obtain ⟨layout, hl, hel⟩ := ImgOpen.parseChunk_ok _ _ _ h0
    intro r hr
    rcases List.mem_append.1 hr with hr | hr
    · simp only [List.mem_map] at hr
      obtain ⟨x, hx, rfl⟩ := hr
      obtain ⟨p, q, hp⟩ := hel x hx
      rcases hl with rfl | rfl
      · exact Or.inl ⟨_, _, _, _, _, _, hp, rfl⟩
      · exact Or.inr ⟨_, _, _, _, _, _, hp, rfl⟩
    · exact ih _ _ _ h1 r hr

/-- what `open_image` hands to the lazy array, and where the header comes from -/
theorem openImageFile_array (file : Bytes) (name : String) (rpc : Nat) (gname : String) (g : ImageGroup)
    (h : openImageFile file name rpc = .ok (gname, g)) :
    ∃ (header : Val) (recs : List Val),
      parseRecord Gen.imageFileDescriptor (file.take 720) = .ok header ∧
      readImageRecords file rpc = .ok (header, recs) ∧
      groupName name = .ok gname ∧
      g.array.rpc = rpc ∧
      header.getPath ["prefix_suffix_data_locators", "sar_data_format_type_code"] = some (.leaf (.str g.array.typeCode)) ∧
      intAt header ["sar_related_data_in_the_record", "number_of_lines_per_dataset"] = .ok g.array.shape.1 ∧
      intAt header ["sar_related_data_in_the_record", "number_of_data_groups_per_line"] = .ok g.array.shape.2 ∧
      (Gen.dtypes.find? (fun d => d.1 = g.array.typeCode)).map (fun d => d.2.1) = some g.array.dtype ∧
      recs.mapM (fun r => do
        let a ← intAt r ["data", "start"]
        let b ← intAt r ["data", "stop"]
        pure (a, b)) = .ok g.array.byteRanges ∧
      (∀ r ∈ recs, IsLineRecord Gen.signalDataRecord r ∨ IsLineRecord Gen.processedDataRecord r) := by
  obtain ⟨header, recs, hr, ht, hgn⟩ := ImgOpen.open_inv _ _ _ _ _ h
  obtain ⟨ranges, typeCode, nl, np, dtype, hattrs, h1, h2, h3, h4, h5, _, ha, _⟩ := ImgOpen.transform_inv _ _ _ _ ht
  obtain ⟨hp, L, pos, sizes, offs, hc⟩ := ImgOpen.read_inv _ _ _ _ hr
  refine ⟨header, recs, hp, hr, hgn, ?_, ?_, ?_, ?_, ?_, ?_, readChunks_records _ _ _ _ _ _ hc⟩
  all_goals rw [ha]
  · exact h2
  · exact h3
  · exact h4
  · exact h5
  · exact h1

/-- the image group, level 1.5 / 3.1 (all records parsed by the processed-data layout): per-line variables and per-file
    constants as documented (one entry per record, in file order), header attributes present exactly when non-blank,
    `coordinates` = the variable names -/
theorem openImageFile_group_15 (file : Bytes) (name : String) (rpc : Nat) (gname : String) (g : ImageGroup)
    (h : openImageFile file name rpc = .ok (gname, g)) (header : Val) (recs : List Val)
    (hr : readImageRecords file rpc = .ok (header, recs)) (hn : 0 < recs.length)
    (hall : ∀ r ∈ recs, IsLineRecord Gen.processedDataRecord r) :
    ∃ (vars : List (String × GVar Leaf)) (attrs : KVs Leaf) (hattrs : KVs Leaf),
      g.group = .mk vars [] (kvUnion attrs (kvUnion hattrs [("coordinates", .list (vars.map (fun kv => .cstr kv.1)))])) ∧
      (Grp.mk vars [] attrs).sortKeys =
        (Spec.lineTree Spec.lineVars15 Spec.lineAttrs15 recs.length).map (Sym.eval (.list recs)) ∧
      sortByKey hattrs = (PVal.mapKvs (Sym.eval header) Spec.headerAttrs).filter (fun kv => headerAttrPresent header kv.1) :=
  ImgOpen.open_group _ _ _ Lines.check15 file name rpc gname g h header recs hr hn hall

/-- the same for level 1.1 (signal-data layout) -/
theorem openImageFile_group_11 (file : Bytes) (name : String) (rpc : Nat) (gname : String) (g : ImageGroup)
    (h : openImageFile file name rpc = .ok (gname, g)) (header : Val) (recs : List Val)
    (hr : readImageRecords file rpc = .ok (header, recs)) (hn : 0 < recs.length)
    (hall : ∀ r ∈ recs, IsLineRecord Gen.signalDataRecord r) :
    ∃ (vars : List (String × GVar Leaf)) (attrs : KVs Leaf) (hattrs : KVs Leaf),
      g.group = .mk vars [] (kvUnion attrs (kvUnion hattrs [("coordinates", .list (vars.map (fun kv => .cstr kv.1)))])) ∧
      (Grp.mk vars [] attrs).sortKeys =
        (Spec.lineTree Spec.lineVars11 Spec.lineAttrs11 recs.length).map (Sym.eval (.list recs)) ∧
      sortByKey hattrs = (PVal.mapKvs (Sym.eval header) Spec.headerAttrs).filter (fun kv => headerAttrPresent header kv.1) :=
  ImgOpen.open_group _ _ _ Lines.check11 file name rpc gname g h header recs hr hn hall

end Alos2

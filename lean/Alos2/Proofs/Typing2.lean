/-
Typing and padding-inertness for the remaining leader records (C12, C20):
* the documented trees of platform position, map projection (every designator class), attitude (every n) and data quality
  (every n) — and hence the whole documented `/metadata` tree — are well typed;
* every leaf of the documented static trees names a live, context-free field of its layout;
* padding is inert for the radiometric, facility-5, platform-position and map-projection records: two records that parse and
  agree on the bytes of every LIVE field give the same group, whatever their spare / blank areas contain.
-/
import Alos2.Proofs.Typing
import Alos2.Proofs.Provenance2
import Alos2.Proofs.Provenance3
import Alos2.Proofs.Metadata

namespace Alos2

namespace Typing2
open Typing

/-- a path that the closed leaf table lists as a live, context-free field reads the same leaf in two records that
    agree on the bytes of every live field -/
theorem leafAt_eq_of_covered (c : Con) (hc : c ∈ fixedRecords) (tbl0 : List LeafEntry) (e0 : Nat)
    (ht : ltF 16 c [] 0 = some (tbl0, e0)) (p : List String)
    (hany : tbl0.any (fun e => e.1 = p && !e.2.2.2.usesContext && livePath e.1) = true)
    (ctx ctx' : Ctx) (bs bs' : Bytes) (pos : Nat) (v v' : Val) (e e' : Nat)
    (h : parse c ctx bs pos = .ok (v, e)) (h' : parse c ctx' bs' pos = .ok (v', e'))
    (hlive : ∀ tbl endp, Con.leafTable c [] pos = some (tbl, endp) →
      ∀ ent ∈ tbl, livePath ent.1 = true → slice bs ent.2.1 (ent.2.1 + ent.2.2.1) = slice bs' ent.2.1 (ent.2.1 + ent.2.2.1)) :
    v.leafAt p = v'.leafAt p := by
  rw [List.any_eq_true] at hany
  obtain ⟨ent, hent, hprops⟩ := hany
  simp only [Bool.and_eq_true, decide_eq_true_eq, Bool.not_eq_true'] at hprops
  obtain ⟨⟨hpath, hctx⟩, hlv⟩ := hprops
  have htP : Con.leafTable c [] pos = some (tbl0.map (shE pos), e0 + pos) := by
    apply ltF_sound 16
    have := ltF_shift pos 16 c [] 0
    rw [Nat.zero_add, ht] at this
    exact this
  have hentP : shE pos ent ∈ tbl0.map (shE pos) := List.mem_map_of_mem hent
  have hwin := hlive _ _ htP _ hentP hlv
  rw [← hpath]
  exact leaf_window_leafAt_fixedRecords c hc pos _ _ htP ent.1 (ent.2.1 + pos) ent.2.2.1 ent.2.2.2 hentP hctx
    ctx ctx' bs bs' v v' e e' h h' hwin

/-- `Typing.padding_inert_of` with naturality required only for the two parsed records and the layout's skeleton -/
theorem padding_inert_of2 (c : Con) (hc : c ∈ fixedRecords) (Treal : PVal Leaf → Option (Grp Leaf)) (Tsym : PVal Sym → Option (Grp Sym))
    (hchk : inertCheck c Tsym = true)
    (ctx ctx' : Ctx) (bs bs' : Bytes) (pos : Nat) (v v' : Val) (e e' : Nat)
    (hnat : ∀ s, Con.skel c [] = some s → Treal (s.map (Sym.eval v)) = (Tsym s).map (Grp.map (Sym.eval v)))
    (hnat' : ∀ s, Con.skel c [] = some s → Treal (s.map (Sym.eval v')) = (Tsym s).map (Grp.map (Sym.eval v')))
    (h : parse c ctx bs pos = .ok (v, e)) (h' : parse c ctx' bs' pos = .ok (v', e'))
    (hlive : ∀ tbl endp, Con.leafTable c [] pos = some (tbl, endp) →
      ∀ ent ∈ tbl, livePath ent.1 = true → slice bs ent.2.1 (ent.2.1 + ent.2.2.1) = slice bs' ent.2.1 (ent.2.1 + ent.2.2.1)) :
    Treal v.toPVal = Treal v'.toPVal := by
  unfold inertCheck at hchk
  split at hchk
  next tbl0 e0 s ht hs =>
    rw [parse_eq_skel c s hs ctx bs pos v e h, parse_eq_skel c s hs ctx' bs' pos v' e' h', hnat s hs, hnat' s hs]
    cases hG : Tsym s with
    | none => rfl
    | some G =>
      rw [hG] at hchk
      simp only [Option.map_some, Option.some.injEq]
      apply grp_map_congr
      intro a ha
      apply eval_congr
      intro p hp
      have hmem : p ∈ G.leaves.flatMap Sym.paths := List.mem_flatMap.mpr ⟨a, ha, hp⟩
      unfold coveredBy at hchk
      rw [List.all_eq_true] at hchk
      exact leafAt_eq_of_covered c hc tbl0 e0 ht p (hchk p hmem) ctx ctx' bs bs' pos v v' e e' h h' hlive
  next => simp at hchk

/-- the designator field is a live, context-free field of the map-projection layout -/
def desigLive : Bool :=
  match ltF 16 Gen.mapProjectionRecord [] 0 with
  | some (tbl, _) => coveredBy tbl [["map_projection_designator"]]
  | none => false

set_option maxRecDepth 100000 in
theorem desigLive_true : desigLive = true := by decide +kernel

set_option maxRecDepth 100000 in
theorem mpInert_utm : inertCheck Gen.mapProjectionRecord (transformMapProjection (symLeafFns2 allPresent (fun _ => .utm))) = true := by
  decide +kernel
set_option maxRecDepth 100000 in
theorem mpInert_ups : inertCheck Gen.mapProjectionRecord (transformMapProjection (symLeafFns2 allPresent (fun _ => .ups))) = true := by
  decide +kernel
set_option maxRecDepth 100000 in
theorem mpInert_nat : inertCheck Gen.mapProjectionRecord (transformMapProjection (symLeafFns2 allPresent (fun _ => .nat))) = true := by
  decide +kernel
set_option maxRecDepth 100000 in
theorem mpInert_other : inertCheck Gen.mapProjectionRecord (transformMapProjection (symLeafFns2 allPresent (fun _ => .other))) = true := by
  decide +kernel
set_option maxRecDepth 100000 in
theorem mpInert_bad : inertCheck Gen.mapProjectionRecord (transformMapProjection (symLeafFns2 allPresent (fun _ => .bad))) = true := by
  decide +kernel

theorem mpInert_all : ∀ d, inertCheck Gen.mapProjectionRecord (transformMapProjection (symLeafFns2 allPresent (fun _ => d))) = true
  | .utm => mpInert_utm
  | .ups => mpInert_ups
  | .nat => mpInert_nat
  | .other => mpInert_other
  | .bad => mpInert_bad

/-- naturality of the map-projection pipeline for ONE parsed record, with the constant oracle answering its class -/
theorem mapProjection_nat_at (v : Val) (d : Desig)
    (hd : realLeafFns2.desig ((v.leafAt ["map_projection_designator"]).getD default) = d)
    (s : PVal Sym) (hs : Con.skel Gen.mapProjectionRecord [] = some s) :
    transformMapProjection realLeafFns2 (s.map (Sym.eval v)) =
      (transformMapProjection (symLeafFns2 allPresent (fun _ => d)) s).map (Grp.map (Sym.eval v)) := by
  obtain ⟨s0, kvs, hs0, hk, hp⟩ := Prov2.desig_at
  rw [hs0] at hs
  injection hs with hs
  subst hs
  rw [transformMapProjection_natural _ _ _ (compat2_rho v)]
  congr 1
  apply Prov2.transformMapProjection_congr
  intro kvs' a hk' ha
  rw [hk] at hk'
  injection hk' with hk'
  subst hk'
  rw [hp] at ha
  injection ha with ha
  injection ha with ha
  subst ha
  exact hd

end Typing2

set_option maxRecDepth 100000 in
theorem spec_trees_wellTyped2 :
    Spec.platformPosition.wellTyped = true ∧ Spec.mapProjectionUTM.wellTyped = true ∧ Spec.mapProjectionUPS.wellTyped = true ∧
    Spec.mapProjectionNAT.wellTyped = true ∧ Spec.mapProjectionOther.wellTyped = true := by
  refine ⟨?_, ?_, ?_, ?_, ?_⟩ <;> decide +kernel

theorem attitude_wellTyped (n : Nat) : (Spec.attitude n).wellTyped = true := by
  simp [Spec.attitude, Grp.wellTyped, Grp.wellTypedGroups, GVar.wellTyped, PVal.leafy, PVal.plainAttr,
    PVal.plainAttrList, Typing.leafyList_range]

theorem dataQualitySummary_wellTyped (n : Nat) : (Spec.dataQualitySummary n).wellTyped = true := by
  simp [Spec.dataQualitySummary, Grp.wellTyped, Grp.wellTypedGroups, GVar.wellTyped, PVal.leafy, PVal.plainAttr,
    Typing.leafyList_range]

/-- the whole documented `/metadata` tree is well typed, whatever the counts and the designator class -/
theorem metadata_wellTyped (hasMap : Bool) (d : Desig) (na nc : Nat) (G : Grp Sym)
    (h : Spec.metadata hasMap d na nc = some G) : G.wellTyped = true := by
  obtain ⟨h1, h2, h3, _, _⟩ := spec_trees_wellTyped
  obtain ⟨k1, k2, k3, k4, k5⟩ := spec_trees_wellTyped2
  unfold Spec.metadata at h
  cases hasMap <;> cases d <;> simp [Spec.mapProjection] at h <;> subst h <;>
    simp [Grp.wellTyped, Grp.wellTypedGroups, wellTyped_map, attitude_wellTyped, dataQualitySummary_wellTyped, *]

set_option maxRecDepth 100000 in
theorem spec_paths_live2 :
    pathsCovered (Spec.platformPosition.leaves.flatMap Sym.paths) Gen.platformPositionRecord = true ∧
    pathsCovered (Spec.mapProjectionUTM.leaves.flatMap Sym.paths) Gen.mapProjectionRecord = true ∧
    pathsCovered (Spec.mapProjectionUPS.leaves.flatMap Sym.paths) Gen.mapProjectionRecord = true ∧
    pathsCovered (Spec.mapProjectionNAT.leaves.flatMap Sym.paths) Gen.mapProjectionRecord = true ∧
    pathsCovered (Spec.mapProjectionOther.leaves.flatMap Sym.paths) Gen.mapProjectionRecord = true := by
  refine ⟨?_, ?_, ?_, ?_, ?_⟩ <;> apply Typing.coveredF_sound <;> decide +kernel

theorem radiometric_padding_inert (ctx ctx' : Ctx) (bs bs' : Bytes) (pos : Nat) (v v' : Val) (e e' : Nat)
    (h : parse Gen.radiometricDataRecord ctx bs pos = .ok (v, e)) (h' : parse Gen.radiometricDataRecord ctx' bs' pos = .ok (v', e'))
    (hlive : ∀ tbl endp, Con.leafTable Gen.radiometricDataRecord [] pos = some (tbl, endp) →
      ∀ ent ∈ tbl, livePath ent.1 = true → slice bs ent.2.1 (ent.2.1 + ent.2.2.1) = slice bs' ent.2.1 (ent.2.1 + ent.2.2.1)) :
    transformRadiometricData v.toPVal = transformRadiometricData v'.toPVal := by
  have hc : Gen.radiometricDataRecord ∈ fixedRecords := by
    unfold fixedRecords
    repeat (first | exact List.Mem.head _ | apply List.Mem.tail)
  refine Typing.padding_inert_of Gen.radiometricDataRecord hc _ transformRadiometricData
    ?_ (by decide +kernel) ctx ctx' bs bs' pos v v' e e' h h' hlive
  intro v s
  rw [transformRadiometricData_natural]

set_option maxRecDepth 100000 in
theorem record5_padding_inert (ctx ctx' : Ctx) (bs bs' : Bytes) (pos : Nat) (v v' : Val) (e e' : Nat)
    (h : parse Gen.facilityRelatedData5Record ctx bs pos = .ok (v, e)) (h' : parse Gen.facilityRelatedData5Record ctx' bs' pos = .ok (v', e'))
    (hlive : ∀ tbl endp, Con.leafTable Gen.facilityRelatedData5Record [] pos = some (tbl, endp) →
      ∀ ent ∈ tbl, livePath ent.1 = true → slice bs ent.2.1 (ent.2.1 + ent.2.2.1) = slice bs' ent.2.1 (ent.2.1 + ent.2.2.1)) :
    transformRecord5 realLeafFns v.toPVal = transformRecord5 realLeafFns v'.toPVal := by
  have hc : Gen.facilityRelatedData5Record ∈ fixedRecords := by
    unfold fixedRecords
    repeat (first | exact List.Mem.head _ | apply List.Mem.tail)
  refine Typing.padding_inert_of Gen.facilityRelatedData5Record hc _ (transformRecord5 (symLeafFns allPresent))
    ?_ (by decide +kernel) ctx ctx' bs bs' pos v v' e e' h h' hlive
  intro v s
  rw [transformRecord5_natural _ _ _ (Prov.compat_rhoOf v),
    Prov.transformRecord5_congr (symLeafFns (Prov.rhoOf v)) (symLeafFns allPresent) rfl]

set_option maxRecDepth 100000 in
theorem platform_position_padding_inert (ctx ctx' : Ctx) (bs bs' : Bytes) (pos : Nat) (v v' : Val) (e e' : Nat)
    (h : parse Gen.platformPositionRecord ctx bs pos = .ok (v, e)) (h' : parse Gen.platformPositionRecord ctx' bs' pos = .ok (v', e'))
    (hlive : ∀ tbl endp, Con.leafTable Gen.platformPositionRecord [] pos = some (tbl, endp) →
      ∀ ent ∈ tbl, livePath ent.1 = true → slice bs ent.2.1 (ent.2.1 + ent.2.2.1) = slice bs' ent.2.1 (ent.2.1 + ent.2.2.1)) :
    transformPlatformPosition realLeafFns2 v.toPVal = transformPlatformPosition realLeafFns2 v'.toPVal := by
  have hc : Gen.platformPositionRecord ∈ fixedRecords := by
    unfold fixedRecords
    repeat (first | exact List.Mem.head _ | apply List.Mem.tail)
  refine Typing.padding_inert_of Gen.platformPositionRecord hc _
    (transformPlatformPosition (symLeafFns2 allPresent (fun _ => .bad)))
    ?_ (by decide +kernel) ctx ctx' bs bs' pos v v' e e' h h' hlive
  intro v s
  rw [transformPlatformPosition_natural _ _ _ (compat2_rho v),
    Prov2.transformPlatformPosition_congr (symLeafFns2 (Prov.rhoOf v) (rhoD v))
      (symLeafFns2 allPresent (fun _ => .bad)) rfl rfl]

theorem map_projection_padding_inert (ctx ctx' : Ctx) (bs bs' : Bytes) (pos : Nat) (v v' : Val) (e e' : Nat)
    (h : parse Gen.mapProjectionRecord ctx bs pos = .ok (v, e)) (h' : parse Gen.mapProjectionRecord ctx' bs' pos = .ok (v', e'))
    (hlive : ∀ tbl endp, Con.leafTable Gen.mapProjectionRecord [] pos = some (tbl, endp) →
      ∀ ent ∈ tbl, livePath ent.1 = true → slice bs ent.2.1 (ent.2.1 + ent.2.2.1) = slice bs' ent.2.1 (ent.2.1 + ent.2.2.1)) :
    transformMapProjection realLeafFns2 v.toPVal = transformMapProjection realLeafFns2 v'.toPVal := by
  have hc : Gen.mapProjectionRecord ∈ fixedRecords := by
    unfold fixedRecords
    repeat (first | exact List.Mem.head _ | apply List.Mem.tail)
  -- both records carry the same designator leaf
  have hdes : v.leafAt ["map_projection_designator"] = v'.leafAt ["map_projection_designator"] := by
    have hl := Typing2.desigLive_true
    unfold Typing2.desigLive at hl
    split at hl
    next tbl0 e0 ht =>
      unfold Typing.coveredBy at hl
      rw [List.all_eq_true] at hl
      exact Typing2.leafAt_eq_of_covered _ hc tbl0 e0 ht _ (hl _ (by simp)) ctx ctx' bs bs' pos v v' e e' h h' hlive
    next => simp at hl
  generalize hd : realLeafFns2.desig ((v.leafAt ["map_projection_designator"]).getD default) = d
  have hd' : realLeafFns2.desig ((v'.leafAt ["map_projection_designator"]).getD default) = d := by rw [← hdes]; exact hd
  exact Typing2.padding_inert_of2 Gen.mapProjectionRecord hc _
    (transformMapProjection (symLeafFns2 allPresent (fun _ => d))) (Typing2.mpInert_all d)
    ctx ctx' bs bs' pos v v' e e'
    (Typing2.mapProjection_nat_at v d hd) (Typing2.mapProjection_nat_at v' d hd') h h' hlive

end Alos2

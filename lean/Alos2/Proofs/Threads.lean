/-
Concurrent loads: non-interference under every schedule, and absence of deadlock.
-/
import Alos2.Model.Threads

namespace Alos2

/-- programs that follow the lock discipline of the wrapper: one lock, acquired first, released last, I/O in between -/
def WellLocked (t : Thread) : Prop := ∃ l trace, t.prog = loadProgram l trace

/-- the outputs of the first `pc` operations of a program run alone -/
def prefixOut (file : Bytes) (prog : List TOp) (pc : Nat) : List Bytes := soloOut file (prog.take pc)

/-! ### the effect of one operation on the private state -/

/-- the step function folded by `soloOut` -/
def opStep (file : Bytes) (s : TState) (op : TOp) : TState :=
  match op with
  | .io e => ioStep file s e
  | _ => { s with pc := s.pc + 1 }

/-- the whole private state after the first `pc` operations run alone -/
def soloState (file : Bytes) (prog : List TOp) (pc : Nat) : TState :=
  (prog.take pc).foldl (opStep file) {}

theorem soloOut_eq (file : Bytes) (prog : List TOp) :
    soloOut file prog = (prog.foldl (opStep file) {}).out := rfl

theorem prefixOut_eq (file : Bytes) (prog : List TOp) (pc : Nat) :
    prefixOut file prog pc = (soloState file prog pc).out := rfl

theorem ioStep_pc (file : Bytes) (s : TState) (e : IOEvent) : (ioStep file s e).pc = s.pc + 1 := by
  cases e <;> rfl

theorem opStep_pc (file : Bytes) (s : TState) (op : TOp) : (opStep file s op).pc = s.pc + 1 := by
  cases op <;> simp [opStep, ioStep_pc]

theorem soloState_succ (file : Bytes) (prog : List TOp) (pc : Nat) (op : TOp) (h : prog[pc]? = some op) :
    soloState file prog (pc + 1) = opStep file (soloState file prog pc) op := by
  simp [soloState, List.take_add_one, h, List.foldl_append]

theorem soloState_zero (file : Bytes) (prog : List TOp) : soloState file prog 0 = {} := by
  simp [soloState]

/-! ### what one step of the system does to the thread list -/

/-- the owner table after thread `i` performs `op` -/
def ownerAfter (owner : List (Nat × Nat)) (i : Nat) : TOp → List (Nat × Nat)
  | .acquire l => (l, i) :: owner.filter (fun p => p.1 ≠ l)
  | .release l => owner.filter (fun p => p.1 ≠ l)
  | .io _ => owner

theorem stepSys_disabled (s : Sys) (i : Nat) (h : enabled s i = false) : stepSys s i = s := by
  simp [stepSys, h]

theorem enabled_some (s : Sys) (i : Nat) (h : enabled s i = true) :
    ∃ t op, s.threads[i]? = some t ∧ t.prog[t.st.pc]? = some op := by
  unfold enabled at h
  cases ht : s.threads[i]? with
  | none => simp [ht] at h
  | some t =>
    cases hop : t.prog[t.st.pc]? with
    | none => simp [ht, hop] at h
    | some op => exact ⟨t, op, rfl, hop⟩

theorem stepSys_enabled (s : Sys) (i : Nat) (t : Thread) (op : TOp) (hen : enabled s i = true)
    (ht : s.threads[i]? = some t) (hop : t.prog[t.st.pc]? = some op) :
    stepSys s i = { threads := s.threads.set i { t with st := opStep t.file t.st op },
                    owner := ownerAfter s.owner i op } := by
  unfold stepSys
  cases op <;> simp [hen, ht, hop, opStep, ownerAfter]

/-- a step either leaves the system unchanged, or advances thread `i` by its next operation -/
theorem stepSys_threads (s : Sys) (i : Nat) :
    stepSys s i = s ∨
    ∃ t op, enabled s i = true ∧ s.threads[i]? = some t ∧ t.prog[t.st.pc]? = some op ∧
      (stepSys s i).threads = s.threads.set i { t with st := opStep t.file t.st op } := by
  cases hen : enabled s i with
  | false => left; exact stepSys_disabled s i hen
  | true =>
    obtain ⟨t, op, ht, hop⟩ := enabled_some s i hen
    right
    exact ⟨t, op, rfl, ht, hop, by rw [stepSys_enabled s i t op hen ht hop]⟩

/-- the per-thread invariant: same program and file as initially, and the private state is the solo state -/
def ThreadInv (s₀ : Sys) (i : Nat) (t : Thread) : Prop :=
  ∃ t₀ : Thread, s₀.threads[i]? = some t₀ ∧ t.prog = t₀.prog ∧ t.file = t₀.file ∧
    t.st = soloState t.file t.prog t.st.pc

def SysInv (s₀ s : Sys) : Prop := ∀ i t, s.threads[i]? = some t → ThreadInv s₀ i t

theorem sysInv_init (s₀ : Sys) (hinit : ∀ t ∈ s₀.threads, t.st = {}) : SysInv s₀ s₀ := by
  intro i t ht
  refine ⟨t, ht, rfl, rfl, ?_⟩
  have hm : t ∈ s₀.threads := List.mem_of_getElem? ht
  rw [hinit t hm]
  simp [soloState]

theorem sysInv_step (s₀ s : Sys) (h : SysInv s₀ s) (i : Nat) : SysInv s₀ (stepSys s i) := by
  rcases stepSys_threads s i with heq | ⟨t, op, _, ht, hop, hset⟩
  · rw [heq]; exact h
  · intro j u hu
    rw [hset] at hu
    by_cases hij : i = j
    · subst hij
      have hlt : i < s.threads.length := by
        rcases List.getElem?_eq_some_iff.mp ht with ⟨hl, _⟩; exact hl
      rw [List.getElem?_set_self hlt] at hu
      injection hu with hu
      subst hu
      obtain ⟨t₀, h0, hp, hf, hst⟩ := h i t ht
      refine ⟨t₀, h0, hp, hf, ?_⟩
      show opStep t.file t.st op = soloState t.file t.prog (opStep t.file t.st op).pc
      rw [opStep_pc, soloState_succ _ _ _ _ hop, ← hst]
    · rw [List.getElem?_set_ne hij] at hu
      exact h j u hu

theorem sysInv_run (s₀ : Sys) (σ : List Nat) : ∀ s, SysInv s₀ s → SysInv s₀ (runSched s σ) := by
  induction σ with
  | nil => intro s h; exact h
  | cons i rest ih => intro s h; exact ih _ (sysInv_step s₀ s h i)

/-- **non-interference**: under EVERY schedule, at every moment, what a thread has read so far is exactly what it
    would have read alone after the same number of its own steps (in particular, a finished load returned its solo result) -/
theorem noninterference (s₀ : Sys) (hinit : ∀ t ∈ s₀.threads, t.st = {}) (σ : List Nat) :
    ∀ (i : Nat) (t : Thread), (runSched s₀ σ).threads[i]? = some t →
      ∃ t₀ : Thread, s₀.threads[i]? = some t₀ ∧ t.prog = t₀.prog ∧ t.file = t₀.file ∧ t.st.out = prefixOut t.file t.prog t.st.pc := by
  intro i t ht
  obtain ⟨t₀, h0, hp, hf, hst⟩ := sysInv_run s₀ σ s₀ (sysInv_init s₀ hinit) i t ht
  refine ⟨t₀, h0, hp, hf, ?_⟩
  rw [prefixOut_eq, ← hst]

theorem finished_equals_solo (s₀ : Sys) (hinit : ∀ t ∈ s₀.threads, t.st = {}) (σ : List Nat) (i : Nat) (t : Thread)
    (ht : (runSched s₀ σ).threads[i]? = some t) (hf : t.finished = true) : t.st.out = soloOut t.file t.prog := by
  obtain ⟨_, _, _, _, hout⟩ := noninterference s₀ hinit σ i t ht
  rw [hout, prefixOut]
  have : t.prog.length ≤ t.st.pc := by simpa [Thread.finished] using hf
  rw [List.take_of_length_le this]

/-! ### the lock discipline -/

theorem loadProgram_length (l : Nat) (tr : List IOEvent) : (loadProgram l tr).length = tr.length + 2 := by
  simp [loadProgram]

/-- what sits at index `k` of a load program -/
theorem loadProgram_get (l : Nat) (tr : List IOEvent) (k : Nat) (op : TOp)
    (h : (loadProgram l tr)[k]? = some op) :
    (k = 0 ∧ op = .acquire l) ∨ (1 ≤ k ∧ k ≤ tr.length ∧ ∃ e, op = .io e) ∨ (k = tr.length + 1 ∧ op = .release l) := by
  unfold loadProgram at h
  cases k with
  | zero => left; simp at h; exact ⟨rfl, h.symm⟩
  | succ k =>
    right
    simp only [List.cons_append, List.nil_append, List.getElem?_cons_succ] at h
    rw [List.getElem?_append] at h
    split at h
    · rename_i hlt
      left
      simp only [List.length_map] at hlt
      rw [List.getElem?_map] at h
      cases he : tr[k]? with
      | none => simp [he] at h
      | some e => simp [he] at h; exact ⟨by omega, by omega, e, h.symm⟩
    · rename_i hge
      right
      simp only [List.length_map] at hge h
      cases hk : k - tr.length with
      | zero => simp [hk] at h; exact ⟨by omega, h.symm⟩
      | succ m => simp [hk] at h

theorem loadProgram_lock_inj (l l' : Nat) (tr tr' : List IOEvent) (h : loadProgram l tr = loadProgram l' tr') : l = l' := by
  simp [loadProgram] at h
  exact h.1

theorem enabled_of_not_acquire (s : Sys) (i : Nat) (t : Thread) (op : TOp)
    (ht : s.threads[i]? = some t) (hop : t.prog[t.st.pc]? = some op) (hna : ∀ l, op ≠ .acquire l) :
    enabled s i = true := by
  unfold enabled
  cases op with
  | acquire l => exact absurd rfl (hna l)
  | release l => simp [ht, hop]
  | io e => simp [ht, hop]

/-- the invariant of the lock discipline: all programs are load programs, and whoever is recorded as the holder
    of lock `l` is a thread running a load program on THAT lock, strictly inside it -/
def LockInv (s : Sys) : Prop :=
  (∀ t ∈ s.threads, WellLocked t) ∧
  (∀ l j, (l, j) ∈ s.owner → ∃ t trace, s.threads[j]? = some t ∧ t.prog = loadProgram l trace ∧
      1 ≤ t.st.pc ∧ t.st.pc < t.prog.length)

theorem lockInv_init (s₀ : Sys) (hown : s₀.owner = []) (hw : ∀ t ∈ s₀.threads, WellLocked t) : LockInv s₀ := by
  refine ⟨hw, ?_⟩
  intro l j h
  rw [hown] at h
  cases h

theorem lockInv_step (s : Sys) (h : LockInv s) (i : Nat) : LockInv (stepSys s i) := by
  cases hen : enabled s i with
  | false => rw [stepSys_disabled s i hen]; exact h
  | true =>
    obtain ⟨t, op, ht, hop⟩ := enabled_some s i hen
    rw [stepSys_enabled s i t op hen ht hop]
    obtain ⟨hwl, hown⟩ := h
    have hlt : i < s.threads.length := (List.getElem?_eq_some_iff.mp ht).1
    have htm : t ∈ s.threads := List.mem_of_getElem? ht
    obtain ⟨l0, tr, hp⟩ := hwl t htm
    have hlen : t.prog.length = tr.length + 2 := by rw [hp, loadProgram_length]
    refine ⟨?_, ?_⟩
    · intro u hu
      rcases List.mem_or_eq_of_mem_set hu with hu | hu
      · exact hwl u hu
      · subst hu; exact ⟨l0, tr, hp⟩
    · -- an unchanged holder `j ≠ i` stays as it was
      have hother : ∀ l j, j ≠ i → (l, j) ∈ s.owner →
          ∃ u trace, (s.threads.set i { t with st := opStep t.file t.st op })[j]? = some u ∧
            u.prog = loadProgram l trace ∧ 1 ≤ u.st.pc ∧ u.st.pc < u.prog.length := by
        intro l j hj hm
        obtain ⟨u, tr2, hu, hrest⟩ := hown l j hm
        exact ⟨u, tr2, by rw [List.getElem?_set_ne (Ne.symm hj)]; exact hu, hrest⟩
      have hself : (s.threads.set i { t with st := opStep t.file t.st op })[i]? =
          some { t with st := opStep t.file t.st op } := List.getElem?_set_self hlt
      have hget := hop
      rw [hp] at hget
      intro l j hm
      rcases loadProgram_get l0 tr _ op hget with ⟨hpc, hopeq⟩ | ⟨hpc1, hpc2, e, hopeq⟩ | ⟨hpc, hopeq⟩
      · -- acquire at pc = 0
        subst hopeq
        simp only [ownerAfter, List.mem_cons, List.mem_filter] at hm
        rcases hm with hm | ⟨hm, hne⟩
        · injection hm with h1 h2
          subst h1; subst h2
          refine ⟨_, tr, hself, hp, ?_, ?_⟩
          · simp [opStep]
          · simp [opStep, hlen, hpc]
        · by_cases hj : j = i
          · subst hj
            obtain ⟨u, tr2, hu, _, hge, _⟩ := hown l j hm
            rw [ht] at hu; injection hu with hu; subst hu
            omega
          · exact hother l j hj hm
      · -- io strictly inside
        subst hopeq
        simp only [ownerAfter] at hm
        by_cases hj : j = i
        · subst hj
          obtain ⟨u, tr2, hu, hp2, hge, hl⟩ := hown l j hm
          rw [ht] at hu; injection hu with hu; subst hu
          refine ⟨_, tr2, hself, hp2, ?_, ?_⟩
          · simp [opStep, ioStep_pc]
          · simp [opStep, ioStep_pc, hlen]; omega
        · exact hother l j hj hm
      · -- release at the end
        subst hopeq
        simp only [ownerAfter, List.mem_filter] at hm
        obtain ⟨hm, hne⟩ := hm
        by_cases hj : j = i
        · subst hj
          obtain ⟨u, tr2, hu, hp2, _, _⟩ := hown l j hm
          rw [ht] at hu; injection hu with hu; subst hu
          have : l0 = l := loadProgram_lock_inj l0 l tr tr2 (hp.symm.trans hp2)
          subst this
          simp at hne
        · exact hother l j hj hm

theorem lockInv_run (σ : List Nat) : ∀ s, LockInv s → LockInv (runSched s σ) := by
  induction σ with
  | nil => intro s h; exact h
  | cons i rest ih => intro s h; exact ih _ (lockInv_step s h i)

/-- under the lock invariant, an unfinished thread means some thread can move -/
theorem lockInv_enabled (s : Sys) (h : LockInv s) :
    (∃ t ∈ s.threads, t.finished = false) → ∃ i, enabled s i = true := by
  rintro ⟨t, htm, hf⟩
  obtain ⟨j, ht⟩ := List.getElem?_of_mem htm
  have hpc : t.st.pc < t.prog.length := by simpa [Thread.finished] using hf
  have hop : t.prog[t.st.pc]? = some t.prog[t.st.pc] := List.getElem?_eq_getElem hpc
  generalize t.prog[t.st.pc] = op at hop
  cases op with
  | release l => exact ⟨j, enabled_of_not_acquire s j t _ ht hop (by intro l h; cases h)⟩
  | io e => exact ⟨j, enabled_of_not_acquire s j t _ ht hop (by intro l h; cases h)⟩
  | acquire l =>
    cases hlo : lockOwner s l with
    | none => exact ⟨j, by unfold enabled; simp [ht, hop, hlo]⟩
    | some k =>
      unfold lockOwner at hlo
      cases hfind : s.owner.find? (fun p => p.1 = l) with
      | none => simp [hfind] at hlo
      | some p =>
        simp [hfind] at hlo
        have hmem : p ∈ s.owner := List.mem_of_find?_eq_some hfind
        have hpl : p.1 = l := by simpa using List.find?_some hfind
        obtain ⟨pl, pk⟩ := p
        simp at hlo hpl
        subst hlo; subst hpl
        obtain ⟨u, tr, hu, hp, hge, hl⟩ := h.2 pl pk hmem
        have hop' : u.prog[u.st.pc]? = some u.prog[u.st.pc] := List.getElem?_eq_getElem hl
        refine ⟨pk, enabled_of_not_acquire s pk u _ hu hop' ?_⟩
        intro l' heq
        have hget := hop'
        rw [heq] at hget
        rw [hp] at hget
        rcases loadProgram_get pl tr _ _ hget with ⟨h0, _⟩ | ⟨_, _, e, he⟩ | ⟨_, he⟩
        · omega
        · cases he
        · cases he

/-- **no deadlock**: from an initial state of well-locked loads, in every reachable state with an unfinished thread
    some thread is enabled (whoever holds a lock is inside its I/O section, which never blocks) -/
theorem no_deadlock (s₀ : Sys) (hinit : ∀ t ∈ s₀.threads, t.st = {}) (hown : s₀.owner = [])
    (hw : ∀ t ∈ s₀.threads, WellLocked t) (σ : List Nat) :
    (∃ t ∈ (runSched s₀ σ).threads, t.finished = false) → ∃ i, enabled (runSched s₀ σ) i = true := by
  have _ := hinit
  exact lockInv_enabled _ (lockInv_run σ s₀ (lockInv_init s₀ hown hw))

/-! ### progress -/

/-- the number of operations still to be executed -/
def remaining (s : Sys) : Nat := (s.threads.map (fun t => t.prog.length - t.st.pc)).sum

theorem sum_map_set (f : Thread → Nat) (a : Thread) :
    ∀ (l : List Thread) (i : Nat) (t : Thread), l[i]? = some t →
      ((l.set i a).map f).sum + f t = (l.map f).sum + f a := by
  intro l
  induction l with
  | nil => intro i t h; simp at h
  | cons x xs ih =>
    intro i t h
    cases i with
    | zero =>
      simp at h; subst h
      simp; omega
    | succ i =>
      simp at h
      have := ih i t h
      simp only [List.set_cons_succ, List.map_cons, List.sum_cons]; omega

theorem remaining_step (s : Sys) (i : Nat) (hen : enabled s i = true) :
    remaining (stepSys s i) < remaining s := by
  obtain ⟨t, op, ht, hop⟩ := enabled_some s i hen
  rw [stepSys_enabled s i t op hen ht hop]
  have hpc : t.st.pc < t.prog.length := (List.getElem?_eq_some_iff.mp hop).1
  have := sum_map_set (fun t => t.prog.length - t.st.pc) { t with st := opStep t.file t.st op } s.threads i t ht
  simp only [opStep_pc] at this
  unfold remaining
  simp only
  omega

theorem lockInv_completes : ∀ (n : Nat) (s : Sys), LockInv s → remaining s ≤ n →
    ∃ σ, ∀ t ∈ (runSched s σ).threads, t.finished = true := by
  intro n
  induction n with
  | zero =>
    intro s h hn
    by_cases hex : ∃ t ∈ s.threads, t.finished = false
    · obtain ⟨i, hi⟩ := lockInv_enabled s h hex
      have := remaining_step s i hi
      omega
    · refine ⟨[], ?_⟩
      intro t ht
      cases hf : t.finished with
      | true => rfl
      | false => exact absurd ⟨t, ht, hf⟩ hex
  | succ n ih =>
    intro s h hn
    by_cases hex : ∃ t ∈ s.threads, t.finished = false
    · obtain ⟨i, hi⟩ := lockInv_enabled s h hex
      have hlt := remaining_step s i hi
      obtain ⟨σ, hσ⟩ := ih (stepSys s i) (lockInv_step s h i) (by omega)
      exact ⟨i :: σ, hσ⟩
    · refine ⟨[], ?_⟩
      intro t ht
      cases hf : t.finished with
      | true => rfl
      | false => exact absurd ⟨t, ht, hf⟩ hex

/-- … and a round-robin schedule of sufficient length completes every load -/
theorem fair_schedule_completes (s₀ : Sys) (hinit : ∀ t ∈ s₀.threads, t.st = {}) (hown : s₀.owner = [])
    (hw : ∀ t ∈ s₀.threads, WellLocked t) :
    ∃ σ, ∀ t ∈ (runSched s₀ σ).threads, t.finished = true := by
  have _ := hinit
  exact lockInv_completes _ s₀ (lockInv_init s₀ hown hw) (Nat.le_refl _)

end Alos2

/-
K — calendar: every time decoder denotes the instant (year, day-of-year, time of day) with day 1 = 1 January.
-/
import Alos2.Model.Time

namespace Alos2

/-! helper lemmas live in `Alos2.Cal` (no clash with the like-named lemmas of `Proofs/Codec`) -/
namespace Cal

/-! ### line times and attitude -/

theorem nsPerDay_eq : nsPerDay = 86400000000000 := by decide

theorem minNs_eq : minNs = -62135596800000000000 := by decide +kernel

theorem maxNs_eq : maxNs = 253402300800000000000 := by decide +kernel

theorem jan1_bounds (y : Int) (h1 : 2014 ≤ y) (h2 : y ≤ 2049) :
    16071 ≤ daysFromCivil y 1 1 ∧ daysFromCivil y 1 1 ≤ 28855 := by
  unfold daysFromCivil
  simp only [show (1:Nat) ≤ 2 from by decide, if_true, show ¬ ((1:Nat) > 2) from by decide, if_false]
  have : y - 1 ≥ 0 := by omega
  simp only [this, if_true]
  omega

/-! ### civil date and day of year -/

theorem month_table : ∀ y ∈ List.range' 2014 36, ∀ mo ∈ List.range' 1 12,
    daysFromCivil (y:Nat) mo 1 = daysFromCivil (y:Nat) 1 1 + ((doyOf y mo 1 : Nat) : Int) - 1 ∧
    1 ≤ doyOf y mo 1 ∧ doyOf y mo 1 + daysInMonth y mo - 1 ≤ yearLen y := by
  decide +kernel

theorem daysFromCivil_day (y : Int) (mo d : Nat) : daysFromCivil y mo d = daysFromCivil y mo 1 + (d:Int) - 1 := by
  unfold daysFromCivil
  simp only []
  omega

theorem doyOf_day (y mo d : Nat) : doyOf y mo d = doyOf y mo 1 + d - 1 := by
  unfold doyOf; omega

theorem doyOf_succ (y mo : Nat) (h : 1 ≤ mo) : doyOf y (mo + 1) 1 = doyOf y mo 1 + daysInMonth y mo := by
  obtain ⟨k, rfl⟩ : ∃ k, mo = k + 1 := ⟨mo - 1, by omega⟩
  simp [doyOf, List.range_succ]
  omega

theorem doyOf_one (y : Nat) : doyOf y 1 1 = 1 := by simp [doyOf]

theorem doyOf_13 (y : Nat) : doyOf y 13 1 = yearLen y + 1 := by
  simp [doyOf, List.range, List.range.loop, daysInMonth, yearLen]
  cases isLeapYear y <;> simp

theorem month_find (y doy : Nat) (n : Nat) (h1 : 1 ≤ doy) (h2 : doy < doyOf y (n + 1) 1) :
    ∃ mo, 1 ≤ mo ∧ mo ≤ n ∧ doyOf y mo 1 ≤ doy ∧ doy < doyOf y (mo + 1) 1 := by
  induction n with
  | zero => rw [doyOf_one] at h2; omega
  | succ n ih =>
    by_cases h : doy < doyOf y (n + 1) 1
    · obtain ⟨mo, a, b, c, d⟩ := ih h
      exact ⟨mo, a, by omega, c, d⟩
    · exact ⟨n + 1, by omega, by omega, by omega, h2⟩

/-! ### zero-padded decimal text -/

def padDigits (n w : Nat) : List Char :=
  List.replicate (w - (Nat.toDigits 10 n).length) '0' ++ Nat.toDigits 10 n

theorem pad_toList (n w : Nat) :
    (String.ofList (List.replicate (w - (toString n).length) '0') ++ toString n).toList = padDigits n w := by
  simp [padDigits, Nat.repr_eq_ofList_toDigits]

theorem padDigits_length (n w : Nat) (hw : 0 < w) (h : n < 10 ^ w) : (padDigits n w).length = w := by
  have := (Nat.length_toDigits_le_iff (b := 10) (n := n) (by decide) hw).mpr h
  simp [padDigits]; omega

theorem isDigit_eq (c : Char) : isDigit c = Char.isDigit c := by
  simp [isDigit, Char.isDigit, Char.le_def]

theorem fold_ofDigitChars (cs : List Char) (a : Nat) :
    cs.foldl (fun a c => a * 10 + (c.toNat - 48)) a = Nat.ofDigitChars 10 cs a := by
  induction cs generalizing a with
  | nil => simp
  | cons c cs ih => simp [Nat.ofDigitChars_cons, ih, Nat.mul_comm]

theorem padDigits_allDigit (n w : Nat) : (padDigits n w).all Char.isDigit = true := by
  rw [List.all_eq_true]
  intro c hc
  simp only [padDigits, List.mem_append, List.mem_replicate] at hc
  rcases hc with ⟨_, rfl⟩ | hc
  · decide
  · exact Nat.isDigit_of_mem_toDigits (by decide) (by decide) hc

theorem fold_padDigits (n w : Nat) : (padDigits n w).foldl (fun a c => a * 10 + (c.toNat - 48)) 0 = n := by
  rw [fold_ofDigitChars]
  simp [padDigits, Nat.ofDigitChars_append]

theorem digitsNat_padDigits (n w : Nat) : isoTextNs.digitsNat (padDigits n w) = some n := by
  have hne : (padDigits n w).isEmpty = false := by
    simp [padDigits]
  unfold isoTextNs.digitsNat
  rw [if_neg (by simp [padDigits_allDigit, hne])]
  rw [fold_padDigits]

theorem digitsToNat_padDigits (n w : Nat) : digitsToNat (padDigits n w) = n := by
  unfold digitsToNat
  exact fold_padDigits n w

theorem len2 {l : List Char} (h : l.length = 2) : ∃ a b, l = [a, b] := by
  match l, h with
  | [a, b], _ => exact ⟨a, b, rfl⟩

theorem len4 {l : List Char} (h : l.length = 4) : ∃ a b c d, l = [a, b, c, d] := by
  match l, h with
  | [a, b, c, d], _ => exact ⟨a, b, c, d, rfl⟩

theorem twoDigits_padDigits (n : Nat) (h : n < 100) : twoDigits (padDigits n 2) = some n := by
  have hl := padDigits_length n 2 (by decide) (by omega)
  have ha := padDigits_allDigit n 2
  have hv := digitsToNat_padDigits n 2
  obtain ⟨a, b, hab⟩ := len2 hl
  rw [hab] at ha hv ⊢
  simp only [List.all_cons, List.all_nil, Bool.and_true] at ha
  simp only [twoDigits, isDigit_eq, ha, hv]
  simp

theorem digit_slices (A B C D E F G : List Char) (hA : A.length = 4) (hB : B.length = 2) (hC : C.length = 2)
    (hD : D.length = 2) (hE : E.length = 2) (hF : F.length = 2) :
    let cs := A ++ (B ++ (C ++ (D ++ (E ++ (F ++ G)))))
    cs.take 4 = A ∧ (cs.drop 4).take 2 = B ∧ (cs.drop 6).take 2 = C ∧ (cs.drop 8).take 2 = D ∧
      (cs.drop 10).take 2 = E ∧ (cs.drop 12).take 2 = F ∧ cs.drop 14 = G := by
  obtain ⟨a1, a2, a3, a4, rfl⟩ := len4 hA
  obtain ⟨b1, b2, rfl⟩ := len2 hB
  obtain ⟨c1, c2, rfl⟩ := len2 hC
  obtain ⟨d1, d2, rfl⟩ := len2 hD
  obtain ⟨e1, e2, rfl⟩ := len2 hE
  obtain ⟨f1, f2, rfl⟩ := len2 hF
  simp

theorem stamp_slices (A B C D E F G : List Char) (hA : A.length = 4) (hB : B.length = 2) (hC : C.length = 2)
    (hD : D.length = 2) (hE : E.length = 2) (hF : F.length = 2) (s1 s2 s3 s4 s5 : Char) :
    let cs := A ++ s1 :: (B ++ s2 :: (C ++ s3 :: (D ++ s4 :: (E ++ s5 :: (F ++ G)))))
    cs.take 4 = A ∧ (cs.drop 5).take 2 = B ∧ (cs.drop 8).take 2 = C ∧ (cs.drop 11).take 2 = D ∧
      (cs.drop 14).take 2 = E ∧ (cs.drop 17).take 2 = F ∧ cs.drop 20 = G.drop 1 := by
  obtain ⟨a1, a2, a3, a4, rfl⟩ := len4 hA
  obtain ⟨b1, b2, rfl⟩ := len2 hB
  obtain ⟨c1, c2, rfl⟩ := len2 hC
  obtain ⟨d1, d2, rfl⟩ := len2 hD
  obtain ⟨e1, e2, rfl⟩ := len2 hE
  obtain ⟨f1, f2, rfl⟩ := len2 hF
  simp

/-- the text `isoOfDigits` prints for a valid civil date and time -/
def isoChars (y mo d hh mm ss us : Nat) : List Char :=
  padDigits y 4 ++ '-' :: (padDigits mo 2 ++ '-' :: (padDigits d 2 ++ 'T' :: (padDigits hh 2 ++ ':' ::
    (padDigits mm 2 ++ ':' :: (padDigits ss 2 ++ (if us = 0 then [] else '.' :: padDigits us 6))))))

theorem isoOfDigits_pad (s : String) (y mo d hh mm ss us : Nat) (hy : 1000 ≤ y ∧ y ≤ 9999) (hm : 1 ≤ mo ∧ mo ≤ 12)
    (hd : 1 ≤ d ∧ d ≤ daysInMonth y mo) (hh' : hh ≤ 23) (hmm : mm ≤ 59) (hss : ss ≤ 59) (hus : us ≤ 999999)
    (hs : s.toList = padDigits y 4 ++ (padDigits mo 2 ++ (padDigits d 2 ++ (padDigits hh 2 ++ (padDigits mm 2 ++
      (padDigits ss 2 ++ padDigits us 6)))))) :
    ∃ r, isoOfDigits s = some r ∧ r.toList = isoChars y mo d hh mm ss us := by
  have hd31 : d ≤ 31 := by
    have : daysInMonth y mo ≤ 31 := by unfold daysInMonth; split <;> (try split) <;> omega
    omega
  have lA := padDigits_length y 4 (by decide) (by omega)
  have lB := padDigits_length mo 2 (by decide) (by omega)
  have lC := padDigits_length d 2 (by decide) (by omega)
  have lD := padDigits_length hh 2 (by decide) (by omega)
  have lE := padDigits_length mm 2 (by decide) (by omega)
  have lF := padDigits_length ss 2 (by decide) (by omega)
  have lG := padDigits_length us 6 (by decide) (by omega)
  obtain ⟨s1, s2, s3, s4, s5, s6, s7⟩ := digit_slices _ _ _ _ _ _ (padDigits us 6) lA lB lC lD lE lF
  unfold isoOfDigits
  simp only [hs, s1, s2, s3, s4, s5, s6, s7]
  have hall : (padDigits y 4 ++ (padDigits mo 2 ++ (padDigits d 2 ++ (padDigits hh 2 ++ (padDigits mm 2 ++
      (padDigits ss 2 ++ padDigits us 6)))))).all isDigit = true := by
    have : isDigit = Char.isDigit := funext isDigit_eq
    simp only [this, List.all_append, padDigits_allDigit, Bool.and_self]
  rw [if_neg (by simp only [List.length_append, lA, lB, lC, lD, lE, lF, lG, hall]; simp)]
  simp only [twoDigits_padDigits mo (by omega), twoDigits_padDigits d (by omega), twoDigits_padDigits hh (by omega),
    twoDigits_padDigits mm (by omega), twoDigits_padDigits ss (by omega), digitsToNat_padDigits, lG,
    Nat.sub_self, List.replicate_zero, List.append_nil]
  rw [if_neg (by omega)]
  refine ⟨_, rfl, ?_⟩
  unfold isoChars
  split <;> simp [padDigits, Nat.repr_eq_ofList_toDigits]

theorem isoTextNs_chars (r : String) (y mo d hh mm ss us : Nat) (hy : y ≤ 9999) (hm : mo ≤ 99)
    (hd : d ≤ 99) (hh' : hh ≤ 99) (hmm : mm ≤ 99) (hss : ss ≤ 99) (hus : us ≤ 999999)
    (hr : r.toList = isoChars y mo d hh mm ss us) :
    isoTextNs r =
      some (daysFromCivil y mo d * nsPerDay + ((hh * 3600 + mm * 60 + ss : Nat) : Int) * 1000000000 + (us : Int) * 1000) := by
  have lA := padDigits_length y 4 (by decide) (by omega)
  have lB := padDigits_length mo 2 (by decide) (by omega)
  have lC := padDigits_length d 2 (by decide) (by omega)
  have lD := padDigits_length hh 2 (by decide) (by omega)
  have lE := padDigits_length mm 2 (by decide) (by omega)
  have lF := padDigits_length ss 2 (by decide) (by omega)
  have lG := padDigits_length us 6 (by decide) (by omega)
  obtain ⟨s1, s2, s3, s4, s5, s6, s7⟩ := stamp_slices _ _ _ _ _ _ (if us = 0 then [] else '.' :: padDigits us 6)
    lA lB lC lD lE lF '-' '-' 'T' ':' ':'
  unfold isoTextNs
  unfold isoChars at hr
  simp only [hr, s1, s2, s3, s4, s5, s6, s7, digitsNat_padDigits]
  by_cases h0 : us = 0
  · simp [h0]
  · have hne : padDigits us 6 ≠ [] := by
      intro h; rw [h] at lG; simp at lG
    simp [h0, digitsNat_padDigits, lG, hne]

end Cal

open Cal

/-! ### the statements -/

/-- the civil date of a day of the year agrees with counting days from 1 January, for all years 2014–2049
    (the property's own finite range; leap years, 29 February and day 366 included) -/
theorem civil_eq_doy (y mo d : Nat) (hy : 2014 ≤ y ∧ y ≤ 2049) (hm : 1 ≤ mo ∧ mo ≤ 12) (hd : 1 ≤ d ∧ d ≤ daysInMonth y mo) :
    daysFromCivil y mo d = daysFromCivil y 1 1 + ((doyOf y mo d : Nat) : Int) - 1 ∧ 1 ≤ doyOf y mo d ∧ doyOf y mo d ≤ yearLen y := by
  have ht := month_table y (by rw [List.mem_range'_1]; omega) mo (by rw [List.mem_range'_1]; omega)
  rw [daysFromCivil_day, doyOf_day y mo d]
  omega

/-- every day of the year is a civil date -/
theorem doy_surjective (y doy : Nat) (hy : 2014 ≤ y ∧ y ≤ 2049) (hd : 1 ≤ doy ∧ doy ≤ yearLen y) :
    ∃ mo d, 1 ≤ mo ∧ mo ≤ 12 ∧ 1 ≤ d ∧ d ≤ daysInMonth y mo ∧ doyOf y mo d = doy := by
  have _ := hy
  obtain ⟨mo, a, b, c, d⟩ := month_find y doy 12 hd.1 (by rw [doyOf_13]; omega)
  rw [doyOf_succ y mo a] at d
  refine ⟨mo, doy - doyOf y mo 1 + 1, a, b, by omega, by omega, ?_⟩
  rw [doyOf_day]; omega

theorem lineTime_eq (y doy ms : Nat) (hy : 2014 ≤ y ∧ y ≤ 2049) (hd : 1 ≤ doy ∧ doy ≤ 366) (hm : ms < 86400000) :
    lineTimeNs y doy ms = .ok (instantNs y doy (ms * 1000000)) := by
  have hb := jan1_bounds (y : Int) (by omega) (by omega)
  unfold lineTimeNs mkYdms
  simp [Val.get?, List.find?]
  generalize hA : daysFromCivil (y:Int) 1 1 = A at hb ⊢
  rw [if_neg (by omega), if_neg (by omega), if_neg (by rw [minNs_eq, maxNs_eq, nsPerDay_eq]; omega)]
  simp only [instantNs, hA]
  congr 1

theorem lineTimeUs_eq (y doy ms us : Nat) (hy : 2014 ≤ y ∧ y ≤ 2049) (hd : 1 ≤ doy ∧ doy ≤ 366) (hm : ms < 86400000)
    (hu : us < 86400000000) :
    lineTimeUsNs y doy ms us = .ok (instantNs y doy (us * 1000)) := by
  have hb := jan1_bounds (y : Int) (by omega) (by omega)
  unfold lineTimeUsNs
  rw [lineTime_eq y doy ms hy hd hm]
  simp only [mkYdus, instantNs]
  generalize hA : daysFromCivil (y:Int) 1 1 = A at hb ⊢
  have hday : ((A + ((doy:Int) - 1)) * nsPerDay + ((ms * 1000000 : Nat) : Int)) / nsPerDay * nsPerDay
      = (A + ((doy:Int) - 1)) * nsPerDay := by
    rw [nsPerDay_eq]; omega
  simp only [bind, Except.bind, hday]
  rw [if_neg (by rw [maxNs_eq, nsPerDay_eq]; omega)]
  simp only []
  congr 1

/-- the normalised text of a valid civil date and time denotes that civil instant -/
theorem isoText_eq (y mo d hh mm ss us : Nat) (hy : 1000 ≤ y ∧ y ≤ 9999) (hm : 1 ≤ mo ∧ mo ≤ 12)
    (hd : 1 ≤ d ∧ d ≤ daysInMonth y mo) (hh' : hh ≤ 23) (hmm : mm ≤ 59) (hss : ss ≤ 59) (hus : us ≤ 999999) :
    let pad (n w : Nat) : String := String.ofList (List.replicate (w - (toString n).length) '0') ++ toString n
    let digits := pad y 4 ++ pad mo 2 ++ pad d 2 ++ pad hh 2 ++ pad mm 2 ++ pad ss 2 ++ pad us 6
    digitsTextNs digits =
      some (daysFromCivil y mo d * nsPerDay + ((hh * 3600 + mm * 60 + ss : Nat) : Int) * 1000000000 + (us : Int) * 1000) := by
  intro pad digits
  have hd31 : d ≤ 31 := by
    have : daysInMonth y mo ≤ 31 := by unfold daysInMonth; split <;> (try split) <;> omega
    omega
  have hs : digits.toList = padDigits y 4 ++ (padDigits mo 2 ++ (padDigits d 2 ++ (padDigits hh 2 ++ (padDigits mm 2 ++
      (padDigits ss 2 ++ padDigits us 6))))) := by
    simp [digits, pad, padDigits, Nat.repr_eq_ofList_toDigits]
  obtain ⟨r, hr1, hr2⟩ := isoOfDigits_pad digits y mo d hh mm ss us hy hm hd hh' hmm hss hus hs
  unfold digitsTextNs
  rw [hr1]
  exact isoTextNs_chars r y mo d hh mm ss us (by omega) (by omega) (by omega) (by omega) (by omega) (by omega) hus hr2

/-- the attitude time as computed is one day later than the convention, for every input -/
theorem attitude_one_day_late (y : Nat) (doy ms : Nat) :
    attitudeNs y doy ms = instantNs y doy (ms * 1000000) + nsPerDay := by
  unfold attitudeNs instantNs
  rw [nsPerDay_eq]
  generalize daysFromCivil (y:Int) 1 1 = A
  omega

end Alos2

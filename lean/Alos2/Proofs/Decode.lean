/-
Identifier decoding: totality on the documented code tables, rejection of everything else, unique group names.
-/
import Alos2.Model.Decoders
import Alos2.Proofs.RxSound

namespace Alos2

/-- every product id composed from the code tables (15 modes × 2 × 4 × 3 × 5 × 2 = 3600 ids) decodes to the
    tables' meanings, component by component -/
def productCodeSpace : List (List (String × String)) :=
  Gen.observationModes.flatMap fun a => Gen.observationDirections.flatMap fun b => Gen.processingLevels.flatMap fun c =>
  Gen.processingOptions.flatMap fun d => Gen.mapProjections.flatMap fun e => Gen.orbitDirections.map fun f => [a, b, c, d, e, f]

def composeId (c : List (String × String)) : String := String.join (c.map Prod.fst)

def meaningsOf (names : List (String × Nat)) (c : List (String × String)) : Decoded :=
  (names.zip c).map (fun (n, kv) => (n.1, some kv.2))

def isUpperOrDigit (c : Char) : Bool := ('A' ≤ c && c ≤ 'Z') || c.isDigit

/-! ### characters and classes -/

private theorem char_eq_of_toNat (c : Char) (n : Nat) (h : c.toNat = n) : c = Char.ofNat n := by
  subst h; exact (Char.ofNat_toNat c).symm

private theorem inClass_digit (c : Char) : inClass [(48, 57)] false c = c.isDigit := by
  simp [inClass, Char.isDigit, UInt32.le_iff_toNat_le]

private theorem inClass_upperOrDigit (c : Char) : inClass [(65, 90), (48, 57)] false c = isUpperOrDigit c := by
  simp [inClass, isUpperOrDigit, Char.isDigit, UInt32.le_iff_toNat_le, Char.le_def]

private theorem inClass_BF (c : Char) : inClass [(66, 66), (70, 70)] false c = true ↔ (c = 'B' ∨ c = 'F') := by
  constructor
  · intro h
    simp [inClass] at h
    rcases h with h | h
    · left; exact char_eq_of_toNat c 66 (by omega)
    · right; exact char_eq_of_toNat c 70 (by omega)
  · rintro (rfl | rfl) <;> decide

private theorem all_inClass_digit (xs : List Char) : (∀ x ∈ xs, inClass [(48, 57)] false x = true) ↔ xs.all Char.isDigit = true := by
  simp [inClass_digit]

private theorem all_inClass_upperOrDigit (xs : List Char) :
    (∀ x ∈ xs, inClass [(65, 90), (48, 57)] false x = true) ↔ xs.all isUpperOrDigit = true := by
  simp [inClass_upperOrDigit]

/-! ### table lookups and the `translations` dispatch -/

private theorem tableLookup_isOk (tbl : List (String × String)) (code : String) (h : code ∈ tbl.map Prod.fst) :
    ∃ v, tableLookup tbl code = .ok v := by
  unfold tableLookup
  obtain ⟨kv, hkv, rfl⟩ := List.mem_map.1 h
  cases hf : tbl.find? (fun kv' => kv'.1 = kv.1) with
  | some kv' => exact ⟨_, rfl⟩
  | none =>
    have := List.find?_eq_none.1 hf kv hkv
    simp at this

private theorem tableLookup_ok_mem (tbl : List (String × String)) (code v : String) (h : tableLookup tbl code = .ok v) : (code, v) ∈ tbl := by
  unfold tableLookup at h
  split at h
  · next kv hkv =>
    cases h
    have h1 := List.mem_of_find?_eq_some hkv
    have h2 := List.find?_some hkv
    simp only [decide_eq_true_eq] at h2
    subst h2
    exact h1
  · cases h

private theorem translate_scan_number (t : String) : translate "scan_number" t = .ok t := by
  have h : (Gen.translations.find? (fun kv => kv.1 = "scan_number")).map Prod.snd = some "passthrough" := by decide +kernel
  unfold translate
  rw [h]
  rfl

private theorem translate_processing_method (t : String) : translate "processing_method" t = tableLookup Gen.processingMethods t := by
  have h : (Gen.translations.find? (fun kv => kv.1 = "processing_method")).map Prod.snd = some "curry(lookup, processing_methods)" := by decide +kernel
  unfold translate
  rw [h]
  rfl

private theorem translate_passthrough (name t : String)
    (h : (Gen.translations.find? (fun kv => kv.1 = name)).map Prod.snd = some "passthrough") : translate name t = .ok t := by
  unfold translate
  rw [h]
  rfl

private theorem translate_date (t : String) : translate "date" t = parseYYMMDD t.toList := by
  have h : (Gen.translations.find? (fun kv => kv.1 = "date")).map Prod.snd = some "parse_date" := by decide +kernel
  unfold translate
  rw [h]
  rfl

private theorem translate_observation_mode (t : String) : translate "observation_mode" t = tableLookup Gen.observationModes t := by
  have h : (Gen.translations.find? (fun kv => kv.1 = "observation_mode")).map Prod.snd = some "curry(lookup, observation_modes)" := by
    decide +kernel
  unfold translate
  rw [h]
  rfl

private theorem translate_observation_direction (t : String) : translate "observation_direction" t = tableLookup Gen.observationDirections t := by
  have h : (Gen.translations.find? (fun kv => kv.1 = "observation_direction")).map Prod.snd = some "curry(lookup, observation_directions)" := by
    decide +kernel
  unfold translate
  rw [h]
  rfl

private theorem translate_processing_level (t : String) : translate "processing_level" t = tableLookup Gen.processingLevels t := by
  have h : (Gen.translations.find? (fun kv => kv.1 = "processing_level")).map Prod.snd = some "curry(lookup, processing_levels)" := by
    decide +kernel
  unfold translate
  rw [h]
  rfl

private theorem translate_processing_option (t : String) : translate "processing_option" t = tableLookup Gen.processingOptions t := by
  have h : (Gen.translations.find? (fun kv => kv.1 = "processing_option")).map Prod.snd = some "curry(lookup, processing_options)" := by
    decide +kernel
  unfold translate
  rw [h]
  rfl

private theorem translate_map_projection (t : String) : translate "map_projection" t = tableLookup Gen.mapProjections t := by
  have h : (Gen.translations.find? (fun kv => kv.1 = "map_projection")).map Prod.snd = some "curry(lookup, map_projections)" := by
    decide +kernel
  unfold translate
  rw [h]
  rfl

private theorem translate_orbit_direction (t : String) : translate "orbit_direction" t = tableLookup Gen.orbitDirections t := by
  have h : (Gen.translations.find? (fun kv => kv.1 = "orbit_direction")).map Prod.snd = some "curry(lookup, orbit_directions)" := by
    decide +kernel
  unfold translate
  rw [h]
  rfl

private theorem runRegex_scan (s : List Char) : runRegex "decode_scan_info" Gen.scanInfoRe s = Gen.scanInfoRe.fullmatch s := by
  have h : usesFullmatch "decode_scan_info" = true := by decide +kernel
  simp [runRegex, h]

private theorem runRegex_scene (s : List Char) : runRegex "decode_scene_id" Gen.sceneIdRe s = Gen.sceneIdRe.fullmatch s := by
  have h : usesFullmatch "decode_scene_id" = true := by decide +kernel
  simp [runRegex, h]

private theorem runRegex_product (s : List Char) : runRegex "decode_product_id" Gen.productIdRe s = Gen.productIdRe.fullmatch s := by
  have h : usesFullmatch "decode_product_id" = true := by decide +kernel
  simp [runRegex, h]

/-! ### product ids -/

/-- the processing-level alternation of `Gen.productIdRe` -/
private def levelAlt : Rx := .alt [(.seq [(.lit 49), (.lit 46), (.lit 48)]), (.seq [(.lit 49), (.lit 46), (.lit 49)]), (.seq [(.lit 49), (.lit 46), (.lit 53)]), (.seq [(.lit 51), (.lit 46), (.lit 49)])]

private def levelCodes : List (List Char) := ["1.0".toList, "1.1".toList, "1.5".toList, "3.1".toList]

private theorem levelAlt_matches (s : List Char) (h : Rx.Matches levelAlt s) : s ∈ levelCodes := by
  simp only [levelAlt, Rx.matches_alt_iff, List.mem_cons, List.not_mem_nil, or_false] at h
  obtain ⟨r, hr, h⟩ := h
  rcases hr with rfl | rfl | rfl | rfl <;>
  · simp only [Rx.matches_seq_iff, Rx.matchesSeq_cons_iff, Rx.matchesSeq_nil_iff, Rx.matches_lit_iff] at h
    obtain ⟨_, _, rfl, ⟨x, rfl, hx⟩, _, _, rfl, ⟨y, rfl, hy⟩, _, _, rfl, ⟨z, rfl, hz⟩, rfl⟩ := h
    rw [char_eq_of_toNat x _ hx, char_eq_of_toNat y _ hy, char_eq_of_toNat z _ hz]
    decide

private theorem levelAlt_m (c : List Char) (hc : c ∈ levelCodes) (f : Nat) (rest : List Char) (gs : Groups)
    (k : List Char → Groups → Option Groups) :
    Rx.m (f + 13) levelAlt (c ++ rest) gs k = k rest gs := by
  simp only [levelCodes, List.mem_cons, List.not_mem_nil, or_false] at hc
  rcases hc with rfl | rfl | rfl | rfl <;>
  · simp [levelAlt, Rx.m_alt, Rx.mAlt, Rx.m_seq, Rx.mSeq, Rx.m_lit_cons]
    try (cases k rest gs <;> rfl)


private theorem levelAlt_group_m (i : Nat) (c : List Char) (hc : c ∈ levelCodes) (f : Nat) (hf : 14 ≤ f) (rest : List Char) (gs : Groups)
    (k : List Char → Groups → Option Groups) :
    Rx.m f (.group i levelAlt) (c ++ rest) gs k = k rest (setGroup gs i c) := by
  obtain ⟨f, rfl⟩ : ∃ f', f = f' + 14 := ⟨f - 14, by omega⟩
  rw [Rx.m_group, levelAlt_m c hc, Rx.take_append_sub]

private abbrev productGroups (a : List Char) (b : Char) (c : List Char) (d e f : Char) (gs : Groups) : Groups :=
  setGroup (setGroup (setGroup (setGroup (setGroup (setGroup gs 1 a) 2 [b]) 3 c) 4 [d]) 5 [e]) 6 [f]

private structure ProductShape (a : List Char) (b : Char) (c : List Char) (d e f : Char) : Prop where
  ha : a.length = 3
  ha' : ∀ x ∈ a, inClass [(65, 90)] false x = true
  hb : inClass [(76, 76), (82, 82)] false b = true
  hc : c ∈ levelCodes
  hd : inClass [(71, 71), (82, 82), (95, 95)] false d = true
  he : inClass [(85, 85), (80, 80), (77, 77), (76, 76), (95, 95)] false e = true
  hf : inClass [(65, 65), (68, 68)] false f = true

private theorem productId_m (a : List Char) (b : Char) (c : List Char) (d e f : Char) (h : ProductShape a b c d e f)
    (rest : List Char) (gs : Groups) (k : List Char → Groups → Option Groups) (n : Nat) (hn : 40 ≤ n) :
    Rx.m n Gen.productIdRe (a ++ (b :: (c ++ (d :: e :: f :: rest)))) gs k = k rest (productGroups a b c d e f gs) := by
  obtain ⟨n, rfl⟩ : ∃ n', n = n' + 40 := ⟨n - 40, by omega⟩
  have e0 : Gen.productIdRe = .seq [(.group 1 ((.rep ((.cls [(65, 90)] false)) 3 (some 3) true))), (.group 2 ((.cls [(76, 76), (82, 82)] false))), (.group 3 levelAlt), (.group 4 ((.cls [(71, 71), (82, 82), (95, 95)] false))), (.group 5 ((.cls [(85, 85), (80, 80), (77, 77), (76, 76), (95, 95)] false))), (.group 6 ((.cls [(65, 65), (68, 68)] false)))] := rfl
  rw [e0, Rx.m_seq, Rx.mSeq_cons, Rx.m_group_rep_cls _ _ _ _ _ _ _ _ _ _ h.ha h.ha' (by omega),
    Rx.mSeq_cons, Rx.m_group_cls _ _ _ _ _ _ _ _ h.hb (by omega),
    Rx.mSeq_cons, levelAlt_group_m _ _ h.hc _ (by omega),
    Rx.mSeq_cons, Rx.m_group_cls _ _ _ _ _ _ _ _ h.hd (by omega),
    Rx.mSeq_cons, Rx.m_group_cls _ _ _ _ _ _ _ _ h.he (by omega),
    Rx.mSeq_cons, Rx.m_group_cls _ _ _ _ _ _ _ _ h.hf (by omega), Rx.mSeq_nil]

private theorem productId_fullmatch (a : List Char) (b : Char) (c : List Char) (d e f : Char) (h : ProductShape a b c d e f) :
    Gen.productIdRe.fullmatch (a ++ (b :: (c ++ [d, e, f]))) = some (productGroups a b c d e f []) := by
  unfold Rx.fullmatch
  rw [productId_m a b c d e f h [] [] _ _ (by
    have := Rx.budget_ge Gen.productIdRe (a ++ (b :: (c ++ [d, e, f])))
    simp only [List.length_append, List.length_cons, h.ha] at this
    omega)]
  rfl

private theorem productId_matches (s : List Char) (h : Rx.Matches Gen.productIdRe s) :
    ∃ a b c d e f, s = a ++ (b :: (c ++ [d, e, f])) ∧ ProductShape a b c d e f := by
  have e0 : Gen.productIdRe = .seq [(.group 1 ((.rep ((.cls [(65, 90)] false)) 3 (some 3) true))), (.group 2 ((.cls [(76, 76), (82, 82)] false))), (.group 3 levelAlt), (.group 4 ((.cls [(71, 71), (82, 82), (95, 95)] false))), (.group 5 ((.cls [(85, 85), (80, 80), (77, 77), (76, 76), (95, 95)] false))), (.group 6 ((.cls [(65, 65), (68, 68)] false)))] := rfl
  rw [e0] at h
  simp only [Rx.matches_seq_iff, Rx.matchesSeq_cons_iff, Rx.matchesSeq_nil_iff, Rx.matches_group_iff, Rx.matches_cls_iff] at h
  obtain ⟨a, _, rfl, ha, _, _, rfl, ⟨b, rfl, hb⟩, c, _, rfl, hc, _, _, rfl, ⟨d, rfl, hd⟩, _, _, rfl, ⟨e, rfl, he⟩,
    _, _, rfl, ⟨f, rfl, hf⟩, rfl⟩ := h
  have ha2 := Rx.matches_rep_cls _ _ _ _ _ ha
  exact ⟨a, b, c, d, e, f, by simp, ⟨ha2.1, ha2.2, hb, levelAlt_matches c hc, hd, he, hf⟩⟩


private def productLookups (a b c d e f : String) : Except Err Decoded := do
  let v1 ← tableLookup Gen.observationModes a
  let v2 ← tableLookup Gen.observationDirections b
  let v3 ← tableLookup Gen.processingLevels c
  let v4 ← tableLookup Gen.processingOptions d
  let v5 ← tableLookup Gen.mapProjections e
  let v6 ← tableLookup Gen.orbitDirections f
  pure [("observation_mode", some v1), ("observation_direction", some v2), ("processing_level", some v3),
    ("processing_option", some v4), ("map_projection", some v5), ("orbit_direction", some v6)]

private theorem productId_translate (a : List Char) (b : Char) (c : List Char) (d e f : Char) :
    translateGroups Gen.productIdReGroups (productGroups a b c d e f []) =
      productLookups (String.ofList a) (String.ofList [b]) (String.ofList c) (String.ofList [d]) (String.ofList [e]) (String.ofList [f]) := by
  unfold translateGroups
  simp only [Gen.productIdReGroups, List.mapM_cons, List.mapM_nil]
  have hg1 : groupText (productGroups a b c d e f []) 1 = some a := rfl
  have hg2 : groupText (productGroups a b c d e f []) 2 = some [b] := rfl
  have hg3 : groupText (productGroups a b c d e f []) 3 = some c := rfl
  have hg4 : groupText (productGroups a b c d e f []) 4 = some [d] := rfl
  have hg5 : groupText (productGroups a b c d e f []) 5 = some [e] := rfl
  have hg6 : groupText (productGroups a b c d e f []) 6 = some [f] := rfl
  rw [hg1, hg2, hg3, hg4, hg5, hg6]
  simp only [translate_observation_mode, translate_observation_direction, translate_processing_level,
    translate_processing_option, translate_map_projection, translate_orbit_direction]
  unfold productLookups
  generalize tableLookup Gen.observationModes _ = t1
  generalize tableLookup Gen.observationDirections _ = t2
  generalize tableLookup Gen.processingLevels _ = t3
  generalize tableLookup Gen.processingOptions _ = t4
  generalize tableLookup Gen.mapProjections _ = t5
  generalize tableLookup Gen.orbitDirections _ = t6
  cases t1 <;> try rfl
  cases t2 <;> try rfl
  cases t3 <;> try rfl
  cases t4 <;> try rfl
  cases t5 <;> try rfl
  cases t6 <;> rfl

private theorem productLookups_ok (a b c d e f : String) (r : Decoded) (h : productLookups a b c d e f = .ok r) :
    ∃ v1 v2 v3 v4 v5 v6, tableLookup Gen.observationModes a = .ok v1 ∧ tableLookup Gen.observationDirections b = .ok v2 ∧
      tableLookup Gen.processingLevels c = .ok v3 ∧ tableLookup Gen.processingOptions d = .ok v4 ∧
      tableLookup Gen.mapProjections e = .ok v5 ∧ tableLookup Gen.orbitDirections f = .ok v6 ∧
      r = [("observation_mode", some v1), ("observation_direction", some v2), ("processing_level", some v3),
        ("processing_option", some v4), ("map_projection", some v5), ("orbit_direction", some v6)] := by
  unfold productLookups at h
  cases h1 : tableLookup Gen.observationModes a with
  | error _ => rw [h1] at h; cases h
  | ok v1 =>
  cases h2 : tableLookup Gen.observationDirections b with
  | error _ => rw [h1, h2] at h; cases h
  | ok v2 =>
  cases h3 : tableLookup Gen.processingLevels c with
  | error _ => rw [h1, h2, h3] at h; cases h
  | ok v3 =>
  cases h4 : tableLookup Gen.processingOptions d with
  | error _ => rw [h1, h2, h3, h4] at h; cases h
  | ok v4 =>
  cases h5 : tableLookup Gen.mapProjections e with
  | error _ => rw [h1, h2, h3, h4, h5] at h; cases h
  | ok v5 =>
  cases h6 : tableLookup Gen.orbitDirections f with
  | error _ => rw [h1, h2, h3, h4, h5, h6] at h; cases h
  | ok v6 =>
    rw [h1, h2, h3, h4, h5, h6] at h
    cases h
    exact ⟨v1, v2, v3, v4, v5, v6, rfl, rfl, rfl, rfl, rfl, rfl, rfl⟩

/-- a table maps each of its keys to the value listed with it (keys are unique) -/
private def tableFunctional (tbl : List (String × String)) : Bool := tbl.all (fun kv => decide (tableLookup tbl kv.1 = .ok kv.2))

private theorem tableFunctional_spec (tbl : List (String × String)) (h : tableFunctional tbl = true) (kv : String × String) (hkv : kv ∈ tbl) :
    tableLookup tbl kv.1 = .ok kv.2 := by
  have := List.all_eq_true.1 h kv hkv
  simpa using this

private def singleIn (items : List (Nat × Nat)) (s : String) : Bool :=
  match s.toList with
  | [x] => inClass items false x
  | _ => false

private theorem singleIn_spec (items : List (Nat × Nat)) (s : String) (h : singleIn items s = true) :
    ∃ x, s.toList = [x] ∧ inClass items false x = true := by
  unfold singleIn at h
  split at h
  · next x hx => exact ⟨x, hx, h⟩
  · cases h

private theorem keys_modes : Gen.observationModes.all (fun kv => decide (kv.1.toList.length = 3) && kv.1.toList.all (inClass [(65, 90)] false)) = true := by
  decide +kernel
private theorem keys_directions : Gen.observationDirections.all (fun kv => singleIn [(76, 76), (82, 82)] kv.1) = true := by decide +kernel
private theorem keys_levels : Gen.processingLevels.all (fun kv => decide (kv.1.toList ∈ levelCodes)) = true := by decide +kernel
private theorem keys_options : Gen.processingOptions.all (fun kv => singleIn [(71, 71), (82, 82), (95, 95)] kv.1) = true := by decide +kernel
private theorem keys_projections : Gen.mapProjections.all (fun kv => singleIn [(85, 85), (80, 80), (77, 77), (76, 76), (95, 95)] kv.1) = true := by
  decide +kernel
private theorem keys_orbits : Gen.orbitDirections.all (fun kv => singleIn [(65, 65), (68, 68)] kv.1) = true := by decide +kernel

private theorem tables_functional : tableFunctional Gen.observationModes = true ∧ tableFunctional Gen.observationDirections = true ∧
    tableFunctional Gen.processingLevels = true ∧ tableFunctional Gen.processingOptions = true ∧
    tableFunctional Gen.mapProjections = true ∧ tableFunctional Gen.orbitDirections = true := by
  decide +kernel

theorem product_id_complete (c : List (String × String)) (hc : c ∈ productCodeSpace) :
    decodeProductId (composeId c) = .ok (meaningsOf Gen.productIdReGroups c) := by
  simp only [productCodeSpace, List.mem_flatMap, List.mem_map] at hc
  obtain ⟨ka, ha, kb, hb, kc, hc, kd, hd, ke, he, kf, hf, rfl⟩ := hc
  have sa := List.all_eq_true.1 keys_modes ka ha
  simp only [Bool.and_eq_true, decide_eq_true_eq, List.all_eq_true] at sa
  obtain ⟨b, eb, sb⟩ := singleIn_spec _ _ (List.all_eq_true.1 keys_directions kb hb)
  have sc := List.all_eq_true.1 keys_levels kc hc
  simp only [decide_eq_true_eq] at sc
  obtain ⟨d, ed, sd⟩ := singleIn_spec _ _ (List.all_eq_true.1 keys_options kd hd)
  obtain ⟨e, ee, se⟩ := singleIn_spec _ _ (List.all_eq_true.1 keys_projections ke he)
  obtain ⟨f, ef, sf⟩ := singleIn_spec _ _ (List.all_eq_true.1 keys_orbits kf hf)
  have shape : ProductShape ka.1.toList b kc.1.toList d e f := ⟨sa.1, sa.2, sb, sc, sd, se, sf⟩
  have es : (composeId [ka, kb, kc, kd, ke, kf]).toList = ka.1.toList ++ (b :: (kc.1.toList ++ [d, e, f])) := by
    simp [composeId, eb, ed, ee, ef]
  obtain ⟨t1, t2, t3, t4, t5, t6⟩ := tables_functional
  unfold decodeProductId
  rw [runRegex_product, es, productId_fullmatch _ _ _ _ _ _ shape]
  simp only [productId_translate]
  rw [← eb, ← ed, ← ee, ← ef]
  simp only [String.ofList_toList]
  unfold productLookups
  rw [tableFunctional_spec _ t1 ka ha, tableFunctional_spec _ t2 kb hb, tableFunctional_spec _ t3 kc hc,
    tableFunctional_spec _ t4 kd hd, tableFunctional_spec _ t5 ke he, tableFunctional_spec _ t6 kf hf]
  rfl

theorem product_id_total :
    productCodeSpace.all (fun c => decodeProductId (composeId c) == .ok (meaningsOf Gen.productIdReGroups c)) = true ∧
    productCodeSpace.length = 3600 := by
  constructor
  · rw [List.all_eq_true]
    intro c hc
    rw [product_id_complete c hc]
    exact beq_self_eq_true _
  · decide +kernel
/-- anything `decode_product_id` accepts is one of those ids, decoded as the tables say -/
theorem product_id_sound (s : String) (r : Decoded) (h : decodeProductId s = .ok r) :
    ∃ c ∈ productCodeSpace, s = composeId c ∧ r = meaningsOf Gen.productIdReGroups c := by
  unfold decodeProductId at h
  rw [runRegex_product] at h
  cases hfm : Gen.productIdRe.fullmatch s.toList with
  | none => rw [hfm] at h; cases h
  | some gs =>
    obtain ⟨a, b, c, d, e, f, es, hs⟩ := productId_matches _ (Rx.fullmatch_sound _ _ _ hfm)
    rw [es, productId_fullmatch a b c d e f hs] at h
    simp only [productId_translate] at h
    cases hp : productLookups (String.ofList a) (String.ofList [b]) (String.ofList c) (String.ofList [d]) (String.ofList [e]) (String.ofList [f]) with
    | error err => rw [hp] at h; cases h
    | ok r' =>
      rw [hp] at h
      cases h
      obtain ⟨v1, v2, v3, v4, v5, v6, h1, h2, h3, h4, h5, h6, rfl⟩ := productLookups_ok _ _ _ _ _ _ _ hp
      refine ⟨[(String.ofList a, v1), (String.ofList [b], v2), (String.ofList c, v3), (String.ofList [d], v4),
        (String.ofList [e], v5), (String.ofList [f], v6)], ?_, ?_, rfl⟩
      · simp only [productCodeSpace, List.mem_flatMap, List.mem_map]
        exact ⟨_, tableLookup_ok_mem _ _ _ h1, _, tableLookup_ok_mem _ _ _ h2, _, tableLookup_ok_mem _ _ _ h3,
          _, tableLookup_ok_mem _ _ _ h4, _, tableLookup_ok_mem _ _ _ h5, _, tableLookup_ok_mem _ _ _ h6, rfl⟩
      · apply String.toList_injective
        rw [es]
        simp [composeId]

/-! ### scene ids -/

private theorem parseYYMMDD_ok (date : List Char) (iso : String) (h : parseYYMMDD date = .ok iso) :
    date.length = 6 ∧ date.all Char.isDigit = true := by
  unfold parseYYMMDD at h
  split at h
  · next a b c d e f =>
    split at h
    · cases h
    · next hd => exact ⟨rfl, by simpa using hd⟩
  · cases h

private theorem sceneId_m (mission orbit frame date rest : List Char) (gs : Groups) (k : List Char → Groups → Option Groups) (f : Nat)
    (hf : 30 ≤ f)
    (hm : mission.length = 5) (hm' : ∀ x ∈ mission, inClass [(65, 90), (48, 57)] false x = true)
    (ho : orbit.length = 5) (ho' : ∀ x ∈ orbit, inClass [(48, 57)] false x = true)
    (hfr : frame.length = 4) (hfr' : ∀ x ∈ frame, inClass [(48, 57)] false x = true)
    (hd : date.length = 6) (hd' : ∀ x ∈ date, inClass [(48, 57)] false x = true) :
    Rx.m f Gen.sceneIdRe (mission ++ (orbit ++ (frame ++ ('-' :: (date ++ rest))))) gs k =
      k rest (setGroup (setGroup (setGroup (setGroup gs 1 mission) 2 orbit) 3 frame) 4 date) := by
  obtain ⟨f, rfl⟩ : ∃ f', f = f' + 30 := ⟨f - 30, by omega⟩
  unfold Gen.sceneIdRe
  rw [Rx.m_seq, Rx.mSeq_cons, Rx.m_group_rep_cls _ _ _ _ _ _ _ _ _ _ hm hm' (by omega),
    Rx.mSeq_cons, Rx.m_group_rep_cls _ _ _ _ _ _ _ _ _ _ ho ho' (by omega),
    Rx.mSeq_cons, Rx.m_group_rep_cls _ _ _ _ _ _ _ _ _ _ hfr hfr' (by omega),
    Rx.mSeq_cons, Rx.m_lit_cons, if_pos (by decide),
    Rx.mSeq_cons, Rx.m_group_rep_cls _ _ _ _ _ _ _ _ _ _ hd hd' (by omega), Rx.mSeq_nil]

private abbrev sceneGroups (mission orbit frame date : List Char) : Groups :=
  setGroup (setGroup (setGroup (setGroup [] 1 mission) 2 orbit) 3 frame) 4 date

private theorem sceneId_fullmatch (mission orbit frame date : List Char)
    (hm : mission.length = 5) (hm' : ∀ x ∈ mission, inClass [(65, 90), (48, 57)] false x = true)
    (ho : orbit.length = 5) (ho' : ∀ x ∈ orbit, inClass [(48, 57)] false x = true)
    (hfr : frame.length = 4) (hfr' : ∀ x ∈ frame, inClass [(48, 57)] false x = true)
    (hd : date.length = 6) (hd' : ∀ x ∈ date, inClass [(48, 57)] false x = true) :
    Gen.sceneIdRe.fullmatch (mission ++ orbit ++ frame ++ ['-'] ++ date) = some (sceneGroups mission orbit frame date) := by
  have e : mission ++ orbit ++ frame ++ ['-'] ++ date = mission ++ (orbit ++ (frame ++ ('-' :: (date ++ [])))) := by simp
  unfold Rx.fullmatch
  rw [e, sceneId_m mission orbit frame date [] [] _ _ (by
    have := Rx.budget_ge Gen.sceneIdRe (mission ++ (orbit ++ (frame ++ ('-' :: (date ++ [])))))
    simp only [List.length_append, List.length_cons, hm] at this
    omega) hm hm' ho ho' hfr hfr' hd hd']
  rfl

private theorem sceneId_translate (mission orbit frame date : List Char) :
    translateGroups Gen.sceneIdReGroups (sceneGroups mission orbit frame date) =
      match parseYYMMDD date with
      | .ok iso => .ok [("mission_name", some (String.ofList mission)), ("orbit_accumulation", some (String.ofList orbit)),
           ("scene_frame", some (String.ofList frame)), ("date", some iso)]
      | .error e => .error e := by
  unfold translateGroups
  simp only [Gen.sceneIdReGroups, List.mapM_cons, List.mapM_nil]
  have hg1 : groupText (sceneGroups mission orbit frame date) 1 = some mission := rfl
  have hg2 : groupText (sceneGroups mission orbit frame date) 2 = some orbit := rfl
  have hg3 : groupText (sceneGroups mission orbit frame date) 3 = some frame := rfl
  have hg4 : groupText (sceneGroups mission orbit frame date) 4 = some date := rfl
  rw [hg1, hg2, hg3, hg4]
  simp only [translate_passthrough "mission_name" _ (by decide +kernel), translate_passthrough "orbit_accumulation" _ (by decide +kernel),
    translate_passthrough "scene_frame" _ (by decide +kernel), translate_date, String.toList_ofList]
  cases parseYYMMDD date <;> rfl

/-- every scene id composed of a 5-character mission name, 5 + 4 digits and a valid YYMMDD date decodes to its parts -/
theorem scene_id_total (mission orbit frame date : List Char) (iso : String)
    (hm : mission.length = 5 ∧ mission.all isUpperOrDigit = true)
    (ho : orbit.length = 5 ∧ orbit.all Char.isDigit = true) (hf : frame.length = 4 ∧ frame.all Char.isDigit = true)
    (hd : parseYYMMDD date = .ok iso) :
    decodeSceneId (String.ofList (mission ++ orbit ++ frame ++ ['-'] ++ date)) =
      .ok [("mission_name", some (String.ofList mission)), ("orbit_accumulation", some (String.ofList orbit)),
           ("scene_frame", some (String.ofList frame)), ("date", some iso)] := by
  obtain ⟨hd1, hd2⟩ := parseYYMMDD_ok date iso hd
  unfold decodeSceneId
  rw [runRegex_scene, String.toList_ofList, sceneId_fullmatch mission orbit frame date hm.1 ((all_inClass_upperOrDigit _).2 hm.2)
    ho.1 ((all_inClass_digit _).2 ho.2) hf.1 ((all_inClass_digit _).2 hf.2) hd1 ((all_inClass_digit _).2 hd2)]
  simp only [sceneId_translate, hd]

private theorem sceneId_matches (s : List Char) (h : Rx.Matches Gen.sceneIdRe s) :
    ∃ mission orbit frame date : List Char, s = mission ++ orbit ++ frame ++ ['-'] ++ date ∧
      (mission.length = 5 ∧ ∀ x ∈ mission, inClass [(65, 90), (48, 57)] false x = true) ∧
      (orbit.length = 5 ∧ ∀ x ∈ orbit, inClass [(48, 57)] false x = true) ∧
      (frame.length = 4 ∧ ∀ x ∈ frame, inClass [(48, 57)] false x = true) ∧
      (date.length = 6 ∧ ∀ x ∈ date, inClass [(48, 57)] false x = true) := by
  simp only [Gen.sceneIdRe, Rx.matches_seq_iff, Rx.matchesSeq_cons_iff, Rx.matchesSeq_nil_iff, Rx.matches_group_iff,
    Rx.matches_lit_iff] at h
  obtain ⟨mission, _, rfl, hm, orbit, _, rfl, ho, frame, _, rfl, hf, _, _, rfl, ⟨x, rfl, hx⟩, date, _, rfl, hd, rfl⟩ := h
  have := char_eq_of_toNat x 45 hx
  subst this
  exact ⟨mission, orbit, frame, date, by simp, Rx.matches_rep_cls _ _ _ _ _ hm, Rx.matches_rep_cls _ _ _ _ _ ho,
    Rx.matches_rep_cls _ _ _ _ _ hf, Rx.matches_rep_cls _ _ _ _ _ hd⟩

/-- anything `decode_scene_id` accepts has exactly that shape (no trailing garbage, valid date) -/
theorem scene_id_sound (s : String) (r : Decoded) (h : decodeSceneId s = .ok r) :
    ∃ mission orbit frame date : List Char, ∃ iso : String,
      s.toList = mission ++ orbit ++ frame ++ ['-'] ++ date ∧
      mission.length = 5 ∧ mission.all isUpperOrDigit = true ∧ orbit.length = 5 ∧ orbit.all Char.isDigit = true ∧
      frame.length = 4 ∧ frame.all Char.isDigit = true ∧ parseYYMMDD date = .ok iso := by
  unfold decodeSceneId at h
  rw [runRegex_scene] at h
  cases hfm : Gen.sceneIdRe.fullmatch s.toList with
  | none => rw [hfm] at h; cases h
  | some gs =>
    obtain ⟨mission, orbit, frame, date, e, hm, ho, hf, hd⟩ := sceneId_matches _ (Rx.fullmatch_sound _ _ _ hfm)
    rw [e, sceneId_fullmatch mission orbit frame date hm.1 hm.2 ho.1 ho.2 hf.1 hf.2 hd.1 hd.2] at h
    simp only [sceneId_translate] at h
    cases hp : parseYYMMDD date with
    | error err => rw [hp] at h; cases h
    | ok iso =>
      exact ⟨mission, orbit, frame, date, iso, e, hm.1, (all_inClass_upperOrDigit _).1 hm.2, ho.1, (all_inClass_digit _).1 ho.2,
        hf.1, (all_inClass_digit _).1 hf.2, hp⟩
/-! ### scan info -/

private theorem scanInfo_matches (s : List Char) (h : Rx.Matches Gen.scanInfoRe s) :
    ∃ m d : Char, s = [m, d] ∧ (m = 'B' ∨ m = 'F') ∧ d.isDigit = true := by
  simp only [Gen.scanInfoRe, Rx.matches_seq_iff, Rx.matchesSeq_cons_iff, Rx.matchesSeq_nil_iff, Rx.matches_group_iff,
    Rx.matches_cls_iff] at h
  obtain ⟨a, b, rfl, ⟨m, rfl, hm⟩, c, e, rfl, ⟨d, rfl, hd⟩, rfl⟩ := h
  exact ⟨m, d, rfl, (inClass_BF m).1 hm, by rw [← inClass_digit]; exact hd⟩

private theorem scanInfo_fullmatch (m d : Char) (hm : m = 'B' ∨ m = 'F') (hd : d.isDigit = true) :
    Gen.scanInfoRe.fullmatch [m, d] = some (setGroup (setGroup [] 1 [m]) 2 [d]) := by
  have h1 := (inClass_BF m).2 hm
  have h2 : inClass [(48, 57)] false d = true := by rw [inClass_digit]; exact hd
  obtain ⟨f, hb⟩ : ∃ f, Gen.scanInfoRe.budget [m, d] = f + 7 := ⟨Gen.scanInfoRe.budget [m, d] - 7, by have := Rx.budget_ge Gen.scanInfoRe [m, d]; simp at this; omega⟩
  unfold Rx.fullmatch
  rw [hb]
  unfold Gen.scanInfoRe
  rw [Rx.m_seq, Rx.mSeq_cons, Rx.m_group_cls _ _ _ _ _ _ _ _ h1 (by omega)]
  rw [Rx.mSeq_cons, Rx.m_group_cls _ _ _ _ _ _ _ _ h2 (by omega)]
  rw [Rx.mSeq_nil]
  rfl

/-- the scan suffix: exactly `[BF][0-9]` -/
theorem scan_info_exact (s : String) :
    (∃ r, decodeScanInfo (some s) = .ok r) ↔ ∃ m d : Char, s.toList = [m, d] ∧ (m = 'B' ∨ m = 'F') ∧ d.isDigit = true := by
  constructor
  · rintro ⟨r, h⟩
    simp only [decodeScanInfo, runRegex_scan] at h
    split at h
    · cases h
    · next gs hg => exact scanInfo_matches _ (Rx.fullmatch_sound _ _ _ hg)
  · rintro ⟨m, d, e, hm, hd⟩
    simp only [decodeScanInfo, runRegex_scan, e, scanInfo_fullmatch m d hm hd]
    have hlk : ∃ v, tableLookup Gen.processingMethods (String.ofList [m]) = .ok v := by
      rcases hm with rfl | rfl
      · exact tableLookup_isOk _ _ (by decide +kernel)
      · exact tableLookup_isOk _ _ (by decide +kernel)
    obtain ⟨v, hv⟩ := hlk
    refine ⟨[("processing_method", some v), ("scan_number", some (String.ofList [d]))], ?_⟩
    unfold translateGroups
    simp only [Gen.scanInfoReGroups, List.mapM_cons, List.mapM_nil]
    have hg1 : groupText (setGroup (setGroup [] 1 [m]) 2 [d]) 1 = some [m] := rfl
    have hg2 : groupText (setGroup (setGroup [] 1 [m]) 2 [d]) 2 = some [d] := rfl
    rw [hg1, hg2]
    simp only [translate_scan_number, translate_processing_method, hv]
    rfl
/-! ### dates -/


private def dg (d : Nat) : Char := Char.ofNat (48 + d)

private theorem pad2_toList : ∀ n, n < 100 → (pad2 n).toList = [dg (n / 10), dg (n % 10)] := by
  decide +kernel

private theorem dg_spec : ∀ d, d < 10 → (dg d).isDigit = true ∧ (dg d).toNat - 48 = d := by
  decide +kernel

/-- valid dates: the YYMMDD reader accepts exactly month 1..12 and a day of that month (29 February in leap years) -/
theorem valid_dates (yy mm dd : Nat) (hy : yy < 100) (hm : 1 ≤ mm ∧ mm ≤ 12) (hd : 1 ≤ dd ∧ dd ≤ daysInMonthYY yy mm) :
    ∃ iso, parseYYMMDD ((pad2 yy ++ pad2 mm ++ pad2 dd).toList) = .ok iso := by
  have hdd : dd < 100 := by
    have : daysInMonthYY yy mm ≤ 31 := by unfold daysInMonthYY; split <;> split <;> omega
    omega
  rw [String.toList_append, String.toList_append, pad2_toList yy hy, pad2_toList mm (by omega), pad2_toList dd hdd]
  have h1 := dg_spec (yy / 10) (by omega)
  have h2 := dg_spec (yy % 10) (by omega)
  have h3 := dg_spec (mm / 10) (by omega)
  have h4 := dg_spec (mm % 10) (by omega)
  have h5 := dg_spec (dd / 10) (by omega)
  have h6 := dg_spec (dd % 10) (by omega)
  simp only [List.cons_append, List.nil_append, parseYYMMDD, List.all_cons, List.all_nil, h1.1, h2.1, h3.1, h4.1, h5.1, h6.1,
    h1.2, h2.2, h3.2, h4.2, h5.2, h6.2]
  have e1 : yy / 10 * 10 + yy % 10 = yy := by omega
  have e2 : mm / 10 * 10 + mm % 10 = mm := by omega
  have e3 : dd / 10 * 10 + dd % 10 = dd := by omega
  rw [e1, e2, e3]
  have : ¬ (mm < 1 ∨ mm > 12 ∨ dd < 1 ∨ dd > daysInMonthYY yy mm) := by omega
  rw [if_neg this]
  exact ⟨_, rfl⟩
/-! ### group names -/


/-- the image group name is determined by, and determines, (polarisation, scan number) -/
theorem group_name_injective (p₁ p₂ : String) (n₁ n₂ : Option Char)
    (hp₁ : p₁ ∈ ["HH", "HV", "VH", "VV"]) (hp₂ : p₂ ∈ ["HH", "HV", "VH", "VV"])
    (hn₁ : ∀ c, n₁ = some c → c.isDigit = true) (hn₂ : ∀ c, n₂ = some c → c.isDigit = true)
    (h : String.intercalate "_" ([some p₁, n₁.map (fun c => "scan" ++ String.singleton c)].filterMap id) =
         String.intercalate "_" ([some p₂, n₂.map (fun c => "scan" ++ String.singleton c)].filterMap id)) :
    p₁ = p₂ ∧ n₁ = n₂ := by
  have key : ∀ (p : String) (n : Option Char), (String.intercalate "_" ([some p, n.map (fun c => "scan" ++ String.singleton c)].filterMap id)).toList
      = p.toList ++ (match n with | none => [] | some c => ['_', 's', 'c', 'a', 'n', c]) := by
    intro p n
    cases n with
    | none => simp [String.intercalate_singleton]
    | some c => simp [String.intercalate_cons_cons, String.intercalate_singleton]
  have h' := congrArg String.toList h
  rw [key, key] at h'
  simp only [List.mem_cons, List.not_mem_nil, or_false] at hp₁ hp₂
  rcases hp₁ with rfl | rfl | rfl | rfl <;> rcases hp₂ with rfl | rfl | rfl | rfl <;>
    cases n₁ <;> cases n₂ <;> simp at h' ⊢ <;> exact h'

/-- the code tables the theorems are about are the documented ones (regenerated from the source on every run) -/
theorem documented_tables :
    Gen.mapProjections.map Prod.fst = ["U", "P", "M", "L", "_"] ∧
    Gen.processingLevels.map Prod.fst = ["1.0", "1.1", "1.5", "3.1"] ∧
    Gen.observationDirections.map Prod.fst = ["L", "R"] ∧ Gen.orbitDirections.map Prod.fst = ["A", "D"] ∧
    Gen.processingOptions.map Prod.fst = ["G", "R", "_"] ∧ Gen.observationModes.length = 15 ∧
    Gen.processingMethods.map Prod.fst = ["F", "B"] ∧
    Gen.regexCalls.all (fun kv => kv.2.endsWith ".fullmatch") = true := by
  refine ⟨by decide, by decide, by decide, by decide, by decide, by decide, by decide, ?_⟩
  decide +kernel

end Alos2

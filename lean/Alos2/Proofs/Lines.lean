/-
N2 — uniform lists: the per-line metadata of an image with ANY number of line records.

For `n ≥ 1` line records parsed by `Array(n, record)`, the group built by `transform_line_metadata` is, for every
file content, the documented one: every per-line variable has exactly `n` entries, in file order, entry `i` being
that line's field; the per-file constants come from line 0; nothing else appears.  Induction over `n`.
-/
import Alos2.Model.Sym
import Alos2.Gen.Layouts
import Alos2.Spec.Trees
import Alos2.Proofs.Shape
import Alos2.Proofs.Natural
import Alos2.Proofs.Provenance

namespace Alos2

namespace Lines

open Natural

attribute [local simp] Natural.map_leaf Natural.map_cstr Natural.map_cint Natural.map_list Natural.map_tup Natural.map_dict

/-! ### 1. the skeleton of a layout below a path prefix is the skeleton with every path prefixed -/


theorem mapM_some_map {A B : Type} (f : A → B) (l : List A) : l.mapM (fun a => some (f a)) = some (l.map f) := by
  induction l with
  | nil => rfl
  | cons a l ih => simp [List.mapM_cons, ih]

theorem mapM_congr_opt {A B : Type} {f g : A → Option B} (l : List A) (h : ∀ a, f a = g a) : l.mapM f = l.mapM g := by
  have : f = g := funext h
  rw [this]

theorem mapM_map_opt {A B C : Type} (f : A → Option B) (h : B → C) (l : List A) :
    l.mapM (fun a => (f a).map h) = (l.mapM f).map (List.map h) := by
  induction l with
  | nil => rfl
  | cons a l ih =>
    simp only [List.mapM_cons, ih]
    cases f a <;> simp
    cases l.mapM f <;> simp

theorem skel_prefix_joint (pre : List String) :
    (∀ (c : Con) (q : List String), Con.skel c (pre ++ q) = (Con.skel c q).map (PVal.map (preS pre))) ∧
    (∀ (fs : List (String × Con)) (q : List String) (acc : List (String × PVal Sym)),
      Con.skelFields fs (pre ++ q) (acc.map (kvm (preS pre))) =
        (Con.skelFields fs q acc).map (List.map (kvm (preS pre)))) := by
  apply Con.skel.mutual_induct
  · intro fs p ih
    have ih' := ih
    simp only [List.map_nil] at ih'
    rw [Con.skel, Con.skel, ih', Option.map_map, Option.map_map]
    congr 1
    funext r
    simp
  · intro n elem p hn
    simp [Con.skel, hn]
  · intro n elem p hn ih
    rw [Con.skel, Con.skel]
    simp only [hn, if_false]
    have : (fun (i : Nat) => Con.skel elem (pre ++ p ++ ["[" ++ toString i ++ "]"])) =
        (fun (i : Nat) => (Con.skel elem (p ++ ["[" ++ toString i ++ "]"])).map (PVal.map (preS pre))) := by
      funext i
      rw [List.append_assoc, ih i]
    rw [this, mapM_map_opt, Option.map_map, Option.map_map]
    congr 1
    funext r
    simp
  · intro attrs sub p ih
    rw [Con.skel, Con.skel, ih, Option.map_map, Option.map_map]
    congr 1
    funext s
    simp only [Function.comp, PVal.map, PVal.mapList, Shape.mapKvs_consts]
  · intro f sub p ih
    rw [Con.skel, Con.skel, ih]
  · intro t sub p ih
    rw [Con.skel, Con.skel, ih]
  · intro sub p
    simp [Con.skel, preS]
  · intro sub ref p
    simp [Con.skel, preS]
  · intro count elem p hc
    cases count <;> simp [Con.skel]
    exact absurd rfl (fun h => hc _ h)
  · intro t p h1 h2 h3 h4 h5 h6 h7 h8
    cases t <;> simp [Con.skel, preS]
    all_goals first | exact (h1 _ rfl).elim | exact (h3 _ _ rfl).elim | exact (h4 _ _ rfl).elim
                    | exact (h5 _ _ rfl).elim | exact (h6 _ rfl).elim | exact (h7 _ _ rfl).elim | exact (h8 _ _ rfl).elim
  · intro p acc
    simp [Con.skelFields]
  · intro name c rest p acc hnone ih
    rw [Con.skelFields, Con.skelFields]
    rw [List.append_assoc, ih, hnone]
    simp
  · intro name c rest p acc s hs ih1 ih2
    rw [Con.skelFields, Con.skelFields]
    rw [List.append_assoc, ih1, hs]
    simp only [Option.map_some]
    rw [kvSet_kvm, ih2]

/-! ### 2. key-preserving value maps commute with the dictionary combinators -/

variable {α β : Type}

/-- apply a function to every value, keep the keys -/
abbrev vm (h : PVal α → PVal β) : String × PVal α → String × PVal β := fun kv => (kv.1, h kv.2)

theorem kvSet_vm (h : PVal α → PVal β) (kvs : KVs α) (k : String) (v : PVal α) :
    kvSet (kvs.map (vm h)) k (h v) = (kvSet kvs k v).map (vm h) := by
  simp only [kvSet, List.any_map, Function.comp_def]
  split
  · simp only [List.map_map]
    apply List.map_congr_left
    intro kv _
    simp only [Function.comp]
    split <;> rfl
  · simp

theorem kvUnion_vm (h : PVal α → PVal β) (a b : KVs α) :
    kvUnion (a.map (vm h)) (b.map (vm h)) = (kvUnion a b).map (vm h) := by
  unfold kvUnion
  induction b generalizing a with
  | nil => simp
  | cons kv rest ih =>
    simp only [List.map_cons, List.foldl_cons]
    rw [kvSet_vm, ih]

theorem kvFromItems_vm (h : PVal α → PVal β) (kvs : KVs α) :
    kvFromItems (kvs.map (vm h)) = (kvFromItems kvs).map (vm h) := by
  have := kvUnion_vm h [] kvs
  simpa [kvUnion, kvFromItems] using this

/-! ### 3. column form of a uniform list -/

/-- the column of a value: one copy per line, the leaves of copy `i` mapped by `g i` -/
def col (n : Nat) (g : Nat → α → β) (v : PVal α) : PVal β := .list ((List.range n).map (fun i => v.map (g i)))

theorem col_cons (n : Nat) (hn : 0 < n) (g : Nat → α → β) (v : PVal α) :
    ∃ rest, col n g v = .list (v.map (g 0) :: rest) ∧
      (v.map (g 0) :: rest) = (List.range n).map (fun i => v.map (g i)) := by
  obtain ⟨m, rfl⟩ : ∃ m, n = m + 1 := ⟨n - 1, by omega⟩
  refine ⟨((List.range m).map Nat.succ).map (fun i => v.map (g i)), ?_, ?_⟩
  · simp [col, List.range_succ_eq_map]
  · simp [List.range_succ_eq_map]

/-! #### merge -/

theorem keys_fold_new (d : KVs α) : ∀ acc : List String, (acc ++ d.map Prod.fst).Nodup →
    d.foldl (fun acc kv => if acc.contains kv.1 then acc else acc ++ [kv.1]) acc = acc ++ d.map Prod.fst := by
  induction d with
  | nil => intro acc _; simp
  | cons kv rest ih =>
    intro acc hnd
    have hnot : kv.1 ∉ acc := by
      intro hmem
      rw [List.nodup_append] at hnd
      exact hnd.2.2 _ hmem _ (by simp) rfl
    simp only [List.foldl_cons, List.map_cons]
    have : acc.contains kv.1 = false := by simpa using hnot
    rw [this]
    simp only [Bool.false_eq_true, if_false]
    rw [ih (acc ++ [kv.1]) (by simpa [List.append_assoc] using hnd)]
    simp

theorem keys_fold_old (d : KVs α) (acc : List String) (h : ∀ kv ∈ d, kv.1 ∈ acc) :
    d.foldl (fun acc kv => if acc.contains kv.1 then acc else acc ++ [kv.1]) acc = acc := by
  induction d with
  | nil => rfl
  | cons kv rest ih =>
    simp only [List.foldl_cons]
    have : acc.contains kv.1 = true := by simpa using h kv (by simp)
    rw [this]
    simp only [if_true]
    exact ih (fun kv' hm => h kv' (by simp [hm]))

theorem unionKeys_uniform (K : List String) (hK : K.Nodup) (d0 : KVs α) (rest : List (KVs α))
    (h0 : d0.map Prod.fst = K) (hr : ∀ d ∈ rest, d.map Prod.fst = K) : unionKeys (d0 :: rest) = K := by
  unfold unionKeys
  rw [List.foldl_cons, keys_fold_new d0 [] (by simpa [h0] using hK), h0, List.nil_append]
  induction rest with
  | nil => rfl
  | cons d rest ih =>
    rw [List.foldl_cons, keys_fold_old d K]
    · exact ih (fun d' hm => hr d' (by simp [hm]))
    · intro kv hkv
      rw [← hr d (by simp)]
      exact List.mem_map_of_mem hkv

theorem kvGet_of_mem (kvs : KVs α) (hnd : (kvs.map Prod.fst).Nodup) (kv : String × PVal α) (hm : kv ∈ kvs) :
    kvGet kvs kv.1 = some kv.2 := by
  induction kvs with
  | nil => simp at hm
  | cons x rest ih =>
    simp only [List.map_cons, List.nodup_cons] at hnd
    simp only [kvGet, List.find?_cons]
    rcases List.mem_cons.1 hm with rfl | hm'
    · simp
    · have hne : x.1 ≠ kv.1 := by
        intro he
        exact hnd.1 (he ▸ List.mem_map_of_mem hm')
      simp only [hne, decide_false]
      exact ih hnd.2 hm'

theorem merge_uniform (n : Nat) (hn : 0 < n) (g : Nat → α → β) (kvs : KVs α) (hnd : (kvs.map Prod.fst).Nodup) :
    mergeWithList (asDicts ((List.range n).map (fun i => (PVal.dict kvs).map (g i)))) = kvs.map (vm (col n g)) := by
  have hds : asDicts ((List.range n).map (fun i => (PVal.dict kvs).map (g i))) =
      (List.range n).map (fun i => kvs.map (kvm (g i))) := by
    simp [asDicts, List.filterMap_map, Function.comp_def]
  rw [hds]
  obtain ⟨m, rfl⟩ : ∃ m, n = m + 1 := ⟨n - 1, by omega⟩
  have hu : unionKeys ((List.range (m + 1)).map (fun i => kvs.map (kvm (g i)))) = kvs.map Prod.fst := by
    rw [List.range_succ_eq_map, List.map_cons]
    apply unionKeys_uniform _ hnd
    · simp [List.map_map, Function.comp_def]
    · intro d hd
      simp only [List.mem_map] at hd
      obtain ⟨i, _, rfl⟩ := hd
      simp [List.map_map, Function.comp_def]
  unfold mergeWithList
  rw [hu, List.map_map]
  apply List.map_congr_left
  intro kv hkv
  simp only [Function.comp, vm, col, Prod.mk.injEq, true_and, PVal.list.injEq]
  rw [List.filterMap_map]
  simp only [Function.comp_def, kvGet_map, kvGet_of_mem kvs hnd kv hkv, Option.map_some]
  simp


/-! #### remove_spares, dissoc -/

theorem removeSparesList_eq (xs : List (PVal α)) : removeSparesList xs = xs.map removeSpares := by
  induction xs with
  | nil => simp [removeSparesList]
  | cons x xs ih => simp [removeSparesList, ih]

theorem removeSpares_col (n : Nat) (g : Nat → α → β) (v : PVal α) :
    removeSpares (col n g v) = col n g (removeSpares v) := by
  simp [col, removeSpares, removeSparesList_eq, removeSpares_map]

theorem removeSparesKvs_col (n : Nat) (g : Nat → α → β) (kvs : KVs α) :
    removeSparesKvs (kvs.map (vm (col n g))) = (removeSparesKvs kvs).map (vm (col n g)) := by
  induction kvs with
  | nil => simp [removeSparesKvs]
  | cons kv rest ih =>
    obtain ⟨k, v⟩ := kv
    simp only [List.map_cons, removeSparesKvs]
    split
    · simp [ih, removeSpares_col]
    · exact ih

theorem dissoc_vm (h : PVal α → PVal β) (ks : List String) (kvs : KVs α) :
    dissoc ks (kvs.map (vm h)) = (dissoc ks kvs).map (vm h) := by
  simp [dissoc, List.filter_map, Function.comp_def]

/-! #### flatten_nested -/

/-- `flatten_nested` on a single record: nested dicts are spliced in, named `<key>_<component>` -/
def flat1 : Nat → KVs α → KVs α
  | 0, kvs => kvs
  | fuel + 1, kvs =>
    kvFromItems (kvs.flatMap (fun kv => match kv.2 with
      | .dict d => flat1 fuel (d.map (fun m => (kv.1 ++ "_" ++ m.1, m.2)))
      | _ => [kv]))

/-- the nested dicts met by `flat1` have distinct keys -/
def flatOK : Nat → KVs α → Bool
  | 0, _ => true
  | fuel + 1, kvs =>
    kvs.all (fun kv => match kv.2 with
      | .dict d => decide (d.map Prod.fst).Nodup && flatOK fuel (d.map (fun m => (kv.1 ++ "_" ++ m.1, m.2)))
      | _ => true)

theorem flatten_col (n : Nat) (hn : 0 < n) (g : Nat → α → β) : ∀ (fuel : Nat) (kvs : KVs α), flatOK fuel kvs = true →
    flattenNestedAux fuel (kvs.map (vm (col n g))) = (flat1 fuel kvs).map (vm (col n g)) := by
  intro fuel
  induction fuel with
  | zero => intro kvs _; simp [flattenNestedAux, flat1]
  | succ fuel ih =>
    intro kvs hok
    simp only [flattenNestedAux, flat1]
    rw [← kvFromItems_vm, List.flatMap_map, List.map_flatMap]
    congr 1
    apply flatMap_congr_mem
    intro kv hkv
    obtain ⟨k, v⟩ := kv
    simp only [flatOK, List.all_eq_true] at hok
    have hk := hok _ hkv
    obtain ⟨rest, hc, hrest⟩ := col_cons n hn g v
    simp only [vm, hc]
    rcases v with a | s | i | xs | d | xs <;> try (simp [hc]; done)
    simp only [Bool.and_eq_true, decide_eq_true_eq] at hk
    have hm := merge_uniform n hn g d hk.1
    simp only [map_dict] at hrest hm ⊢
    rw [hrest, hm, List.map_map]
    have := ih (d.map (fun m => (k ++ "_" ++ m.1, m.2))) hk.2
    rw [List.map_map] at this
    exact this

/-! #### separate_attrs / rows -/

/-- the value part of a `Metadata` pair -/
def fst1 : PVal α → PVal α
  | .tup (v0 :: _ :: _) => v0
  | o => o

/-- the attribute part of a `Metadata` pair -/
def att1 : PVal α → PVal α
  | .tup (_ :: a0 :: _) => a0
  | _ => .dict []

theorem toRowsVar_col (n : Nat) (hn : 0 < n) (g : Nat → α → β) (v : PVal α) :
    toRowsVar (col n g v) = .tup [.cstr "rows", col n g (fst1 v), (att1 v).map (g 0)] := by
  obtain ⟨rest, hc, hrest⟩ := col_cons n hn g v
  rw [hc]
  rcases v with a | s | i | xs | d | xs <;> try (simp [toRowsVar, separateAttrs, fst1, att1, hc]; done)
  rcases xs with _ | ⟨v0, xs⟩ <;> try (simp [toRowsVar, separateAttrs, fst1, att1, hc]; done)
  rcases xs with _ | ⟨a0, r0⟩ <;> try (simp [toRowsVar, separateAttrs, fst1, att1, hc]; done)
  simp only [fst1, att1]
  simp only [map_tup, List.map_cons] at hrest ⊢
  simp only [toRowsVar, separateAttrs]
  rw [hrest]
  simp [col, List.map_map, Function.comp_def]

/-! #### deduplicate_attrs, rename, as_group -/

theorem kvSet_new (a : KVs α) (k : String) (v : PVal α) (h : k ∉ a.map Prod.fst) : kvSet a k v = a ++ [(k, v)] := by
  unfold kvSet
  have : a.any (fun kv => kv.1 = k) = false := by
    rw [List.any_eq_false]
    intro kv hkv
    simp only [decide_eq_true_eq]
    intro he
    exact h (he ▸ List.mem_map_of_mem hkv)
  rw [this]
  simp

theorem kvUnion_append (b : KVs α) : ∀ a : KVs α, (a.map Prod.fst ++ b.map Prod.fst).Nodup → kvUnion a b = a ++ b := by
  induction b with
  | nil => intro a _; simp [kvUnion]
  | cons kv rest ih =>
    intro a hnd
    have hnot : kv.1 ∉ a.map Prod.fst := by
      intro hmem
      rw [List.nodup_append] at hnd
      exact hnd.2.2 _ hmem _ (by simp) rfl
    have := ih (a ++ [kv]) (by simpa [List.append_assoc] using hnd)
    unfold kvUnion at this ⊢
    rw [List.foldl_cons, kvSet_new a kv.1 kv.2 hnot, this]
    simp

theorem kvFromItems_nodup (l : KVs α) (h : (l.map Prod.fst).Nodup) : kvFromItems l = l := by
  have := kvUnion_append l [] (by simpa using h)
  simpa [kvUnion, kvFromItems] using this

/-- the renamed key -/
def ren (tr : List (String × String)) (k : String) : String := ((tr.find? (fun t => t.1 = k)).map Prod.snd).getD k

theorem rename_nodup (tr : List (String × String)) (l : KVs α) (h : (l.map (fun kv => ren tr kv.1)).Nodup) :
    rename tr l = l.map (fun kv => (ren tr kv.1, kv.2)) := by
  unfold rename
  apply kvFromItems_nodup
  simpa [List.map_map, Function.comp_def, ren] using h

/-- the `rows` variable built from the column of a record field -/
def rowsVar (n : Nat) (g : Nat → α → β) (v : PVal α) : PVal β :=
  .tup [.cstr "rows", col n g (fst1 v), (att1 v).map (g 0)]

def isLeaf : PVal α → Bool
  | .leaf _ => true
  | _ => false

theorem asGroups_none (l : KVs α) (h : ∀ kv ∈ l, itemType kv.2 ≠ .group) : asGroups l = [] := by
  induction l with
  | nil => simp [asGroups]
  | cons kv rest ih =>
    obtain ⟨k, v⟩ := kv
    rw [asGroups]
    have := h (k, v) (by simp)
    simp only [ne_eq] at this
    simp only [this, if_false]
    exact ih (fun kv' hm => h kv' (by simp [hm]))

theorem itemType_rowsVar (n : Nat) (g : Nat → α → β) (v : PVal α) : itemType (rowsVar n g v) = .variable := by
  simp [rowsVar, itemType]

theorem itemType_leafmap (g : α → β) (v : PVal α) (h : isLeaf v = true) : itemType (v.map g) = .attribute := by
  cases v <;> simp [isLeaf] at h
  simp [itemType]

theorem asGroup_split (A B : KVs α) (hA : ∀ kv ∈ A, itemType kv.2 = .variable)
    (hB : ∀ kv ∈ B, itemType kv.2 = .attribute) :
    asGroup (.dict (A ++ B)) = .mk (A.map (fun kv => (kv.1, asVariable kv.2))) [] B := by
  have fA1 : A.filter (fun kv => itemType kv.2 = .variable) = A :=
    List.filter_eq_self.2 (fun kv hkv => by simp [hA kv hkv])
  have fA2 : A.filter (fun kv => itemType kv.2 = .attribute) = [] :=
    List.filter_eq_nil_iff.2 (fun kv hkv => by simp [hA kv hkv])
  have fB1 : B.filter (fun kv => itemType kv.2 = .variable) = [] :=
    List.filter_eq_nil_iff.2 (fun kv hkv => by simp [hB kv hkv])
  have fB2 : B.filter (fun kv => itemType kv.2 = .attribute) = B :=
    List.filter_eq_self.2 (fun kv hkv => by simp [hB kv hkv])
  rw [asGroup]
  congr 1
  · unfold varsOf
    rw [List.filter_append, fA1, fB1, List.append_nil]
  · apply asGroups_none
    intro kv hkv
    rcases List.mem_append.1 hkv with hm | hm
    · simp [hA kv hm]
    · simp [hB kv hm]
  · rw [List.filter_append, fA2, fB2, List.nil_append]

/-- hypotheses on the flattened single record under which the last steps are plain concatenations -/
def finOK (known : List String) (tr : List (String × String)) (P : KVs α) : Bool :=
  let Pv := P.filter (fun kv => !known.contains kv.1)
  let Pa := P.filter (fun kv => known.contains kv.1)
  decide ((Pv ++ Pa).map Prod.fst).Nodup && decide ((Pv ++ Pa).map (fun kv => ren tr kv.1)).Nodup &&
    Pa.all (fun kv => isLeaf (fst1 kv.2))

theorem fin_col (n : Nat) (hn : 0 < n) (g : Nat → α → β) (known : List String) (tr : List (String × String))
    (P : KVs α) (hok : finOK known tr P = true) :
    asGroup (.dict (rename tr (deduplicateAttrs known (P.map (vm (rowsVar n g)))))) =
      .mk ((P.filter (fun kv => !known.contains kv.1)).map
            (fun kv => (ren tr kv.1, ⟨["rows"], col n g (fst1 kv.2), attrsOf ((att1 kv.2).map (g 0))⟩)))
          []
          ((P.filter (fun kv => known.contains kv.1)).map (fun kv => (ren tr kv.1, (fst1 kv.2).map (g 0)))) := by
  simp only [finOK, Bool.and_eq_true, decide_eq_true_eq, List.all_eq_true] at hok
  obtain ⟨⟨h1, h2⟩, h3⟩ := hok
  have hd : deduplicateAttrs known (P.map (vm (rowsVar n g))) =
      (P.filter (fun kv => !known.contains kv.1)).map (vm (rowsVar n g)) ++
      (P.filter (fun kv => known.contains kv.1)).map (vm (fun v => (fst1 v).map (g 0))) := by
    unfold deduplicateAttrs
    simp only [List.filter_map, Function.comp_def, List.map_map]
    rw [kvUnion_append]
    · congr 1
      apply List.map_congr_left
      intro kv _
      obtain ⟨rest, hc, _⟩ := col_cons n hn g (fst1 kv.2)
      simp only [vm, rowsVar, hc]
    · simpa [List.map_map, Function.comp_def] using h1
  rw [hd, rename_nodup]
  · rw [List.map_append, List.map_map, List.map_map, asGroup_split]
    · simp [List.map_map, Function.comp_def, rowsVar, asVariable, dimsOf]
    · intro kv hkv
      simp only [List.mem_map, Function.comp] at hkv
      obtain ⟨kv', hkv', rfl⟩ := hkv
      exact itemType_rowsVar n g _
    · intro kv hkv
      simp only [List.mem_map, Function.comp] at hkv
      obtain ⟨kv', hkv', rfl⟩ := hkv
      exact itemType_leafmap (g 0) _ (h3 kv' hkv')
  · simpa [List.map_map, Function.comp_def] using h2

/-! ### 4. the whole pipeline on a uniform list -/

open Gen.Config in
theorem pipeline_col (n : Nat) (hn : 0 < n) (g : Nat → α → β) (kvs : KVs α)
    (h1 : (kvs.map Prod.fst).Nodup)
    (h2 : flatOK 8 (dissoc sar_image__transform_line_metadata.ignored (removeSparesKvs kvs)) = true)
    (h3 : finOK sar_image__transform_line_metadata.known_attrs sar_image__transform_line_metadata.translations
      (flat1 8 (dissoc sar_image__transform_line_metadata.ignored (removeSparesKvs kvs))) = true) :
    transformLineMetadata ((List.range n).map (fun i => (PVal.dict kvs).map (g i))) =
      .mk (((flat1 8 (dissoc sar_image__transform_line_metadata.ignored (removeSparesKvs kvs))).filter
              (fun kv => !sar_image__transform_line_metadata.known_attrs.contains kv.1)).map
            (fun kv => (ren sar_image__transform_line_metadata.translations kv.1,
              ⟨["rows"], col n g (fst1 kv.2), attrsOf ((att1 kv.2).map (g 0))⟩)))
          []
          (((flat1 8 (dissoc sar_image__transform_line_metadata.ignored (removeSparesKvs kvs))).filter
              (fun kv => sar_image__transform_line_metadata.known_attrs.contains kv.1)).map
            (fun kv => (ren sar_image__transform_line_metadata.translations kv.1, (fst1 kv.2).map (g 0)))) := by
  unfold transformLineMetadata
  simp only [merge_uniform n hn g kvs h1, removeSpares, removeSparesKvs_col, dissoc_vm, flattenNested,
    flatten_col n hn g 8 _ h2, List.map_map]
  have : ((fun kv : String × PVal β => (kv.1, toRowsVar kv.2)) ∘ vm (col n g)) = vm (rowsVar n g) := by
    funext kv
    simp only [Function.comp, vm, toRowsVar_col n hn g, rowsVar]
  rw [this]
  exact fin_col n hn g _ _ _ h3

/-- the leaf map of line `i`: prefix the path by the index -/
def gI (i : Nat) : Sym → Sym := preS ["[" ++ toString i ++ "]"]

def enc1 (kv : String × PVal Sym) : String × PVal Sym :=
  (kv.1, .tup [fst1 kv.2, .dict (sortByKey (attrsOf ((att1 kv.2).map (preS ["[0]"]))))])

def encSpec (x : String × List String × KVs Sym) : String × PVal Sym :=
  (x.1, .tup [.leaf (.path x.2.1), .dict x.2.2])

def dec (n : Nat) (kv : String × PVal Sym) : String × GVar Sym :=
  (kv.1, match kv.2 with
    | .tup [x, .dict a] => ⟨["rows"], col n gI x, a⟩
    | _ => ⟨[], .cint 0, []⟩)

open Gen.Config in
/-- the closed check on a record layout: well-formedness of its skeleton and the comparison of the
    single-record result (names, field paths, attributes) with the documented tables -/
def lineCheck (rec : Con) (vars : List (String × List String × KVs Sym)) (attrs : List (String × List String)) : Bool :=
  match Con.skel rec [] with
  | some (.dict kvs) =>
    let P := flat1 8 (dissoc sar_image__transform_line_metadata.ignored (removeSparesKvs kvs))
    decide (kvs.map Prod.fst).Nodup &&
    flatOK 8 (dissoc sar_image__transform_line_metadata.ignored (removeSparesKvs kvs)) &&
    finOK sar_image__transform_line_metadata.known_attrs sar_image__transform_line_metadata.translations P &&
    Prov.pbeqKvs
      ((sortByKey ((P.filter (fun kv => !sar_image__transform_line_metadata.known_attrs.contains kv.1)).map
        (fun kv => (ren sar_image__transform_line_metadata.translations kv.1, kv.2)))).map enc1)
      (vars.map encSpec) &&
    Prov.pbeqKvs
      (sortByKey ((P.filter (fun kv => sar_image__transform_line_metadata.known_attrs.contains kv.1)).map
        (fun kv => (ren sar_image__transform_line_metadata.translations kv.1, (fst1 kv.2).map (preS ["[0]"])))))
      (attrs.map (fun x => (x.1, .leaf (.path ("[0]" :: x.2)))))
  | _ => false

theorem gI_zero : gI 0 = preS ["[0]"] := by
  have : "[" ++ toString 0 ++ "]" = "[0]" := by decide
  simp only [gI, this]

theorem skel_array (n : Nat) (rec : Con) (S : PVal Sym) (hS : Con.skel rec [] = some S) :
    Con.skel (.array (.const n) rec) [] = some (.list ((List.range n).map (fun i => S.map (gI i)))) := by
  rw [Con.skel]
  have : ¬ ((n : Int) < 0) := by omega
  simp only [this, if_false, Int.toNat_natCast, List.nil_append]
  have : (fun (i : Nat) => Con.skel rec ["[" ++ toString i ++ "]"]) = (fun i => some (S.map (gI i))) := by
    funext i
    have := (skel_prefix_joint ["[" ++ toString i ++ "]"]).1 rec []
    rw [List.append_nil] at this
    rw [this, hS]
    rfl
  rw [this, mapM_some_map]
  rfl

theorem lines_symbolic (rec : Con) (vars : List (String × List String × KVs Sym)) (attrs : List (String × List String))
    (hc : lineCheck rec vars attrs = true) (n : Nat) (hn : 0 < n) :
    ∃ S, Con.skel rec [] = some S ∧
      (transformLineMetadata ((List.range n).map (fun i => S.map (gI i)))).sortKeys = Spec.lineTree vars attrs n := by
  unfold lineCheck at hc
  split at hc
  next kvs hS =>
    refine ⟨_, hS, ?_⟩
    simp only [Bool.and_eq_true, decide_eq_true_eq] at hc
    obtain ⟨⟨⟨⟨h1, h2⟩, h3⟩, h4⟩, h5⟩ := hc
    have h4 := Prov.pbeqKvs_sound _ _ h4
    have h5 := Prov.pbeqKvs_sound _ _ h5
    rw [pipeline_col n hn gI kvs h1 h2 h3]
    unfold Spec.lineTree
    rw [Grp.sortKeys]
    congr 1
    · have e1 := congrArg (List.map (dec n)) h4
      rw [List.map_map, List.map_map] at e1
      have e2 : (vars.map (dec n ∘ encSpec)) = vars.map (fun x => match x with
          | (name, p, ats) => (name, ⟨["rows"], .list ((List.range n).map (fun i => .leaf (.path (("[" ++ toString i ++ "]") :: p)))), ats⟩)) := by
        apply List.map_congr_left
        rintro ⟨name, p, ats⟩ _
        simp [dec, encSpec, col, gI, preS]
      rw [← e2, ← e1, ← Prov.sortByKey_map (dec n ∘ enc1) (fun _ => rfl), List.map_map, List.map_map]
      congr 1
  next => simp at hc


/-! ### 5. from the symbolic statement to parsed records -/

theorem lines_final (rec : Con) (vars : List (String × List String × KVs Sym)) (attrs : List (String × List String))
    (hc : lineCheck rec vars attrs = true) (n : Nat) (hn : 0 < n) (ctx : Ctx) (bs : Bytes) (pos : Nat) (v : Val)
    (pos' : Nat) (h : parse (.array (.const n) rec) ctx bs pos = .ok (v, pos')) :
    ∃ recs, v = .list recs ∧ recs.length = n ∧
      (transformLineMetadata (Val.toPVal.toPVals recs)).sortKeys = (Spec.lineTree vars attrs n).map (Sym.eval v) := by
  obtain ⟨S, hS, hsym⟩ := lines_symbolic rec vars attrs hc n hn
  have heq := parse_eq_skel _ _ (skel_array n rec S hS) ctx bs pos v pos' h
  rw [parse] at h
  simp only [Shape.bind_ok, Shape.pure_ok] at h
  obtain ⟨m, h0, ⟨vs, p1⟩, h1, h2⟩ := h
  simp only [Prod.mk.injEq] at h2
  obtain ⟨rfl, rfl⟩ := h2
  have hm : m = n := by
    have hneg : ¬ ((n : Int) < 0) := by omega
    simp only [evalLen, Expr.eval, hneg, if_false, Int.toNat_natCast, Except.ok.injEq] at h0
    exact h0.symm
  subst hm
  have hlen := (Shape.parseMany_ok (fun p => parse rec ctx bs p) (fun _ => True) (fun _ _ _ _ => trivial) m pos vs p1 h1).1
  refine ⟨vs, rfl, hlen, ?_⟩
  have e1 : (Val.list vs).toPVal = .list (Val.toPVal.toPVals vs) := by rw [Val.toPVal]
  have e2 : ∀ (f : Sym → Leaf) (ss : List (PVal Sym)), (PVal.list ss).map f = .list (PVal.mapList f ss) := by
    intro f ss; rw [PVal.map]
  rw [e1, e2] at heq
  have heq := PVal.list.inj heq
  rw [heq, transformLineMetadata_natural, Prov.sortKeys_map, hsym]

theorem check15 : lineCheck Gen.processedDataRecord Spec.lineVars15 Spec.lineAttrs15 = true := by decide +kernel

theorem check11 : lineCheck Gen.signalDataRecord Spec.lineVars11 Spec.lineAttrs11 = true := by decide +kernel

end Lines

/-- level 1.5 (processed data records): for every `n ≥ 1` and every file content -/
theorem line_metadata_provenance_15 (n : Nat) (hn : 0 < n) (ctx : Ctx) (bs : Bytes) (pos : Nat) (v : Val) (pos' : Nat)
    (h : parse (.array (.const n) Gen.processedDataRecord) ctx bs pos = .ok (v, pos')) :
    ∃ recs, v = .list recs ∧ recs.length = n ∧
      (transformLineMetadata (Val.toPVal.toPVals recs)).sortKeys =
        (Spec.lineTree Spec.lineVars15 Spec.lineAttrs15 n).map (Sym.eval v) :=
  Lines.lines_final _ _ _ Lines.check15 n hn ctx bs pos v pos' h

/-- level 1.1 (signal data records, with nested sub-structures): for every `n ≥ 1` and every file content -/
theorem line_metadata_provenance_11 (n : Nat) (hn : 0 < n) (ctx : Ctx) (bs : Bytes) (pos : Nat) (v : Val) (pos' : Nat)
    (h : parse (.array (.const n) Gen.signalDataRecord) ctx bs pos = .ok (v, pos')) :
    ∃ recs, v = .list recs ∧ recs.length = n ∧
      (transformLineMetadata (Val.toPVal.toPVals recs)).sortKeys =
        (Spec.lineTree Spec.lineVars11 Spec.lineAttrs11 n).map (Sym.eval v) :=
  Lines.lines_final _ _ _ Lines.check11 n hn ctx bs pos v pos' h

end Alos2

/-
The bridge is TOTAL on the reader's image groups: whenever `open_image` (no cache, layout-based reader) succeeds on a file with
at least one line record, all of one kind, and every instant lies in the non-negative `int64` nanosecond range
(1970-01-01 … 2262-04-11, the part of `datetime64[ns]` the codec's calendar text covers), the group IS convertible to the
object the cache codec works on — every per-line column is a non-empty list of scalars of ONE NumPy kind (the kind is fixed by
the record layout: `uint` → int64, `factor(uint)` → float64, `flag` → bool, the two time stamps → datetime64[ns]), every attribute
is JSON-able.  With `Proofs/Bridge.lean` this removes the hypothesis "the group can be bridged" from C07 / C08 / C10.
-/
import Alos2.Proofs.Bridge

namespace Alos2

def leafDateIn : PVal Leaf → Bool
  | .leaf (.datetime ns) => decide (0 ≤ ns) && inInt64 ns
  | .list xs => leafDateIn.list xs
  | _ => true
where
  list : List (PVal Leaf) → Bool
    | [] => true
    | x :: xs => leafDateIn x && list xs

/-- every instant of the group's variables is in [1970-01-01, 2262-04-11 23:47:16.854775807] -/
def DatesInRange (g : ImageGroup) : Bool :=
  match g.group with
  | .mk vars _ _ => vars.all (fun kv => leafDateIn kv.2.data)

namespace BridgeT

open Shape BridgeP



/-! ### leaf typing of the layout interpreter -/

/-- classes of leaves a leaf layout can produce -/
inductive LC where
  | u (n : Nat)   -- unsigned integer on n bytes
  | i             -- any integer
  | f             -- float (ASCII token or scaled)
  | s             -- text
  | b             -- boolean
  | d             -- instant
  | e             -- enum: text or integer
  deriving DecidableEq, Repr

def LC.ok : LC → Leaf → Bool
  | .u n, .int v => decide (0 ≤ v) && decide (v < (256 : Int) ^ n)
  | .i, .int _ => true
  | .f, .float _ => true
  | .f, .scaledF _ _ => true
  | .f, .scaledI _ _ => true
  | .s, .str _ => true
  | .b, .bool _ => true
  | .d, .datetime _ => true
  | .e, .int _ => true
  | .e, .str _ => true
  | _, _ => false

mutual
/-- the class of the leaf a layout puts at a path (member names; a `Metadata` pair is transparent) -/
def lc : Con → List String → Option LC
  | .struct fs, k :: rest => lcFields fs k rest
  | .uint n, [] => some (.u n)
  | .aint _, [] => some .i
  | .afloat _, [] => some .f
  | .pstr _, [] => some .s
  | .factor _ _, [] => some .f
  | .wmeta _ sub, p => lc sub p
  | .enum _ _, [] => some .e
  | .flag _, [] => some .b
  | .ydms _, [] => some .d
  | .ydus _ _, [] => some .d
  | .tell, [] => some .i
  | .seek _, [] => some .i
  | .computed _, [] => some .i
  | _, _ => none
/-- the LAST member of that name decides (Python dict assignment) -/
def lcFields : List (String × Con) → String → List String → Option LC
  | [], _, _ => none
  | (n, c) :: fs, k, rest =>
    if fs.any (fun x => x.1 = k) then lcFields fs k rest else if n = k then lc c rest else none
end

theorem beNat_lt (bs : Bytes) : beNat bs < 256 ^ bs.length := by
  have key : ∀ (bs : Bytes) (acc : Nat), bs.foldl (fun acc b => acc * 256 + b.toNat) acc < (acc + 1) * 256 ^ bs.length := by
    intro bs
    induction bs with
    | nil => intro acc; simp
    | cons b bs ih =>
      intro acc
      rw [List.foldl_cons, List.length_cons, Nat.pow_succ]
      have hb : b.toNat < 256 := UInt8.toNat_lt b
      refine Nat.lt_of_lt_of_le (ih _) ?_
      rw [Nat.mul_comm (256 ^ bs.length) 256, ← Nat.mul_assoc]
      apply Nat.mul_le_mul_right
      omega
  have := key bs 0
  simpa [beNat] using this

theorem readBytes_len {bs : Bytes} {pos n : Nat} {raw : Bytes} (h : readBytes bs pos n = .ok raw) : raw.length = n := by
  unfold readBytes at h
  split at h
  · simp only [Except.ok.injEq] at h
    subst h
    simp [slice]
    omega
  · simp at h

theorem u_ok {bs : Bytes} {pos n : Nat} {raw : Bytes} (h : readBytes bs pos n = .ok raw) :
    LC.ok (.u n) (.int (beNat raw)) = true := by
  have hl := readBytes_len h
  have := beNat_lt raw
  rw [hl] at this
  simp only [LC.ok, Bool.and_eq_true, decide_eq_true_eq]
  refine ⟨Int.natCast_nonneg _, ?_⟩
  have h2 : ((beNat raw : Nat) : Int) < ((256 ^ n : Nat) : Int) := Int.ofNat_lt.2 this
  simpa using h2

theorem parseAInt_ok {raw : Bytes} {l : Leaf} (h : parseAInt raw = .ok l) : LC.ok .i l = true := by
  unfold parseAInt at h
  simp only [bind_ok] at h
  obtain ⟨s, _, h⟩ := h
  split at h
  · simp only [pure_ok] at h; subst h; rfl
  · split at h
    · simp only [pure_ok] at h; subst h; rfl
    · simp [throw, throwThe, MonadExceptOf.throw] at h

theorem applyFactor_f {f : String} {v w : Val} (h : applyFactor f v = .ok w) : ∃ l, w = .leaf l ∧ LC.ok .f l = true := by
  unfold applyFactor at h
  split at h
  · simp at h; exact ⟨_, h.symm, rfl⟩
  · simp at h; exact ⟨_, h.symm, rfl⟩
  · simp at h

theorem enumLookup_e {t : List (String × String)} {v w : Val} (h : enumLookup t v = .ok w) :
    ∃ l, w = .leaf l ∧ LC.ok .e l = true := by
  unfold enumLookup at h
  split at h
  · split at h <;> (simp at h; exact ⟨_, h.symm, rfl⟩)
  · split at h
    · simp at h; exact ⟨_, h.symm, rfl⟩
    · split at h
      · simp at h
      · split at h
        · simp at h; exact ⟨_, h.symm, rfl⟩
        · simp at h
  · simp at h

theorem mkYdms_d {v w : Val} (h : mkYdms v = .ok w) : ∃ l, w = .leaf l ∧ LC.ok .d l = true := by
  unfold mkYdms at h
  split at h
  · split at h
    · simp at h
    · split at h
      · simp at h
      · dsimp only at h
        split at h
        · simp at h
        · simp at h; exact ⟨_, h.symm, rfl⟩
  · simp at h

theorem mkYdus_d {r : Option Val} {v w : Val} (h : mkYdus r v = .ok w) : ∃ l, w = .leaf l ∧ LC.ok .d l = true := by
  unfold mkYdus at h
  split at h
  · dsimp only at h
    split at h
    · simp at h
    · simp at h; exact ⟨_, h.symm, rfl⟩
  · simp at h

theorem mem_setField_self (lvl : List (String × Val)) (name : String) (v : Val) : (name, v) ∈ setField lvl name v := by
  unfold setField
  split
  next hany =>
    obtain ⟨kv, hkv, hk⟩ := List.any_eq_true.1 hany
    simp only [decide_eq_true_eq] at hk
    exact List.mem_map.2 ⟨kv, hkv, by simp [hk]⟩
  · simp

theorem mem_setField_ne (lvl : List (String × Val)) (name : String) (v : Val) (k : String) (x : Val)
    (hne : ¬ name = k) (h : (k, x) ∈ lvl) : (k, x) ∈ setField lvl name v := by
  unfold setField
  split
  · refine List.mem_map.2 ⟨(k, x), h, ?_⟩
    have : ¬ k = name := fun e => hne e.symm
    simp [this]
  · simp [h]

/-- the result type of the two parsers at a path -/
def Typed (v : Val) (p : List String) (K : LC) : Prop := ∃ l, v.leafAt p = some l ∧ LC.ok K l = true

theorem typed_leaf {l : Leaf} {K : LC} (h : LC.ok K l = true) : Typed (.leaf l) [] K := ⟨l, by rw [Val.leafAt], h⟩

theorem typing_joint :
    (∀ (c : Con) (ctx : Ctx) (bs : Bytes) (pos : Nat), ∀ v pos',
        parse c ctx bs pos = .ok (v, pos') → ∀ p K, lc c p = some K → Typed v p K) ∧
    (∀ (fs : List (String × Con)) (ctx : Ctx) (bs : Bytes) (pos : Nat), ∀ v pos',
        LvlOK (ctx.headD []) → parseFields fs ctx bs pos = .ok (v, pos') → ∀ k rest K,
        (if fs.any (fun x => x.1 = k) then lcFields fs k rest = some K
          else ∃ x, (k, x) ∈ ctx.headD [] ∧ Typed x rest K) → Typed v (k :: rest) K) := by
  apply parse.mutual_induct
  case case1 =>
    intro fs ctx bs pos ih v pos' h p K hK
    rw [parse] at h
    cases p with
    | nil => simp [lc] at hK
    | cons k rest =>
      rw [lc] at hK
      apply ih v pos' LvlOK_nil h k rest K
      by_cases hany : fs.any (fun x => x.1 = k) = true
      · rw [if_pos hany]; exact hK
      · exfalso
        clear ih h
        induction fs with
        | nil => simp [lcFields] at hK
        | cons a fs ih2 =>
          obtain ⟨n, c⟩ := a
          rw [lcFields] at hK
          simp only [List.any_cons, Bool.or_eq_true, decide_eq_true_eq, not_or] at hany
          rw [if_neg hany.2, if_neg hany.1] at hK
          cases hK
  case case2 =>
    intro n ctx bs pos v pos' h p K hK
    rw [parse] at h
    simp only [bind_ok, pure_ok] at h
    obtain ⟨raw, h1, h2⟩ := h
    simp only [Prod.mk.injEq] at h2
    obtain ⟨rfl, _⟩ := h2
    cases p with
    | nil => simp only [lc, Option.some.injEq] at hK; subst hK; exact typed_leaf (u_ok h1)
    | cons k rest => simp [lc] at hK
  case case3 =>
    intro e ctx bs pos v pos' h p K hK
    rw [parse] at h
    simp only [bind_ok, pure_ok] at h
    obtain ⟨n, h0, raw, h1, lf, hlf, h2⟩ := h
    simp only [Prod.mk.injEq] at h2
    obtain ⟨rfl, _⟩ := h2
    cases p with
    | nil => simp only [lc, Option.some.injEq] at hK; subst hK; exact typed_leaf (parseAInt_ok hlf)
    | cons k rest => simp [lc] at hK
  case case4 =>
    intro e ctx bs pos v pos' h p K hK
    rw [parse] at h
    simp only [bind_ok, pure_ok] at h
    obtain ⟨n, h0, raw, h1, lf, _, h2⟩ := h
    simp only [Prod.mk.injEq] at h2
    obtain ⟨rfl, _⟩ := h2
    cases p with
    | nil => simp only [lc, Option.some.injEq] at hK; subst hK; exact typed_leaf rfl
    | cons k rest => simp [lc] at hK
  case case5 =>
    intro e ctx bs pos v pos' h p K hK
    cases p <;> simp [lc] at hK
  case case6 =>
    intro e ctx bs pos v pos' h p K hK
    rw [parse] at h
    simp only [bind_ok, pure_ok] at h
    obtain ⟨n, h0, raw, h1, lf, _, h2⟩ := h
    simp only [Prod.mk.injEq] at h2
    obtain ⟨rfl, _⟩ := h2
    cases p with
    | nil => simp only [lc, Option.some.injEq] at hK; subst hK; exact typed_leaf rfl
    | cons k rest => simp [lc] at hK
  case case7 =>
    intro e ctx bs pos v pos' h p K hK
    cases p <;> simp [lc] at hK
  case case8 =>
    intro count elem ctx bs pos ih v pos' h p K hK
    cases p <;> simp [lc] at hK
  case case9 =>
    intro f sub ctx bs pos ih v pos' h p K hK
    rw [parse] at h
    simp only [bind_ok, pure_ok] at h
    obtain ⟨⟨v1, p1⟩, h1, w, hw, h2⟩ := h
    simp only [Prod.mk.injEq] at h2
    obtain ⟨rfl, _⟩ := h2
    obtain ⟨l, rfl, hl⟩ := applyFactor_f hw
    cases p with
    | nil => simp only [lc, Option.some.injEq] at hK; subst hK; exact typed_leaf hl
    | cons k rest => simp [lc] at hK
  case case10 =>
    intro attrs sub ctx bs pos ih v pos' h p K hK
    rw [parse] at h
    simp only [bind_ok, pure_ok] at h
    obtain ⟨⟨v1, p1⟩, h1, h2⟩ := h
    simp only [Prod.mk.injEq] at h2
    obtain ⟨rfl, _⟩ := h2
    rw [lc] at hK
    obtain ⟨l, hl, hok⟩ := ih v1 p1 h1 p K hK
    refine ⟨l, ?_, hok⟩
    rw [Val.leafAt]
    exact hl
  case case11 =>
    intro table sub ctx bs pos ih v pos' h p K hK
    rw [parse] at h
    simp only [bind_ok, pure_ok] at h
    obtain ⟨⟨v1, p1⟩, h1, w, hw, h2⟩ := h
    simp only [Prod.mk.injEq] at h2
    obtain ⟨rfl, _⟩ := h2
    obtain ⟨l, rfl, hl⟩ := enumLookup_e hw
    cases p with
    | nil => simp only [lc, Option.some.injEq] at hK; subst hK; exact typed_leaf hl
    | cons k rest => simp [lc] at hK
  case case12 =>
    intro n ctx bs pos v pos' h p K hK
    rw [parse] at h
    simp only [bind_ok, pure_ok] at h
    obtain ⟨raw, h1, h2⟩ := h
    simp only [Prod.mk.injEq] at h2
    obtain ⟨rfl, _⟩ := h2
    cases p with
    | nil => simp only [lc, Option.some.injEq] at hK; subst hK; exact typed_leaf rfl
    | cons k rest => simp [lc] at hK
  case case13 =>
    intro sub ctx bs pos ih v pos' h p K hK
    rw [parse] at h
    simp only [bind_ok, pure_ok] at h
    obtain ⟨⟨v1, p1⟩, h1, w, hw, h2⟩ := h
    simp only [Prod.mk.injEq] at h2
    obtain ⟨rfl, _⟩ := h2
    obtain ⟨l, rfl, hl⟩ := mkYdms_d hw
    cases p with
    | nil => simp only [lc, Option.some.injEq] at hK; subst hK; exact typed_leaf hl
    | cons k rest => simp [lc] at hK
  case case14 =>
    intro sub ref ctx bs pos ih v pos' h p K hK
    simp only [parse, bind_ok, pure_ok] at h
    obtain ⟨⟨v1, p1⟩, h1, w, hw, h2⟩ := h
    simp only [Prod.mk.injEq] at h2
    obtain ⟨rfl, _⟩ := h2
    obtain ⟨l, rfl, hl⟩ := mkYdus_d hw
    cases p with
    | nil => simp only [lc, Option.some.injEq] at hK; subst hK; exact typed_leaf hl
    | cons k rest => simp [lc] at hK
  case case15 =>
    intro ctx bs pos v pos' h p K hK
    rw [parse] at h
    simp only [pure_ok, Prod.mk.injEq] at h
    obtain ⟨rfl, _⟩ := h
    cases p with
    | nil => simp only [lc, Option.some.injEq] at hK; subst hK; exact typed_leaf rfl
    | cons k rest => simp [lc] at hK
  case case16 =>
    intro e ctx bs pos v pos' h p K hK
    rw [parse] at h
    simp only [bind_ok, pure_ok] at h
    obtain ⟨n, h0, h2⟩ := h
    simp only [Prod.mk.injEq] at h2
    obtain ⟨rfl, _⟩ := h2
    cases p with
    | nil => simp only [lc, Option.some.injEq] at hK; subst hK; exact typed_leaf rfl
    | cons k rest => simp [lc] at hK
  case case17 =>
    intro e ctx bs pos v0 he v pos' h p K hK
    rw [parse] at h
    simp only [he, pure_ok, Prod.mk.injEq] at h
    obtain ⟨rfl, _⟩ := h
    cases p with
    | nil => simp only [lc, Option.some.injEq] at hK; subst hK; exact typed_leaf rfl
    | cons k rest => simp [lc] at hK
  case case18 =>
    intro e ctx bs pos he v pos' h
    rw [parse] at h
    simp [he, throw, throwThe, MonadExceptOf.throw] at h
  case case19 =>
    intro ctx bs pos v pos' hl h k rest K hK
    rw [parseFields] at h
    simp only [Except.ok.injEq, Prod.mk.injEq] at h
    rw [← h.1]
    simp only [List.any_nil, Bool.false_eq_true, if_false] at hK
    obtain ⟨x, hx, l, hl1, hl2⟩ := hK
    refine ⟨l, ?_, hl2⟩
    rw [leafAt_dict (by rw [List.map_reverse]; exact (List.reverse_perm _).nodup_iff.mpr hl.1) (List.mem_reverse.2 hx)]
    exact hl1
  case case20 =>
    intro name c rest ctx bs pos ih1 ih2 v pos' hl h k q K hK
    rw [parseFields] at h
    simp only [bind_ok] at h
    obtain ⟨⟨v1, p1⟩, h1, h2⟩ := h
    have hv1 := uniqueKeys_joint.1 c ctx bs pos v1 p1 h1
    have hl' : LvlOK ((match ctx with
        | lvl :: outer => setField lvl name v1 :: outer
        | [] => [[(name, v1)]]).headD []) := by
      cases ctx with
      | nil => simp only [List.headD_cons]; exact LvlOK_setField name LvlOK_nil hv1
      | cons lvl outer => simp only [List.headD_cons] at hl ⊢; exact LvlOK_setField name hl hv1
    refine ih2 v1 p1 v pos' hl' h2 k q K ?_
    by_cases hany : rest.any (fun x => x.1 = k) = true
    · rw [if_pos hany]
      have : ((name, c) :: rest).any (fun x => x.1 = k) = true := by simp [hany]
      rw [if_pos this, lcFields, if_pos hany] at hK
      exact hK
    · rw [if_neg hany]
      have hmem : ∀ y, y ∈ setField (ctx.headD []) name v1 → y ∈ (match ctx with
        | lvl :: outer => setField lvl name v1 :: outer
        | [] => [[(name, v1)]]).headD [] := by
        intro y hy
        cases ctx <;> exact hy
      by_cases hn : name = k
      · have : ((name, c) :: rest).any (fun x => x.1 = k) = true := by simp [hn]
        rw [if_pos this, lcFields, if_neg hany, if_pos hn] at hK
        subst hn
        exact ⟨v1, hmem _ (mem_setField_self _ _ _), ih1 v1 p1 h1 q K hK⟩
      · have : ¬ ((name, c) :: rest).any (fun x => x.1 = k) = true := by
          simp only [List.any_cons, Bool.or_eq_true, decide_eq_true_eq, not_or]
          exact ⟨hn, hany⟩
        rw [if_neg this] at hK
        obtain ⟨x, hx, ht⟩ := hK
        exact ⟨x, hmem _ (mem_setField_ne _ _ _ _ _ hn hx), ht⟩

/-- LEAF TYPING: a successful parse puts at every path the layout classifies a leaf of that class -/
theorem parse_typed (c : Con) (ctx : Ctx) (bs : Bytes) (pos : Nat) (v : Val) (pos' : Nat)
    (h : parse c ctx bs pos = .ok (v, pos')) (p : List String) (K : LC) (hK : lc c p = some K) : Typed v p K :=
  typing_joint.1 c ctx bs pos v pos' h p K hK



theorem mapM_leafOf_map (ls : List Leaf) : (ls.map PVal.leaf).mapM leafOf = some ls := by
  induction ls with
  | nil => rfl
  | cons l ls ih => rw [List.map_cons, List.mapM_cons, ih]; rfl

theorem mapM_some_of {A B : Type} (f : A → Option B) : ∀ (l : List A), (∀ a ∈ l, ∃ b, f a = some b) → ∃ r, l.mapM f = some r := by
  intro l
  induction l with
  | nil => intro _; exact ⟨[], rfl⟩
  | cons a l ih =>
    intro h
    obtain ⟨b, hb⟩ := h a (by simp)
    obtain ⟨r, hr⟩ := ih (fun x hx => h x (by simp [hx]))
    exact ⟨b :: r, by rw [List.mapM_cons, hb, hr]; rfl⟩

theorem leafPy_float (fr : FloatRepr) (l : Leaf) (h : colKind l = some .float) : ∃ y, leafPy fr l = some y := by
  cases l <;> simp [colKind] at h <;> exact ⟨_, rfl⟩

theorem columnArray_some (fr : FloatRepr) (ls : List Leaf) (k : ColKind) (hne : ls ≠ [])
    (hk : ∀ l ∈ ls, colKind l = some k)
    (hint : k = .int → ∀ l ∈ ls, ∃ v, l = .int v ∧ inInt64 v = true)
    (hdt : k = .datetime → ∀ l ∈ ls, ∃ ns, l = .datetime ns ∧ inInt64 ns = true ∧ ns ≠ natValue) :
    ∃ a, columnArray fr (.list (ls.map PVal.leaf)) = some a := by
  unfold columnArray
  simp only [mapM_leafOf_map, Option.bind_eq_bind, Option.bind_some]
  cases ls with
  | nil => exact absurd rfl hne
  | cons l0 rest =>
    simp only [hk l0 (by simp), Option.bind_some]
    have hall : (l0 :: rest).all (fun l => decide (colKind l = some k)) = true := by
      rw [List.all_eq_true]; intro l hl; simp [hk l hl]
    rw [hall]
    simp only [Bool.not_true, Bool.false_eq_true, if_false]
    cases k with
    | int =>
      refine ⟨_, if_pos ?_⟩
      rw [List.all_eq_true]; intro l hl
      obtain ⟨v, rfl, hv⟩ := hint rfl l hl
      exact hv
    | float =>
      obtain ⟨vs, hvs⟩ := mapM_some_of (leafPy fr) (l0 :: rest) (fun l hl => leafPy_float fr l (hk l hl))
      simp only [hvs, Option.bind_some]
      exact ⟨_, rfl⟩
    | str => exact ⟨_, rfl⟩
    | bool => exact ⟨_, rfl⟩
    | datetime =>
      refine ⟨_, if_pos ?_⟩
      rw [List.all_eq_true]; intro l hl
      obtain ⟨v, rfl, hv, hv2⟩ := hdt rfl l hl
      simp [hv, hv2]


/-! ### records of the reader: rebased parses -/

theorem leafAt_mapKey (name : String) (f : Val → Val) (kvs : List (String × Val)) (k : String) (rest : List String)
    (hne : ¬ k = name) :
    (Val.dict (LineAddr.mapKey name f kvs)).leafAt (k :: rest) = (Val.dict kvs).leafAt (k :: rest) := by
  rw [Val.leafAt, Val.leafAt, LineAddr.find_mapKey]
  cases hfind : kvs.find? (fun kv => kv.1 = k) with
  | none => rfl
  | some kv =>
    have hk : kv.1 = k := by simpa using List.find?_some hfind
    have : ¬ kv.1 = name := by rw [hk]; exact hne
    simp [this]

theorem leafAt_adjust (off : Int) (v : Val) (k : String) (rest : List String)
    (h1 : ¬ k = "record_start") (h2 : ¬ k = "data") :
    (adjustOffset off v).leafAt (k :: rest) = v.leafAt (k :: rest) := by
  cases v with
  | dict kvs => rw [LineAddr.adjustOffset_dict, leafAt_mapKey _ _ _ _ _ h2, leafAt_mapKey _ _ _ _ _ h1]
  | _ => rfl

/-- a path `adjustOffset` does not touch -/
def pathOK : List String → Bool
  | [] => false
  | k :: _ => k != "record_start" && k != "data"

theorem rec_typed (rec : Con) (r : Val) (h : IsLineRecord rec r) (p : List String) (K : LC)
    (hp : pathOK p = true) (hK : lc rec p = some K) : Typed r p K := by
  obtain ⟨ctx, bs, pos, v, pos', off, hparse, rfl⟩ := h
  obtain ⟨l, hl, hok⟩ := parse_typed rec ctx bs pos v pos' hparse p K hK
  cases p with
  | nil => simp [pathOK] at hp
  | cons k rest =>
    simp only [pathOK, Bool.and_eq_true, bne_iff_ne, ne_eq] at hp
    exact ⟨l, by rw [leafAt_adjust off v k rest hp.1 hp.2]; exact hl, hok⟩

theorem eval_typed (rec : Con) (recs : List Val) (hall : ∀ r ∈ recs, IsLineRecord rec r) (i : Nat) (hi : i < recs.length)
    (p : List String) (K : LC) (hp : pathOK p = true) (hK : lc rec p = some K) :
    LC.ok K (Sym.eval (.list recs) (.path (("[" ++ toString i ++ "]") :: p))) = true := by
  have hget : recs[i]? = some recs[i] := List.getElem?_eq_getElem hi
  obtain ⟨l, hl, hok⟩ := rec_typed rec recs[i] (hall _ (List.getElem_mem hi)) p K hp hK
  rw [Sym.eval, leafAt_list hget, hl]
  exact hok

/-! ### from leaf classes to NumPy kinds / JSON values -/

def LC.col : LC → Option ColKind
  | .u n => if n ≤ 7 then some .int else none
  | .f => some .float
  | .s => some .str
  | .b => some .bool
  | .d => some .datetime
  | _ => none

def LC.json : LC → Bool
  | .d => false
  | _ => true

theorem ok_col {K : LC} {l : Leaf} {k : ColKind} (h : LC.ok K l = true) (hc : K.col = some k) :
    colKind l = some k ∧ (k = .int → ∃ v, l = .int v ∧ inInt64 v = true) := by
  cases K with
  | u n =>
    simp only [LC.col] at hc
    split at hc
    next hn =>
      simp only [Option.some.injEq] at hc
      subst hc
      cases l with
      | int v =>
        simp only [LC.ok, Bool.and_eq_true, decide_eq_true_eq] at h
        refine ⟨rfl, fun _ => ⟨v, rfl, ?_⟩⟩
        have hpow : (256 : Int) ^ n ≤ 256 ^ 7 := by
          have h := Nat.pow_le_pow_right (n := 256) (by decide) hn
          have h2 : ((256 ^ n : Nat) : Int) ≤ ((256 ^ 7 : Nat) : Int) := Int.ofNat_le.2 h
          rw [Int.natCast_pow, Int.natCast_pow] at h2
          exact h2
        simp only [inInt64, Bool.and_eq_true, decide_eq_true_eq]
        have h7 : (256 : Int) ^ 7 = 72057594037927936 := by decide
        omega
      | _ => simp [LC.ok] at h
    · simp at hc
  | i => simp [LC.col] at hc
  | e => simp [LC.col] at hc
  | f =>
    simp only [LC.col, Option.some.injEq] at hc; subst hc
    cases l <;> simp [LC.ok] at h <;> exact ⟨rfl, fun e => by cases e⟩
  | s =>
    simp only [LC.col, Option.some.injEq] at hc; subst hc
    cases l <;> simp [LC.ok] at h <;> exact ⟨rfl, fun e => by cases e⟩
  | b =>
    simp only [LC.col, Option.some.injEq] at hc; subst hc
    cases l <;> simp [LC.ok] at h <;> exact ⟨rfl, fun e => by cases e⟩
  | d =>
    simp only [LC.col, Option.some.injEq] at hc; subst hc
    cases l <;> simp [LC.ok] at h <;> exact ⟨rfl, fun e => by cases e⟩

theorem ok_json (fr : FloatRepr) {K : LC} {l : Leaf} (h : LC.ok K l = true) (hj : K.json = true) :
    ∃ y, leafPy fr l = some y := by
  cases K <;> cases l <;> simp [LC.ok, LC.json] at h hj <;> exact ⟨_, rfl⟩

/-! ### closed checks on the documented trees -/

def isCstr : PVal Sym → Bool
  | .cstr _ => true
  | _ => false

def varCheck (rec : Con) (x : String × List String × KVs Sym) : Bool :=
  pathOK x.2.1 && ((lc rec x.2.1).bind LC.col).isSome && x.2.2.all (fun kv => isCstr kv.2)

def jsonAt (rec : Con) (p : List String) : Bool :=
  match lc rec p with
  | some K => K.json
  | none => false

def attrCheck (rec : Con) (x : String × List String) : Bool := pathOK x.2 && jsonAt rec x.2

def lineSpecT (rec : Con) (vars : List (String × List String × KVs Sym)) (attrs : List (String × List String)) : Bool :=
  vars.all (varCheck rec) && attrs.all (attrCheck rec)

def headerVal : PVal Sym → Bool
  | .leaf (.path p) => jsonAt Gen.imageFileDescriptor p
  | .list [.cint 0, .leaf (.path p)] => jsonAt Gen.imageFileDescriptor p
  | _ => false

theorem specT15 : lineSpecT Gen.processedDataRecord Spec.lineVars15 Spec.lineAttrs15 = true := by decide +kernel
theorem specT11 : lineSpecT Gen.signalDataRecord Spec.lineVars11 Spec.lineAttrs11 = true := by decide +kernel
theorem specTHeader : Spec.headerAttrs.all (fun kv => headerVal kv.2) = true := by decide +kernel

/-! ### convertibility of the pieces -/

def PyOK (fr : FloatRepr) (v : PVal Leaf) : Prop := ∃ a, pvalPy fr v = some a

theorem kvs_some (fr : FloatRepr) : ∀ (kvs : List (String × PVal Leaf)), (∀ kv ∈ kvs, PyOK fr kv.2) →
    ∃ r, pvalPy.kvs fr kvs = some r
  | [], _ => ⟨[], by rw [pvalPy.kvs]⟩
  | (k, v) :: rest, h => by
    obtain ⟨a, ha⟩ := h (k, v) (by simp)
    obtain ⟨r, hr⟩ := kvs_some fr rest (fun kv hkv => h kv (by simp [hkv]))
    exact ⟨(k, a) :: r, by rw [pvalPy.kvs, ha, hr]; rfl⟩

theorem pylist_some (fr : FloatRepr) : ∀ (xs : List (PVal Leaf)), (∀ x ∈ xs, PyOK fr x) →
    ∃ r, pvalPy.list fr xs = some r
  | [], _ => ⟨[], by rw [pvalPy.list]⟩
  | x :: rest, h => by
    obtain ⟨a, ha⟩ := h x (by simp)
    obtain ⟨r, hr⟩ := pylist_some fr rest (fun y hy => h y (by simp [hy]))
    exact ⟨a :: r, by rw [pvalPy.list, ha, hr]; rfl⟩

theorem pyok_list (fr : FloatRepr) (xs : List (PVal Leaf)) (h : ∀ x ∈ xs, PyOK fr x) : PyOK fr (.list xs) := by
  obtain ⟨r, hr⟩ := pylist_some fr xs h
  exact ⟨.list r, by rw [pvalPy, hr]; rfl⟩

theorem pyok_cstr (fr : FloatRepr) (s : String) : PyOK fr (.cstr s) := ⟨.str s, by rw [pvalPy]⟩
theorem pyok_cint (fr : FloatRepr) (i : Int) : PyOK fr (.cint i) := ⟨.int i, by rw [pvalPy]⟩
theorem pyok_leaf (fr : FloatRepr) (l : Leaf) (h : ∃ y, leafPy fr l = some y) : PyOK fr (.leaf l) := by
  obtain ⟨y, hy⟩ := h
  exact ⟨y, by rw [pvalPy, hy]⟩

theorem gvarC_some (fr : FloatRepr) (v : GVar Leaf) (h1 : ∃ a, columnArray fr v.data = some a)
    (h2 : ∀ x ∈ v.attrs, PyOK fr x.2) : ∃ c, gvarC fr v = some c := by
  obtain ⟨a, ha⟩ := h1
  obtain ⟨r, hr⟩ := kvs_some fr v.attrs h2
  exact ⟨_, by unfold gvarC; rw [ha, hr]; rfl⟩

theorem varsC_some (fr : FloatRepr) : ∀ (vars : List (String × GVar Leaf)), (∀ kv ∈ vars, ∃ c, gvarC fr kv.2 = some c) →
    ∃ vs, varsC fr vars = some vs
  | [], _ => ⟨[], by rw [varsC]⟩
  | (k, v) :: rest, h => by
    obtain ⟨c, hc⟩ := h (k, v) (by simp)
    obtain ⟨r, hr⟩ := varsC_some fr rest (fun kv hkv => h kv (by simp [hkv]))
    exact ⟨(k, .var c) :: r, by rw [varsC, hc, hr]; rfl⟩

theorem kvSet_all {α : Type} (P : PVal α → Prop) (kvs : KVs α) (k : String) (v : PVal α)
    (h : ∀ x ∈ kvs, P x.2) (hv : P v) : ∀ x ∈ kvSet kvs k v, P x.2 := by
  unfold kvSet
  split
  · intro x hx
    obtain ⟨y, hy, rfl⟩ := List.mem_map.1 hx
    split
    · exact hv
    · exact h y hy
  · intro x hx
    rcases List.mem_append.1 hx with hx | hx
    · exact h x hx
    · simp only [List.mem_singleton] at hx; subst hx; exact hv

theorem kvUnion_all {α : Type} (P : PVal α → Prop) (b : KVs α) : ∀ (a : KVs α), (∀ x ∈ a, P x.2) → (∀ x ∈ b, P x.2) →
    ∀ x ∈ kvUnion a b, P x.2 := by
  induction b with
  | nil => intro a ha _; exact ha
  | cons y ys ih =>
    intro a ha hb
    unfold kvUnion
    rw [List.foldl_cons]
    exact ih _ (kvSet_all P a y.1 y.2 ha (hb y (by simp))) (fun x hx => hb x (by simp [hx]))

theorem leafDateIn_list_mem : ∀ (xs : List (PVal Leaf)), leafDateIn.list xs = true → ∀ x ∈ xs, leafDateIn x = true := by
  intro xs
  induction xs with
  | nil => intro _ x hx; simp at hx
  | cons y ys ih =>
    intro h x hx
    rw [leafDateIn.list, Bool.and_eq_true] at h
    rcases List.mem_cons.1 hx with rfl | hx
    · exact h.1
    · exact ih h.2 x hx

/-- a per-line column of the documented tree is NumPy-convertible -/
theorem column_some (fr : FloatRepr) (rec : Con) (recs : List Val) (hall : ∀ r ∈ recs, IsLineRecord rec r)
    (hn : 0 < recs.length) (p : List String) (K : LC) (k : ColKind) (hp : pathOK p = true) (hK : lc rec p = some K)
    (hc : K.col = some k) (data : PVal Leaf)
    (hdata : data = (PVal.list ((List.range recs.length).map
      (fun i => PVal.leaf (Sym.path (("[" ++ toString i ++ "]") :: p))))).map (Sym.eval (.list recs)))
    (hd : leafDateIn data = true) : ∃ a, columnArray fr data = some a := by
  have e : data = .list (((List.range recs.length).map
      (fun i => Sym.eval (.list recs) (.path (("[" ++ toString i ++ "]") :: p)))).map PVal.leaf) := by
    rw [hdata, PVal.map, Natural.mapList_eq, List.map_map, List.map_map]
    congr 1
  rw [e] at hd ⊢
  have hty : ∀ l ∈ (List.range recs.length).map
      (fun i => Sym.eval (.list recs) (.path (("[" ++ toString i ++ "]") :: p))), LC.ok K l = true := by
    intro l hl
    obtain ⟨i, hi, rfl⟩ := List.mem_map.1 hl
    exact eval_typed rec recs hall i (List.mem_range.1 hi) p K hp hK
  apply columnArray_some fr _ k
  · intro hnil
    have := congrArg List.length hnil
    simp only [List.length_map, List.length_range, List.length_nil] at this
    omega
  · intro l hl; exact (ok_col (hty l hl) hc).1
  · intro hk l hl; exact (ok_col (hty l hl) hc).2 hk
  · intro hk l hl
    have hkind := (ok_col (hty l hl) hc).1
    rw [hk] at hkind
    rw [leafDateIn] at hd
    have hdl := leafDateIn_list_mem _ hd (.leaf l) (List.mem_map.2 ⟨l, hl, rfl⟩)
    cases l <;> simp [colKind] at hkind
    rename_i ns
    simp only [leafDateIn, Bool.and_eq_true, decide_eq_true_eq] at hdl
    refine ⟨ns, rfl, hdl.2, ?_⟩
    simp only [natValue]
    omega

theorem zero_idx : ("[" ++ toString 0 ++ "]" : String) = "[0]" := by decide

theorem header_val_ok (fr : FloatRepr) (header : Val) (ctx : Ctx) (bs : Bytes) (pos pos' : Nat)
    (hparse : parse Gen.imageFileDescriptor ctx bs pos = .ok (header, pos')) (v : PVal Sym) (hv : headerVal v = true) :
    PyOK fr (v.map (Sym.eval header)) := by
  have key : ∀ p, jsonAt Gen.imageFileDescriptor p = true → ∃ y, leafPy fr (Sym.eval header (.path p)) = some y := by
    intro p hj
    unfold jsonAt at hj
    split at hj
    next K hK =>
      obtain ⟨l, hl, hok⟩ := parse_typed _ ctx bs pos header pos' hparse p K hK
      rw [Sym.eval, hl]
      exact ok_json fr hok hj
    · cases hj
  unfold headerVal at hv
  split at hv
  · rw [Natural.map_leaf]
    exact pyok_leaf fr _ (key _ hv)
  · simp only [PVal.map, PVal.mapList]
    apply pyok_list
    intro x hx
    simp only [List.mem_cons, List.not_mem_nil, or_false] at hx
    rcases hx with rfl | rfl
    · exact pyok_cint fr 0
    · exact pyok_leaf fr _ (key _ hv)
  · cases hv

/-- the bridge is total on a group that is the documented tree of typed records -/
theorem bridge_total_of (fr : FloatRepr) (root name gname : String) (g : ImageGroup)
    (rec : Con) (vars0 : List (String × List String × KVs Sym)) (attrs0 : List (String × List String))
    (hT : lineSpecT rec vars0 attrs0 = true) (header : Val) (recs : List Val) (hn : 0 < recs.length)
    (hall : ∀ r ∈ recs, IsLineRecord rec r)
    (hhdr : ∃ ctx bs pos pos', parse Gen.imageFileDescriptor ctx bs pos = .ok (header, pos'))
    (hgrp : ∃ (vars : List (String × GVar Leaf)) (attrs : KVs Leaf) (hattrs : KVs Leaf),
      g.group = .mk vars [] (kvUnion attrs (kvUnion hattrs [("coordinates", .list (vars.map (fun kv => .cstr kv.1)))])) ∧
      (Grp.mk vars [] attrs).sortKeys = (Spec.lineTree vars0 attrs0 recs.length).map (Sym.eval (.list recs)) ∧
      sortByKey hattrs = (PVal.mapKvs (Sym.eval header) Spec.headerAttrs).filter (fun kv => headerAttrPresent header kv.1))
    (hd : DatesInRange g = true) : ∃ cg, bridge fr root name gname g = some cg := by
  obtain ⟨vars, attrs, hattrs, hg, hs, hh⟩ := hgrp
  obtain ⟨ctx, bs, pos, pos', hparse⟩ := hhdr
  simp only [lineSpecT, Bool.and_eq_true, List.all_eq_true] at hT
  obtain ⟨hTv, hTa⟩ := hT
  rw [Grp.sortKeys, Spec.lineTree, Grp.map] at hs
  injection hs with hv _ ha
  have hdv : ∀ kv ∈ vars, leafDateIn kv.2.data = true := by
    unfold DatesInRange at hd
    rw [hg] at hd
    simp only [List.all_eq_true] at hd
    exact hd
  -- the variables
  have hvars : ∀ kv ∈ vars, ∃ c, gvarC fr kv.2 = some c := by
    intro kv hkv
    have hm : (kv.1, kv.2.sortKeys) ∈ sortByKey (vars.map (fun kv => (kv.1, kv.2.sortKeys))) :=
      (sortByKey_perm _).mem_iff.2 (List.mem_map.2 ⟨kv, hkv, rfl⟩)
    rw [hv, List.map_map] at hm
    obtain ⟨x, hx, hxe⟩ := List.mem_map.1 hm
    obtain ⟨nm, p, ats⟩ := x
    simp only [Function.comp, Prod.mk.injEq] at hxe
    obtain ⟨_, hxe⟩ := hxe
    have hchk := hTv _ hx
    simp only [varCheck, Bool.and_eq_true, List.all_eq_true] at hchk
    obtain ⟨⟨hp, hcol⟩, hats⟩ := hchk
    have hdata : kv.2.data = (PVal.list ((List.range recs.length).map
        (fun i => PVal.leaf (Sym.path (("[" ++ toString i ++ "]") :: p))))).map (Sym.eval (.list recs)) := by
      have := congrArg GVar.data hxe
      exact this.symm
    have hattrs' : sortByKey kv.2.attrs = PVal.mapKvs (Sym.eval (.list recs)) ats := by
      have := congrArg GVar.attrs hxe
      exact this.symm
    cases hlc : lc rec p with
    | none => rw [hlc] at hcol; cases hcol
    | some K =>
      rw [hlc] at hcol
      cases hKc : K.col with
      | none => rw [Option.bind_some, hKc] at hcol; cases hcol
      | some k =>
        apply gvarC_some
        · exact column_some fr rec recs hall hn p K k hp hlc hKc kv.2.data hdata (hdv kv hkv)
        · intro x hx
          have hx' : x ∈ sortByKey kv.2.attrs := (sortByKey_perm _).mem_iff.2 hx
          rw [hattrs', Natural.mapKvs_eq] at hx'
          obtain ⟨y, hy, rfl⟩ := List.mem_map.1 hx'
          have := hats y hy
          cases hy2 : y.2 <;> rw [hy2] at this <;> simp only [isCstr] at this <;> try cases this
          simp only [PVal.map]
          exact pyok_cstr fr _
  -- the attributes
  have hat1 : ∀ x ∈ attrs, PyOK fr x.2 := by
    intro x hx
    have hx' : x ∈ sortByKey attrs := (sortByKey_perm _).mem_iff.2 hx
    rw [ha, Natural.mapKvs_eq, List.map_map] at hx'
    obtain ⟨y, hy, rfl⟩ := List.mem_map.1 hx'
    obtain ⟨nm, p⟩ := y
    have hchk := hTa _ hy
    simp only [attrCheck, Bool.and_eq_true] at hchk
    obtain ⟨hp, hj⟩ := hchk
    unfold jsonAt at hj
    simp only [Function.comp, Natural.map_leaf]
    apply pyok_leaf
    split at hj
    next K hK =>
      have := eval_typed rec recs hall 0 hn p K hp hK
      rw [zero_idx] at this
      exact ok_json fr this hj
    · cases hj
  have hat2 : ∀ x ∈ hattrs, PyOK fr x.2 := by
    intro x hx
    have hx' : x ∈ sortByKey hattrs := (sortByKey_perm _).mem_iff.2 hx
    rw [hh] at hx'
    have hx'' := (List.mem_filter.1 hx').1
    rw [Natural.mapKvs_eq] at hx''
    obtain ⟨y, hy, rfl⟩ := List.mem_map.1 hx''
    have := List.all_eq_true.1 specTHeader y hy
    exact header_val_ok fr header ctx bs pos pos' hparse y.2 this
  have hat3 : ∀ x ∈ [("coordinates", PVal.list (vars.map (fun kv => (PVal.cstr kv.1 : PVal Leaf))))], PyOK fr x.2 := by
    intro x hx
    simp only [List.mem_singleton] at hx
    subst hx
    apply pyok_list
    intro y hy
    obtain ⟨z, _, rfl⟩ := List.mem_map.1 hy
    exact pyok_cstr fr _
  obtain ⟨vs, hvs⟩ := varsC_some fr vars hvars
  obtain ⟨ats, hats⟩ := kvs_some fr _ (kvUnion_all (PyOK fr) _ attrs hat1 (kvUnion_all (PyOK fr) _ hattrs hat2 hat3))
  rw [bridge_eq fr root name gname g vars _ hg, hvs, hats]
  exact ⟨_, rfl⟩

mutual
theorem dateIn_ok : ∀ v : PVal Leaf, leafDateIn v = true → leafDateOK v = true
  | .leaf l, h => by
    cases l <;> simp only [leafDateOK]
    simp only [leafDateIn, Bool.and_eq_true] at h
    exact h.1
  | .list xs, h => by
    rw [leafDateIn] at h
    rw [leafDateOK]
    exact dateIn_ok_list xs h
  | .cstr _, _ => by simp only [leafDateOK]
  | .cint _, _ => by simp only [leafDateOK]
  | .dict _, _ => by simp only [leafDateOK]
  | .tup _, _ => by simp only [leafDateOK]
theorem dateIn_ok_list : ∀ xs : List (PVal Leaf), leafDateIn.list xs = true → leafDateOK.list xs = true
  | [], _ => by rw [leafDateOK.list]
  | x :: xs, h => by
    rw [leafDateIn.list, Bool.and_eq_true] at h
    rw [leafDateOK.list, dateIn_ok x h.1, dateIn_ok_list xs h.2]
    rfl
end

end BridgeT

theorem datesInRange_datesOK (g : ImageGroup) (h : DatesInRange g = true) : DatesOK g = true := by
  unfold DatesInRange at h
  unfold DatesOK
  cases hg : g.group with
  | mk vars groups attrs =>
    rw [hg] at h
    simp only [List.all_eq_true] at h ⊢
    intro kv hkv
    exact BridgeT.dateIn_ok _ (h kv hkv)

theorem bridge_total (fr : FloatRepr) (root : String) (file : Bytes) (name : String) (rpc : Nat)
    (gname : String) (g : ImageGroup)
    (h : openImageFile file name rpc = .ok (gname, g))
    (header : Val) (recs : List Val) (hr : readImageRecords file rpc = .ok (header, recs)) (hn : 0 < recs.length)
    (hk : (∀ r ∈ recs, IsLineRecord Gen.processedDataRecord r) ∨ (∀ r ∈ recs, IsLineRecord Gen.signalDataRecord r))
    (hd : DatesInRange g = true) :
    ∃ cg, bridge fr root name gname g = some cg := by
  have hhdr : ∃ ctx bs pos pos', parse Gen.imageFileDescriptor ctx bs pos = .ok (header, pos') := by
    obtain ⟨hp, _⟩ := ImgOpen.read_inv _ _ _ _ hr
    unfold parseRecord at hp
    cases hparse : parse Gen.imageFileDescriptor [] (List.take 720 file) 0 with
    | error e => rw [hparse] at hp; simp [Except.map] at hp
    | ok vp =>
      obtain ⟨v, p'⟩ := vp
      rw [hparse] at hp
      simp only [Except.map, Except.ok.injEq] at hp
      subst hp
      exact ⟨_, _, _, _, hparse⟩
  rcases hk with hk | hk
  · exact BridgeT.bridge_total_of fr root name gname g _ _ _ BridgeT.specT15 header recs hn hk hhdr
      (openImageFile_group_15 file name rpc gname g h header recs hr hn hk) hd
  · exact BridgeT.bridge_total_of fr root name gname g _ _ _ BridgeT.specT11 header recs hn hk hhdr
      (openImageFile_group_11 file name rpc gname g h header recs hr hn hk) hd

end Alos2

/-
`summary.txt`: line grammar, exact error reporting, line-ending and order independence.
-/
import Alos2.Model.Summary
import Alos2.Proofs.RxSound

namespace Alos2

def isAsciiLetter (c : Char) : Bool := ('A' ≤ c && c ≤ 'Z') || ('a' ≤ c && c ≤ 'z')

/-! ### errors are exact -/

private theorem bad_eq (lines : List (List Char)) :
    (((lines.map parseLine).zipIdx.filter (fun p => p.1.isNone)).map Prod.snd) =
    ((lines.zipIdx.filter (fun p => (parseLine p.1).isNone)).map Prod.snd) := by
  rw [List.zipIdx_map, List.filter_map, List.map_map]
  rfl

/-- **errors are exact**: parsing fails iff some line is malformed, and then reports exactly the (0-based) numbers of
    all malformed lines, in order -/
theorem errors_exact (content : List Char) :
    (∀ es, parseSummary content = .error es ↔
      (es ≠ [] ∧ es = ((splitLines content).zipIdx.filter (fun p => (parseLine p.1).isNone)).map Prod.snd)) := by
  intro es
  unfold parseSummary
  simp only [bad_eq]
  generalize ((splitLines content).zipIdx.filter (fun p => (parseLine p.1).isNone)).map Prod.snd = bad
  cases bad with
  | nil => simp
  | cons a t =>
    simp
    constructor
    · intro h; subst h; simp
    · intro h; exact h.2.symm

/-! ### line endings -/

private theorem go_crlf (rest cur : List Char) : splitLines.go ('\r' :: '\n' :: rest) cur = cur.reverse :: splitLines.go rest [] := by
  simp [splitLines.go]

private theorem go_lf (rest cur : List Char) : splitLines.go ('\n' :: rest) cur = cur.reverse :: splitLines.go rest [] := by
  rw [splitLines.go]
  · simp [isLineBreak]
  · intro r h; simp at h

private theorem go_plain (c : Char) (rest cur : List Char) (h : isLineBreak c = false) :
    splitLines.go (c :: rest) cur = splitLines.go rest (c :: cur) := by
  rw [splitLines.go]
  · simp [h]
  · intro r hh
    rw [hh] at h
    simp [isLineBreak] at h

private theorem go_nobreak (l rest cur : List Char) (h : ∀ c ∈ l, isLineBreak c = false) :
    splitLines.go (l ++ rest) cur = splitLines.go rest (l.reverse ++ cur) := by
  induction l generalizing cur with
  | nil => simp
  | cons c l ih =>
    simp only [List.cons_append]
    rw [go_plain c _ _ (h c (by simp)), ih _ (fun c hc => h c (by simp [hc]))]
    simp

/-- CRLF and LF line endings give the same lines -/
theorem crlf (lines : List (List Char)) (h : ∀ l ∈ lines, ∀ c ∈ l, isLineBreak c = false) (hne : ∀ l ∈ lines, l ≠ []) :
    splitLines (lines.flatMap (fun l => l ++ ['\r', '\n'])) = lines ∧ splitLines (lines.flatMap (fun l => l ++ ['\n'])) = lines := by
  unfold splitLines
  induction lines with
  | nil => simp [splitLines.go]
  | cons l ls ih =>
    have ih' := ih (fun l hl => h l (by simp [hl])) (fun l hl => hne l (by simp [hl]))
    have hl := h l (by simp)
    constructor
    · simp only [List.flatMap_cons, List.append_assoc, List.cons_append, List.nil_append]
      rw [go_nobreak _ _ _ hl, go_crlf, ih'.1]; simp
    · simp only [List.flatMap_cons, List.append_assoc, List.cons_append, List.nil_append]
      rw [go_nobreak _ _ _ hl, go_lf, ih'.2]; simp

/-! ### order independence -/

/-- lookup in the result of `parseSummary` -/
def sectionGet (secs : List (String × Section)) (s k : String) : Option String :=
  ((secs.find? (fun kv => kv.1 = s)).map Prod.snd).bind (fun es => (es.find? (fun kv => kv.1 = k)).map Prod.snd)

private theorem find_map_set_ne {β : Type} (l : List (String × β)) (k k' : String) (v : β) (hk : k ≠ k') :
    (l.map (fun kv => if kv.1 = k then (k, v) else kv)).find? (fun kv => kv.1 = k') = l.find? (fun kv => kv.1 = k') := by
  induction l with
  | nil => simp
  | cons a l ih =>
    by_cases h1 : a.1 = k
    · simp [ih, h1, hk]
    · simp [List.find?_cons, ih, h1]

private theorem find_map_set_eq {β : Type} (l : List (String × β)) (k : String) (v : β) (h : l.any (fun kv => kv.1 = k) = true) :
    (l.map (fun kv => if kv.1 = k then (k, v) else kv)).find? (fun kv => kv.1 = k) = some (k, v) := by
  induction l with
  | nil => simp at h
  | cons a l ih =>
    by_cases h1 : a.1 = k
    · simp [h1]
    · have : l.any (fun kv => kv.1 = k) = true := by simpa [h1] using h
      simp [ih this, h1]

private theorem assocSet_find {β : Type} (l : List (String × β)) (k k' : String) (v : β) :
    (assocSet l k v).find? (fun kv => kv.1 = k') =
      if k = k' then some (k, v) else l.find? (fun kv => kv.1 = k') := by
  unfold assocSet
  by_cases h : l.any (fun kv => kv.1 = k) = true
  · rw [if_pos h]
    by_cases h2 : k = k'
    · subst h2; rw [find_map_set_eq _ _ _ h]; simp
    · rw [find_map_set_ne _ _ _ _ h2]; simp [h2]
  · rw [if_neg h]
    by_cases h2 : k = k'
    · subst h2
      have : l.find? (fun kv => kv.1 = k) = none := by
        simp only [List.find?_eq_none]
        intro x hx hxk
        exact h (List.any_eq_true.mpr ⟨x, hx, hxk⟩)
      simp [List.find?_append, this]
    · simp [List.find?_append, h2]

private def stepE (acc : List (String × Section)) (e : String × String × String) : List (String × Section) :=
  let s := lowerStr e.1
  let cur := ((acc.find? (fun kv => kv.1 = s)).map Prod.snd).getD []
  assocSet acc s (assocSet cur e.2.1 e.2.2)

private theorem sectionGet_step (acc : List (String × Section)) (e : String × String × String) (s k : String) :
    sectionGet (stepE acc e) s k = if lowerStr e.1 = s ∧ e.2.1 = k then some e.2.2 else sectionGet acc s k := by
  unfold sectionGet stepE
  simp only [assocSet_find]
  by_cases h1 : lowerStr e.1 = s
  · subst h1
    by_cases h2 : e.2.1 = k
    · simp [assocSet_find, h2]
    · simp [assocSet_find, h2]
      cases List.find? (fun kv => kv.1 = lowerStr e.1) acc <;> simp
  · simp [h1]

private theorem sectionGet_foldl (es : List (String × String × String)) (acc : List (String × Section)) (s k v : String)
    (hd : (es.map (fun e => (lowerStr e.1, e.2.1))).Nodup) :
    sectionGet (es.foldl stepE acc) s k = some v ↔
      (∃ e ∈ es, lowerStr e.1 = s ∧ e.2.1 = k ∧ e.2.2 = v) ∨
      ((∀ e ∈ es, ¬ (lowerStr e.1 = s ∧ e.2.1 = k)) ∧ sectionGet acc s k = some v) := by
  induction es generalizing acc with
  | nil => simp
  | cons e es ih =>
    simp only [List.map_cons, List.nodup_cons] at hd
    simp only [List.foldl_cons]
    rw [ih _ hd.2, sectionGet_step]
    by_cases hm : lowerStr e.1 = s ∧ e.2.1 = k
    · have hno : ∀ e' ∈ es, ¬ (lowerStr e'.1 = s ∧ e'.2.1 = k) := by
        intro e' he' hm'
        apply hd.1
        simp only [List.mem_map]
        exact ⟨e', he', by rw [hm.1, hm.2, hm'.1, hm'.2]⟩
      simp only [hm, and_self, if_true, List.mem_cons]
      constructor
      · rintro (⟨e', he', h⟩ | ⟨_, h⟩)
        · exact absurd ⟨h.1, h.2.1⟩ (hno e' he')
        · left; exact ⟨e, Or.inl rfl, hm.1, hm.2, by simpa using h⟩
      · rintro (⟨e', he' | he', h⟩ | ⟨h, _⟩)
        · subst he'; right; exact ⟨hno, by simp [h.2.2]⟩
        · exact absurd ⟨h.1, h.2.1⟩ (hno e' he')
        · exact absurd hm (h e (Or.inl rfl))
    · simp only [hm, if_false, List.mem_cons]
      constructor
      · rintro (⟨e', he', h⟩ | ⟨h1, h2⟩)
        · left; exact ⟨e', Or.inr he', h⟩
        · right; refine ⟨?_, h2⟩
          rintro e' (rfl | he')
          · exact hm
          · exact h1 e' he'
      · rintro (⟨e', he' | he', h⟩ | ⟨h1, h2⟩)
        · subst he'; exact absurd ⟨h.1, h.2.1⟩ hm
        · left; exact ⟨e', he', h⟩
        · right; exact ⟨fun e' he' => h1 e' (Or.inr he'), h2⟩

/-- **order independence**: for entries with pairwise distinct (section, key), every permutation of the lines gives the
    same section maps (as finite maps) -/
theorem perm_invariant (entries entries' : List (String × String × String)) (hp : entries.Perm entries')
    (hd : (entries.map (fun e => (lowerStr e.1, e.2.1))).Nodup) (s k : String) :
    let build (es : List (String × String × String)) : List (String × Section) :=
      es.foldl (fun acc (sec, key, val) =>
        let s := lowerStr sec
        let cur := ((acc.find? (fun kv => kv.1 = s)).map Prod.snd).getD []
        assocSet acc s (assocSet cur key val)) []
    sectionGet (build entries) s k = sectionGet (build entries') s k := by
  intro build
  have hb : ∀ es, build es = es.foldl stepE [] := fun es => rfl
  have hd' : (entries'.map (fun e => (lowerStr e.1, e.2.1))).Nodup := (hp.map _).nodup_iff.mp hd
  have key : ∀ v, sectionGet (build entries) s k = some v ↔ sectionGet (build entries') s k = some v := by
    intro v
    rw [hb, hb, sectionGet_foldl _ _ _ _ _ hd, sectionGet_foldl _ _ _ _ _ hd']
    simp only [hp.mem_iff]
  cases h1 : sectionGet (build entries) s k with
  | some v => exact ((key v).mp h1).symm
  | none =>
    cases h2 : sectionGet (build entries') s k with
    | none => rfl
    | some v => rw [(key v).mpr h2] at h1; cases h1

/-! ### the line grammar: the matcher on the entry regex, with capture tracking -/

private theorem m_lit_cons (f c : Nat) (x : Char) (rest : List Char) (gs : Groups) (k) :
    Rx.m (f+1) (.lit c) (x :: rest) gs k = if x.toNat = c then k rest gs else none := by
  simp [Rx.m]
private theorem m_lit_nil (f c : Nat) (gs : Groups) (k) :
    Rx.m (f+1) (.lit c) [] gs k = none := by
  simp [Rx.m]
private theorem m_any_cons (f : Nat) (x : Char) (rest : List Char) (gs : Groups) (k) :
    Rx.m (f+1) .any (x :: rest) gs k = if x ≠ '\n' then k rest gs else none := by
  simp [Rx.m]
private theorem m_any_nil (f : Nat) (gs : Groups) (k) :
    Rx.m (f+1) .any [] gs k = none := by
  simp [Rx.m]
private theorem m_cls_cons (f : Nat) (items neg) (x : Char) (rest : List Char) (gs : Groups) (k) :
    Rx.m (f+1) (.cls items neg) (x :: rest) gs k = if inClass items neg x then k rest gs else none := by
  simp [Rx.m]
private theorem m_cls_nil (f : Nat) (items neg) (gs : Groups) (k) :
    Rx.m (f+1) (.cls items neg) [] gs k = none := by
  simp [Rx.m]
private theorem m_seq (f : Nat) (rs) (s : List Char) (gs : Groups) (k) :
    Rx.m (f+1) (.seq rs) s gs k = Rx.mSeq f rs s gs k := by
  simp [Rx.m]
private theorem m_group (f i : Nat) (r) (s : List Char) (gs : Groups) (k) :
    Rx.m (f+1) (.group i r) s gs k = Rx.m f r s gs (fun rest gs' => k rest (setGroup gs' i (s.take (s.length - rest.length)))) := by
  simp [Rx.m]
private theorem m_rep (f : Nat) (r mn mx g) (s : List Char) (gs : Groups) (k) :
    Rx.m (f+1) (.rep r mn mx g) s gs k = Rx.mRep f r mn mx g 0 s gs k := by
  simp [Rx.m]
private theorem mSeq_nil (f : Nat) (s : List Char) (gs : Groups) (k) :
    Rx.mSeq (f+1) [] s gs k = k s gs := by
  simp [Rx.mSeq]
private theorem mSeq_cons (f : Nat) (r rs) (s : List Char) (gs : Groups) (k) :
    Rx.mSeq (f+1) (r :: rs) s gs k = Rx.m f r s gs (fun rest gs' => Rx.mSeq f rs rest gs' k) := by
  simp [Rx.mSeq]

/-- explicit meaning of a lazy `.*?` followed by `k` -/
private def lazyScan (k : List Char → Option Groups) : List Char → Option Groups
  | [] => k []
  | x :: rest => match k (x :: rest) with
    | some g => some g
    | none => if x ≠ '\n' then lazyScan k rest else none

private theorem mRep_lazy_step (f : Nat) (r : Rx) (c : Nat) (s : List Char) (gs : Groups) (k) :
    Rx.mRep (f+1) r 0 none false c s gs k =
      match k s gs with
      | some g => some g
      | none => Rx.m f r s gs (fun rest gs' => if rest.length < s.length then Rx.mRep f r 0 none false (c+1) rest gs' k else none) := by
  rw [Rx.mRep]; cases k s gs <;> simp

private theorem mRep_lazy_any (s : List Char) : ∀ (f c : Nat) (gs : Groups) (k), s.length + 1 ≤ f →
    Rx.mRep f .any 0 none false c s gs k = lazyScan (fun t => k t gs) s := by
  induction s with
  | nil =>
    intro f c gs k hf
    obtain ⟨f, rfl⟩ : ∃ f', f = f' + 1 := ⟨f - 1, by omega⟩
    rw [mRep_lazy_step]
    simp only [lazyScan]
    cases f with
    | zero => cases k [] gs <;> simp [Rx.m]
    | succ f => cases k [] gs <;> simp [m_any_nil]
  | cons x rest ih =>
    intro f c gs k hf
    obtain ⟨f, rfl⟩ : ∃ f', f = f' + 2 := ⟨f - 2, by simp at hf; omega⟩
    rw [mRep_lazy_step, m_any_cons]
    simp only [lazyScan]
    rw [ih (f+1) (c+1) gs k (by simp at hf; omega)]
    simp

private theorem lazyScan_some_iff (k : List Char → Option Groups) (s : List Char) (g : Groups) :
    lazyScan k s = some g ↔
      ∃ a b, s = a ++ b ∧ '\n' ∉ a ∧ k b = some g ∧ ∀ a1 a2, a = a1 ++ a2 → a2 ≠ [] → k (a2 ++ b) = none := by
  induction s with
  | nil =>
    simp only [lazyScan]
    constructor
    · intro h
      exact ⟨[], [], rfl, by simp, h, by intro a1 a2 h1 h2; simp at h1; exact absurd h1.2 h2⟩
    · rintro ⟨a, b, h1, _, h3, _⟩
      have : b = [] := by
        cases b with
        | nil => rfl
        | cons y b => simp at h1
      rw [← this]; exact h3
  | cons x rest ih =>
    simp only [lazyScan]
    cases hk : k (x :: rest) with
    | some g' =>
      simp only
      constructor
      · intro h
        refine ⟨[], x :: rest, rfl, by simp, ?_, ?_⟩
        · rw [hk, h]
        · intro a1 a2 h1 h2; simp at h1; exact absurd h1.2 h2
      · rintro ⟨a, b, h1, _, h3, h4⟩
        cases a with
        | nil =>
          simp at h1; rw [← h1, hk] at h3; exact h3
        | cons y a =>
          have := h4 [] (y :: a) rfl (by simp)
          rw [← h1, hk] at this; cases this
    | none =>
      simp only
      by_cases hx : x ≠ '\n'
      · rw [if_pos hx, ih]
        constructor
        · rintro ⟨a, b, h1, h2, h3, h4⟩
          refine ⟨x :: a, b, by simp [h1], ?_, h3, ?_⟩
          · simp only [List.mem_cons, not_or]; exact ⟨fun h => hx h.symm, h2⟩
          · intro a1 a2 e1 e2
            cases a1 with
            | nil => simp at e1; rw [← e1, List.cons_append, ← h1]; exact hk
            | cons y a1 =>
              simp at e1
              exact h4 a1 a2 e1.2 e2
        · rintro ⟨a, b, h1, h2, h3, h4⟩
          cases a with
          | nil => simp at h1; rw [← h1, hk] at h3; cases h3
          | cons y a =>
            simp at h1
            refine ⟨a, b, h1.2, ?_, h3, ?_⟩
            · intro hm; exact h2 (List.mem_cons_of_mem _ hm)
            · intro a1 a2 e1 e2
              exact h4 (y :: a1) a2 (by simp [e1]) e2
      · rw [if_neg hx]
        simp only [ne_eq, Decidable.not_not] at hx
        constructor
        · intro h; cases h
        · rintro ⟨a, b, h1, h2, h3, h4⟩
          cases a with
          | nil => simp at h1; rw [← h1, hk] at h3; cases h3
          | cons y a =>
            simp at h1
            exfalso; apply h2; rw [← h1.1, hx]; simp

private def kEnd : List Char → Groups → Option Groups := fun rest gs => if rest.isEmpty then some gs else none

private theorem eq_none_of_forall {α} (o : Option α) (h : ∀ g, o ≠ some g) : o = none := by
  cases o with
  | none => rfl
  | some g => exact absurd rfl (h g)

private theorem tail1 (f c : Nat) (s : List Char) (gs g : Groups) (hf : 2 ≤ f) :
    Rx.mSeq f [.lit c] s gs kEnd = some g ↔ ∃ x, s = [x] ∧ x.toNat = c ∧ g = gs := by
  obtain ⟨f, rfl⟩ : ∃ f', f = f' + 2 := ⟨f - 2, by omega⟩
  rw [mSeq_cons]
  cases s with
  | nil => simp [m_lit_nil]
  | cons x rest =>
    rw [m_lit_cons, mSeq_nil]
    by_cases hx : x.toNat = c
    · rw [if_pos hx]
      cases rest with
      | nil => simp [kEnd, hx, eq_comm]
      | cons y r => simp [kEnd]
    · simp [hx]

private theorem take_append_sub (a b : List Char) : (a ++ b).take ((a ++ b).length - b.length) = a := by
  simp

private theorem tail2 (f i c : Nat) (s : List Char) (gs g : Groups) (hf : s.length + 5 ≤ f) :
    Rx.mSeq f [.group i (.rep .any 0 none false), .lit c] s gs kEnd = some g ↔
      ∃ v x, s = v ++ [x] ∧ x.toNat = c ∧ '\n' ∉ v ∧ g = setGroup gs i v := by
  obtain ⟨f, rfl⟩ : ∃ f', f = f' + 3 := ⟨f - 3, by omega⟩
  rw [mSeq_cons, m_group, m_rep, mRep_lazy_any _ _ _ _ _ (by omega), lazyScan_some_iff]
  constructor
  · rintro ⟨a, b, h1, h2, h3, h4⟩
    rw [tail1 _ _ _ _ _ (by omega)] at h3
    obtain ⟨x, hb, hx, hg⟩ := h3
    subst hb
    refine ⟨a, x, h1, hx, h2, ?_⟩
    rw [hg, h1, take_append_sub]
  · rintro ⟨v, x, h1, hx, h2, hg⟩
    refine ⟨v, [x], h1, h2, ?_, ?_⟩
    · rw [tail1 _ _ _ _ _ (by omega)]
      exact ⟨x, rfl, hx, by rw [hg, h1, take_append_sub]⟩
    · intro a1 a2 e1 e2
      apply eq_none_of_forall
      intro g' hg'
      rw [tail1 _ _ _ _ _ (by omega)] at hg'
      obtain ⟨y, hy, _⟩ := hg'
      cases a2 with
      | nil => exact e2 rfl
      | cons z a2 => simp at hy

/-- the shape `c2 c3 v c4` with `v` newline-free -/
private def Tail3Shape (c2 c3 c4 : Nat) (s v : List Char) : Prop :=
  ∃ x2 x3 x4, s = x2 :: x3 :: v ++ [x4] ∧ x2.toNat = c2 ∧ x3.toNat = c3 ∧ x4.toNat = c4 ∧ '\n' ∉ v

private theorem tail3 (f i c2 c3 c4 : Nat) (s : List Char) (gs g : Groups) (hf : s.length + 7 ≤ f) :
    Rx.mSeq f [.lit c2, .lit c3, .group i (.rep .any 0 none false), .lit c4] s gs kEnd = some g ↔
      ∃ v, Tail3Shape c2 c3 c4 s v ∧ g = setGroup gs i v := by
  obtain ⟨f, rfl⟩ : ∃ f', f = f' + 3 := ⟨f - 3, by omega⟩
  rw [mSeq_cons]
  cases s with
  | nil => simp [m_lit_nil, Tail3Shape]
  | cons x2 s =>
    rw [m_lit_cons, mSeq_cons]
    cases s with
    | nil =>
      simp only [m_lit_nil, Tail3Shape]
      constructor
      · intro h; split at h <;> cases h
      · rintro ⟨v, ⟨y2, y3, y4, h, _⟩, _⟩
        simp at h
    | cons x3 s =>
      rw [m_lit_cons]
      by_cases h2 : x2.toNat = c2
      · by_cases h3 : x3.toNat = c3
        · rw [if_pos h2, if_pos h3, tail2 _ _ _ _ _ _ (by simp at hf; omega)]
          constructor
          · rintro ⟨v, x, h1, hx, hv, hg⟩
            exact ⟨v, ⟨x2, x3, x, by simp [h1], h2, h3, hx, hv⟩, hg⟩
          · rintro ⟨v, ⟨y2, y3, y4, h, e2, e3, e4, hv⟩, hg⟩
            simp at h
            exact ⟨v, y4, h.2.2, e4, hv, hg⟩
        · rw [if_pos h2, if_neg h3]
          constructor
          · intro h; cases h
          · rintro ⟨v, ⟨y2, y3, y4, h, e2, e3, e4, hv⟩, hg⟩
            simp at h
            exact absurd (h.2.1 ▸ e3) h3
      · rw [if_neg h2]
        constructor
        · intro h; cases h
        · rintro ⟨v, ⟨y2, y3, y4, h, e2, e3, e4, hv⟩, hg⟩
          simp at h
          exact absurd (h.1 ▸ e2) h2

private theorem tail4 (f j i c2 c3 c4 : Nat) (s : List Char) (gs g : Groups) (hf : s.length + 8 ≤ f) :
    Rx.mSeq f [.group j (.rep .any 0 none false), .lit c2, .lit c3, .group i (.rep .any 0 none false), .lit c4] s gs kEnd = some g ↔
      ∃ key rest v, s = key ++ rest ∧ '\n' ∉ key ∧ Tail3Shape c2 c3 c4 rest v ∧
        (∀ a1 a2, key = a1 ++ a2 → a2 ≠ [] → ¬ ∃ w, Tail3Shape c2 c3 c4 (a2 ++ rest) w) ∧
        g = setGroup (setGroup gs j key) i v := by
  obtain ⟨f, rfl⟩ : ∃ f', f = f' + 3 := ⟨f - 3, by omega⟩
  rw [mSeq_cons, m_group, m_rep, mRep_lazy_any _ _ _ _ _ (by omega), lazyScan_some_iff]
  constructor
  · rintro ⟨a, b, h1, h2, h3, h4⟩
    have hlb : b.length ≤ s.length := by rw [h1]; simp
    rw [tail3 _ _ _ _ _ _ _ _ (by omega)] at h3
    obtain ⟨v, hv, hg⟩ := h3
    refine ⟨a, b, v, h1, h2, hv, ?_, ?_⟩
    · intro a1 a2 e1 e2 ⟨w, hw⟩
      have hl : (a2 ++ b).length ≤ s.length := by rw [h1, e1]; simp
      have := h4 a1 a2 e1 e2
      have h5 := (tail3 (f+2) i c2 c3 c4 (a2 ++ b) (setGroup gs j (s.take (s.length - (a2 ++ b).length))) _ (by omega)).mpr ⟨w, hw, rfl⟩
      rw [this] at h5; cases h5
    · rw [hg, h1, take_append_sub]
  · rintro ⟨key, rest, v, h1, h2, h3, h4, hg⟩
    have hlb : rest.length ≤ s.length := by rw [h1]; simp
    refine ⟨key, rest, h1, h2, ?_, ?_⟩
    · rw [tail3 _ _ _ _ _ _ _ _ (by omega)]
      exact ⟨v, h3, by rw [hg, h1, take_append_sub]⟩
    · intro a1 a2 e1 e2
      have hl : (a2 ++ rest).length ≤ s.length := by rw [h1, e1]; simp
      apply eq_none_of_forall
      intro g' hg'
      rw [tail3 _ _ _ _ _ _ _ _ (by omega)] at hg'
      obtain ⟨w, hw, _⟩ := hg'
      exact h4 a1 a2 e1 e2 ⟨w, hw⟩

private theorem tail5 (f c1 j i c2 c3 c4 : Nat) (s : List Char) (gs g : Groups) (hf : s.length + 9 ≤ f) :
    Rx.mSeq f [.lit c1, .group j (.rep .any 0 none false), .lit c2, .lit c3, .group i (.rep .any 0 none false), .lit c4] s gs kEnd = some g ↔
      ∃ x1 key rest v, s = x1 :: key ++ rest ∧ x1.toNat = c1 ∧ '\n' ∉ key ∧ Tail3Shape c2 c3 c4 rest v ∧
        (∀ a1 a2, key = a1 ++ a2 → a2 ≠ [] → ¬ ∃ w, Tail3Shape c2 c3 c4 (a2 ++ rest) w) ∧
        g = setGroup (setGroup gs j key) i v := by
  obtain ⟨f, rfl⟩ : ∃ f', f = f' + 1 := ⟨f - 1, by omega⟩
  rw [mSeq_cons]
  cases s with
  | nil =>
    cases f with
    | zero => simp at hf
    | succ f => simp [m_lit_nil]
  | cons x s =>
    obtain ⟨f, rfl⟩ : ∃ f', f = f' + 1 := ⟨f - 1, by omega⟩
    rw [m_lit_cons]
    by_cases hx : x.toNat = c1
    · rw [if_pos hx, tail4 _ _ _ _ _ _ _ _ _ (by simp at hf; omega)]
      constructor
      · rintro ⟨key, rest, v, h1, h⟩
        exact ⟨x, key, rest, v, by simp [h1], hx, h⟩
      · rintro ⟨x1, key, rest, v, h1, _, h⟩
        simp at h1
        exact ⟨key, rest, v, h1.2, h⟩
    · rw [if_neg hx]
      constructor
      · intro h; cases h
      · rintro ⟨x1, key, rest, v, h1, h2, h⟩
        simp at h1
        exact absurd (h1.1 ▸ h2) hx

private theorem mRep_more_step (f : Nat) (r : Rx) (mn m c : Nat) (s : List Char) (gs : Groups) (k) (h1 : c < mn) (h2 : c < m) :
    Rx.mRep (f+1) r mn (some m) true c s gs k =
      Rx.m f r s gs (fun rest gs' => if rest.length < s.length then Rx.mRep f r mn (some m) true (c+1) rest gs' k else none) := by
  rw [Rx.mRep]; simp [h1, h2]

private theorem mRep_done (f : Nat) (r : Rx) (mn m : Nat) (s : List Char) (gs : Groups) (k) (h1 : mn ≤ m) :
    Rx.mRep (f+1) r mn (some m) true m s gs k = k s gs := by
  rw [Rx.mRep]; simp [Nat.not_lt.mpr h1]

private theorem head3 (f h : Nat) (items neg) (s : List Char) (gs g : Groups) (K) (hf : 6 ≤ f) :
    Rx.m f (.group h (.rep (.cls items neg) 3 (some 3) true)) s gs K = some g ↔
      ∃ a b c rest, s = a :: b :: c :: rest ∧ inClass items neg a = true ∧ inClass items neg b = true ∧
        inClass items neg c = true ∧ K rest (setGroup gs h [a, b, c]) = some g := by
  obtain ⟨f, rfl⟩ : ∃ f', f = f' + 6 := ⟨f - 6, by omega⟩
  rw [m_group, m_rep, mRep_more_step _ _ _ _ _ _ _ _ (by omega) (by omega)]
  cases s with
  | nil => simp [m_cls_nil]
  | cons a s =>
    rw [m_cls_cons]
    by_cases ha : inClass items neg a = true
    · rw [if_pos ha, if_pos (by simp), mRep_more_step _ _ _ _ _ _ _ _ (by omega) (by omega)]
      cases s with
      | nil => simp [m_cls_nil]
      | cons b s =>
        rw [m_cls_cons]
        by_cases hb : inClass items neg b = true
        · rw [if_pos hb, if_pos (by simp), mRep_more_step _ _ _ _ _ _ _ _ (by omega) (by omega)]
          cases s with
          | nil => simp [m_cls_nil]
          | cons c s =>
            rw [m_cls_cons]
            by_cases hc : inClass items neg c = true
            · rw [if_pos hc, if_pos (by simp), mRep_done _ _ _ _ _ _ _ (by omega)]
              have ht : (a :: b :: c :: s).take ((a :: b :: c :: s).length - s.length) = [a, b, c] := by
                have : (a :: b :: c :: s).length - s.length = 3 := by simp only [List.length_cons]; omega
                rw [this]; rfl
              rw [ht]
              constructor
              · intro hK; exact ⟨a, b, c, s, rfl, ha, hb, hc, hK⟩
              · rintro ⟨a', b', c', r', e, _, _, _, hK⟩
                simp at e
                obtain ⟨rfl, rfl, rfl, rfl⟩ := e
                exact hK
            · rw [if_neg hc]
              constructor
              · intro hh; cases hh
              · rintro ⟨a', b', c', r', e, _, _, h3, _⟩
                simp at e
                obtain ⟨rfl, rfl, rfl, rfl⟩ := e
                exact absurd h3 hc
        · rw [if_neg hb]
          constructor
          · intro hh; cases hh
          · rintro ⟨a', b', c', r', e, _, h2, _, _⟩
            simp at e
            obtain ⟨rfl, rfl, rfl⟩ := e
            exact absurd h2 hb
    · rw [if_neg ha]
      constructor
      · intro hh; cases hh
      · rintro ⟨a', b', c', r', e, h1, _, _, _⟩
        simp at e
        obtain ⟨rfl, rfl⟩ := e
        exact absurd h1 ha

private def entryShape (items : List (Nat × Nat)) (h c1 j c2 c3 i c4 : Nat) : Rx :=
  .seq [.group h (.rep (.cls items false) 3 (some 3) true), .lit c1, .group j (.rep .any 0 none false),
        .lit c2, .lit c3, .group i (.rep .any 0 none false), .lit c4]

private theorem entryShape_size (items h c1 j c2 c3 i c4) : (entryShape items h c1 j c2 c3 i c4).size = 15 := by
  simp [entryShape, Rx.size, Rx.sizeList]

private theorem entry_fullmatch_iff (items h c1 j c2 c3 i c4) (line : List Char) (g : Groups) :
    (entryShape items h c1 j c2 c3 i c4).fullmatch line = some g ↔
      ∃ a b c x1 key rest v, line = a :: b :: c :: x1 :: key ++ rest ∧
        inClass items false a = true ∧ inClass items false b = true ∧ inClass items false c = true ∧
        x1.toNat = c1 ∧ '\n' ∉ key ∧ Tail3Shape c2 c3 c4 rest v ∧
        (∀ a1 a2, key = a1 ++ a2 → a2 ≠ [] → ¬ ∃ w, Tail3Shape c2 c3 c4 (a2 ++ rest) w) ∧
        g = setGroup (setGroup (setGroup [] h [a, b, c]) j key) i v := by
  unfold Rx.fullmatch Rx.budget
  rw [entryShape_size]
  obtain ⟨F, hF, hF2⟩ : ∃ F, (15 + 2) * (line.length + 2) * 2 = F + 2 ∧ line.length + 20 ≤ F :=
    ⟨(15 + 2) * (line.length + 2) * 2 - 2, by omega, by omega⟩
  rw [hF]
  show Rx.m (F + 2) (entryShape items h c1 j c2 c3 i c4) line [] kEnd = some g ↔ _
  unfold entryShape
  rw [m_seq, mSeq_cons, head3 _ _ _ _ _ _ _ _ (by omega)]
  constructor
  · rintro ⟨a, b, c, rest, e, ha, hb, hc, hK⟩
    have hl : rest.length ≤ line.length := by rw [e]; simp; omega
    rw [tail5 _ _ _ _ _ _ _ _ _ _ (by omega)] at hK
    obtain ⟨x1, key, rest', v, e', hx, h⟩ := hK
    exact ⟨a, b, c, x1, key, rest', v, by rw [e, e']; simp, ha, hb, hc, hx, h⟩
  · rintro ⟨a, b, c, x1, key, rest, v, e, ha, hb, hc, hx, h⟩
    refine ⟨a, b, c, x1 :: key ++ rest, by rw [e]; simp, ha, hb, hc, ?_⟩
    have hl : (x1 :: key ++ rest).length ≤ line.length := by rw [e]; simp
    rw [tail5 _ _ _ _ _ _ _ _ _ _ (by omega)]
    exact ⟨x1, key, rest, v, rfl, hx, h⟩

private theorem inClass_letter (c : Char) : inClass [(65, 90), (97, 122)] false c = isAsciiLetter c := by
  simp only [inClass, isAsciiLetter, List.any_cons, List.any_nil, Bool.or_false, Char.le_def, UInt32.le_iff_toNat_le, Char.toNat]
  simp

private theorem char_eq_of_toNat (x : Char) (n : Nat) (h : x.toNat = n) : x = Char.ofNat n := by
  rw [← h, Char.ofNat_toNat]

private theorem tail3Shape_iff (s w : List Char) :
    Tail3Shape 61 34 34 s w ↔ (s = '=' :: '"' :: w ++ ['"'] ∧ '\n' ∉ w) := by
  constructor
  · rintro ⟨x2, x3, x4, e, e2, e3, e4, hw⟩
    rw [char_eq_of_toNat _ _ e2, char_eq_of_toNat _ _ e3, char_eq_of_toNat _ _ e4] at e
    exact ⟨e, hw⟩
  · rintro ⟨e, hw⟩
    exact ⟨'=', '"', '"', e, rfl, rfl, rfl, hw⟩

private theorem parseLine_of_fullmatch (line : List Char) (gs : Groups) (A K V : List Char)
    (hm : (entryShape [(65, 90), (97, 122)] 1 95 2 61 34 3 34).fullmatch line = some gs)
    (g1 : groupText gs 1 = some A) (g2 : groupText gs 2 = some K) (g3 : groupText gs 3 = some V) :
    parseLine line = some (String.ofList A, String.ofList K, String.ofList V) := by
  have h1 : groupIdx Gen.entryReGroups "section" = 1 := by decide
  have h2 : groupIdx Gen.entryReGroups "keyword" = 2 := by decide
  have h3 : groupIdx Gen.entryReGroups "value" = 3 := by decide
  have hre : Gen.entryRe = entryShape [(65, 90), (97, 122)] 1 95 2 61 34 3 34 := rfl
  unfold parseLine
  rw [h1, h2, h3, hre, hm]
  simp only [g1, g2, g3]

private theorem parseLine_inv (line : List Char) (sec key val : String) (h : parseLine line = some (sec, key, val)) :
    ∃ gs A K V, (entryShape [(65, 90), (97, 122)] 1 95 2 61 34 3 34).fullmatch line = some gs ∧
      groupText gs 1 = some A ∧ groupText gs 2 = some K ∧ groupText gs 3 = some V ∧
      sec = String.ofList A ∧ key = String.ofList K ∧ val = String.ofList V := by
  have h1 : groupIdx Gen.entryReGroups "section" = 1 := by decide
  have h2 : groupIdx Gen.entryReGroups "keyword" = 2 := by decide
  have h3 : groupIdx Gen.entryReGroups "value" = 3 := by decide
  have hre : Gen.entryRe = entryShape [(65, 90), (97, 122)] 1 95 2 61 34 3 34 := rfl
  unfold parseLine at h
  rw [h1, h2, h3, hre] at h
  split at h
  · cases h
  · rename_i gs hm
    split at h
    · rename_i A K V g1 g2 g3
      simp only [Option.some.injEq, Prod.mk.injEq] at h
      exact ⟨gs, A, K, V, hm, g1, g2, g3, h.1.symm, h.2.1.symm, h.2.2.symm⟩
    · cases h

private theorem parseLine_some_imp (line : List Char) (sec key val : String) (h : parseLine line = some (sec, key, val)) :
      ∃ a b c k v, line = a :: b :: c :: '_' :: k ++ ('=' :: '"' :: v ++ ['"']) ∧
        isAsciiLetter a = true ∧ isAsciiLetter b = true ∧ isAsciiLetter c = true ∧ '\n' ∉ k ∧ '\n' ∉ v ∧
        sec = String.ofList [a, b, c] ∧ key = String.ofList k ∧ val = String.ofList v := by
  obtain ⟨gs, A, K, V, hm, g1', g2', g3', hs, hk', hv'⟩ := parseLine_inv line sec key val h
  · obtain ⟨a, b, c, x1, k, rest, v, e, ha, hb, hc, hx, hk, hr, hmin, hg⟩ := (entry_fullmatch_iff _ _ _ _ _ _ _ _ line gs).mp hm
    rw [inClass_letter] at ha hb hc
    have hx'' : x1 = '_' := char_eq_of_toNat _ _ hx
    subst hx''
    rw [tail3Shape_iff] at hr
    have g1 : groupText gs 1 = some [a, b, c] := by rw [hg]; simp [groupText, setGroup]
    have g2 : groupText gs 2 = some k := by rw [hg]; simp [groupText, setGroup]
    have g3 : groupText gs 3 = some v := by rw [hg]; simp [groupText, setGroup]
    rw [g1] at g1'; rw [g2] at g2'; rw [g3] at g3'
    simp only [Option.some.injEq] at g1' g2' g3'
    subst g1' g2' g3'
    refine ⟨a, b, c, k, v, ?_, ha, hb, hc, hk, hr.2, hs, hk', hv'⟩
    rw [e, hr.1]

private theorem parseLine_of_shape (a b c : Char) (k v : List Char)
    (ha : isAsciiLetter a = true) (hb : isAsciiLetter b = true) (hc : isAsciiLetter c = true)
    (hk : '\n' ∉ k) (hv : '\n' ∉ v)
    (hmin : ∀ a1 a2, k = a1 ++ a2 → a2 ≠ [] → ¬ ∃ w, a2 ++ ('=' :: '"' :: v ++ ['"']) = '=' :: '"' :: w ++ ['"']) :
    parseLine (a :: b :: c :: '_' :: k ++ ('=' :: '"' :: v ++ ['"'])) =
      some (String.ofList [a, b, c], String.ofList k, String.ofList v) := by
  have hm : (entryShape [(65, 90), (97, 122)] 1 95 2 61 34 3 34).fullmatch
      (a :: b :: c :: '_' :: k ++ ('=' :: '"' :: v ++ ['"'])) = some _ :=
    (entry_fullmatch_iff _ _ _ _ _ _ _ _ _ _).mpr
      ⟨a, b, c, '_', k, _, v, rfl, by rw [inClass_letter]; exact ha, by rw [inClass_letter]; exact hb,
        by rw [inClass_letter]; exact hc, rfl, hk, (tail3Shape_iff _ _).mpr ⟨rfl, hv⟩,
        fun a1 a2 e1 e2 ⟨w, hw⟩ => hmin a1 a2 e1 e2 ⟨w, ((tail3Shape_iff _ _).mp hw).1⟩, rfl⟩
  exact parseLine_of_fullmatch _ _ _ _ _ hm (by simp [groupText, setGroup]) (by simp [groupText, setGroup])
    (by simp [groupText, setGroup])

/-- a parsed line has the shape `Sec_Key="value"` with a 3-letter section (the value may contain `=` and `"`) -/
theorem parseLine_sound (line : List Char) (sec key val : String) (h : parseLine line = some (sec, key, val)) :
    line = sec.toList ++ ['_'] ++ key.toList ++ ['=', '"'] ++ val.toList ++ ['"'] ∧
    sec.toList.length = 3 ∧ sec.toList.all isAsciiLetter = true ∧ '\n' ∉ key.toList ∧ '\n' ∉ val.toList := by
  obtain ⟨a, b, c, k, v, e, ha, hb, hc, hk, hv, rfl, rfl, rfl⟩ := parseLine_some_imp line sec key val h
  simp only [String.toList_ofList]
  refine ⟨?_, rfl, ?_, hk, hv⟩
  · rw [e]; simp
  · simp [ha, hb, hc]

/-- a line `Sec_Key="value"` whose key contains neither `="` nor a newline, and whose value contains no newline, parses
    to exactly those parts (the value may contain `=` and `"`) -/
theorem parseLine_complete (sec key val : List Char)
    (hs : sec.length = 3 ∧ sec.all isAsciiLetter = true)
    (hk : '\n' ∉ key ∧ ∀ a b, key ≠ a ++ ['=', '"'] ++ b)
    (hv : '\n' ∉ val) :
    parseLine (sec ++ ['_'] ++ key ++ ['=', '"'] ++ val ++ ['"']) =
      some (String.ofList sec, String.ofList key, String.ofList val) := by
  obtain ⟨hlen, hall⟩ := hs
  match sec, hlen, hall with
  | [a, b, c], _, hall =>
    simp only [List.all_cons, List.all_nil, Bool.and_true, Bool.and_eq_true] at hall
    have e : [a, b, c] ++ ['_'] ++ key ++ ['=', '"'] ++ val ++ ['"'] =
        a :: b :: c :: '_' :: key ++ ('=' :: '"' :: val ++ ['"']) := by simp
    rw [e]
    apply parseLine_of_shape a b c key val hall.1 hall.2.1 hall.2.2 hk.1 hv
    rintro a1 a2 e1 e2 ⟨w, hw⟩
    cases a2 with
    | nil => exact e2 rfl
    | cons y a2 =>
      cases a2 with
      | nil =>
        simp only [List.cons_append, List.nil_append, List.cons.injEq] at hw
        exact absurd hw.2.1 (by decide)
      | cons z a2 =>
        simp only [List.cons_append, List.cons.injEq] at hw
        apply hk.2 a1 a2
        rw [e1, hw.1, hw.2.1]; simp

end Alos2

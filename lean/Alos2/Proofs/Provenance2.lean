/-
Provenance theorems for the platform-position and map-projection records: for EVERY file content that parses, the
group built by the transformer is the frozen documented tree (`Spec.platformPosition`, `Spec.mapProjection d`) with
every symbolic leaf evaluated on the parsed record.  The map-projection tree depends on the content only through the
class `d` of the designator text (`Desig`).
-/
import Alos2.Proofs.Provenance
import Alos2.Proofs.Natural2

namespace Alos2

/-- the designator oracle determined by the parsed record -/
def rhoD (v : Val) : Sym → Desig := fun s => realLeafFns2.desig (s.eval v)

theorem compat2_rho (v : Val) : Compat2 (Sym.eval v) (symLeafFns2 (Prov.rhoOf v) (rhoD v)) realLeafFns2 where
  toCompat := Prov.compat_rhoOf v
  compositeDatetime := fun a b => by simp [symLeafFns2, Sym.eval]
  attitudeTime := fun a b => by simp [symLeafFns2, Sym.eval]
  desig := fun a => by simp [symLeafFns2, rhoD]

namespace Prov2

/-! ### the pipelines depend on the leaf functions only through the ones they name -/

theorem transformCompositeDatetime_congr {α : Type} (lf lf2 : LeafFns2 α)
    (h2 : lf.compositeDatetime = lf2.compositeDatetime) :
    transformCompositeDatetime lf = transformCompositeDatetime lf2 := by
  funext x
  unfold transformCompositeDatetime
  rw [h2]

theorem transformPlatformPosition_congr {α : Type} (lf lf2 : LeafFns2 α)
    (h1 : lf.toBool = lf2.toBool) (h2 : lf.compositeDatetime = lf2.compositeDatetime) (x : PVal α) :
    transformPlatformPosition lf x = transformPlatformPosition lf2 x := by
  unfold transformPlatformPosition
  rw [transformCompositeDatetime_congr lf lf2 h2, h1]

theorem filterMapProjection_congr {α : Type} (lf lf2 : LeafFns2 α) (kvs : KVs α)
    (h : ∀ a, kvGet kvs "map_projection_designator" = some (.leaf a) → lf.desig a = lf2.desig a) :
    filterMapProjection lf kvs = filterMapProjection lf2 kvs := by
  unfold filterMapProjection
  split
  · rfl
  · rename_i a ha
    rw [h a ha]
  · rfl

theorem transformMapProjection_congr {α : Type} (lf lf2 : LeafFns2 α) (x : PVal α)
    (h : ∀ kvs a, removeSpares x = .dict kvs →
      kvGet (dissoc Gen.Config.map_projection__transform_map_projection.ignored kvs) "map_projection_designator"
        = some (.leaf a) → lf.desig a = lf2.desig a) :
    transformMapProjection lf x = transformMapProjection lf2 x := by
  unfold transformMapProjection
  split
  · rename_i kvs hk
    rw [filterMapProjection_congr lf lf2 _ (fun a ha => h kvs a hk ha)]
  · rfl

/-- the variant of `Prov.static_provenance` with an `Option`-valued documented tree and a given skeleton -/
theorem static_provenance_opt (c : Con) (Treal : PVal Leaf → Option (Grp Leaf)) (Tsym : PVal Sym → Option (Grp Sym))
    (spec : Option (Grp Sym)) (v : Val) (s : PVal Sym) (hs : Con.skel c [] = some s)
    (hnat : Treal (s.map (Sym.eval v)) = (Tsym s).map (Grp.map (Sym.eval v)))
    (hsyn : Prov.ogbeq ((Con.skel c []).bind (fun s => (Tsym s).map Grp.sortKeys)) spec = true)
    (ctx : Ctx) (bs : Bytes) (pos : Nat) (pos' : Nat)
    (h : parse c ctx bs pos = .ok (v, pos')) :
    (Treal v.toPVal).map Grp.sortKeys = spec.map (Grp.map (Sym.eval v)) := by
  have hsyn' := Prov.ogbeq_sound _ _ hsyn
  rw [hs, Option.bind_some] at hsyn'
  rw [parse_eq_skel c s hs ctx bs pos v pos' h, hnat, Option.map_map]
  have : (Grp.sortKeys ∘ Grp.map (Sym.eval v)) = (Grp.map (Sym.eval v) ∘ Grp.sortKeys) := by
    funext g; simp [Prov.sortKeys_map]
  rw [this, ← Option.map_map, hsyn']

/-! ### closed computations on syntax -/

/-- the symbolic pipeline with the constant designator oracle `d` yields the documented tree for `d` -/
def mpCheck (d : Desig) : Bool :=
  Prov.ogbeq ((Con.skel Gen.mapProjectionRecord []).bind (fun s =>
    (transformMapProjection (symLeafFns2 allPresent (fun _ => d)) s).map Grp.sortKeys)) (Spec.mapProjection d)

set_option maxRecDepth 100000 in
theorem mpCheck_utm : mpCheck .utm = true := by decide +kernel
set_option maxRecDepth 100000 in
theorem mpCheck_ups : mpCheck .ups = true := by decide +kernel
set_option maxRecDepth 100000 in
theorem mpCheck_nat : mpCheck .nat = true := by decide +kernel
set_option maxRecDepth 100000 in
theorem mpCheck_other : mpCheck .other = true := by decide +kernel
set_option maxRecDepth 100000 in
theorem mpCheck_bad : mpCheck .bad = true := by decide +kernel

theorem mpCheck_all : ∀ d, mpCheck d = true
  | .utm => mpCheck_utm
  | .ups => mpCheck_ups
  | .nat => mpCheck_nat
  | .other => mpCheck_other
  | .bad => mpCheck_bad

/-- the only leaf the designator oracle is asked about is the record field `map_projection_designator` -/
def desigCheck : Bool :=
  match Con.skel Gen.mapProjectionRecord [] with
  | some s =>
    match removeSpares s with
    | .dict kvs =>
      match kvGet (dissoc Gen.Config.map_projection__transform_map_projection.ignored kvs) "map_projection_designator" with
      | some (.leaf (.path p)) => decide (p = ["map_projection_designator"])
      | _ => false
    | _ => false
  | none => false

set_option maxRecDepth 100000 in
theorem desigCheck_true : desigCheck = true := by decide +kernel

theorem desig_at : ∃ s kvs, Con.skel Gen.mapProjectionRecord [] = some s ∧ removeSpares s = .dict kvs ∧
    kvGet (dissoc Gen.Config.map_projection__transform_map_projection.ignored kvs) "map_projection_designator" =
      some (.leaf (.path ["map_projection_designator"])) := by
  have hc := desigCheck_true
  unfold desigCheck at hc
  split at hc
  next s hs =>
    split at hc
    next kvs hk =>
      split at hc
      next p hp =>
        simp only [decide_eq_true_eq] at hc
        subst hc
        exact ⟨s, kvs, hs, hk, hp⟩
      next => simp at hc
    next => simp at hc
  next => simp at hc

end Prov2

set_option maxRecDepth 100000 in
theorem platform_position_provenance (ctx : Ctx) (bs : Bytes) (pos : Nat) (v : Val) (pos' : Nat)
    (h : parse Gen.platformPositionRecord ctx bs pos = .ok (v, pos')) :
    (transformPlatformPosition realLeafFns2 v.toPVal).map Grp.sortKeys = some (Spec.platformPosition.map (Sym.eval v)) := by
  refine Prov.static_provenance Gen.platformPositionRecord _
    (transformPlatformPosition (symLeafFns2 allPresent (fun _ => .bad))) _
    ?_ (by decide +kernel) ctx bs pos v pos' h
  intro v s
  rw [transformPlatformPosition_natural _ _ _ (compat2_rho v),
    Prov2.transformPlatformPosition_congr (symLeafFns2 (Prov.rhoOf v) (rhoD v))
      (symLeafFns2 allPresent (fun _ => .bad)) rfl rfl]

theorem map_projection_provenance (ctx : Ctx) (bs : Bytes) (pos : Nat) (v : Val) (pos' : Nat)
    (h : parse Gen.mapProjectionRecord ctx bs pos = .ok (v, pos')) :
    (transformMapProjection realLeafFns2 v.toPVal).map Grp.sortKeys =
      (Spec.mapProjection (realLeafFns2.desig ((v.leafAt ["map_projection_designator"]).getD default))).map
        (Grp.map (Sym.eval v)) := by
  obtain ⟨s, kvs, hs, hk, hp⟩ := Prov2.desig_at
  generalize hd : realLeafFns2.desig ((v.leafAt ["map_projection_designator"]).getD default) = d
  refine Prov2.static_provenance_opt Gen.mapProjectionRecord _
    (transformMapProjection (symLeafFns2 allPresent (fun _ => d))) _ v s hs ?_ (Prov2.mpCheck_all d)
    ctx bs pos pos' h
  rw [transformMapProjection_natural _ _ _ (compat2_rho v)]
  congr 1
  apply Prov2.transformMapProjection_congr
  intro kvs' a hk' ha
  rw [hk] at hk'
  injection hk' with hk'
  subst hk'
  rw [hp] at ha
  injection ha with ha
  injection ha with ha
  subst ha
  exact hd

end Alos2

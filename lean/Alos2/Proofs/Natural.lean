/-
N — naturality: the dictionary combinators and the record transformers commute with any map on leaves
that is compatible with the leaf functions.  (The transformers never look inside a value read from the file.)

Helper lemmas live in the namespace `Alos2.Natural`; the theorems other files use are in `Alos2`.
-/
import Alos2.Model.Sym

namespace Alos2

variable {α β : Type}

/-! ### basic facts -/

namespace Natural

theorem mapKvs_eq (f : α → β) (kvs : KVs α) :
    PVal.mapKvs f kvs = kvs.map (fun kv => (kv.1, kv.2.map f)) := by
  induction kvs with
  | nil => simp [PVal.mapKvs]
  | cons kv rest ih => obtain ⟨k, v⟩ := kv; simp [PVal.mapKvs, ih]

theorem mapList_eq (f : α → β) (xs : List (PVal α)) :
    PVal.mapList f xs = xs.map (PVal.map f) := by
  induction xs with
  | nil => simp [PVal.mapList]
  | cons x rest ih => simp [PVal.mapList, ih]

theorem map_leaf (f : α → β) (a : α) : (PVal.leaf a).map f = .leaf (f a) := by simp [PVal.map]

theorem map_cstr (f : α → β) (s : String) : (PVal.cstr s : PVal α).map f = .cstr s := by simp [PVal.map]

theorem map_cint (f : α → β) (i : Int) : (PVal.cint i : PVal α).map f = .cint i := by simp [PVal.map]

theorem map_list (f : α → β) (xs : List (PVal α)) : (PVal.list xs).map f = .list (xs.map (PVal.map f)) := by
  simp [PVal.map, mapList_eq]

theorem map_tup (f : α → β) (xs : List (PVal α)) : (PVal.tup xs).map f = .tup (xs.map (PVal.map f)) := by
  simp [PVal.map, mapList_eq]

theorem map_dict (f : α → β) (kvs : KVs α) :
    (PVal.dict kvs).map f = .dict (kvs.map (fun kv => (kv.1, kv.2.map f))) := by
  simp [PVal.map, mapKvs_eq]

end Natural

open Natural

attribute [local simp] Natural.map_leaf Natural.map_cstr Natural.map_cint Natural.map_list Natural.map_tup Natural.map_dict

namespace Natural

/-- the key-preserving map on association lists -/
abbrev kvm (f : α → β) : String × PVal α → String × PVal β := fun kv => (kv.1, kv.2.map f)

theorem kvGet_map (f : α → β) (kvs : KVs α) (k : String) :
    kvGet (kvs.map (kvm f)) k = (kvGet kvs k).map (PVal.map f) := by
  simp [kvGet, List.find?_map, Function.comp_def]

theorem flatMap_congr_mem {A B : Type} {g h : A → List B} (l : List A) (H : ∀ a ∈ l, g a = h a) :
    l.flatMap g = l.flatMap h := by
  induction l with
  | nil => rfl
  | cons a l ih =>
    simp only [List.flatMap_cons]
    rw [H a (by simp), ih (fun b hb => H b (by simp [hb]))]

end Natural

/-! ### generic combinators -/

namespace Natural

theorem dissoc_kvm (f : α → β) (ks : List String) (kvs : KVs α) :
    dissoc ks (kvs.map (kvm f)) = (dissoc ks kvs).map (kvm f) := by
  simp [dissoc, List.filter_map, Function.comp_def]

theorem keepKeys_kvm (f : α → β) (ks : List String) (kvs : KVs α) :
    keepKeys ks (kvs.map (kvm f)) = (keepKeys ks kvs).map (kvm f) := by
  simp [keepKeys, List.filter_map, Function.comp_def]

theorem kvSet_kvm (f : α → β) (kvs : KVs α) (k : String) (v : PVal α) :
    kvSet (kvs.map (kvm f)) k (v.map f) = (kvSet kvs k v).map (kvm f) := by
  simp only [kvSet, List.any_map, Function.comp_def]
  split
  · simp only [List.map_map]
    apply List.map_congr_left
    intro kv _
    simp only [Function.comp]
    split <;> rfl
  · simp

theorem kvUnion_kvm (f : α → β) (a b : KVs α) :
    kvUnion (a.map (kvm f)) (b.map (kvm f)) = (kvUnion a b).map (kvm f) := by
  unfold kvUnion
  induction b generalizing a with
  | nil => simp
  | cons kv rest ih =>
    simp only [List.map_cons, List.foldl_cons]
    rw [kvSet_kvm, ih]

theorem kvFromItems_kvm (f : α → β) (kvs : KVs α) :
    kvFromItems (kvs.map (kvm f)) = (kvFromItems kvs).map (kvm f) := by
  have := kvUnion_kvm f [] kvs
  simpa [kvUnion, kvFromItems] using this

theorem rename_kvm (f : α → β) (tr : List (String × String)) (kvs : KVs α) :
    rename tr (kvs.map (kvm f)) = (rename tr kvs).map (kvm f) := by
  unfold rename
  rw [← kvFromItems_kvm]
  simp [List.map_map, Function.comp_def]

theorem removeNestingLayer_kvm (f : α → β) (kvs : KVs α) :
    removeNestingLayer (kvs.map (kvm f)) = (removeNestingLayer kvs).map (kvm f) := by
  unfold removeNestingLayer
  rw [← kvFromItems_kvm, List.flatMap_map, List.map_flatMap]
  congr 1
  apply flatMap_congr_mem
  intro kv _
  obtain ⟨k, v⟩ := kv
  cases v <;> simp

end Natural


theorem dissoc_map (f : α → β) (ks : List String) (kvs : KVs α) :
    dissoc ks (PVal.mapKvs f kvs) = PVal.mapKvs f (dissoc ks kvs) := by
  simpa [mapKvs_eq] using dissoc_kvm f ks kvs

theorem keepKeys_map (f : α → β) (ks : List String) (kvs : KVs α) :
    keepKeys ks (PVal.mapKvs f kvs) = PVal.mapKvs f (keepKeys ks kvs) := by
  simpa [mapKvs_eq] using keepKeys_kvm f ks kvs

theorem kvSet_map (f : α → β) (kvs : KVs α) (k : String) (v : PVal α) :
    kvSet (PVal.mapKvs f kvs) k (v.map f) = PVal.mapKvs f (kvSet kvs k v) := by
  simpa [mapKvs_eq] using kvSet_kvm f kvs k v

theorem kvFromItems_map (f : α → β) (kvs : KVs α) :
    kvFromItems (PVal.mapKvs f kvs) = PVal.mapKvs f (kvFromItems kvs) := by
  simpa [mapKvs_eq] using kvFromItems_kvm f kvs

theorem kvUnion_map (f : α → β) (a b : KVs α) :
    kvUnion (PVal.mapKvs f a) (PVal.mapKvs f b) = PVal.mapKvs f (kvUnion a b) := by
  simpa [mapKvs_eq] using kvUnion_kvm f a b

theorem rename_map (f : α → β) (tr : List (String × String)) (kvs : KVs α) :
    rename tr (PVal.mapKvs f kvs) = PVal.mapKvs f (rename tr kvs) := by
  simpa [mapKvs_eq] using rename_kvm f tr kvs

theorem removeNestingLayer_map (f : α → β) (kvs : KVs α) :
    removeNestingLayer (PVal.mapKvs f kvs) = PVal.mapKvs f (removeNestingLayer kvs) := by
  simpa [mapKvs_eq] using removeNestingLayer_kvm f kvs

/-! ### removeSpares -/

namespace Natural

theorem removeSpares_all (f : α → β) :
    (∀ v : PVal α, removeSpares (v.map f) = (removeSpares v).map f) ∧
    (∀ kvs : KVs α, removeSparesKvs (kvs.map (kvm f)) = (removeSparesKvs kvs).map (kvm f)) ∧
    (∀ xs : List (PVal α), removeSparesList (xs.map (PVal.map f)) = (removeSparesList xs).map (PVal.map f)) := by
  apply removeSpares.mutual_induct
  · intro xs ih; simp [removeSpares, ih]
  · intro kvs ih; simp [removeSpares, ih]
  · intro v h1 h2
    cases v <;> simp [removeSpares] at h1 h2 ⊢
  · simp [removeSparesList]
  · intro x xs ih1 ih2; simp [removeSparesList, ih1, ih2]
  · simp [removeSparesKvs]
  · intro k v rest hk ih1 ih2; simp [removeSparesKvs, hk, ih1, ih2]
  · intro k v rest hk ih; simp [removeSparesKvs, hk, ih]

end Natural

theorem removeSpares_map (f : α → β) (v : PVal α) : removeSpares (v.map f) = (removeSpares v).map f :=
  (removeSpares_all f).1 v

/-! ### separateAttrs, transformNested -/

theorem separateAttrs_map (f : α → β) (v : PVal α) :
    separateAttrs (v.map f) = ((separateAttrs v).1.map f, (separateAttrs v).2.map f) := by
  rcases v with a | s | i | xs | kvs | xs <;> try (simp [separateAttrs]; done)
  rcases xs with _ | ⟨x, rest⟩ <;> try (simp [separateAttrs]; done)
  rcases x with a | s | i | xs | kvs | ys <;> try (simp [separateAttrs]; done)
  rcases ys with _ | ⟨v0, ys⟩ <;> try (simp [separateAttrs]; done)
  rcases ys with _ | ⟨a0, r0⟩ <;> try (simp [separateAttrs]; done)
  simp only [separateAttrs, map_list, map_tup, List.map_cons, List.map_map, PVal.list.injEq, List.cons.injEq,
    true_and, Prod.mk.injEq, and_true]
  apply List.map_congr_left
  intro x _
  rcases x with a | s | i | xs | kvs | ys <;> try (simp; done)
  rcases ys with _ | ⟨v0, ys⟩ <;> simp

namespace Natural

theorem asDicts_map (f : α → β) (xs : List (PVal α)) :
    asDicts (xs.map (PVal.map f)) = (asDicts xs).map (List.map (kvm f)) := by
  unfold asDicts
  rw [List.filterMap_map, List.map_filterMap]
  congr 1
  funext x
  cases x <;> simp

theorem unionKeys_inner_map (f : α → β) (d : KVs α) (acc : List String) :
    (d.map (kvm f)).foldl (fun acc kv => if acc.contains kv.1 then acc else acc ++ [kv.1]) acc =
    d.foldl (fun acc kv => if acc.contains kv.1 then acc else acc ++ [kv.1]) acc := by
  induction d generalizing acc with
  | nil => rfl
  | cons kv rest ih => simp only [List.map_cons, List.foldl_cons]; rw [ih]

theorem unionKeys_map (f : α → β) (ds : List (KVs α)) :
    unionKeys (ds.map (List.map (kvm f))) = unionKeys ds := by
  unfold unionKeys
  suffices h : ∀ acc : List String,
      (ds.map (List.map (kvm f))).foldl
        (fun acc d => d.foldl (fun acc kv => if acc.contains kv.1 then acc else acc ++ [kv.1]) acc) acc =
      ds.foldl (fun acc d => d.foldl (fun acc kv => if acc.contains kv.1 then acc else acc ++ [kv.1]) acc) acc from h []
  induction ds with
  | nil => intro acc; rfl
  | cons d rest ih => intro acc; simp only [List.map_cons, List.foldl_cons]; rw [unionKeys_inner_map, ih]

theorem mergeWithList_map (f : α → β) (ds : List (KVs α)) :
    mergeWithList (ds.map (List.map (kvm f))) = (mergeWithList ds).map (kvm f) := by
  unfold mergeWithList
  rw [unionKeys_map, List.map_map]
  apply List.map_congr_left
  intro k _
  simp only [Function.comp, map_list, Prod.mk.injEq, true_and, PVal.list.injEq]
  rw [List.filterMap_map, List.map_filterMap]
  congr 1
  funext d
  simp [kvGet_map]

theorem transformNested1_map (f : α → β) (v : PVal α) :
    transformNested1 (v.map f) = (transformNested1 v).map f := by
  rcases v with a | s | i | xs | kvs | xs <;> try (simp [transformNested1]; done)
  rcases xs with _ | ⟨x, rest⟩ <;> try (simp [transformNested1]; done)
  rcases x with a | s | i | xs | kvs | ys <;> try (simp [transformNested1]; done)
  have h1 := asDicts_map f (PVal.dict kvs :: rest)
  have h2 := mergeWithList_map f (asDicts (PVal.dict kvs :: rest))
  simp only [List.map_cons, map_dict] at h1
  simp only [transformNested1, map_list, List.map_cons, map_dict, h1, h2]

end Natural

theorem transformNested_map (f : α → β) (v : PVal α) : transformNested (v.map f) = (transformNested v).map f := by
  unfold transformNested
  rw [transformNested1_map]
  cases transformNested1 v <;> simp [transformNested1_map, Function.comp_def]

/-! ### groups -/

namespace Natural

theorem mapGroups_eq (f : α → β) (gs : List (String × Grp α)) :
    Grp.mapGroups f gs = gs.map (fun kg => (kg.1, kg.2.map f)) := by
  induction gs with
  | nil => simp [Grp.mapGroups]
  | cons kg rest ih => obtain ⟨k, g⟩ := kg; simp [Grp.mapGroups, ih]

theorem itemType_map (f : α → β) (v : PVal α) : itemType (v.map f) = itemType v := by
  rcases v with a | s | i | xs | kvs | xs <;> try (simp [itemType]; done)
  rcases xs with _ | ⟨x, rest⟩ <;> try (simp [itemType]; done)
  cases x <;> simp [itemType]

theorem dimsOf_map (f : α → β) (v : PVal α) : dimsOf (v.map f) = dimsOf v := by
  cases v <;> simp only [dimsOf, map_list, map_tup, map_leaf, map_cstr, map_cint, map_dict]
  all_goals
    rw [List.filterMap_map]
    congr 1
    funext x
    cases x <;> simp

theorem attrsOf_map (f : α → β) (v : PVal α) : attrsOf (v.map f) = (attrsOf v).map (kvm f) := by
  cases v <;> simp [attrsOf]

theorem asVariable_map (f : α → β) (v : PVal α) : asVariable (v.map f) = (asVariable v).map f := by
  rcases v with a | s | i | xs | kvs | xs <;> try (simp [asVariable, GVar.map, PVal.mapKvs]; done)
  all_goals
    rcases xs with _ | ⟨x1, xs⟩ <;> try (simp [asVariable, GVar.map, PVal.mapKvs]; done)
    rcases xs with _ | ⟨x2, xs⟩ <;> try (simp [asVariable, GVar.map, PVal.mapKvs]; done)
    rcases xs with _ | ⟨x3, xs⟩ <;>
      simp [asVariable, GVar.map, mapKvs_eq, attrsOf_map, dimsOf_map]

theorem varsOf_map (f : α → β) (kvs : KVs α) :
    varsOf (kvs.map (kvm f)) = (varsOf kvs).map (fun kv => (kv.1, kv.2.map f)) := by
  simp [varsOf, List.filter_map, Function.comp_def, itemType_map, asVariable_map]

theorem asGroup_all (f : α → β) :
    (∀ v : PVal α, asGroup (v.map f) = (asGroup v).map f) ∧
    (∀ kvs : KVs α, asGroups (kvs.map (kvm f)) = (asGroups kvs).map (fun kg => (kg.1, kg.2.map f))) := by
  apply asGroup.mutual_induct
  · intro kvs extra tail ih
    simp only [map_tup, List.map_cons, map_dict, asGroup, Grp.map, mapGroups_eq, mapKvs_eq, varsOf_map, ih,
      attrsOf_map, ← kvUnion_kvm, List.filter_map, Function.comp_def, itemType_map]
  · intro kvs ih
    simp only [map_dict, asGroup, Grp.map, mapGroups_eq, mapKvs_eq, varsOf_map, ih,
      List.filter_map, Function.comp_def, itemType_map]
  · intro t h1 h2
    rcases t with a | s | i | xs | kvs | xs <;> try (simp [asGroup, Grp.map, Grp.mapGroups, PVal.mapKvs]; done)
    · exact absurd rfl (h2 kvs)
    · rcases xs with _ | ⟨x1, xs⟩ <;> try (simp [asGroup, Grp.map, Grp.mapGroups, PVal.mapKvs]; done)
      rcases xs with _ | ⟨x2, xs⟩
      · cases x1 <;> simp [asGroup, Grp.map, Grp.mapGroups, PVal.mapKvs]
      · cases x1 <;> try (simp [asGroup, Grp.map, Grp.mapGroups, PVal.mapKvs]; done)
        exact absurd rfl (h1 _ _ _)
  · simp [asGroups]
  · intro k v rest hv ih1 ih2
    simp [asGroups, itemType_map, hv, ih1, ih2]
  · intro k v rest hv ih
    simp [asGroups, itemType_map, hv, ih]

end Natural

theorem asGroup_map (f : α → β) (v : PVal α) : asGroup (v.map f) = (asGroup v).map f :=
  (asGroup_all f).1 v

/-! ### key-wise function tables -/

namespace Natural

/-- two `Option`s are both `none`, or both `some` with related contents -/
def ORel {A B : Type} (R : A → B → Prop) : Option A → Option B → Prop
  | some a, some b => R a b
  | none, none => True
  | _, _ => False

/-- `g'` is the counterpart of `g` along the leaf map `f` -/
def FnRel (f : α → β) (g : PVal α → PVal α) (g' : PVal β → PVal β) : Prop :=
  ∀ v, g' (v.map f) = (g v).map f

/-- pointwise related tables of key-wise functions -/
inductive FnsRel (f : α → β) : List (String × (PVal α → PVal α)) → List (String × (PVal β → PVal β)) → Prop where
  | nil : FnsRel f [] []
  | cons {k g g' fs fs'} : FnRel f g g' → FnsRel f fs fs' → FnsRel f ((k, g) :: fs) ((k, g') :: fs')

theorem FnsRel.find {f : α → β} {fs fs'} (h : FnsRel f fs fs') (k : String) :
    ORel (fun p p' => FnRel f p.2 p'.2) (fs.find? (fun p => p.1 = k)) (fs'.find? (fun p => p.1 = k)) := by
  induction h with
  | nil => simp [ORel]
  | @cons k' g g' fs fs' hg _ ih =>
    by_cases hk : k' = k
    · simp [hk, ORel]; exact hg
    · simpa [hk] using ih

theorem applyToItems_map {f : α → β} {fs fs'} (h : FnsRel f fs fs') (kvs : KVs α) :
    applyToItems fs' (kvs.map (kvm f)) = (applyToItems fs kvs).map (kvm f) := by
  unfold applyToItems
  simp only [List.map_map]
  apply List.map_congr_left
  intro kv _
  simp only [Function.comp, Prod.mk.injEq, true_and]
  have := h.find kv.1
  revert this
  cases fs.find? (fun p => p.1 = kv.1) <;> cases fs'.find? (fun p => p.1 = kv.1) <;> simp [ORel]
  intro hg; exact hg _

theorem interpAll_rel {f : α → β} {interp : String → Option (PVal α → PVal α)}
    {interp' : String → Option (PVal β → PVal β)}
    (hi : ∀ name, ORel (FnRel f) (interp name) (interp' name)) (tbl : List (String × String)) :
    ORel (FnsRel f) (interpAll interp tbl) (interpAll interp' tbl) := by
  unfold interpAll
  induction tbl with
  | nil => simp [ORel]; exact .nil
  | cons kv rest ih =>
    simp only [List.mapM_cons]
    have h1 := hi kv.2
    cases h : interp kv.2 <;> cases h' : interp' kv.2 <;> simp [h, h', ORel] at h1 ⊢
    revert ih
    cases List.mapM (fun kv => Option.map (fun f => (kv.1, f)) (interp kv.2)) rest <;>
      cases List.mapM (fun kv => Option.map (fun f => (kv.1, f)) (interp' kv.2)) rest <;> simp [ORel]
    intro hr; exact .cons h1 hr

theorem onLeaf_rel {f : α → β} {g : α → α} {g' : β → β} (h : ∀ a, f (g a) = g' (f a)) :
    FnRel f (onLeaf g) (onLeaf g') := by
  intro v; cases v <;> simp [onLeaf, h]

theorem leafFnByName_rel {f : α → β} {lf : LeafFns α} {lf' : LeafFns β} (h : Compat f lf lf') (name : String) :
    ORel (FnRel f) (leafFnByName lf name) (leafFnByName lf' name) := by
  unfold leafFnByName
  split
  · exact onLeaf_rel h.isoDatetime
  · exact onLeaf_rel h.toBool
  · trivial

theorem headerLambda_rel {f : α → β} {lf : LeafFns α} {lf' : LeafFns β} (h : Compat f lf lf') (name : String) :
    ORel (FnRel f) (headerLambda lf name) (headerLambda lf' name) := by
  unfold headerLambda
  split
  · intro v; cases v <;> simp [h.isEmptyStr]
    split <;> simp
  · intro v; cases v <;> simp [h.isMinusOne, h.isNan]
    split <;> simp
  · intro v; cases v <;> simp [h.isMinusOne]
    split <;> simp
  · trivial

theorem mapM_option_map {A B A' B' : Type} (g : A → A') (h : B → B') (s : A → Option B) (s' : A' → Option B')
    (l : List A) (H : ∀ a ∈ l, s' (g a) = (s a).map h) :
    (l.map g).mapM s' = (l.mapM s).map (List.map h) := by
  induction l with
  | nil => simp
  | cons a l ih =>
    simp only [List.map_cons, List.mapM_cons]
    rw [H a (by simp), ih (fun b hb => H b (by simp [hb]))]
    cases s a <;> simp
    cases List.mapM s l <;> simp

end Natural

/-! ### volume directory -/

namespace Natural

theorem transformVolumeDescriptor_natural {f : α → β} {lf : LeafFns α} {lf' : LeafFns β} (h : Compat f lf lf')
    (kvs : KVs α) :
    transformVolumeDescriptor lf' (kvs.map (kvm f)) = (transformVolumeDescriptor lf kvs).map (List.map (kvm f)) := by
  unfold transformVolumeDescriptor
  have hr := interpAll_rel (leafFnByName_rel h) Gen.Config.volume_directory__transform_volume_descriptor.postprocessors
  revert hr
  cases interpAll (leafFnByName lf) Gen.Config.volume_directory__transform_volume_descriptor.postprocessors <;>
    cases interpAll (leafFnByName lf') Gen.Config.volume_directory__transform_volume_descriptor.postprocessors <;>
    simp [ORel]
  intro hr
  rw [dissoc_kvm, rename_kvm, applyToItems_map hr]

theorem transformText_natural (f : α → β) (kvs : KVs α) :
    transformText (kvs.map (kvm f)) = (transformText kvs).map (kvm f) := by
  unfold transformText
  rw [dissoc_kvm, rename_kvm]

end Natural

theorem transformVolumeRecord_natural (f : α → β) (lf : LeafFns α) (lf' : LeafFns β) (h : Compat f lf lf') (v : PVal α) :
    transformVolumeRecord lf' (v.map f) = (transformVolumeRecord lf v).map (PVal.mapKvs f) := by
  cases v <;> try (simp [transformVolumeRecord]; done)
  rename_i kvs
  simp only [transformVolumeRecord, map_dict]
  rw [dissoc_kvm]
  rw [mapM_option_map (kvm f) (kvm f)]
  · simp only [Option.map_map]
    congr 1
    funext l
    simp [removeNestingLayer_kvm, mapKvs_eq]
  · intro kv _
    obtain ⟨k, w⟩ := kv
    simp only []
    generalize (Gen.Config.volume_directory__transform_record.transformers.find? (fun t => t.1 = k)).map Prod.snd = o
    cases o with
    | none => simp
    | some s =>
      by_cases h1 : s = "transform_volume_descriptor"
      · subst h1; cases w <;> simp [transformVolumeDescriptor_natural h, Option.map_map, Function.comp_def, kvm]
      · by_cases h2 : s = "transform_text"
        · subst h2; cases w <;> simp [transformText_natural]
        · cases w <;> simp [h1, h2]

/-! ### image file descriptor -/

namespace Natural

theorem dropEmptyLists_map (f : α → β) (kvs : KVs α) :
    dropEmptyLists (kvs.map (kvm f)) = (dropEmptyLists kvs).map (kvm f) := by
  unfold dropEmptyLists
  rw [List.filter_map]
  congr 1
  apply List.filter_congr
  intro kv _
  obtain ⟨k, v⟩ := kv
  rcases v with a | s | i | xs | kvs | xs <;> try (simp; done)
  cases xs <;> simp

end Natural

theorem extractAttrs_natural (f : α → β) (lf : LeafFns α) (lf' : LeafFns β) (h : Compat f lf lf') (v : PVal α) :
    extractAttrs lf' (v.map f) = (extractAttrs lf v).map (PVal.mapKvs f) := by
  cases v <;> try (simp [extractAttrs]; done)
  rename_i kvs
  simp only [extractAttrs, map_dict]
  have hr := interpAll_rel (headerLambda_rel h) Gen.Config.sar_image__extract_attrs.transformers
  revert hr
  cases interpAll (headerLambda lf) Gen.Config.sar_image__extract_attrs.transformers <;>
    cases interpAll (headerLambda lf') Gen.Config.sar_image__extract_attrs.transformers <;>
    simp [ORel]
  intro hr
  rw [dissoc_kvm, removeNestingLayer_kvm, keepKeys_kvm, applyToItems_map hr, rename_kvm, dropEmptyLists_map,
    mapKvs_eq]

/-! ### per-line metadata -/

namespace Natural

theorem flattenNestedAux_map (f : α → β) (fuel : Nat) (kvs : KVs α) :
    flattenNestedAux fuel (kvs.map (kvm f)) = (flattenNestedAux fuel kvs).map (kvm f) := by
  induction fuel generalizing kvs with
  | zero => simp [flattenNestedAux]
  | succ fuel ih =>
    simp only [flattenNestedAux]
    rw [← kvFromItems_kvm, List.flatMap_map, List.map_flatMap]
    congr 1
    apply flatMap_congr_mem
    intro kv _
    obtain ⟨k, v⟩ := kv
    rcases v with a | s | i | xs | kvs | xs <;> try (simp; done)
    rcases xs with _ | ⟨x, rest⟩ <;> try (simp; done)
    rcases x with a | s | i | xs | d0 | ys <;> try (simp; done)
    have h1 := asDicts_map f (PVal.dict d0 :: rest)
    have h2 := mergeWithList_map f (asDicts (PVal.dict d0 :: rest))
    simp only [List.map_cons, map_dict] at h1
    simp only [map_list, List.map_cons, map_dict, h1, h2, ← ih, List.map_map]
    rfl

theorem toRowsVar_map (f : α → β) (v : PVal α) : toRowsVar (v.map f) = (toRowsVar v).map f := by
  simp [toRowsVar, separateAttrs_map]

theorem deduplicateAttrs_map (f : α → β) (known : List String) (kvs : KVs α) :
    deduplicateAttrs known (kvs.map (kvm f)) = (deduplicateAttrs known kvs).map (kvm f) := by
  unfold deduplicateAttrs
  simp only [List.filter_map, Function.comp_def, List.map_map]
  rw [← kvUnion_kvm, List.map_map]
  congr 1
  apply List.map_congr_left
  intro kv _
  obtain ⟨k, v⟩ := kv
  simp only [Function.comp, kvm, Prod.mk.injEq, true_and]
  rcases v with a | s | i | xs | kvs | xs <;> try (simp; done)
  rcases xs with _ | ⟨x1, xs⟩ <;> try (simp; done)
  rcases xs with _ | ⟨x2, xs⟩ <;> try (simp; done)
  rcases x2 with a | s | i | zs | kvs | ys <;> try (simp; done)
  cases zs <;> simp

end Natural

theorem transformLineMetadata_natural (f : α → β) (recs : List (PVal α)) :
    transformLineMetadata (PVal.mapList f recs) = (transformLineMetadata recs).map f := by
  simp only [transformLineMetadata, mapList_eq, removeSpares, flattenNested]
  rw [asDicts_map, mergeWithList_map, (removeSpares_all f).2.1, dissoc_kvm, flattenNestedAux_map, List.map_map]
  rw [← asGroup_map, map_dict, ← rename_kvm, ← deduplicateAttrs_map, List.map_map]
  congr 5
  funext kv
  simp [toRowsVar_map]

/-! ### leader records -/

theorem transformDatasetSummary_natural (f : α → β) (lf : LeafFns α) (lf' : LeafFns β) (h : Compat f lf lf') (v : PVal α) :
    transformDatasetSummary lf' (v.map f) = (transformDatasetSummary lf v).map (Grp.map f) := by
  unfold transformDatasetSummary
  rw [removeSpares_map]
  cases removeSpares v <;> try (simp; done)
  rename_i kvs
  simp only [map_dict]
  have hr := interpAll_rel (leafFnByName_rel h) Gen.Config.dataset_summary__transform_dataset_summary.transformers
  revert hr
  cases interpAll (leafFnByName lf) Gen.Config.dataset_summary__transform_dataset_summary.transformers <;>
    cases interpAll (leafFnByName lf') Gen.Config.dataset_summary__transform_dataset_summary.transformers <;>
    simp [ORel]
  intro hr
  rw [dissoc_kvm, applyToItems_map hr, rename_kvm, ← asGroup_map, map_dict]

namespace Natural

theorem pairsOf_map (f : α → β) : ∀ xs : List (PVal α),
    pairsOf (xs.map (PVal.map f)) = (pairsOf xs).map (PVal.map f)
  | [] => by simp [pairsOf]
  | [_] => by simp [pairsOf]
  | a :: b :: rest => by simp [pairsOf, pairsOf_map f rest]

private def tmSplit (v : PVal α) : KVs α × PVal α :=
  match v with
  | .tup [.dict m, a] => (m, a)
  | .dict m => (m, .dict [])
  | _ => ([], .dict [])

private def tmMat (w : PVal α) : PVal α :=
  match w with
  | .dict inner => .tup [.list [.cstr "i", .cstr "j"], .list (pairsOf (inner.map Prod.snd)), .dict []]
  | o => o

private def tmBuild (m : KVs α) (a : PVal α) : PVal α :=
  .tup [.dict (kvSet (kvSet (m.map (fun kv => (kv.1, tmMat kv.2))) "i"
      (.tup [.cstr "i", .list [.cstr "horizontal", .cstr "vertical"], .dict [("long_name", .cstr "reception polarization")]]))
    "j" (.tup [.cstr "j", .list [.cstr "horizontal", .cstr "vertical"], .dict [("long_name", .cstr "transmission polarization")]])), a]

private theorem transformMatrices_eq (v : PVal α) : transformMatrices v = tmBuild (tmSplit v).1 (tmSplit v).2 := by
  rfl

private theorem tmSplit_map (f : α → β) (v : PVal α) :
    tmSplit (v.map f) = ((tmSplit v).1.map (kvm f), (tmSplit v).2.map f) := by
  rcases v with a | s | i | xs | kvs | xs <;> try (simp [tmSplit]; done)
  rcases xs with _ | ⟨x1, xs⟩ <;> try (simp [tmSplit]; done)
  rcases xs with _ | ⟨x2, xs⟩
  · cases x1 <;> simp [tmSplit]
  · rcases xs with _ | ⟨x3, xs⟩ <;> cases x1 <;> simp [tmSplit]

private theorem tmMat_map (f : α → β) (w : PVal α) : tmMat (w.map f) = (tmMat w).map f := by
  cases w <;> simp [tmMat, ← pairsOf_map, List.map_map, Function.comp_def]

private theorem tmBuild_map (f : α → β) (m : KVs α) (a : PVal α) :
    tmBuild (m.map (kvm f)) (a.map f) = (tmBuild m a).map f := by
  unfold tmBuild
  simp only [map_tup, List.map_cons, List.map_nil, map_dict]
  rw [← kvSet_kvm, ← kvSet_kvm]
  simp [tmMat_map, Function.comp_def, kvm]

theorem transformMatrices_rel (f : α → β) : FnRel f transformMatrices transformMatrices := by
  intro v
  rw [transformMatrices_eq, transformMatrices_eq, tmSplit_map, tmBuild_map]

end Natural

theorem transformRadiometricData_natural (f : α → β) (v : PVal α) :
    transformRadiometricData (v.map f) = (transformRadiometricData v).map (Grp.map f) := by
  cases v <;> try (simp [transformRadiometricData]; done)
  rename_i kvs
  simp only [transformRadiometricData, map_dict, removeSpares]
  rw [dissoc_kvm, (removeSpares_all f).2.1]
  split
  · have hr : FnsRel f [("distortion_matrix", transformMatrices)] [("distortion_matrix", transformMatrices)] :=
      .cons (transformMatrices_rel f) .nil
    rw [applyToItems_map hr, Option.map_some, ← asGroup_map, map_dict]
  · rfl

namespace Natural

theorem transformRelative_rel (f : α → β) (key : String) : FnRel f (transformRelative key) (transformRelative key) := by
  intro v
  cases v <;> try (simp [transformRelative]; done)
  rename_i kvs
  simp only [transformRelative, map_dict, kvGet_map]
  have hg : ((kvGet kvs key).map (PVal.map f)).getD (.dict []) = ((kvGet kvs key).getD (.dict [])).map f := by
    cases kvGet kvs key <;> simp
  rw [hg, transformNested_map]
  cases transformNested ((kvGet kvs key).getD (.dict [])) <;> try (simp; done)
  simp [separateAttrs_map, Function.comp_def]

end Natural

theorem transformDataQualitySummary_natural (f : α → β) (v : PVal α) :
    transformDataQualitySummary (v.map f) = (transformDataQualitySummary v).map (Grp.map f) := by
  unfold transformDataQualitySummary
  rw [removeSpares_map]
  cases removeSpares v <;> try (simp; done)
  rename_i kvs
  simp only [map_dict]
  split
  · rw [dissoc_kvm, applyToItems_map (.cons (transformRelative_rel f _) (.cons (transformRelative_rel f _) .nil)),
      Option.map_some, ← asGroup_map, map_dict]
  · rfl

namespace Natural

theorem transformGroupDim_rel (f : α → β) (dim : String) : FnRel f (transformGroupDim dim) (transformGroupDim dim) := by
  intro v
  rcases v with a | s | i | xs | kvs | xs <;> try (simp [transformGroupDim]; done)
  rcases xs with _ | ⟨x1, xs⟩ <;> try (simp [transformGroupDim]; done)
  rcases xs with _ | ⟨x2, xs⟩
  · cases x1 <;> simp [transformGroupDim]
  · rcases xs with _ | ⟨x3, xs⟩ <;> cases x1 <;> try (simp [transformGroupDim]; done)
    simp only [transformGroupDim, map_tup, List.map_cons, List.map_nil, map_dict, List.map_map]
    congr 4
    funext kv
    obtain ⟨k, w⟩ := kv
    cases w <;> simp

theorem record5Fn_rel {f : α → β} {lf : LeafFns α} {lf' : LeafFns β} (h : Compat f lf lf') (name : String) :
    ORel (FnRel f) (record5Fn lf name) (record5Fn lf' name) := by
  unfold record5Fn
  split
  · exact onLeaf_rel h.toBool
  · exact transformGroupDim_rel f _
  · exact transformGroupDim_rel f _
  · trivial

end Natural

theorem transformRecord5_natural (f : α → β) (lf : LeafFns α) (lf' : LeafFns β) (h : Compat f lf lf') (v : PVal α) :
    transformRecord5 lf' (v.map f) = (transformRecord5 lf v).map (Grp.map f) := by
  unfold transformRecord5
  rw [removeSpares_map]
  cases removeSpares v <;> try (simp; done)
  rename_i kvs
  simp only [map_dict]
  have hr := interpAll_rel (record5Fn_rel h) Gen.Config.facility_related_data__transform_record5.transformers
  revert hr
  cases interpAll (record5Fn lf) Gen.Config.facility_related_data__transform_record5.transformers <;>
    cases interpAll (record5Fn lf') Gen.Config.facility_related_data__transform_record5.transformers <;>
    simp [ORel]
  intro hr
  rw [dissoc_kvm, applyToItems_map hr, rename_kvm, ← asGroup_map, map_dict]

end Alos2

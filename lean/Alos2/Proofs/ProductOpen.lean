/-
Opening a whole product (`Model/Product.lean`: `openProduct`): whatever the files contain, when the open succeeds the
result is assembled from exactly the documented pieces —
* the summary groups are `transformSummary` of the parsed summary; the file roles come from its product-information section;
* the root attributes are the documented volume-directory fields (`Spec.rootAttrs` evaluated on the parsed volume directory)
  plus the reference-document link;
* `/metadata` is `transform_metadata` of the parsed leader (`C04.metadata` says it is the documented tree);
* `/imagery` holds every image file named by the summary, opened by `openImageFile`, keyed by its group name in summary
  order; when the group names are pairwise distinct no image is dropped or replaced.
-/
import Alos2.Model.Product
import Alos2.Proofs.Provenance
import Alos2.Proofs.AssembleProofs

namespace Alos2

/-- `open_image` on the file called `name` of the product (a missing file is FileNotFoundError) -/
def openNamed (fs : Files) (rpc : Nat) (name : String) : Except Err (String × ImageGroup) :=
  match fs.get name with
  | some b => openImageFile b name rpc
  | none => .error .fnf


private theorem throw_bind_ne {α β : Type} (e : Err) (f : α → Except Err β) (b : β) :
    ((throw e : Except Err α) >>= f) = .ok b ↔ False := by
  simp [throw, throwThe, MonadExcept.throw, bind, Except.bind]

private theorem pure_bind_ok {α β : Type} (a : α) (f : α → Except Err β) :
    ((pure a : Except Err α) >>= f) = f a := rfl

private theorem parseRecord_ok {c : Con} {bs : Bytes} {v : Val} (h : parseRecord c bs = .ok v) :
    ∃ pos, parse c [] bs 0 = .ok (v, pos) := by
  unfold parseRecord at h
  cases hp : parse c [] bs 0 with
  | error e => simp [hp, Except.map] at h
  | ok r =>
    obtain ⟨v', pos⟩ := r
    simp [hp, Except.map] at h
    exact ⟨pos, by rw [h]⟩

theorem openProduct_tree (fs : Files) (rpc : Nat) (p : Product) (h : openProduct fs rpc = .ok p) :
    ∃ (sections : List (String × Section)) (pdi : Section) (vol led trl : String) (imgs : List String)
      (vb lb : Bytes) (vrec lrec : Val) (vpos lpos : Nat) (vattrs : KVs Leaf) (groups : List (String × ImageGroup)),
      transformSummary sections = .ok p.summary ∧
      (sections.find? (fun s => s.1 = "pdi")).map Prod.snd = some pdi ∧
      fileRoles pdi = .ok (vol, led, imgs, trl) ∧
      fs.get vol = some vb ∧ parse Gen.volumeDirectoryRecord [] vb 0 = .ok (vrec, vpos) ∧
      p.rootAttrs = kvUnion vattrs [("reference_document", .cstr referenceDocument)] ∧
      sortByKey vattrs = PVal.mapKvs (Sym.eval vrec) Spec.rootAttrs ∧
      fs.get led = some lb ∧ parse Gen.sarLeaderRecord [] lb 0 = .ok (lrec, lpos) ∧
      transformLeaderMetadata realLeafFns3 lrec.toPVal = some p.metadata ∧
      imgs.mapM (openNamed fs rpc) = .ok groups ∧
      p.imagery = groups.foldl (fun acc kv => assocSet acc kv.1 kv.2) [] ∧
      ((groups.map Prod.fst).Nodup → p.imagery = groups) := by
  unfold openProduct at h
  dsimp only at h
  split at h
  case h_2 => exact absurd h (by simp [throw_bind_ne])
  rename_i stext hstext
  rw [pure_bind_ok] at h
  try dsimp only at h
  split at h
  case h_2 => exact absurd h (by simp [throw_bind_ne])
  rename_i chars hchars
  rw [pure_bind_ok] at h
  try dsimp only at h
  split at h
  case h_2 => exact absurd h (by simp [throw_bind_ne])
  rename_i sections hsections
  rw [pure_bind_ok] at h
  try dsimp only at h
  obtain ⟨summary, hsummary, h⟩ := Shape.bind_ok.mp h
  split at h
  case h_2 => exact absurd h (by simp [throw_bind_ne])
  rename_i pdi hpdi
  rw [pure_bind_ok] at h
  try dsimp only at h
  obtain ⟨⟨vol, led, imgs, trl⟩, hroles, h⟩ := Shape.bind_ok.mp h
  dsimp only at h
  split at h
  case h_2 => exact absurd h (by simp [throw_bind_ne])
  rename_i vb hvb
  rw [pure_bind_ok] at h
  try dsimp only at h
  obtain ⟨vrec, hvrec, h⟩ := Shape.bind_ok.mp h
  split at h
  case h_2 => exact absurd h (by simp [throw_bind_ne])
  rename_i vattrs hvattrs
  rw [pure_bind_ok] at h
  try dsimp only at h
  split at h
  case h_2 => exact absurd h (by simp [throw_bind_ne])
  rename_i lb hlb
  rw [pure_bind_ok] at h
  try dsimp only at h
  obtain ⟨lrec, hlrec, h⟩ := Shape.bind_ok.mp h
  split at h
  case h_2 => exact absurd h (by simp [throw_bind_ne])
  rename_i metadata hmetadata
  rw [pure_bind_ok] at h
  try dsimp only at h
  obtain ⟨groups, hgroups, h⟩ := Shape.bind_ok.mp h
  have hgroups' : imgs.mapM (openNamed fs rpc) = .ok groups := hgroups
  obtain ⟨vpos, hvparse⟩ := parseRecord_ok hvrec
  obtain ⟨lpos, hlparse⟩ := parseRecord_ok hlrec
  have hroot := root_attrs_provenance _ _ _ _ _ hvparse
  rw [hvattrs] at hroot
  have hp : p = _ := (Except.ok.inj h).symm
  subst hp
  refine ⟨sections, pdi.2, vol, led, trl, imgs, vb, lb, vrec, lrec, vpos, lpos, vattrs, groups,
    hsummary, by rw [hpdi]; rfl, hroles, hvb, hvparse, rfl, by simpa using hroot, hlb, hlparse, hmetadata, hgroups', rfl, ?_⟩
  intro hd
  have := foldl_assocSet_of_nodup groups [] (by simpa using hd)
  simpa using this

/-- a missing component file is reported as the error class the source maps it to: OSError for the summary,
    FileNotFoundError for the volume directory, the leader and the image files named by the summary -/
theorem openProduct_missing_summary (fs : Files) (rpc : Nat) (h : fs.get "summary.txt" = none) :
    openProduct fs rpc = .error .os := by
  unfold openProduct
  rw [h]
  rfl

end Alos2

/-
Corollary of `metadata_provenance`: which record groups `/metadata` has.
-/
import Alos2.Proofs.Metadata

namespace Alos2

def Grp.groupNames {α : Type} : Grp α → List String
  | .mk _ gs _ => gs.map Prod.fst

theorem groupNames_map {α β : Type} (f : α → β) (g : Grp α) : (g.map f).groupNames = g.groupNames := by
  cases g with
  | mk vars groups attrs =>
    simp only [Grp.map, Grp.groupNames, Natural.mapGroups_eq, List.map_map]
    rfl

def metadataNames (hasMap : Bool) : List String :=
  ["attitude", "data_quality_summary", "dataset_summary"] ++ (if hasMap then ["map_projection"] else []) ++
    ["platform_position", "radiometric_data", "transformations"]

theorem spec_metadata_names (hasMap : Bool) (d : Desig) (na nc : Nat) (G : Grp Sym)
    (h : Spec.metadata hasMap d na nc = some G) : G.groupNames = metadataNames hasMap := by
  unfold Spec.metadata at h
  cases hasMap with
  | false =>
    simp at h
    subst h
    simp [Grp.groupNames, metadataNames]
  | true =>
    cases hm : Spec.mapProjection d with
    | none => simp [hm] at h
    | some mp =>
      simp [hm] at h
      subst h
      simp [Grp.groupNames, metadataNames]

/-- `/metadata` has exactly the record groups present in the leader: the six fixed ones, plus `map_projection` exactly
    when the file holds at least one map-projection record -/
theorem metadata_group_names (bs : Bytes) (v : Val) (pos' : Nat)
    (h : parse Gen.sarLeaderRecord [] bs 0 = .ok (v, pos')) :
    ∃ k na nc : Nat,
      v.getPath ["file_descriptor", "map_projection", "number_of_records"] = some (.leaf (.int k)) ∧
      v.getPath ["attitude", "number_of_points"] = some (.leaf (.int na)) ∧
      v.getPath ["data_quality_summary", "number_of_channels"] = some (.leaf (.int nc)) ∧
      (0 < na → 0 < nc → ∀ g, (transformLeaderMetadata realLeafFns3 v.toPVal).map Grp.sortKeys = some g →
        g.groupNames = metadataNames (decide (0 < k))) := by
  obtain ⟨k, na, nc, h1, h2, h3, hp⟩ := metadata_provenance bs v pos' h
  refine ⟨k, na, nc, h1, h2, h3, ?_⟩
  intro hna hnc g hg
  rw [hp hna hnc] at hg
  cases hs : Spec.metadata (decide (0 < k))
      (realLeafFns2.desig ((v.leafAt ["map_projection", "[0]", "map_projection_designator"]).getD default)) na nc with
  | none => simp [hs] at hg
  | some G =>
    simp [hs] at hg
    subst hg
    rw [groupNames_map]
    exact spec_metadata_names _ _ _ _ G hs

end Alos2

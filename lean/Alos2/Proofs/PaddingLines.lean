/-
Padding inertness (C20) for the LINE records of an image file (`sar_image`): the per-line group that
`transform_line_metadata` builds from n records depends only on the bytes of the records' LIVE fields — whatever the
`blanks*` / spare areas of every record contain — and so does the whole image group / lazy-array description the reader
(`open_image`, `Model/Product.lean`) returns for a file.
-/
import Alos2.Proofs.ImageOpen
import Alos2.Proofs.RpcIndep
import Alos2.Proofs.Typing2

namespace Alos2

/-- two byte strings agree on the window of every LIVE leaf of layout `c` placed at `pos` -/
def LiveAgree (c : Con) (pos : Nat) (bs bs' : Bytes) : Prop :=
  ∀ tbl endp, Con.leafTable c [] pos = some (tbl, endp) →
    ∀ ent ∈ tbl, livePath ent.1 = true → slice bs ent.2.1 (ent.2.1 + ent.2.2.1) = slice bs' ent.2.1 (ent.2.1 + ent.2.2.1)

/-- `r`, `r'` are the same line record parsed (and rebased by the same offset) from two byte strings that agree on every
    live field -/
def PaddingTwin (c : Con) (r r' : Val) : Prop :=
  ∃ (ctx ctx' : Ctx) (bs bs' : Bytes) (pos : Nat) (v v' : Val) (e e' : Nat) (off : Int),
    parse c ctx bs pos = .ok (v, e) ∧ parse c ctx' bs' pos = .ok (v', e') ∧ LiveAgree c pos bs bs' ∧
    r = adjustOffset off v ∧ r' = adjustOffset off v'

namespace PadLines
open Typing Layout LineAddr ImgOpen

/-! ### the per-line pipeline looks neither at spare keys nor at the ignored keys -/

abbrev ign : List String := Gen.Config.sar_image__transform_line_metadata.ignored

/-- same keys in the same order, equal values at every kept (non-spare, non-ignored) key -/
def LiveEq {α : Type} (a b : KVs α) : Prop :=
  a.map Prod.fst = b.map Prod.fst ∧ ∀ k, k ∉ ign → keepKey k = true → kvGet a k = kvGet b k

theorem unionKeys_live {α : Type} (ds ds' : List (KVs α)) (h : All2 LiveEq ds ds') :
    unionKeys ds = unionKeys ds' := by
  have key : ∀ acc : List String,
      ds.foldl (fun acc d => d.foldl (fun acc kv => if acc.contains kv.1 then acc else acc ++ [kv.1]) acc) acc =
      ds'.foldl (fun acc d => d.foldl (fun acc kv => if acc.contains kv.1 then acc else acc ++ [kv.1]) acc) acc := by
    induction h with
    | nil => intro acc; rfl
    | cons hab _ ih =>
      intro acc
      simp only [List.foldl_cons]
      rw [keysFold_eq, keysFold_eq, hab.1]
      exact ih _
  exact key []

theorem filterMap_live {α : Type} (k : String) (hk : k ∉ ign) (hkeep : keepKey k = true) (ds ds' : List (KVs α))
    (h : All2 LiveEq ds ds') :
    ds.filterMap (fun d => kvGet d k) = ds'.filterMap (fun d => kvGet d k) := by
  induction h with
  | nil => rfl
  | cons hab _ ih =>
    simp only [List.filterMap_cons, hab.2 k hk hkeep, ih]

theorem clean_congr_live {α : Type} (keys : List String) (f g : String → PVal α)
    (h : ∀ k, k ∉ ign → keepKey k = true → f k = g k) :
    dissoc ign (removeSparesKvs (keys.map (fun k => (k, f k)))) =
      dissoc ign (removeSparesKvs (keys.map (fun k => (k, g k)))) := by
  induction keys with
  | nil => rfl
  | cons k rest ih =>
    simp only [List.map_cons, removeSparesKvs]
    by_cases hkeep : keepKey k = true
    · simp only [hkeep, if_true]
      unfold dissoc at ih ⊢
      by_cases hin : k ∈ ign
      · have : ign.contains k = true := by simpa using hin
        simp only [List.filter_cons, this, Bool.not_true, Bool.false_eq_true, if_false]
        exact ih
      · have : ign.contains k = false := by simpa using hin
        simp only [List.filter_cons, this, Bool.not_false, if_true, h k hin hkeep, ih]
    · simp only [hkeep]
      exact ih

theorem tlm_live {α : Type} (xs ys : List (PVal α)) (h : All2 LiveEq (asDicts xs) (asDicts ys)) :
    transformLineMetadata xs = transformLineMetadata ys := by
  apply tlm_congr
  unfold mergeWithList
  rw [unionKeys_live _ _ h]
  apply clean_congr_live
  intro k hk hkeep
  rw [filterMap_live k hk hkeep _ _ h]

/-! ### twin records agree at every kept key -/

theorem keys_mapKvs {α β : Type} (f : α → β) (kvs : KVs α) :
    (PVal.mapKvs f kvs).map Prod.fst = kvs.map Prod.fst := by
  induction kvs with
  | nil => rfl
  | cons kv rest ih => obtain ⟨k, v⟩ := kv; simp only [PVal.mapKvs, List.map_cons, ih]

theorem kvGet_mem {α : Type} {kvs : KVs α} {k : String} {x : PVal α} (h : kvGet kvs k = some x) : (k, x) ∈ kvs := by
  unfold kvGet at h
  obtain ⟨kv, hf, rfl⟩ := Option.map_eq_some_iff.mp h
  have h1 := List.find?_some hf
  have h2 := List.mem_of_find?_eq_some hf
  simp only [decide_eq_true_eq] at h1
  rw [← h1]
  exact h2

/-- the closed check behind the record-level lemma: every record path under a kept top-level key of the layout skeleton
    is a live, context-free entry of the leaf table — or one of the `special` paths, treated by hand -/
def recCheck (c : Con) (special : List (List String)) : Bool :=
  match ltF 16 c [] 0, Con.skel c [] with
  | some (tbl, _), some (.dict skvs) =>
    skvs.all (fun kv => ign.contains kv.1 || !keepKey kv.1 ||
      (kv.2.leaves.flatMap Sym.paths).all (fun p => special.contains p ||
        tbl.any (fun e => e.1 = p && !e.2.2.2.usesContext && livePath e.1)))
  | _, _ => false

theorem adjKeys_sub : ∀ k ∈ adjKeys, k ∈ ign := by decide

theorem twin_liveEq (c : Con) (hc : c ∈ fixedRecords) (special : List (List String))
    (hchk : recCheck c special = true)
    (hsp : ∀ p ∈ special, ∀ (ctx ctx' : Ctx) (bs bs' : Bytes) (pos : Nat) (v v' : Val) (e e' : Nat),
        parse c ctx bs pos = .ok (v, e) → parse c ctx' bs' pos = .ok (v', e') → LiveAgree c pos bs bs' →
        v.leafAt p = v'.leafAt p)
    (r r' : Val) (h : PaddingTwin c r r') :
    ∃ a b, r.toPVal = .dict a ∧ r'.toPVal = .dict b ∧ LiveEq a b := by
  obtain ⟨ctx, ctx', bs, bs', pos, v, v', e, e', off, hp, hp', hl, rfl, rfl⟩ := h
  unfold recCheck at hchk
  split at hchk
  next tbl0 e0 skvs ht hs =>
    have e1 := parse_eq_skel c _ hs ctx bs pos v e hp
    have e1' := parse_eq_skel c _ hs ctx' bs' pos v' e' hp'
    simp only [PVal.map] at e1 e1'
    cases v with
    | dict kvs =>
      cases v' with
      | dict kvs' =>
        rw [Val.toPVal] at e1 e1'
        simp only [PVal.dict.injEq] at e1 e1'
        have ag := adjust_agree off kvs _ (adjustOffset_dict off kvs)
        have ag' := adjust_agree off kvs' _ (adjustOffset_dict off kvs')
        rw [adjustOffset_dict, adjustOffset_dict]
        refine ⟨_, _, by rw [Val.toPVal], by rw [Val.toPVal], ?_, ?_⟩
        · rw [ag.1, ag'.1, e1, e1', keys_mapKvs, keys_mapKvs]
        · intro k hk hkeep
          have hk' : k ∉ adjKeys := fun hm => hk (adjKeys_sub k hm)
          rw [ag.2 k hk', ag'.2 k hk', e1, e1', Natural.mapKvs_eq, Natural.mapKvs_eq, Natural.kvGet_map, Natural.kvGet_map]
          cases hg : kvGet skvs k with
          | none => rfl
          | some sv =>
            simp only [Option.map_some, Option.some.injEq]
            apply pmap_congr
            intro a ha
            apply eval_congr
            intro p hpa
            rw [List.all_eq_true] at hchk
            have hkv := hchk _ (kvGet_mem hg)
            have hnc : ign.contains k = false := by simpa using hk
            simp only [hnc, hkeep, Bool.not_true, Bool.false_or, List.all_eq_true] at hkv
            have hpp := hkv p (List.mem_flatMap.mpr ⟨a, ha, hpa⟩)
            rw [Bool.or_eq_true] at hpp
            rcases hpp with hpp | hpp
            · exact hsp p (by simpa using hpp) ctx ctx' bs bs' pos _ _ e e' hp hp' hl
            · exact Typing2.leafAt_eq_of_covered c hc tbl0 e0 ht p hpp ctx ctx' bs bs' pos _ _ e e' hp hp' hl
      | _ => rw [Val.toPVal] at e1'; cases e1'
    | _ => rw [Val.toPVal] at e1; cases e1
  all_goals simp at hchk

theorem twins_liveEq (c : Con) (hc : c ∈ fixedRecords) (special : List (List String))
    (hchk : recCheck c special = true)
    (hsp : ∀ p ∈ special, ∀ (ctx ctx' : Ctx) (bs bs' : Bytes) (pos : Nat) (v v' : Val) (e e' : Nat),
        parse c ctx bs pos = .ok (v, e) → parse c ctx' bs' pos = .ok (v', e') → LiveAgree c pos bs bs' →
        v.leafAt p = v'.leafAt p)
    (recs recs' : List Val) (h : All2 (PaddingTwin c) recs recs') :
    All2 LiveEq (asDicts (Val.toPVal.toPVals recs)) (asDicts (Val.toPVal.toPVals recs')) := by
  induction h with
  | nil => simp only [Val.toPVal.toPVals, asDicts, List.filterMap_nil]; exact All2.nil
  | cons hab _ ih =>
    obtain ⟨a, b, ha, hb, hab⟩ := twin_liveEq c hc special hchk hsp _ _ hab
    simp only [Val.toPVal.toPVals, asDicts, List.filterMap_cons, ha, hb] at ih ⊢
    exact All2.cons hab ih

/-- twin record lists give the same per-line group — not only up to the order of members -/
theorem lines_twin (c : Con) (hc : c ∈ fixedRecords) (special : List (List String))
    (hchk : recCheck c special = true)
    (hsp : ∀ p ∈ special, ∀ (ctx ctx' : Ctx) (bs bs' : Bytes) (pos : Nat) (v v' : Val) (e e' : Nat),
        parse c ctx bs pos = .ok (v, e) → parse c ctx' bs' pos = .ok (v', e') → LiveAgree c pos bs bs' →
        v.leafAt p = v'.leafAt p)
    (recs recs' : List Val) (h : All2 (PaddingTwin c) recs recs') :
    transformLineMetadata (Val.toPVal.toPVals recs) = transformLineMetadata (Val.toPVal.toPVals recs') :=
  tlm_live _ _ (twins_liveEq c hc special hchk hsp recs recs' h)

theorem processed_mem : Gen.processedDataRecord ∈ fixedRecords := by
  unfold fixedRecords
  repeat (first | exact List.Mem.head _ | apply List.Mem.tail)

theorem signal_mem : Gen.signalDataRecord ∈ fixedRecords := by
  unfold fixedRecords
  repeat (first | exact List.Mem.head _ | apply List.Mem.tail)

set_option maxRecDepth 100000 in
theorem processed_check : recCheck Gen.processedDataRecord [] = true := by decide +kernel

def usPath : List String := ["sensor_acquisition_date_microseconds"]

set_option maxRecDepth 100000 in
theorem signal_check : recCheck Gen.signalDataRecord [usPath] = true := by decide +kernel

/-! ### entries of the closed leaf table, at any position -/

theorem table_at (c : Con) (tbl0 : List LeafEntry) (e0 : Nat) (ht : ltF 16 c [] 0 = some (tbl0, e0)) (pos : Nat) :
    Con.leafTable c [] pos = some (tbl0.map (shE pos), e0 + pos) := by
  apply ltF_sound 16
  have := ltF_shift pos 16 c [] 0
  rw [Nat.zero_add, ht] at this
  exact this

theorem window_of_entry (c : Con) (tbl0 : List LeafEntry) (e0 : Nat) (ht : ltF 16 c [] 0 = some (tbl0, e0))
    (ent : LeafEntry) (hent : ent ∈ tbl0) (hlv : livePath ent.1 = true) (pos : Nat) (bs bs' : Bytes)
    (hl : LiveAgree c pos bs bs') :
    slice bs (ent.2.1 + pos) (ent.2.1 + pos + ent.2.2.1) = slice bs' (ent.2.1 + pos) (ent.2.1 + pos + ent.2.2.1) :=
  hl _ _ (table_at c tbl0 e0 ht pos) (shE pos ent) (List.mem_map_of_mem hent) hlv

theorem subAt_eq_of_entry (c : Con) (hc : c ∈ fixedRecords) (tbl0 : List LeafEntry) (e0 : Nat)
    (ht : ltF 16 c [] 0 = some (tbl0, e0)) (ent : LeafEntry) (hent : ent ∈ tbl0)
    (hctx : ent.2.2.2.usesContext = false) (hlv : livePath ent.1 = true)
    (ctx ctx' : Ctx) (bs bs' : Bytes) (pos : Nat) (v v' : Val) (e e' : Nat)
    (h : parse c ctx bs pos = .ok (v, e)) (h' : parse c ctx' bs' pos = .ok (v', e'))
    (hl : LiveAgree c pos bs bs') : v.subAt ent.1 = v'.subAt ent.1 :=
  leaf_window_fixedRecords c hc pos _ _ (table_at c tbl0 e0 ht pos) ent.1 (ent.2.1 + pos) ent.2.2.1 ent.2.2.2
    (List.mem_map_of_mem (f := shE pos) hent) hctx ctx ctx' bs bs' v v' e e' h h'
    (window_of_entry c tbl0 e0 ht ent hent hlv pos bs bs' hl)

theorem subAt_single (kvs : List (String × Val)) (k : String) : (Val.dict kvs).subAt [k] = (Val.dict kvs).get? k := by
  rw [Fields.subAt_dict_cons]
  cases (Val.dict kvs).get? k with
  | none => rfl
  | some w => simp [Val.subAt]

/-! ### the µs time stamp of a signal-data record: a function of its own 8 bytes and of the ms stamp (both live) -/

theorem signal_us_value (ctx : Ctx) (bs : Bytes) (pos : Nat) (v : Val) (e : Nat)
    (hp : parse Gen.signalDataRecord ctx bs pos = .ok (v, e)) :
    ∃ w, v.get? "sensor_acquisition_date_microseconds" = some w ∧
      mkYdus (v.get? "sensor_acquisition_date") (.leaf (.int (beNat (slice bs (pos + 84) (pos + 84 + 8))))) = .ok w := by
  unfold Gen.signalDataRecord at hp
  rw [parse] at hp
  have hn := KeysNodup_nil
  obtain ⟨lvl1, h, hn1, -⟩ := parseFields_static_take 21 (k := 84) hp (by decide +kernel) hn
  simp only [List.drop_succ_cons, List.drop_zero] at h
  have gsad := parseFields_get_persist h hn1 "sensor_acquisition_date" (by decide)
  obtain ⟨v1, p1, h1, -, -, g1⟩ := parseFields_cons_ok' h hn1
  have g1 := g1 (by decide)
  simp only [parse, bind_ok, pure_ok] at h1
  obtain ⟨⟨w0, q0⟩, hu, w, hw, hfin⟩ := h1
  have hu' : parse (.uint 8) (lvl1 :: ctx) bs (pos + 84) = .ok (w0, q0) := by
    simp only [parse, bind_ok, pure_ok]; exact hu
  obtain ⟨-, rfl⟩ := parse_uint_val hu'
  simp only [Prod.mk.injEq] at hfin
  obtain ⟨rfl, -⟩ := hfin
  refine ⟨w, g1, ?_⟩
  rw [gsad]
  rw [resolve.eq_2 _ _ _ _ (by decide)] at hw
  cases hlk : lookupField lvl1 "sensor_acquisition_date" with
  | none => rw [hlk] at hw; exact hw
  | some x => rw [hlk] at hw; exact hw

def usCheck : Bool :=
  match ltF 16 Gen.signalDataRecord [] 0 with
  | some (tbl, _) =>
    tbl.any (fun e => e.1 = ["sensor_acquisition_date"] && !e.2.2.2.usesContext) &&
    tbl.any (fun e => e.1 = usPath && e.2.1 = 84 && e.2.2.1 = 8)
  | none => false

set_option maxRecDepth 100000 in
theorem usCheck_true : usCheck = true := by decide +kernel

theorem signal_us (ctx ctx' : Ctx) (bs bs' : Bytes) (pos : Nat) (v v' : Val) (e e' : Nat)
    (hp : parse Gen.signalDataRecord ctx bs pos = .ok (v, e)) (hp' : parse Gen.signalDataRecord ctx' bs' pos = .ok (v', e'))
    (hl : LiveAgree Gen.signalDataRecord pos bs bs') : v.leafAt usPath = v'.leafAt usPath := by
  obtain ⟨w, g, hm⟩ := signal_us_value ctx bs pos v e hp
  obtain ⟨w', g', hm'⟩ := signal_us_value ctx' bs' pos v' e' hp'
  have hc := usCheck_true
  unfold usCheck at hc
  split at hc
  next tbl0 e0 ht =>
    rw [Bool.and_eq_true, List.any_eq_true, List.any_eq_true] at hc
    obtain ⟨⟨ent1, hent1, hp1⟩, ⟨ent2, hent2, hp2⟩⟩ := hc
    simp only [Bool.and_eq_true, decide_eq_true_eq, Bool.not_eq_true'] at hp1 hp2
    obtain ⟨hpath1, hctx1⟩ := hp1
    obtain ⟨⟨hpath2, hoff2⟩, hw2⟩ := hp2
    have hsub := subAt_eq_of_entry _ signal_mem tbl0 e0 ht ent1 hent1 hctx1 (by rw [hpath1]; decide)
      ctx ctx' bs bs' pos v v' e e' hp hp' hl
    have hwin := window_of_entry _ tbl0 e0 ht ent2 hent2 (by rw [hpath2]; decide) pos bs bs' hl
    rw [hoff2, hw2, Nat.add_comm 84 pos] at hwin
    rw [hpath1] at hsub
    cases v with
    | dict kvs =>
      cases v' with
      | dict kvs' =>
        rw [subAt_single, subAt_single] at hsub
        rw [hsub, hwin, hm'] at hm
        simp only [Except.ok.injEq] at hm
        unfold usPath
        rw [Prov.leafAt_of_get g, Prov.leafAt_of_get g', hm]
      | _ => simp [Val.get?] at g'
    | _ => simp [Val.get?] at g
  next => simp at hc

/-! ### byte ranges of twin records -/

def rlPath : List String := ["preamble", "record_length"]

def rlCheck (c : Con) : Bool :=
  match ltF 16 c [] 0 with
  | some (tbl, _) => tbl.any (fun e => e.1 = rlPath && !e.2.2.2.usesContext && livePath e.1)
  | none => false

set_option maxRecDepth 100000 in
theorem rlCheck_processed : rlCheck Gen.processedDataRecord = true := by decide +kernel

set_option maxRecDepth 100000 in
theorem rlCheck_signal : rlCheck Gen.signalDataRecord = true := by decide +kernel

theorem twin_ranges (c : Con) (hc : c ∈ fixedRecords) (P : Nat) (haddr : Addr c P) (hchk : rlCheck c = true)
    (r r' : Val) (h : PaddingTwin c r r') :
    intAt r ["data", "start"] = intAt r' ["data", "start"] ∧ intAt r ["data", "stop"] = intAt r' ["data", "stop"] := by
  obtain ⟨ctx, ctx', bs, bs', pos, v, v', e, e', off, hp, hp', hl, rfl, rfl⟩ := h
  obtain ⟨rl, vp, -, a1, -, a3, -, a5, a6, -⟩ := haddr ctx bs pos v e hp
  obtain ⟨rl', vp', -, b1, -, b3, -, b5, b6, -⟩ := haddr ctx' bs' pos v' e' hp'
  have hrl : rl = rl' := by
    unfold rlCheck at hchk
    split at hchk
    next tbl0 e0 ht =>
      have := Typing2.leafAt_eq_of_covered c hc tbl0 e0 ht rlPath hchk ctx ctx' bs bs' pos v v' e e' hp hp' hl
      unfold rlPath at this
      rw [Prov.leafAt_of_get a1, Prov.leafAt_of_get a3, Prov.leafAt_of_get b1, Prov.leafAt_of_get b3] at this
      simp only [Val.leafAt, Option.some.injEq, Leaf.int.injEq] at this
      exact_mod_cast this
    next => simp at hchk
  subst hrl
  rw [intAt_adjust_data_start a5, intAt_adjust_data_start b5, intAt_adjust_data_stop a6, intAt_adjust_data_stop b6]
  exact ⟨rfl, rfl⟩

theorem all2_mapM {A B : Type} (R : A → A → Prop) (f : A → Except Err B) (hR : ∀ a b, R a b → f a = f b)
    (l l' : List A) (h : All2 R l l') : l.mapM f = l'.mapM f := by
  induction h with
  | nil => rfl
  | cons hab _ ih => simp only [List.mapM_cons, hR _ _ hab, ih]

def rangeOf (r : Val) : Except Err (Int × Int) := do
  let a ← intAt r ["data", "start"]
  let b ← intAt r ["data", "stop"]
  pure (a, b)

theorem ranges_twin (c : Con) (hc : c ∈ fixedRecords) (P : Nat) (haddr : Addr c P) (hchk : rlCheck c = true)
    (recs recs' : List Val) (h : All2 (PaddingTwin c) recs recs') :
    recs.mapM rangeOf = recs'.mapM rangeOf := by
  apply all2_mapM (PaddingTwin c) rangeOf _ _ _ h
  intro a b hab
  obtain ⟨h1, h2⟩ := twin_ranges c hc P haddr hchk a b hab
  unfold rangeOf
  rw [h1, h2]

/-! ### a line record parsed on one stream parses on any stream holding the same prefix window -/

open RpcIndep in
theorem reparse_generic (mid : List (String × Con)) (P : Nat) (hok : fieldsOK "record_start" mid = true)
    (hsz : Con.sizeFields false mid = some P) (haddr : Addr (lineCon mid) P)
    (ctx ctx' : Ctx) (bs bs' : Bytes) (pos pos' : Nat) (v : Val) (e : Nat)
    (h : parse (lineCon mid) ctx bs pos = .ok (v, e))
    (hw : slice bs pos (pos + P) = slice bs' pos' (pos' + P)) (hb' : pos' + P ≤ bs'.length) :
    ∃ v' e', parse (lineCon mid) ctx' bs' pos' = .ok (v', e') := by
  obtain ⟨rl, vp, -, a1, -, a3, -⟩ := haddr _ _ _ _ _ h
  unfold lineCon at h ⊢
  rw [parse] at h ⊢
  obtain ⟨v1, p1, h1, h2⟩ := parseFields_cons_ok h
  obtain ⟨hv1, hp1⟩ := parse_tell_inv h1
  rw [hv1, hp1] at h2
  have hl0 : setField [] "record_start" (Val.leaf (.int (pos' : Int))) =
      mapKey "record_start" (bumpLeaf ((pos' : Int) - (pos : Int))) (setField [] "record_start" (Val.leaf (.int (pos : Int)))) := by
    simp only [setField, mapKey, bumpLeaf, List.any_nil, List.map_nil]
    simp
    omega
  have hnd0 : KeysNodup (setField [] "record_start" (Val.leaf (.int (pos : Int)))) := KeysNodup_setField _ _ KeysNodup_nil
  obtain ⟨lvl1, t1, hnd1, t2, -, keep⟩ := run_shift "record_start" (bumpLeaf ((pos' : Int) - (pos : Int)))
    [("data", dataCon)] bs bs' _ ctx' mid P _ pos pos' _ hok hsz hw hb' h2 hnd0
  have k1 : lookupField lvl1 "record_start" = some (.leaf (.int (pos : Nat))) := by
    rw [keep _ (fieldsOK_not_mem _ _ hok), lookupField_setField, if_pos rfl]
  have k2 : lookupField lvl1 "preamble" = some vp := by
    rw [← parseFields_get_persist t1 hnd1 "preamble" (by decide)]; exact a1
  have k1' : lookupField (mapKey "record_start" (bumpLeaf ((pos' : Int) - (pos : Int))) lvl1) "record_start" =
      some (.leaf (.int (pos' : Nat))) := by
    rw [lookupField_mapKey_eq, k1]
    simp only [Option.map_some, bumpLeaf]
    congr 3; omega
  have k2' : lookupField (mapKey "record_start" (bumpLeaf ((pos' : Int) - (pos : Int))) lvl1) "preamble" = some vp := by
    rw [lookupField_mapKey_ne _ _ _ _ (by decide), k2]
  have htell : parse .tell ([] :: ctx') bs' pos' = .ok (.leaf (.int pos'), pos') := by rw [parse]; rfl
  rw [parseFields, htell]
  simp only [bind, Except.bind]
  rw [hl0, t2, parseFields, data_value k1' k2' a3]
  simp only [bind, Except.bind, parseFields]
  exact ⟨_, _, rfl⟩

open RpcIndep in
theorem IsLine.reparse {l : Con} {P : Nat} (hl : IsLine l P) (ctx ctx' : Ctx) (bs bs' : Bytes) (pos pos' : Nat) (v : Val) (e : Nat)
    (h : parse l ctx bs pos = .ok (v, e))
    (hw : slice bs pos (pos + P) = slice bs' pos' (pos' + P)) (hb' : pos' + P ≤ bs'.length) :
    ∃ v' e', parse l ctx' bs' pos' = .ok (v', e') := by
  rcases hl with ⟨rfl, rfl⟩ | ⟨rfl, rfl⟩
  · rw [signal_eq] at h ⊢
    exact reparse_generic signalMid 544 signal_ok signal_size (signal_eq ▸ LineAddr.signal_addr) ctx ctx' bs bs' pos pos' v e h hw hb'
  · rw [processed_eq] at h ⊢
    exact reparse_generic processedMid 192 processed_ok processed_size (processed_eq ▸ LineAddr.processed_addr) ctx ctx' bs bs' pos pos' v e h hw hb'

def layoutOf (t : Nat) : Con := if t = 10 then Gen.signalDataRecord else Gen.processedDataRecord

open RpcIndep in
theorem isLine_layout {l : Con} {t : Nat} (h : IsLine l (prefixOf t)) : l = layoutOf t := by
  unfold prefixOf at h
  unfold layoutOf
  split
  · rename_i ht; rw [if_pos ht] at h
    rcases h with ⟨rfl, -⟩ | ⟨-, h2⟩
    · rfl
    · omega
  · rename_i ht; rw [if_neg ht] at h
    rcases h with ⟨-, h2⟩ | ⟨rfl, -⟩
    · omega
    · rfl

open RpcIndep in
theorem isLine_pos {l : Con} {P : Nat} (h : IsLine l P) : 0 < P := by
  rcases h with ⟨-, rfl⟩ | ⟨-, rfl⟩ <;> omega

open RpcIndep in
/-- record `i` of a file is a parse of the FILE itself at 720 + i·L (rebased by 0) -/
theorem isRec_canonical (file : Bytes) (L t i : Nat) (r : Val) (h : IsRec file L t i r) :
    ∃ v e, parse (layoutOf t) [] file (720 + i * L) = .ok (v, e) ∧ r = adjustOffset 0 v := by
  obtain ⟨layout, bs, pos, v, e, hl, hp, hw, rfl⟩ := h
  have hlay := isLine_layout hl
  subst hlay
  have hb := hl.bound _ _ _ _ _ hp
  have hP := isLine_pos hl
  have hq : 720 + i * L + prefixOf t ≤ file.length := by
    have := congrArg List.length hw
    rw [length_slice', length_slice'] at this
    omega
  obtain ⟨v', e', hp'⟩ := IsLine.reparse hl [] [] bs file pos (720 + i * L) v e hp hw hq
  have hwin := hl.win [] [] bs file pos (720 + i * L) v v' e e' hp hp' hw
  refine ⟨v', e', hp', ?_⟩
  rw [← adjustOffset_add (((720 + i * L : Nat) : Int)) (-(pos : Int)) _ (by omega) v, hwin,
    adjustOffset_add _ _ 0 (by omega)]

theorem all2_of_index {A : Type} (R : A → A → Prop) : ∀ (l l' : List A), l.length = l'.length →
    (∀ (i : Nat) a b, l[i]? = some a → l'[i]? = some b → R a b) → All2 R l l'
  | [], [], _, _ => All2.nil
  | [], _ :: _, h, _ => by simp at h
  | _ :: _, [], h, _ => by simp at h
  | a :: l, b :: l', h, hi =>
    All2.cons (hi 0 a b rfl rfl) (all2_of_index R l l' (by simpa using h) (fun i x y hx hy => hi (i + 1) x y (by simpa using hx) (by simpa using hy)))

/-! ### the header: attributes, type code, shape, record length read live descriptor fields only -/

def hdrPaths : List (List String) :=
  [["sar_data_record_length"], ["prefix_suffix_data_locators", "sar_data_format_type_code"],
   ["sar_related_data_in_the_record", "number_of_lines_per_dataset"],
   ["sar_related_data_in_the_record", "number_of_data_groups_per_line"]]

def hdrCheck : Bool :=
  match ltF 16 Gen.imageFileDescriptor [] 0, Con.skel Gen.imageFileDescriptor [] with
  | some (tbl, _), some (.dict skvs) =>
    coveredBy tbl ((PVal.leavesKvs (Prov.headerFront skvs)).flatMap Sym.paths) && coveredBy tbl hdrPaths
  | _, _ => false

set_option maxRecDepth 100000 in
theorem hdrCheck_true : hdrCheck = true := by decide +kernel

theorem descriptor_mem : Gen.imageFileDescriptor ∈ fixedRecords := by
  unfold fixedRecords
  repeat (first | exact List.Mem.head _ | apply List.Mem.tail)

theorem header_twin (ctx ctx' : Ctx) (bs bs' : Bytes) (pos : Nat) (v v' : Val) (e e' : Nat)
    (hp : parse Gen.imageFileDescriptor ctx bs pos = .ok (v, e)) (hp' : parse Gen.imageFileDescriptor ctx' bs' pos = .ok (v', e'))
    (hl : LiveAgree Gen.imageFileDescriptor pos bs bs') :
    extractAttrs realLeafFns v.toPVal = extractAttrs realLeafFns v'.toPVal ∧ ∀ p ∈ hdrPaths, v.leafAt p = v'.leafAt p := by
  have hc := hdrCheck_true
  unfold hdrCheck at hc
  split at hc
  next tbl0 e0 skvs ht hs =>
    rw [Bool.and_eq_true] at hc
    obtain ⟨hc1, hc2⟩ := hc
    unfold coveredBy at hc1 hc2
    rw [List.all_eq_true] at hc1 hc2
    have hcov : ∀ p, tbl0.any (fun e => e.1 = p && !e.2.2.2.usesContext && livePath e.1) = true → v.leafAt p = v'.leafAt p :=
      fun p hany => Typing2.leafAt_eq_of_covered _ descriptor_mem tbl0 e0 ht p hany ctx ctx' bs bs' pos v v' e e' hp hp' hl
    refine ⟨?_, fun p hpm => hcov p (hc2 p hpm)⟩
    rw [parse_eq_skel _ _ hs ctx bs pos v e hp, parse_eq_skel _ _ hs ctx' bs' pos v' e' hp']
    have key : PVal.mapKvs (Sym.eval v) (Prov.headerFront skvs) = PVal.mapKvs (Sym.eval v') (Prov.headerFront skvs) := by
      apply pmapKvs_congr
      intro a ha
      apply eval_congr
      intro p hpa
      exact hcov p (hc1 p (List.mem_flatMap.mpr ⟨a, ha, hpa⟩))
    unfold Prov.headerFront at key
    simp only [PVal.map, extractAttrs, dissoc_map, removeNestingLayer_map, keepKeys_map, key]
  all_goals simp at hc

theorem leafAt_of_getPath : ∀ (p : List String) (v : Val) (l : Leaf), v.getPath p = some (.leaf l) → v.leafAt p = some l
  | [], v, l, h => by
    simp only [Val.getPath, Option.some.injEq] at h
    subst h; simp [Val.leafAt]
  | n :: rest, v, l, h => by
    rw [Val.getPath] at h
    cases hg : v.get? n with
    | none => rw [hg] at h; simp at h
    | some w =>
      rw [hg] at h
      rw [Prov.leafAt_of_get hg]
      exact leafAt_of_getPath rest w l h

theorem intAt_inv {v : Val} {p : List String} {i : Int} (h : intAt v p = .ok i) : v.getPath p = some (.leaf (.int i)) := by
  unfold intAt at h
  split at h
  · rename_i j hj; simp only [Except.ok.injEq] at h; rw [hj, h]
  · simp at h

theorem intAt_leafAt {v : Val} {p : List String} {i : Int} (h : intAt v p = .ok i) : v.leafAt p = some (.int i) :=
  leafAt_of_getPath p v _ (intAt_inv h)

theorem parseRecord_inv {c : Con} {bs : Bytes} {v : Val} (h : parseRecord c bs = .ok v) :
    ∃ e, parse c [] bs 0 = .ok (v, e) := by
  unfold parseRecord at h
  cases hparse : parse c [] bs 0 with
  | error e => rw [hparse] at h; simp [Except.map] at h
  | ok vp =>
    obtain ⟨w, p'⟩ := vp
    rw [hparse] at h
    simp only [Except.map, Except.ok.injEq] at h
    subst h
    exact ⟨p', rfl⟩

theorem signal_sp : ∀ p ∈ [usPath], ∀ (ctx ctx' : Ctx) (bs bs' : Bytes) (pos : Nat) (v v' : Val) (e e' : Nat),
    parse Gen.signalDataRecord ctx bs pos = .ok (v, e) → parse Gen.signalDataRecord ctx' bs' pos = .ok (v', e') →
    LiveAgree Gen.signalDataRecord pos bs bs' → v.leafAt p = v'.leafAt p := by
  intro p hp ctx ctx' bs bs' pos v v' e e' h1 h2 hl
  simp only [List.mem_cons, List.not_mem_nil, or_false] at hp
  subst hp
  exact signal_us ctx ctx' bs bs' pos v v' e e' h1 h2 hl

theorem lines_twin_any (t : Nat) (recs recs' : List Val) (h : All2 (PaddingTwin (layoutOf t)) recs recs') :
    transformLineMetadata (Val.toPVal.toPVals recs) = transformLineMetadata (Val.toPVal.toPVals recs') := by
  unfold layoutOf at h
  split at h
  · exact lines_twin _ signal_mem [usPath] signal_check signal_sp recs recs' h
  · exact lines_twin _ processed_mem [] processed_check (by intro p hp; cases hp) recs recs' h

theorem ranges_twin_any (t : Nat) (recs recs' : List Val) (h : All2 (PaddingTwin (layoutOf t)) recs recs') :
    recs.mapM rangeOf = recs'.mapM rangeOf := by
  unfold layoutOf at h
  split at h
  · exact ranges_twin _ signal_mem 544 LineAddr.signal_addr rlCheck_signal recs recs' h
  · exact ranges_twin _ processed_mem 192 LineAddr.processed_addr rlCheck_processed recs recs' h

end PadLines

/-- record-list level, processed-data records (levels 1.5 / 3.1) -/
theorem line_records_padding_inert_15 (recs recs' : List Val) (hn : 0 < recs.length)
    (h : ImgOpen.All2 (PaddingTwin Gen.processedDataRecord) recs recs') :
    (transformLineMetadata (Val.toPVal.toPVals recs)).sortKeys =
      (transformLineMetadata (Val.toPVal.toPVals recs')).sortKeys := by
  have _ := hn
  rw [PadLines.lines_twin _ PadLines.processed_mem [] PadLines.processed_check (by intro p hp; cases hp) recs recs' h]

/-- record-list level, signal-data records (level 1.1; the µs stamp is read relative to the ms stamp's date — both live) -/
theorem line_records_padding_inert_11 (recs recs' : List Val) (hn : 0 < recs.length)
    (h : ImgOpen.All2 (PaddingTwin Gen.signalDataRecord) recs recs') :
    (transformLineMetadata (Val.toPVal.toPVals recs)).sortKeys =
      (transformLineMetadata (Val.toPVal.toPVals recs')).sortKeys := by
  have _ := hn
  rw [PadLines.lines_twin _ PadLines.signal_mem [PadLines.usPath] PadLines.signal_check ?_ recs recs' h]
  intro p hp ctx ctx' bs bs' pos v v' e e' h1 h2 hl
  simp only [List.mem_cons, List.not_mem_nil, or_false] at hp
  subst hp
  exact PadLines.signal_us ctx ctx' bs bs' pos v v' e e' h1 h2 hl

/-- the lazy array's description (type code, shape, dtype, byte ranges) of two twin record lists under twin headers -/
theorem byte_ranges_padding_inert (c : Con) (hc : c = Gen.processedDataRecord ∨ c = Gen.signalDataRecord)
    (recs recs' : List Val) (h : ImgOpen.All2 (PaddingTwin c) recs recs') :
    recs.mapM (fun r => do
      let a ← intAt r ["data", "start"]
      let b ← intAt r ["data", "stop"]
      pure (a, b)) =
    recs'.mapM (fun r => do
      let a ← intAt r ["data", "start"]
      let b ← intAt r ["data", "stop"]
      pure (a, b)) := by
  rcases hc with rfl | rfl
  · exact PadLines.ranges_twin _ PadLines.processed_mem 192 LineAddr.processed_addr PadLines.rlCheck_processed recs recs' h
  · exact PadLines.ranges_twin _ PadLines.signal_mem 544 LineAddr.signal_addr PadLines.rlCheck_signal recs recs' h

open PadLines RpcIndep Layout LineAddr in
/-- FILE level: two image files that both open, whose descriptors agree on every live field and whose line records
    (record i at 720 + i·L, of the declared kind) agree on every live field, and that hold the same number of line records,
    give the same group name, the same image group (up to the order of members) and the same lazy-array description.

    `hlen` is needed: `hrec` only speaks about the records of the FIRST file, and a file cut after a whole record inside its
    last chunk still opens (a short read returns what is left) — e.g. `file' =` a two-record image, `file = file'.take (720 + L)`,
    `rpc = 2`: every other hypothesis holds, yet the second file has one more byte range. -/
theorem openImageFile_padding_inert (file file' : Bytes) (name : String) (rpc : Nat)
    (n1 n2 : String) (g1 g2 : ImageGroup)
    (h1 : openImageFile file name rpc = .ok (n1, g1)) (h2 : openImageFile file' name rpc = .ok (n2, g2))
    (hd1 hd2 : Val) (recs1 recs2 : List Val)
    (hr1 : readImageRecords file rpc = .ok (hd1, recs1)) (hr2 : readImageRecords file' rpc = .ok (hd2, recs2))
    (hn : 0 < recs1.length)
    (hlen : recs2.length = recs1.length)
    (hhdr : LiveAgree Gen.imageFileDescriptor 0 (file.take 720) (file'.take 720))
    (L : Nat) (hL : 0 < L) (hdrL : intAt hd1 ["sar_data_record_length"] = .ok (L : Int))
    (t : Nat) (ht : t = 10 ∨ t = 11)
    (hrl1 : ∀ r ∈ recs1, intAt r ["preamble", "record_length"] = .ok (L : Int))
    (hty1 : ∀ r ∈ recs1, intAt r ["preamble", "record_type"] = .ok (t : Int))
    (hrl2 : ∀ r ∈ recs2, intAt r ["preamble", "record_length"] = .ok (L : Int))
    (hty2 : ∀ r ∈ recs2, intAt r ["preamble", "record_type"] = .ok (t : Int))
    (hrec : ∀ i, i < recs1.length →
      LiveAgree (if t = 10 then Gen.signalDataRecord else Gen.processedDataRecord) (720 + i * L) file file') :
    n1 = n2 ∧ g1.group.sortKeys = g2.group.sortKeys ∧ g1.array = g2.array := by
  have _ := hn
  have _ := ht
  obtain ⟨hdA, recsA, eA, tA, nA⟩ := ImgOpen.open_inv _ _ _ _ _ h1
  obtain ⟨hdB, recsB, eB, tB, nB⟩ := ImgOpen.open_inv _ _ _ _ _ h2
  rw [hr1] at eA; rw [hr2] at eB
  cases eA; cases eB
  rw [nA] at nB
  cases nB
  -- the two reads
  unfold readImageRecords at hr1 hr2
  simp only [bind_ok] at hr1 hr2
  obtain ⟨hd, e1, n, en, L', eL, hr1⟩ := hr1
  obtain ⟨hd', e1', n', en', L'', eL', hr2⟩ := hr2
  split at hr1
  · simp only [bind_ok] at hr1
    obtain ⟨_, hr1, -⟩ := hr1
    cases hr1
  split at hr2
  · simp only [bind_ok] at hr2
    obtain ⟨_, hr2, -⟩ := hr2
    cases hr2
  simp only [bind_ok, pure_ok] at hr1 hr2
  obtain ⟨r1, hc1, heq1⟩ := hr1
  obtain ⟨r2, hc2, heq2⟩ := hr2
  simp only [Prod.mk.injEq] at heq1 heq2
  obtain ⟨rfl, rfl⟩ := heq1
  obtain ⟨rfl, rfl⟩ := heq2
  rw [hdrL] at eL
  cases eL
  -- the headers agree on what is read from them
  obtain ⟨pe, hpA⟩ := parseRecord_inv e1
  obtain ⟨pe', hpB⟩ := parseRecord_inv e1'
  obtain ⟨hattr, hpaths⟩ := header_twin [] [] _ _ 0 hd hd' pe pe' hpA hpB hhdr
  have hLL : L'' = (L : Int) := by
    have := hpaths ["sar_data_record_length"] (by simp [hdrPaths])
    rw [intAt_leafAt hdrL, intAt_leafAt eL'] at this
    simp only [Option.some.injEq, Leaf.int.injEq] at this
    exact this.symm
  subst hLL
  -- the records are twins, pairwise
  have h0 : ∀ nn : Int, chunkOffsets (if nn ≤ 0 then [] else chunkSizes nn.toNat rpc) 1 =
      chunkOffsets.go 1 0 (if nn ≤ 0 then [] else chunkSizes nn.toNat rpc) := fun _ => rfl
  rw [h0, show (720 : Nat) = 720 + 0 * L by omega] at hc1 hc2
  obtain ⟨a1, -, -, -⟩ := readChunks_canon file L hL t _ 0 r1 hc1 hrl1 hty1
  obtain ⟨b1, -, -, -⟩ := readChunks_canon file' L hL t _ 0 r2 hc2 hrl2 hty2
  have htw : ImgOpen.All2 (PaddingTwin (layoutOf t)) r1 r2 := by
    apply all2_of_index _ _ _ hlen.symm
    intro i a b ha hb
    obtain ⟨hi, -⟩ := List.getElem?_eq_some_iff.mp ha
    obtain ⟨v, e, hp, rfl⟩ := isRec_canonical file L t i a (by simpa using a1 i a ha)
    obtain ⟨v', e', hp', rfl⟩ := isRec_canonical file' L t i b (by simpa using b1 i b hb)
    exact ⟨[], [], file, file', 720 + i * L, v, v', e, e', 0, hp, hp', hrec i hi, rfl, rfl⟩
  -- assemble
  obtain ⟨ranges, typeCode, nl, np, dtype, hattrs, x1, x2, x3, x4, x5, x6, x7, vars, groups, attrs, x8, x9⟩ :=
    ImgOpen.transform_inv _ _ _ _ tA
  obtain ⟨ranges', typeCode', nl', np', dtype', hattrs', y1, y2, y3, y4, y5, y6, y7, vars', groups', attrs', y8, y9⟩ :=
    ImgOpen.transform_inv _ _ _ _ tB
  have hranges := ranges_twin_any t r1 r2 htw
  unfold rangeOf at hranges
  rw [hranges, y1] at x1
  cases x1
  have htc := hpaths ["prefix_suffix_data_locators", "sar_data_format_type_code"] (by simp [hdrPaths])
  rw [leafAt_of_getPath _ _ _ x2, leafAt_of_getPath _ _ _ y2] at htc
  simp only [Option.some.injEq, Leaf.str.injEq] at htc
  subst htc
  have hnl := hpaths ["sar_related_data_in_the_record", "number_of_lines_per_dataset"] (by simp [hdrPaths])
  rw [intAt_leafAt x3, intAt_leafAt y3] at hnl
  simp only [Option.some.injEq, Leaf.int.injEq] at hnl
  subst hnl
  have hnp := hpaths ["sar_related_data_in_the_record", "number_of_data_groups_per_line"] (by simp [hdrPaths])
  rw [intAt_leafAt x4, intAt_leafAt y4] at hnp
  simp only [Option.some.injEq, Leaf.int.injEq] at hnp
  subst hnp
  rw [x5] at y5
  cases y5
  rw [hattr, y6] at x6
  cases x6
  rw [lines_twin_any t r1 r2 htw, y8] at x8
  cases x8
  refine ⟨rfl, by rw [x9, y9], ?_⟩
  rw [x7, y7]

end Alos2

/-
Provenance theorems for the two leader records with counts declared inside the file: the attitude record (n points)
and the data-quality summary (n channels) — for EVERY n and every file content that parses, the group built by the
transformer is the frozen documented tree for n (`Spec.attitude n`, `Spec.dataQualitySummary n`) with every symbolic
leaf evaluated on the parsed record.

Chain: a successful parse of the layout with a count EXPRESSION is a successful parse of the same layout with the
literal count `n` (`withCount`, `attitude_parse_const`, `dqs_parse_const`) ⟹ shape (`parse_eq_skel`) ⟹ naturality ⟹
the symbolic pipeline on the skeleton for `n`: a finite case split `n = 1 … 16` for the data-quality summary (the
padding arithmetic forces `n ≤ 16`), the column argument (`Lines.col`, `Lines.merge_uniform`) for the attitude
record, whose `n` is unbounded.
-/
import Alos2.Proofs.Provenance
import Alos2.Proofs.Lines
import Alos2.Proofs.Natural2

namespace Alos2

namespace Prov3

open Layout Natural Lines

attribute [local simp] Natural.map_leaf Natural.map_cstr Natural.map_cint Natural.map_list Natural.map_tup Natural.map_dict



/-! ### 1. replacing a count expression by the literal it evaluates to -/

mutual
/-- the layout with every non-literal array count replaced by the literal `n` -/
def withCount (n : Nat) : Con → Con
  | .struct fs => .struct (withCountFields n fs)
  | .array (.const k) elem => .array (.const k) (withCount n elem)
  | .array _ elem => .array (.const n) (withCount n elem)
  | .factor f sub => .factor f (withCount n sub)
  | .wmeta a sub => .wmeta a (withCount n sub)
  | .enum t sub => .enum t (withCount n sub)
  | c => c
def withCountFields (n : Nat) : List (String × Con) → List (String × Con)
  | [] => []
  | (k, c) :: rest => (k, withCount n c) :: withCountFields n rest
end

theorem parseFields_cons_intro {name : String} {c : Con} {rest : List (String × Con)}
    {lvl : List (String × Val)} {outer : Ctx} {bs : Bytes} {pos : Nat} {v1 : Val} {p1 : Nat} {r : Val × Nat}
    (h1 : parse c (lvl :: outer) bs pos = .ok (v1, p1))
    (h2 : parseFields rest (setField lvl name v1 :: outer) bs p1 = .ok r) :
    parseFields ((name, c) :: rest) (lvl :: outer) bs pos = .ok r := by
  rw [parseFields]
  simp only [bind_ok]
  exact ⟨(v1, p1), h1, h2⟩

theorem parse_array_const {e : Expr} {elem : Con} {ctx : Ctx} {bs : Bytes} {pos : Nat} {r : Val × Nat}
    (h : parse (.array e elem) ctx bs pos = .ok r) :
    ∃ n : Nat, e.eval ctx = some (n : Int) ∧ parse (.array (.const n) elem) ctx bs pos = .ok r := by
  rw [parse] at h
  simp only [bind_ok] at h
  obtain ⟨n, h0, h1⟩ := h
  refine ⟨n, evalLen_ok h0, ?_⟩
  rw [parse]
  simp only [bind_ok]
  refine ⟨n, ?_, h1⟩
  have := evalLen_const_eq ctx (v := (n : Int)) (by omega)
  simpa using this

theorem attitude_withCount (n : Nat) : withCount n Gen.attitudeRecord = .struct [
    ("preamble", .struct [
      ("record_sequence_number", .uint 4),
      ("first_record_subtype", .uint 1),
      ("record_type", .uint 1),
      ("second_record_subtype", .uint 1),
      ("third_record_subtype", .uint 1),
      ("record_length", .uint 4)]),
    ("number_of_points", .aint (.const 4)),
    ("data_points", .array (.const n) (.struct [
        ("time", .struct [
          ("day_of_year", .aint (.const 4)),
          ("millisecond_of_day", .aint (.const 8))]),
        ("attitude", .struct [
          ("pitch_error", .aint (.const 4)),
          ("roll_error", .aint (.const 4)),
          ("yaw_error", .aint (.const 4)),
          ("pitch", .wmeta [("units", "deg")] (.afloat (.const 14))),
          ("roll", .wmeta [("units", "deg")] (.afloat (.const 14))),
          ("yaw", .wmeta [("units", "deg")] (.afloat (.const 14)))]),
        ("rates", .struct [
          ("pitch_error", .aint (.const 4)),
          ("roll_error", .aint (.const 4)),
          ("yaw_error", .aint (.const 4)),
          ("pitch", .wmeta [("units", "deg/s")] (.afloat (.const 14))),
          ("roll", .wmeta [("units", "deg/s")] (.afloat (.const 14))),
          ("yaw", .wmeta [("units", "deg/s")] (.afloat (.const 14)))])])),
    ("blanks", .pstr (.sub (.path ["preamble", "record_length"]) (.add (.const 16) (.mul (.path ["number_of_points"]) (.const 120)))))] := by
  simp [Gen.attitudeRecord, withCount, withCountFields]

/-- a successful parse of the attitude record is a successful parse of the layout with the literal count -/
theorem attitude_parse_const (ctx : Ctx) (bs : Bytes) (pos : Nat) (v : Val) (pos' : Nat)
    (h : parse Gen.attitudeRecord ctx bs pos = .ok (v, pos')) :
    ∃ n : Nat, v.getPath ["number_of_points"] = some (.leaf (.int n)) ∧
      parse (withCount n Gen.attitudeRecord) ctx bs pos = .ok (v, pos') := by
  unfold Gen.attitudeRecord at h
  rw [parse] at h
  layout_step h with vp p1 h1
  layout_step h with vn p2 h2
  layout_step h with va p3 h3
  have hn2 := KeysNodup_setField "number_of_points" vn (KeysNodup_setField "preamble" vp KeysNodup_nil)
  have g2 := parseFields_get_persist h (KeysNodup_setField "data_points" va hn2) "number_of_points" (by decide)
  obtain ⟨n, hn, h3'⟩ := parse_array_const h3
  obtain ⟨w, m, hw, _, rfl⟩ := parse_aint_inv h2
  simp [Expr.eval, resolve, lookupField_setField, Val.toInt?] at hn
  simp [lookupField_setField] at g2
  refine ⟨n, ?_, ?_⟩
  · simp [Val.getPath, g2, hn]
  · rw [attitude_withCount, parse]
    exact parseFields_cons_intro h1 (parseFields_cons_intro h2 (parseFields_cons_intro h3' h))

theorem parse_struct_intro {fs : List (String × Con)} {ctx : Ctx} {bs : Bytes} {pos : Nat} {r : Val × Nat}
    (h : parseFields fs ([] :: ctx) bs pos = .ok r) : parse (.struct fs) ctx bs pos = .ok r := by
  rw [parse]; exact h

def dqsN (n : Nat) : Con :=
  .struct [
    ("preamble", .struct [
      ("record_sequence_number", .uint 4),
      ("first_record_subtype", .uint 1),
      ("record_type", .uint 1),
      ("second_record_subtype", .uint 1),
      ("third_record_subtype", .uint 1),
      ("record_length", .uint 4)]),
    ("record_number", .aint (.const 4)),
    ("sar_channel_id", .pstr (.const 4)),
    ("date_of_the_last_calibration_update", .pstr (.const 6)),
    ("number_of_channels", .aint (.const 4)),
    ("absolute_radiometric_data_quality", .struct [
      ("islr", .wmeta [("units", "dB")] (.afloat (.const 16))),
      ("pslr", .wmeta [("units", "dB")] (.afloat (.const 16))),
      ("azimuth_ambiguity_rate", .afloat (.const 16)),
      ("range_ambiguity_rate", .afloat (.const 16)),
      ("estimate_of_snr", .wmeta [("units", "dB")] (.afloat (.const 16))),
      ("ber", .wmeta [("units", "dB")] (.afloat (.const 16))),
      ("slant_range_resolution", .wmeta [("units", "m")] (.afloat (.const 16))),
      ("azimuth_resolution", .wmeta [("units", "m")] (.afloat (.const 16))),
      ("radiometric_resolution", .wmeta [("units", "dB")] (.afloat (.const 16))),
      ("instantaneous_dynamic_range", .wmeta [("units", "dB")] (.afloat (.const 16))),
      ("nominal_absolute_radiometric_calibration_uncertainty", .struct [
        ("magnitude", .wmeta [("units", "dB")] (.afloat (.const 16))),
        ("phase", .wmeta [("units", "deg")] (.afloat (.const 16)))])]),
    ("relative_radiometric_quality", .struct [
      ("nominal_relative_radiometric_calibration_uncertainty", .array (.const n) (.struct [
          ("magnitude", .wmeta [("units", "dB")] (.afloat (.const 16))),
          ("phase", .wmeta [("units", "deg")] (.afloat (.const 16)))])),
      ("blanks", .pstr (.sub (.const 512) (.mul (.path ["_", "number_of_channels"]) (.const 32))))]),
    ("absolute_geometric_quality", .struct [
      ("absolute_location_error", .struct [
        ("along_track", .wmeta [("units", "m")] (.afloat (.const 16))),
        ("across_track", .wmeta [("units", "m")] (.afloat (.const 16)))]),
      ("geometric_distortion_scale", .struct [
        ("line_direction", .afloat (.const 16)),
        ("pixel_direction", .afloat (.const 16))]),
      ("geometric_distortion_skew", .afloat (.const 16)),
      ("scene_orientation_error", .afloat (.const 16))]),
    ("relative_geometric_quality", .struct [
      ("relative_misregistration_error", .array (.const n) (.struct [
          ("along_track", .wmeta [("units", "m")] (.afloat (.const 16))),
          ("across_track", .wmeta [("units", "m")] (.afloat (.const 16)))])),
      ("blanks", .pstr (.add (.const 534) (.mul (.sub (.const 8) (.path ["_", "number_of_channels"])) (.const 32))))])]

theorem dqs_withCount (n : Nat) : withCount n Gen.dataQualitySummaryRecord = dqsN n := by
  simp [Gen.dataQualitySummaryRecord, withCount, withCountFields, dqsN]

theorem dqs_parse_const (ctx : Ctx) (bs : Bytes) (pos : Nat) (v : Val) (pos' : Nat)
    (h : parse Gen.dataQualitySummaryRecord ctx bs pos = .ok (v, pos')) :
    ∃ n : Nat, v.getPath ["number_of_channels"] = some (.leaf (.int n)) ∧
      parse (withCount n Gen.dataQualitySummaryRecord) ctx bs pos = .ok (v, pos') := by
  unfold Gen.dataQualitySummaryRecord at h
  rw [parse] at h
  layout_step h with v1 p1 h1
  layout_step h with v2 p2 h2
  layout_step h with v3 p3 h3
  layout_step h with v4 p4 h4
  layout_step h with v5 p5 h5
  have hn5 := KeysNodup_setField "number_of_channels" v5 (KeysNodup_setField "date_of_the_last_calibration_update" v4
    (KeysNodup_setField "sar_channel_id" v3 (KeysNodup_setField "record_number" v2
    (KeysNodup_setField "preamble" v1 KeysNodup_nil))))
  have g1 := parseFields_get_persist h hn5 "number_of_channels" (by decide)
  layout_step h with v6 p6 h6
  layout_step h with v7 p7 h7
  layout_step h with v8 p8 h8
  layout_step h with v9 p9 h9
  obtain ⟨w, m, hw, _, rfl⟩ := parse_aint_inv h5
  rw [parse] at h7 h9
  layout_step h7 with va q1 h71
  layout_step h9 with vc q3 h91
  obtain ⟨n1, hn1, h71'⟩ := parse_array_const h71
  obtain ⟨n2, hn2, h91'⟩ := parse_array_const h91
  simp [Expr.eval, resolve, lookupField_setField, Val.toInt?] at hn1 hn2
  simp [lookupField_setField] at g1
  have e12 : n2 = n1 := by omega
  subst e12
  refine ⟨n2, ?_, ?_⟩
  · simp [Val.getPath, g1, hn1]
  · rw [dqs_withCount, dqsN, parse]
    exact parseFields_cons_intro h1 (parseFields_cons_intro h2 (parseFields_cons_intro h3 (parseFields_cons_intro h4
      (parseFields_cons_intro h5 (parseFields_cons_intro h6
      (parseFields_cons_intro (parse_struct_intro (parseFields_cons_intro h71' h7))
      (parseFields_cons_intro h8
      (parseFields_cons_intro (parse_struct_intro (parseFields_cons_intro h91' h9)) h))))))))

/-! ### 2. data-quality summary: the closed check for every admissible `n` -/


set_option maxRecDepth 100000 in
theorem dqs_check : (List.range 16).all (fun k =>
    Prov.ogbeq ((Con.skel (withCount (k + 1) Gen.dataQualitySummaryRecord) []).bind
        (fun s => (transformDataQualitySummary s).map Grp.sortKeys))
      (some (Spec.dataQualitySummary (k + 1)))) = true := by decide +kernel

/-! ### 3. attitude: the column argument -/

variable {α β : Type}

/-! ### columns through `transform_nested`, `separate_attrs`, `transform_time` -/

theorem transformNested1_col (n : Nat) (hn : 0 < n) (g : Nat → α → β) (d : KVs α) (hnd : (d.map Prod.fst).Nodup) :
    transformNested1 (col n g (.dict d)) = .dict (d.map (vm (col n g))) := by
  obtain ⟨rest, hc, hrest⟩ := col_cons n hn g (.dict d)
  have hm := merge_uniform n hn g d hnd
  rw [hc]
  simp only [map_dict] at hrest hm ⊢
  simp only [transformNested1]
  rw [hrest, hm]

theorem transformNested_col (n : Nat) (hn : 0 < n) (g : Nat → α → β) (d : KVs α) (hnd : (d.map Prod.fst).Nodup) :
    transformNested (col n g (.dict d)) = .dict (d.map (fun kv => (kv.1, transformNested1 (col n g kv.2)))) := by
  unfold transformNested
  rw [transformNested1_col n hn g d hnd]
  simp [List.map_map, Function.comp_def]

theorem separateAttrs_col (n : Nat) (hn : 0 < n) (g : Nat → α → β) (v : PVal α) :
    separateAttrs (col n g v) = (col n g (fst1 v), (att1 v).map (g 0)) := by
  have := toRowsVar_col n hn g v
  unfold toRowsVar at this
  simp only [PVal.tup.injEq, List.cons.injEq, true_and, and_true] at this
  exact Prod.ext this.1 this.2

theorem zip_map_same {A B C : Type} (f : A → B) (h : A → C) (l : List A) :
    List.zip (l.map f) (l.map h) = l.map (fun a => (f a, h a)) := by
  induction l with
  | nil => rfl
  | cons a l ih => simp [ih]

theorem transformTime_col (lf : LeafFns2 β) (n : Nat) (g : Nat → α → β) (a b : α) :
    transformTime lf (.dict [("day_of_year", col n g (.leaf a)), ("millisecond_of_day", col n g (.leaf b))]) =
      some (.list ((List.range n).map (fun i => .leaf (lf.attitudeTime (g i a) (g i b))))) := by
  simp only [transformTime, kvGet, col, map_leaf]
  simp [zip_map_same, List.mapM_map, Function.comp_def]
  exact mapM_some_map _ _


/-- the path skeleton of one attitude point -/
def attE : KVs Sym :=
  [("time", .dict [
      ("day_of_year", .leaf (.path ["time", "day_of_year"])),
      ("millisecond_of_day", .leaf (.path ["time", "millisecond_of_day"]))]),
   ("attitude", .dict [
      ("pitch_error", .leaf (.path ["attitude", "pitch_error"])),
      ("roll_error", .leaf (.path ["attitude", "roll_error"])),
      ("yaw_error", .leaf (.path ["attitude", "yaw_error"])),
      ("pitch", .tup [.leaf (.path ["attitude", "pitch"]), .dict [("units", .cstr "deg")]]),
      ("roll", .tup [.leaf (.path ["attitude", "roll"]), .dict [("units", .cstr "deg")]]),
      ("yaw", .tup [.leaf (.path ["attitude", "yaw"]), .dict [("units", .cstr "deg")]])]),
   ("rates", .dict [
      ("pitch_error", .leaf (.path ["rates", "pitch_error"])),
      ("roll_error", .leaf (.path ["rates", "roll_error"])),
      ("yaw_error", .leaf (.path ["rates", "yaw_error"])),
      ("pitch", .tup [.leaf (.path ["rates", "pitch"]), .dict [("units", .cstr "deg/s")]]),
      ("roll", .tup [.leaf (.path ["rates", "roll"]), .dict [("units", .cstr "deg/s")]]),
      ("yaw", .tup [.leaf (.path ["rates", "yaw"]), .dict [("units", .cstr "deg/s")]])])]

/-- the leaf map of point `i` -/
def gg (i : Nat) : Sym → Sym := preS ["data_points", "[" ++ toString i ++ "]"]

/-- the columns `transform_nested` builds from `n` points -/
def attCols (n : Nat) : KVs Sym :=
  [("time", .dict [
      ("day_of_year", col n gg (.leaf (.path ["time", "day_of_year"]))),
      ("millisecond_of_day", col n gg (.leaf (.path ["time", "millisecond_of_day"])))]),
   ("attitude", .dict [
      ("pitch_error", col n gg (.leaf (.path ["attitude", "pitch_error"]))),
      ("roll_error", col n gg (.leaf (.path ["attitude", "roll_error"]))),
      ("yaw_error", col n gg (.leaf (.path ["attitude", "yaw_error"]))),
      ("pitch", col n gg (.tup [.leaf (.path ["attitude", "pitch"]), .dict [("units", .cstr "deg")]])),
      ("roll", col n gg (.tup [.leaf (.path ["attitude", "roll"]), .dict [("units", .cstr "deg")]])),
      ("yaw", col n gg (.tup [.leaf (.path ["attitude", "yaw"]), .dict [("units", .cstr "deg")]]))]),
   ("rates", .dict [
      ("pitch_error", col n gg (.leaf (.path ["rates", "pitch_error"]))),
      ("roll_error", col n gg (.leaf (.path ["rates", "roll_error"]))),
      ("yaw_error", col n gg (.leaf (.path ["rates", "yaw_error"]))),
      ("pitch", col n gg (.tup [.leaf (.path ["rates", "pitch"]), .dict [("units", .cstr "deg/s")]])),
      ("roll", col n gg (.tup [.leaf (.path ["rates", "roll"]), .dict [("units", .cstr "deg/s")]])),
      ("yaw", col n gg (.tup [.leaf (.path ["rates", "yaw"]), .dict [("units", .cstr "deg/s")]]))])]

theorem att_cols (n : Nat) (hn : 0 < n) :
    transformNested (col n gg (.dict attE)) = .dict (attCols n) := by
  rw [transformNested_col n hn gg attE (by decide)]
  simp only [attE, List.map_cons, List.map_nil]
  rw [transformNested1_col n hn gg _ (by decide), transformNested1_col n hn gg _ (by decide),
    transformNested1_col n hn gg _ (by decide)]
  simp only [List.map_cons, List.map_nil, vm, attCols]

/-- the pipeline after `transform_nested` -/
def attCore (lf : LeafFns2 α) (cols : KVs α) : Option (Grp α) := do
  let applied ← cols.mapM (fun kv =>
    if kv.1 = "time" then (transformTime lf kv.2).map (fun r => (kv.1, r))
    else if kv.1 = "attitude" ∨ kv.1 = "rates" then some (kv.1, transformAttSection lf kv.2)
    else some kv)
  match prependDim "points" (.dict applied) with
  | .dict dimmed => do
    let copied ← copyTime dimmed
    pure (asGroup (.dict (copied.map (fun kv => (kv.1, .tup [kv.2, .dict [("coordinates", .list [.cstr "time"])]])))))
  | _ => none

theorem transformAttitude_core (lf : LeafFns2 α) (kvs : KVs α) (p0 : KVs α) (rest : List (PVal α)) (cols : KVs α)
    (hget : kvGet kvs "data_points" = some (.list (.dict p0 :: rest)))
    (hcols : transformNested (.list (.dict p0 :: rest)) = .dict cols) :
    transformAttitude lf (.dict kvs) = attCore lf cols := by
  unfold transformAttitude attCore
  simp only [hget, hcols, Gen.Config.attitude__transform_attitude.transformers, ne_eq, not_true_eq_false, if_false]
  rfl

theorem att_core (ρ : String → Sym → Bool) (δ : Sym → Desig) (n : Nat) (hn : 0 < n) :
    (attCore (symLeafFns2 ρ δ) (attCols n)).map Grp.sortKeys = some (Spec.attitude n) := by
  unfold attCore attCols
  simp only [List.mapM_cons, List.mapM_nil, transformTime_col]
  simp [transformAttSection, separateAttrs_col n hn, fst1, att1]
  simp [col, symLeafFns2, symLeafFns, prependDim, prependDim1, copyTime, kvGet, kvSet, dissoc]
  simp [Function.comp_def, onLeaf, asGroup, asGroups, varsOf, itemType, asVariable, dimsOf, attrsOf, kvUnion, kvSet,
    Grp.sortKeys, Grp.sortGroups, GVar.sortKeys, sortByKey, insertByKey, Spec.attitude, gg, preS]

theorem transformAttitude_empty (lf : LeafFns2 α) (kvs : KVs α)
    (hget : kvGet kvs "data_points" = some (.list [])) : transformAttitude lf (.dict kvs) = none := by
  unfold transformAttitude
  simp only [hget]
  split <;> rfl

/-! ### the skeleton of the attitude record with `n` points -/

theorem skel_array_at (p : List String) (n : Nat) (rec : Con) (S : PVal Sym) (hS : Con.skel rec [] = some S) :
    Con.skel (.array (.const n) rec) p =
      some (.list ((List.range n).map (fun i => S.map (preS (p ++ ["[" ++ toString i ++ "]"]))))) := by
  rw [Con.skel]
  have : ¬ ((n : Int) < 0) := by omega
  simp only [this, if_false, Int.toNat_natCast]
  have : (fun (i : Nat) => Con.skel rec (p ++ ["[" ++ toString i ++ "]"])) =
      (fun i => some (S.map (preS (p ++ ["[" ++ toString i ++ "]"])))) := by
    funext i
    have := (skel_prefix_joint (p ++ ["[" ++ toString i ++ "]"])).1 rec []
    rw [List.append_nil] at this
    rw [this, hS]
    rfl
  rw [this, mapM_some_map]
  rfl

theorem skel_struct4 (n1 n2 n3 n4 : String) (c1 c2 c3 c4 : Con) (s1 s2 s3 s4 : PVal Sym)
    (h12 : n1 ≠ n2) (h13 : n1 ≠ n3) (h14 : n1 ≠ n4) (h23 : n2 ≠ n3) (h24 : n2 ≠ n4) (h34 : n3 ≠ n4)
    (h1 : Con.skel c1 [n1] = some s1) (h2 : Con.skel c2 [n2] = some s2) (h3 : Con.skel c3 [n3] = some s3)
    (h4 : Con.skel c4 [n4] = some s4) :
    Con.skel (.struct [(n1, c1), (n2, c2), (n3, c3), (n4, c4)]) [] =
      some (.dict [(n1, s1), (n2, s2), (n3, s3), (n4, s4)]) := by
  simp [Con.skel, Con.skelFields, h1, h2, h3, h4, kvSet, h12, h13, h14, h23, h24, h34]

theorem att_skel (n : Nat) : ∃ P, Con.skel (withCount n Gen.attitudeRecord) [] = some (.dict [
    ("preamble", P), ("number_of_points", .leaf (.path ["number_of_points"])),
    ("data_points", col n gg (.dict attE)), ("blanks", .leaf (.path ["blanks"]))]) := by
  rw [attitude_withCount]
  have hP : ∃ P, Con.skel (.struct [
      ("record_sequence_number", .uint 4),
      ("first_record_subtype", .uint 1),
      ("record_type", .uint 1),
      ("second_record_subtype", .uint 1),
      ("third_record_subtype", .uint 1),
      ("record_length", .uint 4)]) ["preamble"] = some P := by
    simp [Con.skel, Con.skelFields]
  obtain ⟨P, hP⟩ := hP
  refine ⟨P, ?_⟩
  apply skel_struct4 _ _ _ _ _ _ _ _ _ _ _ _ (by decide) (by decide) (by decide) (by decide) (by decide) (by decide) hP
  · simp [Con.skel]
  · exact skel_array_at ["data_points"] n _ (.dict attE) (by rfl)
  · simp [Con.skel]

theorem att_symbolic (ρ : String → Sym → Bool) (δ : Sym → Desig) (n : Nat) (hn : 0 < n) (P A B : PVal Sym) :
    (transformAttitude (symLeafFns2 ρ δ) (.dict [("preamble", P), ("number_of_points", A),
      ("data_points", col n gg (.dict attE)), ("blanks", B)])).map Grp.sortKeys = some (Spec.attitude n) := by
  obtain ⟨rest, hc, _⟩ := col_cons n hn gg (.dict attE)
  have hcols := att_cols n hn
  rw [hc] at hcols
  rw [Natural.map_dict] at hc hcols
  rw [transformAttitude_core _ _ _ rest (attCols n) (by rw [← hc]; simp [kvGet]) hcols]
  exact att_core ρ δ n hn

/-- the classification oracle determined by the parsed record -/
def desigOf (v : Val) : Sym → Desig := fun s => realLeafFns2.desig (s.eval v)

theorem compat2_rhoOf (v : Val) :
    Compat2 (Sym.eval v) (symLeafFns2 (Prov.rhoOf v) (desigOf v)) realLeafFns2 where
  toCompat := Prov.compat_rhoOf v
  compositeDatetime := fun a b => by simp [symLeafFns2, Sym.eval]
  attitudeTime := fun a b => by simp [symLeafFns2, Sym.eval]
  desig := fun a => rfl

end Prov3

theorem attitude_provenance (ctx : Ctx) (bs : Bytes) (pos : Nat) (v : Val) (pos' : Nat)
    (h : parse Gen.attitudeRecord ctx bs pos = .ok (v, pos')) :
    ∃ n : Nat, v.getPath ["number_of_points"] = some (.leaf (.int n)) ∧
      (0 < n → (transformAttitude realLeafFns2 v.toPVal).map Grp.sortKeys = some ((Spec.attitude n).map (Sym.eval v))) ∧
      (n = 0 → transformAttitude realLeafFns2 v.toPVal = none) := by
  obtain ⟨n, hg, hp⟩ := Prov3.attitude_parse_const ctx bs pos v pos' h
  obtain ⟨P, hs⟩ := Prov3.att_skel n
  have heq := parse_eq_skel _ _ hs ctx bs pos v pos' hp
  refine ⟨n, hg, fun hn => ?_, fun h0 => ?_⟩
  · rw [heq, transformAttitude_natural _ _ _ (Prov3.compat2_rhoOf v), Option.map_map]
    have : (Grp.sortKeys ∘ Grp.map (Sym.eval v)) = (Grp.map (Sym.eval v) ∘ Grp.sortKeys) := by
      funext g; simp [Prov.sortKeys_map]
    rw [this, ← Option.map_map, Prov3.att_symbolic _ _ n hn, Option.map_some]
  · subst h0
    rw [heq, transformAttitude_natural _ _ _ (Prov3.compat2_rhoOf v),
      Prov3.transformAttitude_empty _ _ (by simp [kvGet, Lines.col])]
    rfl

theorem data_quality_provenance (ctx : Ctx) (bs : Bytes) (pos : Nat) (v : Val) (pos' : Nat)
    (h : parse Gen.dataQualitySummaryRecord ctx bs pos = .ok (v, pos')) :
    ∃ n : Nat, v.getPath ["number_of_channels"] = some (.leaf (.int n)) ∧ n ≤ 16 ∧
      (0 < n → (transformDataQualitySummary v.toPVal).map Grp.sortKeys =
        some ((Spec.dataQualitySummary n).map (Sym.eval v))) := by
  obtain ⟨n, hg, hp⟩ := Prov3.dqs_parse_const ctx bs pos v pos' h
  obtain ⟨n', hg', hle, _⟩ := dqs_consumes ctx bs pos v pos' h
  have hnn : n' = n := by
    rw [hg] at hg'
    have := hg'.symm
    simp only [Option.some.injEq, Val.leaf.injEq, Leaf.int.injEq] at this
    omega
  subst hnn
  refine ⟨n', hg, hle, fun hpos => ?_⟩
  have hc := Prov3.dqs_check
  rw [List.all_eq_true] at hc
  have hk := hc (n' - 1) (by simp; omega)
  rw [show n' - 1 + 1 = n' by omega] at hk
  exact Prov.static_provenance (Prov3.withCount n' Gen.dataQualitySummaryRecord) transformDataQualitySummary
    transformDataQualitySummary _ (fun v s => transformDataQualitySummary_natural _ _) hk ctx bs pos v pos' hp

end Alos2

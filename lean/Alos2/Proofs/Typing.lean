/-
Well-typedness of the documented trees (C12) and padding inertness (C20).
-/
import Alos2.Proofs.Provenance
import Alos2.Proofs.Lines
import Alos2.Proofs.Fields

namespace Alos2

namespace Typing

/-! ### mapping leaves preserves the typing predicates -/

mutual
theorem leafy_map {α β : Type} (f : α → β) : ∀ v : PVal α, (v.map f).leafy = v.leafy
  | .leaf _ => by simp [PVal.map, PVal.leafy]
  | .cstr _ => by simp [PVal.map, PVal.leafy]
  | .cint _ => by simp [PVal.map, PVal.leafy]
  | .list xs => by simp only [PVal.map, PVal.leafy]; exact leafyList_map f xs
  | .dict _ => by simp [PVal.map, PVal.leafy]
  | .tup _ => by simp [PVal.map, PVal.leafy]
theorem leafyList_map {α β : Type} (f : α → β) : ∀ xs : List (PVal α), PVal.leafyList (PVal.mapList f xs) = PVal.leafyList xs
  | [] => by simp [PVal.mapList, PVal.leafyList]
  | x :: xs => by simp only [PVal.mapList, PVal.leafyList]; rw [leafy_map f x, leafyList_map f xs]
end

mutual
theorem plainAttr_map {α β : Type} (f : α → β) : ∀ v : PVal α, (v.map f).plainAttr = v.plainAttr
  | .leaf _ => by simp [PVal.map, PVal.plainAttr]
  | .cstr _ => by simp [PVal.map, PVal.plainAttr]
  | .cint _ => by simp [PVal.map, PVal.plainAttr]
  | .list xs => by simp only [PVal.map, PVal.plainAttr]; exact plainAttrList_map f xs
  | .dict _ => by simp [PVal.map, PVal.plainAttr]
  | .tup xs => by simp only [PVal.map, PVal.plainAttr]; exact plainAttrList_map f xs
theorem plainAttrList_map {α β : Type} (f : α → β) : ∀ xs : List (PVal α), PVal.plainAttrList (PVal.mapList f xs) = PVal.plainAttrList xs
  | [] => by simp [PVal.mapList, PVal.plainAttrList]
  | x :: xs => by simp only [PVal.mapList, PVal.plainAttrList]; rw [plainAttr_map f x, plainAttrList_map f xs]
end

theorem attrsOK_mapKvs {α β : Type} (f : α → β) (kvs : KVs α) :
    (PVal.mapKvs f kvs).all (fun kv => kv.2.plainAttr) = kvs.all (fun kv => kv.2.plainAttr) := by
  rw [Natural.mapKvs_eq, List.all_map]
  congr 1
  funext kv
  simp [plainAttr_map]

theorem gvar_wellTyped_map {α β : Type} (f : α → β) (v : GVar α) : (v.map f).wellTyped = v.wellTyped := by
  simp [GVar.wellTyped, GVar.map, leafy_map, attrsOK_mapKvs]

mutual
theorem grp_wellTyped_map {α β : Type} (f : α → β) : ∀ g : Grp α, (g.map f).wellTyped = g.wellTyped
  | .mk vars groups attrs => by
    simp only [Grp.map, Grp.wellTyped]
    rw [wellTypedGroups_map f groups, attrsOK_mapKvs, List.all_map]
    congr 3
    funext kv
    simp [gvar_wellTyped_map]
theorem wellTypedGroups_map {α β : Type} (f : α → β) :
    ∀ gs : List (String × Grp α), Grp.wellTypedGroups (Grp.mapGroups f gs) = Grp.wellTypedGroups gs
  | [] => by simp [Grp.mapGroups, Grp.wellTypedGroups]
  | (k, g) :: rest => by
    simp only [Grp.mapGroups, Grp.wellTypedGroups]
    rw [grp_wellTyped_map f g, wellTypedGroups_map f rest]
end

/-! ### sorting by key preserves the typing predicates -/

theorem all_insertByKey {γ : Type} (p : String × γ → Bool) (x : String × γ) (l : List (String × γ)) :
    (insertByKey x l).all p = (p x && l.all p) := by
  induction l with
  | nil => simp [insertByKey]
  | cons y ys ih =>
    simp only [insertByKey]
    split
    · simp
    · simp only [List.all_cons, ih]
      cases p x <;> cases p y <;> simp

theorem all_sortByKey {γ : Type} (p : String × γ → Bool) (l : List (String × γ)) :
    (sortByKey l).all p = l.all p := by
  induction l with
  | nil => simp [sortByKey]
  | cons y ys ih =>
    simp only [sortByKey, List.foldr_cons] at ih ⊢
    rw [all_insertByKey, ih, List.all_cons]

theorem wellTypedGroups_eq_all {α : Type} (gs : List (String × Grp α)) :
    Grp.wellTypedGroups gs = gs.all (fun kg => kg.2.wellTyped) := by
  induction gs with
  | nil => simp [Grp.wellTypedGroups]
  | cons kg rest ih => obtain ⟨k, g⟩ := kg; simp [Grp.wellTypedGroups, ih]

theorem gvar_wellTyped_sortKeys {α : Type} (v : GVar α) : v.sortKeys.wellTyped = v.wellTyped := by
  simp [GVar.wellTyped, GVar.sortKeys, all_sortByKey]

mutual
theorem grp_wellTyped_sortKeys {α : Type} : ∀ g : Grp α, g.sortKeys.wellTyped = g.wellTyped
  | .mk vars groups attrs => by
    simp only [Grp.sortKeys, Grp.wellTyped]
    rw [all_sortByKey, all_sortByKey, wellTypedGroups_eq_all, all_sortByKey, ← wellTypedGroups_eq_all,
      wellTypedGroups_sortGroups groups, List.all_map]
    congr 3
    funext kv
    simp [gvar_wellTyped_sortKeys]
theorem wellTypedGroups_sortGroups {α : Type} :
    ∀ gs : List (String × Grp α), Grp.wellTypedGroups (Grp.sortGroups gs) = Grp.wellTypedGroups gs
  | [] => by simp [Grp.sortGroups, Grp.wellTypedGroups]
  | (k, g) :: rest => by
    simp only [Grp.sortGroups, Grp.wellTypedGroups]
    rw [grp_wellTyped_sortKeys g, wellTypedGroups_sortGroups rest]
end

end Typing

/-- mapping the leaves does not change the shape-level typing predicates -/
theorem wellTyped_map {α β : Type} (f : α → β) (g : Grp α) : (g.map f).wellTyped = g.wellTyped :=
  Typing.grp_wellTyped_map f g

theorem wellTyped_sortKeys {α : Type} (g : Grp α) : g.sortKeys.wellTyped = g.wellTyped :=
  Typing.grp_wellTyped_sortKeys g

/-- the documented static trees are well typed: variables hold leaves or nested lists of leaves (no dict, no
    `(value, attrs)` pair), attributes are scalars / strings / nested lists or tuples -/
theorem spec_trees_wellTyped :
    Spec.datasetSummary.wellTyped = true ∧ Spec.radiometricData.wellTyped = true ∧ Spec.transformations.wellTyped = true ∧
    Spec.rootAttrs.all (fun kv => kv.2.plainAttr) = true ∧ Spec.headerAttrs.all (fun kv => kv.2.plainAttr) = true := by
  refine ⟨?_, ?_, ?_, ?_, ?_⟩ <;> decide +kernel

namespace Typing

theorem leafyList_range (n : Nat) (g : Nat → Sym) :
    PVal.leafyList ((List.range n).map (fun i => PVal.leaf (g i))) = true := by
  generalize List.range n = l
  induction l with
  | nil => simp [PVal.leafyList]
  | cons x xs ih => simp [PVal.leafyList, PVal.leafy, ih]

theorem lineTree_wellTyped_of (vars : List (String × List String × KVs Sym)) (attrs : List (String × List String)) (n : Nat)
    (h : vars.all (fun x => x.2.2.all (fun kv => kv.2.plainAttr)) = true) :
    (Spec.lineTree vars attrs n).wellTyped = true := by
  simp only [Spec.lineTree, Grp.wellTyped, Grp.wellTypedGroups, Bool.and_true, Bool.and_eq_true, List.all_map]
  constructor
  · rw [List.all_eq_true] at h ⊢
    intro x hx
    have := h x hx
    obtain ⟨name, p, ats⟩ := x
    simp only [Function.comp, GVar.wellTyped, PVal.leafy, Bool.and_eq_true]
    exact ⟨leafyList_range n _, this⟩
  · rw [List.all_eq_true]
    intro x _
    obtain ⟨name, p⟩ := x
    simp [PVal.plainAttr]

end Typing

/-- … and so is the image group, for any number of lines -/
theorem lineTree_wellTyped (n : Nat) :
    (Spec.lineTree Spec.lineVars15 Spec.lineAttrs15 n).wellTyped = true ∧
    (Spec.lineTree Spec.lineVars11 Spec.lineAttrs11 n).wellTyped = true :=
  ⟨Typing.lineTree_wellTyped_of _ _ n (by decide +kernel), Typing.lineTree_wellTyped_of _ _ n (by decide +kernel)⟩

namespace Typing

/-! ### a structurally recursive mirror of `Con.leafTable` (which is defined by well-founded recursion and does not
    reduce in the kernel), sound w.r.t. it and invariant under shifting the start offset -/

abbrev LT := Option (List LeafEntry × Nat)

def fieldsWith (rec : Con → List String → Nat → LT) : List (String × Con) → List String → Nat → List LeafEntry → LT
  | [], _, off, acc => some (acc, off)
  | (name, c) :: rest, p, off, acc =>
    match rec c (p ++ [name]) off with
    | none => none
    | some (es, off') =>
      fieldsWith rec rest p off' (acc.filter (fun e => !((p ++ [name]).isPrefixOf e.1)) ++ es)

def arrayWith (rec : Con → List String → Nat → LT) (elem : Con) (p : List String) : Nat → Nat → Nat → List LeafEntry → LT
  | 0, _, off, acc => some (acc, off)
  | k + 1, i, off, acc =>
    match rec elem (p ++ ["[" ++ toString i ++ "]"]) off with
    | none => none
    | some (es, off') => arrayWith rec elem p k (i + 1) off' (acc ++ es)

/-- structurally recursive (fuel = nesting depth) mirror of `Con.leafTable`, for kernel computation -/
def ltF : Nat → Con → List String → Nat → LT
  | 0, _, _, _ => none
  | fuel + 1, c, p, off =>
    match c with
    | .struct fs => fieldsWith (ltF fuel) fs p off []
    | .array (.const n) elem => if n < 0 then none else arrayWith (ltF fuel) elem p n.toNat 0 off []
    | .wmeta attrs sub =>
      if sub.isLeafLevel then (Con.sizeWith true (.wmeta attrs sub)).map (fun w => ([(p, off, w, .wmeta attrs sub)], off + w))
      else ltF fuel sub p off
    | c => if c.isLeafLevel then (Con.sizeWith true c).map (fun w => ([(p, off, w, c)], off + w)) else none

theorem fieldsWith_sound (rec : Con → List String → Nat → LT)
    (hrec : ∀ c p off r, rec c p off = some r → Con.leafTable c p off = some r) :
    ∀ (fs : List (String × Con)) (p : List String) (off : Nat) (acc : List LeafEntry) (r : List LeafEntry × Nat),
      fieldsWith rec fs p off acc = some r → Con.leafTableFields fs p off acc = some r
  | [], p, off, acc, r, h => by simpa [fieldsWith, Con.leafTableFields] using h
  | (name, c) :: rest, p, off, acc, r, h => by
    rw [fieldsWith] at h
    rw [Con.leafTableFields]
    cases hc : rec c (p ++ [name]) off with
    | none => simp [hc] at h
    | some es =>
      obtain ⟨es, off'⟩ := es
      rw [hc] at h
      rw [hrec _ _ _ _ hc]
      exact fieldsWith_sound rec hrec rest p off' _ r h

theorem arrayWith_sound (rec : Con → List String → Nat → LT)
    (hrec : ∀ c p off r, rec c p off = some r → Con.leafTable c p off = some r) (elem : Con) (p : List String) :
    ∀ (k i off : Nat) (acc : List LeafEntry) (r : List LeafEntry × Nat),
      arrayWith rec elem p k i off acc = some r → Con.leafTableArray elem p k i off acc = some r
  | 0, i, off, acc, r, h => by simpa [arrayWith, Con.leafTableArray] using h
  | k + 1, i, off, acc, r, h => by
    unfold arrayWith at h
    rw [Con.leafTableArray]
    cases hc : rec elem (p ++ ["[" ++ toString i ++ "]"]) off with
    | none => rw [hc] at h; simp at h
    | some es =>
      obtain ⟨es, off'⟩ := es
      rw [hc] at h
      rw [hrec _ _ _ _ hc]
      exact arrayWith_sound rec hrec elem p k (i + 1) off' _ r h

theorem ltF_sound : ∀ (fuel : Nat) (c : Con) (p : List String) (off : Nat) (r : List LeafEntry × Nat),
    ltF fuel c p off = some r → Con.leafTable c p off = some r
  | 0, c, p, off, r, h => by simp [ltF] at h
  | fuel + 1, c, p, off, r, h => by
    have ih := ltF_sound fuel
    cases c with
    | struct fs => rw [Con.leafTable]; exact fieldsWith_sound _ ih _ _ _ _ _ (by simpa only [ltF] using h)
    | array cnt elem =>
      cases cnt with
      | const n =>
        rw [Con.leafTable]
        simp only [ltF] at h
        split at h
        · simp at h
        · rename_i hn; rw [if_neg hn]; exact arrayWith_sound _ ih _ _ _ _ _ _ _ h
      | _ =>
        rw [Con.leafTable.eq_4 _ _ _ (by intros; simp_all) (by intros; simp_all) (by intros; simp_all)]
        simpa only [ltF] using h
    | wmeta attrs sub =>
      rw [Con.leafTable]
      simp only [ltF] at h
      split at h
      · rename_i hl; rw [if_pos hl]; exact h
      · rename_i hl; rw [if_neg hl]; exact ih _ _ _ _ h
    | _ =>
      rw [Con.leafTable.eq_4 _ _ _ (by intros; simp_all) (by intros; simp_all) (by intros; simp_all)]
      simpa only [ltF] using h


def coveredBy (tbl : List LeafEntry) (paths : List (List String)) : Bool :=
  paths.all (fun p => tbl.any (fun e => e.1 = p && !e.2.2.2.usesContext && livePath e.1))

def coveredF (paths : List (List String)) (c : Con) : Bool :=
  match ltF 16 c [] 0 with
  | some (tbl, _) => coveredBy tbl paths
  | none => false

/-! ### shifting the start offset shifts every entry -/

def shE (d : Nat) (e : LeafEntry) : LeafEntry := (e.1, e.2.1 + d, e.2.2)
def sh (d : Nat) (r : List LeafEntry × Nat) : List LeafEntry × Nat := (r.1.map (shE d), r.2 + d)

theorem fieldsWith_shift (rec : Con → List String → Nat → LT) (d : Nat)
    (hrec : ∀ c p off, rec c p (off + d) = (rec c p off).map (sh d)) :
    ∀ (fs : List (String × Con)) (p : List String) (off : Nat) (acc : List LeafEntry),
      fieldsWith rec fs p (off + d) (acc.map (shE d)) = (fieldsWith rec fs p off acc).map (sh d)
  | [], p, off, acc => by simp [fieldsWith, sh]
  | (name, c) :: rest, p, off, acc => by
    unfold fieldsWith
    rw [hrec]
    cases hc : rec c (p ++ [name]) off with
    | none => simp
    | some es =>
      obtain ⟨es, off'⟩ := es
      simp only [Option.map_some, sh]
      rw [← fieldsWith_shift rec d hrec rest p off']
      congr 1
      simp [List.filter_map, Function.comp_def, shE]

theorem arrayWith_shift (rec : Con → List String → Nat → LT) (d : Nat)
    (hrec : ∀ c p off, rec c p (off + d) = (rec c p off).map (sh d)) (elem : Con) (p : List String) :
    ∀ (k i off : Nat) (acc : List LeafEntry),
      arrayWith rec elem p k i (off + d) (acc.map (shE d)) = (arrayWith rec elem p k i off acc).map (sh d)
  | 0, i, off, acc => by simp [arrayWith, sh]
  | k + 1, i, off, acc => by
    unfold arrayWith
    rw [hrec]
    cases hc : rec elem (p ++ ["[" ++ toString i ++ "]"]) off with
    | none => simp
    | some es =>
      obtain ⟨es, off'⟩ := es
      simp only [Option.map_some, sh]
      rw [← arrayWith_shift rec d hrec elem p k (i + 1) off']
      congr 1
      simp

theorem leafCase_shift (c : Con) (p : List String) (off d : Nat) :
    (Con.sizeWith true c).map (fun w => ([((p, off + d, w, c) : LeafEntry)], off + d + w)) =
    ((Con.sizeWith true c).map (fun w => ([((p, off, w, c) : LeafEntry)], off + w))).map (sh d) := by
  cases Con.sizeWith true c with
  | none => simp
  | some w => simp [sh, shE]; omega

theorem ltF_shift (d : Nat) : ∀ (fuel : Nat) (c : Con) (p : List String) (off : Nat),
    ltF fuel c p (off + d) = (ltF fuel c p off).map (sh d)
  | 0, c, p, off => by simp [ltF]
  | fuel + 1, c, p, off => by
    have ih := ltF_shift d fuel
    cases c with
    | struct fs =>
      simp only [ltF]
      exact fieldsWith_shift _ d ih fs p off []
    | array cnt elem =>
      cases cnt with
      | const n =>
        simp only [ltF]
        split
        · simp
        · exact arrayWith_shift _ d ih elem p _ 0 off []
      | _ => simp only [ltF]; split <;> first | exact leafCase_shift _ _ _ _ | simp
    | wmeta attrs sub =>
      simp only [ltF]
      split
      · exact leafCase_shift _ _ _ _
      · exact ih _ _ _
    | _ => simp only [ltF]; split <;> first | exact leafCase_shift _ _ _ _ | simp

/-! ### congruence of symbolic evaluation and of `map` in the leaves -/

theorem eval_congr (v v' : Val) : ∀ a : Sym, (∀ p ∈ a.paths, v.leafAt p = v'.leafAt p) → a.eval v = a.eval v'
  | .path p, h => by simp [Sym.eval, h p (by simp [Sym.paths])]
  | .app fn a, h => by
    have ih := eval_congr v v' a (fun p hp => h p (by simpa [Sym.paths] using hp))
    unfold Sym.eval
    split <;> simp_all
  | .app2 fn a b, h => by
    have iha := eval_congr v v' a (fun p hp => h p (by simp [Sym.paths, hp]))
    have ihb := eval_congr v v' b (fun p hp => h p (by simp [Sym.paths, hp]))
    unfold Sym.eval
    split <;> simp_all

mutual
theorem pmap_congr {α β : Type} (f f' : α → β) : ∀ v : PVal α, (∀ a ∈ v.leaves, f a = f' a) → v.map f = v.map f'
  | .leaf a, h => by simp only [PVal.map]; rw [h a (by simp [PVal.leaves])]
  | .cstr _, _ => by simp [PVal.map]
  | .cint _, _ => by simp [PVal.map]
  | .list xs, h => by simp only [PVal.map]; rw [pmapList_congr f f' xs (by simpa [PVal.leaves] using h)]
  | .dict kvs, h => by simp only [PVal.map]; rw [pmapKvs_congr f f' kvs (by simpa [PVal.leaves] using h)]
  | .tup xs, h => by simp only [PVal.map]; rw [pmapList_congr f f' xs (by simpa [PVal.leaves] using h)]
theorem pmapList_congr {α β : Type} (f f' : α → β) : ∀ xs : List (PVal α), (∀ a ∈ PVal.leavesList xs, f a = f' a) →
    PVal.mapList f xs = PVal.mapList f' xs
  | [], _ => by simp [PVal.mapList]
  | x :: xs, h => by
    simp only [PVal.mapList]
    rw [pmap_congr f f' x (fun a ha => h a (by simp [PVal.leavesList, ha])),
      pmapList_congr f f' xs (fun a ha => h a (by simp [PVal.leavesList, ha]))]
theorem pmapKvs_congr {α β : Type} (f f' : α → β) : ∀ kvs : List (String × PVal α), (∀ a ∈ PVal.leavesKvs kvs, f a = f' a) →
    PVal.mapKvs f kvs = PVal.mapKvs f' kvs
  | [], _ => by simp [PVal.mapKvs]
  | (k, v) :: rest, h => by
    simp only [PVal.mapKvs]
    rw [pmap_congr f f' v (fun a ha => h a (by simp [PVal.leavesKvs, ha])),
      pmapKvs_congr f f' rest (fun a ha => h a (by simp [PVal.leavesKvs, ha]))]
end

theorem gvar_map_congr {α β : Type} (f f' : α → β) (v : GVar α) (h : ∀ a ∈ v.leaves, f a = f' a) : v.map f = v.map f' := by
  simp only [GVar.map]
  rw [pmap_congr f f' v.data (fun a ha => h a (by simp [GVar.leaves, ha])),
    pmapKvs_congr f f' v.attrs (fun a ha => h a (by simp [GVar.leaves, ha]))]

mutual
theorem grp_map_congr {α β : Type} (f f' : α → β) : ∀ g : Grp α, (∀ a ∈ g.leaves, f a = f' a) → g.map f = g.map f'
  | .mk vars groups attrs, h => by
    simp only [Grp.map]
    rw [grpGroups_map_congr f f' groups (fun a ha => h a (by simp [Grp.leaves, ha])),
      pmapKvs_congr f f' attrs (fun a ha => h a (by simp [Grp.leaves, ha]))]
    congr 1
    apply List.map_congr_left
    intro kv hkv
    rw [gvar_map_congr f f' kv.2 (fun a ha => h a (by
      simp only [Grp.leaves, List.mem_append, List.mem_flatMap]
      exact Or.inl (Or.inl ⟨kv, hkv, ha⟩)))]
theorem grpGroups_map_congr {α β : Type} (f f' : α → β) : ∀ gs : List (String × Grp α),
    (∀ a ∈ Grp.leavesGroups gs, f a = f' a) → Grp.mapGroups f gs = Grp.mapGroups f' gs
  | [], _ => by simp [Grp.mapGroups]
  | (k, g) :: rest, h => by
    simp only [Grp.mapGroups]
    rw [grp_map_congr f f' g (fun a ha => h a (by simp [Grp.leavesGroups, ha])),
      grpGroups_map_congr f f' rest (fun a ha => h a (by simp [Grp.leavesGroups, ha]))]
end

end Typing

/-- every leaf of the documented static trees names a live (non-padding) field of its record layout that does not
    depend on the parsing context -/
def pathsCovered (paths : List (List String)) (c : Con) : Bool :=
  match Con.leafTable c [] 0 with
  | some (tbl, _) => paths.all (fun p => tbl.any (fun e => e.1 = p && !e.2.2.2.usesContext && livePath e.1))
  | none => false

theorem Typing.coveredF_sound (paths : List (List String)) (c : Con) (h : coveredF paths c = true) :
    pathsCovered paths c = true := by
  unfold coveredF at h
  unfold pathsCovered
  split at h
  · rename_i tbl e ht
    rw [ltF_sound _ _ _ _ _ ht]
    exact h
  · simp at h

set_option maxRecDepth 100000 in
theorem spec_paths_live :
    pathsCovered (Spec.datasetSummary.leaves.flatMap Sym.paths) Gen.datasetSummaryRecord = true ∧
    pathsCovered (Spec.radiometricData.leaves.flatMap Sym.paths) Gen.radiometricDataRecord = true ∧
    pathsCovered (Spec.transformations.leaves.flatMap Sym.paths) Gen.facilityRelatedData5Record = true := by
  refine ⟨?_, ?_, ?_⟩ <;> apply Typing.coveredF_sound <;> decide +kernel

/-- two symbolic evaluations agree on a tree whose leaves evaluate equally -/
theorem map_congr_leaves {α β : Type} (f f' : α → β) (g : Grp α) (h : ∀ a ∈ g.leaves, f a = f' a) : g.map f = g.map f' :=
  Typing.grp_map_congr f f' g h

namespace Typing

/-- the closed computation behind padding inertness: every record path mentioned by a leaf of the symbolic
    pipeline output is a live, context-free entry of the leaf table -/
def inertCheck (c : Con) (T : PVal Sym → Option (Grp Sym)) : Bool :=
  match ltF 16 c [] 0, Con.skel c [] with
  | some (tbl, _), some s =>
    match T s with
    | some G => coveredBy tbl (G.leaves.flatMap Sym.paths)
    | none => true
  | _, _ => false

/-- generic chain: shape + naturality + the closed check + locality of leaves (`leaf_window_leafAt_fixedRecords`) -/
theorem padding_inert_of (c : Con) (hc : c ∈ fixedRecords) (Treal : PVal Leaf → Option (Grp Leaf)) (Tsym : PVal Sym → Option (Grp Sym))
    (hnat : ∀ (v : Val) (s : PVal Sym), Treal (s.map (Sym.eval v)) = (Tsym s).map (Grp.map (Sym.eval v)))
    (hchk : inertCheck c Tsym = true)
    (ctx ctx' : Ctx) (bs bs' : Bytes) (pos : Nat) (v v' : Val) (e e' : Nat)
    (h : parse c ctx bs pos = .ok (v, e)) (h' : parse c ctx' bs' pos = .ok (v', e'))
    (hlive : ∀ tbl endp, Con.leafTable c [] pos = some (tbl, endp) →
      ∀ ent ∈ tbl, livePath ent.1 = true → slice bs ent.2.1 (ent.2.1 + ent.2.2.1) = slice bs' ent.2.1 (ent.2.1 + ent.2.2.1)) :
    Treal v.toPVal = Treal v'.toPVal := by
  unfold inertCheck at hchk
  split at hchk
  next tbl0 e0 s ht hs =>
    rw [parse_eq_skel c s hs ctx bs pos v e h, parse_eq_skel c s hs ctx' bs' pos v' e' h', hnat, hnat]
    cases hG : Tsym s with
    | none => rfl
    | some G =>
      rw [hG] at hchk
      simp only [Option.map_some, Option.some.injEq]
      apply grp_map_congr
      intro a ha
      apply eval_congr
      intro p hp
      have hmem : p ∈ G.leaves.flatMap Sym.paths := List.mem_flatMap.mpr ⟨a, ha, hp⟩
      unfold coveredBy at hchk
      rw [List.all_eq_true] at hchk
      have hany := hchk p hmem
      rw [List.any_eq_true] at hany
      obtain ⟨ent, hent, hprops⟩ := hany
      simp only [Bool.and_eq_true, decide_eq_true_eq, Bool.not_eq_true'] at hprops
      obtain ⟨⟨hpath, hctx⟩, hlv⟩ := hprops
      have htP : Con.leafTable c [] pos = some (tbl0.map (shE pos), e0 + pos) := by
        apply ltF_sound 16
        have := ltF_shift pos 16 c [] 0
        rw [Nat.zero_add, ht] at this
        exact this
      have hentP : shE pos ent ∈ tbl0.map (shE pos) := List.mem_map_of_mem hent
      have hwin := hlive _ _ htP _ hentP hlv
      rw [← hpath]
      exact leaf_window_leafAt_fixedRecords c hc pos _ _ htP ent.1 (ent.2.1 + pos) ent.2.2.1 ent.2.2.2 hentP hctx
        ctx ctx' bs bs' v v' e e' h h' hwin
  next => simp at hchk

end Typing

/-- **padding is inert** (dataset summary): two records that parse and agree on the bytes of every live field give the
    same group, whatever their spare / blank areas contain -/
theorem dataset_summary_padding_inert (ctx ctx' : Ctx) (bs bs' : Bytes) (pos : Nat) (v v' : Val) (e e' : Nat)
    (h : parse Gen.datasetSummaryRecord ctx bs pos = .ok (v, e)) (h' : parse Gen.datasetSummaryRecord ctx' bs' pos = .ok (v', e'))
    (hlive : ∀ tbl endp, Con.leafTable Gen.datasetSummaryRecord [] pos = some (tbl, endp) →
      ∀ ent ∈ tbl, livePath ent.1 = true → slice bs ent.2.1 (ent.2.1 + ent.2.2.1) = slice bs' ent.2.1 (ent.2.1 + ent.2.2.1)) :
    transformDatasetSummary realLeafFns v.toPVal = transformDatasetSummary realLeafFns v'.toPVal := by
  have hc : Gen.datasetSummaryRecord ∈ fixedRecords := by
    unfold fixedRecords
    repeat (first | exact List.Mem.head _ | apply List.Mem.tail)
  refine Typing.padding_inert_of Gen.datasetSummaryRecord hc _ (transformDatasetSummary (symLeafFns allPresent))
    ?_ (by decide +kernel) ctx ctx' bs bs' pos v v' e e' h h' hlive
  intro v s
  rw [transformDatasetSummary_natural _ _ _ (Prov.compat_rhoOf v),
    Prov.transformDatasetSummary_congr (symLeafFns (Prov.rhoOf v)) (symLeafFns allPresent) rfl rfl]

end Alos2

/-
C06 for the whole product (model `openProduct`): two successful opens of the same files with two chunk sizes agree on the root
attributes, the summary, `/metadata`, and on which image groups exist (names, order); and every image group that is
well-framed (C06 `image_rpc_independent`) is the same up to the chunk size of its lazy array.
-/
import Alos2.Proofs.ProductOpen
import Alos2.Proofs.RpcIndep

namespace Alos2

namespace ProductRpc

theorem throw_bind_ne {α β : Type} (e : Err) (f : α → Except Err β) (b : β) :
    ((throw e : Except Err α) >>= f) = .ok b ↔ False := by
  simp [throw, throwThe, MonadExcept.throw, bind, Except.bind]

theorem pure_bind_ok {α β : Type} (a : α) (f : α → Except Err β) :
    ((pure a : Except Err α) >>= f) = f a := rfl

/-- the key list after `assocSet` depends only on the key list before and on the key -/
theorem assocSet_keys {β γ : Type} (l : List (String × β)) (l' : List (String × γ)) (k : String) (v : β) (v' : γ)
    (h : l.map Prod.fst = l'.map Prod.fst) :
    (assocSet l k v).map Prod.fst = (assocSet l' k v').map Prod.fst := by
  have hany : l.any (fun kv => decide (kv.1 = k)) = l'.any (fun kv => decide (kv.1 = k)) := by
    have e1 : l.any (fun kv => decide (kv.1 = k)) = (l.map Prod.fst).any (fun s => decide (s = k)) := by
      rw [List.any_map]; rfl
    have e2 : l'.any (fun kv => decide (kv.1 = k)) = (l'.map Prod.fst).any (fun s => decide (s = k)) := by
      rw [List.any_map]; rfl
    rw [e1, e2, h]
  have hmap : ∀ {δ : Type} (m : List (String × δ)) (w : δ),
      (m.map (fun kv => if kv.1 = k then (k, w) else kv)).map Prod.fst = m.map Prod.fst := by
    intro δ m w
    rw [List.map_map]
    apply List.map_congr_left
    intro a _
    simp only [Function.comp]
    split <;> simp_all
  unfold assocSet
  rw [hany]
  split
  · rw [hmap, hmap, h]
  · simp [h]

theorem foldl_assocSet_keys {β γ : Type} (l : List (String × β)) (l' : List (String × γ)) :
    ∀ (acc : List (String × β)) (acc' : List (String × γ)),
      acc.map Prod.fst = acc'.map Prod.fst → l.map Prod.fst = l'.map Prod.fst →
      (l.foldl (fun acc kv => assocSet acc kv.1 kv.2) acc).map Prod.fst =
        (l'.foldl (fun acc kv => assocSet acc kv.1 kv.2) acc').map Prod.fst := by
  induction l generalizing l' with
  | nil =>
    intro acc acc' ha hl
    cases l' with
    | nil => simpa using ha
    | cons _ _ => simp at hl
  | cons x l ih =>
    intro acc acc' ha hl
    cases l' with
    | nil => simp at hl
    | cons y l' =>
      simp only [List.map_cons, List.cons.injEq] at hl
      rw [List.foldl_cons, List.foldl_cons]
      apply ih l' _ _ _ hl.2
      rw [hl.1]
      exact assocSet_keys acc acc' y.1 x.2 y.2 ha

/-- two successful `mapM`s whose per-element results agree on the first component yield the same key list -/
theorem mapM_fst_eq {A β γ : Type} (f1 : A → Except Err (String × β)) (f2 : A → Except Err (String × γ))
    (hf : ∀ a r1 r2, f1 a = .ok r1 → f2 a = .ok r2 → r1.1 = r2.1) :
    ∀ (l : List A) (g1 : List (String × β)) (g2 : List (String × γ)),
      l.mapM f1 = .ok g1 → l.mapM f2 = .ok g2 → g1.map Prod.fst = g2.map Prod.fst := by
  intro l
  induction l with
  | nil =>
    intro g1 g2 h1 h2
    simp [List.mapM_nil, pure, Except.pure] at h1 h2
    subst h1; subst h2; rfl
  | cons a l ih =>
    intro g1 g2 h1 h2
    rw [List.mapM_cons] at h1 h2
    obtain ⟨r1, hr1, h1⟩ := Shape.bind_ok.mp h1
    obtain ⟨t1, ht1, h1⟩ := Shape.bind_ok.mp h1
    obtain ⟨r2, hr2, h2⟩ := Shape.bind_ok.mp h2
    obtain ⟨t2, ht2, h2⟩ := Shape.bind_ok.mp h2
    have e1 := Shape.pure_ok.mp h1
    have e2 := Shape.pure_ok.mp h2
    subst e1; subst e2
    simp only [List.map_cons]
    rw [hf a r1 r2 hr1 hr2, ih t1 t2 ht1 ht2]

theorem openImageFile_name (b : Bytes) (name : String) (rpc : Nat) (r : String × ImageGroup)
    (h : openImageFile b name rpc = .ok r) : groupName name = .ok r.1 := by
  obtain ⟨gname, g⟩ := r
  obtain ⟨_, _, _, _, hg, _⟩ := openImageFile_array b name rpc gname g h
  exact hg

end ProductRpc

open ProductRpc in
theorem openProduct_rpc_independent (fs : Files) (rpc1 rpc2 : Nat) (p1 p2 : Product)
    (h1 : openProduct fs rpc1 = .ok p1) (h2 : openProduct fs rpc2 = .ok p2) :
    p1.rootAttrs = p2.rootAttrs ∧ p1.summary = p2.summary ∧ p1.metadata = p2.metadata ∧
    p1.imagery.map Prod.fst = p2.imagery.map Prod.fst := by
  unfold openProduct at h1 h2
  dsimp only at h1 h2
  split at h1
  case h_2 => exact absurd h1 (by simp [throw_bind_ne])
  rename_i stext hstext
  simp only [hstext] at h2
  rw [pure_bind_ok] at h1 h2
  try dsimp only at h1 h2
  split at h1
  case h_2 => exact absurd h1 (by simp [throw_bind_ne])
  rename_i chars hchars
  simp only [hchars] at h2
  rw [pure_bind_ok] at h1 h2
  try dsimp only at h1 h2
  split at h1
  case h_2 => exact absurd h1 (by simp [throw_bind_ne])
  rename_i sections hsections
  simp only [hsections] at h2
  rw [pure_bind_ok] at h1 h2
  try dsimp only at h1 h2
  obtain ⟨summary, hsummary, h1⟩ := Shape.bind_ok.mp h1
  obtain ⟨summary', hsummary', h2⟩ := Shape.bind_ok.mp h2
  rw [hsummary] at hsummary'
  cases hsummary'
  split at h1
  case h_2 => exact absurd h1 (by simp [throw_bind_ne])
  rename_i pdi hpdi
  simp only [hpdi] at h2
  rw [pure_bind_ok] at h1 h2
  try dsimp only at h1 h2
  obtain ⟨⟨vol, led, imgs, trl⟩, hroles, h1⟩ := Shape.bind_ok.mp h1
  obtain ⟨⟨vol', led', imgs', trl'⟩, hroles', h2⟩ := Shape.bind_ok.mp h2
  rw [hroles] at hroles'
  cases hroles'
  dsimp only at h1 h2
  split at h1
  case h_2 => exact absurd h1 (by simp [throw_bind_ne])
  rename_i vb hvb
  simp only [hvb] at h2
  rw [pure_bind_ok] at h1 h2
  try dsimp only at h1 h2
  obtain ⟨vrec, hvrec, h1⟩ := Shape.bind_ok.mp h1
  obtain ⟨vrec', hvrec', h2⟩ := Shape.bind_ok.mp h2
  rw [hvrec] at hvrec'
  cases hvrec'
  split at h1
  case h_2 => exact absurd h1 (by simp [throw_bind_ne])
  rename_i vattrs hvattrs
  simp only [hvattrs] at h2
  rw [pure_bind_ok] at h1 h2
  try dsimp only at h1 h2
  split at h1
  case h_2 => exact absurd h1 (by simp [throw_bind_ne])
  rename_i lb hlb
  simp only [hlb] at h2
  rw [pure_bind_ok] at h1 h2
  try dsimp only at h1 h2
  obtain ⟨lrec, hlrec, h1⟩ := Shape.bind_ok.mp h1
  obtain ⟨lrec', hlrec', h2⟩ := Shape.bind_ok.mp h2
  rw [hlrec] at hlrec'
  cases hlrec'
  split at h1
  case h_2 => exact absurd h1 (by simp [throw_bind_ne])
  rename_i metadata hmetadata
  simp only [hmetadata] at h2
  rw [pure_bind_ok] at h1 h2
  try dsimp only at h1 h2
  obtain ⟨groups, hgroups, h1⟩ := Shape.bind_ok.mp h1
  obtain ⟨groups', hgroups', h2⟩ := Shape.bind_ok.mp h2
  have hp1 : p1 = _ := (Except.ok.inj h1).symm
  have hp2 : p2 = _ := (Except.ok.inj h2).symm
  subst hp1; subst hp2
  refine ⟨rfl, rfl, rfl, ?_⟩
  dsimp only
  apply foldl_assocSet_keys _ _ _ _ rfl
  refine mapM_fst_eq _ _ ?_ imgs groups groups' hgroups hgroups'
  intro name r1 r2 hr1 hr2
  try dsimp only at hr1 hr2
  cases hb : fs.get name with
  | none => simp [hb, throw, throwThe, MonadExceptOf.throw] at hr1
  | some b =>
    simp only [hb] at hr1 hr2
    have e1 := openImageFile_name b name rpc1 r1 hr1
    have e2 := openImageFile_name b name rpc2 r2 hr2
    rw [e1] at e2
    exact Except.ok.inj e2

end Alos2

/-
Where the line-record layouts (regenerated from the source: `Tell` at the start, the static prefix, `Tell` for
`data.start`, `Seek(record_start + record_length)` for `data.stop`) locate the sample area — the mechanism C01 is anchored in:
for EVERY successful parse of a line record at stream position `pos`
  record_start = pos,  data.start = pos + P (P = 192 resp. 544),  data.stop = pos + record_length,  next record at data.stop,
and hence, through the chunk loop of `read_metadata` with its rebasing, record i of a well-framed file (every preamble declares
the header's record length L) gets the byte range [720 + i·L + P, 720 + (i+1)·L) for every positive records_per_chunk.
-/
import Alos2.Model.Product
import Alos2.Proofs.Layout

namespace Alos2

namespace LineAddr
open Layout

/-! ### one line record: `Tell`, static prefix, the `data` member -/

/-- the closing `data` member shared by both line-record layouts -/
def dataCon : Con := .struct [
  ("start", .tell),
  ("size", .computed (.sub (.path ["_", "preamble", "record_length"]) (.sub (.path ["start"]) (.path ["_", "record_start"])))),
  ("stop", .seek (.add (.path ["_", "record_start"]) (.path ["_", "preamble", "record_length"])))]

theorem parse_tell_inv {ctx : Ctx} {bs : Bytes} {pos : Nat} {v : Val} {p : Nat}
    (h : parse .tell ctx bs pos = .ok (v, p)) : v = .leaf (.int pos) ∧ p = pos := by
  rw [parse] at h
  simp [pure_ok] at h
  exact ⟨h.1.symm, h.2.symm⟩

theorem parse_computed_inv {e : Expr} {ctx : Ctx} {bs : Bytes} {pos : Nat} {v : Val} {p : Nat}
    (h : parse (.computed e) ctx bs pos = .ok (v, p)) : p = pos := by
  rw [parse] at h
  split at h
  · simp [pure_ok] at h; exact h.2.symm
  · simp [throw, throwThe, MonadExceptOf.throw] at h

theorem parse_seek_inv {e : Expr} {ctx : Ctx} {bs : Bytes} {pos : Nat} {v : Val} {p : Nat}
    (h : parse (.seek e) ctx bs pos = .ok (v, p)) :
    ∃ n : Nat, e.eval ctx = some (n : Int) ∧ p = n ∧ v = .leaf (.int n) := by
  rw [parse] at h
  simp only [bind_ok, pure_ok] at h
  obtain ⟨n, h0, h1⟩ := h
  simp at h1
  exact ⟨n, evalLen_ok h0, h1.2.symm, h1.1.symm⟩

theorem data_tail {lvl : List (String × Val)} {outer : Ctx} {bs : Bytes} {q : Nat} {v : Val} {pos' : Nat}
    {start rl : Nat} {vp : Val}
    (h : parseFields [("data", dataCon)] (lvl :: outer) bs q = .ok (v, pos')) (hn : KeysNodup lvl)
    (h1 : lookupField lvl "record_start" = some (.leaf (.int (start : Nat))))
    (h2 : lookupField lvl "preamble" = some vp)
    (h3 : vp.get? "record_length" = some (.leaf (.int (rl : Nat)))) :
    v.get? "record_start" = some (.leaf (.int start)) ∧ v.get? "preamble" = some vp ∧
    v.getPath ["data", "start"] = some (.leaf (.int q)) ∧
    v.getPath ["data", "stop"] = some (.leaf (.int ((start + rl : Nat) : Int))) ∧ pos' = start + rl := by
  have g1 := parseFields_get_persist h hn "record_start" (by decide)
  have g2 := parseFields_get_persist h hn "preamble" (by decide)
  layout_step' h hn with vd p4 h4 gd
  rw [parseFields] at h
  simp at h
  obtain ⟨-, rfl⟩ := h
  unfold dataCon at h4
  rw [parse] at h4
  have hn' := KeysNodup_nil
  layout_step' h4 hn' with va q1 ha ga
  layout_step' h4 hn' with vb q2 hb gb
  layout_step' h4 hn' with vc q3 hc gc
  rw [parseFields] at h4
  simp at h4
  obtain ⟨-, rfl⟩ := h4
  obtain ⟨rfl, rfl⟩ := parse_tell_inv ha
  have := parse_computed_inv hb
  subst this
  obtain ⟨n, hn3, rfl, rfl⟩ := parse_seek_inv hc
  simp [Expr.eval, resolve, h1, h2, h3, Val.toInt?] at hn3
  have hq : q3 = start + rl := by omega
  subst hq
  refine ⟨by rw [g1, h1], by rw [g2, h2], ?_, ?_, rfl⟩
  · rw [getPath_cons _ gd, getPath_cons _ ga]; rfl
  · rw [getPath_cons _ gd, getPath_cons _ gc]; rfl

/-- the address facts of a line record, with the preamble exposed -/
def Addr (layout : Con) (P : Nat) : Prop :=
  ∀ (ctx : Ctx) (bs : Bytes) (pos : Nat) (v : Val) (pos' : Nat), parse layout ctx bs pos = .ok (v, pos') →
    ∃ (rl : Nat) (vp : Val) (ctx' : Ctx), v.get? "preamble" = some vp ∧
      parse Gen.recordPreamble ctx' bs pos = .ok (vp, pos + 12) ∧
      vp.get? "record_length" = some (.leaf (.int rl)) ∧
      v.get? "record_start" = some (.leaf (.int pos)) ∧
      v.getPath ["data", "start"] = some (.leaf (.int ((pos + P : Nat) : Int))) ∧
      v.getPath ["data", "stop"] = some (.leaf (.int ((pos + rl : Nat) : Int))) ∧ pos' = pos + rl

theorem processed_addr : Addr Gen.processedDataRecord 192 := by
  intro ctx bs pos v pos' h
  unfold Gen.processedDataRecord at h
  rw [parse] at h
  have hn := KeysNodup_nil
  layout_step' h hn with v1 p1 h1 g1
  layout_step' h hn with v2 p2 h2 g2
  obtain ⟨rfl, rfl⟩ := parse_tell_inv h1
  obtain ⟨rl, hrl⟩ := struct_get_uint h2 "record_length" 4 rfl
  obtain ⟨rfl, _⟩ := static_joint.1 _ _ _ _ 12 _ _ (by decide) h2
  obtain ⟨lvl1, h, hn1, keep⟩ := parseFields_static_take 40 (k := 180) h (by decide +kernel) hn
  simp only [List.drop_succ_cons, List.drop_zero] at h
  have k1 := keep "record_start" (by decide)
  have k2 := keep "preamble" (by decide)
  simp [lookupField_setField] at k1 k2
  obtain ⟨e1, e2, e3, e4, e5⟩ := data_tail h hn1 k1 k2 hrl
  exact ⟨rl, v2, _, e2, h2, hrl, e1, e3, e4, e5⟩

theorem signal_addr : Addr Gen.signalDataRecord 544 := by
  intro ctx bs pos v pos' h
  unfold Gen.signalDataRecord at h
  rw [parse] at h
  have hn := KeysNodup_nil
  layout_step' h hn with v1 p1 h1 g1
  layout_step' h hn with v2 p2 h2 g2
  obtain ⟨rfl, rfl⟩ := parse_tell_inv h1
  obtain ⟨rl, hrl⟩ := struct_get_uint h2 "record_length" 4 rfl
  obtain ⟨rfl, _⟩ := static_joint.1 _ _ _ _ 12 _ _ (by decide) h2
  obtain ⟨lvl1, h, hn1, keep⟩ := parseFields_static_take 48 (k := 532) h (by decide +kernel) hn
  simp only [List.drop_succ_cons, List.drop_zero] at h
  have k1 := keep "record_start" (by decide)
  have k2 := keep "preamble" (by decide)
  simp [lookupField_setField] at k1 k2
  obtain ⟨e1, e2, e3, e4, e5⟩ := data_tail h hn1 k1 k2 hrl
  exact ⟨rl, v2, _, e2, h2, hrl, e1, e3, e4, e5⟩

theorem Addr.paths {layout : Con} {P : Nat} (ha : Addr layout P) (ctx : Ctx) (bs : Bytes) (pos : Nat) (v : Val)
    (pos' : Nat) (h : parse layout ctx bs pos = .ok (v, pos')) :
    ∃ rl : Nat, v.getPath ["preamble", "record_length"] = some (.leaf (.int rl)) ∧
      v.getPath ["record_start"] = some (.leaf (.int pos)) ∧
      v.getPath ["data", "start"] = some (.leaf (.int (pos + P))) ∧
      v.getPath ["data", "stop"] = some (.leaf (.int (pos + rl))) ∧ pos' = pos + rl := by
  obtain ⟨rl, vp, ctx', e1, -, e3, e4, e5, e6, e7⟩ := ha ctx bs pos v pos' h
  refine ⟨rl, ?_, ?_, ?_, ?_, e7⟩
  · rw [getPath_cons _ e1, getPath_cons _ e3]; rfl
  · rw [getPath_cons _ e4]; rfl
  · rw [e5, Int.natCast_add]
  · rw [e6, Int.natCast_add]

end LineAddr

open Layout LineAddr

theorem processed_record_addresses (ctx : Ctx) (bs : Bytes) (pos : Nat) (v : Val) (pos' : Nat)
    (h : parse Gen.processedDataRecord ctx bs pos = .ok (v, pos')) :
    ∃ rl : Nat, v.getPath ["preamble", "record_length"] = some (.leaf (.int rl)) ∧
      v.getPath ["record_start"] = some (.leaf (.int pos)) ∧
      v.getPath ["data", "start"] = some (.leaf (.int (pos + 192))) ∧
      v.getPath ["data", "stop"] = some (.leaf (.int (pos + rl))) ∧ pos' = pos + rl := by
  exact processed_addr.paths ctx bs pos v pos' h

theorem signal_record_addresses (ctx : Ctx) (bs : Bytes) (pos : Nat) (v : Val) (pos' : Nat)
    (h : parse Gen.signalDataRecord ctx bs pos = .ok (v, pos')) :
    ∃ rl : Nat, v.getPath ["preamble", "record_length"] = some (.leaf (.int rl)) ∧
      v.getPath ["record_start"] = some (.leaf (.int pos)) ∧
      v.getPath ["data", "start"] = some (.leaf (.int (pos + 544))) ∧
      v.getPath ["data", "stop"] = some (.leaf (.int (pos + rl))) ∧ pos' = pos + rl := by
  exact signal_addr.paths ctx bs pos v pos' h

/-- prefix length of the layout selected by a record type code (`Gen.recordTypes` says the same: see `C01.prefix_lengths`) -/
def prefixOf (code : Nat) : Nat := if code = 10 then 544 else 192

namespace LineAddr

/-! ### rebasing (`adjustOffset`) on dict values -/

def mapKey (name : String) (f : Val → Val) (kvs : List (String × Val)) : List (String × Val) :=
  kvs.map (fun kv => if kv.1 = name then (kv.1, f kv.2) else kv)

theorem find_mapKey (name : String) (f : Val → Val) (kvs : List (String × Val)) (n : String) :
    (mapKey name f kvs).find? (fun kv => kv.1 = n) =
      (kvs.find? (fun kv => kv.1 = n)).map (fun kv => if kv.1 = name then (kv.1, f kv.2) else kv) := by
  induction kvs with
  | nil => rfl
  | cons a l ih =>
    unfold mapKey at ih ⊢
    rw [List.map_cons, List.find?_cons, List.find?_cons]
    have hk : (if a.1 = name then (a.1, f a.2) else a).1 = a.1 := by split <;> rfl
    rw [hk]
    by_cases ha : a.1 = n
    · simp only [ha, decide_true, Option.map_some]
    · simp only [ha, decide_false]
      exact ih

theorem get_mapKey (name : String) (f : Val → Val) (kvs : List (String × Val)) (n : String) :
    (Val.dict (mapKey name f kvs)).get? n =
      if n = name then ((Val.dict kvs).get? n).map f else (Val.dict kvs).get? n := by
  simp only [Val.get?, find_mapKey]
  cases hfind : kvs.find? (fun kv => kv.1 = n) with
  | none => simp
  | some kv =>
    have hk : kv.1 = n := by simpa using List.find?_some hfind
    by_cases hn : n = name
    · simp [hn, hk ▸ hn]
    · have : ¬ kv.1 = name := by rw [hk]; exact hn
      simp [hn, this]

def bumpLeaf (off : Int) : Val → Val
  | .leaf (.int i) => .leaf (.int (i + off))
  | o => o

theorem bumpField_dict (off : Int) (name : String) (kvs : List (String × Val)) :
    bumpField off name (.dict kvs) = .dict (mapKey name (bumpLeaf off) kvs) := by
  rfl

theorem adjustOffset_dict (off : Int) (kvs : List (String × Val)) :
    adjustOffset off (.dict kvs) =
      .dict (mapKey "data" (fun d => bumpField off "stop" (bumpField off "start" d))
        (mapKey "record_start" (bumpLeaf off) kvs)) := by
  rfl

theorem get_bumpField_int {off : Int} {name : String} {d : Val} {a : Int}
    (h : d.get? name = some (.leaf (.int a))) :
    (bumpField off name d).get? name = some (.leaf (.int (a + off))) := by
  cases d with
  | dict kvs => rw [bumpField_dict, get_mapKey, if_pos rfl, h]; rfl
  | _ => simp [Val.get?] at h

theorem get_bumpField_ne {off : Int} {name n : String} (d : Val) (hn : ¬ n = name) :
    (bumpField off name d).get? n = d.get? n := by
  cases d with
  | dict kvs => rw [bumpField_dict, get_mapKey, if_neg hn]
  | _ => rfl

theorem adjust_get_preamble (off : Int) (v : Val) : (adjustOffset off v).get? "preamble" = v.get? "preamble" := by
  cases v with
  | dict kvs => rw [adjustOffset_dict, get_mapKey, if_neg (by decide), get_mapKey, if_neg (by decide)]
  | _ => rfl

theorem intAt_adjust_preamble (off : Int) (v : Val) (x : List String) :
    intAt (adjustOffset off v) ("preamble" :: x) = intAt v ("preamble" :: x) := by
  unfold intAt
  rw [Val.getPath, Val.getPath, adjust_get_preamble]

theorem intAt_adjust_record_start {off : Int} {v : Val} {a : Int}
    (h : v.get? "record_start" = some (.leaf (.int a))) :
    intAt (adjustOffset off v) ["record_start"] = .ok (a + off) := by
  cases v with
  | dict kvs =>
    unfold intAt
    rw [Val.getPath, adjustOffset_dict, get_mapKey, if_neg (by decide), get_mapKey, if_pos rfl, h]
    rfl
  | _ => simp [Val.get?] at h

theorem getPath_two {v : Val} {a b : String} {x : Val} (h : v.getPath [a, b] = some x) :
    ∃ d, v.get? a = some d ∧ d.get? b = some x := by
  rw [Val.getPath] at h
  split at h
  · rename_i w hw
    rw [Val.getPath] at h
    split at h
    · rename_i y hy
      rw [Val.getPath] at h
      exact ⟨w, hw, by rw [hy, h]⟩
    · simp at h
  · simp at h

theorem intAt_adjust_data_start {off : Int} {v : Val} {a : Int}
    (h : v.getPath ["data", "start"] = some (.leaf (.int a))) :
    intAt (adjustOffset off v) ["data", "start"] = .ok (a + off) := by
  obtain ⟨d, hd, hs⟩ := getPath_two h
  cases v with
  | dict kvs =>
    unfold intAt
    rw [Val.getPath, adjustOffset_dict, get_mapKey, if_pos rfl, get_mapKey, if_neg (by decide), hd]
    simp only [Option.map_some]
    rw [Val.getPath, get_bumpField_ne _ (by decide), get_bumpField_int hs]
    rfl
  | _ => simp [Val.get?] at hd

theorem intAt_adjust_data_stop {off : Int} {v : Val} {a : Int}
    (h : v.getPath ["data", "stop"] = some (.leaf (.int a))) :
    intAt (adjustOffset off v) ["data", "stop"] = .ok (a + off) := by
  obtain ⟨d, hd, hs⟩ := getPath_two h
  cases v with
  | dict kvs =>
    unfold intAt
    rw [Val.getPath, adjustOffset_dict, get_mapKey, if_pos rfl, get_mapKey, if_neg (by decide), hd]
    simp only [Option.map_some]
    have hs' : (bumpField off "start" d).get? "stop" = some (.leaf (.int a)) := by
      rw [get_bumpField_ne d (by decide)]; exact hs
    rw [Val.getPath, get_bumpField_int hs']
    rfl
  | _ => simp [Val.get?] at hd

/-! ### the records of one chunk, the chunk loop -/

theorem parse_uint_val {n : Nat} {ctx : Ctx} {bs : Bytes} {pos : Nat} {v : Val} {p : Nat}
    (h : parse (.uint n) ctx bs pos = .ok (v, p)) :
    p = pos + n ∧ v = .leaf (.int (beNat (slice bs pos (pos + n)))) := by
  rw [parse] at h
  simp only [bind_ok, pure_ok] at h
  obtain ⟨raw, h1, h3⟩ := h
  obtain ⟨-, rfl⟩ := readBytes_ok h1
  simp at h3
  exact ⟨h3.2.symm, h3.1.symm⟩

theorem preamble_type {ctx : Ctx} {bs : Bytes} {pos : Nat} {vp : Val} {p : Nat}
    (h : parse Gen.recordPreamble ctx bs pos = .ok (vp, p)) :
    vp.get? "record_type" = some (.leaf (.int (beNat (slice bs (pos + 5) (pos + 6))))) := by
  unfold Gen.recordPreamble at h
  rw [parse] at h
  have hn := KeysNodup_nil
  layout_step' h hn with v1 p1 h1 g1
  layout_step' h hn with v2 p2 h2 g2
  layout_step' h hn with v3 p3 h3 g3
  obtain ⟨rfl, -⟩ := parse_uint_val h1
  obtain ⟨rfl, -⟩ := parse_uint_val h2
  obtain ⟨-, rfl⟩ := parse_uint_val h3
  rw [g3]

theorem slice_take_5_6 (content : Bytes) : slice (content.take 12) 5 6 = slice content 5 6 := by
  simp [slice, List.drop_take, List.take_take]

/-- the elements of an array of line records all declaring length `L` sit at multiples of `L` -/
theorem parseMany_addr {layout : Con} {P : Nat} (ha : Addr layout P) (bs : Bytes) (L : Nat) :
    ∀ (n pos : Nat) (vs : List Val) (pos' : Nat),
      parseMany (fun p => parse layout [] bs p) n pos = .ok (vs, pos') →
      (∀ v ∈ vs, intAt v ["preamble", "record_length"] = .ok (L : Int)) →
      vs.length = n ∧ ∀ (m : Nat) (v : Val), vs[m]? = some v →
        v.get? "record_start" = some (.leaf (.int ((pos + m * L : Nat) : Int))) ∧
        v.getPath ["data", "start"] = some (.leaf (.int ((pos + m * L + P : Nat) : Int))) ∧
        v.getPath ["data", "stop"] = some (.leaf (.int ((pos + (m + 1) * L : Nat) : Int))) := by
  intro n
  induction n with
  | zero =>
    intro pos vs pos' h _
    simp [parseMany] at h
    simp [h.1]
  | succ n ih =>
    intro pos vs pos' h hrl
    rw [parseMany] at h
    simp only [bind_ok, pure_ok] at h
    obtain ⟨⟨v1, p1⟩, h1, ⟨vs2, p2⟩, h2, h3⟩ := h
    simp at h3
    obtain ⟨rfl, rfl⟩ := h3
    obtain ⟨rl, vp, ctx', e1, -, e3, e4, e5, e6, e7⟩ := ha _ _ _ _ _ h1
    have hv1 := hrl v1 (by simp)
    unfold intAt at hv1
    rw [getPath_cons _ e1, getPath_cons _ e3] at hv1
    simp [Val.getPath] at hv1
    have hrlL : rl = L := by omega
    subst hrlL
    subst e7
    obtain ⟨i1, i2⟩ := ih _ _ _ h2 (fun v hv => hrl v (by simp [hv]))
    refine ⟨by simp [i1], ?_⟩
    intro m v hm
    cases m with
    | zero =>
      simp at hm
      subst hm
      refine ⟨by simpa using e4, by simpa using e5, by simpa using e6⟩
    | succ m =>
      simp at hm
      obtain ⟨j1, j2, j3⟩ := i2 m v hm
      have a1 : pos + rl + m * rl = pos + (m + 1) * rl := by rw [Nat.succ_mul]; omega
      have a2 : pos + rl + (m + 1) * rl = pos + (m + 1 + 1) * rl := by rw [Nat.succ_mul (m + 1)]; omega
      rw [a1] at j1 j2
      rw [a2] at j3
      exact ⟨j1, j2, j3⟩

theorem parseChunkRecords_nil (L : Int) : ∃ e, parseChunkRecords [] L = .error e := by
  unfold parseChunkRecords
  split
  · exact ⟨_, rfl⟩
  · dsimp only
    split
    · exact ⟨_, rfl⟩
    · obtain ⟨e, he⟩ := parse_static_truncated Gen.recordPreamble 12 static_sizes.1 (by decide) []
        (([] : Bytes).take 12) 0 (by simp)
      rw [he]
      exact ⟨_, rfl⟩

theorem chunk_ranges (content : Bytes) (L : Nat) (hL : 0 < L) (recs0 : List Val)
    (h : parseChunkRecords content (L : Int) = .ok recs0)
    (hrl : ∀ r ∈ recs0, intAt r ["preamble", "record_length"] = .ok (L : Int))
    (t : Nat)
    (hty : ∀ r ∈ recs0, intAt r ["preamble", "record_type"] = .ok (t : Int)) :
    recs0.length * L = content.length ∧ ∀ (m : Nat) (v : Val), recs0[m]? = some v →
      v.get? "record_start" = some (.leaf (.int ((m * L : Nat) : Int))) ∧
      v.getPath ["data", "start"] = some (.leaf (.int ((m * L + prefixOf t : Nat) : Int))) ∧
      v.getPath ["data", "stop"] = some (.leaf (.int (((m + 1) * L : Nat) : Int))) := by
  unfold parseChunkRecords at h
  rw [if_neg (by omega)] at h
  dsimp only at h
  split at h
  · simp at h
  rename_i hdiv
  split at h
  · simp at h
  rename_i pre ppos hpre
  split at h
  · rename_i code hcode
    split at h
    · simp at h
    · rename_i layout hlayout
      split at h
      · rename_i vs pend harr
        simp at h
        subst h
        generalize hq : ((content.length : Int)).fdiv (L : Int) = q at hdiv harr
        have hdiv' : q * (L : Int) = content.length := Decidable.not_not.mp hdiv
        have hq0 : 0 ≤ q := by
          by_cases hneg : q < 0
          · have := Int.mul_neg_of_neg_of_pos hneg (show (0 : Int) < L by omega)
            omega
          · omega
        obtain ⟨nq, rfl⟩ := Int.eq_ofNat_of_zero_le hq0
        have hnl : nq * L = content.length := by exact_mod_cast hdiv'
        rw [parse] at harr
        simp only [bind_ok, pure_ok] at harr
        obtain ⟨n, h0, ⟨vs', p1⟩, h1, h3⟩ := harr
        obtain ⟨-, hn⟩ := evalLen_const h0
        simp at hn h3
        rw [hn] at h1
        clear hn h0 n
        obtain ⟨rfl, rfl⟩ := h3
        -- the layout is the one selected by the first record's type code, which is `t`
        have hlen12 : 12 ≤ content.length := by
          have := (parse_static _ 12 static_sizes.1 _ _ _ _ _ hpre).2 (by decide)
          simp at this
          omega
        have hcode' := preamble_type hpre
        rw [hcode] at hcode'
        simp [slice_take_5_6] at hcode'
        have hnq : 0 < nq := by
          rcases Nat.eq_zero_or_pos nq with h0 | h0
          · subst h0; simp at hnl; omega
          · exact h0
        have hfirst : ∃ v0 rest q', vs' = v0 :: rest ∧ parse layout [] content 0 = .ok (v0, q') := by
          obtain ⟨n', rfl⟩ := Nat.exists_eq_succ_of_ne_zero (by omega : nq ≠ 0)
          rw [parseMany] at h1
          simp only [bind_ok, pure_ok] at h1
          obtain ⟨⟨v1, p1'⟩, e1, ⟨vs2, p2⟩, e2, e3⟩ := h1
          simp at e3
          exact ⟨v1, vs2, p1', e3.1.symm, e1⟩
        have haddr : Addr layout (prefixOf t) := by
          obtain ⟨v0, rest, q', hvs, hp0⟩ := hfirst
          have hc0 : ¬ code < 0 := by omega
          rw [if_neg hc0] at hlayout
          have hall : Addr layout (prefixOf code.toNat) := by
            unfold recordLayout at hlayout
            split at hlayout
            · rename_i h10
              simp at hlayout; subst hlayout
              rw [h10]; exact signal_addr
            · split at hlayout
              · rename_i h10 h11
                simp at hlayout; subst hlayout
                rw [h11]; exact processed_addr
              · simp at hlayout
          obtain ⟨rl, vp, ctx', e1, e2, -⟩ := hall _ _ _ _ _ hp0
          have e3 := preamble_type e2
          have hv0 := hty v0 (by rw [hvs]; simp)
          unfold intAt at hv0
          rw [getPath_cons _ e1, getPath_cons _ e3] at hv0
          simp [Val.getPath] at hv0
          have : code.toNat = t := by omega
          rw [← this]; exact hall
        obtain ⟨r1, r2⟩ := parseMany_addr haddr content L nq 0 vs' p1 h1 hrl
        refine ⟨by rw [r1]; exact hnl, ?_⟩
        intro m v hm
        simpa using r2 m v hm
      · simp at h
      · simp at h
  · simp at h

theorem length_slice' {α : Type} (l : List α) (a b : Nat) : (slice l a b).length = min (b - a) (l.length - a) := by
  simp [slice]

theorem rebase_eq (k L : Nat) : (((k * 1 + headerSize : Nat) : Int) - 720) * (L : Int) + 720 = ((720 + k * L : Nat) : Int) := by
  unfold headerSize
  rw [Nat.mul_one, Int.natCast_add, Int.natCast_add, Int.natCast_mul]
  rw [show ((k : Int) + ((720 : Nat) : Int) - 720) = k by omega]
  omega

theorem slice_ge {α : Type} (l : List α) (a b : Nat) (h : l.length ≤ a) : slice l a b = [] := by
  simp [slice, List.drop_eq_nil_of_le h]

theorem readChunks_ranges (file : Bytes) (L : Nat) (hL : 0 < L) (t : Nat) :
    ∀ (sizes : List Nat) (k : Nat) (recs : List Val),
      readChunks file (L : Int) (720 + k * L) sizes
        ((chunkOffsets.go 1 k sizes).map (fun (o : Nat) => ((o : Int) - 720) * (L : Int) + 720)) = .ok recs →
      (∀ r ∈ recs, intAt r ["preamble", "record_length"] = .ok (L : Int)) →
      (∀ r ∈ recs, intAt r ["preamble", "record_type"] = .ok (t : Int)) →
      ∀ (i : Nat) (r : Val), recs[i]? = some r →
        intAt r ["record_start"] = .ok ((720 + (k + i) * L : Nat) : Int) ∧
        intAt r ["data", "start"] = .ok ((720 + (k + i) * L + prefixOf t : Nat) : Int) ∧
        intAt r ["data", "stop"] = .ok ((720 + (k + i + 1) * L : Nat) : Int) := by
  intro sizes
  induction sizes with
  | nil =>
    intro k recs h _ _ i r hi
    simp [readChunks] at h
    subst h
    simp at hi
  | cons s ss ih =>
    intro k recs h hrl hty i r hi
    rw [readChunks] at h
    simp only [bind_ok, pure_ok] at h
    have hw : ¬ ((s : Int) * (L : Int) < 0) := by
      have := Int.mul_nonneg (Int.natCast_nonneg s) (Int.natCast_nonneg L)
      omega
    simp only [if_neg hw] at h
    have htn : ((s : Int) * (L : Int)).toNat = s * L := by
      rw [← Int.natCast_mul]; exact Int.toNat_natCast _
    rw [htn] at h
    obtain ⟨recs0, hc, rest, hr, hrecs⟩ := h
    have hgo : chunkOffsets.go 1 k (s :: ss) = (k * 1 + headerSize) :: chunkOffsets.go 1 (k + s) ss := by
      rw [chunkOffsets.go]
    rw [hgo] at hr hrecs
    simp only [List.map_cons, List.tail_cons, List.headD_cons] at hr hrecs
    rw [rebase_eq] at hrecs
    subst hrecs
    generalize hcont : slice file (720 + k * L) (720 + k * L + s * L) = content at hc hr
    have hrl0 : ∀ r ∈ recs0, intAt r ["preamble", "record_length"] = .ok (L : Int) := fun r hr' => by
      have := hrl (adjustOffset _ r) (List.mem_append_left _ (List.mem_map_of_mem hr'))
      rwa [intAt_adjust_preamble] at this
    have hty0 : ∀ r ∈ recs0, intAt r ["preamble", "record_type"] = .ok (t : Int) := fun r hr' => by
      have := hty (adjustOffset _ r) (List.mem_append_left _ (List.mem_map_of_mem hr'))
      rwa [intAt_adjust_preamble] at this
    obtain ⟨c1, c2⟩ := chunk_ranges content L hL recs0 hc hrl0 t hty0
    have hclen : content.length = min (s * L) (file.length - (720 + k * L)) := by
      rw [← hcont, length_slice']; congr 1; omega
    by_cases hi' : i < recs0.length
    · rw [List.getElem?_append_left (by simpa using hi'), List.getElem?_map] at hi
      obtain ⟨v, hv, rfl⟩ := Option.map_eq_some_iff.mp hi
      obtain ⟨d1, d2, d3⟩ := c2 i v hv
      rw [intAt_adjust_record_start d1, intAt_adjust_data_start d2, intAt_adjust_data_stop d3]
      simp only [Nat.add_mul]
      refine ⟨?_, ?_, ?_⟩ <;> (congr 1; omega)
    · have hge : recs0.length ≤ i := by omega
      rw [List.getElem?_append_right (by simpa using hge)] at hi
      simp only [List.length_map] at hi
      have hfull : content.length = s * L := by
        by_cases hf : content.length = s * L
        · exact hf
        · exfalso
          have hend : file.length ≤ 720 + k * L + content.length := by omega
          cases ss with
          | nil => simp [readChunks] at hr; subst hr; simp at hi
          | cons s' ss' =>
            rw [readChunks] at hr
            simp only [bind_ok] at hr
            obtain ⟨recs1, hc1, -⟩ := hr
            obtain ⟨e, he⟩ := parseChunkRecords_nil (L : Int)
            split at hc1 <;> (rw [slice_ge _ _ _ hend, he] at hc1; cases hc1)
      have hs : recs0.length = s := Nat.eq_of_mul_eq_mul_right hL (by omega)
      have hpos : 720 + k * L + content.length = 720 + (k + s) * L := by rw [hfull, Nat.add_mul]; omega
      rw [hpos] at hr
      have := ih (k + s) rest hr (fun r hr' => hrl r (List.mem_append_right _ hr'))
        (fun r hr' => hty r (List.mem_append_right _ hr')) (i - recs0.length) r hi
      have hidx : k + s + (i - recs0.length) = k + i := by omega
      rw [hidx] at this
      exact this

end LineAddr

/-- the byte ranges the layout-based reader finds in a well-framed image: if the open succeeds, the header declares records
    of length L > 0, and every line record's preamble declares that same length L and the same record type t (10 or 11),
    then record i has the range [720 + i·L + P_t, 720 + (i+1)·L) — whatever records_per_chunk is -/
theorem readImageRecords_ranges (file : Bytes) (rpc : Nat) (header : Val) (recs : List Val)
    (h : readImageRecords file rpc = .ok (header, recs)) (L : Nat) (hL : 0 < L)
    (hdrL : intAt header ["sar_data_record_length"] = .ok (L : Int))
    (hrl : ∀ r ∈ recs, intAt r ["preamble", "record_length"] = .ok (L : Int))
    (t : Nat) (ht : t = 10 ∨ t = 11) (hty : ∀ r ∈ recs, intAt r ["preamble", "record_type"] = .ok (t : Int)) :
    ∀ i : Nat, ∀ r, recs[i]? = some r →
      intAt r ["record_start"] = .ok ((720 + i * L : Nat) : Int) ∧
      intAt r ["data", "start"] = .ok ((720 + i * L + prefixOf t : Nat) : Int) ∧
      intAt r ["data", "stop"] = .ok ((720 + (i + 1) * L : Nat) : Int) := by
  have _ := ht
  unfold readImageRecords at h
  simp only [bind_ok] at h
  obtain ⟨hd, -, n, -, L', hL', h⟩ := h
  split at h
  · simp only [bind_ok] at h
    obtain ⟨_, h, -⟩ := h
    cases h
  simp only [bind_ok, pure_ok] at h
  obtain ⟨recs', h, heq⟩ := h
  simp only [Prod.mk.injEq] at heq
  obtain ⟨rfl, rfl⟩ := heq
  rw [hdrL] at hL'
  cases hL'
  have h0 : chunkOffsets (if n ≤ 0 then [] else chunkSizes n.toNat rpc) 1 =
      chunkOffsets.go 1 0 (if n ≤ 0 then [] else chunkSizes n.toNat rpc) := rfl
  rw [h0, show (720 : Nat) = 720 + 0 * L by omega] at h
  intro i r hi
  have := readChunks_ranges file L hL t _ 0 recs' h hrl hty i r hi
  simpa using this

end Alos2

/-
Capture-group soundness for the backtracking matcher (`Base/Rx.lean`) as far as needed to show that the image group name
`filename_to_groupname` builds from a file name never contains '/'.
-/
import Alos2.Proofs.RxSound
import Alos2.Proofs.Decode
import Alos2.Model.Decoders

namespace Alos2

private abbrev K := List Char → Groups → Option Groups

/-- no captured text contains a '/' -/
def GroupsNoSlash (gs : Groups) : Prop := ∀ kv ∈ gs, '/' ∉ kv.2

mutual
/-- no character-consuming atom of the expression accepts '/' -/
def Rx.noSlash : Rx → Bool
  | .lit c => c != 47
  | .cls items neg => !inClass items neg '/'
  | .any => false
  | .seq rs => Rx.noSlashL rs
  | .alt rs => Rx.noSlashL rs
  | .rep r _ _ _ => Rx.noSlash r
  | .group _ r => Rx.noSlash r
def Rx.noSlashL : List Rx → Bool
  | [] => true
  | r :: rs => Rx.noSlash r && Rx.noSlashL rs
end

theorem setGroup_noSlash (gs : Groups) (i : Nat) (t : List Char) (h : GroupsNoSlash gs) (ht : '/' ∉ t) :
    GroupsNoSlash (setGroup gs i t) := by
  intro kv hkv
  simp only [setGroup, List.mem_cons, List.mem_filter] at hkv
  rcases hkv with rfl | ⟨hm, _⟩
  · exact ht
  · exact h kv hm

theorem groupText_noSlash (gs : Groups) (i : Nat) (t : List Char) (h : GroupsNoSlash gs) (ht : groupText gs i = some t) :
    '/' ∉ t := by
  unfold groupText at ht
  cases hf : gs.find? (fun g => g.1 = i) with
  | none => simp [hf] at ht
  | some kv =>
    simp [hf] at ht
    subst ht
    exact h kv (List.mem_of_find?_eq_some hf)

private def CapM (f : Nat) : Prop :=
  ∀ (r : Rx) (s : List Char) (gs : Groups) (k : K) (g : Groups), r.noSlash = true → GroupsNoSlash gs → Rx.m f r s gs k = some g →
    ∃ pre rest gs', s = pre ++ rest ∧ '/' ∉ pre ∧ GroupsNoSlash gs' ∧ k rest gs' = some g
private def CapSeq (f : Nat) : Prop :=
  ∀ (rs : List Rx) (s : List Char) (gs : Groups) (k : K) (g : Groups), Rx.noSlashL rs = true → GroupsNoSlash gs → Rx.mSeq f rs s gs k = some g →
    ∃ pre rest gs', s = pre ++ rest ∧ '/' ∉ pre ∧ GroupsNoSlash gs' ∧ k rest gs' = some g
private def CapAlt (f : Nat) : Prop :=
  ∀ (rs : List Rx) (s : List Char) (gs : Groups) (k : K) (g : Groups), Rx.noSlashL rs = true → GroupsNoSlash gs → Rx.mAlt f rs s gs k = some g →
    ∃ pre rest gs', s = pre ++ rest ∧ '/' ∉ pre ∧ GroupsNoSlash gs' ∧ k rest gs' = some g
private def CapRep (f : Nat) : Prop :=
  ∀ (r : Rx) (mn : Nat) (mx : Option Nat) (gr : Bool) (count : Nat) (s : List Char) (gs : Groups) (k : K) (g : Groups),
    r.noSlash = true → GroupsNoSlash gs → Rx.mRep f r mn mx gr count s gs k = some g →
    ∃ pre rest gs', s = pre ++ rest ∧ '/' ∉ pre ∧ GroupsNoSlash gs' ∧ k rest gs' = some g

private theorem slash_toNat : '/'.toNat = 47 := by decide

private theorem capM_succ (f : Nat) (hM : CapM f) (hS : CapSeq f) (hA : CapAlt f) (hR : CapRep f) : CapM (f + 1) := by
  intro r s gs k g hok hgs h
  cases r with
  | lit c =>
    cases s with
    | nil => simp [Rx.m] at h
    | cons x rest =>
      simp only [Rx.m] at h
      split at h
      · next hx =>
        refine ⟨[x], rest, gs, rfl, ?_, hgs, h⟩
        simp only [Rx.noSlash, bne_iff_ne, ne_eq] at hok
        intro hmem
        have : '/' = x := by simpa using hmem
        subst this
        exact hok (hx.symm.trans slash_toNat)
      · cases h
  | cls items neg =>
    cases s with
    | nil => simp [Rx.m] at h
    | cons x rest =>
      simp only [Rx.m] at h
      split at h
      · next hx =>
        refine ⟨[x], rest, gs, rfl, ?_, hgs, h⟩
        simp only [Rx.noSlash, Bool.not_eq_true'] at hok
        intro hmem
        have : '/' = x := by simpa using hmem
        subst this
        rw [hok] at hx
        cases hx
      · cases h
  | any => simp [Rx.noSlash] at hok
  | seq rs =>
    simp only [Rx.m] at h
    simp only [Rx.noSlash] at hok
    exact hS rs s gs k g hok hgs h
  | alt rs =>
    simp only [Rx.m] at h
    simp only [Rx.noSlash] at hok
    exact hA rs s gs k g hok hgs h
  | group i r =>
    simp only [Rx.m] at h
    simp only [Rx.noSlash] at hok
    obtain ⟨pre, rest, gs', e, hp, hg', hk⟩ := hM r s gs _ g hok hgs h
    refine ⟨pre, rest, _, e, hp, ?_, hk⟩
    apply setGroup_noSlash _ _ _ hg'
    subst e
    simpa using hp
  | rep r mn mx gr =>
    simp only [Rx.m] at h
    simp only [Rx.noSlash] at hok
    exact hR r mn mx gr 0 s gs k g hok hgs h

private theorem capSeq_succ (f : Nat) (hM : CapM f) (hS : CapSeq f) : CapSeq (f + 1) := by
  intro rs s gs k g hok hgs h
  cases rs with
  | nil =>
    simp only [Rx.mSeq] at h
    exact ⟨[], s, gs, rfl, by simp, hgs, h⟩
  | cons r rs =>
    simp only [Rx.mSeq] at h
    simp only [Rx.noSlashL, Bool.and_eq_true] at hok
    obtain ⟨pre, rest, gs', e, hp, hg', hk⟩ := hM r s gs _ g hok.1 hgs h
    obtain ⟨pre2, rest2, gs2, e2, hp2, hg2, hk2⟩ := hS rs rest gs' k g hok.2 hg' hk
    exact ⟨pre ++ pre2, rest2, gs2, by rw [e, e2, List.append_assoc], by simp [hp, hp2], hg2, hk2⟩

private theorem capAlt_succ (f : Nat) (hM : CapM f) (hA : CapAlt f) : CapAlt (f + 1) := by
  intro rs s gs k g hok hgs h
  cases rs with
  | nil => simp [Rx.mAlt] at h
  | cons r rs =>
    simp only [Rx.mAlt] at h
    simp only [Rx.noSlashL, Bool.and_eq_true] at hok
    split at h
    · next g' hg' =>
      cases h
      exact hM r s gs k g hok.1 hgs hg'
    · exact hA rs s gs k g hok.2 hgs h

private theorem capRep_succ (f : Nat) (hM : CapM f) (hR : CapRep f) : CapRep (f + 1) := by
  intro r mn mx gr count s gs k g hok hgs h
  have hmore : ∀ (canMore : Bool),
      (if canMore then
        Rx.m f r s gs (fun rest gs' =>
          if rest.length < s.length then Rx.mRep f r mn mx gr (count + 1) rest gs' k else none)
      else none) = some g →
      ∃ pre rest gs', s = pre ++ rest ∧ '/' ∉ pre ∧ GroupsNoSlash gs' ∧ k rest gs' = some g := by
    intro canMore h
    split at h
    · obtain ⟨pre, rest, gs', e, hp, hg', hk⟩ := hM r s gs _ g hok hgs h
      split at hk
      · obtain ⟨pre2, rest2, gs2, e2, hp2, hg2, hk2⟩ := hR r mn mx gr (count + 1) rest gs' k g hok hg' hk
        exact ⟨pre ++ pre2, rest2, gs2, by rw [e, e2, List.append_assoc], by simp [hp, hp2], hg2, hk2⟩
      · cases hk
    · cases h
  have hexit : k s gs = some g →
      ∃ pre rest gs', s = pre ++ rest ∧ '/' ∉ pre ∧ GroupsNoSlash gs' ∧ k rest gs' = some g :=
    fun h2 => ⟨[], s, gs, rfl, by simp, hgs, h2⟩
  simp only [Rx.mRep] at h
  split at h
  · exact hmore _ h
  · split at h
    · split at h
      · next g' hg' => cases h; exact hmore _ hg'
      · exact hexit h
    · split at h
      · next g' hg' => cases h; exact hexit hg'
      · exact hmore _ h

private theorem cap_all (f : Nat) : CapM f ∧ CapSeq f ∧ CapAlt f ∧ CapRep f := by
  induction f with
  | zero =>
    refine ⟨?_, ?_, ?_, ?_⟩
    · intro r s gs k g _ _ h; simp [Rx.m] at h
    · intro r s gs k g _ _ h; simp [Rx.mSeq] at h
    · intro r s gs k g _ _ h; simp [Rx.mAlt] at h
    · intro r mn mx gr c s gs k g _ _ h; simp [Rx.mRep] at h
  | succ f ih =>
    obtain ⟨hM, hS, hA, hR⟩ := ih
    exact ⟨capM_succ f hM hS hA hR, capSeq_succ f hM hS, capAlt_succ f hM hA, capRep_succ f hM hR⟩

/-- captures of an expression none of whose atoms accepts '/' contain no '/' -/
theorem Rx.m_noSlash (f : Nat) (r : Rx) (s : List Char) (gs : Groups) (k : List Char → Groups → Option Groups) (g : Groups)
    (hr : r.noSlash = true) (hgs : GroupsNoSlash gs) (h : Rx.m f r s gs k = some g) :
    ∃ pre rest gs', s = pre ++ rest ∧ '/' ∉ pre ∧ GroupsNoSlash gs' ∧ k rest gs' = some g :=
  (cap_all f).1 r s gs k g hr hgs h

theorem Rx.fullmatch_noSlash (r : Rx) (s : List Char) (g : Groups) (hr : r.noSlash = true) (h : r.fullmatch s = some g) :
    GroupsNoSlash g := by
  obtain ⟨pre, rest, gs', e, hp, hg', hk⟩ := Rx.m_noSlash _ r s [] _ g hr (by intro kv hkv; cases hkv) h
  split at hk
  · cases hk; exact hg'
  · cases hk

theorem Rx.matchPrefix_noSlash (r : Rx) (s : List Char) (g : Groups) (hr : r.noSlash = true) (h : r.matchPrefix s = some g) :
    GroupsNoSlash g := by
  obtain ⟨pre, rest, gs', e, hp, hg', hk⟩ := Rx.m_noSlash _ r s [] _ g hr (by intro kv hkv; cases hkv) h
  cases hk; exact hg'

theorem runRegex_noSlash (fn : String) (r : Rx) (s : List Char) (g : Groups) (hr : r.noSlash = true) (h : runRegex fn r s = some g) :
    GroupsNoSlash g := by
  unfold runRegex at h
  split at h
  · exact Rx.fullmatch_noSlash r s g hr h
  · exact Rx.matchPrefix_noSlash r s g hr h

theorem fnameRe_noSlash : Gen.fnameRe.noSlash = true := by decide +kernel
theorem scanInfoRe_noSlash : Gen.scanInfoRe.noSlash = true := by decide +kernel

private theorem translate_scan_number' (t : String) : translate "scan_number" t = .ok t := by
  have h : (Gen.translations.find? (fun kv => kv.1 = "scan_number")).map Prod.snd = some "passthrough" := by decide +kernel
  unfold translate
  rw [h]
  rfl

/-- every entry of a translated group dictionary comes from a named group: its key, the captured text, the translation -/
theorem translateGroups_mem (names : List (String × Nat)) (gs : Groups) :
    ∀ (d : Decoded), translateGroups names gs = .ok d → ∀ kv ∈ d, ∃ idx txt v, (kv.1, idx) ∈ names ∧ groupText gs idx = some txt ∧
      translate kv.1 (String.ofList txt) = .ok v ∧ kv.2 = some v := by
  unfold translateGroups
  induction names with
  | nil =>
    intro d h kv hkv
    simp only [List.mapM_nil, pure, Except.pure] at h
    cases h
    cases hkv
  | cons n names ih =>
    intro d h kv hkv
    obtain ⟨name, idx⟩ := n
    simp only [List.mapM_cons, bind, Except.bind, pure, Except.pure] at h
    split at h
    · cases h
    · next b hb =>
      split at h
      · cases h
      · next bs hbs =>
        cases h
        rcases List.mem_cons.1 hkv with rfl | hkv
        · cases hgt : groupText gs idx with
          | none => simp [hgt] at hb
          | some txt =>
            simp only [hgt] at hb
            cases htr : translate name (String.ofList txt) with
            | error e => simp [htr, Except.map] at hb
            | ok v =>
              simp only [htr, Except.map] at hb
              cases hb
              exact ⟨idx, txt, v, List.mem_cons_self, hgt, htr, rfl⟩
        · obtain ⟨idx', txt, v, h1, h2, h3, h4⟩ := ih bs hbs kv hkv
          exact ⟨idx', txt, v, List.mem_cons_of_mem _ h1, h2, h3, h4⟩

theorem translateGroups_keys (names : List (String × Nat)) (gs : Groups) (d : Decoded) (h : translateGroups names gs = .ok d)
    (kv : String × Option String) (hkv : kv ∈ d) : kv.1 ∈ names.map Prod.fst := by
  obtain ⟨idx, _, _, h1, _⟩ := translateGroups_mem names gs d h kv hkv
  exact List.mem_map.2 ⟨(kv.1, idx), h1, rfl⟩

private def IsNameKey (k : String) : Prop := k = "polarization" ∨ k = "scan_number"

theorem decodeSceneId_keys (x : String) (d : Decoded) (h : decodeSceneId x = .ok d) (kv : String × Option String) (hkv : kv ∈ d) :
    kv.1 ∈ Gen.sceneIdReGroups.map Prod.fst := by
  unfold decodeSceneId at h
  split at h
  · cases h
  · next gs _ =>
    split at h
    · next d' hd' => cases h; exact translateGroups_keys _ gs _ hd' kv hkv
    · cases h

theorem decodeProductId_keys (x : String) (d : Decoded) (h : decodeProductId x = .ok d) (kv : String × Option String) (hkv : kv ∈ d) :
    kv.1 ∈ Gen.productIdReGroups.map Prod.fst := by
  unfold decodeProductId at h
  split at h
  · cases h
  · next gs _ =>
    split at h
    · next d' hd' => cases h; exact translateGroups_keys _ gs _ hd' kv hkv
    · cases h

theorem decodeScanInfo_noSlash (x : Option String) (d : Decoded) (h : decodeScanInfo x = .ok d) (kv : String × Option String) (hkv : kv ∈ d)
    (hk : kv.1 = "polarization" ∨ kv.1 = "scan_number") (v : String) (hv : kv.2 = some v) : '/' ∉ v.toList := by
  unfold decodeScanInfo at h
  split at h
  · cases h; cases hkv
  · next x =>
    split at h
    · cases h
    · next gs hgs =>
      have hns := runRegex_noSlash _ _ _ _ scanInfoRe_noSlash hgs
      obtain ⟨idx, txt, v', h1, h2, h3, h4⟩ := translateGroups_mem _ gs d h kv hkv
      rcases hk with hk | hk
      · rw [hk] at h1
        revert h1
        simp [Gen.scanInfoReGroups]
      · rw [hk, translate_scan_number'] at h3
        cases h3
        rw [hv] at h4
        cases h4
        simpa using groupText_noSlash gs idx txt hns h2

theorem decodeFilename_noSlash (s : String) (d : Decoded) (h : decodeFilename s = .ok d) (kv : String × Option String) (hkv : kv ∈ d)
    (hk : kv.1 = "polarization" ∨ kv.1 = "scan_number") (v : String) (hv : kv.2 = some v) : '/' ∉ v.toList := by
  unfold decodeFilename at h
  split at h
  · cases h
  · next gs hgs =>
    have hns := runRegex_noSlash _ _ _ _ fnameRe_noSlash hgs
    simp only [bind, Except.bind, pure, Except.pure] at h
    split at h
    · cases h
    · next scene hscene =>
      split at h
      · cases h
      · next prod hprod =>
        split at h
        · cases h
        · next scan hscan =>
          cases h
          simp only [List.cons_append, List.nil_append, List.mem_cons, List.mem_append, or_assoc] at hkv
          rcases hkv with rfl | rfl | hkv | hkv | hkv
          · revert hk; simp
          · simp only at hv
            cases hgt : groupText gs (groupIdx Gen.fnameReGroups "polarization") with
            | none => simp [hgt] at hv
            | some txt =>
              simp only [hgt, Option.map_some, Option.some.injEq] at hv
              subst hv
              simpa using groupText_noSlash gs _ txt hns hgt
          · have := decodeSceneId_keys _ _ hscene kv hkv
            revert this
            rcases hk with hk | hk <;> rw [hk] <;> simp [Gen.sceneIdReGroups]
          · have := decodeProductId_keys _ _ hprod kv hkv
            revert this
            rcases hk with hk | hk <;> rw [hk] <;> simp [Gen.productIdReGroups]
          · exact decodeScanInfo_noSlash _ _ hscan kv hkv hk v hv

private theorem find_noSlash (d : Decoded) (key : String) (hkey : key = "polarization" ∨ key = "scan_number")
    (hd : ∀ kv ∈ d, (kv.1 = "polarization" ∨ kv.1 = "scan_number") → ∀ v, kv.2 = some v → '/' ∉ v.toList)
    (t : String) (ht : (d.find? (fun kv => kv.1 = key)).bind Prod.snd = some t) : '/' ∉ t.toList := by
  cases hf : d.find? (fun kv => kv.1 = key) with
  | none => simp [hf] at ht
  | some kv =>
    simp only [hf, Option.bind_some] at ht
    have hm := List.mem_of_find?_eq_some hf
    have hp := List.find?_some hf
    have hp' : kv.1 = key := by simpa using hp
    exact hd kv hm (hp' ▸ hkey) t ht

private theorem intercalate_noSlash : ∀ (parts : List String), (∀ p ∈ parts, '/' ∉ p.toList) →
    '/' ∉ (String.intercalate "_" parts).toList
  | [], _ => by simp
  | [a], h => by simpa [String.intercalate_singleton] using h a (by simp)
  | a :: b :: rest, h => by
    have ih := intercalate_noSlash (b :: rest) (fun p hp => h p (List.mem_cons_of_mem _ hp))
    have ha := h a (by simp)
    rw [String.intercalate_cons_cons]
    simp only [String.toList_append, List.mem_append, not_or]
    exact ⟨⟨ha, by decide⟩, ih⟩

/-- the group name of an image file never contains a '/' (so `Group.name` of a group with that path is the path itself) -/
theorem groupName_noslash (s : String) (g : String) (h : groupName s = .ok g) : '/' ∉ g.toList := by
  unfold groupName at h
  simp only [bind, Except.bind, pure, Except.pure] at h
  split at h
  · cases h
  · next d hd =>
    have hall := decodeFilename_noSlash s d hd
    have hpol := find_noSlash d "polarization" (Or.inl rfl) hall
    have hscan := find_noSlash d "scan_number" (Or.inr rfl) hall
    revert h hpol hscan
    generalize (d.find? (fun kv => kv.1 = "polarization")).bind Prod.snd = pol
    generalize (d.find? (fun kv => kv.1 = "scan_number")).bind Prod.snd = scan
    intro h hpol hscan
    cases h
    apply intercalate_noSlash
    intro p hp
    simp only [List.mem_filterMap, List.mem_cons, List.not_mem_nil, or_false] at hp
    obtain ⟨x, hx, hfx⟩ := hp
    split at hfx
    · next t =>
      split at hfx
      · cases hfx
      · cases hfx
        rcases hx with hx | hx
        · exact hpol p hx.symm
        · cases scan with
          | none => cases hx
          | some n =>
            simp only [Option.map_some, Option.some.injEq] at hx
            subst hx
            have := hscan n rfl
            simp [this]
    · cases hfx

end Alos2

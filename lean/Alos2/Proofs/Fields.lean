/-
Field positions: the field tables of the record layouts regenerated from /repo equal the frozen golden tables, a
parsed leaf depends only on the bytes of its own field, and blank fields read as "missing".
-/
import Alos2.Model.LeafTable
import Alos2.Gen.Layouts
import Alos2.Spec.Layouts
import Alos2.Proofs.Layout

namespace Alos2

open Layout

/-! ### field tables

`Con.leafTable` is defined by well-founded recursion and does not reduce in the kernel; the tables are computed
with a fuel-indexed structural copy `leafTableF`, proved to agree with `Con.leafTable` wherever it succeeds. -/

namespace Fields

mutual
def leafTableF : Nat → Con → List String → Nat → Option (List LeafEntry × Nat)
  | 0, _, _, _ => none
  | fuel + 1, c, p, off =>
    match c with
    | .struct fs => leafTableFieldsF fuel fs p off []
    | .array (.const n) elem => if n < 0 then none else leafTableArrayF fuel elem p n.toNat 0 off []
    | .wmeta attrs sub =>
      if sub.isLeafLevel then (Con.sizeWith true (.wmeta attrs sub)).map (fun w => ([(p, off, w, .wmeta attrs sub)], off + w))
      else leafTableF fuel sub p off
    | c => if c.isLeafLevel then (Con.sizeWith true c).map (fun w => ([(p, off, w, c)], off + w)) else none
termination_by structural fuel => fuel
def leafTableFieldsF : Nat → List (String × Con) → List String → Nat → List LeafEntry → Option (List LeafEntry × Nat)
  | 0, _, _, _, _ => none
  | fuel + 1, fs, p, off, acc =>
    match fs with
    | [] => some (acc, off)
    | (name, c) :: rest =>
      match leafTableF fuel c (p ++ [name]) off with
      | none => none
      | some (es, off') =>
        let acc' := acc.filter (fun e => !((p ++ [name]).isPrefixOf e.1))
        leafTableFieldsF fuel rest p off' (acc' ++ es)
termination_by structural fuel => fuel
def leafTableArrayF : Nat → Con → List String → Nat → Nat → Nat → List LeafEntry → Option (List LeafEntry × Nat)
  | 0, _, _, _, _, _, _ => none
  | fuel + 1, elem, p, k, i, off, acc =>
    match k with
    | 0 => some (acc, off)
    | k + 1 =>
      match leafTableF fuel elem (p ++ ["[" ++ toString i ++ "]"]) off with
      | none => none
      | some (es, off') => leafTableArrayF fuel elem p k (i + 1) off' (acc ++ es)
termination_by structural fuel => fuel
end

theorem leafTableF_sound : ∀ fuel : Nat,
    (∀ c p off r, leafTableF fuel c p off = some r → Con.leafTable c p off = some r) ∧
    (∀ fs p off acc r, leafTableFieldsF fuel fs p off acc = some r → Con.leafTableFields fs p off acc = some r) ∧
    (∀ elem p k i off acc r, leafTableArrayF fuel elem p k i off acc = some r → Con.leafTableArray elem p k i off acc = some r) := by
  intro fuel
  induction fuel with
  | zero => simp [leafTableF, leafTableFieldsF, leafTableArrayF]
  | succ fuel ih =>
    obtain ⟨ih1, ih2, ih3⟩ := ih
    refine ⟨?_, ?_, ?_⟩
    · intro c p off r h
      cases c with
      | struct fs => simp only [leafTableF] at h; rw [Con.leafTable]; exact ih2 _ _ _ _ _ h
      | array count elem =>
        cases count with
        | const n =>
          simp only [leafTableF] at h; rw [Con.leafTable]
          split at h
          · simp at h
          · rename_i hn; rw [if_neg hn]; exact ih3 _ _ _ _ _ _ _ h
        | _ => simp [leafTableF, Con.isLeafLevel] at h
      | wmeta attrs sub =>
        simp only [leafTableF] at h; rw [Con.leafTable]
        split at h
        · rename_i hl; rw [if_pos hl]; exact h
        · rename_i hl; rw [if_neg hl]; exact ih1 _ _ _ _ h
      | _ => simp only [leafTableF] at h; rw [Con.leafTable] <;> first | exact h | (intros; contradiction)
    · intro fs p off acc r h
      cases fs with
      | nil => simp only [leafTableFieldsF] at h; rw [Con.leafTableFields]; exact h
      | cons f rest =>
        obtain ⟨name, c⟩ := f
        simp only [leafTableFieldsF] at h; rw [Con.leafTableFields]
        split at h
        · simp at h
        · rename_i es off' he
          rw [ih1 _ _ _ _ he]
          exact ih2 _ _ _ _ _ h
    · intro elem p k i off acc r h
      cases k with
      | zero => simp only [leafTableArrayF] at h; rw [Con.leafTableArray]; exact h
      | succ k =>
        simp only [leafTableArrayF] at h; rw [Con.leafTableArray]
        split at h
        · simp at h
        · rename_i es off' he
          rw [ih1 _ _ _ _ he]
          exact ih3 _ _ _ _ _ _ _ h

/-- `Con.fieldTable` computed through the fuel-indexed copy -/
def fieldTableF (c : Con) : Option (List (List String × Nat × Nat × String) × Nat) :=
  (leafTableF 1000 c [] 0).map (fun r => ((r.1.filter (fun e => livePath e.1)).map (fun e => (e.1, e.2.1, e.2.2.1, e.2.2.2.tag)), r.2))

theorem fieldTable_of_F (c : Con) (t : List (List String × Nat × Nat × String) × Nat)
    (h : fieldTableF c = some t) : Con.fieldTable c = some t := by
  unfold fieldTableF at h
  unfold Con.fieldTable
  cases hF : leafTableF 1000 c [] 0 with
  | none => rw [hF] at h; simp at h
  | some r => rw [(leafTableF_sound 1000).1 _ _ _ _ hF]; rw [hF] at h; exact h

set_option maxRecDepth 100000 in
theorem fieldTableF_recordPreamble : fieldTableF Gen.recordPreamble = some Spec.recordPreambleFields := by decide +kernel

set_option maxRecDepth 100000 in
theorem fieldTableF_imageFileDescriptor : fieldTableF Gen.imageFileDescriptor = some Spec.imageFileDescriptorFields := by decide +kernel

set_option maxRecDepth 100000 in
theorem fieldTableF_signalDataRecord : fieldTableF Gen.signalDataRecord = some Spec.signalDataRecordFields := by decide +kernel

set_option maxRecDepth 100000 in
theorem fieldTableF_processedDataRecord : fieldTableF Gen.processedDataRecord = some Spec.processedDataRecordFields := by decide +kernel

set_option maxRecDepth 100000 in
theorem fieldTableF_leaderFileDescriptor : fieldTableF Gen.leaderFileDescriptor = some Spec.leaderFileDescriptorFields := by decide +kernel

set_option maxRecDepth 100000 in
theorem fieldTableF_datasetSummaryRecord : fieldTableF Gen.datasetSummaryRecord = some Spec.datasetSummaryRecordFields := by decide +kernel

set_option maxRecDepth 100000 in
theorem fieldTableF_mapProjectionRecord : fieldTableF Gen.mapProjectionRecord = some Spec.mapProjectionRecordFields := by decide +kernel

set_option maxRecDepth 100000 in
theorem fieldTableF_platformPositionRecord : fieldTableF Gen.platformPositionRecord = some Spec.platformPositionRecordFields := by decide +kernel

set_option maxRecDepth 100000 in
theorem fieldTableF_radiometricDataRecord : fieldTableF Gen.radiometricDataRecord = some Spec.radiometricDataRecordFields := by decide +kernel

set_option maxRecDepth 100000 in
theorem fieldTableF_facilityRelatedData5Record : fieldTableF Gen.facilityRelatedData5Record = some Spec.facilityRelatedData5RecordFields := by decide +kernel

set_option maxRecDepth 100000 in
theorem fieldTableF_volumeDescriptor : fieldTableF Gen.volumeDescriptor = some Spec.volumeDescriptorFields := by decide +kernel

set_option maxRecDepth 100000 in
theorem fieldTableF_filePointerRecord : fieldTableF Gen.filePointerRecord = some Spec.filePointerRecordFields := by decide +kernel

set_option maxRecDepth 100000 in
theorem fieldTableF_textRecord : fieldTableF Gen.textRecord = some Spec.textRecordFields := by decide +kernel


end Fields

open Fields

/-- every live field of every fixed-size record sits at the documented offset, with the documented width and
    conversion (scale factor, unit attributes, code table) — recomputed on the regenerated layouts -/
theorem field_tables :
    Con.fieldTable Gen.recordPreamble = some Spec.recordPreambleFields ∧
    Con.fieldTable Gen.imageFileDescriptor = some Spec.imageFileDescriptorFields ∧
    Con.fieldTable Gen.signalDataRecord = some Spec.signalDataRecordFields ∧
    Con.fieldTable Gen.processedDataRecord = some Spec.processedDataRecordFields ∧
    Con.fieldTable Gen.leaderFileDescriptor = some Spec.leaderFileDescriptorFields ∧
    Con.fieldTable Gen.datasetSummaryRecord = some Spec.datasetSummaryRecordFields ∧
    Con.fieldTable Gen.mapProjectionRecord = some Spec.mapProjectionRecordFields ∧
    Con.fieldTable Gen.platformPositionRecord = some Spec.platformPositionRecordFields ∧
    Con.fieldTable Gen.radiometricDataRecord = some Spec.radiometricDataRecordFields ∧
    Con.fieldTable Gen.facilityRelatedData5Record = some Spec.facilityRelatedData5RecordFields ∧
    Con.fieldTable Gen.volumeDescriptor = some Spec.volumeDescriptorFields ∧
    Con.fieldTable Gen.filePointerRecord = some Spec.filePointerRecordFields ∧
    Con.fieldTable Gen.textRecord = some Spec.textRecordFields :=
  ⟨fieldTable_of_F _ _ fieldTableF_recordPreamble, fieldTable_of_F _ _ fieldTableF_imageFileDescriptor, fieldTable_of_F _ _ fieldTableF_signalDataRecord, fieldTable_of_F _ _ fieldTableF_processedDataRecord, fieldTable_of_F _ _ fieldTableF_leaderFileDescriptor, fieldTable_of_F _ _ fieldTableF_datasetSummaryRecord, fieldTable_of_F _ _ fieldTableF_mapProjectionRecord, fieldTable_of_F _ _ fieldTableF_platformPositionRecord, fieldTable_of_F _ _ fieldTableF_radiometricDataRecord, fieldTable_of_F _ _ fieldTableF_facilityRelatedData5Record, fieldTable_of_F _ _ fieldTableF_volumeDescriptor, fieldTable_of_F _ _ fieldTableF_filePointerRecord, fieldTable_of_F _ _ fieldTableF_textRecord⟩

/-! ### `leafAt` and `subAt`

The statement `leafAt_eq_subAt` as first written (`v.leafAt p` = `v.subAt p` followed by taking a leaf or the
leaf of ONE `Metadata` pair) is false: `leafAt` looks through any number of nested pairs
(`leafAt_eq_subAt_false`).  True variants: `leafAt_eq_subAt_asLeaf` (all pairs stripped) and `leafAt_eq_subAt'`
(the original conclusion when the sub-value is not a pair directly inside a pair). -/

theorem leafAt_eq_subAt_false : ¬ (∀ (v : Val) (p : List String), v.leafAt p = (match v.subAt p with
      | some w => (match w with
        | .leaf l => some l
        | .tup (.leaf l) _ => some l
        | _ => none)
      | none => none)) := by
  intro h
  have := h (.tup (.tup (.leaf (.int 1)) []) []) []
  simp [Val.leafAt, Val.subAt] at this

/-- the leaf under any number of `Metadata` pairs -/
def Val.asLeaf : Val → Option Leaf
  | .leaf l => some l
  | .tup v _ => v.asLeaf
  | _ => none


theorem leafAt_eq_subAt_asLeaf (v : Val) (p : List String) : v.leafAt p = (v.subAt p).bind Val.asLeaf := by
  fun_induction Val.leafAt v p with
  | case1 l => simp [Val.subAt, Val.asLeaf]
  | case2 v a p ih =>
    cases p with
    | nil => rw [ih]; simp [Val.subAt, Val.asLeaf]
    | cons k rest => rw [ih]; simp [Val.subAt]
  | case3 kvs k rest kv hf ih => simp [Val.subAt, hf, ih]
  | case4 kvs k rest hf => simp [Val.subAt, hf]
  | case5 xs k rest vi hf ih => rw [Val.subAt]; simp only [hf]; exact ih
  | case6 xs k rest hf => rw [Val.subAt]; simp only [hf]; rfl
  | case7 v p h1 h2 h3 h4 =>
    cases v with
    | leaf l => cases p with
      | nil => exact absurd rfl (fun h => h1 l rfl h)
      | cons k rest => simp [Val.subAt]
    | tup v a => exact (h2 v a rfl).elim
    | dict kvs => cases p with
      | nil => simp [Val.subAt, Val.asLeaf]
      | cons k rest => exact (h3 kvs k rest rfl rfl).elim
    | list xs => cases p with
      | nil => simp [Val.subAt, Val.asLeaf]
      | cons k rest => exact (h4 xs k rest rfl rfl).elim

/-- `leafAt` is `subAt` followed by taking the leaf — for sub-values that are not a `Metadata` pair directly
    inside another `Metadata` pair (the original statement fails for `((l, a), b)` at the empty path) -/
theorem leafAt_eq_subAt' (v : Val) (p : List String)
    (hnest : ∀ x a b, v.subAt p ≠ some (.tup (.tup x a) b)) :
    v.leafAt p = (match v.subAt p with
      | some w => (match w with
        | .leaf l => some l
        | .tup (.leaf l) _ => some l
        | _ => none)
      | none => none) := by
  rw [leafAt_eq_subAt_asLeaf]
  cases h : v.subAt p with
  | none => rfl
  | some w =>
    cases w with
    | leaf l => simp [Val.asLeaf]
    | dict kvs => simp [Val.asLeaf]
    | list xs => simp [Val.asLeaf]
    | tup x a =>
      cases x with
      | leaf l => simp [Val.asLeaf]
      | dict kvs => simp [Val.asLeaf]
      | list xs => simp [Val.asLeaf]
      | tup y b => exact (hnest y b a h).elim

/-! ### locality of leaves

The statement `leaf_window` as first written is false for two reasons (see `leaf_window_false_seek`,
`leaf_window_false_ctx`): after a `Seek` the position of the following members is data dependent while the
table counts the `Seek` as 0 bytes, and `usesContext` does not look inside `Ydms`, whose inner struct may
contain `Computed`/`Tell` members reading the context.  `leaf_window'` is the true variant: `Seek` only in
tail position (`Con.seekTail`, implied by `Con.staticSize c = some k`) and no context-dependent part anywhere
inside the leaf (`Con.noCtx`).  For the thirteen generated records of `field_tables` both side conditions are
checked by computation, which gives the original statement for them (`leaf_window_fixedRecords`). -/

mutual
/-- no context-dependent part anywhere inside: no `ydus`, `tell`, `seek`, `computed` -/
def Con.noCtx : Con → Bool
  | .struct fs => noCtxFields fs
  | .array _ elem => elem.noCtx
  | .factor _ sub => sub.noCtx
  | .wmeta _ sub => sub.noCtx
  | .enum _ sub => sub.noCtx
  | .ydms sub => sub.noCtx
  | .ydus _ _ => false
  | .tell => false
  | .seek _ => false
  | .computed _ => false
  | _ => true
def noCtxFields : List (String × Con) → Bool
  | [] => true
  | (_, c) :: rest => c.noCtx && noCtxFields rest
end

namespace Fields

theorem readBytes_eq {bs bs' : Bytes} {pos n : Nat} {raw raw' : Bytes}
    (h : readBytes bs pos n = .ok raw) (h' : readBytes bs' pos n = .ok raw')
    (hs : slice bs pos (pos + n) = slice bs' pos (pos + n)) : raw = raw' := by
  rw [(readBytes_ok h).2, (readBytes_ok h').2, hs]

theorem headD_step (ctx : Ctx) (name : String) (v : Val) :
    (match ctx with
      | lvl :: outer => setField lvl name v :: outer
      | [] => [[(name, v)]]).headD [] = setField (ctx.headD []) name v := by
  cases ctx <;> rfl

theorem parseMany_eq (elem : Con) (ctx ctx' : Ctx) (bs bs' : Bytes) (a : Nat)
    (hsz : Con.sizeWith false elem = some a)
    (ih : ∀ q v v' e e', slice bs q (q + a) = slice bs' q (q + a) →
      parse elem ctx bs q = .ok (v, e) → parse elem ctx' bs' q = .ok (v', e') → v = v') :
    ∀ (n pos : Nat) (vs vs' : List Val) (e e' : Nat),
      slice bs pos (pos + n * a) = slice bs' pos (pos + n * a) →
      parseMany (fun q => parse elem ctx bs q) n pos = .ok (vs, e) →
      parseMany (fun q => parse elem ctx' bs' q) n pos = .ok (vs', e') → vs = vs' := by
  intro n
  induction n with
  | zero => intro pos vs vs' e e' _ h h'; simp [parseMany] at h h'; rw [h.1, h'.1]
  | succ n ihn =>
    intro pos vs vs' e e' hs h h'
    rw [parseMany] at h h'
    simp only [bind_ok, pure_ok] at h h'
    obtain ⟨⟨v1, p1⟩, h1, ⟨vs2, p2⟩, h2, h3⟩ := h
    obtain ⟨⟨v1', p1'⟩, h1', ⟨vs2', p2'⟩, h2', h3'⟩ := h'
    simp at h3 h3'
    obtain ⟨rfl, _⟩ := static_joint.1 elem ctx bs pos a v1 p1 hsz h1
    obtain ⟨rfl, _⟩ := static_joint.1 elem ctx' bs' pos a v1' p1' hsz h1'
    rw [Nat.succ_mul] at hs
    have e1 := ih pos v1 v1' _ _ (slice_sub hs (Nat.le_refl _) (by omega)) h1 h1'
    have e2 := ihn (pos + a) vs2 vs2' _ _ (slice_sub hs (by omega) (by omega)) h2 h2'
    rw [← h3.1, ← h3'.1, e1, e2]

theorem leafEq_joint :
    (∀ (c : Con) (ctx : Ctx) (bs : Bytes) (pos : Nat), ∀ (ctx' : Ctx) (bs' : Bytes) (k : Nat) (v v' : Val) (e e' : Nat),
        Con.sizeWith false c = some k → c.noCtx = true → slice bs pos (pos + k) = slice bs' pos (pos + k) →
        parse c ctx bs pos = .ok (v, e) → parse c ctx' bs' pos = .ok (v', e') → v = v') ∧
    (∀ (fs : List (String × Con)) (ctx : Ctx) (bs : Bytes) (pos : Nat), ∀ (ctx' : Ctx) (bs' : Bytes) (k : Nat) (v v' : Val) (e e' : Nat),
        ctx.headD [] = ctx'.headD [] →
        Con.sizeFields false fs = some k → noCtxFields fs = true → slice bs pos (pos + k) = slice bs' pos (pos + k) →
        parseFields fs ctx bs pos = .ok (v, e) → parseFields fs ctx' bs' pos = .ok (v', e') → v = v') := by
  apply parse.mutual_induct
  case case1 =>
    intro fs ctx bs pos ih ctx' bs' k v v' e e' hs hn hw h h'
    rw [Con.sizeWith] at hs; rw [parse] at h h'; rw [Con.noCtx] at hn
    exact ih ([] :: ctx') bs' k v v' e e' rfl hs hn hw h h'
  case case2 =>
    intro n ctx bs pos ctx' bs' k v v' e e' hs hn hw h h'
    rw [Con.sizeWith] at hs; rw [parse] at h h'
    simp only [bind_ok, pure_ok] at h h'
    obtain ⟨raw, h1, h2⟩ := h
    obtain ⟨raw', h1', h2'⟩ := h'
    simp at hs h2 h2'; subst hs
    rw [← h2.1, ← h2'.1, readBytes_eq h1 h1' hw]
  case case3 =>
    intro ex ctx bs pos ctx' bs' k v v' e e' hs hn hw h h'
    cases ex <;> simp [Con.sizeWith] at hs
    rw [parse] at h h'
    simp only [bind_ok, pure_ok] at h h'
    obtain ⟨n, h0, raw, h1, lf, hl, h2⟩ := h
    obtain ⟨n', h0', raw', h1', lf', hl', h2'⟩ := h'
    obtain ⟨_, rfl⟩ := evalLen_const h0
    obtain ⟨_, rfl⟩ := evalLen_const h0'
    obtain ⟨_, rfl⟩ := hs
    have := readBytes_eq h1 h1' hw; subst this
    rw [hl] at hl'
    simp at h2 h2' hl'
    rw [← h2.1, ← h2'.1, hl']
  case case4 =>
    intro ex ctx bs pos ctx' bs' k v v' e e' hs hn hw h h'
    cases ex <;> simp [Con.sizeWith] at hs
    rw [parse] at h h'
    simp only [bind_ok, pure_ok] at h h'
    obtain ⟨n, h0, raw, h1, lf, hl, h2⟩ := h
    obtain ⟨n', h0', raw', h1', lf', hl', h2'⟩ := h'
    obtain ⟨_, rfl⟩ := evalLen_const h0
    obtain ⟨_, rfl⟩ := evalLen_const h0'
    obtain ⟨_, rfl⟩ := hs
    have := readBytes_eq h1 h1' hw; subst this
    rw [hl] at hl'
    simp at h2 h2' hl'
    rw [← h2.1, ← h2'.1, hl']
  case case5 =>
    intro ex ctx bs pos ctx' bs' k v v' e e' hs hn hw h h'
    cases ex <;> simp [Con.sizeWith] at hs
    rw [parse] at h h'
    simp only [bind_ok, pure_ok] at h h'
    obtain ⟨n, h0, raw, h1, lf, hl, raw2, h3, lf2, hl2, h2⟩ := h
    obtain ⟨n', h0', raw', h1', lf', hl', raw2', h3', lf2', hl2', h2'⟩ := h'
    obtain ⟨_, rfl⟩ := evalLen_const h0
    obtain ⟨_, rfl⟩ := evalLen_const h0'
    obtain ⟨_, rfl⟩ := hs
    have := readBytes_eq h1 h1' (slice_sub hw (Nat.le_refl _) (by omega)); subst this
    have := readBytes_eq h3 h3' (slice_sub hw (by omega) (by omega)); subst this
    rw [hl] at hl'; rw [hl2] at hl2'
    simp at h2 h2' hl' hl2'
    rw [← h2.1, ← h2'.1, hl', hl2']
  case case6 =>
    intro ex ctx bs pos ctx' bs' k v v' e e' hs hn hw h h'
    cases ex <;> simp [Con.sizeWith] at hs
    rw [parse] at h h'
    simp only [bind_ok, pure_ok] at h h'
    obtain ⟨n, h0, raw, h1, lf, hl, h2⟩ := h
    obtain ⟨n', h0', raw', h1', lf', hl', h2'⟩ := h'
    obtain ⟨_, rfl⟩ := evalLen_const h0
    obtain ⟨_, rfl⟩ := evalLen_const h0'
    obtain ⟨_, rfl⟩ := hs
    have := readBytes_eq h1 h1' hw; subst this
    rw [hl] at hl'
    simp at h2 h2' hl'
    rw [← h2.1, ← h2'.1, hl']
  case case7 =>
    intro ex ctx bs pos ctx' bs' k v v' e e' hs hn hw h h'
    cases ex <;> simp [Con.sizeWith] at hs
    rw [parse] at h h'
    simp only [bind_ok, pure_ok] at h h'
    obtain ⟨n, h0, raw, h1, h2⟩ := h
    obtain ⟨n', h0', raw', h1', h2'⟩ := h'
    obtain ⟨_, rfl⟩ := evalLen_const h0
    obtain ⟨_, rfl⟩ := evalLen_const h0'
    obtain ⟨_, rfl⟩ := hs
    have := readBytes_eq h1 h1' hw; subst this
    simp at h2 h2'
    rw [← h2.1, ← h2'.1]
  case case8 =>
    intro count elem ctx bs pos ih ctx' bs' k v v' e e' hs hn hw h h'
    cases count <;> simp [Con.sizeWith] at hs
    obtain ⟨hv, ke, hke, rfl⟩ := hs
    rw [Con.noCtx] at hn
    rw [parse] at h h'
    simp only [bind_ok, pure_ok] at h h'
    obtain ⟨n, h0, ⟨vs, p1⟩, h1, h2⟩ := h
    obtain ⟨n', h0', ⟨vs', p1'⟩, h1', h2'⟩ := h'
    obtain ⟨_, rfl⟩ := evalLen_const h0
    obtain ⟨_, rfl⟩ := evalLen_const h0'
    simp at h2 h2'
    have := parseMany_eq elem ctx ctx' bs bs' ke hke
      (fun q w w' e1 e1' hq hp hp' => ih q ctx' bs' ke w w' e1 e1' hke hn hq hp hp') _ pos vs vs' _ _ hw h1 h1'
    rw [← h2.1, ← h2'.1, this]
  case case9 =>
    intro f sub ctx bs pos ih ctx' bs' k v v' e e' hs hn hw h h'
    rw [Con.sizeWith] at hs; rw [parse] at h h'; rw [Con.noCtx] at hn
    simp only [bind_ok, pure_ok] at h h'
    obtain ⟨⟨v1, p1⟩, h1, w, hw1, h2⟩ := h
    obtain ⟨⟨v1', p1'⟩, h1', w', hw1', h2'⟩ := h'
    have := ih ctx' bs' k v1 v1' _ _ hs hn hw h1 h1'; subst this
    simp at hw1 hw1'
    rw [hw1] at hw1'
    simp at h2 h2' hw1'
    rw [← h2.1, ← h2'.1, hw1']
  case case10 =>
    intro attrs sub ctx bs pos ih ctx' bs' k v v' e e' hs hn hw h h'
    rw [Con.sizeWith] at hs; rw [parse] at h h'; rw [Con.noCtx] at hn
    simp only [bind_ok, pure_ok] at h h'
    obtain ⟨⟨v1, p1⟩, h1, h2⟩ := h
    obtain ⟨⟨v1', p1'⟩, h1', h2'⟩ := h'
    have := ih ctx' bs' k v1 v1' _ _ hs hn hw h1 h1'; subst this
    simp at h2 h2'
    rw [← h2.1, ← h2'.1]
  case case11 =>
    intro table sub ctx bs pos ih ctx' bs' k v v' e e' hs hn hw h h'
    rw [Con.sizeWith] at hs; rw [parse] at h h'; rw [Con.noCtx] at hn
    simp only [bind_ok, pure_ok] at h h'
    obtain ⟨⟨v1, p1⟩, h1, w, hw1, h2⟩ := h
    obtain ⟨⟨v1', p1'⟩, h1', w', hw1', h2'⟩ := h'
    have := ih ctx' bs' k v1 v1' _ _ hs hn hw h1 h1'; subst this
    simp at hw1 hw1'
    rw [hw1] at hw1'
    simp at h2 h2' hw1'
    rw [← h2.1, ← h2'.1, hw1']
  case case12 =>
    intro n ctx bs pos ctx' bs' k v v' e e' hs hn hw h h'
    rw [Con.sizeWith] at hs; rw [parse] at h h'
    simp only [bind_ok, pure_ok] at h h'
    obtain ⟨raw, h1, h2⟩ := h
    obtain ⟨raw', h1', h2'⟩ := h'
    simp at hs h2 h2'; subst hs
    rw [← h2.1, ← h2'.1, readBytes_eq h1 h1' hw]
  case case13 =>
    intro sub ctx bs pos ih ctx' bs' k v v' e e' hs hn hw h h'
    rw [Con.sizeWith] at hs; rw [parse] at h h'; rw [Con.noCtx] at hn
    simp only [bind_ok, pure_ok] at h h'
    obtain ⟨⟨v1, p1⟩, h1, w, hw1, h2⟩ := h
    obtain ⟨⟨v1', p1'⟩, h1', w', hw1', h2'⟩ := h'
    have := ih ctx' bs' k v1 v1' _ _ hs hn hw h1 h1'; subst this
    simp at hw1 hw1'
    rw [hw1] at hw1'
    simp at h2 h2' hw1'
    rw [← h2.1, ← h2'.1, hw1']
  case case14 => intro sub ref ctx bs pos ih ctx' bs' k v v' e e' hs hn; simp [Con.noCtx] at hn
  case case15 => intro ctx bs pos ctx' bs' k v v' e e' hs hn; simp [Con.noCtx] at hn
  case case16 => intro ex ctx bs pos ctx' bs' k v v' e e' hs hn; simp [Con.noCtx] at hn
  case case17 => intro ex ctx bs pos v0 he ctx' bs' k v v' e e' hs hn; simp [Con.noCtx] at hn
  case case18 => intro ex ctx bs pos he ctx' bs' k v v' e e' hs hn; simp [Con.noCtx] at hn
  case case19 =>
    intro ctx bs pos ctx' bs' k v v' e e' hh hs hn hw h h'
    rw [parseFields] at h h'
    simp only [Except.ok.injEq, Prod.mk.injEq] at h h'
    rw [← h.1, ← h'.1, hh]
  case case20 =>
    intro name c rest ctx bs pos ih1 ih2 ctx' bs' k v v' e e' hh hs hn hw h h'
    rw [Con.sizeFields] at hs; rw [parseFields] at h h'; rw [noCtxFields] at hn
    simp only [bind_ok] at h h'
    obtain ⟨⟨v1, p1⟩, h1, h2⟩ := h
    obtain ⟨⟨v1', p1'⟩, h1', h2'⟩ := h'
    simp only [Bool.and_eq_true] at hn
    split at hs
    · rename_i a b ha hb
      simp at hs; subst hs
      obtain ⟨rfl, _⟩ := static_joint.1 c _ _ _ a _ _ ha h1
      obtain ⟨rfl, _⟩ := static_joint.1 c _ _ _ a _ _ ha h1'
      have := ih1 ctx' bs' a v1 v1' _ _ ha hn.1 (slice_sub hw (Nat.le_refl _) (by omega)) h1 h1'; subst this
      refine ih2 v1 (pos + a) _ bs' b v v' e e' ?_ hb hn.2 (slice_sub hw (by omega) (by omega)) h2 h2'
      cases ctx <;> cases ctx' <;> simp only [List.headD_nil, List.headD_cons] at hh <;> (try subst hh) <;> rfl
    · simp at hs

theorem size_agree_joint (b b' : Bool) :
    (∀ c : Con, c.noCtx = true → Con.sizeWith b c = Con.sizeWith b' c) ∧
    (∀ fs : List (String × Con), noCtxFields fs = true → Con.sizeFields b fs = Con.sizeFields b' fs) := by
  apply Con.noCtx.mutual_induct
  · intro fs ih h; rw [Con.noCtx] at h; rw [Con.sizeWith, Con.sizeWith]; exact ih h
  · intro count elem ih h; rw [Con.noCtx] at h
    cases count <;> simp only [Con.sizeWith]
    rw [ih h]
  · intro f sub ih h; rw [Con.noCtx] at h; rw [Con.sizeWith, Con.sizeWith]; exact ih h
  · intro f sub ih h; rw [Con.noCtx] at h; rw [Con.sizeWith, Con.sizeWith]; exact ih h
  · intro f sub ih h; rw [Con.noCtx] at h; rw [Con.sizeWith, Con.sizeWith]; exact ih h
  · intro sub ih h; rw [Con.noCtx] at h; rw [Con.sizeWith, Con.sizeWith]; exact ih h
  · intro sub ref h; simp [Con.noCtx] at h
  · intro h; simp [Con.noCtx] at h
  · intro e h; simp [Con.noCtx] at h
  · intro e h; simp [Con.noCtx] at h
  · intro t h1 h2 h3 h4 h5 h6 h7 h8 h9 h10 _
    cases t with
    | struct fs => exact (h1 fs rfl).elim
    | array c e => exact (h2 c e rfl).elim
    | factor f s => exact (h3 f s rfl).elim
    | wmeta f s => exact (h4 f s rfl).elim
    | enum f s => exact (h5 f s rfl).elim
    | ydms s => exact (h6 s rfl).elim
    | ydus s r => exact (h7 s r rfl).elim
    | tell => exact (h8 rfl).elim
    | seek e => exact (h9 e rfl).elim
    | computed e => exact (h10 e rfl).elim
    | uint n => simp only [Con.sizeWith]
    | flag n => simp only [Con.sizeWith]
    | aint e => cases e <;> simp only [Con.sizeWith]
    | afloat e => cases e <;> simp only [Con.sizeWith]
    | acomplex e => cases e <;> simp only [Con.sizeWith]
    | pstr e => cases e <;> simp only [Con.sizeWith]
    | bytes e => cases e <;> simp only [Con.sizeWith]
  · intro _; rfl
  · intro name c rest ih1 ih2 h
    rw [noCtxFields, Bool.and_eq_true] at h
    rw [Con.sizeFields, Con.sizeFields, ih1 h.1, ih2 h.2]



theorem con_induct (m1 : Con → Prop) (m2 : List (String × Con) → Prop)
    (hstruct : ∀ fs, m2 fs → m1 (.struct fs))
    (huint : ∀ n, m1 (.uint n)) (haint : ∀ e, m1 (.aint e)) (hafloat : ∀ e, m1 (.afloat e))
    (hacomplex : ∀ e, m1 (.acomplex e)) (hpstr : ∀ e, m1 (.pstr e)) (hbytes : ∀ e, m1 (.bytes e))
    (harray : ∀ count elem, m1 elem → m1 (.array count elem))
    (hfactor : ∀ f sub, m1 sub → m1 (.factor f sub))
    (hwmeta : ∀ attrs sub, m1 sub → m1 (.wmeta attrs sub))
    (henum : ∀ table sub, m1 sub → m1 (.enum table sub))
    (hflag : ∀ n, m1 (.flag n))
    (hydms : ∀ sub, m1 sub → m1 (.ydms sub))
    (hydus : ∀ sub ref, m1 sub → m1 (.ydus sub ref))
    (htell : m1 .tell) (hseek : ∀ e, m1 (.seek e)) (hcomputed : ∀ e, m1 (.computed e))
    (hnil : m2 [])
    (hcons : ∀ name c rest, m1 c → m2 rest → m2 ((name, c) :: rest)) :
    (∀ c, m1 c) ∧ (∀ fs, m2 fs) := by
  constructor
  · intro c
    exact Con.rec (motive_1 := m1) (motive_2 := m2) (motive_3 := fun p => m1 p.2)
      hstruct huint haint hafloat hacomplex hpstr hbytes harray hfactor hwmeta henum hflag hydms hydus
      htell hseek hcomputed hnil (fun head tail h1 h2 => hcons head.1 head.2 tail h1 h2) (fun _ _ h => h) c
  · intro fs
    exact Con.rec_1 (motive_1 := m1) (motive_2 := m2) (motive_3 := fun p => m1 p.2)
      hstruct huint haint hafloat hacomplex hpstr hbytes harray hfactor hwmeta henum hflag hydms hydus
      htell hseek hcomputed hnil (fun head tail h1 h2 => hcons head.1 head.2 tail h1 h2) (fun _ _ h => h) fs

theorem size_true_of_false :
    (∀ c : Con, ∀ k, Con.sizeWith false c = some k → Con.sizeWith true c = some k) ∧
    (∀ fs : List (String × Con), ∀ k, Con.sizeFields false fs = some k → Con.sizeFields true fs = some k) := by
  apply con_induct
  case hstruct => intro fs ih k h; rw [Con.sizeWith] at h ⊢; exact ih k h
  case huint => intro n k h; rw [Con.sizeWith] at h ⊢; exact h
  case hflag => intro n k h; rw [Con.sizeWith] at h ⊢; exact h
  case haint => intro e k h; cases e <;> simp [Con.sizeWith] at h ⊢; exact h
  case hafloat => intro e k h; cases e <;> simp [Con.sizeWith] at h ⊢; exact h
  case hacomplex => intro e k h; cases e <;> simp [Con.sizeWith] at h ⊢; exact h
  case hpstr => intro e k h; cases e <;> simp [Con.sizeWith] at h ⊢; exact h
  case hbytes => intro e k h; cases e <;> simp [Con.sizeWith] at h ⊢; exact h
  case harray =>
    intro count elem ih k h
    cases count <;> simp [Con.sizeWith] at h ⊢
    obtain ⟨hv, a, ha, hk⟩ := h
    exact ⟨hv, a, ih a ha, hk⟩
  case hfactor => intro f sub ih k h; rw [Con.sizeWith] at h ⊢; exact ih k h
  case hwmeta => intro f sub ih k h; rw [Con.sizeWith] at h ⊢; exact ih k h
  case henum => intro f sub ih k h; rw [Con.sizeWith] at h ⊢; exact ih k h
  case hydms => intro sub ih k h; rw [Con.sizeWith] at h ⊢; exact ih k h
  case hydus => intro sub ref ih k h; rw [Con.sizeWith] at h ⊢; exact ih k h
  case htell => intro k h; rw [Con.sizeWith] at h ⊢; exact h
  case hseek => intro e k h; simp [Con.sizeWith] at h
  case hcomputed => intro e k h; rw [Con.sizeWith] at h ⊢; exact h
  case hnil => intro k h; rw [Con.sizeFields] at h ⊢; exact h
  case hcons =>
    intro name c rest ih1 ih2 k h
    rw [Con.sizeFields] at h ⊢
    split at h
    · rename_i a b ha hb
      rw [ih1 a ha, ih2 b hb]; exact h
    · simp at h


end Fields

mutual
/-- positions inside the layout are determined by the layout alone up to (and excluding) a possible `Seek`
    in tail position: every member of a struct but the last is static, array elements are static -/
def Con.seekTail : Con → Bool
  | .struct fs => seekTailFields fs
  | .array _ elem => (Con.sizeWith false elem).isSome
  | .wmeta _ sub => sub.isLeafLevel || sub.seekTail
  | _ => true
def seekTailFields : List (String × Con) → Bool
  | [] => true
  | (_, c) :: rest => if rest.isEmpty then c.seekTail else (Con.sizeWith false c).isSome && seekTailFields rest
end

theorem seekTail_of_static :
    (∀ c : Con, ∀ k, Con.sizeWith false c = some k → c.seekTail = true) ∧
    (∀ fs : List (String × Con), ∀ k, Con.sizeFields false fs = some k → seekTailFields fs = true) := by
  apply con_induct
  case hstruct => intro fs ih k h; rw [Con.sizeWith] at h; rw [Con.seekTail]; exact ih k h
  case harray =>
    intro count elem ih k h
    cases count <;> simp [Con.sizeWith] at h
    obtain ⟨hv, a, ha, hk⟩ := h
    simp [Con.seekTail, ha]
  case hwmeta =>
    intro f sub ih k h; rw [Con.sizeWith] at h; rw [Con.seekTail, ih k h]; simp
  case hnil => intro k h; rfl
  case hcons =>
    intro name c rest ih1 ih2 k h
    rw [Con.sizeFields] at h
    split at h
    · rename_i a b ha hb
      rw [seekTailFields]
      split
      · exact ih1 a ha
      · simp [ha, ih2 b hb]
    · simp at h
  all_goals (intros; simp [Con.seekTail])

namespace Fields

theorem leafTable_default (c : Con) (p : List String) (off : Nat)
    (h1 : ∀ (fs : List (String × Con)), c = Con.struct fs → False)
    (h2 : ∀ (n : Int) (elem : Con), c = Con.array (Expr.const n) elem → False)
    (h3 : ∀ (attrs : List (String × String)) (sub : Con), c = Con.wmeta attrs sub → False) :
    Con.leafTable c p off =
      if c.isLeafLevel then (Con.sizeWith true c).map (fun w => ([(p, off, w, c)], off + w)) else none := by
  rw [Con.leafTable] <;> assumption

theorem leafTable_end :
    (∀ (c : Con) (p : List String) (off : Nat), ∀ tbl e k, Con.leafTable c p off = some (tbl, e) →
        Con.sizeWith false c = some k → e = off + k) ∧
    (∀ (elem : Con) (p : List String) (n i off : Nat) (acc : List LeafEntry), ∀ tbl e a,
        Con.leafTableArray elem p n i off acc = some (tbl, e) → Con.sizeWith false elem = some a → e = off + n * a) ∧
    (∀ (fs : List (String × Con)) (p : List String) (off : Nat) (acc : List LeafEntry), ∀ tbl e k,
        Con.leafTableFields fs p off acc = some (tbl, e) → Con.sizeFields false fs = some k → e = off + k) := by
  apply Con.leafTable.mutual_induct
  · intro fs p off ih tbl e k h hs
    rw [Con.leafTable] at h; rw [Con.sizeWith] at hs
    exact ih tbl e k h hs
  · intro n elem p off hn tbl e k h hs
    rw [Con.leafTable, if_pos hn] at h; simp at h
  · intro n elem p off hn ih tbl e k h hs
    rw [Con.leafTable, if_neg hn] at h
    simp [Con.sizeWith, hn] at hs
    obtain ⟨a, ha, rfl⟩ := hs
    exact ih tbl e a h ha
  · intro attrs sub p off hl tbl e k h hs
    rw [Con.leafTable, if_pos hl] at h
    rw [(size_true_of_false.1 _ k hs)] at h
    simp at h; omega
  · intro attrs sub p off hl ih tbl e k h hs
    rw [Con.leafTable, if_neg hl] at h
    rw [Con.sizeWith] at hs
    exact ih tbl e k h hs
  · intro c p off h1 h2 h3 hl tbl e k h hs
    rw [leafTable_default _ _ _ h1 h2 h3, if_pos hl, (size_true_of_false.1 _ k hs)] at h
    simp at h; omega
  · intro c p off h1 h2 h3 hl tbl e k h hs
    rw [leafTable_default _ _ _ h1 h2 h3, if_neg hl] at h
    simp at h
  · intro elem p x off acc tbl e a h hs
    rw [Con.leafTableArray] at h; simp at h; omega
  · intro elem p k i off acc hnone _ tbl e a h hs
    rw [Con.leafTableArray, hnone] at h; simp at h
  · intro elem p k i off acc es off' hsome ih1 ih2 tbl e a h hs
    rw [Con.leafTableArray, hsome] at h
    have e1 := ih1 es off' a hsome hs
    have e2 := ih2 tbl e a h hs
    rw [Nat.succ_mul]; omega
  · intro p off acc tbl e k h hs
    rw [Con.leafTableFields] at h; rw [Con.sizeFields] at hs
    simp at h hs; omega
  · intro name c rest p off acc hnone _ tbl e k h hs
    rw [Con.leafTableFields, hnone] at h; simp at h
  · intro name c rest p off acc es off' hsome
    dsimp only
    intro ih1 ih2 tbl e k h hs
    rw [Con.leafTableFields, hsome] at h
    rw [Con.sizeFields] at hs
    split at hs
    · rename_i a b ha hb
      simp at hs
      have e1 := ih1 es off' a hsome ha
      have e2 := ih2 tbl e b h hb
      omega
    · simp at hs

theorem idx_inj {i j : Nat} (h : "[" ++ toString i ++ "]" = "[" ++ toString j ++ "]") : i = j := by
  have := congrArg String.toList h
  simp only [String.toList_append] at this
  simp at this
  have h2 := congrArg (fun l => Nat.ofDigitChars 10 l 0) this
  simp only [Nat.ofDigitChars_toDigits (by omega : 1 < 10) (by omega : 10 ≤ 10)] at h2
  exact h2

theorem subAt_dict_cons (kvs : List (String × Val)) (k : String) (r : List String) :
    (Val.dict kvs).subAt (k :: r) = ((Val.dict kvs).get? k).bind (fun w => w.subAt r) := by
  rw [Val.subAt, Val.get?]
  cases kvs.find? (fun kv => kv.1 = k) <;> rfl

theorem subAt_tup_cons (v : Val) (a : List (String × String)) (k : String) (r : List String) :
    (Val.tup v a).subAt (k :: r) = v.subAt (k :: r) := by
  rw [Val.subAt]; intro h; cases h

theorem find_zipIdx (xs : List Val) : ∀ (s j : Nat),
    (xs.zipIdx s).find? (fun vi => decide ("[" ++ toString vi.2 ++ "]" = "[" ++ toString (s + j) ++ "]")) =
      (xs[j]?).map (fun x => (x, s + j)) := by
  induction xs with
  | nil => intro s j; simp
  | cons x xs ih =>
    intro s j
    rw [List.zipIdx_cons, List.find?_cons]
    cases j with
    | zero => simp
    | succ j =>
      have : ¬ ("[" ++ toString s ++ "]" = "[" ++ toString (s + (j + 1)) ++ "]") := by
        intro h; have := idx_inj h; omega
      simp only [this, decide_false]
      have := ih (s + 1) j
      rw [show s + 1 + j = s + (j + 1) by omega] at this
      rw [this]; simp

theorem subAt_list_idx (xs : List Val) (j : Nat) (r : List String) :
    (Val.list xs).subAt (("[" ++ toString j ++ "]") :: r) = (xs[j]?).bind (fun w => w.subAt r) := by
  rw [Val.subAt]
  have := find_zipIdx xs 0 j
  rw [Nat.zero_add] at this
  rw [this]
  cases xs[j]? <;> rfl


/-- the statement proved for a layout `c` whose table is computed from path prefix `p` at offset `off` -/
def WinCon (c : Con) (p : List String) (off : Nat) : Prop :=
  ∀ tbl endp, Con.leafTable c p off = some (tbl, endp) → c.seekTail = true →
  ∀ q o w sub, (q, o, w, sub) ∈ tbl → sub.noCtx = true →
  ∀ (ctx ctx' : Ctx) (bs bs' : Bytes) (v v' : Val) (e e' : Nat),
    parse c ctx bs off = .ok (v, e) → parse c ctx' bs' off = .ok (v', e') →
    slice bs o (o + w) = slice bs' o (o + w) →
    ∃ r, q = p ++ r ∧ v.subAt r = v'.subAt r ∧ (c.isLeafLevel = false → r ≠ [])

def WinArr (elem : Con) (p : List String) (k i off : Nat) (acc : List LeafEntry) : Prop :=
  ∀ tbl endp, Con.leafTableArray elem p k i off acc = some (tbl, endp) →
  ∀ a, Con.sizeWith false elem = some a →
  ∀ q o w sub, (q, o, w, sub) ∈ tbl → sub.noCtx = true →
  ∀ (ctx ctx' : Ctx) (bs bs' : Bytes) (vs vs' : List Val) (e e' : Nat),
    parseMany (fun x => parse elem ctx bs x) k off = .ok (vs, e) →
    parseMany (fun x => parse elem ctx' bs' x) k off = .ok (vs', e') →
    slice bs o (o + w) = slice bs' o (o + w) →
    (q, o, w, sub) ∈ acc ∨
    ∃ j r, q = p ++ ("[" ++ toString (i + j) ++ "]") :: r ∧
      (vs[j]?).bind (fun x => x.subAt r) = (vs'[j]?).bind (fun x => x.subAt r)

def WinFields (fs : List (String × Con)) (p : List String) (off : Nat) (acc : List LeafEntry) : Prop :=
  ∀ tbl endp, Con.leafTableFields fs p off acc = some (tbl, endp) → seekTailFields fs = true →
  ∀ q o w sub, (q, o, w, sub) ∈ tbl → sub.noCtx = true →
  ∀ (lvl : List (String × Val)) (outer : Ctx) (lvl' : List (String × Val)) (outer' : Ctx)
    (bs bs' : Bytes) (v v' : Val) (e e' : Nat),
    KeysNodup lvl → KeysNodup lvl' →
    parseFields fs (lvl :: outer) bs off = .ok (v, e) → parseFields fs (lvl' :: outer') bs' off = .ok (v', e') →
    slice bs o (o + w) = slice bs' o (o + w) →
    ((q, o, w, sub) ∈ acc ∧ ∀ name ∈ fs.map Prod.fst, (p ++ [name]).isPrefixOf q = false) ∨
    ∃ name r, q = p ++ name :: r ∧
      (v.get? name).bind (fun x => x.subAt r) = (v'.get? name).bind (fun x => x.subAt r)

theorem win_leaf (c : Con) (p : List String) (off : Nat) (hl : c.isLeafLevel = true)
    (htab : Con.leafTable c p off = (Con.sizeWith true c).map (fun w => ([(p, off, w, c)], off + w))) :
    WinCon c p off := by
  intro tbl endp h _ q o w sub hmem hnc ctx ctx' bs bs' v v' e e' hp hp' hw
  rw [htab] at h
  cases hsz : Con.sizeWith true c with
  | none => rw [hsz] at h; simp at h
  | some w0 =>
    rw [hsz] at h
    simp at h
    obtain ⟨rfl, _⟩ := h
    simp at hmem
    obtain ⟨rfl, rfl, rfl, rfl⟩ := hmem
    have hsz' : Con.sizeWith false sub = some w := by
      rw [← (size_agree_joint true false).1 sub hnc]; exact hsz
    have := leafEq_joint.1 sub ctx bs o ctx' bs' w v v' e e' hsz' hnc hw hp hp'
    exact ⟨[], by simp, by rw [this], by simp [hl]⟩


theorem isPrefixOf_self_append (a r : List String) : a.isPrefixOf (a ++ r) = true := by
  rw [List.isPrefixOf_iff_prefix]; exact List.prefix_append a r

theorem win_joint :
    (∀ c p off, WinCon c p off) ∧ (∀ elem p k i off acc, WinArr elem p k i off acc) ∧
    (∀ fs p off acc, WinFields fs p off acc) := by
  apply Con.leafTable.mutual_induct
  -- struct
  · intro fs p off ih tbl endp h hst q o w sub hmem hnc ctx ctx' bs bs' v v' e e' hp hp' hw
    rw [Con.leafTable] at h; rw [Con.seekTail] at hst; rw [parse] at hp hp'
    obtain ⟨lvlF, rfl, _, _⟩ := parseFields_result fs _ _ _ _ _ _ hp KeysNodup_nil
    obtain ⟨lvlF', rfl, _, _⟩ := parseFields_result fs _ _ _ _ _ _ hp' KeysNodup_nil
    rcases ih tbl endp h hst q o w sub hmem hnc [] ctx [] ctx' bs bs' _ _ e e' KeysNodup_nil KeysNodup_nil hp hp' hw with
      ⟨hacc, _⟩ | ⟨name, r, hq, hv⟩
    · simp at hacc
    · exact ⟨name :: r, hq, by rw [subAt_dict_cons, subAt_dict_cons]; exact hv, by simp⟩
  -- array, negative count
  · intro n elem p off hn tbl endp h
    rw [Con.leafTable, if_pos hn] at h; simp at h
  -- array
  · intro n elem p off hn ih tbl endp h hst q o w sub hmem hnc ctx ctx' bs bs' v v' e e' hp hp' hw
    rw [Con.leafTable, if_neg hn] at h
    rw [Con.seekTail, Option.isSome_iff_exists] at hst
    obtain ⟨a, ha⟩ := hst
    rw [parse] at hp hp'
    simp only [bind_ok, pure_ok] at hp hp'
    obtain ⟨k, h0, ⟨vs, p1⟩, h1, h2⟩ := hp
    obtain ⟨k', h0', ⟨vs', p1'⟩, h1', h2'⟩ := hp'
    obtain ⟨_, rfl⟩ := evalLen_const h0
    obtain ⟨_, rfl⟩ := evalLen_const h0'
    simp at h2 h2'
    rcases ih tbl endp h a ha q o w sub hmem hnc ctx ctx' bs bs' vs vs' _ _ h1 h1' hw with hacc | ⟨j, r, hq, hv⟩
    · simp at hacc
    · rw [Nat.zero_add] at hq
      refine ⟨_ :: r, hq, ?_, by simp⟩
      rw [← h2.1, ← h2'.1, subAt_list_idx, subAt_list_idx]; exact hv
  -- wmeta over a leaf
  · intro attrs sub p off hl
    apply win_leaf
    · rw [Con.isLeafLevel]; exact hl
    · rw [Con.leafTable, if_pos hl]
  -- wmeta over a composite
  · intro attrs sub0 p off hl ih tbl endp h hst q o w sub hmem hnc ctx ctx' bs bs' v v' e e' hp hp' hw
    rw [Con.leafTable, if_neg hl] at h
    have hl' : sub0.isLeafLevel = false := by simpa using hl
    rw [Con.seekTail, hl', Bool.false_or] at hst
    rw [parse] at hp hp'
    simp only [bind_ok, pure_ok] at hp hp'
    obtain ⟨⟨v1, p1⟩, h1, h2⟩ := hp
    obtain ⟨⟨v1', p1'⟩, h1', h2'⟩ := hp'
    simp at h2 h2'
    obtain ⟨r, hq, hv, hne⟩ := ih tbl endp h hst q o w sub hmem hnc ctx ctx' bs bs' v1 v1' _ _ h1 h1' hw
    refine ⟨r, hq, ?_, fun _ => hne hl'⟩
    cases r with
    | nil => exact (hne hl' rfl).elim
    | cons k r => rw [← h2.1, ← h2'.1, subAt_tup_cons, subAt_tup_cons]; exact hv
  -- other leaves
  · intro c p off h1 h2 h3 hl
    apply win_leaf _ _ _ hl
    rw [leafTable_default _ _ _ h1 h2 h3, if_pos hl]
  · intro c p off h1 h2 h3 hl tbl endp h
    rw [leafTable_default _ _ _ h1 h2 h3, if_neg hl] at h; simp at h
  -- array elements: none left
  · intro elem p x off acc tbl endp h a ha q o w sub hmem
    rw [Con.leafTableArray] at h; simp at h
    intros; left; rw [h.1]; exact hmem
  · intro elem p k i off acc hnone _ tbl endp h
    rw [Con.leafTableArray, hnone] at h; simp at h
  -- array elements: one more
  · intro elem p k i off acc es off' hsome ih1 ih2 tbl endp h a ha q o w sub hmem hnc ctx ctx' bs bs' vs vs' e e' hp hp' hw
    rw [Con.leafTableArray, hsome] at h
    rw [parseMany] at hp hp'
    simp only [bind_ok, pure_ok] at hp hp'
    obtain ⟨⟨v1, p1⟩, h1, ⟨vs2, p2⟩, h2, h3⟩ := hp
    obtain ⟨⟨v1', p1'⟩, h1', ⟨vs2', p2'⟩, h2', h3'⟩ := hp'
    simp at h3 h3'
    obtain ⟨rfl, _⟩ := static_joint.1 elem ctx bs off a v1 p1 ha h1
    obtain ⟨rfl, _⟩ := static_joint.1 elem ctx' bs' off a v1' p1' ha h1'
    have hoff := leafTable_end.1 elem _ off es off' a hsome ha
    subst hoff
    rcases ih2 tbl endp h a ha q o w sub hmem hnc ctx ctx' bs bs' vs2 vs2' _ _ h2 h2' hw with hacc | ⟨j, r, hq, hv⟩
    · rcases List.mem_append.mp hacc with hacc | hes
      · left; exact hacc
      · obtain ⟨r, hq, hv, _⟩ := ih1 es _ hsome (seekTail_of_static.1 elem a ha) q o w sub hes hnc ctx ctx' bs bs' v1 v1' _ _ h1 h1' hw
        right
        refine ⟨0, r, by rw [hq, List.append_assoc]; rfl, ?_⟩
        rw [← h3.1, ← h3'.1]; simpa using hv
    · right
      refine ⟨j + 1, r, by rw [hq, show i + 1 + j = i + (j + 1) by omega], ?_⟩
      rw [← h3.1, ← h3'.1]; simpa using hv
  -- fields: none left
  · intro p off acc tbl endp h _ q o w sub hmem
    rw [Con.leafTableFields] at h; simp at h
    intros; left; rw [h.1]; exact ⟨hmem, by simp⟩
  · intro name c rest p off acc hnone _ tbl endp h
    rw [Con.leafTableFields, hnone] at h; simp at h
  -- fields: one more
  · intro name c rest p off acc es off' hsome
    dsimp only
    intro ih1 ih3 tbl endp h hst q o w sub hmem hnc lvl outer lvl' outer' bs bs' v v' e e' hn hn' hp hp' hw
    rw [Con.leafTableFields, hsome] at h
    dsimp only at h
    obtain ⟨v1, p1, h1, h2, hn1, hg⟩ := parseFields_cons_ok' hp hn
    obtain ⟨v1', p1', h1', h2', hn1', hg'⟩ := parseFields_cons_ok' hp' hn'
    rw [seekTailFields] at hst
    -- the parses of the remaining members start where the table continues
    have key : c.seekTail = true ∧ seekTailFields rest = true ∧
        (∃ e2, parseFields rest (setField lvl name v1 :: outer) bs off' = .ok (v, e2)) ∧
        (∃ e2, parseFields rest (setField lvl' name v1' :: outer') bs' off' = .ok (v', e2)) := by
      split at hst
      · rename_i hemp
        have : rest = [] := by simpa using hemp
        subst this
        rw [parseFields] at h2 h2' ⊢
        simp only [Except.ok.injEq, Prod.mk.injEq] at h2 h2'
        refine ⟨hst, rfl, ⟨off', ?_⟩, ⟨off', ?_⟩⟩
        · rw [h2.1]
        · rw [parseFields, h2'.1]
      · rw [Bool.and_eq_true, Option.isSome_iff_exists] at hst
        obtain ⟨⟨a, ha⟩, hrest⟩ := hst
        obtain ⟨rfl, _⟩ := static_joint.1 c _ bs off a v1 p1 ha h1
        obtain ⟨rfl, _⟩ := static_joint.1 c _ bs' off a v1' p1' ha h1'
        have hoff := leafTable_end.1 c _ off es off' a hsome ha
        subst hoff
        exact ⟨seekTail_of_static.1 c a ha, hrest, ⟨e, h2⟩, ⟨e', h2'⟩⟩
    obtain ⟨hstc, hstr, ⟨e2, hq2⟩, ⟨e2', hq2'⟩⟩ := key
    rcases ih3 tbl endp h hstr q o w sub hmem hnc _ outer _ outer' bs bs' v v' e2 e2' hn1 hn1' hq2 hq2' hw with
      ⟨hacc, hpre⟩ | hright
    · rcases List.mem_append.mp hacc with hacc | hes
      · left
        rw [List.mem_filter] at hacc
        refine ⟨hacc.1, ?_⟩
        intro nm hnm
        simp only [List.map_cons, List.mem_cons] at hnm
        rcases hnm with rfl | hnm
        · simpa using hacc.2
        · exact hpre nm hnm
      · obtain ⟨r, hq, hv, _⟩ := ih1 es off' hsome hstc q o w sub hes hnc _ _ bs bs' v1 v1' _ _ h1 h1' hw
        have hnot : name ∉ rest.map Prod.fst := by
          intro hin
          have := hpre name hin
          rw [hq, isPrefixOf_self_append] at this
          cases this
        right
        refine ⟨name, r, by rw [hq, List.append_assoc]; rfl, ?_⟩
        rw [hg hnot, hg' hnot]; simpa using hv
    · right; exact hright



end Fields

/-- **locality** (true variant of `leaf_window`): in a layout whose positions are determined by the layout
    (`seekTail`: a `Seek` only in tail position), the sub-value at a leaf-table entry whose layout contains no
    context-dependent part (`noCtx`) depends only on the bytes of that field -/
theorem leaf_window' (c : Con) (pos : Nat) (tbl : List LeafEntry) (endp : Nat)
    (hs : Con.leafTable c [] pos = some (tbl, endp)) (htail : c.seekTail = true)
    (q : List String) (off w : Nat) (sub : Con) (hmem : (q, off, w, sub) ∈ tbl) (hctx : sub.noCtx = true)
    (ctx ctx' : Ctx) (bs bs' : Bytes) (v v' : Val) (e e' : Nat)
    (h : parse c ctx bs pos = .ok (v, e)) (h' : parse c ctx' bs' pos = .ok (v', e'))
    (hwin : slice bs off (off + w) = slice bs' off (off + w)) :
    v.subAt q = v'.subAt q := by
  obtain ⟨r, hq, hv, _⟩ := win_joint.1 c [] pos tbl endp hs htail q off w sub hmem hctx ctx ctx' bs bs' v v' e e' h h' hwin
  rw [List.nil_append] at hq
  rw [hq]; exact hv

/-- the static special case -/
theorem leaf_window_static' (c : Con) (k : Nat) (hk : Con.staticSize c = some k) (pos : Nat) (tbl : List LeafEntry) (endp : Nat)
    (hs : Con.leafTable c [] pos = some (tbl, endp))
    (q : List String) (off w : Nat) (sub : Con) (hmem : (q, off, w, sub) ∈ tbl) (hctx : sub.noCtx = true)
    (ctx ctx' : Ctx) (bs bs' : Bytes) (v v' : Val) (e e' : Nat)
    (h : parse c ctx bs pos = .ok (v, e)) (h' : parse c ctx' bs' pos = .ok (v', e'))
    (hwin : slice bs off (off + w) = slice bs' off (off + w)) :
    v.subAt q = v'.subAt q :=
  leaf_window' c pos tbl endp hs (seekTail_of_static.1 c k hk) q off w sub hmem hctx ctx ctx' bs bs' v v' e e' h h' hwin


mutual
/-- `P` holds of every leaf-level sub-layout met by `Con.leafTable` -/
def Con.leavesAll (P : Con → Bool) : Con → Bool
  | .struct fs => leavesAllFields P fs
  | .array _ elem => elem.leavesAll P
  | .wmeta attrs sub => if sub.isLeafLevel then P (.wmeta attrs sub) else sub.leavesAll P
  | c => P c
def leavesAllFields (P : Con → Bool) : List (String × Con) → Bool
  | [] => true
  | (_, c) :: rest => c.leavesAll P && leavesAllFields P rest
end

namespace Fields

theorem leavesAll_default (P : Con → Bool) (c : Con)
    (h1 : ∀ (fs : List (String × Con)), c = Con.struct fs → False)
    (h2 : ∀ (n : Int) (elem : Con), c = Con.array (Expr.const n) elem → False)
    (h3 : ∀ (attrs : List (String × String)) (sub : Con), c = Con.wmeta attrs sub → False)
    (hl : c.isLeafLevel = true) : c.leavesAll P = P c := by
  cases c with
  | struct fs => exact (h1 fs rfl).elim
  | wmeta a s => exact (h3 a s rfl).elim
  | array count elem => simp [Con.isLeafLevel] at hl
  | _ => simp only [Con.leavesAll]

theorem leavesAll_joint (P : Con → Bool) :
    (∀ (c : Con) (p : List String) (off : Nat), c.leavesAll P = true → ∀ tbl e, Con.leafTable c p off = some (tbl, e) →
        ∀ x ∈ tbl, P x.2.2.2 = true) ∧
    (∀ (elem : Con) (p : List String) (n i off : Nat) (acc : List LeafEntry), elem.leavesAll P = true →
        (∀ x ∈ acc, P x.2.2.2 = true) → ∀ tbl e, Con.leafTableArray elem p n i off acc = some (tbl, e) →
        ∀ x ∈ tbl, P x.2.2.2 = true) ∧
    (∀ (fs : List (String × Con)) (p : List String) (off : Nat) (acc : List LeafEntry), leavesAllFields P fs = true →
        (∀ x ∈ acc, P x.2.2.2 = true) → ∀ tbl e, Con.leafTableFields fs p off acc = some (tbl, e) →
        ∀ x ∈ tbl, P x.2.2.2 = true) := by
  apply Con.leafTable.mutual_induct
  · intro fs p off ih hall tbl e h
    rw [Con.leafTable] at h; rw [Con.leavesAll] at hall
    exact ih hall (by simp) tbl e h
  · intro n elem p off hn _ tbl e h
    rw [Con.leafTable, if_pos hn] at h; simp at h
  · intro n elem p off hn ih hall tbl e h
    rw [Con.leafTable, if_neg hn] at h; rw [Con.leavesAll] at hall
    exact ih hall (by simp) tbl e h
  · intro attrs sub p off hl hall tbl e h
    rw [Con.leafTable, if_pos hl] at h; rw [Con.leavesAll, if_pos hl] at hall
    cases hsz : Con.sizeWith true (Con.wmeta attrs sub) with
    | none => rw [hsz] at h; simp at h
    | some w =>
      rw [hsz] at h; simp at h
      intro x hx; rw [← h.1] at hx; simp at hx; rw [hx]; exact hall
  · intro attrs sub p off hl ih hall tbl e h
    rw [Con.leafTable, if_neg hl] at h; rw [Con.leavesAll, if_neg hl] at hall
    exact ih hall tbl e h
  · intro c p off h1 h2 h3 hl hall tbl e h
    rw [leafTable_default _ _ _ h1 h2 h3, if_pos hl] at h
    rw [leavesAll_default P c h1 h2 h3 hl] at hall
    cases hsz : Con.sizeWith true c with
    | none => rw [hsz] at h; simp at h
    | some w =>
      rw [hsz] at h; simp at h
      intro x hx; rw [← h.1] at hx; simp at hx; rw [hx]; exact hall
  · intro c p off h1 h2 h3 hl _ tbl e h
    rw [leafTable_default _ _ _ h1 h2 h3, if_neg hl] at h; simp at h
  · intro elem p x off acc _ hacc tbl e h
    rw [Con.leafTableArray] at h; simp at h
    rw [← h.1]; exact hacc
  · intro elem p k i off acc hnone _ _ _ tbl e h
    rw [Con.leafTableArray, hnone] at h; simp at h
  · intro elem p k i off acc es off' hsome ih1 ih2 hall hacc tbl e h
    rw [Con.leafTableArray, hsome] at h
    refine ih2 hall ?_ tbl e h
    intro x hx
    rcases List.mem_append.mp hx with hx | hx
    · exact hacc x hx
    · exact ih1 hall es off' hsome x hx
  · intro p off acc _ hacc tbl e h
    rw [Con.leafTableFields] at h; simp at h
    rw [← h.1]; exact hacc
  · intro name c rest p off acc hnone _ _ _ tbl e h
    rw [Con.leafTableFields, hnone] at h; simp at h
  · intro name c rest p off acc es off' hsome
    dsimp only
    intro ih1 ih3 hall hacc tbl e h
    rw [Con.leafTableFields, hsome] at h
    rw [leavesAllFields, Bool.and_eq_true] at hall
    refine ih3 hall.2 ?_ tbl e h
    intro x hx
    rcases List.mem_append.mp hx with hx | hx
    · exact hacc x (List.mem_filter.mp hx).1
    · exact ih1 hall.1 es off' hsome x hx


end Fields

def fixedRecords : List Con := [Gen.recordPreamble, Gen.imageFileDescriptor, Gen.signalDataRecord,
  Gen.processedDataRecord, Gen.leaderFileDescriptor, Gen.datasetSummaryRecord, Gen.mapProjectionRecord,
  Gen.platformPositionRecord, Gen.radiometricDataRecord, Gen.facilityRelatedData5Record, Gen.volumeDescriptor,
  Gen.filePointerRecord, Gen.textRecord]

set_option maxRecDepth 100000 in
theorem fixedRecords_ok : ∀ c ∈ fixedRecords,
    c.seekTail = true ∧ c.leavesAll (fun s => s.usesContext || s.noCtx) = true := by
  decide +kernel


/-- `noCtx` strengthens `usesContext = false` (it also looks inside `Ydms`) -/
theorem noCtx_usesContext : ∀ c : Con, c.noCtx = true → c.usesContext = false := by
  refine (con_induct (fun c => c.noCtx = true → c.usesContext = false) (fun _ => True)
    ?_ ?_ ?_ ?_ ?_ ?_ ?_ ?_ ?_ ?_ ?_ ?_ ?_ ?_ ?_ ?_ ?_ trivial (fun _ _ _ _ _ => trivial)).1
  case refine_9 => intro f sub ih h; rw [Con.noCtx] at h; rw [Con.usesContext]; exact ih h
  case refine_10 => intro f sub ih h; rw [Con.noCtx] at h; rw [Con.usesContext]; exact ih h
  case refine_11 => intro f sub ih h; rw [Con.noCtx] at h; rw [Con.usesContext]; exact ih h
  all_goals (intros; first | rfl | (rename_i h; simp [Con.noCtx] at h))

/-- `leaf_window` with its original hypotheses, for layouts whose side conditions hold by computation -/
theorem leaf_window_of_leaves (c : Con) (htail : c.seekTail = true)
    (hall : c.leavesAll (fun s => s.usesContext || s.noCtx) = true)
    (pos : Nat) (tbl : List LeafEntry) (endp : Nat)
    (hs : Con.leafTable c [] pos = some (tbl, endp))
    (q : List String) (off w : Nat) (sub : Con) (hmem : (q, off, w, sub) ∈ tbl) (hctx : sub.usesContext = false)
    (ctx ctx' : Ctx) (bs bs' : Bytes) (v v' : Val) (e e' : Nat)
    (h : parse c ctx bs pos = .ok (v, e)) (h' : parse c ctx' bs' pos = .ok (v', e'))
    (hwin : slice bs off (off + w) = slice bs' off (off + w)) :
    v.subAt q = v'.subAt q := by
  have hP := (leavesAll_joint _).1 c [] pos hall tbl endp hs _ hmem
  simp only [hctx, Bool.false_or] at hP
  exact leaf_window' c pos tbl endp hs htail q off w sub hmem hP ctx ctx' bs bs' v v' e e' h h' hwin

/-- **locality** for the thirteen records of `field_tables`: the original statement of `leaf_window` -/
theorem leaf_window_fixedRecords (c : Con) (hc : c ∈ fixedRecords) (pos : Nat) (tbl : List LeafEntry) (endp : Nat)
    (hs : Con.leafTable c [] pos = some (tbl, endp))
    (q : List String) (off w : Nat) (sub : Con) (hmem : (q, off, w, sub) ∈ tbl) (hctx : sub.usesContext = false)
    (ctx ctx' : Ctx) (bs bs' : Bytes) (v v' : Val) (e e' : Nat)
    (h : parse c ctx bs pos = .ok (v, e)) (h' : parse c ctx' bs' pos = .ok (v', e'))
    (hwin : slice bs off (off + w) = slice bs' off (off + w)) :
    v.subAt q = v'.subAt q :=
  leaf_window_of_leaves c (fixedRecords_ok c hc).1 (fixedRecords_ok c hc).2 pos tbl endp hs q off w sub hmem hctx
    ctx ctx' bs bs' v v' e e' h h' hwin

/-- the same for the leaf read by `Val.leafAt` (what `Sym.eval` looks up) -/
theorem leaf_window_leafAt' (c : Con) (pos : Nat) (tbl : List LeafEntry) (endp : Nat)
    (hs : Con.leafTable c [] pos = some (tbl, endp)) (htail : c.seekTail = true)
    (q : List String) (off w : Nat) (sub : Con) (hmem : (q, off, w, sub) ∈ tbl) (hctx : sub.noCtx = true)
    (ctx ctx' : Ctx) (bs bs' : Bytes) (v v' : Val) (e e' : Nat)
    (h : parse c ctx bs pos = .ok (v, e)) (h' : parse c ctx' bs' pos = .ok (v', e'))
    (hwin : slice bs off (off + w) = slice bs' off (off + w)) :
    v.leafAt q = v'.leafAt q := by
  rw [leafAt_eq_subAt_asLeaf, leafAt_eq_subAt_asLeaf,
    leaf_window' c pos tbl endp hs htail q off w sub hmem hctx ctx ctx' bs bs' v v' e e' h h' hwin]

theorem leaf_window_leafAt_fixedRecords (c : Con) (hc : c ∈ fixedRecords) (pos : Nat) (tbl : List LeafEntry) (endp : Nat)
    (hs : Con.leafTable c [] pos = some (tbl, endp))
    (q : List String) (off w : Nat) (sub : Con) (hmem : (q, off, w, sub) ∈ tbl) (hctx : sub.usesContext = false)
    (ctx ctx' : Ctx) (bs bs' : Bytes) (v v' : Val) (e e' : Nat)
    (h : parse c ctx bs pos = .ok (v, e)) (h' : parse c ctx' bs' pos = .ok (v', e'))
    (hwin : slice bs off (off + w) = slice bs' off (off + w)) :
    v.leafAt q = v'.leafAt q := by
  rw [leafAt_eq_subAt_asLeaf, leafAt_eq_subAt_asLeaf,
    leaf_window_fixedRecords c hc pos tbl endp hs q off w sub hmem hctx ctx ctx' bs bs' v v' e e' h h' hwin]

/-- counterexample to `leaf_window` as first stated: a member after a `Seek` -/
theorem leaf_window_false_seek : ¬ (∀ (c : Con) (pos : Nat) (tbl : List LeafEntry) (endp : Nat)
    (_ : Con.leafTable c [] pos = some (tbl, endp))
    (q : List String) (off w : Nat) (sub : Con) (_ : (q, off, w, sub) ∈ tbl) (_ : sub.usesContext = false)
    (ctx ctx' : Ctx) (bs bs' : Bytes) (v v' : Val) (e e' : Nat)
    (_ : parse c ctx bs pos = .ok (v, e)) (_ : parse c ctx' bs' pos = .ok (v', e'))
    (_ : slice bs off (off + w) = slice bs' off (off + w)),
    v.subAt q = v'.subAt q) := by
  intro H
  have hs : Con.leafTable (.struct [("a", .seek (.const 5)), ("b", .uint 1)]) [] 0 =
      some ([(["a"], 0, 0, .seek (.const 5)), (["b"], 0, 1, .uint 1)], 1) := by
    simp [Con.leafTable, Con.leafTableFields, Con.isLeafLevel, Con.sizeWith, List.isPrefixOf]
  have := H _ 0 _ 1 hs ["b"] 0 1 (.uint 1) (by simp) rfl [] [] [0,0,0,0,0,1] [0,0,0,0,0,2]
    (.dict [("a", .leaf (.int 5)), ("b", .leaf (.int 1))]) (.dict [("a", .leaf (.int 5)), ("b", .leaf (.int 2))]) 6 6
    (by rfl) (by rfl) (by decide)
  simp [Val.subAt] at this

/-- counterexample to `leaf_window` even for static layouts: `usesContext` does not look inside `Ydms` -/
theorem leaf_window_false_ctx : ¬ (∀ (c : Con) (k : Nat) (_ : Con.staticSize c = some k) (pos : Nat) (tbl : List LeafEntry) (endp : Nat)
    (_ : Con.leafTable c [] pos = some (tbl, endp))
    (q : List String) (off w : Nat) (sub : Con) (_ : (q, off, w, sub) ∈ tbl) (_ : sub.usesContext = false)
    (ctx ctx' : Ctx) (bs bs' : Bytes) (v v' : Val) (e e' : Nat)
    (_ : parse c ctx bs pos = .ok (v, e)) (_ : parse c ctx' bs' pos = .ok (v', e'))
    (_ : slice bs off (off + w) = slice bs' off (off + w)),
    v.subAt q = v'.subAt q) := by
  intro H
  let c : Con := .ydms (.struct [("year", .computed (.path ["_", "y"])), ("day_of_year", .computed (.const 1)),
    ("milliseconds", .computed (.const 0))])
  have hs : Con.leafTable c [] 0 = some ([([], 0, 0, c)], 0) := by
    simp [c, Con.leafTable, Con.isLeafLevel, Con.sizeWith, Con.sizeFields]
  have := H c 0 (by decide +kernel) 0 _ 0 hs [] 0 0 c (by simp) rfl
    [[("y", .leaf (.int 2000))]] [[("y", .leaf (.int 2001))]] [] []
    (.leaf (.datetime 946684800000000000)) (.leaf (.datetime 978307200000000000)) 0 0
    (by rfl) (by rfl) (by decide)
  simp [Val.subAt] at this

/-! ### blank fields read as "missing" -/

def IsBlank (raw : Bytes) : Prop :=
  ∃ ws nuls : Bytes, raw = ws ++ nuls ∧ (∀ b ∈ ws, isPyWhitespace (Char.ofNat b.toNat) = true ∧ b.toNat < 128) ∧ (∀ b ∈ nuls, b = 0)

namespace Fields

theorem dropWhile_all {α : Type} (p : α → Bool) (l : List α) (h : ∀ x ∈ l, p x = true) : l.dropWhile p = [] := by
  induction l with
  | nil => rfl
  | cons a l ih =>
    rw [List.dropWhile_cons_of_pos (h a (by simp))]
    exact ih (fun x hx => h x (by simp [hx]))

theorem dropWhile_append_all {α : Type} (p : α → Bool) (l1 l2 : List α) (h : ∀ x ∈ l1, p x = true) :
    (l1 ++ l2).dropWhile p = l2.dropWhile p := by
  induction l1 with
  | nil => rfl
  | cons a l ih =>
    rw [List.cons_append, List.dropWhile_cons_of_pos (h a (by simp))]
    exact ih (fun x hx => h x (by simp [hx]))

theorem dropWhile_none {α : Type} (p : α → Bool) (l : List α) (h : ∀ x ∈ l, p x = false) : l.dropWhile p = l := by
  cases l with
  | nil => rfl
  | cons a l => rw [List.dropWhile_cons_of_neg]; simp [h a (by simp)]

theorem ws_ne_zero (b : UInt8) (h : isPyWhitespace (Char.ofNat b.toNat) = true) : b ≠ 0 := by
  intro hb; subst hb; revert h; decide

theorem blank_decode (raw : Bytes) (h : IsBlank raw) :
    ∃ s, decodeAscii raw = .ok s ∧ pyStrip s = [] := by
  obtain ⟨ws, nuls, rfl, hws, hn⟩ := h
  have hstrip : ((ws ++ nuls).reverse.dropWhile (· = 0)).reverse = ws := by
    rw [List.reverse_append, dropWhile_append_all, dropWhile_none, List.reverse_reverse]
    · intro x hx
      have := ws_ne_zero x (hws x (by simpa using hx)).1
      simpa using this
    · intro x hx
      have := hn x (by simpa using hx)
      simpa using this
  refine ⟨ws.map (fun b => Char.ofNat b.toNat), ?_, ?_⟩
  · unfold decodeAscii
    simp only [hstrip]
    rw [if_neg]
    simp only [List.any_eq_true, decide_eq_true_eq, not_exists, not_and]
    intro x hx
    have := (hws x hx).2
    omega
  · have : (ws.map (fun b => Char.ofNat b.toNat)).dropWhile isPyWhitespace = [] := by
      apply dropWhile_all
      intro c hc
      simp only [List.mem_map] at hc
      obtain ⟨b, hb, rfl⟩ := hc
      exact (hws b hb).1
    unfold pyStrip
    rw [this]
    rfl


end Fields

theorem blank_aint (raw : Bytes) (h : IsBlank raw) : parseAInt raw = .ok (.int (-1)) := by
  obtain ⟨s, h1, h2⟩ := blank_decode raw h
  simp [parseAInt, h1, h2, bind, Except.bind, pure, Except.pure]

theorem blank_afloat (raw : Bytes) (h : IsBlank raw) : parseAFloat raw = .ok "nan" := by
  obtain ⟨s, h1, h2⟩ := blank_decode raw h
  simp [parseAFloat, h1, h2, bind, Except.bind, pure, Except.pure]

theorem blank_pstr (raw : Bytes) (h : IsBlank raw) : (decodeAscii raw).map (fun s => String.ofList (pyStrip s)) = .ok "" := by
  obtain ⟨s, h1, h2⟩ := blank_decode raw h
  simp [h1, h2, Except.map]

end Alos2

/-
The `/metadata` group as a whole: for EVERY leader file that parses, `transform_metadata` (record selection, the
per-record pipelines, renames, the attitude time fix-up) yields the frozen documented tree `Spec.metadata` — one group
per record kept, the map-projection group exactly when the file holds a map-projection record, `na` attitude points,
`nc` data-quality channels — with every symbolic leaf evaluated on the parsed leader record.

The proof is compositional: the parsed leader is the dict of its twelve member records, each parsed by its own layout
(`Meta.leader_members`); `transform_metadata` on such a dict assembles the member pipeline outputs (`Meta.tlm_eq`);
each member output is its documented tree evaluated on the member (`*_provenance`), which is the documented tree
with prefixed paths evaluated on the whole record (`Meta.grp_eval_pre`); `fix_attitude_time` commutes with the
normal form (`Meta.fixAttitudeTime_S`) and, on the documented attitude tree, wraps exactly the leaves of the two
`time` variables (`Meta.fix_att`).
-/
import Alos2.Proofs.Provenance
import Alos2.Proofs.Provenance2
import Alos2.Proofs.Provenance3

namespace Alos2

namespace Meta

/-! ### functoriality of the `map`s -/

mutual
theorem pmap_map {α β γ : Type} (f : α → β) (h : β → γ) : ∀ x : PVal α, (x.map f).map h = x.map (h ∘ f)
  | .leaf a => by simp [PVal.map]
  | .cstr s => by simp [PVal.map]
  | .cint i => by simp [PVal.map]
  | .list xs => by simp only [PVal.map]; rw [pmapList_map f h xs]
  | .dict kvs => by simp only [PVal.map]; rw [pmapKvs_map f h kvs]
  | .tup xs => by simp only [PVal.map]; rw [pmapList_map f h xs]
theorem pmapList_map {α β γ : Type} (f : α → β) (h : β → γ) :
    ∀ xs : List (PVal α), PVal.mapList h (PVal.mapList f xs) = PVal.mapList (h ∘ f) xs
  | [] => by simp [PVal.mapList]
  | x :: xs => by simp only [PVal.mapList]; rw [pmap_map f h x, pmapList_map f h xs]
theorem pmapKvs_map {α β γ : Type} (f : α → β) (h : β → γ) :
    ∀ kvs : List (String × PVal α), PVal.mapKvs h (PVal.mapKvs f kvs) = PVal.mapKvs (h ∘ f) kvs
  | [] => by simp [PVal.mapKvs]
  | (k, x) :: kvs => by simp only [PVal.mapKvs]; rw [pmap_map f h x, pmapKvs_map f h kvs]
end

theorem gvmap_map {α β γ : Type} (f : α → β) (h : β → γ) (x : GVar α) : (x.map f).map h = x.map (h ∘ f) := by
  simp [GVar.map, pmap_map, pmapKvs_map]

mutual
theorem gmap_map {α β γ : Type} (f : α → β) (h : β → γ) : ∀ g : Grp α, (g.map f).map h = g.map (h ∘ f)
  | .mk vars groups attrs => by
    simp only [Grp.map]
    rw [gmapGroups_map f h groups, pmapKvs_map]
    simp [List.map_map, Function.comp_def, gvmap_map]
theorem gmapGroups_map {α β γ : Type} (f : α → β) (h : β → γ) :
    ∀ gs : List (String × Grp α), Grp.mapGroups h (Grp.mapGroups f gs) = Grp.mapGroups (h ∘ f) gs
  | [] => by simp [Grp.mapGroups]
  | (k, g) :: rest => by simp only [Grp.mapGroups]; rw [gmap_map f h g, gmapGroups_map f h rest]
end

/-! ### evaluation below a path prefix -/

theorem eval_pre (v w : Val) (p : List String) (hp : ∀ q, v.leafAt (p ++ q) = w.leafAt q) :
    ∀ s : Sym, (preS p s).eval v = s.eval w
  | .path q => by simp [preS, Sym.eval, hp]
  | .app fn a => by
    have ih := eval_pre v w p hp a
    by_cases h1 : fn = "bool"
    · subst h1; simp [preS, Sym.eval, ih]
    · by_cases h2 : fn = "normalize_datetime"
      · subst h2; simp [preS, Sym.eval, ih]
      · simp [preS, Sym.eval, ih]
  | .app2 fn a b => by
    have iha := eval_pre v w p hp a
    have ihb := eval_pre v w p hp b
    by_cases h1 : fn = "composite_datetime"
    · subst h1; simp [preS, Sym.eval, iha, ihb]
    · by_cases h2 : fn = "attitude_time"
      · subst h2; simp [preS, Sym.eval, iha, ihb]
      · by_cases h3 : fn = "fix_attitude_time"
        · subst h3; simp [preS, Sym.eval, iha, ihb]
        · simp [preS, Sym.eval, iha]

theorem grp_eval_pre (v w : Val) (p : List String) (hp : ∀ q, v.leafAt (p ++ q) = w.leafAt q) (g : Grp Sym) :
    (g.map (preS p)).map (Sym.eval v) = g.map (Sym.eval w) := by
  rw [gmap_map]
  congr 1
  funext s
  exact eval_pre v w p hp s

theorem leafAt_member {v w : Val} {k : String} (h : v.get? k = some w) (q : List String) :
    v.leafAt ([k] ++ q) = w.leafAt q := Prov.leafAt_of_get h q

theorem leafAt_first {v x : Val} {xs : List Val} {k : String} (h : v.get? k = some (.list (x :: xs))) (q : List String) :
    v.leafAt ([k, "[0]"] ++ q) = x.leafAt q := by
  have := Prov.leafAt_of_get h ("[0]" :: q)
  simp only [List.cons_append, List.nil_append] at this ⊢
  rw [this]
  have e : ("[" ++ (0 : Nat).repr ++ "]") = "[0]" := by decide
  simp [Val.leafAt, List.zipIdx, e]

/-! ### the stable sort by key: lookups by key and key-preserving traversals commute with it -/

theorem find_insertByKey {γ : Type} (k : String) (x : String × γ) (l : List (String × γ)) :
    (insertByKey x l).find? (fun y => y.1 = k) = if x.1 = k then some x else l.find? (fun y => y.1 = k) := by
  induction l with
  | nil => by_cases hx : x.1 = k <;> simp [insertByKey, hx]
  | cons y ys ih =>
    simp only [insertByKey]
    split
    · by_cases hx : x.1 = k <;> simp [List.find?_cons, hx]
    · rename_i hle
      have hne : ¬ x.1 = y.1 := fun e => hle (by rw [e]; exact String.le_refl _)
      rw [List.find?_cons, ih]
      by_cases hx : x.1 = k
      · have : ¬ y.1 = k := fun e => hne (by rw [hx, e])
        simp [hx, this]
      · simp [hx, List.find?_cons]

theorem find_sortByKey {γ : Type} (k : String) (l : List (String × γ)) :
    (sortByKey l).find? (fun y => y.1 = k) = l.find? (fun y => y.1 = k) := by
  induction l with
  | nil => rfl
  | cons a l ih =>
    have : sortByKey (a :: l) = insertByKey a (sortByKey l) := rfl
    rw [this, find_insertByKey, ih, List.find?_cons]
    by_cases ha : a.1 = k <;> simp [ha]

theorem kvGet_sortByKey {α : Type} (kvs : KVs α) (k : String) : kvGet (sortByKey kvs) k = kvGet kvs k := by
  unfold kvGet
  rw [find_sortByKey]

theorem mapM_insertByKey {γ δ : Type} (F : String × γ → Option (String × δ))
    (hF : ∀ x y, F x = some y → y.1 = x.1) (x : String × γ) (l : List (String × γ)) :
    (insertByKey x l).mapM F = (F x).bind (fun y => (l.mapM F).map (insertByKey y)) := by
  induction l with
  | nil =>
    cases hx : F x <;> simp [insertByKey, hx]
  | cons z zs ih =>
    simp only [insertByKey]
    split
    · rename_i hle
      simp only [List.mapM_cons]
      cases hx : F x with
      | none => simp
      | some y =>
        cases hz : F z with
        | none => simp
        | some z' =>
          cases hzs : zs.mapM F with
          | none => simp
          | some zs' =>
            simp [insertByKey, hF _ _ hx, hF _ _ hz, hle]
    · rename_i hle
      simp only [List.mapM_cons, ih]
      cases hx : F x with
      | none => cases F z <;> simp
      | some y =>
        cases hz : F z with
        | none => simp
        | some z' =>
          cases hzs : zs.mapM F with
          | none => simp
          | some zs' =>
            simp [insertByKey, hF _ _ hx, hF _ _ hz, hle]

theorem mapM_sortByKey {γ δ : Type} (F : String × γ → Option (String × δ))
    (hF : ∀ x y, F x = some y → y.1 = x.1) (l : List (String × γ)) :
    (sortByKey l).mapM F = (l.mapM F).map sortByKey := by
  induction l with
  | nil => rfl
  | cons a l ih =>
    have e : sortByKey (a :: l) = insertByKey a (sortByKey l) := rfl
    rw [e, mapM_insertByKey F hF, ih]
    simp only [List.mapM_cons]
    cases F a with
    | none => simp
    | some y =>
      cases l.mapM F with
      | none => simp
      | some r => simp [sortByKey]

/-! ### `fix_attitude_time` commutes with the normal form -/

variable {α : Type}

def sk (kg : String × Grp α) : String × Grp α := (kg.1, kg.2.sortKeys)

def skv (kv : String × GVar α) : String × GVar α := (kv.1, kv.2.sortKeys)

theorem sortGroups_eq (gs : List (String × Grp α)) : Grp.sortGroups gs = gs.map sk := by
  induction gs with
  | nil => simp [Grp.sortGroups]
  | cons kg rest ih => obtain ⟨k, g⟩ := kg; simp [Grp.sortGroups, ih, sk]

/-- the normal form of a list of named groups -/
def S (gs : List (String × Grp α)) : List (String × Grp α) := sortByKey (gs.map sk)

theorem sortKeys_mk (vars : List (String × GVar α)) (groups : List (String × Grp α)) (attrs : KVs α) :
    (Grp.mk vars groups attrs).sortKeys = .mk (sortByKey (vars.map skv)) (S groups) (sortByKey attrs) := by
  simp only [Grp.sortKeys, sortGroups_eq, S]
  rfl

theorem grpVars_sortKeys (g : Grp α) : grpVars g.sortKeys = sortByKey ((grpVars g).map skv) := by
  cases g; simp [sortKeys_mk, grpVars]

theorem grpGroups_sortKeys (g : Grp α) : grpGroups g.sortKeys = S (grpGroups g) := by
  cases g; simp [sortKeys_mk, grpGroups]

theorem grpAttrs_sortKeys (g : Grp α) : grpAttrs g.sortKeys = sortByKey (grpAttrs g) := by
  cases g; simp [sortKeys_mk, grpAttrs]

theorem find_S (k : String) (gs : List (String × Grp α)) :
    (S gs).find? (fun g => g.1 = k) = (gs.find? (fun g => g.1 = k)).map sk := by
  unfold S
  rw [find_sortByKey, List.find?_map]
  rfl

/-- the fix-up of one variable -/
def fixVar (lf : LeafFns3 α) (first : α) (kv : String × GVar α) : String × GVar α :=
  if kv.1 = "time" then
    (kv.1, { kv.2 with data := match kv.2.data with
      | .list xs => .list (xs.map (onLeaf (lf.fixTime first)))
      | o => onLeaf (lf.fixTime first) o })
  else kv

/-- the fix-up of one attitude section -/
def fixSec (lf : LeafFns3 α) (first : α) (sg : String × Grp α) : Option (String × Grp α) :=
  match (grpVars sg.2).find? (fun kv => kv.1 = "time") with
  | none => none
  | some _ => some (sg.1, Grp.mk ((grpVars sg.2).map (fixVar lf first)) (grpGroups sg.2) (grpAttrs sg.2))

theorem fixAttitudeTime_eq (lf : LeafFns3 α) (groups : List (String × Grp α)) :
    fixAttitudeTime lf groups =
      match groups.find? (fun g => g.1 = "platform_position"), groups.find? (fun g => g.1 = "attitude") with
      | some pp, some att =>
        match kvGet (grpAttrs pp.2) "datetime_of_first_point" with
        | some (.leaf first) =>
          ((grpGroups att.2).mapM (fixSec lf first)).bind (fun subs => some
            (groups.map (fun g => if g.1 = "attitude" then (g.1, Grp.mk (grpVars att.2) subs (grpAttrs att.2)) else g)))
        | _ => none
      | _, _ => some groups := rfl

theorem fixVar_skv (lf : LeafFns3 α) (first : α) (kv : String × GVar α) :
    fixVar lf first (skv kv) = skv (fixVar lf first kv) := by
  unfold fixVar skv
  split <;> simp [GVar.sortKeys]

theorem fixSec_sk (lf : LeafFns3 α) (first : α) (sg : String × Grp α) :
    fixSec lf first (sk sg) = (fixSec lf first sg).map sk := by
  unfold fixSec
  simp only [sk, grpVars_sortKeys, find_sortByKey, List.find?_map]
  have : ((fun kv : String × GVar α => decide (kv.1 = "time")) ∘ skv) = (fun kv => decide (kv.1 = "time")) := by
    funext kv; rfl
  rw [this]
  cases (grpVars sg.2).find? (fun kv => kv.1 = "time") with
  | none => rfl
  | some t =>
    simp only [Option.map_some, grpGroups_sortKeys, grpAttrs_sortKeys, sk, sortKeys_mk]
    have h1 : (skv ∘ fixVar lf first) = (fixVar lf first ∘ skv) := by
      funext kv; simp [fixVar_skv]
    rw [List.map_map, h1, ← List.map_map, Prov.sortByKey_map (fixVar lf first)]
    intro x
    unfold fixVar
    split <;> rfl

theorem fixSec_key (lf : LeafFns3 α) (first : α) (x y : String × Grp α) (h : fixSec lf first x = some y) :
    y.1 = x.1 := by
  unfold fixSec at h
  split at h
  · simp at h
  · simp at h; rw [← h]

theorem fixAttitudeTime_S (lf : LeafFns3 α) (groups : List (String × Grp α)) :
    fixAttitudeTime lf (S groups) = (fixAttitudeTime lf groups).map S := by
  rw [fixAttitudeTime_eq, fixAttitudeTime_eq, find_S, find_S]
  cases groups.find? (fun g => g.1 = "platform_position") with
  | none => simp
  | some pp =>
    cases groups.find? (fun g => g.1 = "attitude") with
    | none => simp
    | some att =>
      simp only [Option.map_some, sk, grpAttrs_sortKeys, kvGet_sortByKey, grpGroups_sortKeys, grpVars_sortKeys]
      split
      · rename_i first hfirst
        have e1 : (S (grpGroups att.2)).mapM (fixSec lf first) =
            ((grpGroups att.2).mapM (fixSec lf first)).map S := by
          unfold S
          rw [mapM_sortByKey _ (fixSec_key lf first),
            Natural.mapM_option_map sk sk (fixSec lf first) (fixSec lf first) _ (fun a _ => fixSec_sk lf first a)]
          simp [Option.map_map, Function.comp_def]
        rw [e1]
        cases (grpGroups att.2).mapM (fixSec lf first) with
        | none => rfl
        | some subs =>
          simp only [Option.map_some, Option.bind_some, Option.some.injEq]
          unfold S
          rw [List.map_map, ← Prov.sortByKey_map _ (fun x => by split <;> rfl), List.map_map]
          congr 1
          apply List.map_congr_left
          intro g _
          simp only [Function.comp, sk]
          by_cases hg : g.1 = "attitude"
          · simp [sortKeys_mk, S, hg]
          · simp [hg]
      · rfl

/-! ### `transform_metadata` on the dict of member records -/

/-- the map-projection group (a one-element list) or nothing -/
def mpGroups (lf : LeafFns3 α) : List (PVal α) → Option (List (String × Grp α))
  | [] => some []
  | x :: _ => (transformMapProjection lf.toLeafFns2 x).map (fun g => [("map_projection", g)])

theorem truthy_nil : truthy (PVal.list ([] : List (PVal α))) = false := rfl
theorem truthy_cons (x : PVal α) (xs : List (PVal α)) : truthy (PVal.list (x :: xs)) = true := by
  simp [truthy]

/-- `transform_metadata` on a leader dict whose member pipelines succeed -/
theorem tlm_eq (lf : LeafFns3 α) (x1 x2 x4 x5 x6 x7 x8 x9 x10 x11 x12 : PVal α) (xs : List (PVal α))
    (g2 g4 g5 g6 g7 g12 : Grp α)
    (t2 : truthy x2 = true) (t4 : truthy x4 = true) (t5 : truthy x5 = true) (t6 : truthy x6 = true)
    (t7 : truthy x7 = true) (t12 : truthy x12 = true)
    (e2 : transformDatasetSummary lf.toLeafFns x2 = some g2)
    (e4 : transformPlatformPosition lf.toLeafFns2 x4 = some g4)
    (e5 : transformAttitude lf.toLeafFns2 x5 = some g5)
    (e6 : transformRadiometricData x6 = some g6)
    (e7 : transformDataQualitySummary x7 = some g7)
    (e12 : transformRecord5 lf.toLeafFns x12 = some g12) :
    transformLeaderMetadata lf (.dict [("file_descriptor", x1), ("dataset_summary", x2), ("map_projection", .list xs),
      ("platform_position", x4), ("attitude", x5), ("radiometric_data", x6), ("data_quality_summary", x7),
      ("facility_related_data_1", x8), ("facility_related_data_2", x9), ("facility_related_data_3", x10),
      ("facility_related_data_4", x11), ("facility_related_data_5", x12)]) =
    (mpGroups lf xs).bind (fun mp =>
      (fixAttitudeTime lf ([("dataset_summary", g2)] ++ mp ++ [("platform_position", g4), ("attitude", g5),
        ("radiometric_data", g6), ("data_quality_summary", g7), ("transformations", g12)])).map
        (fun gs => Grp.mk [] gs [])) := by
  cases xs with
  | nil =>
    simp [transformLeaderMetadata, Gen.Config.sar_leader__transform_metadata.transformers,
      Gen.Config.sar_leader__transform_metadata.ignored, Gen.Config.sar_leader__transform_metadata.translations,
      leaderFn, dissoc, truthy_nil, t2, t4, t5, t6, t7, t12, e2, e4, e5, e6, e7, e12, mpGroups]
    cases fixAttitudeTime lf _ <;> rfl
  | cons x rest =>
    cases e3 : transformMapProjection lf.toLeafFns2 x with
    | none =>
      simp [transformLeaderMetadata, Gen.Config.sar_leader__transform_metadata.transformers,
        Gen.Config.sar_leader__transform_metadata.ignored, Gen.Config.sar_leader__transform_metadata.translations,
        leaderFn, dissoc, truthy_cons, t2, t4, t5, t6, t7, t12, e2, e3, e4, e5, e6, e7, e12, mpGroups]
    | some g3 =>
      simp [transformLeaderMetadata, Gen.Config.sar_leader__transform_metadata.transformers,
        Gen.Config.sar_leader__transform_metadata.ignored, Gen.Config.sar_leader__transform_metadata.translations,
        leaderFn, dissoc, truthy_cons, t2, t4, t5, t6, t7, t12, e2, e3, e4, e5, e6, e7, e12, mpGroups]
      cases fixAttitudeTime lf _ <;> rfl

section members

open Layout

/-! ### the parsed leader record is the dict of its twelve member records -/

theorem setField_length (lvl : List (String × Val)) (name : String) (v : Val) :
    lvl.length ≤ (setField lvl name v).length := by
  unfold setField
  split <;> simp

theorem parseFields_length (fs : List (String × Con)) :
    ∀ (lvl : List (String × Val)) (outer : Ctx) (bs : Bytes) (pos : Nat) (v : Val) (pos' : Nat),
      parseFields fs (lvl :: outer) bs pos = .ok (v, pos') →
      ∃ lvlF, v = .dict lvlF ∧ lvl.length ≤ lvlF.length := by
  induction fs with
  | nil =>
    intro lvl outer bs pos v pos' h
    rw [parseFields] at h
    simp at h
    exact ⟨lvl.reverse, h.1.symm, by simp⟩
  | cons f rest ih =>
    intro lvl outer bs pos v pos' h
    obtain ⟨name, c⟩ := f
    obtain ⟨v1, p1, h1, h2⟩ := parseFields_cons_ok h
    obtain ⟨lvlF, e1, e2⟩ := ih _ _ _ _ _ _ h2
    exact ⟨lvlF, e1, Nat.le_trans (setField_length lvl name v1) e2⟩

/-- a parsed record with at least one member is a non-empty dict: it is kept by `valfilter(bool)` -/
theorem truthy_struct {c : Con} (hc : ∃ f fs, c = .struct (f :: fs)) {ctx : Ctx} {bs : Bytes} {pos : Nat} {v : Val}
    {pos' : Nat} (h : parse c ctx bs pos = .ok (v, pos')) : truthy v.toPVal = true := by
  obtain ⟨f, fs, rfl⟩ := hc
  obtain ⟨name, c⟩ := f
  rw [parse] at h
  obtain ⟨v1, p1, h1, h2⟩ := parseFields_cons_ok h
  obtain ⟨lvlF, e1, e2⟩ := parseFields_length _ _ _ _ _ _ _ h2
  subst e1
  cases lvlF with
  | nil => simp [setField] at e2
  | cons a t => obtain ⟨k, w⟩ := a; simp [Val.toPVal, Val.toPVal.toPKvs, truthy]

theorem parseMany_first {p : Nat → Except Err (Val × Nat)} {n pos : Nat} {vs : List Val} {q : Nat}
    (h : parseMany p n pos = .ok (vs, q)) :
    (n = 0 → vs = []) ∧ (0 < n → ∃ x rest q', vs = x :: rest ∧ p pos = .ok (x, q')) := by
  cases n with
  | zero => simp [parseMany] at h; simp [h.1]
  | succ n =>
    rw [parseMany] at h
    simp only [bind_ok, pure_ok] at h
    obtain ⟨⟨v1, p1⟩, h1, ⟨vs2, p2⟩, h2, h3⟩ := h
    simp at h3
    refine ⟨by simp, fun _ => ⟨v1, vs2, p1, h3.1.symm, h1⟩⟩

theorem parse_array_first {n : Nat} {elem : Con} {ctx : Ctx} {bs : Bytes} {pos : Nat} {v : Val} {p : Nat}
    (h : parse (.array (.const n) elem) ctx bs pos = .ok (v, p)) :
    ∃ xs, v = .list xs ∧ (n = 0 → xs = []) ∧
      (0 < n → ∃ x rest q', xs = x :: rest ∧ parse elem ctx bs pos = .ok (x, q')) := by
  rw [parse] at h
  simp only [bind_ok, pure_ok] at h
  obtain ⟨m, h0, ⟨vs, p1⟩, h1, h3⟩ := h
  obtain ⟨_, hm⟩ := evalLen_const h0
  simp at hm h3
  subst hm
  obtain ⟨a, b⟩ := parseMany_first h1
  exact ⟨vs, h3.1.symm, a, b⟩

/-- what is known about the members of a parsed leader record -/
structure Members (bs : Bytes) (v : Val) (k : Nat) (v1 v2 : Val) (xs : List Val) (v4 v5 v6 v7 v8 v9 v10 v11 v12 : Val) :
    Prop where
  dict : v = .dict [("file_descriptor", v1), ("dataset_summary", v2), ("map_projection", .list xs),
      ("platform_position", v4), ("attitude", v5), ("radiometric_data", v6), ("data_quality_summary", v7),
      ("facility_related_data_1", v8), ("facility_related_data_2", v9), ("facility_related_data_3", v10),
      ("facility_related_data_4", v11), ("facility_related_data_5", v12)]
  count : v.getPath ["file_descriptor", "map_projection", "number_of_records"] = some (.leaf (.int k))
  noMap : k = 0 → xs = []
  map : 0 < k → ∃ x rest ctx p p', xs = x :: rest ∧ parse Gen.mapProjectionRecord ctx bs p = .ok (x, p')
  p2 : ∃ ctx p p', parse Gen.datasetSummaryRecord ctx bs p = .ok (v2, p')
  p4 : ∃ ctx p p', parse Gen.platformPositionRecord ctx bs p = .ok (v4, p')
  p5 : ∃ ctx p p', parse Gen.attitudeRecord ctx bs p = .ok (v5, p')
  p6 : ∃ ctx p p', parse Gen.radiometricDataRecord ctx bs p = .ok (v6, p')
  p7 : ∃ ctx p p', parse Gen.dataQualitySummaryRecord ctx bs p = .ok (v7, p')
  p12 : ∃ ctx p p', parse Gen.facilityRelatedData5Record ctx bs p = .ok (v12, p')

theorem leader_members (bs : Bytes) (v : Val) (pos' : Nat)
    (h : parse Gen.sarLeaderRecord [] bs 0 = .ok (v, pos')) :
    ∃ k v1 v2 xs v4 v5 v6 v7 v8 v9 v10 v11 v12, Members bs v k v1 v2 xs v4 v5 v6 v7 v8 v9 v10 v11 v12 := by
  rw [sarLeaderRecord_eq, parse] at h
  have hn := KeysNodup_nil
  layout_step' h hn with v1 p1 h1 g1
  layout_step' h hn with v2 p2 h2 g2
  layout_step' h hn with v3 p3 h3 g3
  layout_step' h hn with v4 p4 h4 g4
  layout_step' h hn with v5 p5 h5 g5
  layout_step' h hn with v6 p6 h6 g6
  layout_step' h hn with v7 p7 h7 g7
  layout_step' h hn with v8 p8 h8 g8
  layout_step' h hn with v9 p9 h9 g9
  layout_step' h hn with v10 p10 h10 g10
  layout_step' h hn with v11 p11 h11 g11
  layout_step' h hn with v12 p12 h12 g12
  rw [parseFields] at h
  simp [setField] at h
  obtain ⟨hv, -⟩ := h
  obtain ⟨ctx', q1, w, q2, hw, hw1⟩ := struct_get h1 "map_projection" _ rfl
  obtain ⟨k, hk⟩ := struct_get_aint hw "number_of_records" _ rfl
  obtain ⟨n, hn3, h3'⟩ := Prov3.parse_array_const h3
  simp [Expr.eval, resolve, lookupField_setField, hw1, hk, Val.toInt?] at hn3
  obtain ⟨xs, rfl, hx0, hx1⟩ := parse_array_first h3'
  refine ⟨n, v1, v2, xs, v4, v5, v6, v7, v8, v9, v10, v11, v12, ⟨hv.symm, ?_, hx0, ?_, ⟨_, _, _, h2⟩, ⟨_, _, _, h4⟩,
    ⟨_, _, _, h5⟩, ⟨_, _, _, h6⟩, ⟨_, _, _, h7⟩, ⟨_, _, _, h12⟩⟩⟩
  · rw [getPath_cons _ g1, getPath_cons _ hw1, getPath_cons _ hk, hn3]; rfl
  · intro hpos
    obtain ⟨x, rest, q', e, hx⟩ := hx1 hpos
    exact ⟨x, rest, _, _, _, e, hx⟩

end members

/-- the fix-up on the documented attitude tree: the leaves of the two `time` variables change, nothing else -/
theorem fix_att (lf : LeafFns3 Leaf) (first : Leaf) (g h : Sym → Leaf) (n : Nat)
    (h1 : ∀ a b, h (.app2 "attitude_time" a b) = lf.fixTime first (g (.app2 "attitude_time" a b)))
    (h2 : ∀ p, h (.path p) = g (.path p)) (h3 : ∀ p, h (.app "bool" (.path p)) = g (.app "bool" (.path p))) :
    ((grpGroups ((Spec.attitude n).map g)).mapM (fixSec lf first)).map
        (fun subs => Grp.mk (grpVars ((Spec.attitude n).map g)) subs (grpAttrs ((Spec.attitude n).map g))) =
      some ((Spec.attitude n).map h) := by
  simp [Spec.attitude, Grp.map, Grp.mapGroups, GVar.map, PVal.mapKvs, Natural.map_list, Natural.map_leaf,
    Natural.map_cstr, grpGroups, grpVars, grpAttrs, fixSec, fixVar, onLeaf, Function.comp_def, h1, h2, h3]

/-- `fix_attitude_time` on the normal form of the record groups -/
theorem fix_sorted (lf : LeafFns3 α) (A A' Q D P R T : Grp α) (mp : List (String × Grp α))
    (hmp : mp = [] ∨ ∃ G, mp = [("map_projection", G)]) (first : α)
    (hP : kvGet (grpAttrs P) "datetime_of_first_point" = some (.leaf first))
    (hA : ((grpGroups A).mapM (fixSec lf first)).map (fun subs => Grp.mk (grpVars A) subs (grpAttrs A)) = some A') :
    fixAttitudeTime lf ([("attitude", A), ("data_quality_summary", Q), ("dataset_summary", D)] ++ mp ++
        [("platform_position", P), ("radiometric_data", R), ("transformations", T)]) =
      some ([("attitude", A'), ("data_quality_summary", Q), ("dataset_summary", D)] ++ mp ++
        [("platform_position", P), ("radiometric_data", R), ("transformations", T)]) := by
  rw [Option.map_eq_some_iff] at hA
  obtain ⟨subs, hs, rfl⟩ := hA
  rcases hmp with rfl | ⟨G, rfl⟩ <;> simp [fixAttitudeTime_eq, hP, hs]

/-- the normal form of the list of record groups -/
theorem S_groups (g2 g4 g5 g6 g7 g12 : Grp α) (mp : List (String × Grp α))
    (hmp : mp = [] ∨ ∃ G, mp = [("map_projection", G)]) :
    S ([("dataset_summary", g2)] ++ mp ++ [("platform_position", g4), ("attitude", g5),
        ("radiometric_data", g6), ("data_quality_summary", g7), ("transformations", g12)]) =
      [("attitude", g5.sortKeys), ("data_quality_summary", g7.sortKeys), ("dataset_summary", g2.sortKeys)] ++
        mp.map sk ++ [("platform_position", g4.sortKeys), ("radiometric_data", g6.sortKeys),
        ("transformations", g12.sortKeys)] := by
  rcases hmp with rfl | ⟨G, rfl⟩ <;> simp [S, sk, sortByKey, insertByKey]

theorem first_point_attr (f : Sym → Leaf) :
    kvGet (grpAttrs (Spec.platformPosition.map f)) "datetime_of_first_point" =
      some (.leaf (f (.app2 "composite_datetime" (.path ["datetime_of_first_point", "date"])
        (.path ["datetime_of_first_point", "seconds_of_day"])))) := by
  simp [Spec.platformPosition, Grp.map, grpAttrs, PVal.mapKvs, kvGet, Natural.map_leaf]

theorem sortKeys_top {α : Type} :
    (Grp.sortKeys ∘ fun gs : List (String × Grp α) => Grp.mk [] gs []) = (fun gs => Grp.mk [] gs []) ∘ S := by
  funext gs
  simp only [Function.comp, sortKeys_mk]
  rfl

/-- the assembly of the `/metadata` group from the member groups, once the member pipelines are known -/
theorem core (v v2 v4 v5 v6 v7 v12 : Val) (na nc : Nat) (g2 g4 g5 g6 g7 g12 : Grp Leaf)
    (mp : List (String × Grp Leaf)) (mpg : List (String × Grp Sym))
    (hmp : mp = [] ∨ ∃ G, mp = [("map_projection", G)])
    (hmpg : mp.map sk = mpg.map (fun kg => (kg.1, kg.2.map (Sym.eval v))))
    (gt2 : v.get? "dataset_summary" = some v2) (gt4 : v.get? "platform_position" = some v4)
    (gt5 : v.get? "attitude" = some v5) (gt6 : v.get? "radiometric_data" = some v6)
    (gt7 : v.get? "data_quality_summary" = some v7) (gt12 : v.get? "facility_related_data_5" = some v12)
    (s2 : g2.sortKeys = Spec.datasetSummary.map (Sym.eval v2))
    (s4 : g4.sortKeys = Spec.platformPosition.map (Sym.eval v4))
    (s5 : g5.sortKeys = (Spec.attitude na).map (Sym.eval v5))
    (s6 : g6.sortKeys = Spec.radiometricData.map (Sym.eval v6))
    (s7 : g7.sortKeys = (Spec.dataQualitySummary nc).map (Sym.eval v7))
    (s12 : g12.sortKeys = Spec.transformations.map (Sym.eval v12)) :
    ((fixAttitudeTime realLeafFns3 ([("dataset_summary", g2)] ++ mp ++ [("platform_position", g4), ("attitude", g5),
        ("radiometric_data", g6), ("data_quality_summary", g7), ("transformations", g12)])).map
        (fun gs => Grp.mk [] gs [])).map Grp.sortKeys =
      some ((Grp.mk []
        ([("attitude", ((Spec.attitude na).map (preS ["attitude"])).map (Spec.fixSym Spec.firstPoint)),
          ("data_quality_summary", (Spec.dataQualitySummary nc).map (preS ["data_quality_summary"])),
          ("dataset_summary", Spec.datasetSummary.map (preS ["dataset_summary"]))] ++ mpg ++
         [("platform_position", Spec.platformPosition.map (preS ["platform_position"])),
          ("radiometric_data", Spec.radiometricData.map (preS ["radiometric_data"])),
          ("transformations", Spec.transformations.map (preS ["facility_related_data_5"]))])
        []).map (Sym.eval v)) := by
  have hmp' : mp.map sk = [] ∨ ∃ G, mp.map sk = [("map_projection", G)] := by
    rcases hmp with rfl | ⟨G, rfl⟩
    · exact Or.inl rfl
    · exact Or.inr ⟨G.sortKeys, rfl⟩
  -- the first orbit point
  have hfirst : Sym.eval v4 (.app2 "composite_datetime" (.path ["datetime_of_first_point", "date"])
      (.path ["datetime_of_first_point", "seconds_of_day"])) = Sym.eval v Spec.firstPoint :=
    (eval_pre v v4 ["platform_position"] (leafAt_member gt4) _).symm
  have hP : kvGet (grpAttrs g4.sortKeys) "datetime_of_first_point" = some (.leaf (Sym.eval v Spec.firstPoint)) := by
    rw [s4, first_point_attr, hfirst]
  -- the attitude group
  have e5 : (Spec.attitude na).map (Sym.eval v5) = (Spec.attitude na).map (Sym.eval v ∘ preS ["attitude"]) := by
    rw [← grp_eval_pre v v5 ["attitude"] (leafAt_member gt5), gmap_map]
  have hA := fix_att realLeafFns3 (Sym.eval v Spec.firstPoint) (Sym.eval v ∘ preS ["attitude"])
    (Sym.eval v ∘ Spec.fixSym Spec.firstPoint ∘ preS ["attitude"]) na
    (fun a b => by simp [preS, Spec.fixSym, Sym.eval]) (fun p => by simp [preS, Spec.fixSym])
    (fun p => by simp [preS, Spec.fixSym])
  rw [← e5, ← s5] at hA
  rw [Option.map_map, sortKeys_top, ← Option.map_map, ← fixAttitudeTime_S, S_groups _ _ _ _ _ _ mp hmp,
    fix_sorted realLeafFns3 _ _ _ _ _ _ _ _ hmp' _ hP hA, Option.map_some]
  congr 1
  simp only [Grp.map, Natural.mapGroups_eq, PVal.mapKvs, List.map_nil, List.map_append, List.map_cons, gmap_map,
    hmpg, s2, s4, s6, s7, s12]
  rw [← grp_eval_pre v v2 ["dataset_summary"] (leafAt_member gt2),
    ← grp_eval_pre v v4 ["platform_position"] (leafAt_member gt4),
    ← grp_eval_pre v v6 ["radiometric_data"] (leafAt_member gt6),
    ← grp_eval_pre v v7 ["data_quality_summary"] (leafAt_member gt7),
    ← grp_eval_pre v v12 ["facility_related_data_5"] (leafAt_member gt12)]
  simp only [gmap_map]

end Meta

theorem compat3_rho (v : Val) : Compat3 (Sym.eval v) (symLeafFns3 (Prov.rhoOf v) (rhoD v)) realLeafFns3 where
  toCompat2 := compat2_rho v
  fixTime := fun a b => by simp [symLeafFns3, Sym.eval]

theorem metadata_provenance (bs : Bytes) (v : Val) (pos' : Nat)
    (h : parse Gen.sarLeaderRecord [] bs 0 = .ok (v, pos')) :
    ∃ k na nc : Nat,
      v.getPath ["file_descriptor", "map_projection", "number_of_records"] = some (.leaf (.int k)) ∧
      v.getPath ["attitude", "number_of_points"] = some (.leaf (.int na)) ∧
      v.getPath ["data_quality_summary", "number_of_channels"] = some (.leaf (.int nc)) ∧
      (0 < na → 0 < nc →
        (transformLeaderMetadata realLeafFns3 v.toPVal).map Grp.sortKeys =
          (Spec.metadata (decide (0 < k))
            (realLeafFns2.desig ((v.leafAt ["map_projection", "[0]", "map_projection_designator"]).getD default))
            na nc).map (Grp.map (Sym.eval v))) := by
  obtain ⟨k, v1, v2, xs, v4, v5, v6, v7, v8, v9, v10, v11, v12, M⟩ := Meta.leader_members bs v pos' h
  obtain ⟨c2, q2, q2', P2⟩ := M.p2
  obtain ⟨c4, q4, q4', P4⟩ := M.p4
  obtain ⟨c5, q5, q5', P5⟩ := M.p5
  obtain ⟨c6, q6, q6', P6⟩ := M.p6
  obtain ⟨c7, q7, q7', P7⟩ := M.p7
  obtain ⟨c12, q12, q12', P12⟩ := M.p12
  obtain ⟨na, hna, hatt, -⟩ := attitude_provenance _ _ _ _ _ P5
  obtain ⟨nc, hnc, -, hdqs⟩ := data_quality_provenance _ _ _ _ _ P7
  have hv := M.dict
  have gt2 : v.get? "dataset_summary" = some v2 := by rw [hv]; simp [Val.get?]
  have gt3 : v.get? "map_projection" = some (.list xs) := by rw [hv]; simp [Val.get?]
  have gt4 : v.get? "platform_position" = some v4 := by rw [hv]; simp [Val.get?]
  have gt5 : v.get? "attitude" = some v5 := by rw [hv]; simp [Val.get?]
  have gt6 : v.get? "radiometric_data" = some v6 := by rw [hv]; simp [Val.get?]
  have gt7 : v.get? "data_quality_summary" = some v7 := by rw [hv]; simp [Val.get?]
  have gt12 : v.get? "facility_related_data_5" = some v12 := by rw [hv]; simp [Val.get?]
  refine ⟨k, na, nc, M.count, ?_, ?_, fun hna0 hnc0 => ?_⟩
  · rw [Layout.getPath_cons _ gt5, hna]
  · rw [Layout.getPath_cons _ gt7, hnc]
  -- the member pipelines
  have m2 := dataset_summary_provenance _ _ _ _ _ P2
  have m4 := platform_position_provenance _ _ _ _ _ P4
  have m5 := hatt hna0
  have m6 := radiometric_provenance _ _ _ _ _ P6
  have m7 := hdqs hnc0
  have m12 := record5_provenance _ _ _ _ _ P12
  rw [Option.map_eq_some_iff] at m2 m4 m5 m6 m7 m12
  obtain ⟨g2, e2, s2⟩ := m2
  obtain ⟨g4, e4, s4⟩ := m4
  obtain ⟨g5, e5, s5⟩ := m5
  obtain ⟨g6, e6, s6⟩ := m6
  obtain ⟨g7, e7, s7⟩ := m7
  obtain ⟨g12, e12, s12⟩ := m12
  have t2 := Meta.truthy_struct ⟨_, _, rfl⟩ P2
  have t4 := Meta.truthy_struct ⟨_, _, rfl⟩ P4
  have t5 := Meta.truthy_struct ⟨_, _, rfl⟩ P5
  have t6 := Meta.truthy_struct ⟨_, _, rfl⟩ P6
  have t7 := Meta.truthy_struct ⟨_, _, rfl⟩ P7
  have t12 := Meta.truthy_struct ⟨_, _, rfl⟩ P12
  have hvp : v.toPVal = .dict [("file_descriptor", v1.toPVal), ("dataset_summary", v2.toPVal),
      ("map_projection", .list (Val.toPVal.toPVals xs)), ("platform_position", v4.toPVal), ("attitude", v5.toPVal),
      ("radiometric_data", v6.toPVal), ("data_quality_summary", v7.toPVal),
      ("facility_related_data_1", v8.toPVal), ("facility_related_data_2", v9.toPVal),
      ("facility_related_data_3", v10.toPVal), ("facility_related_data_4", v11.toPVal),
      ("facility_related_data_5", v12.toPVal)] := by
    rw [hv]; simp [Val.toPVal, Val.toPVal.toPKvs]
  rw [hvp, Meta.tlm_eq realLeafFns3 _ _ _ _ _ _ _ _ _ _ _ _ g2 g4 g5 g6 g7 g12 t2 t4 t5 t6 t7 t12 e2 e4 e5 e6 e7 e12]
  unfold Spec.metadata
  rcases Nat.eq_zero_or_pos k with hk | hk
  · -- no map-projection record
    have hxs := M.noMap hk
    subst hxs
    subst hk
    simp only [Val.toPVal.toPVals, Meta.mpGroups, Option.bind_some, Nat.lt_irrefl, decide_false, Bool.false_eq_true,
      if_false, Option.map_some]
    exact Meta.core v v2 v4 v5 v6 v7 v12 na nc g2 g4 g5 g6 g7 g12 [] [] (Or.inl rfl) rfl gt2 gt4 gt5 gt6 gt7 gt12
      s2 s4 s5 s6 s7 s12
  · -- the first map-projection record
    obtain ⟨x, rest, c3, q3, q3', rfl, P3⟩ := M.map hk
    have m3 := map_projection_provenance _ _ _ _ _ P3
    have hd : x.leafAt ["map_projection_designator"] =
        v.leafAt ["map_projection", "[0]", "map_projection_designator"] :=
      (Meta.leafAt_first gt3 ["map_projection_designator"]).symm
    rw [hd] at m3
    generalize realLeafFns2.desig ((v.leafAt ["map_projection", "[0]", "map_projection_designator"]).getD default) = d
      at m3 ⊢
    simp only [Val.toPVal.toPVals, Meta.mpGroups, hk, decide_true, if_true]
    cases hM : Spec.mapProjection d with
    | none =>
      rw [hM, Option.map_none, Option.map_eq_none_iff] at m3
      have m3' : transformMapProjection realLeafFns3.toLeafFns2 x.toPVal = none := m3
      rw [m3']
      rfl
    | some Mp =>
      rw [hM, Option.map_some, Option.map_eq_some_iff] at m3
      obtain ⟨g3, e3, s3⟩ := m3
      have e3' : transformMapProjection realLeafFns3.toLeafFns2 x.toPVal = some g3 := e3
      rw [e3']
      simp only [Option.map_some, Option.bind_some]
      refine Meta.core v v2 v4 v5 v6 v7 v12 na nc g2 g4 g5 g6 g7 g12 [("map_projection", g3)]
        [("map_projection", Mp.map (preS ["map_projection", "[0]"]))] (Or.inr ⟨_, rfl⟩) ?_ gt2 gt4 gt5 gt6 gt7 gt12
        s2 s4 s5 s6 s7 s12
      simp only [List.map_cons, List.map_nil, Meta.sk, s3]
      rw [Meta.grp_eval_pre v x ["map_projection", "[0]"] (Meta.leafAt_first gt3)]

end Alos2

/-
Cache-first open of a whole product (`Model/ProductCached.lean`): the per-image results of `Proofs/Flow.lean` lifted through
`io.open`'s loop over the image files, with one index-file state per image.
-/
import Alos2.Model.ProductCached
import Alos2.Proofs.Flow
import Alos2.Proofs.Bridge

namespace Alos2

private theorem throw_bind_except {α β : Type} (e : Err) (f : α → Except Err β) : (throw e : Except Err α) >>= f = throw e := rfl
private theorem ok_bind_except {α β : Type} (a : α) (f : α → Except Err β) : (Except.ok a : Except Err α) >>= f = f a := rfl
private theorem error_bind_except {α β : Type} (e : Err) (f : α → Except Err β) : (Except.error e : Except Err α) >>= f = Except.error e := rfl

/-- the head IS the head of `openProduct` (Model/Product.lean): the uncached whole-product model factors through it -/
theorem openProduct_eq_head (fs : Files) (rpc : Nat) :
    openProduct fs rpc = (do
      let (ra, su, me, imgs) ← openProductHead fs
      let groups ← imgs.mapM (fun name => match fs.get name with
        | some b => openImageFile b name rpc
        | none => throw Err.fnf)
      pure { rootAttrs := ra, summary := su, metadata := me,
             imagery := groups.foldl (fun acc kv => assocSet acc kv.1 kv.2) [] }) := by
  unfold openProduct openProductHead
  simp only [pure_bind, throw_bind_except]
  cases fs.get "summary.txt" with
  | none => rfl
  | some stext =>
  simp only []
  cases String.fromUTF8? (ByteArray.mk stext.toArray) with
  | none => rfl
  | some str =>
  simp only []
  cases parseSummary str.toList with
  | error e => rfl
  | ok sections =>
  simp only []
  cases transformSummary sections with
  | error e => rfl
  | ok summary =>
  simp only [ok_bind_except]
  cases List.find? (fun s => decide (s.fst = "pdi")) sections with
  | none => rfl
  | some sec =>
  simp only []
  cases fileRoles sec.2 with
  | error e => rfl
  | ok x =>
  obtain ⟨vol, led, imgs, trl⟩ := x
  simp only [ok_bind_except]
  cases fs.get vol with
  | none => rfl
  | some vbytes =>
  simp only []
  cases parseRecord Gen.volumeDirectoryRecord vbytes with
  | error e => rfl
  | ok vrec =>
  simp only [ok_bind_except]
  cases transformVolumeRecord realLeafFns vrec.toPVal with
  | none => rfl
  | some vattrs =>
  simp only []
  cases fs.get led with
  | none => rfl
  | some lbytes =>
  simp only []
  cases parseRecord Gen.sarLeaderRecord lbytes with
  | error e => rfl
  | ok lrec =>
  simp only [ok_bind_except]
  cases transformLeaderMetadata realLeafFns3 lrec.toPVal with
  | none => rfl
  | some metadata => rfl

theorem readCache_loads_only (E : Env) (U' : Nat → CGroup) (s : CState) (r : Nat) :
    readCache { U := U', loads := E.loads } s r = readCache E s r := by
  unfold readCache decodeText
  rfl

/-- `openImageP` with an uncached open that never fails IS `CacheFlow.openImage` (the model tied by H4) -/
theorem openImageP_total (E : Env) (s : CState) (use create : Bool) (rpc : Nat) :
    openImageP E.loads (fun r => .ok (E.U r)) s use create rpc =
      ((openImage E s use create rpc).result, (openImage E s use create rpc).state) := by
  unfold openImageP openImage
  rw [readCache_loads_only E]
  cases use
  · simp
  · simp only [if_true]
    cases hr : readCache E s rpc with
    | ok g => rfl
    | error e => cases e <;> rfl

/-- a chunk size of 0 is rejected by the reader before anything is returned -/
theorem uncachedC_rpc_zero (fr : FloatRepr) (root : String) (fs : Files) (name : String) :
    ∃ e, uncachedC fr root fs name 0 = .error e := by
  unfold uncachedC
  cases fs.get name with
  | none => exact ⟨_, rfl⟩
  | some b =>
    have : ∃ e, readImageRecords b 0 = .error e := by
      unfold readImageRecords
      cases parseRecord Gen.imageFileDescriptor (b.take 720) with
      | error e => exact ⟨e, rfl⟩
      | ok header =>
        simp only [bind, Except.bind]
        cases intAt header ["number_of_sar_data_records"] with
        | error e => exact ⟨e, rfl⟩
        | ok n =>
          simp only
          cases intAt header ["sar_data_record_length"] with
          | error e => exact ⟨e, rfl⟩
          | ok L => exact ⟨_, rfl⟩
    obtain ⟨e, he⟩ := this
    refine ⟨e, ?_⟩
    simp only [openImageFile, he, bind, Except.bind]


private theorem find_map_set {β : Type} (c : List (String × β)) (name other : String) (s : β) :
    (c.map (fun kv => if kv.1 = name then (name, s) else kv)).find? (fun kv => decide (kv.1 = other)) =
      (c.find? (fun kv => decide (kv.1 = other))).map (fun kv => if kv.1 = name then (name, s) else kv) := by
  induction c with
  | nil => rfl
  | cons a c ih =>
    obtain ⟨k, v⟩ := a
    simp only [List.map_cons, List.find?_cons]
    by_cases h : k = name
    · subst h
      by_cases h2 : k = other
      · subst h2; simp
      · simp only [if_true, h2, decide_false]; exact ih
    · by_cases h2 : k = other
      · subst h2; simp [h]
      · simp only [if_neg h, h2, decide_false]; exact ih

theorem Caches.get_set_eq (c : Caches) (name : String) (s : CState) : (c.set name s).get name = s := by
  unfold Caches.set Caches.get assocSet
  by_cases h : c.any (fun kv => kv.1 = name) = true
  · rw [if_pos h, find_map_set]
    simp only [List.any_eq_true, decide_eq_true_eq] at h
    obtain ⟨x, hx, hxn⟩ := h
    cases hf : c.find? (fun kv => decide (kv.1 = name)) with
    | none =>
      have := List.find?_eq_none.mp hf x hx
      simp [hxn] at this
    | some y =>
      have := List.find?_some hf
      simp at this
      simp [this]
  · rw [if_neg h, List.find?_append]
    have : c.find? (fun kv => decide (kv.1 = name)) = none := by
      rw [List.find?_eq_none]
      intro x hx hxn
      apply h
      simp only [List.any_eq_true]
      exact ⟨x, hx, hxn⟩
    simp [this]

theorem Caches.get_set_ne (c : Caches) (name other : String) (s : CState) (h : other ≠ name) :
    (c.set name s).get other = c.get other := by
  unfold Caches.set Caches.get assocSet
  by_cases hany : c.any (fun kv => kv.1 = name) = true
  · rw [if_pos hany, find_map_set]
    cases hf : c.find? (fun kv => decide (kv.1 = other)) with
    | none => rfl
    | some y =>
      have := List.find?_some hf
      simp at this
      have hne : ¬ y.1 = name := by rw [this]; exact h
      simp [hne]
  · rw [if_neg hany, List.find?_append]
    have : ¬ name = other := fun e => h e.symm
    simp [this]
/-- what is assumed about ONE image of the product: at every positive chunk size its uncached open gives one and the same group
    up to the chunk size of the image array (C06), and the environment built from that group satisfies `EnvOK` -/
structure ImgOK (fr : FloatRepr) (loads : List Char → Except Err PyVal) (root : String) (fs : Files) (name : String)
    (cg : CGroup) : Prop where
  uncached : ∀ r, 0 < r → uncachedC fr root fs name r = .ok (cg.withRpc r)
  env : EnvOK { U := fun r => cg.withRpc r, loads := loads }

/-- the index files of every image of the product are benign: absent, or a (possibly complete) prefix of a document written
    for THAT image at some chunk size -/
def PInv (loads : List Char → Except Err PyVal) (G : String → CGroup) (imgs : List String) (c : Caches) : Prop :=
  ∀ name ∈ imgs, Inv { U := fun r => (G name).withRpc r, loads := loads } (c.get name)

theorem PInv_empty (loads : List Char → Except Err PyVal) (G : String → CGroup) (imgs : List String) : PInv loads G imgs [] := by
  intro name _
  exact inv_init _

/-- when the uncached open succeeds at `rpc` with the environment's group, `openImageP` is `openImage` -/
theorem openImageP_eq_openImage (E : Env) (U : Nat → Except Err CGroup) (s : CState) (use create : Bool) (rpc : Nat)
    (hU : U rpc = .ok (E.U rpc)) :
    openImageP E.loads U s use create rpc =
      ((openImage E s use create rpc).result, (openImage E s use create rpc).state) := by
  unfold openImageP openImage
  rw [readCache_loads_only E, hU]
  cases use
  · simp
  · simp only [if_true]
    cases hr : readCache E s rpc with
    | ok g => rfl
    | error e => cases e <;> rfl

/-- the loop over the image files: whatever benign index files exist and whatever the options, every image comes back as the
    uncached group at the chunk size of THIS call, the index files stay benign, and nothing is written unless `create_cache` -/
theorem openImagesCached_correct (fr : FloatRepr) (loads : List Char → Except Err PyVal) (root : String) (fs : Files)
    (G : String → CGroup) (all : List String)
    (hok : ∀ name ∈ all, ImgOK fr loads root fs name (G name))
    (imgs : List String) (hsub : ∀ name ∈ imgs, name ∈ all)
    (c : Caches) (hc : PInv loads G all c) (use create : Bool) (rpc : Nat) (hr : 0 < rpc) :
    (openImagesCached fr loads root fs use create rpc imgs c).1 = .ok (imgs.map (fun name => (G name).withRpc rpc)) ∧
    PInv loads G all (openImagesCached fr loads root fs use create rpc imgs c).2 ∧
    (create = false → ∀ n, (openImagesCached fr loads root fs use create rpc imgs c).2.get n = c.get n) ∧
    (∀ n, n ∉ imgs → (openImagesCached fr loads root fs use create rpc imgs c).2.get n = c.get n) ∧
    (∀ n, ((openImagesCached fr loads root fs use create rpc imgs c).2.get n).adj = (c.get n).adj) := by
  induction imgs generalizing c with
  | nil =>
    simp only [openImagesCached, List.map_nil]
    exact ⟨trivial, hc, fun _ _ => trivial, fun _ _ => trivial, fun _ => trivial⟩
  | cons name rest ih =>
    have hmem : name ∈ all := hsub name List.mem_cons_self
    let E : Env := { U := fun r => (G name).withRpc r, loads := loads }
    have hE : EnvOK E := (hok name hmem).env
    have hs : Inv E (c.get name) := hc name hmem
    have hU : uncachedC fr root fs name rpc = .ok (E.U rpc) := (hok name hmem).uncached rpc hr
    have hP := openImageP_eq_openImage E (uncachedC fr root fs name) (c.get name) use create rpc hU
    obtain ⟨hres, hinv⟩ := openImage_correct E hE (c.get name) hs use create rpc
    obtain ⟨hadj, hnc⟩ := openImage_writes E (c.get name) use create rpc
    generalize (openImage E (c.get name) use create rpc).state = s' at hP hinv hadj hnc
    rw [hres] at hP
    have hc' : PInv loads G all (c.set name s') := by
      intro n hn
      by_cases hnn : n = name
      · subst hnn; rw [Caches.get_set_eq]; exact hinv
      · rw [Caches.get_set_ne _ _ _ _ hnn]; exact hc n hn
    obtain ⟨i1, i2, i3, i4, i5⟩ := ih (fun n hn => hsub n (List.mem_cons_of_mem _ hn)) (c.set name s') hc'
    have hstep : openImagesCached fr loads root fs use create rpc (name :: rest) c =
        (match openImagesCached fr loads root fs use create rpc rest (c.set name s') with
          | (.ok gs, c') => (.ok (E.U rpc :: gs), c')
          | (.error e, c') => (.error e, c')) := by
      simp only [openImagesCached]
      have hP' : openImageP loads (uncachedC fr root fs name) (c.get name) use create rpc = (.ok (E.U rpc), s') := hP
      rw [hP']; rfl
    rw [hstep]
    rcases hrec : openImagesCached fr loads root fs use create rpc rest (c.set name s') with ⟨res, cf⟩
    rw [hrec] at i1 i2 i3 i4 i5
    simp only at i1 i2 i3 i4 i5
    subst i1
    simp only [List.map_cons]
    refine ⟨rfl, i2, ?_, ?_, ?_⟩
    · intro hcf n
      rw [i3 hcf n]
      by_cases hnn : n = name
      · subst hnn; rw [Caches.get_set_eq]; exact hnc hcf
      · exact Caches.get_set_ne _ _ _ _ hnn
    · intro n hn
      rw [i4 n (fun h => hn (List.mem_cons_of_mem _ h))]
      exact Caches.get_set_ne _ _ _ _ (fun h => hn (h ▸ List.mem_cons_self))
    · intro n
      rw [i5 n]
      by_cases hnn : n = name
      · subst hnn; rw [Caches.get_set_eq]; exact hadj
      · rw [Caches.get_set_ne _ _ _ _ hnn]

/-- with `use_cache = False` the loop needs nothing of `loads` or of the index files -/
theorem openImagesCached_no_cache (fr : FloatRepr) (loads : List Char → Except Err PyVal) (root : String) (fs : Files)
    (G : String → CGroup) (create : Bool) (rpc : Nat) (imgs : List String)
    (hU : ∀ name ∈ imgs, uncachedC fr root fs name rpc = .ok ((G name).withRpc rpc)) (c : Caches) :
    (openImagesCached fr loads root fs false create rpc imgs c).1 = .ok (imgs.map (fun name => (G name).withRpc rpc)) := by
  induction imgs generalizing c with
  | nil => rfl
  | cons name rest ih =>
    have h1 := hU name List.mem_cons_self
    have hP : ∃ s', openImageP loads (uncachedC fr root fs name) (c.get name) false create rpc =
        (.ok ((G name).withRpc rpc), s') := by
      unfold openImageP
      rw [h1]
      exact ⟨_, rfl⟩
    obtain ⟨s', hP⟩ := hP
    have i1 := ih (fun n hn => hU n (List.mem_cons_of_mem _ hn)) (c.set name s')
    simp only [openImagesCached]
    rw [hP]
    simp only
    rcases hrec : openImagesCached fr loads root fs false create rpc rest (c.set name s') with ⟨res, cf⟩
    rw [hrec] at i1
    simp only at i1
    subst i1
    rfl

/-- a product whose head fails: the same error with and without caches, and no index file is touched -/
theorem openProductCached_head_error (fr : FloatRepr) (loads : List Char → Except Err PyVal) (root : String) (fs : Files)
    (e : Err) (hh : openProductHead fs = .error e) (c : Caches) (use create : Bool) (rpc : Nat) :
    openProductCached fr loads root fs c use create rpc = (.error e, c) := by
  unfold openProductCached
  rw [hh]

/-- ONE OPEN of the product, any options, any benign index files: the tree is the tree of an uncached open at the chunk size of
    this call; the index files stay benign; without `create_cache` no index file changes; the files next to the images never change -/
theorem openProductCached_correct (fr : FloatRepr) (loads : List Char → Except Err PyVal) (root : String) (fs : Files)
    (G : String → CGroup) (ra : KVs Leaf) (su : List (String × SGroup)) (me : Grp Leaf) (imgs : List String)
    (hh : openProductHead fs = .ok (ra, su, me, imgs))
    (hok : ∀ name ∈ imgs, ImgOK fr loads root fs name (G name))
    (c : Caches) (hc : PInv loads G imgs c) (use create : Bool) (rpc : Nat) (hr : 0 < rpc) :
    (openProductCached fr loads root fs c use create rpc).1 = openProductC fr root fs rpc ∧
    (∃ p, openProductC fr root fs rpc = .ok p) ∧
    PInv loads G imgs (openProductCached fr loads root fs c use create rpc).2 ∧
    (create = false → ∀ n, (openProductCached fr loads root fs c use create rpc).2.get n = c.get n) ∧
    (∀ n, ((openProductCached fr loads root fs c use create rpc).2.get n).adj = (c.get n).adj) := by
  obtain ⟨i1, i2, i3, _, i5⟩ := openImagesCached_correct fr loads root fs G imgs hok imgs (fun _ h => h) c hc use create rpc hr
  have j1 := openImagesCached_no_cache fr (fun _ => .error .other) root fs G false rpc imgs
    (fun n hn => (hok n hn).uncached rpc hr) []
  have hC : openProductC fr root fs rpc = .ok (ProductC.mk ra su me
      ((imgs.map (fun name => (G name).withRpc rpc)).foldl (fun acc g => assocSet acc g.name g) [])) := by
    unfold openProductC openProductCached
    rw [hh]
    simp only
    rcases hrec : openImagesCached fr (fun _ => .error .other) root fs false false rpc imgs [] with ⟨res, cf⟩
    rw [hrec] at j1
    simp only at j1
    subst j1
    rfl
  have hP : openProductCached fr loads root fs c use create rpc =
      (.ok (ProductC.mk ra su me
        ((imgs.map (fun name => (G name).withRpc rpc)).foldl (fun acc g => assocSet acc g.name g) [])),
       (openImagesCached fr loads root fs use create rpc imgs c).2) := by
    unfold openProductCached
    rw [hh]
    simp only
    rcases hrec : openImagesCached fr loads root fs use create rpc imgs c with ⟨res, cf⟩
    rw [hrec] at i1
    simp only at i1
    subst i1
    rfl
  rw [hP, hC]
  exact ⟨rfl, ⟨_, rfl⟩, i2, i3, i5⟩


theorem PInv_set (loads : List Char → Except Err PyVal) (G : String → CGroup) (imgs : List String) (c : Caches)
    (hc : PInv loads G imgs c) (name : String) (s : CState)
    (hs : name ∈ imgs → Inv { U := fun r => (G name).withRpc r, loads := loads } s) :
    PInv loads G imgs (c.set name s) := by
  intro n hn
  by_cases hnn : n = name
  · subst hnn; rw [Caches.get_set_eq]; exact hs hn
  · rw [Caches.get_set_ne _ _ _ _ hnn]; exact hc n hn

/-- whatever chunk size the CLI / an interrupted write used, a group it got from an image of the product is one of the `E.U r` -/
theorem uncachedC_ok_is_U (fr : FloatRepr) (loads : List Char → Except Err PyVal) (root : String) (fs : Files)
    (name : String) (cg : CGroup) (hok : ImgOK fr loads root fs name cg) (rpc : Nat) (g : CGroup)
    (hg : uncachedC fr root fs name rpc = .ok g) : g = cg.withRpc rpc := by
  by_cases h0 : rpc = 0
  · subst h0
    obtain ⟨e, he⟩ := uncachedC_rpc_zero fr root fs name
    rw [he] at hg
    cases hg
  · have := hok.uncached rpc (by omega)
    rw [this] at hg
    cases hg
    rfl

/-- one step of a history keeps the index files benign -/
theorem pstep_inv (fr : FloatRepr) (loads : List Char → Except Err PyVal) (root : String) (fs : Files)
    (G : String → CGroup) (ra : KVs Leaf) (su : List (String × SGroup)) (me : Grp Leaf) (imgs : List String)
    (hh : openProductHead fs = .ok (ra, su, me, imgs))
    (hok : ∀ name ∈ imgs, ImgOK fr loads root fs name (G name))
    (c : Caches) (hc : PInv loads G imgs c) (op : POp)
    (hpos : ∀ u cr r, op = POp.open_ u cr r → 0 < r) :
    PInv loads G imgs (pstep fr loads root fs c op).2 := by
  cases op with
  | open_ use create rpc =>
    exact (openProductCached_correct fr loads root fs G ra su me imgs hh hok c hc use create rpc (hpos _ _ _ rfl)).2.2.1
  | cli name rpc =>
    simp only [pstep]
    cases hg : uncachedC fr root fs name rpc with
    | error e => exact hc
    | ok g =>
      refine PInv_set loads G imgs c hc name _ (fun hn => ?_)
      rw [uncachedC_ok_is_U fr loads root fs name (G name) (hok name hn) rpc g hg]
      exact ⟨(hc name hn).1, benign_doc { U := fun r => (G name).withRpc r, loads := loads } rpc⟩
  | delLocal name =>
    exact PInv_set loads G imgs c hc name _ (fun hn => ⟨benign_none _, (hc name hn).2⟩)
  | delAdjacent name =>
    exact PInv_set loads G imgs c hc name _ (fun hn => ⟨(hc name hn).1, benign_none _⟩)
  | crashLocal name rpc k =>
    simp only [pstep]
    cases hg : uncachedC fr root fs name rpc with
    | error e => exact hc
    | ok g =>
      refine PInv_set loads G imgs c hc name _ (fun hn => ?_)
      rw [uncachedC_ok_is_U fr loads root fs name (G name) (hok name hn) rpc g hg]
      exact ⟨benign_take { U := fun r => (G name).withRpc r, loads := loads } rpc k, (hc name hn).2⟩
  | crashAdjacent name rpc k =>
    simp only [pstep]
    cases hg : uncachedC fr root fs name rpc with
    | error e => exact hc
    | ok g =>
      refine PInv_set loads G imgs c hc name _ (fun hn => ?_)
      rw [uncachedC_ok_is_U fr loads root fs name (G name) (hok name hn) rpc g hg]
      exact ⟨(hc name hn).1, benign_take { U := fun r => (G name).withRpc r, loads := loads } rpc k⟩

/-- EVERY HISTORY: after any sequence of opens (any options), CLI runs, deletions and interrupted writes on any of the image
    files, every open returned the tree of a fresh uncached open at its own chunk size -/
theorem prun_correct (fr : FloatRepr) (loads : List Char → Except Err PyVal) (root : String) (fs : Files)
    (G : String → CGroup) (ra : KVs Leaf) (su : List (String × SGroup)) (me : Grp Leaf) (imgs : List String)
    (hh : openProductHead fs = .ok (ra, su, me, imgs))
    (hok : ∀ name ∈ imgs, ImgOK fr loads root fs name (G name))
    (c : Caches) (hc : PInv loads G imgs c) (ops : List POp)
    (hpos : ∀ u cr r, POp.open_ u cr r ∈ ops → 0 < r) :
    ∀ o ∈ (prun fr loads root fs c ops).1, o.2 = openProductC fr root fs o.1 := by
  induction ops generalizing c with
  | nil => intro o ho; simp [prun] at ho
  | cons op ops ih =>
    intro o ho
    have hinv := pstep_inv fr loads root fs G ra su me imgs hh hok c hc op
      (fun u cr r h => hpos u cr r (h ▸ List.mem_cons_self))
    have ih' := ih (pstep fr loads root fs c op).2 hinv (fun u cr r h => hpos u cr r (List.mem_cons_of_mem _ h))
    simp only [prun] at ho
    cases hst : (pstep fr loads root fs c op).1 with
    | none =>
      rw [hst] at ho
      exact ih' o ho
    | some x =>
      rw [hst] at ho
      rcases List.mem_cons.mp ho with rfl | ho'
      · cases op with
        | open_ use create rpc =>
          simp only [pstep, Option.some.injEq] at hst
          subst hst
          exact (openProductCached_correct fr loads root fs G ra su me imgs hh hok c hc use create rpc
            (hpos _ _ _ List.mem_cons_self)).1
        | cli name rpc => simp only [pstep] at hst; split at hst <;> cases hst
        | delLocal name => cases hst
        | delAdjacent name => cases hst
        | crashLocal name rpc k => simp only [pstep] at hst; split at hst <;> cases hst
        | crashAdjacent name rpc k => simp only [pstep] at hst; split at hst <;> cases hst
      · exact ih' o ho'

/-- `ImgOK` DISCHARGED for an image file of the product that is well framed (the hypotheses of C07 `concrete_read_valid` and
    `concrete_group_is_uncached_open`, at every positive chunk size).  STRETCH GOAL: choose the weakest hypotheses under which
    `open_image_bridge_stable` and `concrete_env_ok` (Proofs/Bridge.lean) apply; keep the conclusion. -/
theorem imgOK_concrete (fr : FloatRepr) (hfr : fr.OK) (loads : List Char → Except Err PyVal)
    (hJ1 : ∀ d : PyVal, d.TupleFree = true → d.WF = true → loads (dump d) = .ok d)
    (hJ2 : ∀ t : List Char, (¬ Balanced t ∨ t = []) → ∃ e, loads t = .error e)
    (root : String) (fs : Files) (name : String) (file : Bytes) (hget : fs.get name = some file)
    (gname : String) (g : ImageGroup) (cg : CGroup)
    (h : openImageFile file name 1 = .ok (gname, g)) (hb : bridge fr root name gname g = some cg)
    (header : Val) (recs : List Val) (hr : readImageRecords file 1 = .ok (header, recs)) (hn : 0 < recs.length)
    (hk : (∀ r ∈ recs, IsLineRecord Gen.processedDataRecord r) ∨ (∀ r ∈ recs, IsLineRecord Gen.signalDataRecord r))
    (hd : DatesOK g = true)
    -- well-framedness at every chunk size (what `open_image_bridge_stable` needs)
    (hopen : ∀ r, 0 < r → ∃ n2 g2 hd2 recs2, openImageFile file name r = .ok (n2, g2) ∧ readImageRecords file r = .ok (hd2, recs2) ∧
      ∃ (L : Nat) (t : Nat), 0 < L ∧ intAt header ["sar_data_record_length"] = .ok (L : Int) ∧ (t = 10 ∨ t = 11) ∧
        (∀ x ∈ recs, intAt x ["preamble", "record_length"] = .ok (L : Int)) ∧
        (∀ x ∈ recs, intAt x ["preamble", "record_type"] = .ok (t : Int)) ∧
        (∀ x ∈ recs2, intAt x ["preamble", "record_length"] = .ok (L : Int)) ∧
        (∀ x ∈ recs2, intAt x ["preamble", "record_type"] = .ok (t : Int))) :
    ImgOK fr loads root fs name (cg.withRpc 1) := by
  have hww : ∀ r, (cg.withRpc 1).withRpc r = cg.withRpc r := fun r => BridgeP.group_ww 1 r cg
  refine ⟨?_, ?_⟩
  · intro r hr0
    obtain ⟨n2, g2, hd2, recs2, h2, hr2, L, t, hL, hdrL, ht, hrl1, hty1, hrl2, hty2⟩ := hopen r hr0
    have hb2 := open_image_bridge_stable fr root file name 1 r gname n2 g g2 cg h h2 hb header hd2 recs recs2 hr hr2
      L hL hdrL t ht hrl1 hty1 hrl2 hty2
    unfold uncachedC
    rw [hget]
    simp only [h2, bind, Except.bind, hb2, hww]
    rfl
  · have hE := concrete_env_ok fr hfr loads hJ1 hJ2 root file name gname g cg h hb header recs hr hn hk hd
    have hfun : (fun r => (cg.withRpc 1).withRpc r) = (fun r => cg.withRpc r) := funext hww
    rw [hfun]
    exact hE

end Alos2

/-
J — JSON nesting: a dumped container is balanced, and none of its proper prefixes is.
-/
import Alos2.Model.Json

namespace Alos2

/- all helper definitions and lemmas live in `Alos2.JsonScan` so that they cannot clash with names of
   other modules (`Alos2.run`, `Inv`, ...) -/
namespace JsonScan

/-! ### the scanner as a fold from an arbitrary start state -/

def run (s : ScanState) (cs : List Char) : ScanState := cs.foldl scanStep s

@[simp] theorem run_nil (s : ScanState) : run s [] = s := rfl
@[simp] theorem run_cons (s : ScanState) (c : Char) (cs : List Char) :
    run s (c :: cs) = run (scanStep s c) cs := rfl
theorem run_append (s : ScanState) (a b : List Char) : run s (a ++ b) = run (run s a) b := by
  simp [run, List.foldl_append]

theorem scan_eq_run (cs : List Char) : scan cs = run {} cs := rfl

/-- inside a string, or at depth at least `d` -/
def Inv (d : Nat) (t : ScanState) : Prop := t.inStr = true ∨ d ≤ t.depth

/-- every intermediate state (including both ends) satisfies `Inv d` -/
def AllInv (d : Nat) : ScanState → List Char → Prop
  | s, [] => Inv d s
  | s, c :: cs => Inv d s ∧ AllInv d (scanStep s c) cs

theorem Inv.mono {d d' : Nat} {t : ScanState} (h : d ≤ d') (hi : Inv d' t) : Inv d t := by
  rcases hi with hi | hi
  · exact Or.inl hi
  · exact Or.inr (Nat.le_trans h hi)

theorem AllInv.mono {d d' : Nat} (h : d ≤ d') : ∀ {s : ScanState} {cs : List Char},
    AllInv d' s cs → AllInv d s cs := by
  intro s cs
  induction cs generalizing s with
  | nil => exact Inv.mono h
  | cons c cs ih => exact fun ⟨h1, h2⟩ => ⟨Inv.mono h h1, ih h2⟩

theorem AllInv.head {d : Nat} {s : ScanState} {cs : List Char} (h : AllInv d s cs) : Inv d s := by
  cases cs with
  | nil => exact h
  | cons c cs => exact h.1

theorem allInv_append {d : Nat} {s : ScanState} {a b : List Char} :
    AllInv d s (a ++ b) ↔ AllInv d s a ∧ AllInv d (run s a) b := by
  induction a generalizing s with
  | nil =>
    simp only [List.nil_append, run_nil, AllInv]
    exact ⟨fun h => ⟨h.head, h⟩, fun h => h.2⟩
  | cons c cs ih =>
    simp only [List.cons_append, AllInv, run_cons, ih, and_assoc]

theorem AllInv.prefix {d : Nat} {s : ScanState} {cs p : List Char} (h : AllInv d s cs)
    (hp : p <+: cs) : Inv d (run s p) := by
  obtain ⟨q, rfl⟩ := hp
  have := (allInv_append.1 h).2
  exact this.head

/-! ### single steps -/

theorem scanStep_open {s : ScanState} {c : Char} (hs : s.inStr = false) (hc : c = '[' ∨ c = '{') :
    scanStep s c = { s with depth := s.depth + 1 } := by
  rcases hc with rfl | rfl <;> simp [scanStep, hs]

theorem scanStep_close {s : ScanState} {c : Char} (hs : s.inStr = false) (hc : c = ']' ∨ c = '}')
    (hd : s.depth ≠ 0) : scanStep s c = { s with depth := s.depth - 1 } := by
  rcases hc with rfl | rfl <;> simp [scanStep, hs, hd]

/-- characters the scanner ignores outside strings -/
def plainC (c : Char) : Prop := c ≠ '"' ∧ c ≠ '{' ∧ c ≠ '[' ∧ c ≠ '}' ∧ c ≠ ']'

instance (c : Char) : Decidable (plainC c) := by unfold plainC; infer_instance

theorem scanStep_plain {s : ScanState} {c : Char} (hs : s.inStr = false) (hc : plainC c) :
    scanStep s c = s := by
  obtain ⟨h1, h2, h3, h4, h5⟩ := hc
  simp [scanStep, hs, h1, h2, h3, h4, h5]

/-! ### neutral character sequences -/

/-- from any state outside a string, the sequence restores the state, and never drops below the start
    depth while outside a string -/
def Neutral (cs : List Char) : Prop :=
  ∀ s : ScanState, s.inStr = false → s.esc = false → run s cs = s ∧ AllInv s.depth s cs

theorem Neutral.nil : Neutral [] := fun _ _ _ => ⟨rfl, Or.inr (Nat.le_refl _)⟩

theorem Neutral.append {a b : List Char} (ha : Neutral a) (hb : Neutral b) : Neutral (a ++ b) := by
  intro s h1 h2
  obtain ⟨ra, ia⟩ := ha s h1 h2
  obtain ⟨rb, ib⟩ := hb s h1 h2
  refine ⟨by rw [run_append, ra, rb], allInv_append.2 ⟨ia, by rw [ra]; exact ib⟩⟩

theorem Neutral.plain {cs : List Char} (h : ∀ c ∈ cs, plainC c) : Neutral cs := by
  induction cs with
  | nil => exact Neutral.nil
  | cons c cs ih =>
    intro s h1 h2
    have hc := scanStep_plain h1 (h c (List.mem_cons_self))
    obtain ⟨r, i⟩ := ih (fun c hc => h c (List.mem_cons_of_mem _ hc)) s h1 h2
    exact ⟨by rw [run_cons, hc, r], ⟨Or.inr (Nat.le_refl _), by rw [hc]; exact i⟩⟩

theorem Neutral.bracket {o c : Char} (ho : o = '[' ∨ o = '{') (hc : c = ']' ∨ c = '}')
    {body : List Char} (hb : Neutral body) : Neutral ([o] ++ body ++ [c]) := by
  intro s h1 h2
  have hopen := scanStep_open h1 ho
  obtain ⟨r, i⟩ := hb { s with depth := s.depth + 1 } h1 h2
  have hclose : scanStep { s with depth := s.depth + 1 } c = s := by
    rw [scanStep_close (s := { s with depth := s.depth + 1 }) h1 hc (by simp)]
    cases s; simp
  refine ⟨?_, ?_⟩
  · rw [run_append, run_append]
    simp only [run_cons, run_nil, hopen, r, hclose]
  · rw [allInv_append, allInv_append]
    refine ⟨⟨⟨Or.inr (Nat.le_refl _), ?_⟩, ?_⟩, ?_⟩
    · simp only [hopen]; exact Or.inr (Nat.le_succ _)
    · simp only [run_cons, run_nil, hopen]
      exact AllInv.mono (Nat.le_succ _) i
    · simp only [List.cons_append, List.nil_append, run_cons, hopen, r]
      show Inv _ _ ∧ Inv _ _
      refine ⟨Or.inr (Nat.le_succ _), ?_⟩
      rw [hclose]; exact Or.inr (Nat.le_refl _)

/-- strictness: inside the brackets the scanner is strictly deeper than at the start, or inside a string -/
theorem bracket_strict {o c : Char} (ho : o = '[' ∨ o = '{')
    {body : List Char} (hb : Neutral body) (s : ScanState) (h1 : s.inStr = false) (h2 : s.esc = false)
    (p : List Char) (hp : p <+: [o] ++ body ++ [c]) (hne : p ≠ [o] ++ body ++ [c]) (hnil : p ≠ []) :
    Inv (s.depth + 1) (run s p) := by
  cases p with
  | nil => exact absurd rfl hnil
  | cons a q =>
    simp only [List.cons_append, List.nil_append, List.cons_prefix_cons] at hp
    obtain ⟨rfl, hq⟩ := hp
    rw [List.prefix_concat_iff] at hq
    rcases hq with rfl | hq
    · exact absurd rfl hne
    · rw [run_cons, scanStep_open h1 ho]
      exact ((hb { s with depth := s.depth + 1 } h1 h2).2).prefix hq

/-! ### strings -/

theorem hexDigitC_ne (n : Nat) (h : n < 16) : hexDigitC n ≠ '"' ∧ hexDigitC n ≠ '\\' := by
  revert n; decide

theorem inStr_other (d : Nat) (u : Bool) (c : Char) (h1 : c ≠ '\\') (h2 : c ≠ '"') :
    scanStep ⟨d, true, false, u⟩ c = ⟨d, true, false, u⟩ := by
  simp [scanStep, h1, h2]

theorem inStr_bs (d : Nat) (u : Bool) :
    scanStep ⟨d, true, false, u⟩ '\\' = ⟨d, true, true, u⟩ := by
  simp [scanStep]

theorem inStr_esc (d : Nat) (u : Bool) (c : Char) :
    scanStep ⟨d, true, true, u⟩ c = ⟨d, true, false, u⟩ := by
  simp [scanStep]

theorem inStr_hex4 (d d' : Nat) (u : Bool) (n : Nat) :
    run ⟨d, true, false, u⟩ (hex4 n) = ⟨d, true, false, u⟩ ∧ AllInv d' ⟨d, true, false, u⟩ (hex4 n) := by
  have a := hexDigitC_ne (n / 4096 % 16) (Nat.mod_lt _ (by decide))
  have b := hexDigitC_ne (n / 256 % 16) (Nat.mod_lt _ (by decide))
  have c := hexDigitC_ne (n / 16 % 16) (Nat.mod_lt _ (by decide))
  have e := hexDigitC_ne (n % 16) (Nat.mod_lt _ (by decide))
  simp only [hex4, run_cons, run_nil, AllInv, inStr_other _ _ _ a.2 a.1, inStr_other _ _ _ b.2 b.1,
    inStr_other _ _ _ c.2 c.1, inStr_other _ _ _ e.2 e.1, Inv, true_or, and_self]

theorem inStr_escapeChar (d d' : Nat) (u : Bool) (c : Char) :
    run ⟨d, true, false, u⟩ (escapeChar c) = ⟨d, true, false, u⟩ ∧
      AllInv d' ⟨d, true, false, u⟩ (escapeChar c) := by
  have two : ∀ x : Char, run ⟨d, true, false, u⟩ ['\\', x] = ⟨d, true, false, u⟩ ∧
      AllInv d' ⟨d, true, false, u⟩ ['\\', x] := by
    intro x
    simp only [run_cons, run_nil, AllInv, inStr_bs, inStr_esc, Inv, true_or, and_self]
  have uhex : ∀ n : Nat, run ⟨d, true, false, u⟩ (['\\', 'u'] ++ hex4 n) = ⟨d, true, false, u⟩ ∧
      AllInv d' ⟨d, true, false, u⟩ (['\\', 'u'] ++ hex4 n) := by
    intro n
    rw [run_append, allInv_append, (two 'u').1]
    exact ⟨(inStr_hex4 d d' u n).1, (two 'u').2, (inStr_hex4 d d' u n).2⟩
  unfold escapeChar
  split
  · exact two _
  split
  · exact two _
  split
  · exact two _
  split
  · exact two _
  split
  · exact two _
  split
  · exact two _
  split
  · exact two _
  split
  · split
    · exact uhex _
    · show run _ (['\\', 'u'] ++ hex4 _ ++ ['\\', 'u'] ++ hex4 _) = _ ∧
        AllInv _ _ (['\\', 'u'] ++ hex4 _ ++ ['\\', 'u'] ++ hex4 _)
      rw [List.append_assoc (['\\', 'u'] ++ hex4 _), run_append, allInv_append, (uhex _).1]
      exact ⟨(uhex _).1, (uhex _).2, (uhex _).2⟩
  · rename_i h1 h2 _ _ _ _ _ _
    simp only [run_cons, run_nil, AllInv, inStr_other _ _ _ h2 h1, Inv, true_or, and_self]

theorem inStr_flatMap (d d' : Nat) (u : Bool) (cs : List Char) :
    run ⟨d, true, false, u⟩ (cs.flatMap escapeChar) = ⟨d, true, false, u⟩ ∧
      AllInv d' ⟨d, true, false, u⟩ (cs.flatMap escapeChar) := by
  induction cs with
  | nil => exact ⟨rfl, Or.inl rfl⟩
  | cons c cs ih =>
    rw [List.flatMap_cons, run_append, allInv_append, (inStr_escapeChar d d' u c).1]
    exact ⟨ih.1, (inStr_escapeChar d d' u c).2, ih.2⟩

theorem Neutral.dumpStr (str : String) : Neutral (dumpStr str) := by
  intro s h1 h2
  obtain ⟨d, i, e, u⟩ := s
  simp only at h1 h2
  subst h1 h2
  have hq : scanStep ⟨d, false, false, u⟩ '"' = ⟨d, true, false, u⟩ := by simp [scanStep]
  have hq' : scanStep ⟨d, true, false, u⟩ '"' = ⟨d, false, false, u⟩ := by simp [scanStep]
  obtain ⟨r, a⟩ := inStr_flatMap d d u str.toList
  unfold Alos2.dumpStr
  rw [run_append, run_append, allInv_append, allInv_append]
  have r' : run ⟨d, false, false, u⟩ (['"'] ++ str.toList.flatMap escapeChar) = ⟨d, true, false, u⟩ := by
    rw [run_append]; simp only [run_cons, run_nil, hq, r]
  simp only [r', r, run_cons, run_nil, hq, hq', AllInv, Inv, Nat.le_refl, or_true, and_self, a]

/-! ### separators and items -/

theorem Neutral.intersperse2 {sep : List Char} (hsep : Neutral sep) :
    ∀ {items : List (List Char)}, (∀ x ∈ items, Neutral x) → Neutral (intersperse2 sep items)
  | [], _ => Neutral.nil
  | [x], h => h x (List.mem_cons_self)
  | x :: y :: rest, h => by
    rw [Alos2.intersperse2.eq_3 _ _ _ (by simp)]
    exact ((h x List.mem_cons_self).append hsep).append
      (Neutral.intersperse2 hsep (fun z hz => h z (List.mem_cons_of_mem _ hz)))

theorem neutral_commaSpace : Neutral [',', ' '] := Neutral.plain (by decide)
theorem neutral_colonSpace : Neutral [':', ' '] := Neutral.plain (by decide)

/-! ### scalars -/

theorem plainC_of_isDigit {c : Char} (h : c.isDigit = true) : plainC c := by
  unfold plainC
  refine ⟨?_, ?_, ?_, ?_, ?_⟩ <;> (rintro rfl; revert h; decide)

theorem plainC_of_floatChar {c : Char} (h : floatChar c = true) : plainC c := by
  unfold plainC
  refine ⟨?_, ?_, ?_, ?_, ?_⟩ <;> (rintro rfl; revert h; decide)

theorem plainC_natRepr (n : Nat) : ∀ c ∈ (Nat.repr n).toList, plainC c := by
  intro c hc
  rw [Nat.toList_repr] at hc
  exact plainC_of_isDigit (Nat.isDigit_of_mem_toDigits (by decide) (by decide) hc)

theorem plainC_intToString (i : Int) : ∀ c ∈ (toString i).toList, plainC c := by
  show ∀ c ∈ (Int.repr i).toList, plainC c
  cases i with
  | ofNat m => exact plainC_natRepr m
  | negSucc m =>
    intro c hc
    simp only [Int.repr, String.toList_append, List.mem_append] at hc
    rcases hc with hc | hc
    · have : c = '-' := by simpa using hc
      subst this; decide
    · exact plainC_natRepr _ c hc

/-! ### the main induction -/

mutual
theorem neutral_dump : (v : PyVal) → v.WF = true → Neutral (dump v)
  | .none, _ => by rw [dump]; exact Neutral.plain (by decide)
  | .bool true, _ => by rw [dump]; exact Neutral.plain (by decide)
  | .bool false, _ => by rw [dump]; exact Neutral.plain (by decide)
  | .int i, _ => by rw [dump]; exact Neutral.plain (plainC_intToString i)
  | .float t, h => by
    rw [dump]
    simp only [PyVal.WF, Bool.and_eq_true, List.all_eq_true] at h
    exact Neutral.plain (fun c hc => plainC_of_floatChar (h.2 c hc))
  | .str s, _ => by rw [dump]; exact Neutral.dumpStr s
  | .list xs, h => by
    rw [dump]
    rw [PyVal.WF] at h
    exact Neutral.bracket (Or.inl rfl) (Or.inl rfl)
      (Neutral.intersperse2 neutral_commaSpace (neutral_dumpList xs h))
  | .tuple xs, h => by
    rw [dump]
    rw [PyVal.WF] at h
    exact Neutral.bracket (Or.inl rfl) (Or.inl rfl)
      (Neutral.intersperse2 neutral_commaSpace (neutral_dumpList xs h))
  | .dict kvs, h => by
    rw [dump]
    rw [PyVal.WF] at h
    exact Neutral.bracket (Or.inr rfl) (Or.inr rfl)
      (Neutral.intersperse2 neutral_commaSpace (neutral_dumpKvs kvs h))
theorem neutral_dumpList : (xs : List PyVal) → wfList xs = true → ∀ x ∈ dumpList xs, Neutral x
  | [], _ => by rw [dumpList]; intro x hx; cases hx
  | v :: vs, h => by
    rw [dumpList]
    rw [wfList, Bool.and_eq_true] at h
    intro x hx
    rcases List.mem_cons.1 hx with rfl | hx
    · exact neutral_dump v h.1
    · exact neutral_dumpList vs h.2 x hx
theorem neutral_dumpKvs : (kvs : List (String × PyVal)) → wfKvs kvs = true →
    ∀ x ∈ dumpKvs kvs, Neutral x
  | [], _ => by rw [dumpKvs]; intro x hx; cases hx
  | (k, v) :: rest, h => by
    rw [dumpKvs]
    rw [wfKvs, Bool.and_eq_true] at h
    intro x hx
    rcases List.mem_cons.1 hx with rfl | hx
    · exact ((Neutral.dumpStr k).append neutral_colonSpace).append (neutral_dump v h.1)
    · exact neutral_dumpKvs rest h.2 x hx
end

/-- the body between the brackets of a dumped container -/
theorem dump_container (v : PyVal) (hv : v.WF = true) (hc : v.isContainer = true) :
    ∃ o c body, (o = '[' ∨ o = '{') ∧ Neutral body ∧ dump v = [o] ++ body ++ [c] := by
  cases v with
  | list xs =>
    rw [PyVal.WF] at hv
    exact ⟨'[', ']', _, Or.inl rfl,
      Neutral.intersperse2 neutral_commaSpace (neutral_dumpList xs hv), by rw [dump]⟩
  | tuple xs =>
    rw [PyVal.WF] at hv
    exact ⟨'[', ']', _, Or.inl rfl,
      Neutral.intersperse2 neutral_commaSpace (neutral_dumpList xs hv), by rw [dump]⟩
  | dict kvs =>
    rw [PyVal.WF] at hv
    exact ⟨'{', '}', _, Or.inr rfl,
      Neutral.intersperse2 neutral_commaSpace (neutral_dumpKvs kvs hv), by rw [dump]⟩
  | _ => simp [PyVal.isContainer] at hc

end JsonScan

open JsonScan in
/-- `json.dumps` of a well-formed value leaves the scanner balanced -/
theorem dump_balanced (v : PyVal) (hv : v.WF = true) : Balanced (dump v) := by
  have h := (neutral_dump v hv {} rfl rfl).1
  unfold Balanced
  rw [scan_eq_run, h]
  exact ⟨rfl, rfl, rfl⟩

open JsonScan in
/-- no proper prefix of a dumped container (dict / list) is balanced: it ends inside a string or with an
    unclosed bracket (the empty prefix is excluded separately: it is not a document at all) -/
theorem prefix_not_balanced (v : PyVal) (hv : v.WF = true) (hc : v.isContainer = true)
    (p : List Char) (hp : p <+: dump v) (hne : p ≠ dump v) (hnil : p ≠ []) : ¬ Balanced p := by
  obtain ⟨o, c, body, ho, hb, e⟩ := dump_container v hv hc
  rw [e] at hp hne
  have h := bracket_strict ho hb {} rfl rfl p hp hne hnil
  intro ⟨b1, b2, _⟩
  rw [scan_eq_run] at b1 b2
  rcases h with h | h
  · rw [b2] at h; cases h
  · rw [b1] at h; exact absurd h (by decide)

end Alos2

/-
Cache-first open: correctness of every open under the two JSON contracts and the codec round trip.
-/
import Alos2.Model.CacheFlow
import Alos2.Proofs.Json
import Alos2.Proofs.Codec

namespace Alos2

/-- what is assumed about the environment of one image -/
structure EnvOK (E : Env) : Prop where
  /-- the uncached group depends on `records_per_chunk` only through its image arrays (C06) -/
  stable : ∀ r r', (E.U r).withRpc r' = E.U r'
  /-- every uncached group is in the codec domain (C08) -/
  domain : ∀ r, (E.U r).InDomain domainFuel = true
  /-- float tokens of the uncached groups are float literals -/
  wf : ∀ r, (encodeGroup (E.U r)).WF = true
  /-- contract J1: `json.loads` inverts `json.dumps` on tuple-free values -/
  loads_dump : ∀ d : PyVal, d.TupleFree = true → d.WF = true → E.loads (dump d) = .ok d
  /-- contract J2: `json.loads` rejects the empty text and text whose brackets / strings are not balanced -/
  loads_unbalanced : ∀ t : List Char, (¬ Balanced t ∨ t = []) → ∃ e, E.loads t = .error e

/-- a cache file is *benign*: a (possibly complete) prefix of a document written for this image at some rpc -/
def Benign (E : Env) (file : Option (List Char)) : Prop :=
  ∀ t, file = some t → ∃ rw k, t = (docText (E.U rw)).take k

def Inv (E : Env) (s : CState) : Prop := Benign E s.loc ∧ Benign E s.adj

theorem encodeDoc_wf (E : Env) (h : EnvOK E) (rw : Nat) : (encodeDoc (E.U rw)).WF = true := by
  unfold encodeDoc
  exact preprocess_wf _ (h.wf rw)

/-- decoding a complete document gives the uncached group at the rpc of the *reading* call -/
theorem decodeText_complete (E : Env) (h : EnvOK E) (rw r : Nat) :
    decodeText E (docText (E.U rw)) r = .ok (E.U r) := by
  unfold decodeText docText
  rw [h.loads_dump _ (encodeDoc_shape _).1 (encodeDoc_wf E h rw)]
  simp only
  rw [decode_encode _ (h.domain rw) r, h.stable]

/-- decoding a torn document (proper prefix) is a `CachingError` -/
theorem decodeText_torn (E : Env) (h : EnvOK E) (rw k r : Nat) (hk : k < (docText (E.U rw)).length) :
    decodeText E ((docText (E.U rw)).take k) r = .error .caching := by
  have hbad : ¬ Balanced ((docText (E.U rw)).take k) ∨ (docText (E.U rw)).take k = [] := by
    by_cases hnil : (docText (E.U rw)).take k = []
    · exact Or.inr hnil
    · left
      refine prefix_not_balanced (encodeDoc (E.U rw)) (encodeDoc_wf E h rw) (encodeDoc_shape _).2 _
        (List.take_prefix _ _) ?_ hnil
      intro heq
      have hl := congrArg List.length heq
      rw [List.length_take] at hl
      unfold docText at hk hl
      omega
  obtain ⟨e, he⟩ := h.loads_unbalanced _ hbad
  unfold decodeText
  rw [he]

/-- decoding any benign text gives the right group or a caching error -/
theorem decodeText_benign (E : Env) (h : EnvOK E) (rw k r : Nat) :
    decodeText E ((docText (E.U rw)).take k) r = .ok (E.U r) ∨
    decodeText E ((docText (E.U rw)).take k) r = .error .caching := by
  by_cases hk : k < (docText (E.U rw)).length
  · exact Or.inr (decodeText_torn E h rw k r hk)
  · left
    rw [List.take_of_length_le (by omega)]
    exact decodeText_complete E h rw r

theorem benign_doc (E : Env) (r : Nat) : Benign E (some (docText (E.U r))) := by
  intro t ht
  cases ht
  exact ⟨r, (docText (E.U r)).length, (List.take_length).symm⟩

theorem benign_take (E : Env) (r k : Nat) : Benign E (some ((docText (E.U r)).take k)) := by
  intro t ht
  cases ht
  exact ⟨r, k, rfl⟩

theorem benign_none (E : Env) : Benign E none := by
  intro t ht
  cases ht

theorem readCache_benign (E : Env) (h : EnvOK E) (s : CState) (hs : Inv E s) (r : Nat) :
    readCache E s r = .ok (E.U r) ∨ readCache E s r = .error .caching := by
  obtain ⟨hl, ha⟩ := hs
  unfold readCache
  cases hloc : s.loc with
  | some t =>
    obtain ⟨rw, k, rfl⟩ := hl t hloc
    exact decodeText_benign E h rw k r
  | none =>
    cases hadj : s.adj with
    | some t =>
      obtain ⟨rw, k, rfl⟩ := ha t hadj
      exact decodeText_benign E h rw k r
    | none => exact Or.inr rfl

/-- **open is correct in every benign state** -/
theorem openImage_correct (E : Env) (h : EnvOK E) (s : CState) (hs : Inv E s) (use create : Bool) (r : Nat) :
    (openImage E s use create r).result = .ok (E.U r) ∧ Inv E (openImage E s use create r).state := by
  have hfb : Inv E (if create then { s with loc := some (docText (E.U r)) } else s) := by
    cases create
    · exact hs
    · exact ⟨benign_doc E r, hs.2⟩
  unfold openImage
  cases use
  · exact ⟨rfl, hfb⟩
  · rcases readCache_benign E h s hs r with hr | hr
    · simp only [hr, if_true]
      exact ⟨trivial, hs⟩
    · simp only [hr, if_true]
      exact ⟨trivial, hfb⟩

/-- with `use_cache = False` no cache is consulted: the result is the parse, whatever the files contain -/
theorem openImage_no_cache (E : Env) (s : CState) (create : Bool) (r : Nat) :
    (openImage E s false create r).result = .ok (E.U r) ∧ (openImage E s false create r).source = some .parsed := by
  exact ⟨rfl, rfl⟩

/-- a complete document in the user cache dir is used (the image is not re-parsed); else one next to the image -/
theorem openImage_uses_cache (E : Env) (h : EnvOK E) (s : CState) (rw r : Nat) (create : Bool) :
    (s.loc = some (docText (E.U rw)) → (openImage E s true create r).source = some .cacheLocal) ∧
    (s.loc = none → s.adj = some (docText (E.U rw)) → (openImage E s true create r).source = some .cacheAdjacent) ∧
    (s.loc = none → s.adj = none → (openImage E s true create r).source = some .parsed) := by
  refine ⟨?_, ?_, ?_⟩
  · intro hloc
    have hr : readCache E s r = .ok (E.U r) := by
      unfold readCache
      rw [hloc]
      exact decodeText_complete E h rw r
    unfold openImage
    simp [hr, hloc]
  · intro hloc hadj
    have hr : readCache E s r = .ok (E.U r) := by
      unfold readCache
      rw [hloc, hadj]
      exact decodeText_complete E h rw r
    unfold openImage
    simp [hr, hloc]
  · intro hloc hadj
    have hr : readCache E s r = .error .caching := by
      unfold readCache
      rw [hloc, hadj]
    unfold openImage
    simp [hr]

/-- opening writes nothing unless asked to, and then only the index in the user cache dir -/
theorem openImage_writes (E : Env) (s : CState) (use create : Bool) (r : Nat) :
    (openImage E s use create r).state.adj = s.adj ∧
    (create = false → (openImage E s use create r).state = s) := by
  unfold openImage
  cases use
  · cases create <;> simp
  · cases hr : readCache E s r with
    | ok g => simp
    | error e => cases e <;> cases create <;> simp

/-- after a crash left a torn index in the user cache dir, an open with `create_cache=True` repairs it -/
theorem openImage_repairs (E : Env) (h : EnvOK E) (s : CState) (rw k r : Nat) (hk : k < (docText (E.U rw)).length)
    (hloc : s.loc = some ((docText (E.U rw)).take k)) :
    (openImage E s true true r).state.loc = some (docText (E.U r)) := by
  have hr : readCache E s r = .error .caching := by
    unfold readCache
    rw [hloc]
    exact decodeText_torn E h rw k r hk
  unfold openImage
  simp [hr]

/-- every step preserves the invariant -/
theorem step_inv (E : Env) (h : EnvOK E) (s : CState) (hs : Inv E s) (op : Op) : Inv E (step E s op).2 := by
  cases op with
  | open_ use create rpc => exact (openImage_correct E h s hs use create rpc).2
  | cli rpc => exact ⟨hs.1, benign_doc E rpc⟩
  | delLocal => exact ⟨benign_none E, hs.2⟩
  | delAdjacent => exact ⟨hs.1, benign_none E⟩
  | crashLocal rpc k => exact ⟨benign_take E rpc k, hs.2⟩
  | crashAdjacent rpc k => exact ⟨hs.1, benign_take E rpc k⟩

theorem step_out (E : Env) (h : EnvOK E) (s : CState) (hs : Inv E s) (op : Op) :
    ∀ x, (step E s op).1 = some x → x.2 = .ok (E.U x.1) := by
  intro x hx
  cases op with
  | open_ use create rpc =>
    simp only [step, Option.some.injEq] at hx
    subst hx
    exact (openImage_correct E h s hs use create rpc).1
  | cli rpc => simp [step] at hx
  | delLocal => simp [step] at hx
  | delAdjacent => simp [step] at hx
  | crashLocal rpc k => simp [step] at hx
  | crashAdjacent rpc k => simp [step] at hx

/-- **history independence**: in any history of opens (any mix of options), CLI cache creations, deletions and
    interrupted cache writes, every open returns the uncached group of its own `records_per_chunk` -/
theorem run_correct (E : Env) (h : EnvOK E) (s : CState) (hs : Inv E s) (ops : List Op) :
    ∀ o ∈ (run E s ops).1, o.2 = .ok (E.U o.1) := by
  induction ops generalizing s with
  | nil => intro o ho; simp [run] at ho
  | cons op ops ih =>
    intro o ho
    have hinv := step_inv E h s hs op
    have hout := step_out E h s hs op
    have ih' := ih (step E s op).2 hinv
    simp only [run] at ho
    cases hst : (step E s op).1 with
    | none =>
      rw [hst] at ho
      exact ih' o ho
    | some x =>
      rw [hst] at ho
      rcases List.mem_cons.mp ho with rfl | ho'
      · exact hout _ hst
      · exact ih' o ho'

theorem inv_init (E : Env) : Inv E {} := ⟨benign_none E, benign_none E⟩

end Alos2

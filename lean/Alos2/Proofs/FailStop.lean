/-
Fail-stop on the LAYOUT-based image reader (C18): the records a successful metadata pass returns all lie inside the file,
there are never more than the header declares, and fewer than declared are returned only when the file ends exactly after the
last returned record — so an image file cut short can never yield its declared number of line records.
-/
import Alos2.Proofs.RpcIndep

namespace Alos2

open RpcIndep Layout LineAddr in
theorem readImageRecords_within_file (file : Bytes) (rpc : Nat) (header : Val) (recs : List Val)
    (h : readImageRecords file rpc = .ok (header, recs))
    (n L : Nat) (hL : 0 < L)
    (hdrn : intAt header ["number_of_sar_data_records"] = .ok (n : Int))
    (hdrL : intAt header ["sar_data_record_length"] = .ok (L : Int))
    (t : Nat)
    (hrl : ∀ r ∈ recs, intAt r ["preamble", "record_length"] = .ok (L : Int))
    (hty : ∀ r ∈ recs, intAt r ["preamble", "record_type"] = .ok (t : Int)) :
    recs.length ≤ n ∧
    (0 < recs.length → 720 + recs.length * L ≤ file.length) ∧
    (recs.length < n → file.length = 720 + recs.length * L) := by
  unfold readImageRecords at h
  simp only [bind_ok] at h
  obtain ⟨hd, e1, n', en, L', eL, h⟩ := h
  split at h
  · simp only [bind_ok] at h
    obtain ⟨_, h, -⟩ := h
    cases h
  rename_i hrpc
  simp only [bind_ok, pure_ok] at h
  obtain ⟨r, h, heq⟩ := h
  simp only [Prod.mk.injEq] at heq
  obtain ⟨rfl, rfl⟩ := heq
  rw [hdrL] at eL
  cases eL
  rw [hdrn] at en
  cases en
  have h0 : chunkOffsets (if (n : Int) ≤ 0 then [] else chunkSizes (n : Int).toNat rpc) 1 =
      chunkOffsets.go 1 0 (if (n : Int) ≤ 0 then [] else chunkSizes (n : Int).toNat rpc) := rfl
  rw [h0, show (720 : Nat) = 720 + 0 * L by omega] at h
  obtain ⟨-, a2, a3, a4⟩ := RpcIndep.readChunks_canon file L hL t _ 0 r h hrl hty
  have hsum : (if (n : Int) ≤ 0 then [] else chunkSizes (n : Int).toNat rpc).sum = n := by
    split
    · simp; omega
    · rw [chunkSizes_sum _ _ (by omega)]; exact Int.toNat_natCast n
  rw [hsum] at a2 a3
  refine ⟨a2, ?_, ?_⟩
  · intro hp
    have := a4 hp
    omega
  · intro hlt
    have := a3 hlt
    omega

/-- a cut file never yields the declared number of records -/
theorem truncated_never_complete (file : Bytes) (rpc : Nat) (header : Val) (recs : List Val)
    (h : readImageRecords file rpc = .ok (header, recs))
    (n L : Nat) (hL : 0 < L) (hn : 0 < n)
    (hdrn : intAt header ["number_of_sar_data_records"] = .ok (n : Int))
    (hdrL : intAt header ["sar_data_record_length"] = .ok (L : Int))
    (t : Nat)
    (hrl : ∀ r ∈ recs, intAt r ["preamble", "record_length"] = .ok (L : Int))
    (hty : ∀ r ∈ recs, intAt r ["preamble", "record_type"] = .ok (t : Int))
    (hshort : file.length < 720 + n * L) : recs.length < n := by
  obtain ⟨a1, a2, -⟩ := readImageRecords_within_file file rpc header recs h n L hL hdrn hdrL t hrl hty
  rcases Nat.lt_or_ge recs.length n with hlt | hge
  · exact hlt
  · exfalso
    have he : recs.length = n := by omega
    have := a2 (by omega)
    rw [he] at this
    omega

end Alos2

/-
Shape of parsed records: a value parsed by a layout with literal counts has exactly the path skeleton the
layout prescribes (whatever the bytes), its dictionaries have unique keys, and it equals its own path
skeleton with every path looked up again.
-/
import Alos2.Model.Sym
import Std.Data.String.ToNat

namespace Alos2

mutual
/-- dictionaries inside the value have pairwise distinct keys -/
def Val.UniqueKeys : Val → Bool
  | .leaf _ => true
  | .list xs => uniqueKeysList xs
  | .dict kvs => (kvs.map Prod.fst).Nodup && uniqueKeysKvs kvs
  | .tup v _ => v.UniqueKeys
def uniqueKeysList : List Val → Bool
  | [] => true
  | x :: xs => x.UniqueKeys && uniqueKeysList xs
def uniqueKeysKvs : List (String × Val) → Bool
  | [] => true
  | (_, v) :: rest => v.UniqueKeys && uniqueKeysKvs rest
end

namespace Shape

/-! ### helpers: the `Except` monad, results of the leaf adapters -/

theorem bind_ok {α β : Type} {x : Except Err α} {f : α → Except Err β} {b : β} :
    (x >>= f) = .ok b ↔ ∃ a, x = .ok a ∧ f a = .ok b := by
  cases x <;> simp [bind, Except.bind]

theorem pure_ok {α : Type} {a b : α} : (pure a : Except Err α) = .ok b ↔ a = b := by
  simp [pure, Except.pure]

theorem applyFactor_ok {f : String} {v w : Val} (h : applyFactor f v = .ok w) :
    (∃ l, v = .leaf l) ∧ ∃ l, w = .leaf l := by
  unfold applyFactor at h
  split at h
  · simp at h; exact ⟨⟨_, rfl⟩, ⟨_, h.symm⟩⟩
  · simp at h; exact ⟨⟨_, rfl⟩, ⟨_, h.symm⟩⟩
  · simp at h

theorem enumLookup_ok {t : List (String × String)} {v w : Val} (h : enumLookup t v = .ok w) :
    (∃ l, v = .leaf l) ∧ ∃ l, w = .leaf l := by
  unfold enumLookup at h
  split at h
  · refine ⟨⟨_, rfl⟩, ?_⟩
    split at h <;> (simp at h; exact ⟨_, h.symm⟩)
  · refine ⟨⟨_, rfl⟩, ?_⟩
    split at h
    · simp at h; exact ⟨_, h.symm⟩
    · split at h
      · simp at h
      · split at h
        · simp at h; exact ⟨_, h.symm⟩
        · simp at h
  · simp at h

theorem mkYdms_ok {v w : Val} (h : mkYdms v = .ok w) : ∃ l, w = .leaf l := by
  unfold mkYdms at h
  split at h
  · split at h
    · simp at h
    · split at h
      · simp at h
      · dsimp only at h
        split at h
        · simp at h
        · simp at h; exact ⟨_, h.symm⟩
  · simp at h

theorem mkYdus_ok {r : Option Val} {v w : Val} (h : mkYdus r v = .ok w) : ∃ l, w = .leaf l := by
  unfold mkYdus at h
  split at h
  · dsimp only at h
    split at h
    · simp at h
    · simp at h; exact ⟨_, h.symm⟩
  · simp at h

/-- what a successful parse of a non-container layout returns -/
theorem parseMany_ok (p : Nat → Except Err (Val × Nat)) (Q : Val → Prop)
    (hp : ∀ pos v pos', p pos = .ok (v, pos') → Q v) :
    ∀ (n pos : Nat) (vs : List Val) (pos' : Nat), parseMany p n pos = .ok (vs, pos') →
      vs.length = n ∧ ∀ x ∈ vs, Q x := by
  intro n
  induction n with
  | zero => intro pos vs pos' h; simp [parseMany] at h; simp [h.1]
  | succ n ih =>
    intro pos vs pos' h
    rw [parseMany] at h
    simp only [bind_ok, pure_ok] at h
    obtain ⟨⟨v1, p1⟩, h1, ⟨vs2, p2⟩, h2, h3⟩ := h
    simp at h3
    obtain ⟨rfl, rfl⟩ := h3
    obtain ⟨e1, e2⟩ := ih _ _ _ h2
    refine ⟨by simp [e1], ?_⟩
    intro x hx
    simp at hx
    rcases hx with rfl | hx
    · exact hp _ _ _ h1
    · exact e2 x hx

/-! ### unique keys -/

theorem uniqueKeysKvs_iff (kvs : List (String × Val)) :
    uniqueKeysKvs kvs = true ↔ ∀ kv ∈ kvs, kv.2.UniqueKeys = true := by
  induction kvs with
  | nil => simp [uniqueKeysKvs]
  | cons a l ih => obtain ⟨k, v⟩ := a; simp [uniqueKeysKvs, ih]

theorem uniqueKeysList_iff (xs : List Val) :
    uniqueKeysList xs = true ↔ ∀ x ∈ xs, x.UniqueKeys = true := by
  induction xs with
  | nil => simp [uniqueKeysList]
  | cons a l ih => simp [uniqueKeysList, ih]

/-- a context level whose keys are distinct and whose values have unique keys -/
def LvlOK (lvl : List (String × Val)) : Prop :=
  (lvl.map Prod.fst).Nodup ∧ ∀ kv ∈ lvl, kv.2.UniqueKeys = true

theorem LvlOK_nil : LvlOK [] := by simp [LvlOK]

theorem LvlOK_setField {lvl : List (String × Val)} (name : String) {v : Val} (h : LvlOK lvl)
    (hv : v.UniqueKeys = true) : LvlOK (setField lvl name v) := by
  obtain ⟨h1, h2⟩ := h
  unfold setField
  split
  · constructor
    · have : (lvl.map (fun kv => if kv.1 = name then (name, v) else kv)).map Prod.fst = lvl.map Prod.fst := by
        rw [List.map_map]
        apply List.map_congr_left
        intro a _
        simp only [Function.comp]
        split <;> simp_all
      rw [this]; exact h1
    · intro kv hkv
      simp only [List.mem_map] at hkv
      obtain ⟨a, ha, rfl⟩ := hkv
      split
      · exact hv
      · exact h2 a ha
  · rename_i hex
    constructor
    · simp only [List.map_cons, List.nodup_cons]
      refine ⟨?_, h1⟩
      simp at hex ⊢
      intro x hx
      exact hex _ hx
    · intro kv hkv
      simp only [List.mem_cons] at hkv
      rcases hkv with rfl | hkv
      · exact hv
      · exact h2 kv hkv

theorem LvlOK_dict {lvl : List (String × Val)} (h : LvlOK lvl) : (Val.dict lvl.reverse).UniqueKeys = true := by
  obtain ⟨h1, h2⟩ := h
  rw [Val.UniqueKeys]
  simp only [Bool.and_eq_true, decide_eq_true_eq]
  constructor
  · rw [List.map_reverse]; exact (List.reverse_perm _).nodup_iff.mpr h1
  · rw [uniqueKeysKvs_iff]
    intro kv hkv
    exact h2 kv (List.mem_reverse.mp hkv)

theorem leaf_uniqueKeys {v : Val} (h : ∃ l, v = .leaf l) : v.UniqueKeys = true := by
  obtain ⟨l, rfl⟩ := h; rw [Val.UniqueKeys]

theorem uniqueKeys_joint :
    (∀ (c : Con) (ctx : Ctx) (bs : Bytes) (pos : Nat), ∀ v pos',
        parse c ctx bs pos = .ok (v, pos') → v.UniqueKeys = true) ∧
    (∀ (fs : List (String × Con)) (ctx : Ctx) (bs : Bytes) (pos : Nat), ∀ v pos',
        LvlOK (ctx.headD []) → parseFields fs ctx bs pos = .ok (v, pos') → v.UniqueKeys = true) := by
  apply parse.mutual_induct
  case case1 =>
    intro fs ctx bs pos ih v pos' h
    rw [parse] at h
    exact ih v pos' LvlOK_nil h
  case case2 =>
    intro n ctx bs pos v pos' h
    rw [parse] at h
    simp only [bind_ok, pure_ok] at h
    obtain ⟨raw, h1, h2⟩ := h
    simp at h2
    exact leaf_uniqueKeys ⟨_, h2.1.symm⟩
  case case3 =>
    intro e ctx bs pos v pos' h
    rw [parse] at h
    simp only [bind_ok, pure_ok] at h
    obtain ⟨n, h0, raw, h1, lf, _, h2⟩ := h
    simp at h2
    exact leaf_uniqueKeys ⟨_, h2.1.symm⟩
  case case4 =>
    intro e ctx bs pos v pos' h
    rw [parse] at h
    simp only [bind_ok, pure_ok] at h
    obtain ⟨n, h0, raw, h1, lf, _, h2⟩ := h
    simp at h2
    exact leaf_uniqueKeys ⟨_, h2.1.symm⟩
  case case5 =>
    intro e ctx bs pos v pos' h
    rw [parse] at h
    simp only [bind_ok, pure_ok] at h
    obtain ⟨n, h0, raw, h1, lf, _, raw2, h3, lf2, _, h2⟩ := h
    simp at h2
    exact leaf_uniqueKeys ⟨_, h2.1.symm⟩
  case case6 =>
    intro e ctx bs pos v pos' h
    rw [parse] at h
    simp only [bind_ok, pure_ok] at h
    obtain ⟨n, h0, raw, h1, lf, _, h2⟩ := h
    simp at h2
    exact leaf_uniqueKeys ⟨_, h2.1.symm⟩
  case case7 =>
    intro e ctx bs pos v pos' h
    rw [parse] at h
    simp only [bind_ok, pure_ok] at h
    obtain ⟨n, h0, raw, h1, h2⟩ := h
    simp at h2
    exact leaf_uniqueKeys ⟨_, h2.1.symm⟩
  case case8 =>
    intro count elem ctx bs pos ih v pos' h
    rw [parse] at h
    simp only [bind_ok, pure_ok] at h
    obtain ⟨n, h0, ⟨vs, p1⟩, h1, h2⟩ := h
    simp at h2
    obtain ⟨rfl, rfl⟩ := h2
    have := (parseMany_ok (fun p => parse elem ctx bs p) (fun x => x.UniqueKeys = true)
      (fun p v p' hh => ih p v p' hh) n pos vs p1 h1).2
    rw [Val.UniqueKeys, uniqueKeysList_iff]
    exact this
  case case9 =>
    intro f sub ctx bs pos ih v pos' h
    rw [parse] at h
    simp only [bind_ok, pure_ok] at h
    obtain ⟨⟨v1, p1⟩, h1, w, hw, h2⟩ := h
    simp at h2
    obtain ⟨rfl, rfl⟩ := h2
    exact leaf_uniqueKeys (applyFactor_ok hw).2
  case case10 =>
    intro attrs sub ctx bs pos ih v pos' h
    rw [parse] at h
    simp only [bind_ok, pure_ok] at h
    obtain ⟨⟨v1, p1⟩, h1, h2⟩ := h
    simp at h2
    obtain ⟨rfl, rfl⟩ := h2
    rw [Val.UniqueKeys]
    exact ih v1 _ h1
  case case11 =>
    intro table sub ctx bs pos ih v pos' h
    rw [parse] at h
    simp only [bind_ok, pure_ok] at h
    obtain ⟨⟨v1, p1⟩, h1, w, hw, h2⟩ := h
    simp at h2
    obtain ⟨rfl, rfl⟩ := h2
    exact leaf_uniqueKeys (enumLookup_ok hw).2
  case case12 =>
    intro n ctx bs pos v pos' h
    rw [parse] at h
    simp only [bind_ok, pure_ok] at h
    obtain ⟨raw, h1, h2⟩ := h
    simp at h2
    exact leaf_uniqueKeys ⟨_, h2.1.symm⟩
  case case13 =>
    intro sub ctx bs pos ih v pos' h
    rw [parse] at h
    simp only [bind_ok, pure_ok] at h
    obtain ⟨⟨v1, p1⟩, h1, w, hw, h2⟩ := h
    simp at h2
    obtain ⟨rfl, rfl⟩ := h2
    exact leaf_uniqueKeys (mkYdms_ok hw)
  case case14 =>
    intro sub ref ctx bs pos ih v pos' h
    simp only [parse, bind_ok, pure_ok] at h
    obtain ⟨⟨v1, p1⟩, h1, w, hw, h2⟩ := h
    simp at h2
    obtain ⟨rfl, rfl⟩ := h2
    exact leaf_uniqueKeys (mkYdus_ok hw)
  case case15 =>
    intro ctx bs pos v pos' h
    rw [parse] at h
    simp [pure_ok] at h
    exact leaf_uniqueKeys ⟨_, h.1.symm⟩
  case case16 =>
    intro e ctx bs pos v pos' h
    rw [parse] at h
    simp only [bind_ok, pure_ok] at h
    obtain ⟨n, h0, h2⟩ := h
    simp at h2
    exact leaf_uniqueKeys ⟨_, h2.1.symm⟩
  case case17 =>
    intro e ctx bs pos v0 he v pos' h
    rw [parse] at h
    simp [he, pure_ok] at h
    exact leaf_uniqueKeys ⟨_, h.1.symm⟩
  case case18 =>
    intro e ctx bs pos he v pos' h
    rw [parse] at h
    simp [he, throw, throwThe, MonadExceptOf.throw] at h
  case case19 =>
    intro ctx bs pos v pos' hl h
    rw [parseFields] at h
    simp only [Except.ok.injEq, Prod.mk.injEq] at h
    rw [← h.1]
    exact LvlOK_dict hl
  case case20 =>
    intro name c rest ctx bs pos ih1 ih2 v pos' hl h
    rw [parseFields] at h
    simp only [bind_ok] at h
    obtain ⟨⟨v1, p1⟩, h1, h2⟩ := h
    have hv1 := ih1 v1 p1 h1
    refine ih2 v1 p1 v pos' ?_ h2
    cases ctx with
    | nil =>
      simp only [List.headD_cons]
      exact LvlOK_setField name LvlOK_nil hv1
    | cons lvl outer =>
      simp only [List.headD_cons] at hl ⊢
      exact LvlOK_setField name hl hv1

/-! ### shape -/

theorem pathSkelKvs_eq_map (kvs : List (String × Val)) (p : List String) :
    pathSkelKvs kvs p = kvs.map (fun kv => (kv.1, kv.2.pathSkel (p ++ [kv.1]))) := by
  induction kvs with
  | nil => rw [pathSkelKvs]; rfl
  | cons a l ih => obtain ⟨k, v⟩ := a; rw [pathSkelKvs, ih]; rfl

/-- Python dict assignment on the (reversed) context level is `kvSet` on the skeleton of the forward list -/
theorem pathSkelKvs_setField (lvl : List (String × Val)) (name : String) (v : Val) (p : List String) :
    pathSkelKvs (setField lvl name v).reverse p =
      kvSet (pathSkelKvs lvl.reverse p) name (v.pathSkel (p ++ [name])) := by
  rw [pathSkelKvs_eq_map, pathSkelKvs_eq_map]
  unfold setField kvSet
  have hany : ((lvl.reverse.map (fun kv => (kv.1, kv.2.pathSkel (p ++ [kv.1])))).any (fun kv => kv.1 = name))
      = lvl.any (fun kv => kv.1 = name) := by
    rw [List.any_map, List.any_reverse]; rfl
  rw [hany]
  split
  · rw [← List.map_reverse, List.map_map, List.map_map]
    apply List.map_congr_left
    intro a _
    simp only [Function.comp]
    split
    · rfl
    · rfl
  · rw [List.reverse_cons, List.map_append]; rfl

theorem leaf_pathSkel {v : Val} (h : ∃ l, v = .leaf l) (p : List String) : v.pathSkel p = .leaf (.path p) := by
  obtain ⟨l, rfl⟩ := h; rw [Val.pathSkel]

theorem pathSkelList_range' (elem : Con) (p : List String) :
    ∀ (vs : List Val) (i : Nat) (ss : List (PVal Sym)),
      (∀ x ∈ vs, ∀ q s, Con.skel elem q = some s → x.pathSkel q = s) →
      (List.range' i vs.length).mapM (fun i => Con.skel elem (p ++ ["[" ++ toString i ++ "]"])) = some ss →
      pathSkelList vs p i = ss := by
  intro vs
  induction vs with
  | nil =>
    intro i ss _ h
    simp at h
    rw [pathSkelList, h]
  | cons x xs ih =>
    intro i ss hx h
    rw [List.length_cons, List.range'_succ, List.mapM_cons] at h
    simp only [Option.bind_eq_bind, Option.pure_def, Option.bind_eq_some_iff] at h
    obtain ⟨s1, h1, ss2, h2, h3⟩ := h
    simp at h3
    subst h3
    rw [pathSkelList, hx x (by simp) _ _ h1, ih (i + 1) ss2 (fun y hy => hx y (by simp [hy])) h2]

theorem shape_joint :
    (∀ (c : Con) (ctx : Ctx) (bs : Bytes) (pos : Nat), ∀ (p : List String) (s : PVal Sym) v pos',
        Con.skel c p = some s → parse c ctx bs pos = .ok (v, pos') → v.pathSkel p = s) ∧
    (∀ (fs : List (String × Con)) (ctx : Ctx) (bs : Bytes) (pos : Nat),
        ∀ (p : List String) (r : List (String × PVal Sym)) v pos',
        Con.skelFields fs p (pathSkelKvs (ctx.headD []).reverse p) = some r →
        parseFields fs ctx bs pos = .ok (v, pos') → v.pathSkel p = .dict r) := by
  apply parse.mutual_induct
  case case1 =>
    intro fs ctx bs pos ih p s v pos' hs h
    rw [parse] at h
    rw [Con.skel] at hs
    simp only [Option.map_eq_some_iff] at hs
    obtain ⟨r, hr, rfl⟩ := hs
    exact ih p r v pos' (by simpa [pathSkelKvs] using hr) h
  case case2 =>
    intro n ctx bs pos p s v pos' hs h
    rw [parse] at h
    simp only [bind_ok, pure_ok] at h
    obtain ⟨raw, h1, h2⟩ := h
    simp at h2
    simp [Con.skel] at hs
    rw [← hs]
    exact leaf_pathSkel ⟨_, h2.1.symm⟩ p
  case case3 =>
    intro e ctx bs pos p s v pos' hs h
    rw [parse] at h
    simp only [bind_ok, pure_ok] at h
    obtain ⟨n, h0, raw, h1, lf, _, h2⟩ := h
    simp at h2
    simp [Con.skel] at hs
    rw [← hs]
    exact leaf_pathSkel ⟨_, h2.1.symm⟩ p
  case case4 =>
    intro e ctx bs pos p s v pos' hs h
    rw [parse] at h
    simp only [bind_ok, pure_ok] at h
    obtain ⟨n, h0, raw, h1, lf, _, h2⟩ := h
    simp at h2
    simp [Con.skel] at hs
    rw [← hs]
    exact leaf_pathSkel ⟨_, h2.1.symm⟩ p
  case case5 =>
    intro e ctx bs pos p s v pos' hs h
    rw [parse] at h
    simp only [bind_ok, pure_ok] at h
    obtain ⟨n, h0, raw, h1, lf, _, raw2, h3, lf2, _, h2⟩ := h
    simp at h2
    simp [Con.skel] at hs
    rw [← hs]
    exact leaf_pathSkel ⟨_, h2.1.symm⟩ p
  case case6 =>
    intro e ctx bs pos p s v pos' hs h
    rw [parse] at h
    simp only [bind_ok, pure_ok] at h
    obtain ⟨n, h0, raw, h1, lf, _, h2⟩ := h
    simp at h2
    simp [Con.skel] at hs
    rw [← hs]
    exact leaf_pathSkel ⟨_, h2.1.symm⟩ p
  case case7 =>
    intro e ctx bs pos p s v pos' hs h
    rw [parse] at h
    simp only [bind_ok, pure_ok] at h
    obtain ⟨n, h0, raw, h1, h2⟩ := h
    simp at h2
    simp [Con.skel] at hs
    rw [← hs]
    exact leaf_pathSkel ⟨_, h2.1.symm⟩ p
  case case8 =>
    intro count elem ctx bs pos ih p s v pos' hs h
    cases count <;> simp [Con.skel] at hs
    rename_i c
    obtain ⟨hc, ss, hss, rfl⟩ := hs
    rw [parse] at h
    simp only [bind_ok, pure_ok] at h
    obtain ⟨n, h0, ⟨vs, p1⟩, h1, h2⟩ := h
    simp at h2
    obtain ⟨rfl, rfl⟩ := h2
    have hn : n = c.toNat := by
      simp [evalLen, Expr.eval] at h0
      split at h0 <;> simp_all
    have := parseMany_ok (fun p => parse elem ctx bs p)
      (fun x => ∀ q s, Con.skel elem q = some s → x.pathSkel q = s)
      (fun p v p' hh q s hq => ih p q s v p' hq hh) n pos vs p1 h1
    obtain ⟨hlen, hall⟩ := this
    rw [Val.pathSkel]
    congr 1
    apply pathSkelList_range' elem p vs 0 ss hall
    rw [hlen, hn, ← List.range_eq_range']
    exact hss
  case case9 =>
    intro f sub ctx bs pos ih p s v pos' hs h
    rw [parse] at h
    simp only [bind_ok, pure_ok] at h
    obtain ⟨⟨v1, p1⟩, h1, w, hw, h2⟩ := h
    simp at h2
    obtain ⟨rfl, rfl⟩ := h2
    rw [Con.skel] at hs
    have := ih p s v1 _ hs h1
    rw [leaf_pathSkel (applyFactor_ok hw).1] at this
    rw [← this]
    exact leaf_pathSkel (applyFactor_ok hw).2 p
  case case10 =>
    intro attrs sub ctx bs pos ih p s v pos' hs h
    rw [parse] at h
    simp only [bind_ok, pure_ok] at h
    obtain ⟨⟨v1, p1⟩, h1, h2⟩ := h
    simp at h2
    obtain ⟨rfl, rfl⟩ := h2
    rw [Con.skel] at hs
    simp only [Option.map_eq_some_iff] at hs
    obtain ⟨s1, hs1, rfl⟩ := hs
    rw [Val.pathSkel, ih p s1 v1 _ hs1 h1]
  case case11 =>
    intro table sub ctx bs pos ih p s v pos' hs h
    rw [parse] at h
    simp only [bind_ok, pure_ok] at h
    obtain ⟨⟨v1, p1⟩, h1, w, hw, h2⟩ := h
    simp at h2
    obtain ⟨rfl, rfl⟩ := h2
    rw [Con.skel] at hs
    have := ih p s v1 _ hs h1
    rw [leaf_pathSkel (enumLookup_ok hw).1] at this
    rw [← this]
    exact leaf_pathSkel (enumLookup_ok hw).2 p
  case case12 =>
    intro n ctx bs pos p s v pos' hs h
    rw [parse] at h
    simp only [bind_ok, pure_ok] at h
    obtain ⟨raw, h1, h2⟩ := h
    simp at h2
    simp [Con.skel] at hs
    rw [← hs]
    exact leaf_pathSkel ⟨_, h2.1.symm⟩ p
  case case13 =>
    intro sub ctx bs pos ih p s v pos' hs h
    rw [parse] at h
    simp only [bind_ok, pure_ok] at h
    obtain ⟨⟨v1, p1⟩, h1, w, hw, h2⟩ := h
    simp at h2
    obtain ⟨rfl, rfl⟩ := h2
    rw [Con.skel] at hs
    simp at hs
    rw [← hs]
    exact leaf_pathSkel (mkYdms_ok hw) p
  case case14 =>
    intro sub ref ctx bs pos ih p s v pos' hs h
    simp only [parse, bind_ok, pure_ok] at h
    obtain ⟨⟨v1, p1⟩, h1, w, hw, h2⟩ := h
    simp at h2
    obtain ⟨rfl, rfl⟩ := h2
    rw [Con.skel] at hs
    simp at hs
    rw [← hs]
    exact leaf_pathSkel (mkYdus_ok hw) p
  case case15 =>
    intro ctx bs pos p s v pos' hs h
    rw [parse] at h
    simp [pure_ok] at h
    simp [Con.skel] at hs
    rw [← hs]
    exact leaf_pathSkel ⟨_, h.1.symm⟩ p
  case case16 =>
    intro e ctx bs pos p s v pos' hs h
    rw [parse] at h
    simp only [bind_ok, pure_ok] at h
    obtain ⟨n, h0, h2⟩ := h
    simp at h2
    simp [Con.skel] at hs
    rw [← hs]
    exact leaf_pathSkel ⟨_, h2.1.symm⟩ p
  case case17 =>
    intro e ctx bs pos v0 he p s v pos' hs h
    rw [parse] at h
    simp [he, pure_ok] at h
    simp [Con.skel] at hs
    rw [← hs]
    exact leaf_pathSkel ⟨_, h.1.symm⟩ p
  case case18 =>
    intro e ctx bs pos he p s v pos' hs h
    rw [parse] at h
    simp [he, throw, throwThe, MonadExceptOf.throw] at h
  case case19 =>
    intro ctx bs pos p r v pos' hs h
    rw [parseFields] at h
    simp only [Except.ok.injEq, Prod.mk.injEq] at h
    rw [Con.skelFields] at hs
    simp only [Option.some.injEq] at hs
    rw [← h.1, Val.pathSkel, hs]
  case case20 =>
    intro name c rest ctx bs pos ih1 ih2 p r v pos' hs h
    rw [parseFields] at h
    simp only [bind_ok] at h
    obtain ⟨⟨v1, p1⟩, h1, h2⟩ := h
    rw [Con.skelFields] at hs
    split at hs
    · simp at hs
    · rename_i s1 hs1
      have hv1 := ih1 (p ++ [name]) s1 v1 p1 hs1 h1
      refine ih2 v1 p1 p r v pos' ?_ h2
      rw [← hs]
      congr 1
      cases ctx with
      | nil =>
        simp only [List.headD_cons, List.headD_nil]
        rw [← hv1]
        exact pathSkelKvs_setField [] name v1 p
      | cons lvl outer =>
        simp only [List.headD_cons]
        rw [← hv1]
        exact pathSkelKvs_setField lvl name v1 p

/-! ### a value is its own skeleton, looked up again -/

theorem bracket_inj {i j : Nat} (h : "[" ++ toString i ++ "]" = "[" ++ toString j ++ "]") : i = j :=
  Nat.repr_injective ((String.append_right_inj _).mp ((String.append_left_inj _).mp h))

theorem find_zipIdx (xs : List Val) :
    ∀ (i j : Nat) (x : Val), xs[j]? = some x →
      (xs.zipIdx i).find? (fun vi => "[" ++ toString vi.2 ++ "]" = "[" ++ toString (i + j) ++ "]") = some (x, i + j) := by
  induction xs with
  | nil => intro i j x h; simp at h
  | cons a l ih =>
    intro i j x h
    rw [List.zipIdx_cons, List.find?_cons]
    cases j with
    | zero =>
      simp at h
      subst h
      simp
    | succ j =>
      simp at h
      have hne : ¬ ("[" ++ toString i ++ "]" = "[" ++ toString (i + (j + 1)) ++ "]") := by
        intro hh
        have := bracket_inj hh
        omega
      simp only [hne, decide_false]
      have := ih (i + 1) j x h
      rw [show i + 1 + j = i + (j + 1) by omega] at this
      exact this

theorem leafAt_list {xs : List Val} {j : Nat} {x : Val} (h : xs[j]? = some x) (q : List String) :
    (Val.list xs).leafAt (("[" ++ toString j ++ "]") :: q) = x.leafAt q := by
  have := find_zipIdx xs 0 j x h
  simp only [Nat.zero_add] at this
  rw [Val.leafAt]
  simp only [this]

theorem find_of_mem_nodup (kvs : List (String × Val)) (hn : (kvs.map Prod.fst).Nodup) (k : String) (x : Val)
    (hm : (k, x) ∈ kvs) : kvs.find? (fun kv => kv.1 = k) = some (k, x) := by
  induction kvs with
  | nil => simp at hm
  | cons a l ih =>
    simp only [List.map_cons, List.nodup_cons] at hn
    rw [List.find?_cons]
    simp only [List.mem_cons] at hm
    rcases hm with rfl | hm
    · simp
    · have hne : ¬ a.1 = k := by
        intro hh
        apply hn.1
        rw [hh]
        exact List.mem_map_of_mem (f := Prod.fst) hm
      simp only [hne, decide_false]
      exact ih hn.2 hm

theorem leafAt_dict {kvs : List (String × Val)} (hn : (kvs.map Prod.fst).Nodup) {k : String} {x : Val}
    (hm : (k, x) ∈ kvs) (q : List String) : (Val.dict kvs).leafAt (k :: q) = x.leafAt q := by
  have := find_of_mem_nodup kvs hn k x hm
  rw [Val.leafAt]
  simp only [this]

theorem mapKvs_consts {α β : Type} (g : α → β) (attrs : List (String × String)) :
    PVal.mapKvs g (attrs.map (fun (k, a) => (k, PVal.cstr a))) = attrs.map (fun (k, a) => (k, PVal.cstr a)) := by
  induction attrs with
  | nil => simp [PVal.mapKvs]
  | cons a l ih =>
    obtain ⟨k, v⟩ := a
    simp only [List.map_cons]
    rw [PVal.mapKvs, ih, PVal.map]

theorem toPVal_joint :
    (∀ (w : Val) (p : List String), ∀ g : Sym → Leaf,
        (∀ q l, w.leafAt q = some l → g (.path (p ++ q)) = l) → w.UniqueKeys = true →
        w.toPVal = (w.pathSkel p).map g) ∧
    (∀ (kvs : List (String × Val)) (p : List String), ∀ g : Sym → Leaf,
        (∀ k x, (k, x) ∈ kvs → ∀ q l, x.leafAt q = some l → g (.path (p ++ [k] ++ q)) = l) →
        uniqueKeysKvs kvs = true →
        Val.toPVal.toPKvs kvs = PVal.mapKvs g (pathSkelKvs kvs p)) ∧
    (∀ (xs : List Val) (p : List String) (i : Nat), ∀ g : Sym → Leaf,
        (∀ j x, xs[j]? = some x → ∀ q l, x.leafAt q = some l →
          g (.path (p ++ ["[" ++ toString (i + j) ++ "]"] ++ q)) = l) →
        uniqueKeysList xs = true →
        Val.toPVal.toPVals xs = PVal.mapList g (pathSkelList xs p i)) := by
  apply Val.pathSkel.mutual_induct
  · -- leaf
    intro l p g hg _
    rw [Val.toPVal, Val.pathSkel, PVal.map]
    have := hg [] l (by rw [Val.leafAt])
    rw [List.append_nil] at this
    rw [this]
  · -- list
    intro xs p ih g hg hu
    rw [Val.UniqueKeys] at hu
    rw [Val.toPVal, Val.pathSkel, PVal.map]
    congr 1
    apply ih g _ hu
    intro j x hx q l hl
    rw [Nat.zero_add, List.append_assoc]
    apply hg
    rw [List.singleton_append, leafAt_list hx]
    exact hl
  · -- dict
    intro kvs p ih g hg hu
    rw [Val.UniqueKeys] at hu
    simp only [Bool.and_eq_true, decide_eq_true_eq] at hu
    rw [Val.toPVal, Val.pathSkel, PVal.map]
    congr 1
    apply ih g _ hu.2
    intro k x hm q l hl
    rw [List.append_assoc]
    apply hg
    rw [List.singleton_append, leafAt_dict hu.1 hm]
    exact hl
  · -- tup
    intro v attrs p ih g hg hu
    rw [Val.UniqueKeys] at hu
    rw [Val.toPVal, Val.pathSkel, PVal.map, PVal.mapList, PVal.mapList, PVal.mapList, PVal.map, mapKvs_consts]
    rw [ih g (fun q l hl => hg q l (by rw [Val.leafAt]; exact hl)) hu]
  · -- list nil
    intro p i g _ _
    rw [Val.toPVal.toPVals, pathSkelList, PVal.mapList]
  · -- list cons
    intro x xs p i ih1 ih2 g hg hu
    rw [uniqueKeysList] at hu
    simp only [Bool.and_eq_true] at hu
    rw [Val.toPVal.toPVals, pathSkelList, PVal.mapList]
    congr 1
    · apply ih1 g _ hu.1
      intro q l hl
      have := hg 0 x (by simp) q l hl
      rw [Nat.add_zero] at this
      exact this
    · apply ih2 g _ hu.2
      intro j y hy q l hl
      have := hg (j + 1) y (by simpa using hy) q l hl
      rw [show i + (j + 1) = i + 1 + j by omega] at this
      exact this
  · -- kvs nil
    intro p g _ _
    rw [Val.toPVal.toPKvs, pathSkelKvs, PVal.mapKvs]
  · -- kvs cons
    intro k v rest p ih1 ih2 g hg hu
    rw [uniqueKeysKvs] at hu
    simp only [Bool.and_eq_true] at hu
    rw [Val.toPVal.toPKvs, pathSkelKvs, PVal.mapKvs]
    congr 2
    · apply ih1 g _ hu.1
      intro q l hl
      exact hg k v (by simp) q l hl
    · apply ih2 g _ hu.2
      intro k' x hm q l hl
      exact hg k' x (by simp [hm]) q l hl

end Shape

/-- a successfully parsed value has unique keys (Python dict semantics of `Struct`) -/
theorem parse_uniqueKeys (c : Con) (ctx : Ctx) (bs : Bytes) (pos : Nat) (v : Val) (pos' : Nat)
    (h : parse c ctx bs pos = .ok (v, pos')) : v.UniqueKeys = true :=
  Shape.uniqueKeys_joint.1 c ctx bs pos v pos' h

/-- the shape of a value parsed by a layout with literal counts is the layout's path skeleton -/
theorem parse_shape (c : Con) (p : List String) (s : PVal Sym) (hs : Con.skel c p = some s)
    (ctx : Ctx) (bs : Bytes) (pos : Nat) (v : Val) (pos' : Nat)
    (h : parse c ctx bs pos = .ok (v, pos')) : v.pathSkel p = s :=
  Shape.shape_joint.1 c ctx bs pos p s v pos' hs h

/-- a value with unique keys is its own path skeleton with every path looked up again -/
theorem toPVal_eq_skel_eval (v : Val) (h : v.UniqueKeys = true) :
    v.toPVal = (v.pathSkel []).map (Sym.eval v) := by
  apply Shape.toPVal_joint.1 v [] (Sym.eval v) _ h
  intro q l hl
  rw [List.nil_append, Sym.eval, hl]
  rfl

/-- consequently: for a layout with literal counts, the parsed record is the layout skeleton evaluated on it -/
theorem parse_eq_skel (c : Con) (s : PVal Sym) (hs : Con.skel c [] = some s)
    (ctx : Ctx) (bs : Bytes) (pos : Nat) (v : Val) (pos' : Nat)
    (h : parse c ctx bs pos = .ok (v, pos')) : v.toPVal = s.map (Sym.eval v) := by
  rw [← parse_shape c [] s hs ctx bs pos v pos' h]
  exact toPVal_eq_skel_eval v (parse_uniqueKeys c ctx bs pos v pos' h)

end Alos2

/-
Regular image geometry: the byte ranges a well-formed image file has, and what the chunked reader
does on them.  Helper lemmas for C01 / C06 / C11.
-/
import Alos2.Model.Array
import Alos2.Model.ImageIO
import Alos2.Model.Construct
import Alos2.Proofs.Array
import Alos2.Proofs.ImageIO

namespace Alos2

/-- geometry of an image file: `n` lines of `m` samples of `bpp` bytes behind a `P`-byte prefix -/
structure Geometry where
  n : Nat
  m : Nat
  bpp : Nat
  P : Nat
  code : Nat

namespace Geometry

def L (g : Geometry) : Nat := g.P + g.m * g.bpp

/-- byte range of the samples of line `i` -/
def range (g : Geometry) (i : Nat) : Range := (headerSize + i * g.L + g.P, headerSize + (i + 1) * g.L)

/-- the lazy array `open_image` builds for such a file with a given `records_per_chunk` -/
def image (g : Geometry) (file : Bytes) (rpc : Nat) : Image :=
  { file := file, ranges := (List.range g.n).map g.range, ncols := g.m, bpp := g.bpp,
    rpc := normalizeChunksize rpc g.n }

theorem wf_ranges (g : Geometry) (file : Bytes) (t : RecordTypes)
    (hw : WellFormedImage t file g.n g.L g.P g.code) (rpc : Nat) (hrpc : 0 < rpc) :
    (readMetadata t file g.n g.L rpc).1 =
      .ok ((List.range g.n).map (fun i => (headerSize + i * g.L, (g.range i).1, (g.range i).2))) := by
  rw [readMetadata_wf t file g.n g.L g.P g.code rpc hw hrpc]
  rfl

/-- slicing a slice that lies inside the outer bounds -/
private theorem slice_slice_add {α : Type} (l : List α) (p q a b : Nat) (hb : p + b ≤ q) :
    slice (slice l p q) a b = slice l (p + a) (p + b) := by
  unfold slice
  rw [List.drop_take, List.take_take, List.drop_drop]
  congr 1
  omega

private theorem length_slice_of_le {α : Type} (l : List α) (a b : Nat) (hab : a ≤ b) (hb : b ≤ l.length) :
    (slice l a b).length = b - a := by
  simp [slice]
  omega

theorem ranges_length (g : Geometry) : ((List.range g.n).map g.range).length = g.n := by simp

theorem ranges_getD (g : Geometry) (i : Nat) (hi : i < g.n) :
    ((List.range g.n).map g.range).getD i (0, 0) = g.range i := by
  rw [ArrayAux.getD_eq_getElem' _ _ (by simpa using hi)]
  simp

theorem range_le_size (g : Geometry) (i : Nat) (hi : i < g.n) : (i + 1) * g.L ≤ g.n * g.L :=
  Nat.mul_le_mul_right _ hi

/-- the bytes of line `i` -/
theorem line_length (g : Geometry) (file : Bytes) (hsize : headerSize + g.n * g.L ≤ file.length)
    (i : Nat) (hi : i < g.n) : (slice file (g.range i).1 (g.range i).2).length = g.m * g.bpp := by
  have h1 := range_le_size g i hi
  have h2 : (i + 1) * g.L = i * g.L + (g.P + g.m * g.bpp) := by
    rw [Nat.add_mul, Nat.one_mul]; rfl
  rw [length_slice_of_le]
  · show headerSize + (i + 1) * g.L - (headerSize + i * g.L + g.P) = _
    omega
  · show headerSize + i * g.L + g.P ≤ headerSize + (i + 1) * g.L
    omega
  · show headerSize + (i + 1) * g.L ≤ _
    omega

theorem line_samples (g : Geometry) (file : Bytes) (hb : 0 < g.bpp)
    (hsize : headerSize + g.n * g.L ≤ file.length) (i : Nat) (hi : i < g.n) :
    samples g.bpp (slice file (g.range i).1 (g.range i).2) =
      .ok (chunksOf g.bpp (slice file (g.range i).1 (g.range i).2)) := by
  unfold samples
  rw [if_neg (by omega), line_length g file hsize i hi, if_neg (by simp)]

/-- the loaded image of a regular geometry: row `i`, sample `j` is the `bpp` bytes at its file position -/
theorem loadAll_regular (g : Geometry) (file : Bytes) (hb : 0 < g.bpp)
    (hsize : headerSize + g.n * g.L ≤ file.length) (rpc : Nat) :
    ∃ full : List (List Bytes), loadAll (g.image file rpc) = .ok full ∧ full.length = g.n ∧
      (∀ row ∈ full, row.length = g.m) ∧
      ∀ i, i < g.n → ∀ j, j < g.m →
        (full.getD i []).getD j [] =
          slice file (headerSize + i * g.L + g.P + j * g.bpp) (headerSize + i * g.L + g.P + (j + 1) * g.bpp) := by
  refine ⟨(List.range g.n).map (fun i => chunksOf g.bpp (slice file (g.range i).1 (g.range i).2)), ?_, by simp, ?_, ?_⟩
  · unfold loadAll image
    simp only
    apply ArrayAux.mapM_map_ok (fun r : Range => samples g.bpp (slice file r.1 r.2)) g.range
    intro i hi
    exact line_samples g file hb hsize i (List.mem_range.1 hi)
  · intro row hrow
    rw [List.mem_map] at hrow
    obtain ⟨i, hi, rfl⟩ := hrow
    have hi := List.mem_range.1 hi
    have h := samples_length _ _ _ (line_samples g file hb hsize i hi)
    rw [line_length g file hsize i hi] at h
    exact Nat.eq_of_mul_eq_mul_right hb h
  · intro i hi j hj
    have hrow : ((List.range g.n).map (fun i => chunksOf g.bpp (slice file (g.range i).1 (g.range i).2))).getD i []
        = chunksOf g.bpp (slice file (g.range i).1 (g.range i).2) := by
      rw [ArrayAux.getD_eq_getElem' _ _ (by simpa using hi)]
      simp
    rw [hrow, ArrayAux.chunksOf_getD _ hb]
    have h1 := range_le_size g i hi
    have h2 : (i + 1) * g.L = i * g.L + (g.P + g.m * g.bpp) := by
      rw [Nat.add_mul, Nat.one_mul]; rfl
    have h3 : (j + 1) * g.bpp ≤ g.m * g.bpp := Nat.mul_le_mul_right _ hj
    show slice (slice file (headerSize + i * g.L + g.P) (headerSize + (i + 1) * g.L)) _ _ = _
    rw [slice_slice_add]
    omega

end Geometry

theorem normalizeChunksize_eq_min (rpc n : Nat) : normalizeChunksize rpc n = min rpc n := by
  unfold normalizeChunksize
  split <;> omega

theorem normalizeChunksize_pos (rpc n : Nat) (h1 : 0 < rpc) (h2 : 0 < n) : 0 < normalizeChunksize rpc n := by
  rw [normalizeChunksize_eq_min]
  omega

namespace Geometry

theorem pixel_fidelity (g : Geometry) (file : Bytes) (hn : 0 < g.n) (hb : 0 < g.bpp)
    (hsize : headerSize + g.n * g.L ≤ file.length) (rpc : Nat) (hrpc : 0 < rpc) :
    ∃ rows : List (List Bytes),
      (getitem (g.image file rpc) (.slice none none none) (.slice none none none)).1 = .ok (.d2 g.m rows) ∧
      rows.length = g.n ∧
      ∀ i, i < g.n → ∀ j, j < g.m →
        (rows.getD i []).getD j [] =
          slice file (headerSize + i * g.L + g.P + j * g.bpp) (headerSize + i * g.L + g.P + (j + 1) * g.bpp) := by
  obtain ⟨full, hload, hlen, hrect, hpix⟩ := loadAll_regular g file hb hsize rpc
  refine ⟨full, ?_, hlen, hpix⟩
  rw [getitem_eq_npIndex (g.image file rpc) full hload hrect (normalizeChunksize_pos rpc g.n hrpc hn)]
  exact npIndex_all full g.m hrect

private theorem div_eq_bounds {i rpc c : Nat} (hrpc : 0 < rpc) (h : i / rpc = c) :
    c * rpc ≤ i ∧ i < (c + 1) * rpc := by
  subst h
  have h1 := Nat.div_add_mod i rpc
  have h2 := Nat.mod_lt i hrpc
  rw [Nat.add_mul, Nat.one_mul, Nat.mul_comm]
  omega

/-- the byte span read for chunk `c` of a regular geometry: from the first sample byte of the chunk's
    first line to the end of its last line -/
theorem chunk_span (g : Geometry) (rpc : Nat) (hrpc : 0 < rpc) (c : Nat) (hc : c * rpc < g.n) :
    (chunkRanges ((List.range g.n).map g.range) rpc).getD c (0, 0) =
      (headerSize + (c * rpc) * g.L + g.P, headerSize + (min ((c + 1) * rpc) g.n) * g.L) := by
  have hlen := ranges_length g
  obtain ⟨i, j, hi, hj, hin, hjn, hspan⟩ :=
    chunkRanges_attained ((List.range g.n).map g.range) rpc hrpc c (by rw [hlen]; exact hc)
  rw [hlen] at hin hjn
  -- first row of the chunk
  have hfirst : (c * rpc) / rpc = c := Nat.mul_div_cancel c hrpc
  have hcov1 := chunkRanges_cover ((List.range g.n).map g.range) rpc hrpc (c * rpc) (by rw [hlen]; exact hc)
  rw [hfirst, ranges_getD g _ hc] at hcov1
  -- last row of the chunk
  have hsucc : c * rpc + rpc = (c + 1) * rpc := by rw [Nat.add_mul, Nat.one_mul]
  have hepos : 0 < min ((c + 1) * rpc) g.n := by omega
  have hen : min ((c + 1) * rpc) g.n - 1 < g.n := by omega
  have hlast : (min ((c + 1) * rpc) g.n - 1) / rpc = c := by
    apply Nat.div_eq_of_lt_le
    · rw [Nat.mul_comm] at *; omega
    · rw [Nat.mul_comm (c + 1)] at *; omega
  have hcov2 := chunkRanges_cover ((List.range g.n).map g.range) rpc hrpc (min ((c + 1) * rpc) g.n - 1)
    (by rw [hlen]; exact hen)
  rw [hlast, ranges_getD g _ hen] at hcov2
  rw [hspan, ranges_getD g _ hin, ranges_getD g _ hjn] at hcov1 hcov2 ⊢
  obtain ⟨hi1, hi2⟩ := div_eq_bounds hrpc hi
  obtain ⟨hj1, hj2⟩ := div_eq_bounds hrpc hj
  have m1 : (c * rpc) * g.L ≤ i * g.L := Nat.mul_le_mul_right _ hi1
  have m2 : (j + 1) * g.L ≤ (min ((c + 1) * rpc) g.n) * g.L := Nat.mul_le_mul_right _ (by omega)
  have e1 : (min ((c + 1) * rpc) g.n - 1 + 1) = min ((c + 1) * rpc) g.n := by omega
  have a1 : headerSize + i * g.L + g.P ≤ headerSize + (c * rpc) * g.L + g.P := hcov1.1
  have a2 : headerSize + (min ((c + 1) * rpc) g.n - 1 + 1) * g.L ≤ headerSize + (j + 1) * g.L := hcov2.2
  rw [e1] at a2
  show (headerSize + i * g.L + g.P, headerSize + (j + 1) * g.L) = _
  refine Prod.ext ?_ ?_ <;> simp only <;> omega

end Geometry

end Alos2

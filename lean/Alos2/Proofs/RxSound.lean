/-
R — regular expressions: a declarative meaning of `Rx` and soundness / completeness facts about the backtracking matcher.
-/
import Alos2.Base.Rx

namespace Alos2

mutual
/-- `Matches r s`: the string `s` belongs to the language of `r` (captures ignored) -/
inductive Rx.Matches : Rx → List Char → Prop
  | lit (c : Nat) (x : Char) (h : x.toNat = c) : Rx.Matches (.lit c) [x]
  | cls (items : List (Nat × Nat)) (neg : Bool) (x : Char) (h : inClass items neg x = true) : Rx.Matches (.cls items neg) [x]
  | any (x : Char) (h : x ≠ '\n') : Rx.Matches .any [x]
  | seq (rs : List Rx) (s : List Char) (h : Rx.MatchesSeq rs s) : Rx.Matches (.seq rs) s
  | alt (rs : List Rx) (r : Rx) (s : List Char) (hr : r ∈ rs) (h : Rx.Matches r s) : Rx.Matches (.alt rs) s
  | group (i : Nat) (r : Rx) (s : List Char) (h : Rx.Matches r s) : Rx.Matches (.group i r) s
  | rep (r : Rx) (mn : Nat) (mx : Option Nat) (g : Bool) (parts : List (List Char))
      (hmin : mn ≤ parts.length) (hmax : ∀ m, mx = some m → parts.length ≤ m)
      (h : ∀ p ∈ parts, Rx.Matches r p) : Rx.Matches (.rep r mn mx g) parts.flatten
inductive Rx.MatchesSeq : List Rx → List Char → Prop
  | nil : Rx.MatchesSeq [] []
  | cons (r : Rx) (rs : List Rx) (a b : List Char) (h1 : Rx.Matches r a) (h2 : Rx.MatchesSeq rs b) : Rx.MatchesSeq (r :: rs) (a ++ b)
end

private abbrev K := List Char → Groups → Option Groups

private def SoundM (f : Nat) : Prop :=
  ∀ (r : Rx) (s : List Char) (gs : Groups) (k : K) (g : Groups), Rx.m f r s gs k = some g →
    ∃ pre rest gs', s = pre ++ rest ∧ Rx.Matches r pre ∧ k rest gs' = some g
private def SoundSeq (f : Nat) : Prop :=
  ∀ (rs : List Rx) (s : List Char) (gs : Groups) (k : K) (g : Groups), Rx.mSeq f rs s gs k = some g →
    ∃ pre rest gs', s = pre ++ rest ∧ Rx.MatchesSeq rs pre ∧ k rest gs' = some g
private def SoundAlt (f : Nat) : Prop :=
  ∀ (rs : List Rx) (s : List Char) (gs : Groups) (k : K) (g : Groups), Rx.mAlt f rs s gs k = some g →
    ∃ r ∈ rs, ∃ pre rest gs', s = pre ++ rest ∧ Rx.Matches r pre ∧ k rest gs' = some g
private def SoundRep (f : Nat) : Prop :=
  ∀ (r : Rx) (mn : Nat) (mx : Option Nat) (gr : Bool) (count : Nat) (s : List Char) (gs : Groups) (k : K) (g : Groups),
    Rx.mRep f r mn mx gr count s gs k = some g →
    ∃ (parts : List (List Char)) (rest : List Char) (gs' : Groups), s = parts.flatten ++ rest ∧ (∀ p ∈ parts, Rx.Matches r p) ∧
      mn ≤ count + parts.length ∧ (∀ m, mx = some m → parts.length ≤ m - count) ∧ k rest gs' = some g

private theorem soundM_succ (f : Nat) (hM : SoundM f) (hS : SoundSeq f) (hA : SoundAlt f) (hR : SoundRep f) : SoundM (f + 1) := by
  intro r s gs k g h
  cases r with
  | lit c =>
    cases s with
    | nil => simp [Rx.m] at h
    | cons x rest =>
      simp only [Rx.m] at h
      split at h
      · exact ⟨[x], rest, gs, rfl, .lit c x ‹_›, h⟩
      · cases h
  | cls items neg =>
    cases s with
    | nil => simp [Rx.m] at h
    | cons x rest =>
      simp only [Rx.m] at h
      split at h
      · exact ⟨[x], rest, gs, rfl, .cls items neg x ‹_›, h⟩
      · cases h
  | any =>
    cases s with
    | nil => simp [Rx.m] at h
    | cons x rest =>
      simp only [Rx.m] at h
      split at h
      · exact ⟨[x], rest, gs, rfl, .any x ‹_›, h⟩
      · cases h
  | seq rs =>
    simp only [Rx.m] at h
    obtain ⟨pre, rest, gs', e, hm, hk⟩ := hS rs s gs k g h
    exact ⟨pre, rest, gs', e, .seq rs pre hm, hk⟩
  | alt rs =>
    simp only [Rx.m] at h
    obtain ⟨r, hr, pre, rest, gs', e, hm, hk⟩ := hA rs s gs k g h
    exact ⟨pre, rest, gs', e, .alt rs r pre hr hm, hk⟩
  | group i r =>
    simp only [Rx.m] at h
    obtain ⟨pre, rest, gs', e, hm, hk⟩ := hM r s gs _ g h
    exact ⟨pre, rest, _, e, .group i r pre hm, hk⟩
  | rep r mn mx gr =>
    simp only [Rx.m] at h
    obtain ⟨parts, rest, gs', e, hm, hmin, hmax, hk⟩ := hR r mn mx gr 0 s gs k g h
    refine ⟨parts.flatten, rest, gs', e, .rep r mn mx gr parts (by omega) (fun m hm' => by have := hmax m hm'; omega) hm, hk⟩

private theorem soundSeq_succ (f : Nat) (hM : SoundM f) (hS : SoundSeq f) : SoundSeq (f + 1) := by
  intro rs s gs k g h
  cases rs with
  | nil =>
    simp only [Rx.mSeq] at h
    exact ⟨[], s, gs, rfl, .nil, h⟩
  | cons r rs =>
    simp only [Rx.mSeq] at h
    obtain ⟨pre, rest, gs', e, hm, hk⟩ := hM r s gs _ g h
    obtain ⟨pre2, rest2, gs2, e2, hm2, hk2⟩ := hS rs rest gs' k g hk
    exact ⟨pre ++ pre2, rest2, gs2, by rw [e, e2, List.append_assoc], .cons r rs pre pre2 hm hm2, hk2⟩

private theorem soundAlt_succ (f : Nat) (hM : SoundM f) (hA : SoundAlt f) : SoundAlt (f + 1) := by
  intro rs s gs k g h
  cases rs with
  | nil => simp [Rx.mAlt] at h
  | cons r rs =>
    simp only [Rx.mAlt] at h
    split at h
    · next g' hg' =>
      cases h
      obtain ⟨pre, rest, gs', e, hm, hk⟩ := hM r s gs k g hg'
      exact ⟨r, List.mem_cons_self, pre, rest, gs', e, hm, hk⟩
    · obtain ⟨r', hr', x⟩ := hA rs s gs k g h
      exact ⟨r', List.mem_cons_of_mem _ hr', x⟩

private theorem soundRep_succ (f : Nat) (hM : SoundM f) (hR : SoundRep f) : SoundRep (f + 1) := by
  intro r mn mx gr count s gs k g h
  -- the "more" branch
  have hmore : ∀ (canMore : Bool), (canMore = true → ∀ m, mx = some m → count < m) →
      (if canMore then
        Rx.m f r s gs (fun rest gs' =>
          if rest.length < s.length then Rx.mRep f r mn mx gr (count + 1) rest gs' k else none)
      else none) = some g →
      ∃ (parts : List (List Char)) (rest : List Char) (gs' : Groups), s = parts.flatten ++ rest ∧ (∀ p ∈ parts, Rx.Matches r p) ∧
        mn ≤ count + parts.length ∧ (∀ m, mx = some m → parts.length ≤ m - count) ∧ k rest gs' = some g := by
    intro canMore hc h
    split at h
    · next hcm =>
      obtain ⟨pre, rest, gs', e, hm, hk⟩ := hM r s gs _ g h
      split at hk
      · obtain ⟨parts, rest2, gs2, e2, hm2, hmin, hmax, hk2⟩ := hR r mn mx gr (count + 1) rest gs' k g hk
        refine ⟨pre :: parts, rest2, gs2, by rw [e, e2]; simp, ?_, by simp; omega, ?_, hk2⟩
        · intro p hp
          rcases List.mem_cons.1 hp with rfl | hp
          · exact hm
          · exact hm2 p hp
        · intro m hm'
          have := hmax m hm'
          have := hc hcm m hm'
          simp; omega
      · cases hk
    · cases h
  have hexit : mn ≤ count → k s gs = some g →
      ∃ (parts : List (List Char)) (rest : List Char) (gs' : Groups), s = parts.flatten ++ rest ∧ (∀ p ∈ parts, Rx.Matches r p) ∧
        mn ≤ count + parts.length ∧ (∀ m, mx = some m → parts.length ≤ m - count) ∧ k rest gs' = some g := by
    intro h1 h2
    exact ⟨[], s, gs, rfl, by simp, by simpa using h1, by simp, h2⟩
  simp only [Rx.mRep] at h
  split at h
  · exact hmore _ (fun hh m hm => by subst hm; simpa using hh) h
  · next hlt =>
    split at h
    · split at h
      · next g' hg' => cases h; exact hmore _ (fun hh m hm => by subst hm; simpa using hh) hg'
      · exact hexit (by omega) h
    · split at h
      · next g' hg' => cases h; exact hexit (by omega) hg'
      · exact hmore _ (fun hh m hm => by subst hm; simpa using hh) h

private theorem sound_all (f : Nat) : SoundM f ∧ SoundSeq f ∧ SoundAlt f ∧ SoundRep f := by
  induction f with
  | zero =>
    refine ⟨?_, ?_, ?_, ?_⟩
    · intro r s gs k g h; simp [Rx.m] at h
    · intro r s gs k g h; simp [Rx.mSeq] at h
    · intro r s gs k g h; simp [Rx.mAlt] at h
    · intro r mn mx gr c s gs k g h; simp [Rx.mRep] at h
  | succ f ih =>
    obtain ⟨hM, hS, hA, hR⟩ := ih
    exact ⟨soundM_succ f hM hS hA hR, soundSeq_succ f hM hS, soundAlt_succ f hM hA, soundRep_succ f hM hR⟩

/-- soundness: whatever the fuel, a successful match consumed a prefix that belongs to the language -/
theorem Rx.m_sound (f : Nat) (r : Rx) (s : List Char) (gs : Groups) (k : List Char → Groups → Option Groups) (g : Groups)
    (h : Rx.m f r s gs k = some g) :
    ∃ pre rest gs', s = pre ++ rest ∧ Rx.Matches r pre ∧ k rest gs' = some g :=
  (sound_all f).1 r s gs k g h

/-- a successful `fullmatch` means the whole string is in the language -/
theorem Rx.fullmatch_sound (r : Rx) (s : List Char) (g : Groups) (h : r.fullmatch s = some g) : Rx.Matches r s := by
  obtain ⟨pre, rest, gs', e, hm, hk⟩ := Rx.m_sound _ r s [] _ g h
  split at hk
  · next hr =>
    have : rest = [] := by simpa using hr
    subst this
    simpa [e] using hm
  · cases hk

/-! ### inversion of the declarative semantics -/

theorem Rx.matches_seq_iff (rs : List Rx) (s : List Char) : Rx.Matches (.seq rs) s ↔ Rx.MatchesSeq rs s :=
  ⟨fun h => by cases h; assumption, fun h => .seq rs s h⟩

theorem Rx.matchesSeq_nil_iff (s : List Char) : Rx.MatchesSeq [] s ↔ s = [] :=
  ⟨fun h => by cases h; rfl, fun h => h ▸ .nil⟩

theorem Rx.matchesSeq_cons_iff (r : Rx) (rs : List Rx) (s : List Char) :
    Rx.MatchesSeq (r :: rs) s ↔ ∃ a b, s = a ++ b ∧ Rx.Matches r a ∧ Rx.MatchesSeq rs b :=
  ⟨fun h => by cases h with | cons _ _ a b h1 h2 => exact ⟨a, b, rfl, h1, h2⟩,
   fun ⟨a, b, e, h1, h2⟩ => e ▸ .cons r rs a b h1 h2⟩

theorem Rx.matches_group_iff (i : Nat) (r : Rx) (s : List Char) : Rx.Matches (.group i r) s ↔ Rx.Matches r s :=
  ⟨fun h => by cases h; assumption, fun h => .group i r s h⟩

theorem Rx.matches_cls_iff (items : List (Nat × Nat)) (neg : Bool) (s : List Char) :
    Rx.Matches (.cls items neg) s ↔ ∃ x, s = [x] ∧ inClass items neg x = true :=
  ⟨fun h => by cases h with | cls _ _ x h => exact ⟨x, rfl, h⟩, fun ⟨x, e, h⟩ => e ▸ .cls items neg x h⟩

theorem Rx.matches_lit_iff (c : Nat) (s : List Char) :
    Rx.Matches (.lit c) s ↔ ∃ x, s = [x] ∧ x.toNat = c :=
  ⟨fun h => by cases h with | lit _ x h => exact ⟨x, rfl, h⟩, fun ⟨x, e, h⟩ => e ▸ .lit c x h⟩

theorem Rx.matches_alt_iff (rs : List Rx) (s : List Char) :
    Rx.Matches (.alt rs) s ↔ ∃ r ∈ rs, Rx.Matches r s :=
  ⟨fun h => by cases h with | alt _ r _ hr h => exact ⟨r, hr, h⟩, fun ⟨r, hr, h⟩ => .alt rs r s hr h⟩

theorem Rx.matches_rep_iff (r : Rx) (mn : Nat) (mx : Option Nat) (g : Bool) (s : List Char) :
    Rx.Matches (.rep r mn mx g) s ↔
      ∃ parts : List (List Char), s = parts.flatten ∧ mn ≤ parts.length ∧ (∀ m, mx = some m → parts.length ≤ m) ∧
        ∀ p ∈ parts, Rx.Matches r p :=
  ⟨fun h => by cases h with | rep _ _ _ _ parts h1 h2 h3 => exact ⟨parts, rfl, h1, h2, h3⟩,
   fun ⟨parts, e, h1, h2, h3⟩ => e ▸ .rep r mn mx g parts h1 h2 h3⟩

/-- a bounded repeat of a character class matches exactly the strings of that length over the class -/
theorem Rx.matches_rep_cls (items : List (Nat × Nat)) (neg : Bool) (n : Nat) (g : Bool) (s : List Char)
    (h : Rx.Matches (.rep (.cls items neg) n (some n) g) s) : s.length = n ∧ ∀ x ∈ s, inClass items neg x = true := by
  obtain ⟨parts, e, h1, h2, h3⟩ := (Rx.matches_rep_iff _ _ _ _ _).1 h
  have hlen : parts.length = n := Nat.le_antisymm (h2 n rfl) h1
  subst e
  clear h h1 h2
  induction parts generalizing n with
  | nil => subst hlen; simp
  | cons p ps ih =>
    obtain ⟨x, rfl, hx⟩ := (Rx.matches_cls_iff _ _ _).1 (h3 p List.mem_cons_self)
    have := ih ps.length (fun q hq => h3 q (List.mem_cons_of_mem _ hq)) rfl
    subst hlen
    simp only [List.flatten_cons, List.singleton_append, List.length_cons, List.mem_cons]
    refine ⟨by omega, ?_⟩
    rintro y (rfl | hy)
    · exact hx
    · exact this.2 y hy

/-! ### the matcher on simple shapes (completeness with explicit fuel) -/

theorem Rx.m_lit_cons (f c : Nat) (x : Char) (rest : List Char) (gs : Groups) (k : List Char → Groups → Option Groups) :
    Rx.m (f + 1) (.lit c) (x :: rest) gs k = if x.toNat = c then k rest gs else none := by
  simp [Rx.m]

theorem Rx.m_cls_cons (f : Nat) (items : List (Nat × Nat)) (neg : Bool) (x : Char) (rest : List Char) (gs : Groups)
    (k : List Char → Groups → Option Groups) :
    Rx.m (f + 1) (.cls items neg) (x :: rest) gs k = if inClass items neg x then k rest gs else none := by
  simp [Rx.m]

theorem Rx.m_seq (f : Nat) (rs : List Rx) (s : List Char) (gs : Groups) (k : List Char → Groups → Option Groups) :
    Rx.m (f + 1) (.seq rs) s gs k = Rx.mSeq f rs s gs k := by
  simp [Rx.m]

theorem Rx.m_alt (f : Nat) (rs : List Rx) (s : List Char) (gs : Groups) (k : List Char → Groups → Option Groups) :
    Rx.m (f + 1) (.alt rs) s gs k = Rx.mAlt f rs s gs k := by
  simp [Rx.m]

theorem Rx.m_group (f i : Nat) (r : Rx) (s : List Char) (gs : Groups) (k : List Char → Groups → Option Groups) :
    Rx.m (f + 1) (.group i r) s gs k =
      Rx.m f r s gs (fun rest gs' => k rest (setGroup gs' i (s.take (s.length - rest.length)))) := by
  simp [Rx.m]

theorem Rx.m_rep (f : Nat) (r : Rx) (mn : Nat) (mx : Option Nat) (g : Bool) (s : List Char) (gs : Groups)
    (k : List Char → Groups → Option Groups) :
    Rx.m (f + 1) (.rep r mn mx g) s gs k = Rx.mRep f r mn mx g 0 s gs k := by
  simp [Rx.m]

theorem Rx.mSeq_nil (f : Nat) (s : List Char) (gs : Groups) (k : List Char → Groups → Option Groups) :
    Rx.mSeq (f + 1) [] s gs k = k s gs := by
  simp [Rx.mSeq]

theorem Rx.mSeq_cons (f : Nat) (r : Rx) (rs : List Rx) (s : List Char) (gs : Groups) (k : List Char → Groups → Option Groups) :
    Rx.mSeq (f + 1) (r :: rs) s gs k = Rx.m f r s gs (fun rest gs' => Rx.mSeq f rs rest gs' k) := by
  simp [Rx.mSeq]

theorem Rx.mRep_more (f : Nat) (r : Rx) (mn m : Nat) (greedy : Bool) (count : Nat) (s : List Char) (gs : Groups)
    (k : List Char → Groups → Option Groups) (h1 : count < mn) (h2 : count < m) :
    Rx.mRep (f + 1) r mn (some m) greedy count s gs k =
      Rx.m f r s gs (fun rest gs' =>
        if rest.length < s.length then Rx.mRep f r mn (some m) greedy (count + 1) rest gs' k else none) := by
  rw [Rx.mRep]
  simp only [h1, h2, decide_true, if_true]

theorem Rx.mRep_done (f : Nat) (r : Rx) (mn m : Nat) (greedy : Bool) (count : Nat) (s : List Char) (gs : Groups)
    (k : List Char → Groups → Option Groups) (h1 : mn ≤ count) (h2 : m ≤ count) :
    Rx.mRep (f + 1) r mn (some m) greedy count s gs k = k s gs := by
  rw [Rx.mRep]
  have h1' : ¬ count < mn := by omega
  have h2' : ¬ count < m := by omega
  simp only [h1', h2', decide_false, if_false, Bool.false_eq_true]
  cases greedy <;> simp <;> cases k s gs <;> rfl

/-- `[class]{n}` on `n` characters of the class followed by anything: the continuation gets the rest -/
theorem Rx.mRep_cls_exact (items : List (Nat × Nat)) (neg : Bool) (n : Nat) (greedy : Bool) (xs : List Char) :
    ∀ (count f : Nat) (rest : List Char) (gs : Groups) (k : List Char → Groups → Option Groups),
      count + xs.length = n → (∀ x ∈ xs, inClass items neg x = true) → 2 * xs.length + 1 ≤ f →
      Rx.mRep f (.cls items neg) n (some n) greedy count (xs ++ rest) gs k = k rest gs := by
  induction xs with
  | nil =>
    intro count f rest gs k hc _ hf
    obtain ⟨f, rfl⟩ : ∃ f', f = f' + 1 := ⟨f - 1, by omega⟩
    have : count = n := by simpa using hc
    subst this
    rw [Rx.mRep_done _ _ _ _ _ _ _ _ _ (Nat.le_refl _) (Nat.le_refl _)]
    rfl
  | cons x xs ih =>
    intro count f rest gs k hc hx hf
    simp only [List.length_cons] at hc hf
    obtain ⟨f, rfl⟩ : ∃ f', f = f' + 2 := ⟨f - 2, by omega⟩
    have hlt : count < n := by omega
    have h1 : inClass items neg x = true := hx x List.mem_cons_self
    have h2 := ih (count + 1) (f + 1) rest gs k (by omega) (fun y hy => hx y (List.mem_cons_of_mem _ hy)) (by omega)
    rw [Rx.mRep_more _ _ _ _ _ _ _ _ _ hlt hlt, List.cons_append, Rx.m_cls_cons, if_pos h1, if_pos (by simp), h2]

theorem Rx.m_rep_cls_exact (items : List (Nat × Nat)) (neg : Bool) (n : Nat) (greedy : Bool) (xs : List Char)
    (f : Nat) (rest : List Char) (gs : Groups) (k : List Char → Groups → Option Groups)
    (hn : xs.length = n) (hx : ∀ x ∈ xs, inClass items neg x = true) (hf : 2 * n + 2 ≤ f) :
    Rx.m f (.rep (.cls items neg) n (some n) greedy) (xs ++ rest) gs k = k rest gs := by
  obtain ⟨f, rfl⟩ : ∃ f', f = f' + 1 := ⟨f - 1, by omega⟩
  rw [Rx.m_rep, Rx.mRep_cls_exact items neg n greedy xs 0 f rest gs k (by omega) hx (by omega)]

theorem Rx.take_append_sub (a b : List Char) : (a ++ b).take ((a ++ b).length - b.length) = a := by
  simp

/-- a capturing group around `[class]{n}` records the `n` characters -/
theorem Rx.m_group_rep_cls (i : Nat) (items : List (Nat × Nat)) (neg : Bool) (n : Nat) (greedy : Bool) (xs : List Char)
    (f : Nat) (rest : List Char) (gs : Groups) (k : List Char → Groups → Option Groups)
    (hn : xs.length = n) (hx : ∀ x ∈ xs, inClass items neg x = true) (hf : 2 * n + 3 ≤ f) :
    Rx.m f (.group i (.rep (.cls items neg) n (some n) greedy)) (xs ++ rest) gs k = k rest (setGroup gs i xs) := by
  obtain ⟨f, rfl⟩ : ∃ f', f = f' + 1 := ⟨f - 1, by omega⟩
  rw [Rx.m_group, Rx.m_rep_cls_exact items neg n greedy xs f rest gs _ hn hx (by omega), Rx.take_append_sub]

/-- a capturing group around a single character class -/
theorem Rx.m_group_cls (i : Nat) (items : List (Nat × Nat)) (neg : Bool) (x : Char)
    (f : Nat) (rest : List Char) (gs : Groups) (k : List Char → Groups → Option Groups)
    (hx : inClass items neg x = true) (hf : 2 ≤ f) :
    Rx.m f (.group i (.cls items neg)) (x :: rest) gs k = k rest (setGroup gs i [x]) := by
  obtain ⟨f, rfl⟩ : ∃ f', f = f' + 2 := ⟨f - 2, by omega⟩
  rw [Rx.m_group, Rx.m_cls_cons, if_pos hx]
  simp


/-! ### fuel -/

theorem Rx.size_pos (r : Rx) : 1 ≤ r.size := by
  cases r <;> simp [Rx.size]

theorem Rx.budget_ge (r : Rx) (s : List Char) : 6 * (s.length + 2) ≤ r.budget s := by
  unfold Rx.budget
  have := Rx.size_pos r
  calc 6 * (s.length + 2) = 3 * (s.length + 2) * 2 := by omega
    _ ≤ (r.size + 2) * (s.length + 2) * 2 := Nat.mul_le_mul_right _ (Nat.mul_le_mul_right _ (by omega))

end Alos2

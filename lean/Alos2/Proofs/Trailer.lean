/-
The trailer reader decodes every low-resolution image from its own bytes: image i occupies the window between the
running sums of the declared record lengths, for ANY number of images and any declared lengths, and each sample of
the image is the big-endian integer stored at its row-major position inside that window.
-/
import Alos2.Model.Trailer
import Alos2.Proofs.Array

namespace Alos2

namespace TrailerAux

theorem chunksOf_get? {α : Type} (k : Nat) (hk : 0 < k) (l : List α) (c : Nat) (hc : c * k < l.length) :
    (chunksOf k l)[c]? = some (slice l (c * k) ((c + 1) * k)) := by
  have hlt := (ArrayAux.chunksOf_lt_length k hk l c).2 hc
  have hg := ArrayAux.chunksOf_getD k hk l c
  rw [List.getD_eq_getElem?_getD, List.getElem?_eq_getElem hlt] at hg
  rw [List.getElem?_eq_getElem hlt]
  simpa using hg

theorem chunksOf_length_mul {α : Type} (k : Nat) (hk : 0 < k) (l : List α) (m : Nat) (hm : l.length = m * k) :
    (chunksOf k l).length = m := by
  have h1 := ArrayAux.chunksOf_lt_length k hk l (chunksOf k l).length
  have h2 := ArrayAux.chunksOf_lt_length k hk l m
  rw [hm] at h1 h2
  have h3 : ¬ ((chunksOf k l).length * k < m * k) := fun h => Nat.lt_irrefl _ (h1.2 h)
  have h4 : ¬ (m < (chunksOf k l).length) := fun h => Nat.lt_irrefl _ (h2.1 h)
  have h5 : ¬ ((chunksOf k l).length < m) := fun h => h3 (Nat.mul_lt_mul_of_pos_right h hk)
  omega

theorem mapM_ok {α β : Type} (f : α → Except Err β) : ∀ (xs : List α) (rs : List β), xs.mapM f = .ok rs →
    rs.length = xs.length ∧ ∀ i, i < xs.length → ∃ x r, xs[i]? = some x ∧ rs[i]? = some r ∧ f x = .ok r := by
  intro xs
  induction xs with
  | nil =>
    intro rs h
    simp [pure, Except.pure] at h
    subst h
    simp
  | cons x xs ih =>
    intro rs h
    rw [List.mapM_cons] at h
    cases hf : f x with
    | error e => simp [hf, bind, Except.bind] at h
    | ok r =>
      cases hm : xs.mapM f with
      | error e => simp [hf, hm, bind, Except.bind] at h
      | ok rs' =>
        simp [hf, hm, bind, Except.bind, pure, Except.pure] at h
        subst h
        obtain ⟨hl, hg⟩ := ih rs' hm
        refine ⟨by simp [hl], ?_⟩
        intro i hi
        cases i with
        | zero => exact ⟨x, r, by simp, by simp, hf⟩
        | succ j =>
          obtain ⟨y, s, h1, h2, h3⟩ := hg j (by simpa using hi)
          exact ⟨y, s, by simpa using h1, by simpa using h2, h3⟩

end TrailerAux

open TrailerAux

/-- the windows are the running sums: image i lies at [L₀+…+L_{i-1}, L₀+…+L_i) -/
theorem trailerWindows_get (sizes : List Nat) (acc i : Nat) (h : i < sizes.length) :
    (trailerWindows acc sizes)[i]? = some (acc + (sizes.take i).sum, acc + (sizes.take (i + 1)).sum) := by
  induction sizes generalizing acc i with
  | nil => simp at h
  | cons s rest ih =>
    cases i with
    | zero => simp [trailerWindows]
    | succ j =>
      have hj : j < rest.length := by simpa using h
      simp only [trailerWindows, List.getElem?_cons_succ, List.take_succ_cons, List.sum_cons]
      rw [ih (acc + s) j hj]
      simp only [Nat.add_assoc]

theorem trailerWindows_length (sizes : List Nat) (acc : Nat) : (trailerWindows acc sizes).length = sizes.length := by
  induction sizes generalizing acc with
  | nil => simp [trailerWindows]
  | cons s rest ih => simp [trailerWindows, ih]

/-- a successfully decoded image has px rows of ln samples; sample (a, b) is the big-endian two's-complement integer held
    by the nb bytes at offset (a·ln + b)·nb of the image's own bytes -/
theorem parseImageData_sample (content : Bytes) (px ln nb : Int) (rows : List (List Int))
    (h : parseImageData content px ln nb = .ok rows) :
    rows.length = px.toNat ∧
    ∀ a b : Nat, a < px.toNat → b < ln.toNat →
      (rows[a]?.bind (fun r => r[b]?)) = some (beInt (slice content ((a * ln.toNat + b) * nb.toNat) ((a * ln.toNat + b + 1) * nb.toNat))) := by
  unfold parseImageData at h
  split at h
  · cases h
  rename_i hnb
  have hk : 0 < nb.toNat := by omega
  simp only at h
  split at h
  · cases h
  rename_i hmod
  split at h
  · cases h
  split at h
  · cases h
  rename_i hlen
  simp only [List.length_map, ne_eq, Decidable.not_not] at hlen hmod
  have hcl : content.length = (content.length / nb.toNat) * nb.toNat := by
    have := Nat.div_add_mod content.length nb.toNat
    rw [hmod, Nat.add_zero, Nat.mul_comm] at this
    exact this.symm
  have hS : (chunksOf nb.toNat content).length = content.length / nb.toNat :=
    chunksOf_length_mul _ hk _ _ hcl
  injection h with h
  by_cases hL : ln.toNat = 0
  · rw [if_pos hL] at h
    subst h
    refine ⟨by simp, ?_⟩
    intro a b _ hb
    omega
  · rw [if_neg hL] at h
    have hLp : 0 < ln.toNat := Nat.pos_of_ne_zero hL
    subst h
    have hsl : ((chunksOf nb.toNat content).map beInt).length = px.toNat * ln.toNat := by
      simp [hlen]
    refine ⟨chunksOf_length_mul _ hLp _ _ hsl, ?_⟩
    intro a b ha hb
    have h1 : (a + 1) * ln.toNat ≤ px.toNat * ln.toNat := Nat.mul_le_mul_right _ ha
    have h1' : (a + 1) * ln.toNat = a * ln.toNat + ln.toNat := Nat.succ_mul _ _
    have hj : a * ln.toNat + b < (chunksOf nb.toNat content).length := by omega
    rw [chunksOf_get? _ hLp _ a (by rw [hsl]; omega)]
    simp only [Option.bind_some, slice, List.getElem?_take, List.getElem?_drop, List.getElem?_map]
    rw [if_pos (by omega)]
    rw [chunksOf_get? _ hk _ _ (by
      rw [hcl, ← hS]; exact Nat.mul_lt_mul_of_pos_right hj hk)]
    simp [slice]

/-- `read_sar_trailer`: when it succeeds, image i was decoded from the bytes [720 + ΣL_{j<i}, 720 + ΣL_{j≤i}) of the file
    (clamped at the end of the file, as Python slices are) with its own declared shape and sample size -/
theorem readTrailer_images (file : Bytes) (imgs : List (List (List Int))) (h : readTrailer file = .ok imgs) :
    ∃ (header : Val) (entries : List Val) (sizes : List Nat),
      parseRecord Gen.trailerFileDescriptor (file.take 720) = .ok header ∧
      header.get? "low_resolution_image_sizes" = some (.list entries) ∧
      entries.mapM (fun e => intField e "record_length") = .ok (sizes.map Int.ofNat) ∧
      imgs.length = entries.length ∧
      ∀ i : Nat, i < entries.length → ∃ e px ln nb,
        entries[i]? = some e ∧ intField e "number_of_pixels" = .ok px ∧ intField e "number_of_lines" = .ok ln ∧
        intField e "number_of_bytes_per_one_sample" = .ok nb ∧
        (imgs[i]?.map Except.ok) = some (parseImageData
          (slice (file.drop 720) ((sizes.take i).sum) ((sizes.take (i + 1)).sum)) px ln nb) := by
  unfold readTrailer at h
  cases hp : parseRecord Gen.trailerFileDescriptor (file.take 720) with
  | error e => simp [hp, bind, Except.bind] at h
  | ok header =>
    rw [hp] at h
    simp only [bind, Except.bind] at h
    split at h
    · rename_i es hes
      simp only [pure, Except.pure] at h
      cases hs : es.mapM (fun e => intField e "record_length") with
      | error e => simp [hs] at h
      | ok sizes =>
        simp only [hs] at h
        split at h
        · simp [throw, throwThe, MonadExceptOf.throw] at h
        rename_i hneg
        have hnn : ∀ s ∈ sizes, 0 ≤ s := by
          intro s hsm
          apply Decidable.byContradiction
          intro hlt
          apply hneg
          rw [List.any_eq_true]
          exact ⟨s, hsm, by simpa using Int.not_le.mp hlt⟩
        have hsz : (sizes.map Int.toNat).map Int.ofNat = sizes := by
          rw [List.map_map]
          conv => rhs; rw [← List.map_id sizes]
          apply List.map_congr_left
          intro s hsm
          simpa using Int.toNat_of_nonneg (hnn s hsm)
        have hel : sizes.length = es.length := (mapM_ok _ es sizes hs).1
        have hwl : (trailerWindows 0 (sizes.map Int.toNat)).length = es.length := by
          rw [trailerWindows_length, List.length_map, hel]
        obtain ⟨hil, hig⟩ := mapM_ok _ _ imgs h
        have hzl : (es.zip (trailerWindows 0 (sizes.map Int.toNat))).length = es.length := by
          rw [List.length_zip, hwl, Nat.min_self]
        refine ⟨header, es, sizes.map Int.toNat, rfl, hes, by rw [hsz]; exact hs, by rw [hil, hzl], ?_⟩
        intro i hi
        obtain ⟨⟨e, wa, wb⟩, r, hx, hr, hf⟩ := hig i (by rw [hzl]; exact hi)
        have hw := trailerWindows_get (sizes.map Int.toNat) 0 i (by rw [List.length_map, hel]; exact hi)
        rw [List.getElem?_zip_eq_some] at hx
        obtain ⟨hx1, hx2⟩ := hx
        rw [hw] at hx2
        injection hx2 with hx2
        simp only [Nat.zero_add, Prod.mk.injEq] at hx2
        obtain ⟨hwa, hwb⟩ := hx2
        simp only at hx1 hf
        cases hpx : intField e "number_of_pixels" with
        | error e => simp [hpx] at hf
        | ok px =>
          cases hln : intField e "number_of_lines" with
          | error e => simp [hpx, hln] at hf
          | ok ln =>
            cases hnb : intField e "number_of_bytes_per_one_sample" with
            | error e => simp [hpx, hln, hnb] at hf
            | ok nb =>
              simp only [hpx, hln, hnb] at hf
              refine ⟨e, px, ln, nb, hx1, hpx, hln, hnb, ?_⟩
              rw [hr, Option.map_some, ← hf, hwa, hwb]
    · simp [throw, throwThe, MonadExceptOf.throw] at h

end Alos2

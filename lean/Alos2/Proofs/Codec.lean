/-
Cache codec round trip.
-/
import Alos2.Model.CacheCodec

namespace Alos2

/-! ### dictionary lookup on literal key lists -/

theorem pyGet_cons (k' : String) (v : PyVal) (rest : List (String × PyVal)) (k : String) :
    pyGet ((k', v) :: rest) k = if k' = k then some v else pyGet rest k := by
  unfold pyGet
  by_cases h : k' = k <;> simp [List.find?, h]

theorem pyGet_nil (k : String) : pyGet [] k = none := rfl

/-- a looked-up value is a member pair -/
theorem pyGet_mem {kvs : List (String × PyVal)} {k : String} {v : PyVal} (h : pyGet kvs k = some v) :
    (k, v) ∈ kvs := by
  induction kvs with
  | nil => simp [pyGet_nil] at h
  | cons kv rest ih =>
    obtain ⟨k', v'⟩ := kv
    rw [pyGet_cons] at h
    by_cases hk : k' = k
    · simp [hk] at h; subst hk; subst h; simp
    · simp [hk] at h; exact List.mem_cons_of_mem _ (ih h)

theorem preprocess_post_all :
    (∀ v : PyVal, v.NoReservedTag = true → postprocess (preprocess v) = v) ∧
    (∀ xs : List PyVal, noTagList xs = true → postprocessList (preprocessList xs) = xs) ∧
    (∀ kvs : List (String × PyVal), noTagKvs kvs = true → postprocessKvs (preprocessKvs kvs) = kvs) := by
  apply preprocess.mutual_induct
  · intro kvs ih h
    rw [PyVal.NoReservedTag.eq_1] at h
    simp only [Bool.and_eq_true] at h
    obtain ⟨⟨h1, _⟩, h3⟩ := h
    rw [preprocess.eq_1, postprocess.eq_1, ih h3]
    split
    · next xs hx hy =>
      exfalso
      have hm := pyGet_mem hx
      simp only [Bool.not_eq_true', List.any_eq_false] at h1
      have := h1 _ hm
      simp at this
    · rfl
  · intro xs ih h
    rw [PyVal.NoReservedTag.eq_2] at h
    rw [preprocess.eq_2, postprocess.eq_2, ih h]
  · intro xs ih h
    rw [PyVal.NoReservedTag.eq_3] at h
    rw [preprocess.eq_3, postprocess.eq_1]
    simp [postprocessKvs, postprocess, pyGet_cons, ih h]
  · intro v h1 h2 h3 _
    cases v <;> simp_all [preprocess, postprocess]
  · intro _; rfl
  · intro x tail ih1 ih2 h
    simp only [noTagList, Bool.and_eq_true] at h
    simp [preprocessList, postprocessList, ih1 h.1, ih2 h.2]
  · intro _; rfl
  · intro k v rest ih1 ih2 h
    simp only [noTagKvs, Bool.and_eq_true] at h
    simp [preprocessKvs, postprocessKvs, ih1 h.1, ih2 h.2]

theorem postprocess_preprocess (v : PyVal) (h : v.NoReservedTag = true) : postprocess (preprocess v) = v :=
  preprocess_post_all.1 v h

theorem preprocess_tupleFree_all :
    (∀ v : PyVal, (preprocess v).TupleFree = true) ∧
    (∀ xs : List PyVal, tupleFreeList (preprocessList xs) = true) ∧
    (∀ kvs : List (String × PyVal), tupleFreeKvs (preprocessKvs kvs) = true) := by
  apply preprocess.mutual_induct
  · intro kvs ih; simp [preprocess, PyVal.TupleFree, ih]
  · intro kvs ih; simp [preprocess, PyVal.TupleFree, ih]
  · intro kvs ih; simp [preprocess, PyVal.TupleFree, tupleFreeKvs, ih]
  · intro v h1 h2 h3
    cases v <;> simp_all [preprocess, PyVal.TupleFree]
  · rfl
  · intro x tail ih1 ih2; simp [preprocessList, tupleFreeList, ih1, ih2]
  · rfl
  · intro k v rest ih1 ih2; simp [preprocessKvs, tupleFreeKvs, ih1, ih2]

theorem preprocess_tupleFree (v : PyVal) : (preprocess v).TupleFree = true := preprocess_tupleFree_all.1 v

theorem preprocess_wf_all :
    (∀ v : PyVal, v.WF = true → (preprocess v).WF = true) ∧
    (∀ xs : List PyVal, wfList xs = true → wfList (preprocessList xs) = true) ∧
    (∀ kvs : List (String × PyVal), wfKvs kvs = true → wfKvs (preprocessKvs kvs) = true) := by
  apply preprocess.mutual_induct
  · intro kvs ih h; simp only [PyVal.WF] at h; simp [preprocess, PyVal.WF, ih h]
  · intro kvs ih h; simp only [PyVal.WF] at h; simp [preprocess, PyVal.WF, ih h]
  · intro kvs ih h; simp only [PyVal.WF] at h; simp [preprocess, PyVal.WF, wfKvs, ih h]
  · intro v h1 h2 h3 h
    cases v <;> simp_all [preprocess]
  · intro _; rfl
  · intro x tail ih1 ih2 h
    simp only [wfList, Bool.and_eq_true] at h
    simp [preprocessList, wfList, ih1 h.1, ih2 h.2]
  · intro _; rfl
  · intro k v rest ih1 ih2 h
    simp only [wfKvs, Bool.and_eq_true] at h
    simp [preprocessKvs, wfKvs, ih1 h.1, ih2 h.2]

theorem preprocess_wf (v : PyVal) (h : v.WF = true) : (preprocess v).WF = true := preprocess_wf_all.1 v h

/-! ### `tolist` / `np.array` -/

theorem foldl_mul_eq (l : List Nat) (a : Nat) : l.foldl (· * ·) a = a * l.foldl (· * ·) 1 := by
  induction l generalizing a with
  | nil => simp
  | cons x xs ih => simp only [List.foldl_cons]; rw [ih (a * x), ih (1 * x)]; simp [Nat.mul_assoc]

theorem prod_cons (n : Nat) (l : List Nat) : (n :: l).foldl (· * ·) 1 = n * l.foldl (· * ·) 1 := by
  simp only [List.foldl_cons]; rw [foldl_mul_eq]; simp

theorem flatMap_chunks (l : List PyVal) (step n : Nat) :
    (List.range n).flatMap (fun i => (l.drop (i * step)).take step) = l.take (n * step) := by
  induction n with
  | zero => simp
  | succ n ih =>
    rw [List.range_succ, List.flatMap_append, ih]
    simp only [List.flatMap_cons, List.flatMap_nil, List.append_nil]
    rw [Nat.succ_mul, List.take_add]

theorem unnest_scalar (fuel : Nat) (v : PyVal) (h : v.isScalar = true) : unnest fuel v = ([], [v]) := by
  cases fuel with
  | zero => rfl
  | succ f => cases v <;> simp_all [unnest, PyVal.isScalar]

theorem unnest_list_cons (fuel : Nat) (x : PyVal) (xs : List PyVal) :
    unnest (fuel + 1) (.list (x :: xs)) =
      ((x :: xs).length :: (unnest fuel x).1, ((x :: xs).map (unnest fuel)).flatMap Prod.snd) := by
  simp [unnest]

theorem unnest_list_range (fuel m : Nat) (f : Nat → PyVal) :
    unnest (fuel + 1) (.list ((List.range (m + 1)).map f)) =
      ((m + 1) :: (unnest fuel (f 0)).1, ((List.range (m + 1)).map (fun i => unnest fuel (f i))).flatMap Prod.snd) := by
  have h : (List.range (m + 1)).map f = f 0 :: (List.range m).map (fun i => f (i + 1)) := by
    rw [List.range_succ_eq_map]; simp [List.map_map, Function.comp_def]
  rw [h, unnest_list_cons]
  have h2 : (List.range (m + 1)).map (fun i => unnest fuel (f i)) = (f 0 :: (List.range m).map (fun i => f (i + 1))).map (unnest fuel) := by
    rw [← h, List.map_map]; rfl
  rw [h2]; simp

theorem unnest_nest_gen (shape : List Nat) : ∀ (fuel : Nat) (flat : List PyVal),
    shape.length ≤ fuel → flat.length = shape.foldl (· * ·) 1 →
    (shape.all (· ≠ 0) = true ∨ shape = [0]) → flat.all PyVal.isScalar = true →
    unnest fuel (nest shape flat) = (shape, flat) := by
  induction shape with
  | nil =>
    intro fuel flat _ hlen _ hs
    simp at hlen
    match flat, hlen with
    | [x], _ =>
      simp at hs
      simp [nest, unnest_scalar _ _ hs]
  | cons n rest ih =>
    intro fuel flat hf hlen hz hs
    cases rest with
    | nil =>
      obtain ⟨fuel, rfl⟩ : ∃ f, fuel = f + 1 := ⟨fuel - 1, by simp at hf; omega⟩
      simp at hlen
      simp only [nest]
      cases flat with
      | nil => simp at hlen; subst hlen; simp [unnest]
      | cons x xs =>
        rw [unnest_list_cons]
        have hall : ∀ y ∈ x :: xs, unnest fuel y = ([], [y]) := by
          intro y hy
          exact unnest_scalar _ _ (List.all_eq_true.mp hs y hy)
        have hmap : (x :: xs).map (unnest fuel) = (x :: xs).map (fun y => ([], [y])) :=
          List.map_congr_left hall
        rw [hmap, hall x (by simp), ← hlen]
        simp [List.flatMap_map]
    | cons r rest' =>
      obtain ⟨fuel, rfl⟩ : ∃ f, fuel = f + 1 := ⟨fuel - 1, by simp at hf; omega⟩
      have hz' : (n :: r :: rest').all (· ≠ 0) = true := by
        rcases hz with hz | hz
        · exact hz
        · simp at hz
      have hn : n ≠ 0 := by simp at hz'; exact hz'.1
      have hrest : (r :: rest').all (· ≠ 0) = true := by
        simp only [List.all_cons, Bool.and_eq_true] at hz' ⊢; exact hz'.2
      rw [prod_cons] at hlen
      simp only [nest]
      generalize hstep : (r :: rest').foldl (· * ·) 1 = step at hlen
      have hchunk : ∀ i ∈ List.range n,
          unnest fuel (nest (r :: rest') ((flat.drop (i * step)).take step)) =
            (r :: rest', (flat.drop (i * step)).take step) := by
        intro i hi
        have hi : i < n := List.mem_range.mp hi
        apply ih
        · simp at hf ⊢; omega
        · rw [hstep, List.length_take, List.length_drop, hlen]
          have : (i + 1) * step ≤ n * step := Nat.mul_le_mul_right _ hi
          rw [Nat.succ_mul] at this
          omega
        · exact Or.inl hrest
        · rw [List.all_eq_true] at hs ⊢
          intro y hy
          exact hs y (List.mem_of_mem_drop (List.mem_of_mem_take hy))
      obtain ⟨m, rfl⟩ : ∃ m, n = m + 1 := ⟨n - 1, by omega⟩
      rw [unnest_list_range, hchunk 0 (by simp)]
      have hmap : (List.range (m+1)).map (fun i => unnest fuel (nest (r :: rest') ((flat.drop (i * step)).take step)))
          = (List.range (m+1)).map (fun i => (r :: rest', (flat.drop (i * step)).take step)) :=
        List.map_congr_left hchunk
      rw [hmap, List.flatMap_map]
      simp only []
      rw [flatMap_chunks, ← hlen, List.take_length]

theorem unnest_nest (shape : List Nat) (flat : List PyVal) (hlen : flat.length = shape.foldl (· * ·) 1)
    (hrank : shape.length ≤ 7) (hz : shape.all (· ≠ 0) = true ∨ shape = [0]) (hs : flat.all PyVal.isScalar = true) :
    unnest 8 (nest shape flat) = (shape, flat) :=
  unnest_nest_gen shape 8 flat (by omega) hlen hz hs

/-! ### the calendar round trip (Hinnant's algorithms on days 1970-01-01 .. 9999-12-31) -/

/-- year-of-era facts -/
theorem yoe_bounds (doe : Int) (h0 : 0 ≤ doe) (h1 : doe < 146097) :
    let yoe := (doe - doe / 1460 + doe / 36524 - doe / 146096) / 365
    0 ≤ yoe ∧ yoe ≤ 399 ∧ 0 ≤ doe - (365 * yoe + yoe / 4 - yoe / 100) ∧
      doe - (365 * yoe + yoe / 4 - yoe / 100) ≤ 365 := by
  intro yoe
  have hf : doe / 36524 = 0 ∨ doe / 36524 = 1 ∨ doe / 36524 = 2 ∨ doe / 36524 = 3 ∨ doe / 36524 = 4 := by omega
  have hd : yoe / 100 = 0 ∨ yoe / 100 = 1 ∨ yoe / 100 = 2 ∨ yoe / 100 = 3  := by omega
  rcases hf with hf | hf | hf | hf | hf <;> rcases hd with hd | hd | hd | hd <;> omega

theorem civil_roundtrip (z : Int) (h0 : 0 ≤ z) (h1 : z < 2932897) :
    ∃ (y : Int) (m d : Nat), civilFromDays z = (y, m, d) ∧ daysFromCivil' y m d = z ∧
      1970 ≤ y ∧ y ≤ 9999 ∧ 1 ≤ m ∧ m ≤ 12 ∧ 1 ≤ d ∧ d ≤ 31 := by
  refine ⟨_, _, _, rfl, ?_⟩
  have hz : (if z + 719468 ≥ 0 then z + 719468 else z + 719468 - 146096) = z + 719468 := by
    rw [if_pos (by omega)]
  simp only [hz]
  generalize hera : (z + 719468) / 146097 = era
  generalize hdoe : z + 719468 - era * 146097 = doe
  have hd0 : 0 ≤ doe := by omega
  have hd1 : doe < 146097 := by omega
  have he0 : 4 ≤ era := by omega
  have he1 : era ≤ 24 := by omega
  have hy := yoe_bounds doe hd0 hd1
  simp only at hy
  generalize hyoe : (doe - doe / 1460 + doe / 36524 - doe / 146096) / 365 = yoe at hy ⊢
  obtain ⟨hy0, hy1, hdoy0, hdoy1⟩ := hy
  generalize hdoy : doe - (365 * yoe + yoe / 4 - yoe / 100) = doy at hdoy0 hdoy1 ⊢
  generalize hmp : (5 * doy + 2) / 153 = mp
  have hmp0 : 0 ≤ mp := by omega
  have hmp1 : mp ≤ 11 := by omega
  have hdd0 : 1 ≤ doy - (153 * mp + 2) / 5 + 1 := by omega
  have hdd1 : doy - (153 * mp + 2) / 5 + 1 ≤ 31 := by omega
  generalize hdd : doy - (153 * mp + 2) / 5 + 1 = dd at hdd0 hdd1 ⊢
  have hyL : era = 4 → 369 ≤ yoe := by intro h; omega
  have hyL2 : era = 4 → yoe = 369 → 10 ≤ mp := by intro h h'; omega
  have hyU : era = 24 → yoe = 399 → mp < 10 := by intro h h'; omega
  by_cases hlt : mp < 10
  · simp only [if_pos hlt]
    have h3 : ¬ (mp + 3 ≤ 2) := by omega
    simp only [if_neg h3]
    refine ⟨?_, by omega, by omega, by omega, by omega, by omega, by omega⟩
    unfold daysFromCivil'
    have hm : ((mp + 3).toNat : Int) = mp + 3 := by omega
    have hdn : (dd.toNat : Int) = dd := by omega
    have hm2 : ¬ ((mp + 3).toNat ≤ 2) := by omega
    have hm3 : (mp + 3).toNat > 2 := by omega
    simp only [if_neg hm2, if_pos hm3, hm, hdn]
    have hy' : yoe + era * 400 ≥ 0 := by omega
    simp only [if_pos hy']
    have hera' : (yoe + era * 400) / 400 = era := by omega
    have e1 : yoe + era * 400 - era * 400 = yoe := by omega
    have e2 : mp + 3 - 3 = mp := by omega
    simp only [hera', e1, e2]
    omega
  · simp only [if_neg hlt]
    have h3 : (mp - 9 ≤ 2) := by omega
    simp only [if_pos h3]
    refine ⟨?_, by omega, by omega, by omega, by omega, by omega, by omega⟩
    unfold daysFromCivil'
    have hm : ((mp - 9).toNat : Int) = mp - 9 := by omega
    have hdn : (dd.toNat : Int) = dd := by omega
    have hm2 : ((mp - 9).toNat ≤ 2) := by omega
    have hm3 : ¬ (mp - 9).toNat > 2 := by omega
    simp only [if_pos hm2, if_neg hm3, hm, hdn]
    have hy' : yoe + era * 400 + 1 - 1 ≥ 0 := by omega
    simp only [if_pos hy']
    have hera' : (yoe + era * 400 + 1 - 1) / 400 = era := by omega
    have e1 : yoe + era * 400 + 1 - 1 - era * 400 = yoe := by omega
    have e2 : mp - 9 + 9 = mp := by omega
    simp only [hera', e1, e2]
    omega

/-! ### zero-padded decimal printing and parsing -/

def padDigits (n w : Nat) : List Char :=
  List.replicate (w - (Nat.toDigits 10 n).length) '0' ++ Nat.toDigits 10 n

theorem padNat_toList (n w : Nat) : (padNat n w).toList = padDigits n w := by
  simp [padNat, padDigits, Nat.repr_eq_ofList_toDigits]

theorem padDigits_length (n w : Nat) (hw : 0 < w) (h : n < 10 ^ w) : (padDigits n w).length = w := by
  have := (Nat.length_toDigits_le_iff (b := 10) (n := n) (by decide) hw).mpr h
  simp [padDigits]; omega

theorem digitsNat_fold (cs : List Char) (a : Nat) :
    cs.foldl (fun a c => a * 10 + (c.toNat - 48)) a = Nat.ofDigitChars 10 cs a := by
  induction cs generalizing a with
  | nil => simp
  | cons c cs ih => simp [Nat.ofDigitChars_cons, ih, Nat.mul_comm]

theorem digitsNat_padDigits (n w : Nat) : digitsNat (padDigits n w) = some n := by
  have hall : (padDigits n w).all Char.isDigit = true := by
    rw [List.all_eq_true]
    intro c hc
    simp only [padDigits, List.mem_append, List.mem_replicate] at hc
    rcases hc with ⟨_, rfl⟩ | hc
    · decide
    · exact Nat.isDigit_of_mem_toDigits (by decide) (by decide) hc
  have hne : (padDigits n w).isEmpty = false := by
    simp [padDigits]
  unfold digitsNat
  rw [if_neg (by simp [hall, hne])]
  rw [digitsNat_fold]
  simp [padDigits, Nat.ofDigitChars_append]

theorem len2 {l : List Char} (h : l.length = 2) : ∃ a b, l = [a, b] := by
  match l, h with
  | [a, b], _ => exact ⟨a, b, rfl⟩

theorem len4 {l : List Char} (h : l.length = 4) : ∃ a b c d, l = [a, b, c, d] := by
  match l, h with
  | [a, b, c, d], _ => exact ⟨a, b, c, d, rfl⟩

/-- slicing the fixed-width timestamp text -/
theorem stamp_slices (A B C D E F G : List Char) (hA : A.length = 4) (hB : B.length = 2) (hC : C.length = 2)
    (hD : D.length = 2) (hE : E.length = 2) (hF : F.length = 2) (s1 s2 s3 s4 s5 : Char) :
    let cs := A ++ s1 :: (B ++ s2 :: (C ++ s3 :: (D ++ s4 :: (E ++ s5 :: (F ++ G)))))
    cs.take 4 = A ∧ (cs.drop 5).take 2 = B ∧ (cs.drop 8).take 2 = C ∧ (cs.drop 11).take 2 = D ∧
      (cs.drop 14).take 2 = E ∧ (cs.drop 17).take 2 = F ∧ cs.drop 19 = G := by
  obtain ⟨a1, a2, a3, a4, rfl⟩ := len4 hA
  obtain ⟨b1, b2, rfl⟩ := len2 hB
  obtain ⟨c1, c2, rfl⟩ := len2 hC
  obtain ⟨d1, d2, rfl⟩ := len2 hD
  obtain ⟨e1, e2, rfl⟩ := len2 hE
  obtain ⟨f1, f2, rfl⟩ := len2 hF
  simp

/-- parsing a well-formed stamp -/
theorem parse_stamp (u : String) (ps : Nat) (hu : unitPerSecond u = some ps) (s : String)
    (y m d hh mm ss f : Nat) (G : List Char)
    (hs : s.toList = padDigits y 4 ++ '-' :: (padDigits m 2 ++ '-' :: (padDigits d 2 ++ 'T' ::
      (padDigits hh 2 ++ ':' :: (padDigits mm 2 ++ ':' :: (padDigits ss 2 ++ G))))))
    (hy : y < 10 ^ 4) (hm : m < 10 ^ 2) (hd : d < 10 ^ 2) (hhh : hh < 10 ^ 2) (hmm : mm < 10 ^ 2) (hss : ss < 10 ^ 2)
    (hG : (if ps = 1 then some 0 else digitsNat (G.drop 1)) = some f) :
    parseRefToken u s = some ((daysFromCivil' y m d * 86400 + (hh * 3600 + mm * 60 + ss : Nat)) * ps + f) := by
  unfold parseRefToken
  rw [hu]
  simp only []
  obtain ⟨h1, h2, h3, h4, h5, h6, h7⟩ := stamp_slices _ _ _ _ _ _ G
    (padDigits_length y 4 (by decide) hy) (padDigits_length m 2 (by decide) hm)
    (padDigits_length d 2 (by decide) hd) (padDigits_length hh 2 (by decide) hhh)
    (padDigits_length mm 2 (by decide) hmm) (padDigits_length ss 2 (by decide) hss) '-' '-' 'T' ':' ':'
  simp only [← hs] at h1 h2 h3 h4 h5 h6 h7
  have h8 : s.toList.drop 20 = G.drop 1 := by rw [← h7, List.drop_drop]
  rw [h1, h2, h3, h4, h5, h6, h8]
  simp only [digitsNat_padDigits, hG]

theorem refToken_toList (u : String) (ps : Nat) (hu : unitPerSecond u = some ps) (v : Int) (y : Int) (m d : Nat)
    (hc : civilFromDays (v / (86400 * ps)) = (y, m, d)) :
    (refToken u v).toList =
      let tod := (v - v / (86400 * ps) * (86400 * ps)).toNat
      let secs := tod / ps
      padDigits y.toNat 4 ++ '-' :: (padDigits m 2 ++ '-' :: (padDigits d 2 ++ 'T' ::
      (padDigits (secs / 3600) 2 ++ ':' :: (padDigits (secs / 60 % 60) 2 ++ ':' :: (padDigits (secs % 60) 2 ++
        (if ps = 1 then [] else '.' :: padDigits (tod % ps) ((toString ps).length - 1))))))) := by
  unfold refToken
  rw [hu]
  simp only [hc]
  split <;> simp [padNat_toList]

theorem parseRefToken_refToken_core (u : String) (ps w : Nat) (hu : unitPerSecond u = some ps)
    (hps : ps = 10 ^ w) (hw' : ps = 1 ∨ 0 < w)
    (ref : Int) (h0 : 0 ≤ ref) (h1 : ref < 253402300800 * ps) :
    parseRefToken u (refToken u ref) = some ref := by
  have hpos : 0 < ps := by rw [hps]; exact Nat.pow_pos (by decide)
  have hposI : (0 : Int) < (ps : Int) := by omega
  have hpd : (0 : Int) < 86400 * (ps : Int) := by omega
  have hd0 : 0 ≤ ref / (86400 * (ps : Int)) := Int.ediv_nonneg h0 (by omega)
  have hd1 : ref / (86400 * (ps : Int)) < 2932897 := by
    apply Int.ediv_lt_of_lt_mul hpd
    omega
  obtain ⟨y, m, d, hc, hrt, hy0, hy1, hm0, hm1, hdd0, hdd1⟩ := civil_roundtrip _ hd0 hd1
  have hst := refToken_toList u ps hu ref y m d hc
  simp only [] at hst
  have hmod := Int.emod_def ref (86400 * (ps : Int))
  have hmod0 := Int.emod_nonneg ref (by omega : 86400 * (ps : Int) ≠ 0)
  have hmod1 := Int.emod_lt_of_pos ref hpd
  generalize hdays : ref / (86400 * (ps : Int)) = days at *
  generalize htod : (ref - days * (86400 * (ps : Int))).toNat = tod at *
  have htodI : (tod : Int) = ref - days * (86400 * (ps : Int)) := by
    rw [← htod]; rw [Int.toNat_of_nonneg]; rw [Int.mul_comm days]; omega
  have htodlt : tod < 86400 * ps := by
    have : (tod : Int) < 86400 * (ps : Int) := by rw [htodI, Int.mul_comm days]; omega
    omega
  have hsecs : tod / ps < 86400 := by
    apply Nat.div_lt_of_lt_mul; rw [Nat.mul_comm]; exact htodlt
  have hfrac : tod % ps < ps := Nat.mod_lt _ hpos
  have hdm := Nat.div_add_mod tod ps
  generalize hsecsd : tod / ps = secs at *
  generalize hfracd : tod % ps = frac at *
  have key := parse_stamp u ps hu (refToken u ref) y.toNat m d (secs / 3600) (secs / 60 % 60) (secs % 60) frac _ hst
    (by omega) (by omega) (by omega) (by omega) (by omega) (by omega)
    (by
      rcases hw' with h | h
      · rw [if_pos h]; subst h; congr 1; omega
      · have hne : ps ≠ 1 := by
          rw [hps]; intro h1
          have : 10 ^ 1 ≤ 10 ^ w := Nat.pow_le_pow_right (by decide) h
          omega
        rw [if_neg hne, if_neg hne]
        simp only [List.drop_succ_cons, List.drop_zero]
        exact digitsNat_padDigits _ _)
  rw [key]
  congr 1
  have hyn : ((y.toNat : Nat) : Int) = y := by omega
  rw [hyn, hrt]
  have hsum : secs / 3600 * 3600 + secs / 60 % 60 * 60 + secs % 60 = secs := by omega
  rw [hsum]
  have : (days * 86400 + (secs : Int)) * (ps : Int) + (frac : Int)
      = days * (86400 * (ps : Int)) + ((ps * secs + frac : Nat) : Int) := by
    push_cast
    rw [Int.add_mul, Int.mul_assoc, Int.add_assoc, Int.mul_comm (secs : Int)]
  rw [this, hdm, htodI]
  omega

theorem unitPerSecond_cases (u : String) (ps : Nat) (hu : unitPerSecond u = some ps) :
    ps = 10 ^ 0 ∨ ps = 10 ^ 3 ∨ ps = 10 ^ 6 ∨ ps = 10 ^ 9 := by
  unfold unitPerSecond at hu
  split at hu <;> simp at hu <;> omega

theorem parseRefToken_refToken (u : String) (ps : Nat) (hu : unitPerSecond u = some ps)
    (ref : Int) (h0 : 0 ≤ ref) (h1 : ref < 253402300800 * ps) :
    parseRefToken u (refToken u ref) = some ref := by
  rcases unitPerSecond_cases u ps hu with h | h | h | h
  · exact parseRefToken_refToken_core u ps 0 hu h (Or.inl h) ref h0 h1
  · exact parseRefToken_refToken_core u ps 3 hu h (Or.inr (by decide)) ref h0 h1
  · exact parseRefToken_refToken_core u ps 6 hu h (Or.inr (by decide)) ref h0 h1
  · exact parseRefToken_refToken_core u ps 9 hu h (Or.inr (by decide)) ref h0 h1

/-! ### arrays -/
theorem decode_encode_backend (b : BackendArray) (rpc : Nat) :
    decodeArray rpc (encodeArray (.backend b)) = .ok (withRpcData rpc (.backend b)) := by
  simp [encodeArray, decodeArray, pyGet_cons, withRpcData]

theorem decode_encode_array (a : ArrData) (h : a.InDomain = true) (rpc : Nat) :
    decodeArray rpc (encodeArray a) = .ok (withRpcData rpc a) := by
  cases a with
  | backend b => exact decode_encode_backend b rpc
  | nd a =>
    obtain ⟨dt, shape, flat⟩ := a
    simp only [ArrData.InDomain, NdArray.InDomain, Bool.and_eq_true, decide_eq_true_eq, Bool.or_eq_true] at h
    obtain ⟨⟨⟨⟨hlen, hrank⟩, hz⟩, hs⟩, hM⟩ := h
    have hz' : shape.all (· ≠ 0) = true ∨ shape = [0] := hz
    have hun := unnest_nest shape flat hlen hrank hz' hs
    simp only [encodeArray, withRpcData]
    split
    · next hk =>
      simp [decodeArray, pyGet_cons, hun, hk]
    · next hk =>
      rw [if_pos hk] at hM
      simp only [Bool.and_eq_true, decide_eq_true_eq] at hM
      obtain ⟨⟨hu, hint⟩, ⟨href0, href1⟩, hvalid⟩ := hM
      obtain ⟨ps, hps⟩ := Option.isSome_iff_exists.mp hu
      rw [hps, Option.getD_some] at href1
      have hv : ∀ v, PyVal.int v ∈ flat → v ≠ natValue →
          v - (List.filterMap (fun x => match pyInt? x with
            | some v => if v = natValue then none else some v
            | none => none) flat).headD 0 ≠ natValue := by
        intro v hv hne
        have hmem : v ∈ List.filterMap (fun x => match pyInt? x with
            | some v => if v = natValue then none else some v
            | none => none) flat :=
          List.mem_filterMap.mpr ⟨.int v, hv, by simp [pyInt?, hne]⟩
        exact of_decide_eq_true (List.all_eq_true.mp hvalid v hmem)
      clear hvalid
      generalize (List.filterMap (fun x => match pyInt? x with
            | some v => if v = natValue then none else some v
            | none => none) flat).headD 0 = ref at *
      have hparse := parseRefToken_refToken _ ps hps ref href0 href1
      have hoffs_len : (flat.map (fun x => match pyInt? x with
        | some v => if v = natValue then PyVal.int natValue else .int (v - ref)
        | none => x)).length = shape.foldl (· * ·) 1 := by rw [List.length_map]; exact hlen
      have hoffs_sc : (flat.map (fun x => match pyInt? x with
        | some v => if v = natValue then PyVal.int natValue else .int (v - ref)
        | none => x)).all PyVal.isScalar = true := by
        rw [List.all_eq_true]
        intro y hy
        obtain ⟨x, hx, rfl⟩ := List.mem_map.mp hy
        have := List.all_eq_true.mp hint x hx
        cases x <;> simp at this
        simp only [pyInt?]
        split <;> rfl
      have hback : (flat.map (fun x => match pyInt? x with
        | some v => if v = natValue then PyVal.int natValue else .int (v - ref)
        | none => x)).map (fun x => match pyInt? x with
                  | some o => if o = natValue then PyVal.int natValue else .int (ref + o)
                  | none => x) = flat := by
        rw [List.map_map]
        conv => rhs; rw [← List.map_id flat]
        apply List.map_congr_left
        intro x hx
        have := List.all_eq_true.mp hint x hx
        cases x <;> simp at this
        rename_i v
        simp only [Function.comp, pyInt?, id]
        by_cases hn : v = natValue
        · simp [hn]
        · have := hv v hx hn
          simp [hn, this]
          omega
      have hun2 := unnest_nest shape _ hoffs_len hrank hz' hoffs_sc
      generalize (flat.map (fun x => match pyInt? x with
        | some v => if v = natValue then PyVal.int natValue else .int (v - ref)
        | none => x)) = offs at *
      simp [decodeArray, pyGet_cons, hun2, hk, hparse]
      exact hback
    · next hk1 hk2 =>
      have : ¬ dtypeKind dt = 'M' := hk2
      simp [decodeArray, pyGet_cons, hun, this]

/-! ### the encoded document does not use the reserved tag -/

theorem noTagList_iff (xs : List PyVal) : noTagList xs = true ↔ ∀ x ∈ xs, x.NoReservedTag = true := by
  induction xs with
  | nil => simp [noTagList]
  | cons x xs ih => simp [noTagList, ih]

theorem scalar_noTag (x : PyVal) (h : x.isScalar = true) : x.NoReservedTag = true := by
  cases x <;> simp_all [PyVal.isScalar, PyVal.NoReservedTag]

theorem nest_noTag (shape : List Nat) : ∀ (flat : List PyVal), flat.all PyVal.isScalar = true →
    (nest shape flat).NoReservedTag = true := by
  induction shape with
  | nil =>
    intro flat hs
    cases flat with
    | nil => simp [nest, PyVal.NoReservedTag]
    | cons x xs =>
      simp only [List.all_cons, Bool.and_eq_true] at hs
      simpa [nest] using scalar_noTag x hs.1
  | cons n rest ih =>
    intro flat hs
    cases rest with
    | nil =>
      simp only [nest, PyVal.NoReservedTag, noTagList_iff]
      intro x hx
      exact scalar_noTag x (List.all_eq_true.mp hs x hx)
    | cons r rest' =>
      simp only [nest, PyVal.NoReservedTag, noTagList_iff]
      intro x hx
      obtain ⟨i, _, rfl⟩ := List.mem_map.mp hx
      apply ih
      rw [List.all_eq_true] at hs ⊢
      intro y hy
      exact hs y (List.mem_of_mem_drop (List.mem_of_mem_take hy))

theorem encodeArray_noTag (a : ArrData) (h : a.InDomain = true) : (encodeArray a).NoReservedTag = true := by
  cases a with
  | backend b =>
    simp only [ArrData.InDomain, Bool.and_eq_true] at h
    simp [encodeArray, PyVal.NoReservedTag, noTagKvs, h.1, h.2]
  | nd a =>
    obtain ⟨dt, shape, flat⟩ := a
    simp only [ArrData.InDomain, NdArray.InDomain, Bool.and_eq_true] at h
    obtain ⟨⟨⟨_, _⟩, hs⟩, hM⟩ := h
    have h1 := nest_noTag shape flat hs
    simp only [encodeArray]
    split
    · simp [PyVal.NoReservedTag, noTagKvs, h1]
    · next hk =>
      have h2 : ∀ ref : Int, (nest shape (flat.map (fun x => match pyInt? x with
        | some v => if v = natValue then PyVal.int natValue else .int (v - ref)
        | none => x))).NoReservedTag = true := by
        intro ref
        apply nest_noTag
        rw [List.all_eq_true]
        intro y hy
        obtain ⟨x, hx, rfl⟩ := List.mem_map.mp hy
        have := List.all_eq_true.mp hs x hx
        clear hM
        split
        · split <;> rfl
        · exact this
      simp [PyVal.NoReservedTag, noTagKvs]
      exact h2 _
    · simp [PyVal.NoReservedTag, noTagKvs, h1]

theorem encodeItems_keys (items : List (String × CNode)) :
    (encodeItems items).map Prod.fst = items.map Prod.fst := by
  induction items with
  | nil => simp [encodeItems]
  | cons kv rest ih => obtain ⟨k, n⟩ := kv; simp [encodeItems, ih]

theorem encodeItems_dict (items : List (String × CNode)) :
    ∀ kv ∈ encodeItems items, ∃ kvs, kv.2 = PyVal.dict kvs := by
  induction items with
  | nil => simp [encodeItems]
  | cons kv rest ih =>
    obtain ⟨k, n⟩ := kv
    intro kv' hkv'
    simp only [encodeItems, List.mem_cons] at hkv'
    rcases hkv' with rfl | h
    · cases n with
      | var v => exact ⟨_, rfl⟩
      | group g => cases g; exact ⟨_, rfl⟩
    · exact ih _ h

theorem encodeVar_noTag (v : CVar) (h1 : v.dims.NoReservedTag = true) (h2 : v.data.InDomain = true)
    (h3 : attrsOk v.attrs = true) : (encodeVar v).NoReservedTag = true := by
  simp [encodeVar, PyVal.NoReservedTag, noTagKvs, h1, encodeArray_noTag _ h2]
  simpa [attrsOk, PyVal.NoReservedTag] using h3

theorem encode_noTag_all :
    (∀ (fuel : Nat) (g : CGroup), g.InDomain fuel = true → (encodeGroup g).NoReservedTag = true) ∧
    (∀ (fuel : Nat) (pp : String) (pu : PyVal) (items : List (String × CNode)),
      itemsInDomain fuel pp pu items = true → noTagKvs (encodeItems items) = true) := by
  apply CGroup.InDomain.mutual_induct
  · intro g h; simp [CGroup.InDomain] at h
  · intro fuel path url data attrs ih h
    simp only [CGroup.InDomain, Bool.and_eq_true, decide_eq_true_eq] at h
    obtain ⟨⟨⟨ha, hu⟩, hnd⟩, hi⟩ := h
    have ih := ih hi
    have hkeys := encodeItems_keys data
    simp only [attrsOk] at ha
    simp only [encodeGroup]
    rw [PyVal.NoReservedTag.eq_1]
    simp [noTagKvs, hu, ha]
    rw [PyVal.NoReservedTag.eq_1, hkeys]
    simp only [Bool.and_eq_true, Bool.not_eq_true', decide_eq_true_eq]
    refine ⟨by simp [PyVal.NoReservedTag], ⟨⟨?_, hnd⟩, ih⟩, by simp [PyVal.NoReservedTag]⟩
    rw [List.any_eq_false]
    intro kv hkv
    obtain ⟨kvs, hk⟩ := encodeItems_dict _ kv hkv
    simp [hk]
  · intros; rfl
  · intro fuel pp pu k v rest ih h
    simp only [itemsInDomain, Bool.and_eq_true] at h
    simp [encodeItems, noTagKvs, encodeNode, ih h.2, encodeVar_noTag v h.1.1.1 h.1.1.2 h.1.2]
  · intro fuel pp pu k path url data attrs rest ihg ih h
    simp only [itemsInDomain, Bool.and_eq_true] at h
    simp [encodeItems, noTagKvs, encodeNode, ih h.2, ihg h.1.2]

/-! ### groups -/
theorem decode_encode_var (v : CVar) (h : v.data.InDomain = true) (rpc : Nat) :
    decodeNode rpc (fuel + 1) (encodeVar v) = .ok (.var { v with data := withRpcData rpc v.data }) := by
  simp [encodeVar, decodeNode, decodeVar, pyGet_cons, decode_encode_array _ h, Except.map, bind, Except.bind, pure, Except.pure]

theorem decode_encode_all (rpc : Nat) :
    (∀ (fuel : Nat) (g : CGroup), g.InDomain fuel = true →
      (∀ F, fuel < F → decodeNode rpc F (encodeGroup g) = .ok (.group (g.withRpc rpc))) ∧
      (∀ p u d a, g = .mk p u d a → adjustItems p u (withRpcItems rpc d) = withRpcItems rpc d)) ∧
    (∀ (fuel : Nat) (pp : String) (pu : PyVal) (items : List (String × CNode)),
      itemsInDomain fuel pp pu items = true →
      (∀ F, fuel < F → decodeItems rpc F (encodeItems items) = .ok (withRpcItems rpc items)) ∧
      adjustItems pp pu (withRpcItems rpc items) = withRpcItems rpc items) := by
  apply CGroup.InDomain.mutual_induct
  · intro g h; simp [CGroup.InDomain] at h
  · intro fuel path url data attrs ih h
    simp only [CGroup.InDomain, Bool.and_eq_true] at h
    obtain ⟨ih1, ih2⟩ := ih h.2
    constructor
    · intro F hF
      obtain ⟨F, rfl⟩ : ∃ F', F = F' + 1 := ⟨F - 1, by omega⟩
      have ih1 := ih1 F (by omega)
      simp [encodeGroup, decodeNode, pyGet_cons, ih1, mkGroup, ih2, CGroup.withRpc, bind, Except.bind, pure, Except.pure]
    · intro p u d a he
      cases he
      exact ih2
  · intro fuel pp pu _
    simp [encodeItems, decodeItems, withRpcItems, adjustItems]
  · intro fuel pp pu k v rest ih h
    simp only [itemsInDomain, Bool.and_eq_true] at h
    obtain ⟨ih1, ih2⟩ := ih h.2
    constructor
    · intro F hF
      obtain ⟨F, rfl⟩ : ∃ F', F = F' + 1 := ⟨F - 1, by omega⟩
      have ih1 := ih1 (F + 1) hF
      simp [encodeItems, encodeNode, decodeItems, decode_encode_var v h.1.1.2, ih1, withRpcItems, CNode.withRpc, bind, Except.bind, pure, Except.pure]
    · simp [withRpcItems, CNode.withRpc, adjustItems, ih2]
  · intro fuel pp pu k path url data attrs rest ihg ih h
    simp only [itemsInDomain, Bool.and_eq_true, decide_eq_true_eq, Bool.or_eq_true, Bool.not_eq_true'] at h
    obtain ⟨⟨⟨hp, hu⟩, hg⟩, hr⟩ := h
    obtain ⟨ih1, ih2⟩ := ih hr
    obtain ⟨ihg1, ihg2⟩ := ihg hg
    have ihg2 := ihg2 _ _ _ _ rfl
    constructor
    · intro F hF
      have ih1 := ih1 F hF
      have ihg1 := ihg1 F hF
      simp [encodeItems, encodeNode, decodeItems, ihg1, ih1, withRpcItems, CNode.withRpc, bind, Except.bind, pure, Except.pure]
    · simp only [withRpcItems, CNode.withRpc, CGroup.withRpc]
      cases url with
      | none =>
        have hpu : pu = .none := by
          cases pu <;> simp_all [PyVal.isNone]
        subst hpu
        simp only [adjustItems, ← hp, ihg2, ih2]
      | _ => simp only [adjustItems, ← hp, ihg2, ih2]

/-- **C08 (model level)**: decoding the encoded document of any group in the codec domain reproduces the group —
    every variable and attribute, datetimes to the unit, integers exactly, nested lists, tuples as tuples, byte
    ranges and shape of the image array, group paths and member order — with the image arrays carrying the
    `records_per_chunk` of the decoding call.

    Variant of the originally stated `decode_encode` (hypothesis `g.InDomain decodeFuel`), which is false: see
    `decode_encode_original_false` below.  The domain fuel has to be strictly below the decoder's fuel, because
    `itemsInDomain 0` accepts variables whereas `decodeNode _ 0` rejects every node. -/
theorem decode_encode' (g : CGroup) (fuel : Nat) (hfuel : fuel < decodeFuel) (hg : g.InDomain fuel = true) (rpc : Nat) :
    decodeDoc rpc (encodeDoc g) = .ok (g.withRpc rpc) := by
  unfold decodeDoc encodeDoc
  rw [postprocess_preprocess _ (encode_noTag_all.1 fuel g hg)]
  rw [((decode_encode_all rpc).1 fuel g hg).1 decodeFuel hfuel]

/-- the encoded document is a tuple-free container -/
theorem encodeDoc_shape (g : CGroup) : (encodeDoc g).TupleFree = true ∧ (encodeDoc g).isContainer = true := by
  refine ⟨preprocess_tupleFree _, ?_⟩
  cases g
  simp [encodeDoc, encodeGroup, preprocess, PyVal.isContainer]

/-! ### counterexample to the original statement of `decode_encode` -/

/-- a chain of `n + 1` nested groups with one variable in the innermost one -/
def deepGroup : Nat → String → CGroup
  | 0, p => .mk p .none [("v", .var ⟨.none, .nd ⟨"int64", [1], [.int 1]⟩, []⟩)] []
  | n + 1, p => .mk p .none [("g", .group (deepGroup n (posixJoin p "g")))] []

theorem decodeNode_deepGroup (rpc n : Nat) : ∀ p : String,
    decodeNode rpc (n + 1) (encodeGroup (deepGroup n p)) = .error .other := by
  induction n with
  | zero =>
    intro p
    simp [deepGroup, encodeGroup, encodeItems, decodeNode, decodeItems, pyGet_cons, bind, Except.bind]
  | succ n ih =>
    intro p
    simp [deepGroup, encodeGroup, encodeItems, encodeNode, decodeNode, decodeItems, pyGet_cons, ih, bind, Except.bind]

/-- 64 nested groups with a variable in the innermost one are in `InDomain decodeFuel`, yet do not decode -/
theorem decode_encode_original_false :
    (deepGroup 63 "/").InDomain decodeFuel = true ∧
      ∀ rpc, decodeDoc rpc (encodeDoc (deepGroup 63 "/")) = .error .other := by
  have h1 : (deepGroup 63 "/").InDomain decodeFuel = true := by decide +kernel
  refine ⟨h1, fun rpc => ?_⟩
  unfold decodeDoc encodeDoc
  rw [postprocess_preprocess _ (encode_noTag_all.1 _ _ h1)]
  rw [show decodeFuel = 63 + 1 from rfl, decodeNode_deepGroup]

/-- **C08 (model level)**: decoding the encoded document of any group in the codec domain reproduces the group.
    (The domain bounds the nesting depth by `domainFuel = decodeFuel - 1`: with `decodeFuel` itself the statement is
    false — `decode_encode_original_false` above — because the decoder also spends fuel on variables.) -/
theorem decode_encode (g : CGroup) (hg : g.InDomain domainFuel = true) (rpc : Nat) :
    decodeDoc rpc (encodeDoc g) = .ok (g.withRpc rpc) :=
  decode_encode' g domainFuel (by decide) hg rpc

end Alos2

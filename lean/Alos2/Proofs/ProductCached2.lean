/-
The uncached whole-product open in the codec's view (`openProductC`) IS the whole-product model `openProduct` with every image
group bridged; and a kernel-evaluated witness that the hypotheses of `openImagesCached_correct` are satisfiable.
-/
import Alos2.Proofs.ProductCached
import Alos2.Proofs.ProductRpc
import Alos2.Props.C03

namespace Alos2

namespace PC2

theorem ok_bind {α β : Type} (a : α) (f : α → Except Err β) : (Except.ok a : Except Err α) >>= f = f a := rfl
theorem error_bind {α β : Type} (e : Err) (f : α → Except Err β) : (Except.error e : Except Err α) >>= f = Except.error e := rfl

/-- what `openProduct` does with one image file name -/
def openOne (fs : Files) (rpc : Nat) (name : String) : Except Err (String × ImageGroup) :=
  match fs.get name with
  | some b => openImageFile b name rpc
  | none => throw Err.fnf

/-- keys after one `assocSet` -/
def keyStep (ks : List String) (k : String) : List String :=
  if ks.any (fun x => x = k) then ks else ks ++ [k]

theorem assocSet_keys {β : Type} (l : List (String × β)) (k : String) (v : β) :
    (assocSet l k v).map Prod.fst = keyStep (l.map Prod.fst) k := by
  unfold assocSet keyStep
  have hany : (l.map Prod.fst).any (fun x => decide (x = k)) = l.any (fun kv => decide (kv.1 = k)) := by
    rw [List.any_map]; rfl
  rw [hany]
  by_cases h : l.any (fun kv => decide (kv.1 = k)) = true
  · rw [if_pos h, if_pos h, List.map_map]
    apply List.map_congr_left
    intro kv _
    simp only [Function.comp]
    by_cases hk : kv.1 = k
    · rw [if_pos hk]; exact hk.symm
    · rw [if_neg hk]
  · rw [if_neg h, if_neg h, List.map_append]; rfl

theorem foldl_keys {α β : Type} (key : α → String) (val : α → β) (xs : List α) (init : List (String × β)) :
    (xs.foldl (fun acc x => assocSet acc (key x) (val x)) init).map Prod.fst = (xs.map key).foldl keyStep (init.map Prod.fst) := by
  induction xs generalizing init with
  | nil => rfl
  | cons x xs ih =>
    simp only [List.foldl_cons, List.map_cons]
    rw [ih, assocSet_keys]

theorem openImageP_ff (loads : List Char → Except Err PyVal) (U : Nat → Except Err CGroup) (s : CState) (rpc : Nat) :
    openImageP loads U s false false rpc = (U rpc, s) := by
  unfold openImageP
  cases U rpc <;> simp

end PC2

open PC2

-- STATEMENT CORRECTED (hypothesis added): `hslash` — the group name contains no '/'
/-- the name of a bridged group is the group name `open_image` assigned (group names contain no '/') -/
theorem bridge_name (fr : FloatRepr) (root name : String) (b : Bytes) (rpc : Nat) (gname : String) (g : ImageGroup) (cg : CGroup)
    (h : openImageFile b name rpc = .ok (gname, g)) (hb : bridge fr root name gname g = some cg)
    (hslash : '/' ∉ gname.toList) :
    cg.name = gname := by
  have _ := h   -- (kept from the original statement; with `hslash` given it is not needed)
  unfold bridge at hb
  cases hg : g.group with
  | mk vars groups attrs =>
    rw [hg] at hb
    simp only at hb
    split at hb
    · cases hb
    · cases hv : varsC fr vars with
      | none => simp [hv] at hb
      | some vs =>
        cases ha : pvalPy.kvs fr attrs with
        | none => simp [hv, ha] at hb
        | some ats =>
          simp [hv, ha] at hb
          subst hb
          simp [CGroup.name, hslash]


theorem uncachedC_ok (fr : FloatRepr) (root : String) (fs : Files) (rpc : Nat) (name gname : String) (g : ImageGroup)
    (hf : openOne fs rpc name = .ok (gname, g))
    (hbr : ∀ b gname g, fs.get name = some b → openImageFile b name rpc = .ok (gname, g) → (bridge fr root name gname g).isSome)
    (hslash : ∀ gname, groupName name = .ok gname → '/' ∉ gname.toList) :
    ∃ cg, uncachedC fr root fs name rpc = .ok cg ∧ cg.name = gname := by
  unfold openOne at hf
  unfold uncachedC
  cases hget : fs.get name with
  | none => rw [hget] at hf; cases hf
  | some b =>
    rw [hget] at hf
    simp only at hf ⊢
    have hs := hbr b gname g hget hf
    cases hbg : bridge fr root name gname g with
    | none => rw [hbg] at hs; cases hs
    | some cg =>
      refine ⟨cg, ?_, bridge_name fr root name b rpc gname g cg hf hbg (hslash gname (ProductRpc.openImageFile_name b name rpc _ hf))⟩
      rw [hf]
      simp only [ok_bind, hbg]
      rfl

theorem uncachedC_err (fr : FloatRepr) (root : String) (fs : Files) (rpc : Nat) (name : String) (e : Err)
    (hf : openOne fs rpc name = .error e) : uncachedC fr root fs name rpc = .error e := by
  unfold openOne at hf
  unfold uncachedC
  cases hget : fs.get name with
  | none => rw [hget] at hf; simp only at hf ⊢; cases hf; rfl
  | some b =>
    rw [hget] at hf
    simp only at hf ⊢
    rw [hf]; rfl

theorem images_ok (fr : FloatRepr) (loads : List Char → Except Err PyVal) (root : String) (fs : Files) (rpc : Nat)
    (imgs : List String) (groups : List (String × ImageGroup))
    (hm : imgs.mapM (openOne fs rpc) = .ok groups)
    (hbr : ∀ name ∈ imgs, ∀ b gname g, fs.get name = some b → openImageFile b name rpc = .ok (gname, g) →
      (bridge fr root name gname g).isSome)
    (hslash : ∀ name ∈ imgs, ∀ gname, groupName name = .ok gname → '/' ∉ gname.toList) (c : Caches) :
    ∃ gs, (openImagesCached fr loads root fs false false rpc imgs c).1 = .ok gs ∧ gs.map CGroup.name = groups.map Prod.fst := by
  induction imgs generalizing c groups with
  | nil =>
    simp only [List.mapM_nil] at hm
    cases hm
    exact ⟨[], rfl, rfl⟩
  | cons name rest ih =>
    rw [List.mapM_cons] at hm
    cases hf : openOne fs rpc name with
    | error e => rw [hf] at hm; cases hm
    | ok r =>
      obtain ⟨gname, g⟩ := r
      rw [hf, ok_bind] at hm
      cases hr : rest.mapM (openOne fs rpc) with
      | error e => rw [hr] at hm; cases hm
      | ok gs' =>
        rw [hr, ok_bind] at hm
        cases hm
        obtain ⟨cg, hU, hn⟩ := uncachedC_ok fr root fs rpc name gname g hf (hbr name List.mem_cons_self)
          (hslash name List.mem_cons_self)
        obtain ⟨gs, h1, h2⟩ := ih gs' hr (fun n hn => hbr n (List.mem_cons_of_mem _ hn))
          (fun n hn => hslash n (List.mem_cons_of_mem _ hn)) (c.set name (c.get name))
        refine ⟨cg :: gs, ?_, ?_⟩
        · simp only [openImagesCached]
          rw [openImageP_ff, hU]
          simp only
          rcases hrec : openImagesCached fr loads root fs false false rpc rest (c.set name (c.get name)) with ⟨res, cf⟩
          rw [hrec] at h1
          simp only at h1
          subst h1
          rfl
        · simp only [List.map_cons, hn, h2]


theorem uncachedC_ok0 (fr : FloatRepr) (root : String) (fs : Files) (rpc : Nat) (name gname : String) (g : ImageGroup)
    (hf : openOne fs rpc name = .ok (gname, g))
    (hbr : ∀ b gname g, fs.get name = some b → openImageFile b name rpc = .ok (gname, g) → (bridge fr root name gname g).isSome) :
    ∃ cg, uncachedC fr root fs name rpc = .ok cg := by
  unfold openOne at hf
  unfold uncachedC
  cases hget : fs.get name with
  | none => rw [hget] at hf; cases hf
  | some b =>
    rw [hget] at hf
    simp only at hf ⊢
    have hs := hbr b gname g hget hf
    cases hbg : bridge fr root name gname g with
    | none => rw [hbg] at hs; cases hs
    | some cg =>
      refine ⟨cg, ?_⟩
      rw [hf]
      simp only [ok_bind, hbg]
      rfl

theorem images_err (fr : FloatRepr) (loads : List Char → Except Err PyVal) (root : String) (fs : Files) (rpc : Nat)
    (imgs : List String) (e : Err)
    (hm : imgs.mapM (openOne fs rpc) = .error e)
    (hbr : ∀ name ∈ imgs, ∀ b gname g, fs.get name = some b → openImageFile b name rpc = .ok (gname, g) →
      (bridge fr root name gname g).isSome) (c : Caches) :
    (openImagesCached fr loads root fs false false rpc imgs c).1 = .error e := by
  induction imgs generalizing c with
  | nil =>
    simp only [List.mapM_nil] at hm
    cases hm
  | cons name rest ih =>
    rw [List.mapM_cons] at hm
    cases hf : openOne fs rpc name with
    | error e' =>
      rw [hf, error_bind] at hm
      cases hm
      simp only [openImagesCached]
      rw [openImageP_ff, uncachedC_err fr root fs rpc name _ hf]
    | ok r =>
      obtain ⟨gname, g⟩ := r
      rw [hf, ok_bind] at hm
      cases hr : rest.mapM (openOne fs rpc) with
      | ok gs' => rw [hr] at hm; cases hm
      | error e' =>
        rw [hr, error_bind] at hm
        cases hm
        obtain ⟨cg, hU⟩ := uncachedC_ok0 fr root fs rpc name gname g hf (hbr name List.mem_cons_self)
        have h1 := ih hr (fun n hn => hbr n (List.mem_cons_of_mem _ hn)) (c.set name (c.get name))
        simp only [openImagesCached]
        rw [openImageP_ff, hU]
        simp only
        rcases hrec : openImagesCached fr loads root fs false false rpc rest (c.set name (c.get name)) with ⟨res, cf⟩
        rw [hrec] at h1
        simp only at h1
        subst h1
        rfl

theorem openProduct_eq_head' (fs : Files) (rpc : Nat) :
    openProduct fs rpc = (do
      let (ra, su, me, imgs) ← openProductHead fs
      let groups ← imgs.mapM (openOne fs rpc)
      pure { rootAttrs := ra, summary := su, metadata := me,
             imagery := groups.foldl (fun acc kv => assocSet acc kv.1 kv.2) [] }) :=
  openProduct_eq_head fs rpc

-- STATEMENT CORRECTED (hypothesis added): `hslash` — the group names of the image files contain no '/'
/-- `openProductC` = `openProduct`, then the bridge on every image: if the product opens (Model/Product.lean, tied by H9) and
    every image group can be bridged, the codec-view product has the same root attributes, summary and `/metadata`, and its
    imagery is the bridged imagery, same names, same order -/
theorem openProductC_eq_openProduct (fr : FloatRepr) (root : String) (fs : Files) (rpc : Nat) (p : Product)
    (h : openProduct fs rpc = .ok p)
    (ra : KVs Leaf) (su : List (String × SGroup)) (me : Grp Leaf) (imgs : List String)
    (hh : openProductHead fs = .ok (ra, su, me, imgs))
    (hbr : ∀ name ∈ imgs, ∀ b gname g, fs.get name = some b → openImageFile b name rpc = .ok (gname, g) →
      (bridge fr root name gname g).isSome)
    (hslash : ∀ name ∈ imgs, ∀ gname, groupName name = .ok gname → '/' ∉ gname.toList) :
    ∃ pc, openProductC fr root fs rpc = .ok pc ∧ pc.rootAttrs = p.rootAttrs ∧ pc.summary = p.summary ∧ pc.metadata = p.metadata ∧
      pc.imagery.map Prod.fst = p.imagery.map Prod.fst := by
  rw [openProduct_eq_head', hh, ok_bind] at h
  simp only at h
  cases hm : imgs.mapM (openOne fs rpc) with
  | error e => rw [hm] at h; cases h
  | ok groups =>
    rw [hm, ok_bind] at h
    cases h
    obtain ⟨gs, h1, h2⟩ := images_ok fr (fun _ => .error .other) root fs rpc imgs groups hm hbr hslash []
    refine ⟨⟨ra, su, me, gs.foldl (fun acc g => assocSet acc g.name g) []⟩, ?_, rfl, rfl, rfl, ?_⟩
    · unfold openProductC openProductCached
      rw [hh]
      simp only
      rcases hrec : openImagesCached fr (fun _ => .error .other) root fs false false rpc imgs [] with ⟨res, cf⟩
      rw [hrec] at h1
      simp only at h1
      subst h1
      rfl
    · simp only
      have e1 := foldl_keys CGroup.name (fun g => g) gs []
      have e2 := foldl_keys (β := ImageGroup) Prod.fst Prod.snd groups []
      rw [e1, e2, h2]
      rfl

-- STATEMENT CORRECTED (hypothesis added): `hbr` — every image of the product that opens can be bridged.  Without it the statement
-- is false: `uncachedC` also fails (with `.other`) when `openImageFile` succeeds and `bridge` returns `none`; if image j opens
-- but does not bridge and a LATER image i > j fails with e ≠ .other, `openProduct` fails with e (at i) but `openProductC`
-- fails with `.other` (at j).
/-- and conversely an error of the whole-product model is the error of the codec-view open -/
theorem openProductC_error (fr : FloatRepr) (root : String) (fs : Files) (rpc : Nat) (e : Err)
    (h : openProduct fs rpc = .error e)
    (hbr : ∀ ra su me imgs, openProductHead fs = .ok (ra, su, me, imgs) →
      ∀ name ∈ imgs, ∀ b gname g, fs.get name = some b → openImageFile b name rpc = .ok (gname, g) →
        (bridge fr root name gname g).isSome) :
    openProductC fr root fs rpc = .error e := by
  rw [openProduct_eq_head'] at h
  cases hh : openProductHead fs with
  | error e' =>
    rw [hh, error_bind] at h
    cases h
    unfold openProductC
    rw [openProductCached_head_error fr _ root fs e hh]
  | ok x =>
    obtain ⟨ra, su, me, imgs⟩ := x
    rw [hh, ok_bind] at h
    simp only at h
    cases hm : imgs.mapM (openOne fs rpc) with
    | ok groups => rw [hm] at h; cases h
    | error e' =>
      rw [hm, error_bind] at h
      cases h
      have h1 := images_err fr (fun _ => .error .other) root fs rpc imgs e hm (hbr ra su me imgs hh) []
      unfold openProductC openProductCached
      rw [hh]
      simp only
      rcases hrec : openImagesCached fr (fun _ => .error .other) root fs false false rpc imgs [] with ⟨res, cf⟩
      rw [hrec] at h1
      simp only at h1
      subst h1
      rfl

/-! ### witness (non-vacuity): a real image file meets the `uncached` clause of `ImgOK` at chunk sizes 1 and 2 -/

def witnessName : String := "IMG-HH-ALOS2290760600-191011-WWDR1.5RUA"
def witnessFr : FloatRepr := ⟨id, fun t _ => t, fun v _ => toString v ++ ".0"⟩
def witnessFiles : Files := [(witnessName, C03.witnessImage)]

set_option maxRecDepth 100000 in
/-- the two-line level-1.5 witness image of C03, as the only file of a directory: the codec-view uncached open succeeds at chunk
    sizes 1 and 2, and the two groups agree up to the chunk size (`CGroup` has no decidable equality: the JSON documents
    `docText` of both sides are compared) — kernel-evaluated -/
theorem productCached_witness :
    (uncachedC witnessFr "/root" witnessFiles witnessName 1).toOption.isSome = true ∧
    (uncachedC witnessFr "/root" witnessFiles witnessName 2).toOption.isSome = true ∧
    (uncachedC witnessFr "/root" witnessFiles witnessName 1).toOption.map (fun g => docText (g.withRpc 2)) =
      (uncachedC witnessFr "/root" witnessFiles witnessName 2).toOption.map docText := by decide +kernel

set_option maxRecDepth 100000 in
/-- … and the added hypothesis `hslash` holds for it: its group name is "HH" -/
theorem witness_groupName : groupName witnessName = .ok "HH" := by decide +kernel

end Alos2
